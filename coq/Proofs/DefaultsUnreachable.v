(** C03u — the default arms by which the model replaces Rust's [unreachable!()] / [unwrap()]
    are never taken.  For every site a STRICT twin of the model parser is defined in which the
    default arm is a [Panic] outcome (the conversion returns [None] outside the explicit list),
    and the strict twin is proved pointwise equal to the model parser; since the model parser
    never panics (LexTotal), neither does the strict twin: the arm is dead. *)
From Coq Require Import List String NArith Bool Arith Lia ZifyBool ZifyN.
From FP Require Import Model.Chars Model.Winnow Model.Ast Model.Args Model.Perm Model.Format
  Model.Lex Model.Prec Spec.StrictArms Proofs.WinnowTotal Proofs.LexTotal.
Import ListNotations.
Local Open Scope N_scope.

(** * A map whose conversion may hit an unreachable arm *)
Lemma pmap_strict_eq {I A B} site (f : A -> option B) (g : A -> B) (p : @parser I A) i :
  (forall a r, p i = (Ok a, r) -> f a = Some (g a)) ->
  pmap_strict site f p i = pmap g p i.
Proof.
  intros H. unfold pmap_strict, pmap.
  destruct (p i) as [[a|c|c|s] r] eqn:E; try reflexivity.
  rewrite (H a r eq_refl). reflexivity.
Qed.

(** congruences (parsers are functions; no extensionality axiom is used) *)
Lemma alt_head_ext {I A} (p p' : @parser I A) ps i :
  p i = p' i -> alt (p :: ps) i = alt (p' :: ps) i.
Proof. intros H. destruct ps as [|q ps]; cbn [alt]; rewrite H; reflexivity. Qed.

Lemma alt_second_ext {I A} (a p p' : @parser I A) ps i :
  p i = p' i -> alt (a :: p :: ps) i = alt (a :: p' :: ps) i.
Proof.
  intros H. change (alt (a :: p :: ps) i) with
    (match a i with (Back _, _) => alt (p :: ps) i | x => x end).
  change (alt (a :: p' :: ps) i) with
    (match a i with (Back _, _) => alt (p' :: ps) i | x => x end).
  rewrite (alt_head_ext p p' ps i H). reflexivity.
Qed.

Lemma context_ext {I A} c (p p' : @parser I A) i : p i = p' i -> context c p i = context c p' i.
Proof. intros H. unfold context. rewrite H. reflexivity. Qed.

Lemma preceded_ext {I A B} (q : @parser I A) (p p' : @parser I B) i :
  (forall j, p j = p' j) -> preceded q p i = preceded q p' i.
Proof.
  intros H. unfold preceded, bind. destruct (q i) as [[a|c|c|s] r]; try reflexivity. apply H.
Qed.

Lemma sep_fuel_ext {I A B} (len : I -> nat) (p p' : @parser I A) (s : @parser I B) :
  (forall j, p j = p' j) -> forall n i, sep_fuel len n p s i = sep_fuel len n p' s i.
Proof.
  intros H n. induction n as [|n IH]; intros i; cbn [sep_fuel]; [reflexivity|].
  destruct (s i) as [[u|c|c|m] r1]; try reflexivity.
  destruct (Nat.leb (len i) (len r1)); [reflexivity|].
  rewrite <- H. destruct (p r1) as [[a|c|c|m] r2]; try reflexivity.
  rewrite IH. reflexivity.
Qed.

Lemma separated1_ext {I A B} (len : I -> nat) (p p' : @parser I A) (s : @parser I B) i :
  (forall j, p j = p' j) -> separated1 len p s i = separated1 len p' s i.
Proof.
  intros H. unfold separated1. rewrite <- H.
  destruct (p i) as [[a|c|c|m] r]; try reflexivity.
  rewrite (sep_fuel_ext len p p' s H). reflexivity.
Qed.

(** membership in a literal character set is membership in the explicit list *)
Lemma mem_In c l : mem c l = true -> In c l.
Proof.
  induction l as [|d l IH]; cbn [mem In]; intros H; [discriminate|].
  destruct (c =? d) eqn:E; [left; symmetry; apply N.eqb_eq; exact E|right; apply IH; exact H].
Qed.

Lemma in_str_In s c : in_str s c = true -> In c (chars s).
Proof. apply mem_In. Qed.

Lemma pair_one_of_inv {A} (p : sparser A) (q : N -> bool) i n u r :
  pair_ p (one_of q) i = (Ok (n, u), r) -> q u = true.
Proof.
  unfold pair_, bind, pmap, one_of. intros H.
  destruct (p i) as [[a|c|c|s] r1]; try discriminate.
  destruct r1 as [|d r1']; try discriminate.
  destruct (q d) eqn:Eq; try discriminate.
  inversion H; subst. exact Eq.
Qed.

Lemma one_of_inv {T} (q : T -> bool) (i : list T) u r : one_of q i = (Ok u, r) -> q u = true.
Proof.
  unfold one_of. intros H. destruct i as [|d i']; try discriminate.
  destruct (q d) eqn:Eq; try discriminate. inversion H; subst. exact Eq.
Qed.

Lemma no_panic_of_wf {A} c (p : sparser A) : wf c p -> forall i s, fst (p i) <> Panic s.
Proof.
  intros W i s. specialize (W i). destruct (p i) as [[a|x|x|m] r]; cbn [fst]; try discriminate.
  destruct W.
Qed.

(** * Site 1: size.rs — the unit letter *)
Lemma size_set_list : chars "bcwkMGT" = [98; 99; 119; 107; 77; 71; 84].
Proof. reflexivity. Qed.

Lemma size_unit_strict_ok c :
  in_str "bcwkMGT" c = true -> size_unit_strict c = Some (size_unit_of c).
Proof.
  intros H. apply in_str_In in H. rewrite size_set_list in H. cbn [In] in H.
  repeat (destruct H as [H|H]; [subst c; reflexivity|]). destruct H.
Qed.

Lemma size_unit_strict_only c :
  size_unit_strict c <> None <-> In c [98; 99; 119; 107; 77; 71; 84].
Proof.
  unfold size_unit_strict. cbn [In]. split.
  - intros H.
    destruct (c =? 98) eqn:E1; [lia|]. destruct (c =? 99) eqn:E2; [lia|].
    destruct (c =? 119) eqn:E3; [lia|]. destruct (c =? 107) eqn:E4; [lia|].
    destruct (c =? 77) eqn:E5; [lia|]. destruct (c =? 71) eqn:E6; [lia|].
    destruct (c =? 84) eqn:E7; [lia|]. congruence.
  - intros H. repeat (destruct H as [H|H]; [subst c; discriminate|]). destruct H.
Qed.

Lemma parse_size_strict_eq i : parse_size_strict i = parse_size i.
Proof.
  unfold parse_size_strict, parse_size. apply context_ext. apply alt_head_ext.
  apply pmap_strict_eq. intros [n u] r H. apply pair_one_of_inv in H.
  rewrite (size_unit_strict_ok u H). reflexivity.
Qed.

Lemma parse_size_strict_no_panic i s : fst (parse_size_strict i) <> Panic s.
Proof. rewrite parse_size_strict_eq. apply (no_panic_of_wf false), wf_parse_size. Qed.

(** * Site 2: timespec.rs — the unit letter *)
Lemma time_set_list : chars "smhd" = [115; 109; 104; 100].
Proof. reflexivity. Qed.

Lemma time_unit_strict_ok c :
  in_str "smhd" c = true -> time_unit_strict c = Some (time_unit_of c).
Proof.
  intros H. apply in_str_In in H. rewrite time_set_list in H. cbn [In] in H.
  repeat (destruct H as [H|H]; [subst c; reflexivity|]). destruct H.
Qed.

Lemma time_unit_strict_only c : time_unit_strict c <> None <-> In c [115; 109; 104; 100].
Proof.
  unfold time_unit_strict. cbn [In]. split.
  - intros H.
    destruct (c =? 115) eqn:E1; [lia|]. destruct (c =? 109) eqn:E2; [lia|].
    destruct (c =? 104) eqn:E3; [lia|]. destruct (c =? 100) eqn:E4; [lia|]. congruence.
  - intros H. repeat (destruct H as [H|H]; [subst c; discriminate|]). destruct H.
Qed.

Lemma parse_time_strict_eq d i : parse_time_strict d i = parse_time d i.
Proof.
  unfold parse_time_strict, parse_time. apply context_ext. apply alt_head_ext.
  apply pmap_strict_eq. intros [n u] r H. apply pair_one_of_inv in H.
  rewrite (time_unit_strict_ok u H). reflexivity.
Qed.

Lemma parse_time_strict_no_panic d i s : fst (parse_time_strict d i) <> Panic s.
Proof. rewrite parse_time_strict_eq. apply (no_panic_of_wf false), wf_parse_time. Qed.

(** * Site 3: filetype.rs — the type letter *)
Lemma filetype_set_list : chars "bcdpfls" = [98; 99; 100; 112; 102; 108; 115].
Proof. reflexivity. Qed.

Lemma filetype_strict_ok c :
  in_str "bcdpfls" c = true -> filetype_strict c = Some (filetype_of c).
Proof.
  intros H. apply in_str_In in H. rewrite filetype_set_list in H. cbn [In] in H.
  repeat (destruct H as [H|H]; [subst c; reflexivity|]). destruct H.
Qed.

Lemma filetype_strict_only c :
  filetype_strict c <> None <-> In c [98; 99; 100; 112; 102; 108; 115].
Proof.
  unfold filetype_strict. cbn [In]. split.
  - intros H.
    destruct (c =? 98) eqn:E1; [lia|]. destruct (c =? 99) eqn:E2; [lia|].
    destruct (c =? 100) eqn:E3; [lia|]. destruct (c =? 112) eqn:E4; [lia|].
    destruct (c =? 102) eqn:E5; [lia|]. destruct (c =? 108) eqn:E6; [lia|].
    destruct (c =? 115) eqn:E7; [lia|]. congruence.
  - intros H. repeat (destruct H as [H|H]; [subst c; discriminate|]). destruct H.
Qed.

Lemma parse_filetype_strict_eq i : parse_filetype_strict i = parse_filetype i.
Proof.
  unfold parse_filetype_strict, parse_filetype. apply alt_second_ext.
  apply pmap_strict_eq. intros u r H. apply one_of_inv in H. apply filetype_strict_ok, H.
Qed.

Lemma parse_filetypes_strict_eq i : parse_filetypes_strict i = parse_filetypes i.
Proof.
  unfold parse_filetypes_strict, parse_filetypes. apply separated1_ext.
  exact parse_filetype_strict_eq.
Qed.

Lemma parse_filetypes_strict_no_panic i s : fst (parse_filetypes_strict i) <> Panic s.
Proof. rewrite parse_filetypes_strict_eq. apply (no_panic_of_wf false), wf_parse_filetypes. Qed.

(** * Sites 4 and 5: permission.rs — [Permission::value], the [unwrap()] of
    [from_symbolic_str] (None on the empty string) and the operator match *)
Lemma sym_set_list : chars "ugoa" = [117; 103; 111; 97] /\ chars "rwx" = [114; 119; 120]
                     /\ chars "+=-" = [43; 61; 45].
Proof. repeat split. Qed.

Lemma sym_value_strict_ok c :
  in_str "ugoa" c = true \/ in_str "rwx" c = true -> sym_value_strict c = Some (sym_value c).
Proof.
  destruct sym_set_list as (E1 & E2 & _).
  intros [H|H]; apply in_str_In in H; [rewrite E1 in H|rewrite E2 in H]; cbn [In] in H;
    repeat (destruct H as [H|H]; [subst c; reflexivity|]); destruct H.
Qed.

Lemma sym_value_strict_only c :
  sym_value_strict c <> None <-> In c [117; 103; 111; 97; 114; 119; 120].
Proof.
  unfold sym_value_strict. cbn [In]. split.
  - intros H.
    destruct (c =? 117) eqn:E1; [lia|]. destruct (c =? 103) eqn:E2; [lia|].
    destruct (c =? 111) eqn:E3; [lia|]. destruct (c =? 97) eqn:E4; [lia|].
    destruct (c =? 114) eqn:E5; [lia|]. destruct (c =? 119) eqn:E6; [lia|].
    destruct (c =? 120) eqn:E7; [lia|]. congruence.
  - intros H. repeat (destruct H as [H|H]; [subst c; discriminate|]). destruct H.
Qed.

Lemma span_forall p i a b : span p i = (a, b) -> Forall (fun c => p c = true) a.
Proof.
  revert a b. induction i as [|c i IH]; intros a b H; cbn [span] in H.
  - inversion H; subst. constructor.
  - destruct (p c) eqn:Ep.
    + destruct (span p i) as [a' b'] eqn:Es. inversion H; subst.
      constructor; [exact Ep|]. eapply IH. reflexivity.
    + inversion H; subst. constructor.
Qed.

Lemma take_while1_inv p i a r :
  take_while 1 p i = (Ok a, r) -> a <> [] /\ Forall (fun c => p c = true) a.
Proof.
  unfold take_while. intros H. destruct (span p i) as [a' b'] eqn:Es.
  destruct (Nat.leb 1 (List.length a')) eqn:El; try discriminate.
  inversion H; subst. split.
  - intros ->. cbn in El. discriminate.
  - eapply span_forall. exact Es.
Qed.

Lemma fold_or_strict_ok (P : N -> Prop) :
  (forall c, P c -> sym_value_strict c = Some (sym_value c)) ->
  forall s acc, Forall P s ->
  fold_left or_strict s (Some acc) = Some (fold_left (fun a c => N.lor a (sym_value c)) s acc).
Proof.
  intros HP s. induction s as [|c s IH]; intros acc HF; cbn [fold_left]; [reflexivity|].
  inversion HF as [|c' s' Hc Hs]; subst. unfold or_strict at 2. rewrite (HP c Hc).
  apply IH. exact Hs.
Qed.

Lemma from_symbolic_strict_ok (q : N -> bool) s :
  (forall c, q c = true -> sym_value_strict c = Some (sym_value c)) ->
  s <> [] -> Forall (fun c => q c = true) s ->
  from_symbolic_strict s = Some (from_symbolic s).
Proof.
  intros HP Hne HF. unfold from_symbolic_strict, from_symbolic.
  destruct s as [|c s]; [congruence|].
  apply (fold_or_strict_ok (fun c => q c = true) HP). exact HF.
Qed.

Lemma cut_context_ok_inv {A} c (p : sparser A) i a r :
  cut_err (context c p) i = (Ok a, r) -> p i = (Ok a, r).
Proof.
  unfold cut_err, context. destruct (p i) as [[x|x|x|x] r']; intros H; try discriminate.
  exact H.
Qed.

Lemma parse_partial_strict_eq i : parse_partial_strict i = parse_partial i.
Proof.
  unfold parse_partial_strict, parse_partial. unfold bind at 1 3.
  destruct (take_while 1 (in_str "ugoa") i) as [[target|c|c|s] r1] eqn:E1; try reflexivity.
  apply take_while1_inv in E1. destruct E1 as [Tne TF].
  unfold bind.
  destruct (cut_err (context (expected "symbolic_permission_symbol") (one_of (in_str "+=-"))) r1)
    as [[op|c|c|s] r2] eqn:E2; try reflexivity.
  apply cut_context_ok_inv in E2. apply one_of_inv in E2.
  apply pmap_strict_eq. intros level r3 E3.
  apply cut_context_ok_inv in E3. apply take_while1_inv in E3. destruct E3 as [Lne LF].
  unfold partial_strict.
  rewrite (from_symbolic_strict_ok (in_str "ugoa") target
             (fun c H => sym_value_strict_ok c (or_introl H)) Tne TF).
  rewrite (from_symbolic_strict_ok (in_str "rwx") level
             (fun c H => sym_value_strict_ok c (or_intror H)) Lne LF).
  apply in_str_In in E2. destruct sym_set_list as (_ & _ & E). rewrite E in E2. cbn [In] in E2.
  repeat (destruct E2 as [E2|E2]; [subst op; reflexivity|]). destruct E2.
Qed.

Lemma parse_permission_strict_eq i : parse_permission_strict i = parse_permission i.
Proof.
  unfold parse_permission_strict, parse_permission. apply context_ext. apply alt_second_ext.
  unfold pmap. rewrite (separated1_ext slen _ _ _ i parse_partial_strict_eq). reflexivity.
Qed.

Lemma parse_partial_strict_no_panic i s : fst (parse_partial_strict i) <> Panic s.
Proof. rewrite parse_partial_strict_eq. apply (no_panic_of_wf false), wf_parse_partial. Qed.

Lemma parse_permission_strict_no_panic i s : fst (parse_permission_strict i) <> Panic s.
Proof. rewrite parse_permission_strict_eq. apply (no_panic_of_wf false), wf_parse_permission. Qed.

(** * Site 6: format.rs — [u16::from_str_radix(oct, 8).unwrap()]: [None] on the empty string, on
    a character that is not an octal digit, and on overflow of the result type *)
Lemma span_max_inv p n i a b :
  span_max n p i = (a, b) -> Forall (fun c => p c = true) a /\ (List.length a <= n)%nat.
Proof.
  revert i a b. induction n as [|n IH]; intros i a b H; cbn [span_max] in H.
  - inversion H; subst. split; [constructor|cbn; lia].
  - destruct i as [|c i].
    + inversion H; subst. split; [constructor|cbn; lia].
    + destruct (p c) eqn:Ep.
      * destruct (span_max n p i) as [a' b'] eqn:Es.
        destruct (IH i a' b' Es) as [HF HL]. inversion H; subst. split; [constructor; assumption|cbn; lia].
      * inversion H; subst. split; [constructor|cbn; lia].
Qed.

Lemma take_while_33_inv p i a r :
  take_while_mn 3 3 p i = (Ok a, r) ->
  exists x y z, a = [x; y; z] /\ p x = true /\ p y = true /\ p z = true.
Proof.
  unfold take_while_mn. intros H. destruct (span_max 3 p i) as [a' b'] eqn:Es.
  destruct (Nat.leb 3 (List.length a')) eqn:El; try discriminate.
  inversion H; subst. apply span_max_inv in Es. destruct Es as [HF HL].
  apply Nat.leb_le in El.
  destruct a as [|x [|y [|z [|w a]]]]; cbn in El, HL; try lia.
  exists x, y, z. inversion HF as [|x' l' Hx HF1]; subst.
  inversion HF1 as [|y' l'' Hy HF2]; subst. inversion HF2 as [|z' l''' Hz HF3]; subst.
  repeat split; assumption.
Qed.

Lemma digit_strict_oct c : is_oct c = true -> digit_strict 8 c = Some (digit_val c).
Proof.
  unfold is_oct, digit_strict, digit_val. intros H.
  destruct ((48 <=? c) && (c <? 48 + 8)) eqn:E; [reflexivity|lia].
Qed.

Lemma digit_val_oct c : is_oct c = true -> digit_val c < 8.
Proof. unfold is_oct, digit_val. lia. Qed.

Lemma oct3_strict_ok x y z :
  is_oct x = true -> is_oct y = true -> is_oct z = true ->
  oct_u16_strict [x; y; z] = Some (oct_value [x; y; z]) /\ oct_value [x; y; z] < 512.
Proof.
  intros Hx Hy Hz.
  pose proof (digit_val_oct x Hx) as Bx. pose proof (digit_val_oct y Hy) as By.
  pose proof (digit_val_oct z Hz) as Bz.
  unfold oct_u16_strict, from_str_radix_strict, oct_value, radix_value. cbn [fold_left].
  unfold radix_step_strict.
  rewrite (digit_strict_oct x Hx), (digit_strict_oct y Hy), (digit_strict_oct z Hz).
  destruct (0 * 8 + digit_val x <? 65536) eqn:E1; [|lia].
  destruct ((0 * 8 + digit_val x) * 8 + digit_val y <? 65536) eqn:E2; [|lia].
  destruct (((0 * 8 + digit_val x) * 8 + digit_val y) * 8 + digit_val z <? 65536) eqn:E3; [|lia].
  split; [reflexivity|lia].
Qed.

Lemma parse_special_strict_eq i : parse_special_strict i = parse_special i.
Proof.
  unfold parse_special_strict, parse_special. apply alt_head_ext. apply preceded_ext.
  intros j. unfold special_rest. apply alt_head_ext. apply pmap_strict_eq.
  intros oct r H. apply take_while_33_inv in H.
  destruct H as (x & y & z & -> & Hx & Hy & Hz).
  destruct (oct3_strict_ok x y z Hx Hy Hz) as [E _]. rewrite E. reflexivity.
Qed.

Lemma parse_special_strict_no_panic i s : fst (parse_special_strict i) <> Panic s.
Proof. rewrite parse_special_strict_eq. apply (no_panic_of_wf false), wf_parse_special. Qed.

Lemma parse_special_oct_range :
  post (fun x => match x with XAscii n => n < 512 | _ => True end) parse_special.
Proof.
  unfold parse_special. apply post_alt. repeat constructor.
  - apply post_preceded. apply post_alt. repeat constructor;
      try (apply post_value; exact I).
    intros i a r H. unfold pmap in H.
    destruct (take_while_mn 3 3 is_oct i) as [[oct|c|c|s] r2] eqn:E2; try discriminate.
    apply take_while_33_inv in E2. destruct E2 as (x & y & z & -> & Hx & Hy & Hz).
    destruct (oct3_strict_ok x y z Hx Hy Hz) as [_ B]. inversion H; subst. exact B.
  - apply post_value. exact I.
Qed.

(** * Site 7: precedence.rs — [out.first().unwrap()] and the leaf match of [atom] *)
Lemma prim_expr_strict_only t : prim_expr_strict t <> None <-> is_primary t = true.
Proof.
  destruct t as [| | | | | |l]; cbn; try (split; [congruence|discriminate]).
  destruct l; cbn; split; intros; congruence.
Qed.

(** the first alternative of [atom] is taken exactly on primary tokens, and there the strict
    leaf match has a value: the one the model returns *)
Lemma atom_primary_arm n t r :
  is_primary t = true ->
  exists e, prim_expr_strict t = Some e /\ atom (S n) (t :: r) = POk e r.
Proof.
  destruct t as [| | | | | |l]; cbn [is_primary]; try discriminate. intros _.
  exists (leaf_expr l). split; [destruct l; reflexivity|reflexivity].
Qed.

Lemma atom_not_primary_arm n t r e r' :
  is_primary t = false -> atom (S n) (t :: r) = POk e r' ->
  t = KNot \/ t = KLParen.
Proof.
  destruct t as [| | | | | |l]; cbn [is_primary atom]; intros H1 H2; try discriminate; auto.
Qed.

Lemma rt_loop_collect f k first ts :
  rt_loop f k first ts = match rt_collect f k ts with Some _ => Some first | None => None end.
Proof.
  revert ts. induction k as [|k IH]; intros ts; destruct ts as [|t ts]; cbn [rt_loop rt_collect];
    try reflexivity.
  destruct (f (t :: ts)) as [e r| |]; try reflexivity.
  rewrite IH. destruct (rt_collect f k r); reflexivity.
Qed.

Lemma prec_parser_strict_eq ts :
  prec_parser_strict ts = match prec_parser ts with Some e => Some (Some e) | None => None end.
Proof.
  unfold prec_parser_strict, prec_collect, prec_parser. cbv zeta.
  destruct (list_ (atom (S (List.length ts))) ts) as [e r| |]; try reflexivity.
  rewrite rt_loop_collect.
  destruct (rt_collect (list_ (atom (S (List.length ts)))) (List.length r) r); reflexivity.
Qed.

Lemma prec_first_never_none ts : prec_parser_strict ts <> Some None.
Proof. rewrite prec_parser_strict_eq. destruct (prec_parser ts); discriminate. Qed.


(** * The statements delivered as C03u *)
Lemma c03u_size :
  (forall i, parse_size_strict i = parse_size i)
  /\ (forall i s, fst (parse_size_strict i) <> Panic s)
  /\ (forall c, in_str "bcwkMGT" c = true -> size_unit_strict c = Some (size_unit_of c))
  /\ (forall c, size_unit_strict c <> None <-> In c [98; 99; 119; 107; 77; 71; 84]).
Proof.
  repeat split; try apply size_unit_strict_only.
  - apply parse_size_strict_eq. - apply parse_size_strict_no_panic. - apply size_unit_strict_ok.
Qed.

Lemma c03u_time :
  (forall d i, parse_time_strict d i = parse_time d i)
  /\ (forall d i s, fst (parse_time_strict d i) <> Panic s)
  /\ (forall c, in_str "smhd" c = true -> time_unit_strict c = Some (time_unit_of c))
  /\ (forall c, time_unit_strict c <> None <-> In c [115; 109; 104; 100]).
Proof.
  repeat split; try apply time_unit_strict_only.
  - apply parse_time_strict_eq. - apply parse_time_strict_no_panic. - apply time_unit_strict_ok.
Qed.

Lemma c03u_filetype :
  (forall i, parse_filetype_strict i = parse_filetype i)
  /\ (forall i, parse_filetypes_strict i = parse_filetypes i)
  /\ (forall i s, fst (parse_filetypes_strict i) <> Panic s)
  /\ (forall c, in_str "bcdpfls" c = true -> filetype_strict c = Some (filetype_of c))
  /\ (forall c, filetype_strict c <> None <-> In c [98; 99; 100; 112; 102; 108; 115]).
Proof.
  repeat split; try apply filetype_strict_only.
  - apply parse_filetype_strict_eq. - apply parse_filetypes_strict_eq.
  - apply parse_filetypes_strict_no_panic. - apply filetype_strict_ok.
Qed.

Lemma c03u_sym_value :
  (forall c, in_str "ugoa" c = true \/ in_str "rwx" c = true ->
             sym_value_strict c = Some (sym_value c))
  /\ (forall c, sym_value_strict c <> None <-> In c [117; 103; 111; 97; 114; 119; 120])
  /\ (forall i target r, take_while 1 (in_str "ugoa") i = (Ok target, r) ->
        from_symbolic_strict target = Some (from_symbolic target))
  /\ (forall i level r, take_while 1 (in_str "rwx") i = (Ok level, r) ->
        from_symbolic_strict level = Some (from_symbolic level)).
Proof.
  split; [exact sym_value_strict_ok|]. split; [exact sym_value_strict_only|]. split.
  - intros i t r H. apply take_while1_inv in H. destruct H as [Hne HF].
    exact (from_symbolic_strict_ok (in_str "ugoa") t
             (fun c H => sym_value_strict_ok c (or_introl H)) Hne HF).
  - intros i t r H. apply take_while1_inv in H. destruct H as [Hne HF].
    exact (from_symbolic_strict_ok (in_str "rwx") t
             (fun c H => sym_value_strict_ok c (or_intror H)) Hne HF).
Qed.

Lemma c03u_operator :
  (forall i, parse_partial_strict i = parse_partial i)
  /\ (forall i, parse_permission_strict i = parse_permission i)
  /\ (forall i s, fst (parse_partial_strict i) <> Panic s)
  /\ (forall i s, fst (parse_permission_strict i) <> Panic s).
Proof.
  repeat split.
  - apply parse_partial_strict_eq. - apply parse_permission_strict_eq.
  - apply parse_partial_strict_no_panic. - apply parse_permission_strict_no_panic.
Qed.

Lemma c03u_octal :
  (forall i, parse_special_strict i = parse_special i)
  /\ (forall i s, fst (parse_special_strict i) <> Panic s)
  /\ (forall i oct r, take_while_mn 3 3 is_oct i = (Ok oct, r) ->
        oct_u16_strict oct = Some (oct_value oct) /\ oct_value oct < 512)
  /\ (forall i n r, parse_special i = (Ok (XAscii n), r) -> n < 512).
Proof.
  split; [exact parse_special_strict_eq|]. split; [exact parse_special_strict_no_panic|]. split.
  - intros i oct r H. apply take_while_33_inv in H.
    destruct H as (x & y & z & -> & Hx & Hy & Hz). apply oct3_strict_ok; assumption.
  - intros i n r H. exact (parse_special_oct_range i (XAscii n) r H).
Qed.

Lemma c03u_prec_first :
  (forall ts, prec_parser_strict ts
              = match prec_parser ts with Some e => Some (Some e) | None => None end)
  /\ (forall ts, prec_parser_strict ts <> Some None).
Proof. split; [exact prec_parser_strict_eq|exact prec_first_never_none]. Qed.

Lemma c03u_prec_leaf :
  (forall t, prim_expr_strict t <> None <-> is_primary t = true)
  /\ (forall n t r, is_primary t = true ->
        exists e, prim_expr_strict t = Some e /\ atom (S n) (t :: r) = POk e r)
  /\ (forall n t r e r', is_primary t = false -> atom (S n) (t :: r) = POk e r' ->
        t = KNot \/ t = KLParen).
Proof.
  split; [exact prim_expr_strict_only|]. split; [exact atom_primary_arm|exact atom_not_primary_arm].
Qed.
