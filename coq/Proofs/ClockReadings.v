(** The clock readings embedded in a compiled body are exactly the first readings of the clock,
    one per time test, in traversal order. *)
From Coq Require Import List String NArith Bool Arith Lia.
From FP Require Import Model.Chars Model.Ast Model.Sexp Model.Compile.
From FP Require Import Spec.ClockForm Proofs.ClockFacts Proofs.GlueRoundTrip.
Import ListNotations.
Local Open Scope N_scope.

Lemma count_time_tests_eq : forall e, count_time_tests e = time_tests e.
Proof. induction e; cbn [count_time_tests time_tests]; congruence. Qed.

(** * the form of a time test *)
Lemma clock_atoms_time : forall now (f : string) c,
  is_time_field (chars f) = true -> clock_atoms (compile_time now f c) = [print_dec now].
Proof.
  intros now f c Hf. unfold compile_time. destruct (cmp_val c) as [u n].
  destruct c; cbn [cmp_op]; cbn; rewrite Hf; reflexivity.
Qed.

(** * forms without a reading *)
Lemma clock_atoms_items_app : forall a b,
  clock_atoms_items (items_app a b) = clock_atoms_items a ++ clock_atoms_items b.
Proof.
  induction a as [|ws x r IH]; intro b; cbn [items_app clock_atoms_items]; [reflexivity|].
  now rewrite IH, app_assoc.
Qed.

Lemma clock_atoms_items_sep : forall sep l,
  Forall (fun x => clock_atoms x = []) l -> clock_atoms_items (items_sep sep l) = [].
Proof.
  intros sep l H. induction H as [|x l Hx Hl IH]; cbn [items_sep clock_atoms_items]; [reflexivity|].
  now rewrite Hx, IH.
Qed.

Lemma clock_atoms_snippet : forall f s, snippet f = Some s -> clock_atoms s = [].
Proof.
  intros f s H. destruct f; cbn [snippet] in H; try discriminate; inversion H; subst; clear H;
    try reflexivity;
    match goal with |- context [if ?b then _ else _] => destruct b end; reflexivity.
Qed.

Lemma clock_atoms_format_items : forall fmt, Forall (fun x => clock_atoms x = []) (format_items fmt).
Proof.
  induction fmt as [|el r IH]; cbn [format_items]; [constructor|].
  destruct el as [s|f|x]; try exact IH.
  destruct (snippet f) as [s|] eqn:E; [|exact IH].
  constructor; [exact (clock_atoms_snippet _ _ E)|exact IH].
Qed.

Lemma clock_atoms_format : forall fmt x, compile_format fmt = COk x -> clock_atoms x = [].
Proof.
  intros fmt x H. unfold compile_format in H. destruct (template fmt) as [ps| |]; try discriminate.
  pose proof (clock_atoms_format_items fmt) as F.
  destruct (format_items fmt) as [|i items]; inversion H; subst; clear H; [reflexivity|].
  cbn [items_app]. 
  change (clock_atoms_items (LCons [] (atom "format") (LCons [32] (atom "#f") (LCons [32] (LStr ps) (items_sep [32] (i :: items))))) = []).
  cbn [clock_atoms_items]. rewrite (clock_atoms_items_sep _ _ F). reflexivity.
Qed.

Lemma clock_atoms_type_check : forall t, clock_atoms (type_check t) = [].
Proof. intro t. reflexivity. Qed.

Lemma clock_atoms_types : forall l, clock_atoms (compile_types l) = [].
Proof.
  intro l. unfold compile_types. destruct l as [|t [|t' r]]; try reflexivity.
  change (clock_atoms_items (LCons [] (atom "or") (items_sep [32] (map type_check (t :: t' :: r)))) = []).
  cbn [clock_atoms_items]. rewrite clock_atoms_items_sep; [reflexivity|].
  apply Forall_forall. intros x Hx. apply in_map_iff in Hx as (y & <- & _). apply clock_atoms_type_check.
Qed.

(** * one test, one action *)
Lemma compile_test_readings : forall t s x s',
  compile_test t s = COk (x, s') ->
  (count_time_tests (ETest t) <= List.length (st_clock s))%nat ->
  clock_atoms x = map print_dec (firstn (count_time_tests (ETest t)) (st_clock s))
  /\ st_clock s' = skipn (count_time_tests (ETest t)) (st_clock s).
Proof.
  intros t [m clk] x s' H L.
  destruct t; cbn [count_time_tests] in *; cbn [compile_test test_unsupported] in H;
    try discriminate;
    try (inversion H; subst; clear H; cbn [firstn skipn map st_clock]; split; [|reflexivity];
         first [reflexivity | apply clock_atoms_types
               | match goal with c : cmp _ |- _ => destruct c; reflexivity end
               | match goal with k : permkind |- _ => destruct k; reflexivity end ]).
  all: try (unfold tick in H; cbn [st_clock st_mgr] in *;
            destruct clk as [|r clk]; [cbn in L; lia|]; cbn [hd tl] in H;
            inversion H; subst; clear H; cbn [firstn skipn map st_clock]; split; [|reflexivity];
            apply clock_atoms_time; reflexivity).
  all: try (unfold with_mgr in H; cbn [st_mgr st_clock] in H;
            match type of H with context [get_matcher ?p ?b ?m] =>
              unfold get_matcher in H; destruct m as [l|d];
              [destruct (l_register_match p b l)|destruct (d_register_match p b d)] end;
            inversion H; subst; clear H; cbn [firstn skipn map st_clock]; split; reflexivity).
  - (* size *) inversion H; subst; clear H; cbn [firstn skipn map st_clock]; split; [|reflexivity].
    unfold compile_size. destruct c as [[u n]|[u n]|[u n]]; destruct u; reflexivity.
  - (* xattr match *)
    match type of H with context [if ?b then _ else _] => destruct b end; inversion H; subst; clear H;
      cbn [firstn skipn map st_clock]; split; reflexivity.
Qed.

Lemma with_mgr_clock : forall A (g : mgr -> A * mgr) s, st_clock (snd (with_mgr g s)) = st_clock s.
Proof. intros A g s. unfold with_mgr. destruct (g (st_mgr s)). reflexivity. Qed.

Lemma get_printer_atom : forall t m, exists a, fst (get_printer t m) = LAtom a.
Proof.
  intros t [l|d]; cbn [get_printer].
  - destruct (l_init_default_port l) as [p l1]. destruct (l_register_printer p t l1). eexists; reflexivity.
  - destruct (d_register_printer (TStdout t) d). eexists; reflexivity.
Qed.

Lemma get_file_printer_atom : forall f t m, exists a, fst (get_file_printer f t m) = LAtom a.
Proof.
  intros f t [l|d]; cbn [get_file_printer].
  - destruct (l_init_file_port f l) as [p l1]. destruct (l_register_printer p t l1). eexists; reflexivity.
  - destruct (d_register_printer (TFile f t) d). eexists; reflexivity.
Qed.

Lemma clock_atoms_pair : forall a y, clock_atoms (lst [LAtom a; y]) = clock_atoms y.
Proof.
  intros a y.
  change (clock_atoms (LList (LCons [] (LAtom a) (LCons [32] y LNil)) []) = clock_atoms y).
  cbn [clock_atoms time_form]. destruct (is_cmp_atom a); cbn [clock_atoms_items clock_atoms time_form app];
    apply app_nil_r.
Qed.

Lemma clock_atoms_pair' : forall a y,
  clock_atoms (LList (LCons [] (LAtom a) (LCons [32] y LNil)) []) = clock_atoms y.
Proof. exact clock_atoms_pair. Qed.

Lemma compile_action_readings : forall a s x s',
  compile_action a s = COk (x, s') -> clock_atoms x = [] /\ st_clock s' = st_clock s.
Proof.
  assert (P : forall (g : mgr -> lsexp * mgr) s, (forall m, exists a, fst (g m) = LAtom a) ->
            exists a s1, with_mgr g s = (LAtom a, s1) /\ st_clock s1 = st_clock s).
  { intros g s Hg. pose proof (with_mgr_clock _ g s) as Hc. unfold with_mgr in *.
    destruct (Hg (st_mgr s)) as [a Ha]. destruct (g (st_mgr s)) as [p m1]. cbn in Ha. subst p.
    eexists _, _. split; [reflexivity|exact Hc]. }
  intros a s x s' H.
  destruct a; cbn [compile_action] in H; try discriminate;
    try (inversion H; subst; clear H; split; reflexivity).
  all: match type of H with
       | context [with_mgr (get_printer ?t) _] =>
           destruct (P (get_printer t) s (get_printer_atom t)) as (a & s1 & E & Hc)
       | context [with_mgr (get_file_printer ?f ?t) _] =>
           destruct (P (get_file_printer f t) s (get_file_printer_atom f t)) as (a & s1 & E & Hc)
       end; rewrite E in H.
  all: try (inversion H; subst; clear H; split; [first [reflexivity | rewrite clock_atoms_pair; reflexivity | rewrite clock_atoms_pair'; reflexivity]|exact Hc]).
  all: destruct (compile_format _) as [fx| |] eqn:F; try discriminate;
       inversion H; subst; clear H; split; [|exact Hc];
       pose proof (clock_atoms_format _ _ F) as Z;
       first [rewrite clock_atoms_pair | rewrite clock_atoms_pair']; exact Z.
Qed.

(** * the whole expression *)
Lemma firstn_skipn_add {A} a b (l : list A) :
  firstn (a + b) l = firstn a l ++ firstn b (skipn a l).
Proof.
  revert l. induction a as [|a IH]; intro l; cbn [Nat.add firstn skipn app]; [reflexivity|].
  destruct l as [|x l]; [now destruct b|]. cbn. now rewrite IH.
Qed.

Lemma compile_expr_readings : forall e s x s',
  compile_expr e s = COk (x, s') ->
  (count_time_tests e <= List.length (st_clock s))%nat ->
  clock_atoms x = map print_dec (firstn (count_time_tests e) (st_clock s))
  /\ st_clock s' = skipn (count_time_tests e) (st_clock s).
Proof.
  assert (Hbin : forall (op : string) a b,
    is_cmp_atom (chars op) = false ->
    (forall s x s', compile_expr a s = COk (x, s') ->
       (count_time_tests a <= List.length (st_clock s))%nat ->
       clock_atoms x = map print_dec (firstn (count_time_tests a) (st_clock s))
       /\ st_clock s' = skipn (count_time_tests a) (st_clock s)) ->
    (forall s x s', compile_expr b s = COk (x, s') ->
       (count_time_tests b <= List.length (st_clock s))%nat ->
       clock_atoms x = map print_dec (firstn (count_time_tests b) (st_clock s))
       /\ st_clock s' = skipn (count_time_tests b) (st_clock s)) ->
    forall s x s',
    match compile_expr a s with
    | COk (x, s1) => match compile_expr b s1 with
                     | COk (y, s2) => COk (lst [atom op; x; y], s2)
                     | bad => bad end
    | bad => bad end = COk (x, s') ->
    (count_time_tests a + count_time_tests b <= List.length (st_clock s))%nat ->
    clock_atoms x = map print_dec (firstn (count_time_tests a + count_time_tests b) (st_clock s))
    /\ st_clock s' = skipn (count_time_tests a + count_time_tests b) (st_clock s)).
  { intros op a b Hop IHa IHb s x s' H L.
    destruct (compile_expr a s) as [[xa s1]| |] eqn:Ea; try discriminate.
    destruct (compile_expr b s1) as [[xb s2]| |] eqn:Eb; try discriminate.
    inversion H; subst; clear H.
    destruct (IHa _ _ _ Ea ltac:(lia)) as [Aa Ca].
    assert (Lb : (count_time_tests b <= List.length (st_clock s1))%nat)
      by (rewrite Ca, skipn_length; lia).
    destruct (IHb _ _ _ Eb Lb) as [Ab Cb].
    split.
    - change (clock_atoms (LList (LCons [] (LAtom (chars op)) (LCons [32] xa (LCons [32] xb LNil))) [])
              = map print_dec (firstn (count_time_tests a + count_time_tests b) (st_clock s))).
      cbn [clock_atoms time_form]. rewrite Hop.
      cbn [clock_atoms_items clock_atoms time_form app].
      rewrite Aa, Ab, Ca, app_nil_r, <- map_app, <- firstn_skipn_add. reflexivity.
    - rewrite Cb, Ca. apply skipn_add. }
  induction e as [e IH|e IH|a IHa b IHb|a IHa b IHb|a IHa b IHb|t|a|g|]; intros s x s' H L;
    cbn [count_time_tests] in *.
  - discriminate.
  - cbn [compile_expr] in H. destruct (compile_expr e s) as [[xe s1]| |] eqn:E; try discriminate.
    inversion H; subst; clear H. destruct (IH _ _ _ E L) as [A C]. split; [|exact C].
    change (clock_atoms (LList (LCons [] (LAtom (chars "not")) (LCons [32] xe LNil)) [])
            = map print_dec (firstn (count_time_tests e) (st_clock s))).
    cbn [clock_atoms time_form]. 
    change (is_cmp_atom (chars "not")) with false. cbn [clock_atoms_items clock_atoms time_form app].
    rewrite A, app_nil_r. reflexivity.
  - cbn [compile_expr] in H. exact (Hbin "and"%string a b eq_refl IHa IHb s x s' H L).
  - cbn [compile_expr] in H. exact (Hbin "or"%string a b eq_refl IHa IHb s x s' H L).
  - cbn [compile_expr] in H. exact (Hbin "and"%string a b eq_refl IHa IHb s x s' H L).
  - cbn [compile_expr] in H. exact (compile_test_readings t s x s' H L).
  - cbn [compile_expr] in H. destruct (compile_action_readings _ _ _ _ H) as [A C].
    cbn [firstn skipn map]. split; assumption.
  - discriminate.
  - discriminate.
Qed.

Lemma wrap_count : forall e, count_time_tests (wrap e) = count_time_tests e.
Proof. intro e. rewrite !count_time_tests_eq. apply wrap_time_tests. Qed.

Theorem compile_embeds_clock_atoms : forall e o clk c,
  compile e o clk = COk c ->
  (count_time_tests e <= List.length clk)%nat ->
  clock_atoms (c_body c) = map print_dec (firstn (count_time_tests e) clk).
Proof.
  intros e o clk c H L. unfold compile in H.
  destruct (compile_expr (wrap e) _) as [[body s]| |] eqn:E; try discriminate.
  rewrite <- wrap_count in L |- *.
  destruct (compile_expr_readings _ _ _ _ E L) as [A _]. cbn [st_clock] in A.
  inversion H; subst; clear H. destruct (st_mgr s); exact A.
Qed.

Theorem compile_embeds_clock : forall e o clk c,
  compile e o clk = COk c ->
  (count_time_tests e <= List.length clk)%nat ->
  clock_readings (c_body c) = firstn (count_time_tests e) clk.
Proof.
  intros e o clk c H L. unfold clock_readings.
  rewrite (compile_embeds_clock_atoms _ _ _ _ H L), map_map.
  erewrite map_ext; [apply map_id|]. intro n. apply dec_print.
Qed.

Lemma clock_atoms_time3 : forall now c,
  clock_atoms (compile_time now "atime" c) = [print_dec now]
  /\ clock_atoms (compile_time now "ctime" c) = [print_dec now]
  /\ clock_atoms (compile_time now "mtime" c) = [print_dec now].
Proof. intros now c. repeat split; apply clock_atoms_time; reflexivity. Qed.
