(** C16 (emitted-code half): one (port, mutex) pair in plain mode, the frame procedure in framed
    mode, and no printer at all next to the implicit print. *)
From Coq Require Import List String NArith Bool Lia ZifyBool ZifyN.
From FP Require Import Model.Chars Model.Ast Model.Sexp Model.Compile.
From FP Require Import Spec.Tree Spec.Resources Spec.Locking.
From FP Require Import Proofs.ImplicitPrint Proofs.ManagerInv.
Import ListNotations.
Local Open Scope N_scope.

(** * plain mode *)
Definition no_file_req (r : request) : Prop :=
  match r with RPrint (TFile _ _) => False | _ => True end.

Definition pinv (l : lmgr) : Prop :=
  l_files l = [] /\ l_fini l = []
  /\ (forall p, l_default l = Some p -> p_mutex p = p_port p + 1)
  /\ (forall k i, In (k, i) (l_printers l) -> l_default l = Some (fst k))
  /\ forall b, In b (l_vars l) ->
       is_matcher_binding b \/ exists p, l_default l = Some p /\ plain_shape p b.

Lemma pinv_init : pinv lmgr_init.
Proof. unfold pinv. cbn. repeat split; try discriminate; contradiction. Qed.

Lemma pinv_default_port l : pinv l -> pinv (snd (l_init_default_port l)).
Proof.
  unfold l_init_default_port. destruct (l_default l) as [p|] eqn:E; cbn [snd]; [trivial|].
  intros (Hf & Hfi & Hm & Hp & Hb). unfold pinv. cbn [l_files l_fini l_default l_vars l_printers].
  repeat split; try assumption.
  - intros p Hp'. inversion Hp'; subst. reflexivity.
  - intros k i Hin. specialize (Hp _ _ Hin). congruence.
  - intros b Hin. apply in_app_iff in Hin as [Hin|Hin].
    + destruct (Hb b Hin) as [H|(p & Hp' & _)]; [now left|congruence].
    + right. eexists. split; [reflexivity|]. unfold plain_shape. cbn [p_port p_mutex].
      cbn [In] in Hin. destruct Hin as [<-|[<-|[]]]; auto.
Qed.
Lemma pinv_register_printer p term l :
  l_default l = Some p -> pinv l -> pinv (snd (l_register_printer p term l)).
Proof.
  intro Hd. unfold l_register_printer. destruct (assoc pkey_eqb (p, term) (l_printers l)); cbn [snd]; [trivial|].
  intros (Hf & Hfi & Hm & Hp & Hb). unfold pinv. cbn [l_files l_fini l_default l_vars l_printers].
  repeat split; try assumption.
  - intros k i Hin. apply in_snoc in Hin as [Hin|Hin]; [eauto|]. inversion Hin; subst. exact Hd.
  - intros b Hin. apply in_snoc in Hin as [Hin|Hin]; [auto|]. subst b.
    right. exists p. split; [assumption|]. unfold plain_shape. right. right. left. exists (l_idx l), term. reflexivity.
Qed.
Lemma pinv_register_match pat ci l : pinv l -> pinv (snd (l_register_match pat ci l)).
Proof.
  unfold l_register_match. destruct (assoc mkey_eqb (pat, ci) (l_matches l)); cbn [snd]; [trivial|].
  intros (Hf & Hfi & Hm & Hp & Hb). unfold pinv. cbn [l_files l_fini l_default l_vars l_printers].
  repeat split; try assumption.
  intros b Hin. apply in_snoc in Hin as [Hin|Hin]; [auto|]. subst b. left. unfold is_matcher_binding. eauto.
Qed.

Definition pinv_m (m : mgr) : Prop := match m with ML l => pinv l | MD _ => True end.
Lemma serve_pinv r m : no_file_req r -> pinv_m m -> pinv_m (snd (serve r m)).
Proof.
  rewrite serve_snd. destruct r as [pat ci|[term|f term]], m as [l|d]; cbn [pinv_m no_file_req];
    try trivial; try contradiction; intros _ H.
  - now apply pinv_register_match.
  - apply pinv_register_printer; [apply l_init_default_port_default|now apply pinv_default_port].
Qed.
Lemma run_pinv rs : forall m, Forall no_file_req rs -> pinv_m m -> pinv_m (run rs m).
Proof.
  induction rs as [|r rs IH]; intros m Hf H; cbn [run fold_left]; [exact H|].
  inversion Hf; subst. apply IH; [assumption|now apply serve_pinv].
Qed.

(** a file action selects framed mode: in plain mode no request names a file *)
Lemma requests_no_file e : complex_frames e = false -> Forall no_file_req (requests e).
Proof.
  induction e as [e IH|e IH|a IHa b IHb|a IHa b IHb|a IHa b IHb|t|a|g|]; cbn [complex_frames requests];
    intro H; try (constructor; fail); auto;
    try (apply orb_false_iff in H as [H1 H2]; apply Forall_app; split; auto).
  - destruct t; cbn; repeat constructor.
  - destruct a; cbn in *; try discriminate; repeat constructor.
Qed.
Lemma requests_wrap e : requests (wrap e) = requests e.
Proof.
  unfold wrap. destruct (has_action e); [reflexivity|]. cbn [requests action_request action_target option_map opt_list].
  apply app_nil_r.
Qed.

Theorem plain_one_mutex e o clk c :
  compile e o clk = COk c -> c_framed c = false ->
  c_fini c = []
  /\ exists p, p_mutex p = p_port p + 1 /\ forall b, In b (c_defs c) -> plain_shape p b.
Proof.
  intros H Hfr. destruct (compile_final _ _ _ _ H) as (s & _ & Hf & Hd & Hfr' & _ & Hfi).
  pose proof (final_mgr_framed _ _ _ Hf) as Hcf. rewrite <- Hfr', Hfr in Hcf.
  assert (Hp : pinv_m (st_mgr s)).
  { rewrite (final_mgr_run _ _ _ Hf). apply run_pinv.
    - rewrite requests_wrap. now apply requests_no_file.
    - unfold init_mgr. rewrite <- Hcf. apply pinv_init. }
  rewrite Hfr' in Hfr. rewrite Hd, Hfi. destruct (st_mgr s) as [l|d]; [|discriminate].
  cbn [pinv_m m_vars] in *. destruct Hp as (_ & Hfini & Hm & _ & Hb). split; [assumption|].
  destruct (l_default l) as [p|] eqn:E.
  - exists p. split; [now apply Hm|]. intros b Hin.
    destruct (Hb b Hin) as [Hmb|(p' & Hp' & Hs)]; [unfold plain_shape; auto|].
    inversion Hp'; subst. assumption.
  - exists {| p_port := 0; p_mutex := 1 |}. split; [reflexivity|]. intros b Hin.
    destruct (Hb b Hin) as [Hmb|(p' & Hp' & _)]; [unfold plain_shape; auto|discriminate].
Qed.

(** * framed mode *)
Definition finv (d : dmgr) : Prop :=
  exists rest, d_vars d = frame_prelude ++ rest /\ Forall framed_shape rest.
Lemma finv_init : finv dmgr_init.
Proof. exists []. split; [reflexivity|constructor]. Qed.
Lemma finv_snoc d b vars :
  finv d -> vars = d_vars d ++ [b] -> framed_shape b ->
  exists rest, vars = frame_prelude ++ rest /\ Forall framed_shape rest.
Proof.
  intros (rest & Hv & Hr) -> Hb. exists (rest ++ [b]). rewrite Hv, app_assoc. split; [reflexivity|].
  apply Forall_app. split; [assumption|now constructor].
Qed.
Definition finv_m (m : mgr) : Prop := match m with ML _ => True | MD d => finv d end.
Lemma serve_finv r m : finv_m m -> finv_m (snd (serve r m)).
Proof.
  rewrite serve_snd. destruct r as [pat ci|[term|f term]], m as [l|d]; cbn [finv_m]; try trivial; intro H.
  - unfold d_register_match. destruct (assoc mkey_eqb (pat, ci) (d_matches d)); cbn [snd]; [trivial|].
    eapply finv_snoc; [exact H|reflexivity|]. right. unfold is_matcher_binding. eauto.
  - unfold d_register_printer. destruct (assoc target_eqb _ (d_printers d)); cbn [snd]; [trivial|].
    eapply finv_snoc; [exact H|reflexivity|]. left. eexists. reflexivity.
  - unfold d_register_printer. destruct (assoc target_eqb _ (d_printers d)); cbn [snd]; [trivial|].
    eapply finv_snoc; [exact H|reflexivity|]. left. eexists. reflexivity.
Qed.
Lemma run_finv rs : forall m, finv_m m -> finv_m (run rs m).
Proof.
  induction rs as [|r rs IH]; intros m H; cbn [run fold_left]; [exact H|]. now apply IH, serve_finv.
Qed.

Theorem framed_frame_proc e o clk c :
  compile e o clk = COk c -> c_framed c = true ->
  exists rest, c_defs c = frame_prelude ++ rest /\ Forall framed_shape rest.
Proof.
  intros H Hfr. destruct (compile_final _ _ _ _ H) as (s & _ & Hf & Hd & Hfr' & _).
  assert (Hp : finv_m (st_mgr s)).
  { rewrite (final_mgr_run _ _ _ Hf). apply run_finv. unfold init_mgr.
    destruct (complex_frames e); cbn; [apply finv_init|trivial]. }
  rewrite Hfr' in Hfr. rewrite Hd. destruct (st_mgr s) as [l|d]; [discriminate|]. exact Hp.
Qed.

(** * the implicit print never coexists with a printer *)
Definition match_req (r : request) : Prop := match r with RMatch _ _ => True | RPrint _ => False end.
Lemma requests_no_action e : has_action e = false -> Forall match_req (requests e).
Proof.
  induction e as [e IH|e IH|a IHa b IHb|a IHa b IHb|a IHa b IHb|t|a|g|]; cbn [has_action requests];
    intro H; try (constructor; fail); try discriminate; auto;
    try (apply orb_false_iff in H as [H1 H2]; apply Forall_app; split; auto).
  destruct t; cbn; repeat constructor.
Qed.
Definition only_matchers (m : mgr) : Prop :=
  match m with
  | ML l => l_default l = None /\ l_printers l = [] /\ l_files l = []
            /\ forall b, In b (l_vars l) -> is_matcher_binding b
  | MD _ => False
  end.
Lemma serve_only_matchers r m : match_req r -> only_matchers m -> only_matchers (snd (serve r m)).
Proof.
  rewrite serve_snd. destruct r as [pat ci|t], m as [l|d]; cbn [match_req only_matchers]; try contradiction.
  intros _ (Hd & Hp & Hf & Hb). unfold l_register_match.
  destruct (assoc mkey_eqb (pat, ci) (l_matches l)); cbn [snd l_default l_printers l_files l_vars]; [auto|].
  repeat split; try assumption. intros b Hin. apply in_snoc in Hin as [Hin|Hin]; [auto|].
  subst b. unfold is_matcher_binding. eauto.
Qed.
Lemma run_only_matchers rs : forall m, Forall match_req rs -> only_matchers m -> only_matchers (run rs m).
Proof.
  induction rs as [|r rs IH]; intros m Hf H; cbn [run fold_left]; [exact H|].
  inversion Hf; subst. apply IH; [assumption|now apply serve_only_matchers].
Qed.

Theorem default_print_alone e o clk c :
  has_action e = false -> compile e o clk = COk c ->
  c_framed c = false /\ c_fini c = [] /\ forall b, In b (c_defs c) -> is_matcher_binding b.
Proof.
  intros Ha H. destruct (compile_final _ _ _ _ H) as (s & _ & Hf & Hd & Hfr' & _ & Hfi).
  assert (Hp : only_matchers (st_mgr s)).
  { rewrite (final_mgr_run _ _ _ Hf). apply run_only_matchers.
    - rewrite requests_wrap. now apply requests_no_action.
    - unfold init_mgr. rewrite (has_action_no_frames _ Ha). cbn. repeat split; contradiction. }
  rewrite Hfr', Hd, Hfi. destruct (st_mgr s) as [l|d]; [|contradiction].
  cbn [only_matchers] in Hp. destruct Hp as (_ & _ & Hfiles & Hb).
  pose proof (final_mgr_ext _ _ _ Hf) as He. unfold init_mgr in He.
  rewrite (has_action_no_frames _ Ha) in He. cbn [ext] in He.
  repeat split; try assumption.
  assert (Hpi : pinv_m (ML l)).
  { rewrite (final_mgr_run _ _ _ Hf). apply run_pinv.
    - rewrite requests_wrap. apply requests_no_file. now apply has_action_no_frames.
    - unfold init_mgr. rewrite (has_action_no_frames _ Ha). apply pinv_init. }
  apply Hpi.
Qed.
