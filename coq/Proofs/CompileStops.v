(** C12p: what [compile] returns on ANY tree of the public types, precedence and option nodes
    included. *)
From Coq Require Import List String NArith Bool.
From FP Require Import Model.Chars Model.Ast Model.Sexp Model.Compile Spec.Tree Spec.Unsupported
  Spec.Stops.
From FP Require Import Proofs.UnsupportedFacts.
Import ListNotations.

(** the outcome a stop stands for *)
Definition outcome_is {A} (r : cres A) (s : option stop) : Prop :=
  match s with
  | Some (StopPanic site) => r = CPanic site
  | Some (StopUnsupported k n) => r = CErr k n
  | None => exists x, r = COk x
  end.

Lemma bin_stops op a b :
  (forall s, outcome_is (compile_expr a s) (first_stop a)) ->
  (forall s, outcome_is (compile_expr b s) (first_stop b)) ->
  forall s,
  outcome_is
    (match compile_expr a s with
     | COk (x, s1) => match compile_expr b s1 with
                      | COk (y, s2) => COk (lst [atom op; x; y], s2) | bad => bad end
     | bad => bad end)
    (match first_stop a with Some r => Some r | None => first_stop b end).
Proof.
  intros Ha Hb s. specialize (Ha s).
  destruct (first_stop a) as [[site|k n]|]; cbn [outcome_is] in *.
  - rewrite Ha. reflexivity.
  - rewrite Ha. reflexivity.
  - destruct Ha as [[x s1] ->]. specialize (Hb s1).
    destruct (first_stop b) as [[site|k n]|]; cbn [outcome_is] in *.
    + rewrite Hb. reflexivity.
    + rewrite Hb. reflexivity.
    + destruct Hb as [[y s2] ->]. eexists. reflexivity.
Qed.

Theorem compile_expr_stops e : forall s, outcome_is (compile_expr e s) (first_stop e).
Proof.
  induction e as [e IH|e IH|a IHa b IHb|a IHa b IHb|a IHa b IHb|t|a|g|]; intros s.
  - reflexivity.
  - cbn [first_stop compile_expr]. specialize (IH s).
    destruct (first_stop e) as [[site|k n]|]; cbn [outcome_is] in *.
    + rewrite IH. reflexivity.
    + rewrite IH. reflexivity.
    + destruct IH as [[x s1] ->]. eexists. reflexivity.
  - cbn [first_stop compile_expr]. apply bin_stops; assumption.
  - cbn [first_stop compile_expr]. apply bin_stops; assumption.
  - cbn [first_stop compile_expr]. apply bin_stops; assumption.
  - cbn [first_stop compile_expr]. pose proof (compile_test_spec t s) as H.
    destruct (bad_test t) as [n|]; cbn [outcome_is].
    + exact H.
    + destruct H as (x & s' & ->). eexists. reflexivity.
  - cbn [first_stop compile_expr]. pose proof (compile_action_spec a s) as H.
    destruct (bad_action a) as [[k n]|]; cbn [outcome_is].
    + exact H.
    + destruct H as (x & s' & ->). eexists. reflexivity.
  - reflexivity.
  - reflexivity.
Qed.

Lemma wrap_stop e : first_stop (wrap e) = first_stop e.
Proof.
  unfold wrap. destruct (has_action e); [reflexivity|].
  cbn [first_stop bad_action]. destruct (first_stop e); reflexivity.
Qed.

Theorem compile_stops e o clk : outcome_is (compile e o clk) (first_stop e).
Proof.
  unfold compile.
  pose proof (compile_expr_stops (wrap e)
    {| st_mgr := if complex_frames e then MD dmgr_init else ML lmgr_init; st_clock := clk |}) as H.
  rewrite wrap_stop in H.
  destruct (first_stop e) as [[site|k n]|]; cbn [outcome_is] in *.
  - rewrite H. reflexivity.
  - rewrite H. reflexivity.
  - destruct H as [[x s'] ->]. eexists. reflexivity.
Qed.

(** the three outcomes, each as an equivalence *)
Theorem compile_panic_iff e o clk site :
  compile e o clk = CPanic site <-> first_stop e = Some (StopPanic site).
Proof.
  pose proof (compile_stops e o clk) as H.
  destruct (first_stop e) as [[s0|k n]|]; cbn [outcome_is] in H.
  - rewrite H. split; intros E; injection E as ->; reflexivity.
  - rewrite H. split; discriminate.
  - destruct H as [x ->]. split; discriminate.
Qed.
Theorem compile_err_iff e o clk k n :
  compile e o clk = CErr k n <-> first_stop e = Some (StopUnsupported k n).
Proof.
  pose proof (compile_stops e o clk) as H.
  destruct (first_stop e) as [[s0|k0 n0]|]; cbn [outcome_is] in H.
  - rewrite H. split; discriminate.
  - rewrite H. split; intros E; injection E as -> ->; reflexivity.
  - destruct H as [x ->]. split; discriminate.
Qed.
Theorem compile_ok_iff e o clk :
  (exists c, compile e o clk = COk c) <-> first_stop e = None.
Proof.
  pose proof (compile_stops e o clk) as H.
  destruct (first_stop e) as [[s0|k0 n0]|]; cbn [outcome_is] in H.
  - rewrite H. split; [intros [c E]|]; discriminate.
  - rewrite H. split; [intros [c E]|]; discriminate.
  - split; [reflexivity|]. intros _. exact H.
Qed.

(** * how [first_stop] relates to the vocabulary of C12 *)
Definition as_stop (r : option (errkind * string)) : option stop :=
  match r with Some (k, n) => Some (StopUnsupported k n) | None => None end.

(** on the trees of C12 (no precedence, no option node) it is [first_unsupported] *)
Lemma first_stop_shape e : compilable_shape e = true -> first_stop e = as_stop (first_unsupported e).
Proof.
  induction e as [e IH|e IH|a IHa b IHb|a IHa b IHb|a IHa b IHb|t|a|g|];
    cbn [compilable_shape first_stop first_unsupported]; intros Hs; try discriminate.
  - exact (IH Hs).
  - apply andb_true_iff in Hs as [H1 H2]. rewrite (IHa H1), (IHb H2).
    destruct (first_unsupported a) as [[k n]|]; reflexivity.
  - apply andb_true_iff in Hs as [H1 H2]. rewrite (IHa H1), (IHb H2).
    destruct (first_unsupported a) as [[k n]|]; reflexivity.
  - apply andb_true_iff in Hs as [H1 H2]. rewrite (IHa H1), (IHb H2).
    destruct (first_unsupported a) as [[k n]|]; reflexivity.
  - destruct (bad_test t); reflexivity.
  - reflexivity.
  - reflexivity.
Qed.

(** a panic needs a precedence or option node in the tree, and names which *)
Lemma first_stop_panic e site : first_stop e = Some (StopPanic site) ->
  (site = prec_site /\ exists x, Subterm (EPrec x) e)
  \/ (site = global_site /\ exists g, Subterm (EGlobal g) e).
Proof.
  assert (Hmono : forall a (f : expr -> expr),
            (forall x, Subterm x a -> Subterm x (f a)) ->
            (site = prec_site /\ (exists x, Subterm (EPrec x) a))
            \/ (site = global_site /\ (exists g, Subterm (EGlobal g) a)) ->
            (site = prec_site /\ (exists x, Subterm (EPrec x) (f a)))
            \/ (site = global_site /\ (exists g, Subterm (EGlobal g) (f a)))).
  { intros a f Hf [[E [x Hx]]|[E [g Hg]]]; [left|right]; (split; [exact E|]); eexists; apply Hf; eassumption. }
  induction e as [e IH|e IH|a IHa b IHb|a IHa b IHb|a IHa b IHb|t|a|g|]; cbn [first_stop]; intros H.
  - injection H as <-. left. split; [reflexivity|]. exists e. constructor.
  - apply (Hmono e ENot); [intros x Hx; now constructor|]. exact (IH H).
  - destruct (first_stop a) as [r|].
    + apply (Hmono a (fun a => EAnd a b)); [intros x Hx; now apply Sub_and_l|]. exact (IHa H).
    + apply (Hmono b (fun b => EAnd a b)); [intros x Hx; now apply Sub_and_r|]. exact (IHb H).
  - destruct (first_stop a) as [r|].
    + apply (Hmono a (fun a => EOr a b)); [intros x Hx; now apply Sub_or_l|]. exact (IHa H).
    + apply (Hmono b (fun b => EOr a b)); [intros x Hx; now apply Sub_or_r|]. exact (IHb H).
  - destruct (first_stop a) as [r|].
    + apply (Hmono a (fun a => EList a b)); [intros x Hx; now apply Sub_list_l|]. exact (IHa H).
    + apply (Hmono b (fun b => EList a b)); [intros x Hx; now apply Sub_list_r|]. exact (IHb H).
  - destruct (bad_test t); discriminate.
  - destruct (bad_action a) as [[k n]|]; discriminate.
  - injection H as <-. right. split; [reflexivity|]. exists g. constructor.
  - discriminate.
Qed.
