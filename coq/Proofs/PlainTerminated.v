(** C16t: in plain mode every record is a terminated line (or has no bytes at all).
    Three layers:
    - Scheme side, no hypothesis on host or tree: a [format] whose template ends with the
      newline character yields a text ending with it ([format_sem_newline]); the template of a
      format ending with the newline escape ends with that character ([compile_format_newline]);
    - classification of the actions of a plain-mode tree ([plain_action_cases]);
    - records of a compiled plain-mode policy ([plain_records_terminated]): traced through
      [compile_expr] against the Scheme-side meaning, so that neither [host_law] nor the
      hypotheses of C02 ([ctime_free], [defined]) are needed. *)
From Coq Require Import List String NArith ZArith Bool Lia ZifyBool ZifyN.
From FP Require Import Model.Chars Model.Ast Model.Sexp Model.Compile.
From FP Require Import Spec.Tree Spec.TreeShape Spec.FileRecord Spec.FindSem Spec.SchemeSem
  Spec.SchemePrelude Spec.PolicyCalls.
From FP Require Import Proofs.SemFacts Proofs.TreeHelpers Proofs.Routing Proofs.PolicyDiscipline Proofs.PreludeSound.
Import ListNotations.
Local Open Scope N_scope.

(** a terminated line, or no bytes *)
Definition terminated (r : str) : Prop := r = [] \/ last r 0 = 10.
Definition line_out (o : output) : Prop := terminated (snd (fst o) ++ terminator_text (snd o)).

Lemma last_snoc (s : str) c : last (s ++ [c]) 0 = c.
Proof. apply last_last. Qed.

Lemma last_cons_ne (c : N) (s : str) : s <> [] -> last (c :: s) 0 = last s 0.
Proof. destruct s as [|d s]; [congruence|reflexivity]. Qed.

Lemma last_app_ne (a b : str) : b <> [] -> last (a ++ b) 0 = last b 0.
Proof.
  intro Hb. induction a as [|c a IH]; [reflexivity|].
  cbn [app]. rewrite last_cons_ne; [exact IH|].
  destruct a; cbn [app]; [exact Hb|discriminate].
Qed.

(** * the text of a format ending with the newline escape (find side) *)
Lemma format_text_newline h pre f :
  last (format_text h (pre ++ [ESpecial XNewline]) f) 0 = 10.
Proof.
  unfold format_text. rewrite flat_map_app. cbn [flat_map elem_text special_text app].
  apply last_snoc.
Qed.

Lemma rev_cases {A} (l : list A) : l = [] \/ exists pre x, l = pre ++ [x].
Proof.
  destruct (rev l) as [|x r] eqn:E.
  - left. rewrite <- (rev_involutive l), E. reflexivity.
  - right. exists (rev r), x. rewrite <- (rev_involutive l), E. reflexivity.
Qed.

(** * classification: the actions that do not need frames *)
Lemma plain_action_cases a :
  action_frames a = false ->
  a = APrint \/ a = APrintFid \/ a = ADefaultPrint \/ a = AQuit \/ a = APrune \/ a = AList
  \/ a = APrintFormatted []
  \/ exists pre, a = APrintFormatted (pre ++ [ESpecial XNewline]).
Proof.
  destruct a as [p|p|p|p fmt| | | |fmt| | | | ]; cbn [action_frames]; intro H; try discriminate H; auto 10.
  destruct (rev_cases fmt) as [->|(pre & x & ->)]; [auto 10|].
  rewrite rev_app_distr in H. cbn [rev app] in H.
  destruct x as [s|fd|[]]; try discriminate H.
  do 7 right. exists pre. reflexivity.
Qed.

Lemma action_line h a f : action_frames a = false -> Forall line_out (outs (action_result h a f)).
Proof.
  intro H.
  destruct (plain_action_cases a H) as [->|[->|[->|[->|[->|[->|[->|(pre & ->)]]]]]]];
    cbn [action_result]; unfold outs, emit; cbn [fst snd]; try apply Forall_nil;
    (apply Forall_cons; [|apply Forall_nil]);
    unfold line_out, terminated; cbn [fst snd terminator_text].
  - right. apply last_snoc.
  - right. apply last_snoc.
  - right. apply last_snoc.
  - left. reflexivity.
  - right. rewrite app_nil_r. apply format_text_newline.
Qed.

Lemma plain_action_cases_spec a :
  ~ NeedsFrames a ->
  a = APrint \/ a = APrintFid \/ a = ADefaultPrint \/ a = AQuit \/ a = APrune \/ a = AList
  \/ a = APrintFormatted []
  \/ exists pre, a = APrintFormatted (pre ++ [ESpecial XNewline]).
Proof.
  intro H. apply plain_action_cases. destruct (action_frames a) eqn:E; [|reflexivity].
  destruct (H (proj1 (action_frames_iff a) E)).
Qed.

(** find's semantics: in a tree without frame-needing actions every output is a line *)
Lemma plain_outputs_lines h e clk f :
  complex_frames e = false -> Forall line_out (outs (feval h (wrap e) clk f)).
Proof.
  intro He. apply feval_outputs. intros a Ha. apply action_line.
  apply (subterm_no_frames (wrap e)); [now rewrite complex_frames_wrap|exact Ha].
Qed.

(** * Scheme side: [format] with a template ending in the newline character *)
Section WithHost.
Variable h : host.

Lemma directive_not_newline d v s : directive h d v = Some s -> d <> 10.
Proof.
  intros H ->. unfold directive in H. cbn in H. discriminate H.
Qed.

Lemma format_sem_newline_fuel : forall n (t : str) args s,
  (List.length t <= n)%nat -> format_sem h t args = Some s -> t <> [] -> last t 0 = 10 ->
  s <> [] /\ last s 0 = 10.
Proof.
  induction n as [|n IH]; intros t args s Hn H Hne Hl.
  - destruct t; [congruence|cbn [List.length] in Hn; lia].
  - destruct t as [|c r]; [congruence|]. cbn [List.length] in Hn. cbn [format_sem] in H.
    destruct (c =? 126) eqn:Ec.
    + destruct r as [|d r']; [discriminate H|]. cbn [List.length] in Hn.
      assert (Hstep : forall args' rest, format_sem h r' args' = Some rest -> d <> 10 ->
                        rest <> [] /\ last rest 0 = 10).
      { intros args' rest Hr Hd.
        assert (Hr' : r' <> []).
        { intros ->. cbn [last] in Hl. congruence. }
        apply (IH r' args' rest); [lia|exact Hr|exact Hr'|].
        rewrite last_cons_ne in Hl by discriminate.
        rewrite last_cons_ne in Hl by exact Hr'. exact Hl. }
      destruct (d =? 126) eqn:Ed.
      * destruct (format_sem h r' args) as [rest|] eqn:Er; [|discriminate H].
        cbn [option_map] in H. injection H as <-.
        destruct (Hstep args rest Er) as [Hr1 Hr2]; [lia|].
        split; [discriminate|]. rewrite last_cons_ne; assumption.
      * destruct args as [|v args']; [discriminate H|].
        destruct (directive h d v) as [sd|] eqn:Edir; [|discriminate H].
        destruct (format_sem h r' args') as [rest|] eqn:Er; [|discriminate H].
        injection H as <-.
        destruct (Hstep args' rest Er (directive_not_newline d v sd Edir)) as [Hr1 Hr2].
        split; [destruct sd; [exact Hr1|discriminate]|].
        rewrite last_app_ne; assumption.
    + destruct (format_sem h r args) as [rest|] eqn:Er; [|discriminate H].
      cbn [option_map] in H. injection H as <-. split; [discriminate|].
      destruct r as [|d r'].
      * cbn [format_sem] in Er. destruct args; [|discriminate Er]. injection Er as <-. exact Hl.
      * assert (Hr' : d :: r' <> []) by discriminate.
        destruct (IH (d :: r') args rest) as [Hr1 Hr2]; [lia|exact Er|exact Hr'| |].
        -- rewrite last_cons_ne in Hl by exact Hr'. exact Hl.
        -- rewrite last_cons_ne; assumption.
Qed.

(** a successful [format] whose template ends with the newline character ends with it *)
Lemma format_sem_newline t args s :
  format_sem h (t ++ [10]) args = Some s -> s <> [] /\ last s 0 = 10.
Proof.
  intro H. apply (format_sem_newline_fuel (List.length (t ++ [10])) (t ++ [10]) args s (le_n _) H).
  - destruct t; discriminate.
  - apply last_snoc.
Qed.

(** the template of a format ending with the newline escape ends with the newline character *)
Lemma template_newline : forall pre ps,
  template (pre ++ [ESpecial XNewline]) = COk ps ->
  exists t, flat_map piece_value ps = t ++ [10].
Proof.
  induction pre as [|el pre IH]; intros ps H.
  - cbn in H. injection H as <-. exists []. reflexivity.
  - cbn [app template] in H. destruct (elem_piece el) as [p|k c|m]; try discriminate H.
    destruct (template (pre ++ [ESpecial XNewline])) as [ps'|k c|m]; try discriminate H.
    injection H as <-. destruct (IH ps' eq_refl) as [t Ht].
    exists (piece_value p ++ t). cbn [flat_map]. rewrite Ht, app_assoc. reflexivity.
Qed.

(** whatever the fields of the format are (also %a %c %t and an undefined %S): when the compiled
    [format] form of a format ending with the newline escape has a value at all, the value is a
    non-empty text ending with the newline character *)
Theorem compile_format_newline pre x f s :
  compile_format (pre ++ [ESpecial XNewline]) = COk x ->
  sem_str h (erase x) f = Some s -> s <> [] /\ last s 0 = 10.
Proof.
  intros E Hs. unfold compile_format in E.
  destruct (template (pre ++ [ESpecial XNewline])) as [ps|k c|m] eqn:Et; try discriminate E.
  destruct (template_newline pre ps Et) as [t Ht].
  assert (Hx : erase x = SList (SAtom (chars "format") :: SAtom (chars "#f")
                 :: SStr (t ++ [10]) :: map erase (format_items (pre ++ [ESpecial XNewline])))).
  { rewrite <- Ht. destruct (format_items (pre ++ [ESpecial XNewline])) as [|i its]; injection E as <-.
    - reflexivity.
    - cbn [erase erase_items items_app]. rewrite erase_items_sep. reflexivity. }
  rewrite Hx in Hs. cbn [sem_str] in Hs.
  change (is "format" (chars "format")) with true in Hs.
  change (is "#f" (chars "#f")) with true in Hs. cbn [andb] in Hs.
  destruct (all_some _) as [vs|]; [|discriminate Hs].
  exact (format_sem_newline t vs s Hs).
Qed.

(** the empty format: the compiled form means the empty text *)
Theorem compile_format_empty f :
  exists x, compile_format [] = COk x /\ sem_str h (erase x) f = Some [].
Proof. eexists. split; reflexivity. Qed.

(** * from outputs to records *)
Lemma all_some_records c : c_framed c = false -> forall os rs,
  all_some (map (record_of c) os) = Some rs -> Forall line_out os -> Forall terminated rs.
Proof.
  intros Hfr. induction os as [|[[d p] t] os IH]; intros rs H Hl.
  - injection H as <-. constructor.
  - cbn [map all_some] in H. unfold record_of at 1 in H. rewrite Hfr in H.
    destruct (all_some (map (record_of c) os)) as [rs'|]; [|discriminate H].
    cbn [option_map] in H. injection H as <-.
    inversion Hl as [|y ys Hy Hys]; subst y ys. constructor; [exact Hy|now apply IH].
Qed.

End WithHost.

(** * the full statement: no hypothesis on the host, on %a %c %t or on %S *)
From FP Require Import Spec.SchemeEnv Proofs.MgrEnv Proofs.TransTests Proofs.Translation
  Proofs.PreludeInv Proofs.DisciplineNoSem.

Section NoSem.
Variable h : host.

Lemma pure_quiet b r : pure b = Some r -> Forall line_out (outs r).
Proof. intro H. rewrite (outs_pure b r H). constructor. Qed.

Lemma sem_matcher_quiet e g i gl ci pat f r :
  builtin (chars g) = true ->
  is "and" (chars g) = false -> is "or" (chars g) = false -> is "not" (chars g) = false ->
  comparison (chars g) = None ->
  lookup e (idname "match" i) = Some (EMatcher gl ci pat) ->
  sem_bool h e (erase (lst [atom g; ident "match" i])) f = Some r -> outs r = [].
Proof.
  intros Hb H1 H2 H3 Hc Hl H. revert H. erase_lsts. rewrite erase_atom, erase_ident.
  rewrite sem_bool_leaf by assumption. unfold sem_leaf. rewrite Hc, Hb.
  cbn [sem_builtin]. rewrite Hl.
  destruct (is "call-with-name" (chars g)); [apply outs_pure|].
  destruct (is "call-with-relative-path" (chars g)); [apply outs_pure|].
  destruct (is "lipe-scan-break" (chars g)); [|discriminate].
  destruct (int_literal (idname "match" i)); [|discriminate]. intro H. injection H as <-. reflexivity.
Qed.

(** a compiled test writes nothing *)
Lemma compile_test_quiet : forall t s x s' mf e f r,
  compile_test t s = COk (x, s') ->
  mgr_le (st_mgr s') mf -> env_agrees e mf ->
  sem_bool h e (erase x) f = Some r -> outs r = [].
Proof.
  intros t s x s' mf e f r E Hle Hag Hr.
  assert (Hp : forall b, sem_bool h e (erase x) f = pure b -> outs r = []).
  { intros b Hb. rewrite Hb in Hr. exact (outs_pure b r Hr). }
  destruct t as [c|c| | | |c|c|p|p|c|c|c|p|p|k b|p| |c|c| |l|c| |a|a b|p|p|p|p|p|p|p|p| | |p|p|p];
    cbn [compile_test test_unsupported] in E; try discriminate E;
    try (unfold tick in E; inversion E; subst; clear E; eapply Hp;
         first [ apply sem_compile_time; reflexivity
               | apply sem_cmp_field; reflexivity
               | apply sem_compile_perm
               | apply sem_compile_size
               | apply sem_compile_types
               | reflexivity ]; fail).
  - destruct (with_mgr (get_matcher p true) s) as [m s1] eqn:Ew. inversion E; subst.
    destruct (matcher_lookup _ _ _ _ _ _ _ Ew Hle Hag) as [i [-> Hl]].
    eapply (sem_matcher_quiet e "call-with-name"); try reflexivity; eassumption.
  - destruct (with_mgr (get_matcher p true) s) as [m s1] eqn:Ew. inversion E; subst.
    destruct (matcher_lookup _ _ _ _ _ _ _ Ew Hle Hag) as [i [-> Hl]].
    eapply (sem_matcher_quiet e "call-with-relative-path"); try reflexivity; eassumption.
  - destruct (with_mgr (get_matcher p false) s) as [m s1] eqn:Ew. inversion E; subst.
    destruct (matcher_lookup _ _ _ _ _ _ _ Ew Hle Hag) as [i [-> Hl]].
    eapply (sem_matcher_quiet e "call-with-name"); try reflexivity; eassumption.
  - destruct (with_mgr (get_matcher p false) s) as [m s1] eqn:Ew. inversion E; subst.
    destruct (matcher_lookup _ _ _ _ _ _ _ Ew Hle Hag) as [i [-> Hl]].
    eapply (sem_matcher_quiet e "call-with-relative-path"); try reflexivity; eassumption.
  - destruct (xattr_offending a || xattr_offending b); destruct (cok_inv _ _ _ _ E) as [<- <-];
      eapply Hp; erase_lsts; rewrite !erase_lstr; reflexivity.
Qed.

(** the call (P arg) of a bound printer *)
Lemma sem_printer_call_eq e i t arg f :
  lookup e (idname "print" i) = Some (EPrinter t) ->
  sem_bool h e (erase (lst [ident "print" i; arg])) f
  = option_map (apply_printer t) (sem_str h (erase arg) f).
Proof.
  intros Hl. rewrite erase_lst. cbn [map]. rewrite erase_ident.
  rewrite sem_bool_leaf by reflexivity.
  change (sem_leaf h e (idname "print" i) [erase arg] f)
    with (match lookup e (idname "print" i), [erase arg] with
          | Some (EPrinter t), [x] => option_map (apply_printer t) (sem_str h x f)
          | _, _ => None
          end).
  rewrite Hl. reflexivity.
Qed.

Lemma line_single d p t : terminated (p ++ terminator_text t) -> Forall line_out [(d, p, t)].
Proof. intro H. constructor; [exact H|constructor]. Qed.

(** a compiled action that needs no frames writes lines only *)
Lemma compile_action_lines : forall a s x s' mf e f r,
  compile_action a s = COk (x, s') -> action_frames a = false ->
  mgr_le (st_mgr s') mf -> env_agrees e mf ->
  sem_bool h e (erase x) f = Some r -> Forall line_out (outs r).
Proof.
  intros a s x s' mf e f r E Hfr Hle Hag Hr.
  destruct (plain_action_cases a Hfr) as [->|[->|[->|[->|[->|[->|[->|(pre & ->)]]]]]]];
    cbn [compile_action] in E; try discriminate E.
  - (* -print *)
    destruct (with_mgr (get_printer (Some 10)) s) as [p s1] eqn:Ew.
    destruct (cok_inv _ _ _ _ E) as [<- <-].
    destruct (printer_lookup _ _ _ _ _ _ _ (get_printer_op (Some 10)) Ew Hle Hag) as [i [-> Hl]].
    rewrite (sem_path_printer h _ _ _ f Hl) in Hr. injection Hr as <-.
    apply line_single. right. apply last_snoc.
  - (* -print-file-fid *)
    destruct (with_mgr (get_printer (Some 10)) s) as [p s1] eqn:Ew.
    destruct (cok_inv _ _ _ _ E) as [<- <-].
    destruct (printer_lookup _ _ _ _ _ _ _ (get_printer_op (Some 10)) Ew Hle Hag) as [i [-> Hl]].
    rewrite (sem_printer_call_eq _ _ _ _ f Hl) in Hr.
    destruct (sem_str h (erase (call0 "file-fid")) f) as [pl|]; [|discriminate Hr].
    injection Hr as <-. apply line_single. right. apply last_snoc.
  - (* implicit print *)
    destruct (cok_inv _ _ _ _ E) as [<- <-].
    change (sem_bool h e (erase (call0 "print-relative-path")) f)
      with (Some (apply_printer (TStdout (Some 10)) (f_relative_path f))) in Hr.
    injection Hr as <-. apply line_single. right. apply last_snoc.
  - (* -quit *)
    destruct (cok_inv _ _ _ _ E) as [<- <-].
    change (sem_bool h e (erase (lst [atom "lipe-scan-break"; num 0])) f)
      with (Some (true, @nil output, true)) in Hr.
    injection Hr as <-. constructor.
  - (* the empty format *)
    destruct (with_mgr (get_printer None) s) as [p s1] eqn:Ew.
    destruct (compile_format []) as [cf|k c|m] eqn:Ef; try discriminate E.
    destruct (cok_inv _ _ _ _ E) as [<- <-].
    destruct (printer_lookup _ _ _ _ _ _ _ (get_printer_op None) Ew Hle Hag) as [i [-> Hl]].
    rewrite (sem_printer_call_eq _ _ _ _ f Hl) in Hr.
    injection Ef as <-.
    change (sem_str h _ f) with (Some (@nil N)) in Hr. injection Hr as <-.
    apply line_single. left. reflexivity.
  - (* a format ending with the newline escape *)
    destruct (with_mgr (get_printer None) s) as [p s1] eqn:Ew.
    destruct (compile_format (pre ++ [ESpecial XNewline])) as [cf|k c|m] eqn:Ef; try discriminate E.
    destruct (cok_inv _ _ _ _ E) as [<- <-].
    destruct (printer_lookup _ _ _ _ _ _ _ (get_printer_op None) Ew Hle Hag) as [i [-> Hl]].
    rewrite (sem_printer_call_eq _ _ _ _ f Hl) in Hr.
    destruct (sem_str h (erase cf) f) as [pl|] eqn:Es; [|discriminate Hr].
    injection Hr as <-. apply line_single. right. cbn [terminator_text]. rewrite app_nil_r.
    exact (proj2 (compile_format_newline h pre cf f pl Ef Es)).
Qed.

Theorem compile_expr_lines : forall e s x s' mf env f r,
  compile_expr e s = COk (x, s') -> complex_frames e = false ->
  mgr_le (st_mgr s') mf -> env_agrees env mf ->
  sem_bool h env (erase x) f = Some r -> Forall line_out (outs r).
Proof.
  assert (Hbin : forall op a b mf env f,
    (forall s x s' r, compile_expr a s = COk (x, s') -> mgr_le (st_mgr s') mf ->
       sem_bool h env (erase x) f = Some r -> Forall line_out (outs r)) ->
    (forall s x s' r, compile_expr b s = COk (x, s') -> mgr_le (st_mgr s') mf ->
       sem_bool h env (erase x) f = Some r -> Forall line_out (outs r)) ->
    forall s x s',
    match compile_expr a s with
    | COk (xa, s1) =>
        match compile_expr b s1 with
        | COk (y, s2) => COk (lst [atom op; xa; y], s2)
        | bad => bad
        end
    | bad => bad
    end = COk (x, s') ->
    mgr_le (st_mgr s') mf ->
    exists xa xb, erase x = SList [SAtom (chars op); xa; xb]
      /\ (forall r, sem_bool h env xa f = Some r -> Forall line_out (outs r))
      /\ (forall r, sem_bool h env xb f = Some r -> Forall line_out (outs r))).
  { intros op a b mf env f IHa IHb s x s' E Hle.
    destruct (compile_expr a s) as [[xa s1]|k c|m] eqn:Ea; try discriminate E.
    destruct (compile_expr b s1) as [[xb s2]|k c|m] eqn:Eb; try discriminate E.
    destruct (cok_inv _ _ _ _ E) as [<- <-].
    destruct (compile_expr_state _ _ _ _ Eb) as [Lb _].
    exists (erase xa), (erase xb). split; [rewrite erase_lst; reflexivity|]. split.
    - intros r Hr. apply (IHa _ _ _ r Ea); [exact (mgr_le_trans _ _ _ Lb Hle)|exact Hr].
    - intros r Hr. apply (IHb _ _ _ r Eb); [exact Hle|exact Hr]. }
  induction e as [e IH|e IH|a IHa b IHb|a IHa b IHb|a IHa b IHb|t|a|g|];
    intros s x s' mf env f r E Hc Hle Hag Hr; cbn [compile_expr] in E; try discriminate E;
    cbn [complex_frames] in Hc.
  - (* not *)
    destruct (compile_expr e s) as [[xa s1]|k c|m] eqn:Ea; try discriminate E.
    destruct (cok_inv _ _ _ _ E) as [<- <-]. rewrite erase_lst in Hr. cbn [map] in Hr.
    rewrite erase_atom, sem_bool_not in Hr.
    destruct (sem_bool h env (erase xa) f) as [ra|] eqn:Era; [|discriminate Hr].
    cbn [option_map] in Hr. injection Hr as <-. rewrite outs_negate.
    exact (IH _ _ _ _ _ _ _ Ea Hc Hle Hag Era).
  - apply orb_false_iff in Hc. destruct Hc as [Hca Hcb].
    destruct (Hbin "and"%string a b mf env f
                (fun s x s' r E L => IHa s x s' mf env f r E Hca L Hag)
                (fun s x s' r E L => IHb s x s' mf env f r E Hcb L Hag) s x s' E Hle)
      as (xa & xb & Hx & Ha & Hb).
    rewrite Hx, sem_bool_and2 in Hr. exact (then_if_outputs _ _ _ _ _ Hr Ha Hb).
  - apply orb_false_iff in Hc. destruct Hc as [Hca Hcb].
    destruct (Hbin "or"%string a b mf env f
                (fun s x s' r E L => IHa s x s' mf env f r E Hca L Hag)
                (fun s x s' r E L => IHb s x s' mf env f r E Hcb L Hag) s x s' E Hle)
      as (xa & xb & Hx & Ha & Hb).
    rewrite Hx, sem_bool_or2 in Hr. exact (then_if_outputs _ _ _ _ _ Hr Ha Hb).
  - apply orb_false_iff in Hc. destruct Hc as [Hca Hcb].
    destruct (Hbin "and"%string a b mf env f
                (fun s x s' r E L => IHa s x s' mf env f r E Hca L Hag)
                (fun s x s' r E L => IHb s x s' mf env f r E Hcb L Hag) s x s' E Hle)
      as (xa & xb & Hx & Ha & Hb).
    rewrite Hx, sem_bool_and2 in Hr. exact (then_if_outputs _ _ _ _ _ Hr Ha Hb).
  - rewrite (compile_test_quiet t s x s' mf env f r E Hle Hag Hr). constructor.
  - exact (compile_action_lines a s x s' mf env f r E Hc Hle Hag Hr).
Qed.

(** C16t: every record of a compiled plain-mode policy, on any host and any file on which the
    policy has a meaning, is a terminated line or has no bytes *)
Theorem plain_records_terminated e o clk c f rs :
  compile e o clk = COk c -> c_framed c = false ->
  file_records h c f = Some rs ->
  Forall (fun r => r = [] \/ last r 0 = 10) rs.
Proof.
  intros Hc Hfr Hrs. unfold file_records in Hrs.
  destruct (policy_outputs h c f) as [os|] eqn:Hos; [|discriminate Hrs].
  destruct (policy_outputs_inv _ _ _ _ Hos) as (env & r & Hdefs & Hbody & ->).
  apply (all_some_records c Hfr (outs r) rs Hrs).
  destruct (mode_both e o clk c Hc) as [Hm _]. rewrite Hfr in Hm. symmetry in Hm.
  unfold compile in Hc.
  destruct (compile_expr (wrap e) _) as [[body sf]|k cs|m] eqn:Ec; try discriminate Hc.
  assert (Hbody' : c_body c = body).
  { injection Hc as <-. destruct (st_mgr sf); reflexivity. }
  rewrite Hbody' in Hbody.
  assert (Hag : env_agrees env (st_mgr sf)).
  { destruct (st_mgr sf) as [lf|df] eqn:Emf.
    - pose proof (compile_expr_step [] _ _ _ _ Ec) as (Hle & Hmode & _ & Hinv).
      cbn [st_mgr] in Hle, Hmode, Hinv. rewrite Emf in Hle, Hmode, Hinv. rewrite Hm in Hle, Hmode, Hinv.
      destruct (Hinv (ML lf) [] linv_init (mgr_le_refl _) I I) as [env' Henv].
      cbn [minv] in Henv. injection Hc as <-. cbn [c_iomap c_defs] in Hdefs.
      rewrite (li_defs lf env' Henv) in Hdefs. injection Hdefs as <-.
      exact (linv_agrees lf env' Henv).
    - injection Hc as <-. discriminate Hfr. }
  apply (compile_expr_lines (wrap e) _ body sf (st_mgr sf) env f r Ec);
    [rewrite complex_frames_wrap; exact Hm|apply mgr_le_refl|exact Hag|exact Hbody].
Qed.

(** the same in the vocabulary of C03; the hypothesis on the tree is not used *)
Corollary plain_records_terminated_parser e o clk c f rs :
  parser_tree e -> compile e o clk = COk c -> c_framed c = false ->
  file_records h c f = Some rs ->
  Forall (fun r => r = [] \/ last r 0 = 10) rs.
Proof. intros _. apply plain_records_terminated. Qed.

Lemma Forall_concat_all_some {A B} (P : B -> Prop) (g : A -> option (list B)) l : forall ls,
  all_some (map g l) = Some ls -> (forall x y, g x = Some y -> Forall P y) -> Forall P (List.concat ls).
Proof.
  induction l as [|x l IH]; intros ls H Hg.
  - injection H as <-. constructor.
  - cbn [map all_some] in H. destruct (g x) as [y|] eqn:Ex; [|discriminate H].
    destruct (all_some (map g l)) as [ls'|]; [|discriminate H].
    cbn [option_map] in H. injection H as <-. cbn [List.concat]. apply Forall_app.
    split; [exact (Hg x y Ex)|exact (IH ls' eq_refl Hg)].
Qed.

(** the same for the records of the invocations on a list of files *)
Theorem plain_files_records_terminated e o clk c fs rs :
  compile e o clk = COk c -> c_framed c = false ->
  files_records h c fs = Some rs ->
  Forall (fun r => r = [] \/ last r 0 = 10) rs.
Proof.
  intros Hc Hfr Hrs. unfold files_records in Hrs.
  destruct (all_some (map (file_records h c) fs)) as [ls|] eqn:El; [|discriminate Hrs].
  cbn [option_map] in Hrs. injection Hrs as <-.
  apply (Forall_concat_all_some _ (file_records h c) fs ls El).
  intros f y Hy. exact (plain_records_terminated e o clk c f y Hc Hfr Hy).
Qed.

(** an instance outside the hypotheses of C02 (known finding D17): %a prints the decimal seconds,
    and the record is still a terminated line *)
Lemma ctime_record f :
  exists c, compile (EAction (APrintFormatted [EField FAccess; ESpecial XNewline])) default_options [] = COk c
    /\ c_framed c = false
    /\ file_records h c f = Some [print_dec (f_atime f) ++ [10]].
Proof.
  eexists. split; [reflexivity|]. split; [reflexivity|].
  change (file_records h _ f)
    with (Some [(show_int (Z.of_N (f_atime f)) ++ [10]) ++ @nil N]).
  rewrite TransFormat.show_int_of_N, app_nil_r. reflexivity.
Qed.

End NoSem.
