(** What each argument parser does with a text that is invalid from its first character: it
    fails with a fixed context and leaves the cursor at the start of that text. *)
From Coq Require Import List String Ascii NArith Bool Arith Lia ZifyBool ZifyN.
From FP Require Import Model.Chars Model.Winnow Model.Ast Model.Args Model.Perm Model.Format Model.Lex.
From FP Require Import Spec.Decimal Spec.Numeric Spec.PermWord Spec.Messages.
From FP Require Import Proofs.WinnowFacts Proofs.WinnowTotal Proofs.Numbers Proofs.PermProofs.
Import ListNotations.
Local Open Scope N_scope.

Lemma erased_err {A} (p : sparser A) a (b : bool) c r :
  p a = ((if b then Cut c else Back c), r) -> erased p a = ((if b then Cut c else Back c), r).
Proof. intros H. unfold erased, value, pmap. rewrite H. destruct b; reflexivity. Qed.

(** * numbers behind an optional sign *)
Section CmpFail.
Context {T : Type} (d : sparser T) (cd : list ctx).
Hypothesis d_no_digit : forall x, not_starting_with digit x -> d x = (Back cd, x).

Lemma strip_sign_cases a :
  (exists r, a = plus :: r /\ strip_sign a = r) \/ (exists r, a = minus :: r /\ strip_sign a = r)
  \/ (not_starting_with sign a /\ strip_sign a = a).
Proof.
  destruct a as [|c r]; [right; right; split; [exact I|reflexivity]|].
  cbn [strip_sign]. destruct (N.eqb_spec c plus) as [E1|E1].
  - left. exists r. subst c. split; reflexivity.
  - destruct (N.eqb_spec c minus) as [E2|E2].
    + right. left. exists r. subst c. split; reflexivity.
    + right. right. cbn [orb]. split; [|reflexivity]. cbn [not_starting_with]. unfold sign. tauto.
Qed.

Lemma cmp_fail a :
  not_starting_with digit (strip_sign a) -> parse_cmp d a = (Cut (cd ++ [Label "comparison"]), a).
Proof.
  intros H. destruct (strip_sign_cases a) as [(r & Ha & Hs)|[(r & Ha & Hs)|(Hns & Hs)]];
    rewrite Hs in H.
  - subst a. rewrite parse_cmp_plus, (d_no_digit r H), cmp_plain_eq.
    rewrite d_no_digit by (apply sign_not_digit; left; reflexivity). reflexivity.
  - subst a. rewrite parse_cmp_minus, (d_no_digit r H), cmp_plain_eq.
    rewrite d_no_digit by (apply sign_not_digit; right; reflexivity). reflexivity.
  - rewrite (parse_cmp_none d a Hns), cmp_plain_eq, (d_no_digit a H). reflexivity.
Qed.
End CmpFail.

Lemma fail_cmp_uint b a : not_starting_with digit (strip_sign a) ->
  parse_cmp (parse_uint b) a = (Cut [Expected "unsigned_integer"; Label "comparison"], a).
Proof. intros H. exact (cmp_fail (parse_uint b) _ (parse_uint_no_digit b) a H). Qed.
Lemma fail_cmp_time u a : not_starting_with digit (strip_sign a) ->
  parse_cmp (parse_time u) a
  = (Cut [Expected "unsigned_integer"; Label "timespec"; Label "comparison"], a).
Proof. intros H. exact (cmp_fail (parse_time u) _ (parse_time_no_digit u) a H). Qed.
Lemma fail_cmp_size a : not_starting_with digit (strip_sign a) ->
  parse_cmp parse_size a = (Cut [Expected "unsigned_integer"; Label "size"; Label "comparison"], a).
Proof. intros H. exact (cmp_fail parse_size _ parse_size_no_digit a H). Qed.

Lemma fail_refused a : not_starting_with digit a ->
  unsupported_u32 a = (Back [Expected "unsigned_integer"; Expected "unsupported_option"], a).
Proof.
  intros H. unfold unsupported_u32, context, verify, try_map, parse_u32.
  rewrite (parse_uint_no_digit two32 a H). reflexivity.
Qed.

(** * words *)
Lemma fail_quote_delimiter a : no_word a -> quote_delimiter a = (Back [], a).
Proof. intros [H|[r H]]; subst a; reflexivity. Qed.
Lemma fail_string a : no_word a -> parse_string a = (Back [Expected "string"], a).
Proof. intros H. unfold parse_string, context. rewrite (fail_quote_delimiter a H). reflexivity. Qed.
Lemma fail_perm a : no_word a -> parse_perm_arg a = (Back [], a).
Proof. intros H. unfold parse_perm_arg, and_then. rewrite (fail_quote_delimiter a H). reflexivity. Qed.
Lemma fail_format a : no_word a -> parse_format_arg a = (Back [], a).
Proof. intros H. unfold parse_format_arg, and_then. rewrite (fail_quote_delimiter a H). reflexivity. Qed.

Lemma fail_two_args {B} what (pr : sparser B) args a : no_word a ->
  two_args (context (expected what) parse_string) pr args a
  = (Back [Expected "string"; Expected what; Expected args], a).
Proof.
  intros H. unfold two_args, erased, value, pmap, context, separated_pair, bind.
  rewrite (fail_string a H). reflexivity.
Qed.

(** * type lists *)
Lemma fail_filetype a : head_in (in_str "bcdpfls") a = false ->
  parse_filetype a = if head_in is_alpha a then (Cut [Expected "invalid_type_specifier"], a)
                     else (Back [], a).
Proof.
  intros H. unfold parse_filetype. rewrite alt3.
  destruct a as [|c r]; [reflexivity|]. cbn [head_in] in *.
  unfold and_then at 1, take_while at 1. cbn [span]. destruct (is_alpha c) eqn:Ea.
  - destruct (span is_alpha r) as [x y] eqn:Es.
    destruct (Nat.leb 2 (List.length (c :: x))) eqn:El.
    + rewrite invalid_spec_eq. reflexivity.
    + unfold pmap, one_of. rewrite H. unfold and_then, alpha1, take_while. cbn [span].
      rewrite Ea, Es. cbn [List.length Nat.leb]. rewrite invalid_spec_eq. reflexivity.
  - cbn [List.length Nat.leb]. unfold pmap, one_of. rewrite H.
    unfold and_then, alpha1, take_while. cbn [span]. rewrite Ea. reflexivity.
Qed.

Lemma fail_filetypes a : head_in (in_str "bcdpfls") a = false ->
  parse_filetypes a = if head_in is_alpha a then (Cut [Expected "invalid_type_specifier"], a)
                      else (Back [], a).
Proof.
  intros H. unfold parse_filetypes, separated1. rewrite (fail_filetype a H).
  destruct (head_in is_alpha a); reflexivity.
Qed.
