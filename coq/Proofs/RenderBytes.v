(** Byte-level form of C20: the emitted text is a fixed prefix, the literal of the device path,
    a fixed suffix. *)
From Coq Require Import List String NArith Bool.
From FP Require Import Model.Chars Model.Ast Model.Sexp Model.Compile.
From FP Require Import Spec.GuileReader Proofs.UserStrings.
Import ListNotations.
Local Open Scope N_scope.

(** a text depending on the path [p] only through one occurrence of the literal of [p] *)
Definition one_literal (f : str -> str) : Prop :=
  exists pre post, forall p, f p = pre ++ print (lstr p) ++ post.

Lemma one_literal_here : one_literal (fun p => print (lstr p)).
Proof. exists [], []. intro p. now rewrite app_nil_r. Qed.

Lemma one_literal_cons a f : one_literal f -> one_literal (fun p => a :: f p).
Proof. intros (pre & post & H). exists (a :: pre), post. intro p. now rewrite H. Qed.

Lemma one_literal_app_l s f : one_literal f -> one_literal (fun p => s ++ f p).
Proof.
  intros (pre & post & H). exists (s ++ pre), post. intro p. now rewrite H, app_assoc.
Qed.

Lemma one_literal_app_r s f : one_literal f -> one_literal (fun p => f p ++ s).
Proof.
  intros (pre & post & H). exists pre, (post ++ s). intro p. now rewrite H, <- !app_assoc.
Qed.

Theorem scheme_text_one_literal : forall c, one_literal (fun p => scheme_text c p).
Proof.
  intro c. unfold scheme_text, render, thunk.
  cbn [print print_items].
  repeat match goal with
  | |- one_literal (fun p => print (lstr p)) => exact one_literal_here
  | |- one_literal (fun p => ?s ++ @?f p) => apply (one_literal_app_l s f)
  | |- one_literal (fun p => @?f p ++ ?s) => apply (one_literal_app_r s f)
  | |- one_literal (fun p => ?a :: @?f p) => apply (one_literal_cons a f)
  end.
Qed.

Theorem scheme_text_split : forall c, exists pre post,
  forall p, scheme_text c p = pre ++ print (lstr p) ++ post.
Proof. exact scheme_text_one_literal. Qed.

(** the literal determines the path: it reads back as the string node holding the path *)
Lemma literal_decodes : forall p,
  erase (lstr p) = SStr p /\ read_all (print (lstr p)) = Some [SStr p].
Proof. intro p. destruct (string_roundtrip p) as (H1 & H2 & _). now split. Qed.

Lemma literal_injective : forall p1 p2, print (lstr p1) = print (lstr p2) -> p1 = p2.
Proof.
  intros p1 p2 H. destruct (literal_decodes p1) as [_ R1], (literal_decodes p2) as [_ R2].
  rewrite H, R2 in R1. now inversion R1.
Qed.

Theorem scheme_text_two_paths : forall c, exists pre post, forall p1 p2, p1 <> p2 ->
  scheme_text c p1 = pre ++ print (lstr p1) ++ post
  /\ scheme_text c p2 = pre ++ print (lstr p2) ++ post
  /\ print (lstr p1) <> print (lstr p2)
  /\ scheme_text c p1 <> scheme_text c p2.
Proof.
  intro c. destruct (scheme_text_split c) as (pre & post & H). exists pre, post.
  intros p1 p2 Hne. split; [apply H|]. split; [apply H|].
  assert (Hl : print (lstr p1) <> print (lstr p2)) by (intro E; apply Hne, literal_injective, E).
  split; [exact Hl|].
  rewrite !H. intro E. apply app_inv_head, app_inv_tail in E. exact (Hl E).
Qed.
