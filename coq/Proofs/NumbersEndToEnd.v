(** C07 end to end.
    (a) a numeric argument beyond the range of its field makes the WHOLE input an error of that
        keyword, wherever the primary stands (composition of Proofs/Numbers.v with
        Proofs/ErrorAttribution.v);
    (b) every atom of an emitted policy body that could be read as a number is the canonical
        decimal numeral of a number of the tree, of a clock reading, or of a constant of the code
        generator -- and every number of the tree is emitted. *)
From Coq Require Import List String Ascii NArith Bool Arith Lia ZifyBool ZifyN.
From FP Require Import Model.Chars Model.Winnow Model.Ast Model.Args Model.Perm Model.Format Model.Lex
  Model.Prec Model.Parse Model.Sexp Model.Compile.
From FP Require Import Spec.Vocabulary.
From FP Require Import Spec.Decimal Spec.Numeric Spec.Messages Spec.Tree Spec.NumeralSources.
From FP Require Import Proofs.WinnowFacts Proofs.Numbers Proofs.ArgFail Proofs.TokenView
  Proofs.ErrorAttribution.
Import ListNotations.
Local Open Scope N_scope.

(** * (a) out-of-range arguments reject the whole input *)

(** ** the comparison prefix in front of a failing argument parser *)
Lemma cmp_cut {T} (d : sparser T) sg w c r :
  not_starting_with sign w -> d w = (Cut c, r) ->
  parse_cmp d (Numeric.prefix_str sg ++ w) = (Cut (c ++ [Label "comparison"]), r).
Proof.
  intros Hw Hd. destruct sg; cbn [Numeric.prefix_str app].
  - rewrite parse_cmp_plus, Hd. reflexivity.
  - rewrite parse_cmp_minus, Hd. reflexivity.
  - rewrite (parse_cmp_none d w Hw), cmp_plain_eq, Hd. reflexivity.
Qed.

Lemma cmp_back {T} (d : sparser T) cd sg w :
  (forall x, not_starting_with digit x -> d x = (Back cd, x)) ->
  not_starting_with sign w -> d w = (Back cd, w) ->
  parse_cmp d (Numeric.prefix_str sg ++ w)
  = (Cut (cd ++ [Label "comparison"]), Numeric.prefix_str sg ++ w).
Proof.
  intros Hnd Hw Hd. destruct sg; cbn [Numeric.prefix_str app].
  - rewrite parse_cmp_plus, Hd, cmp_plain_eq.
    rewrite Hnd by (apply sign_not_digit; left; reflexivity). reflexivity.
  - rewrite parse_cmp_minus, Hd, cmp_plain_eq.
    rewrite Hnd by (apply sign_not_digit; right; reflexivity). reflexivity.
  - rewrite (parse_cmp_none d w Hw), cmp_plain_eq, Hd. reflexivity.
Qed.

(** ** from a failure of the argument parser to the text of the message *)
Lemma arg_error_msg K k l p pre bl a (b : bool) c r2 e :
  In (K, k, l, p) arg_table -> lexes_fine pre (chars K ++ bl ++ a) -> blanks bl ->
  head_in is_space a = false -> p a = ((if b then Cut c else Back c), r2) ->
  (forall x, message (c ++ primary_ctx K k) x = failed_msg (next_word x) k K e) ->
  parse (pre ++ chars K ++ bl ++ a) = ParseErr (failed_msg (next_word r2) k K e).
Proof.
  intros Hin Hlf Hbl Ha Hp Hm.
  rewrite (arg_error K k l p pre bl a b c r2 Hin Hlf Hbl Ha Hp), Hm. reflexivity.
Qed.

Lemma msg_fail K k l p c e :
  In (K, k, l, p) arg_table -> In (c, e) (fail_ctxs l) ->
  forall x, message (c ++ primary_ctx K k) x = failed_msg (next_word x) k K e.
Proof.
  intros Hin Hc x. destruct (keyword_static K k l p Hin) as [_ Hmsg].
  inversion Hmsg as [|y z _ Hm]; subst. rewrite Forall_forall in Hm.
  exact (Hm (c, e) Hc x).
Qed.

Definition ui : option string := Some "Expected an unsigned integer"%string.

Lemma ltb_out n b : b <= n -> (n <? b) = false.
Proof. intros H. apply N.ltb_ge. exact H. Qed.

(** ** where the keywords stand in the table of argument-taking primaries *)
Ltac in_table := unfold arg_table; repeat first [left; reflexivity | right].

Lemma count32_in K f : In (K, f) count32_table ->
  In (K, KTest, LCount, erased (parse_cmp parse_u32)) arg_table.
Proof.
  intros Hin. unfold count32_table in Hin.
  repeat (destruct Hin as [Hin|Hin];
          [apply (f_equal fst) in Hin; cbn [fst] in Hin; subst K; in_table|]).
  destruct Hin.
Qed.

Lemma links_in : In ("-links"%string, KTest, LCount, erased (parse_cmp parse_u64)) arg_table.
Proof. in_table. Qed.
Lemma size_in : In ("-size"%string, KTest, LSize, erased (parse_cmp parse_size)) arg_table.
Proof. in_table. Qed.
Lemma threads_in : In ("-threads"%string, KOption, LUnsigned, erased parse_u32) arg_table.
Proof. in_table. Qed.
Lemma maxdepth_in : In ("-maxdepth"%string, KOption, LRefused, erased unsupported_u32) arg_table.
Proof. in_table. Qed.
Lemma mindepth_in : In ("-mindepth"%string, KOption, LRefused, erased unsupported_u32) arg_table.
Proof. in_table. Qed.

Lemma time_in K u f : In (K, u, f) time_table ->
  In (K, KTest, LTime, erased (parse_cmp (parse_time u))) arg_table.
Proof.
  intros Hin. unfold time_table in Hin.
  repeat (destruct Hin as [Hin|Hin];
          [apply (f_equal fst) in Hin; cbn [fst] in Hin; inversion Hin; subst K u; in_table|]).
  destruct Hin.
Qed.

(** ** counts *)
Lemma reject_cmp_uint K k p pre bl sg ds rest bound :
  In (K, k, LCount, erased p) arg_table -> p = parse_cmp (parse_uint bound) ->
  lexes_fine pre (chars K ++ bl ++ Numeric.prefix_str sg ++ ds ++ rest) -> blanks bl ->
  digits ds -> ds <> [] -> not_starting_with digit rest -> bound <= pos_value ds ->
  parse (pre ++ chars K ++ bl ++ Numeric.prefix_str sg ++ ds ++ rest)
  = ParseErr (failed_msg (next_word (Numeric.prefix_str sg ++ ds ++ rest)) k K ui).
Proof.
  intros Hin -> Hlf Hbl Hd Hne Hr Hb.
  apply (arg_error_msg K k LCount _ pre bl _ true
           [Expected "unsigned_integer"; Label "comparison"] _ ui Hin Hlf Hbl).
  - exact (prefix_digits_head sg ds rest Hd Hne).
  - apply (erased_err _ _ true).
    rewrite (parse_cmp_uint_exact bound sg ds rest Hd Hne Hr), (ltb_out _ _ Hb). reflexivity.
  - apply (msg_fail K k LCount _ _ _ Hin). left. reflexivity.
Qed.

Theorem reject_count32_range K f pre bl sg ds rest :
  In (K, f) count32_table ->
  lexes_fine pre (chars K ++ bl ++ Numeric.prefix_str sg ++ ds ++ rest) -> blanks bl ->
  digits ds -> ds <> [] -> not_starting_with digit rest -> 2 ^ 32 <= pos_value ds ->
  parse (pre ++ chars K ++ bl ++ Numeric.prefix_str sg ++ ds ++ rest)
  = ParseErr (failed_msg (next_word (Numeric.prefix_str sg ++ ds ++ rest)) KTest K
                (Some "Expected an unsigned integer"%string)).
Proof.
  intros Hin Hlf Hbl Hd Hne Hr Hb.
  exact (reject_cmp_uint K KTest _ pre bl sg ds rest two32 (count32_in K f Hin) eq_refl
           Hlf Hbl Hd Hne Hr Hb).
Qed.

Theorem reject_links_range pre bl sg ds rest :
  lexes_fine pre (chars "-links" ++ bl ++ Numeric.prefix_str sg ++ ds ++ rest) -> blanks bl ->
  digits ds -> ds <> [] -> not_starting_with digit rest -> 2 ^ 64 <= pos_value ds ->
  parse (pre ++ chars "-links" ++ bl ++ Numeric.prefix_str sg ++ ds ++ rest)
  = ParseErr (failed_msg (next_word (Numeric.prefix_str sg ++ ds ++ rest)) KTest "-links"
                (Some "Expected an unsigned integer"%string)).
Proof.
  intros Hlf Hbl Hd Hne Hr Hb.
  exact (reject_cmp_uint "-links" KTest _ pre bl sg ds rest two64 links_in eq_refl
           Hlf Hbl Hd Hne Hr Hb).
Qed.

(** ** -threads, and the two refused options *)
Theorem reject_threads_range pre bl ds rest :
  lexes_fine pre (chars "-threads" ++ bl ++ ds ++ rest) -> blanks bl ->
  digits ds -> ds <> [] -> not_starting_with digit rest -> 2 ^ 32 <= pos_value ds ->
  parse (pre ++ chars "-threads" ++ bl ++ ds ++ rest)
  = ParseErr (failed_msg (next_word (ds ++ rest)) KOption "-threads"
                (Some "Expected an unsigned integer"%string)).
Proof.
  intros Hlf Hbl Hd Hne Hr Hb.
  apply (arg_error_msg _ _ _ _ pre bl _ false [Expected "unsigned_integer"] _ ui threads_in Hlf Hbl).
  - exact (prefix_digits_head PNone ds rest Hd Hne).
  - apply (erased_err _ _ false). unfold parse_u32.
    exact (parse_uint_out_of_range two32 ds rest Hd Hne Hr Hb).
  - apply (msg_fail _ _ _ _ _ _ threads_in). left. reflexivity.
Qed.

Lemma unsupported_out_of_range ds rest :
  digits ds -> ds <> [] -> not_starting_with digit rest -> 2 ^ 32 <= pos_value ds ->
  unsupported_u32 (ds ++ rest)
  = (Back [Expected "unsigned_integer"; Expected "unsupported_option"], ds ++ rest).
Proof.
  intros Hd Hne Hr Hb. unfold unsupported_u32, context, verify, try_map, parse_u32.
  rewrite (parse_uint_out_of_range two32 ds rest Hd Hne Hr Hb). reflexivity.
Qed.

Theorem reject_depth_range K pre bl ds rest :
  K = "-maxdepth"%string \/ K = "-mindepth"%string ->
  lexes_fine pre (chars K ++ bl ++ ds ++ rest) -> blanks bl ->
  digits ds -> ds <> [] -> not_starting_with digit rest -> 2 ^ 32 <= pos_value ds ->
  parse (pre ++ chars K ++ bl ++ ds ++ rest)
  = ParseErr (failed_msg (next_word (ds ++ rest)) KOption K
                (Some "Expected an unsigned integer"%string)).
Proof.
  intros HK Hlf Hbl Hd Hne Hr Hb.
  assert (Hin : In (K, KOption, LRefused, erased unsupported_u32) arg_table).
  { destruct HK as [-> | ->]; [exact maxdepth_in|exact mindepth_in]. }
  apply (arg_error_msg _ _ _ _ pre bl _ false
           [Expected "unsigned_integer"; Expected "unsupported_option"] _ ui Hin Hlf Hbl).
  - exact (prefix_digits_head PNone ds rest Hd Hne).
  - apply (erased_err _ _ false). exact (unsupported_out_of_range ds rest Hd Hne Hr Hb).
  - apply (msg_fail _ _ _ _ _ _ Hin). left. reflexivity.
Qed.

(** ** sizes *)
Lemma size_unit_msg x :
  message ([Expected "invalid_size_specifier"; Label "size"; Label "comparison"]
             ++ primary_ctx "-size" KTest) x
  = failed_msg (next_word x) KTest "-size" (Some "Invalid size specifier"%string).
Proof. reflexivity. Qed.

(** with a unit letter: the size parser gives up for good on the digits, so the message quotes
    the word WITHOUT its sign and explains it as an invalid size specifier *)
Theorem reject_size_unit_range pre bl sg ds u rest :
  lexes_fine pre (chars "-size" ++ bl ++ Numeric.prefix_str sg ++ ds ++ size_letter u :: rest) ->
  blanks bl -> digits ds -> ds <> [] -> 2 ^ 64 <= pos_value ds ->
  parse (pre ++ chars "-size" ++ bl ++ Numeric.prefix_str sg ++ ds ++ size_letter u :: rest)
  = ParseErr (failed_msg (next_word (ds ++ size_letter u :: rest)) KTest "-size"
                (Some "Invalid size specifier"%string)).
Proof.
  intros Hlf Hbl Hd Hne Hb.
  apply (arg_error_msg _ _ _ _ pre bl _ true
           [Expected "invalid_size_specifier"; Label "size"; Label "comparison"] _ _ size_in Hlf Hbl).
  - exact (prefix_digits_head sg ds _ Hd Hne).
  - apply (erased_err _ _ true).
    apply (cmp_cut parse_size sg _ [Expected "invalid_size_specifier"; Label "size"]).
    + exact (digits_not_starting_with_sign ds _ Hd Hne).
    + rewrite (parse_size_unit u ds rest Hd Hne), (ltb_out _ _ Hb). reflexivity.
  - exact size_unit_msg.
Qed.

(** without a unit letter *)
Theorem reject_size_plain_range pre bl sg ds rest :
  lexes_fine pre (chars "-size" ++ bl ++ Numeric.prefix_str sg ++ ds ++ rest) ->
  blanks bl -> digits ds -> ds <> [] -> not_starting_with digit rest ->
  not_starting_with letter rest -> 2 ^ 64 <= pos_value ds ->
  parse (pre ++ chars "-size" ++ bl ++ Numeric.prefix_str sg ++ ds ++ rest)
  = ParseErr (failed_msg (next_word (Numeric.prefix_str sg ++ ds ++ rest)) KTest "-size"
                (Some "Expected an unsigned integer"%string)).
Proof.
  intros Hlf Hbl Hd Hne Hr Hl Hb.
  apply (arg_error_msg _ _ _ _ pre bl _ true
           [Expected "unsigned_integer"; Label "size"; Label "comparison"] _ ui size_in Hlf Hbl).
  - exact (prefix_digits_head sg ds _ Hd Hne).
  - apply (erased_err _ _ true).
    apply (cmp_back parse_size [Expected "unsigned_integer"; Label "size"] sg).
    + exact parse_size_no_digit.
    + exact (digits_not_starting_with_sign ds _ Hd Hne).
    + rewrite (parse_size_plain ds rest Hd Hne Hr Hl), (ltb_out _ _ Hb). reflexivity.
  - apply (msg_fail _ _ _ _ _ _ size_in). left. reflexivity.
Qed.

(** ** ages *)
Lemma time_unit_msg K u f : In (K, u, f) time_table ->
  forall x, message ([Expected "invalid_time_specifier"; Label "timespec"; Label "comparison"]
                       ++ primary_ctx K KTest) x
            = failed_msg (next_word x) KTest K (Some "Found an invalid time specifier"%string).
Proof.
  intros Hin. unfold time_table in Hin.
  repeat (destruct Hin as [Hin|Hin];
          [apply (f_equal fst) in Hin; cbn [fst] in Hin; inversion Hin; subst K u;
           intros x; reflexivity|]).
  destruct Hin.
Qed.

Theorem reject_time_unit_range K dflt f pre bl sg ds u rest :
  In (K, dflt, f) time_table ->
  lexes_fine pre (chars K ++ bl ++ Numeric.prefix_str sg ++ ds ++ time_letter u :: rest) ->
  blanks bl -> digits ds -> ds <> [] -> 2 ^ 64 <= pos_value ds ->
  parse (pre ++ chars K ++ bl ++ Numeric.prefix_str sg ++ ds ++ time_letter u :: rest)
  = ParseErr (failed_msg (next_word (ds ++ time_letter u :: rest)) KTest K
                (Some "Found an invalid time specifier"%string)).
Proof.
  intros Hin Hlf Hbl Hd Hne Hb. pose proof (time_in K dflt f Hin) as Hin'.
  apply (arg_error_msg _ _ _ _ pre bl _ true
           [Expected "invalid_time_specifier"; Label "timespec"; Label "comparison"] _ _ Hin' Hlf Hbl).
  - exact (prefix_digits_head sg ds _ Hd Hne).
  - apply (erased_err _ _ true).
    apply (cmp_cut (parse_time dflt) sg _ [Expected "invalid_time_specifier"; Label "timespec"]).
    + exact (digits_not_starting_with_sign ds _ Hd Hne).
    + rewrite (parse_time_unit dflt u ds rest Hd Hne), (ltb_out _ _ Hb). reflexivity.
  - exact (time_unit_msg K dflt f Hin).
Qed.

Theorem reject_time_plain_range K dflt f pre bl sg ds rest :
  In (K, dflt, f) time_table ->
  lexes_fine pre (chars K ++ bl ++ Numeric.prefix_str sg ++ ds ++ rest) ->
  blanks bl -> digits ds -> ds <> [] -> not_starting_with digit rest ->
  not_starting_with letter rest -> 2 ^ 64 <= pos_value ds ->
  parse (pre ++ chars K ++ bl ++ Numeric.prefix_str sg ++ ds ++ rest)
  = ParseErr (failed_msg (next_word (Numeric.prefix_str sg ++ ds ++ rest)) KTest K
                (Some "Expected an unsigned integer"%string)).
Proof.
  intros Hin Hlf Hbl Hd Hne Hr Hl Hb. pose proof (time_in K dflt f Hin) as Hin'.
  apply (arg_error_msg _ _ _ _ pre bl _ true
           [Expected "unsigned_integer"; Label "timespec"; Label "comparison"] _ ui Hin' Hlf Hbl).
  - exact (prefix_digits_head sg ds _ Hd Hne).
  - apply (erased_err _ _ true).
    apply (cmp_back (parse_time dflt) [Expected "unsigned_integer"; Label "timespec"] sg).
    + exact (parse_time_no_digit dflt).
    + exact (digits_not_starting_with_sign ds _ Hd Hne).
    + rewrite (parse_time_plain dflt ds rest Hd Hne Hr Hl), (ltb_out _ _ Hb). reflexivity.
  - apply (msg_fail _ _ _ _ _ _ Hin'). left. reflexivity.
Qed.

(** ** the word the message quotes, when the number is a whole word *)
Lemma digits_bare ds : digits ds -> forallb bare_char ds = true.
Proof.
  induction ds as [|c ds IH]; intros Hd; [reflexivity|].
  inversion Hd as [|x y Hc Ht]; subst. cbn [forallb]. rewrite (IH Ht), andb_true_r.
  unfold digit in Hc. unfold bare_char. lia.
Qed.

Lemma ends_word_no_digit rest : ends_word rest -> not_starting_with digit rest.
Proof.
  unfold ends_word. destruct rest as [|c rest]; [intros _; exact I|].
  cbn [head_in not_starting_with]. unfold bare_char, digit. lia.
Qed.
Lemma ends_word_no_letter rest : ends_word rest -> not_starting_with letter rest.
Proof.
  unfold ends_word. destruct rest as [|c rest]; [intros _; exact I|].
  cbn [head_in not_starting_with]. unfold bare_char, letter. lia.
Qed.

Lemma word_end_sides rest : ends_word rest ->
  not_starting_with digit rest /\ not_starting_with letter rest.
Proof. intros H. exact (conj (ends_word_no_digit rest H) (ends_word_no_letter rest H)). Qed.

Lemma quoted_number sg ds rest : digits ds -> ds <> [] -> ends_word rest ->
  next_word (Numeric.prefix_str sg ++ ds ++ rest) = Numeric.prefix_str sg ++ ds.
Proof.
  intros Hd Hne He. rewrite app_assoc. apply next_word_bare; [|exact He].
  pose proof (digits_bare ds Hd) as Hb.
  destruct ds as [|c ds]; [contradiction|]. inversion Hd as [|x y Hc _]; subst.
  unfold digit in Hc.
  destruct sg; cbn [Numeric.prefix_str app]; (split; [discriminate|split]).
  - cbn [forallb] in *. rewrite Hb. reflexivity.
  - reflexivity.
  - cbn [forallb] in *. rewrite Hb. reflexivity.
  - reflexivity.
  - exact Hb.
  - cbn [head_in]. lia.
Qed.

Lemma quoted_number_unit ds c rest : digits ds -> ds <> [] -> letter c -> ends_word rest ->
  next_word (ds ++ c :: rest) = ds ++ [c].
Proof.
  intros Hd Hne Hc He. change (ds ++ c :: rest) with (ds ++ [c] ++ rest). rewrite app_assoc.
  apply next_word_bare; [|exact He].
  pose proof (digits_bare ds Hd) as Hb.
  split; [destruct ds; discriminate|split].
  - rewrite forallb_app, Hb. cbn [forallb]. unfold letter in Hc. unfold bare_char. lia.
  - destruct ds as [|d ds]; [contradiction|]. inversion Hd as [|x y Hx _]; subst.
    unfold digit in Hx. cbn [app head_in]. lia.
Qed.

(** * (b) the numerals of an emitted body *)

(** the atoms of a layout-carrying form *)
Fixpoint latoms (x : lsexp) : list str :=
  match x with
  | LAtom a => [a]
  | LStr _ => []
  | LList it _ => latoms_items it
  end
with latoms_items (l : litems) : list str :=
  match l with
  | LNil => []
  | LCons _ x r => latoms x ++ latoms_items r
  end.

Scheme lsexp_mind := Induction for lsexp Sort Prop
  with litems_mind := Induction for litems Sort Prop.

Lemma atoms_erase x : atoms (erase x) = latoms x.
Proof.
  apply (lsexp_mind (fun x => atoms (erase x) = latoms x)
                    (fun l => flat_map atoms (erase_items l) = latoms_items l)).
  - intros a. reflexivity.
  - intros ps. reflexivity.
  - intros it IH tr. cbn [erase atoms latoms]. exact IH.
  - reflexivity.
  - intros ws y IHy r IHr. cbn [erase_items flat_map latoms_items]. rewrite IHy, IHr. reflexivity.
Qed.

Lemma latoms_items_sep sep l : latoms_items (items_sep sep l) = flat_map latoms l.
Proof.
  induction l as [|y l IH]; [reflexivity|]. cbn [items_sep latoms_items flat_map].
  rewrite IH. reflexivity.
Qed.
Lemma latoms_lst l : latoms (lst l) = flat_map latoms l.
Proof.
  destruct l as [|y l]; [reflexivity|]. cbn [lst latoms latoms_items flat_map].
  rewrite latoms_items_sep. reflexivity.
Qed.
Lemma latoms_items_app a b : latoms_items (items_app a b) = latoms_items a ++ latoms_items b.
Proof.
  induction a as [|ws y r IH]; [reflexivity|]. cbn [items_app latoms_items].
  rewrite IH, app_assoc. reflexivity.
Qed.

Lemma Forall_flat {A B} (P : B -> Prop) (f : A -> list B) l :
  Forall (fun y => Forall P (f y)) l -> Forall P (flat_map f l).
Proof.
  induction l as [|y l IH]; intros H; [constructor|]. inversion H as [|y' l' Hy Hl]; subst.
  cbn [flat_map]. apply Forall_app. split; [exact Hy|exact (IH Hl)].
Qed.

(** an atom is accounted for by the numbers [S] *)
Definition accounted (S : list N) (a : str) : Prop :=
  numeric_start a = true ->
  In a numeric_symbols \/ exists n, a = print_dec n /\ (In n S \/ In n fixed_constants).
Definition all_acc (S : list N) (x : lsexp) : Prop := Forall (accounted S) (latoms x).

Lemma accounted_sym S a : numeric_start a = false -> accounted S a.
Proof. intros H H'. rewrite H in H'. discriminate. Qed.
Lemma accounted_numsym S a : In a numeric_symbols -> accounted S a.
Proof. intros H _. left. exact H. Qed.

Lemma all_lst S l : Forall (all_acc S) l -> all_acc S (lst l).
Proof. intros H. unfold all_acc. rewrite latoms_lst. exact (Forall_flat _ _ _ H). Qed.
Lemma all_sym S s : numeric_start (chars s) = false -> all_acc S (atom s).
Proof. intros H. constructor; [exact (accounted_sym S _ H)|constructor]. Qed.
Lemma all_numsym S s : In (chars s) numeric_symbols -> all_acc S (atom s).
Proof. intros H. constructor; [exact (accounted_numsym S _ H)|constructor]. Qed.
Lemma all_num S n : In n S \/ In n fixed_constants -> all_acc S (num n).
Proof. intros H. constructor; [|constructor]. intros _. right. exists n. split; [reflexivity|exact H]. Qed.
Lemma all_LStr S ps : all_acc S (LStr ps).
Proof. constructor. Qed.
Lemma all_lstr S u : all_acc S (lstr u).
Proof. constructor. Qed.
Lemma all_ident S k n : all_acc S (ident k n).
Proof. constructor; [|constructor]. apply accounted_sym. reflexivity. Qed.
Lemma all_incl S S' x : incl S S' -> all_acc S x -> all_acc S' x.
Proof.
  intros Hi H. unfold all_acc in *. eapply Forall_impl; [|exact H].
  intros a Ha Hs. destruct (Ha Hs) as [Hsym|(n & -> & [Hn|Hn])].
  - left. exact Hsym.
  - right. exists n. split; [reflexivity|left; exact (Hi n Hn)].
  - right. exists n. split; [reflexivity|right; exact Hn].
Qed.

Ltac acc1 :=
  lazymatch goal with
  | |- Forall _ [] => apply Forall_nil
  | |- Forall _ (_ :: _) => apply Forall_cons
  | |- all_acc _ (lst _) => apply all_lst
  | |- all_acc _ (lstr _) => apply all_lstr
  | |- all_acc _ (LStr _) => apply all_LStr
  | |- all_acc _ (ident _ _) => apply all_ident
  | |- all_acc _ (num _) =>
      apply all_num; cbn [In fixed_constants app filetype_bits s_ifmt perm_mask]; tauto
  | |- all_acc _ (atom _) => first [apply all_sym; reflexivity | apply all_numsym; cbn; tauto]
  end.
Ltac acc := repeat acc1.

(** ** every numeral of a leaf, then of a tree *)
Definition emits (x : lsexp) (n : N) : Prop := In (print_dec n) (latoms x).

Lemma get_matcher_shape pat ci m : exists i m', get_matcher pat ci m = (ident "match" i, m').
Proof.
  destruct m as [l|d]; cbn [get_matcher].
  - destruct (l_register_match pat ci l) as [i l1]. eexists _, _. reflexivity.
  - destruct (d_register_match pat ci d) as [i d1]. eexists _, _. reflexivity.
Qed.
Lemma get_printer_shape t m : exists i m', get_printer t m = (ident "print" i, m').
Proof.
  destruct m as [l|d]; cbn [get_printer].
  - destruct (l_init_default_port l) as [p l1]. destruct (l_register_printer p t l1) as [i l2].
    eexists _, _. reflexivity.
  - destruct (d_register_printer (TStdout t) d) as [i d1]. eexists _, _. reflexivity.
Qed.
Lemma get_file_printer_shape f t m : exists i m', get_file_printer f t m = (ident "print" i, m').
Proof.
  destruct m as [l|d]; cbn [get_file_printer].
  - destruct (l_init_file_port f l) as [p l1]. destruct (l_register_printer p t l1) as [i l2].
    eexists _, _. reflexivity.
  - destruct (d_register_printer (TFile f t) d) as [i d1]. eexists _, _. reflexivity.
Qed.

Lemma types_acc S l : all_acc S (compile_types l).
Proof.
  assert (Ht : forall t, all_acc S (type_check t)).
  { intros t. unfold type_check, call0. destruct t; acc. }
  destruct l as [|t [|t2 l]]; cbn [compile_types].
  - constructor; [apply accounted_sym; reflexivity|constructor].
  - apply Ht.
  - unfold all_acc. cbn [latoms latoms_items]. rewrite latoms_items_sep.
    constructor; [apply accounted_sym; reflexivity|].
    apply Forall_flat. apply Forall_forall. intros y Hy. apply in_map_iff in Hy as (t' & <- & _).
    apply Ht.
Qed.

Lemma some_acc S y x : Some y = Some x -> all_acc S y -> all_acc S x.
Proof. intros H Hy. inversion H; subst. exact Hy. Qed.

Lemma snippet_acc S f x : snippet f = Some x -> all_acc S x.
Proof.
  intros H. destruct f; unfold snippet in H; try discriminate H;
    try (match type of H with context [if ?c then _ else _] => destruct c end);
    (eapply some_acc; [exact H|]); unfold strftime, call0; acc.
Qed.

Lemma format_items_acc S fmt : Forall (all_acc S) (format_items fmt).
Proof.
  induction fmt as [|el fmt IH]; [constructor|]. destruct el as [u|f|x]; cbn [format_items]; try exact IH.
  destruct (snippet f) as [y|] eqn:E; [|exact IH]. constructor; [exact (snippet_acc S f y E)|exact IH].
Qed.

Lemma cok_acc S (y x : lsexp) : COk y = COk x -> all_acc S y -> all_acc S x.
Proof. intros H Hy. inversion H; subst. exact Hy. Qed.

Lemma compile_format_acc S fmt x : compile_format fmt = COk x -> all_acc S x.
Proof.
  unfold compile_format. destruct (template fmt) as [ps|k c|m]; try discriminate.
  pose proof (format_items_acc S fmt) as Hit.
  destruct (format_items fmt) as [|y its] eqn:E; intros H; (eapply cok_acc; [exact H|]); unfold all_acc.
  - cbn [latoms latoms_items app].
    constructor; [apply accounted_sym; reflexivity|].
    constructor; [apply accounted_numsym; cbn; tauto|constructor].
  - cbn [latoms]. rewrite latoms_items_app, latoms_items_sep. cbn [latoms latoms_items app].
    constructor; [apply accounted_sym; reflexivity|].
    constructor; [apply accounted_numsym; cbn; tauto|].
    apply Forall_flat. exact Hit.
Qed.

Definition leaf_ok (S clk' : list N) (x : lsexp) (s' : cstate) : Prop :=
  st_clock s' = clk' /\ all_acc S x /\ Forall (emits x) S.

Lemma cok_pair (P : lsexp -> cstate -> Prop) y s1 x s' :
  COk (y, s1) = COk (x, s') -> P y s1 -> P x s'.
Proof. intros H Hy. inversion H; subst. exact Hy. Qed.

Ltac emit :=
  unfold emits;
  cbn [latoms latoms_items lst items_sep app atom num call0 flat_map In];
  tauto.
Ltac emits_all := repeat first [apply Forall_nil | apply Forall_cons; [emit|]].

Ltac shape_mgr H :=
  unfold with_mgr in H;
  match type of H with
  | context [get_matcher ?p ?b ?m] =>
      let i := fresh "i" in let m' := fresh "m'" in let E := fresh "E" in
      destruct (get_matcher_shape p b m) as (i & m' & E); rewrite E in H
  | context [get_printer ?t ?m] =>
      let i := fresh "i" in let m' := fresh "m'" in let E := fresh "E" in
      destruct (get_printer_shape t m) as (i & m' & E); rewrite E in H
  | context [get_file_printer ?f ?t ?m] =>
      let i := fresh "i" in let m' := fresh "m'" in let E := fresh "E" in
      destruct (get_file_printer_shape f t m) as (i & m' & E); rewrite E in H
  end.

Ltac leaf_done :=
  unfold cmp_field, compile_size, compile_time, compile_perm, call0; cbn [cmp_val cmp_op];
  split; [reflexivity|split; [acc|emits_all]].

Lemma compile_test_numerals t s x s' : compile_test t s = COk (x, s') ->
  leaf_ok (fst (tree_numbers (ETest t) (st_clock s))) (snd (tree_numbers (ETest t) (st_clock s))) x s'.
Proof.
  intros H. destruct t; unfold compile_test in H; try discriminate H.
  all: try match goal with
           | c : cmp N |- _ => destruct c as [v|v|v]
           | c : cmp timespec |- _ => destruct c as [[u n]|[u n]|[u n]]
           | c : cmp size |- _ => destruct c as [[u n]|[u n]|[u n]]; destruct u
           | k : permkind |- _ => destruct k
           end.
  all: cbn [tree_numbers reads_clock test_numbers fst snd cmp_val].
  all: try (unfold tick in H; (eapply cok_pair; [exact H|]); cbn [st_clock]; leaf_done; fail).
  all: try ((eapply cok_pair; [exact H|]); leaf_done; fail).
  all: try (shape_mgr H; (eapply cok_pair; [exact H|]); leaf_done; fail).
  - eapply cok_pair; [exact H|]. split; [reflexivity|split; [apply types_acc|constructor]].
  - destruct (xattr_offending _ || xattr_offending _); (eapply cok_pair; [exact H|]); leaf_done.
Qed.

Lemma compile_action_numerals a s x s' : compile_action a s = COk (x, s') ->
  leaf_ok [] (st_clock s) x s'.
Proof.
  intros H. destruct a; unfold compile_action in H; try discriminate H.
  all: try ((eapply cok_pair; [exact H|]); leaf_done; fail).
  all: try (shape_mgr H; (eapply cok_pair; [exact H|]); leaf_done; fail).
  all: shape_mgr H; destruct (compile_format fmt) as [y|k c|m] eqn:Ef; try discriminate H;
    (eapply cok_pair; [exact H|]); split; [reflexivity|split; [|apply Forall_nil]];
    apply all_lst; apply Forall_cons; [apply all_ident|];
    apply Forall_cons; [exact (compile_format_acc [] fmt y Ef)|apply Forall_nil].
Qed.

Lemma tree_numbers_bin a b clk :
  tree_numbers (EAnd a b) clk
  = (fst (tree_numbers a clk) ++ fst (tree_numbers b (snd (tree_numbers a clk))),
     snd (tree_numbers b (snd (tree_numbers a clk)))).
Proof.
  cbn [tree_numbers]. destruct (tree_numbers a clk) as [na c1]. cbn [fst snd].
  destruct (tree_numbers b c1) as [nb c2]. reflexivity.
Qed.

Lemma emits_incl x y n : incl (latoms x) (latoms y) -> emits x n -> emits y n.
Proof. intros Hi H. exact (Hi _ H). Qed.

Lemma bin_numerals op a b s xa s1 xb s2 :
  numeric_start (chars op) = false ->
  leaf_ok (fst (tree_numbers a (st_clock s))) (snd (tree_numbers a (st_clock s))) xa s1 ->
  leaf_ok (fst (tree_numbers b (st_clock s1))) (snd (tree_numbers b (st_clock s1))) xb s2 ->
  leaf_ok (fst (tree_numbers (EAnd a b) (st_clock s))) (snd (tree_numbers (EAnd a b) (st_clock s)))
    (lst [atom op; xa; xb]) s2.
Proof.
  intros Hop (Hca & Haa & Hea) (Hcb & Hab & Heb). rewrite tree_numbers_bin. cbn [fst snd].
  rewrite Hca in Hcb, Hab, Heb. split; [exact Hcb|split].
  - apply all_lst. constructor; [apply all_sym; exact Hop|]. constructor.
    + exact (all_incl _ _ _ (incl_appl _ (incl_refl _)) Haa).
    + constructor; [|constructor]. exact (all_incl _ _ _ (incl_appr _ (incl_refl _)) Hab).
  - apply Forall_app. split; (eapply Forall_impl; [|eassumption]); intros n Hn; unfold emits in *;
      rewrite latoms_lst; cbn [flat_map]; rewrite !in_app_iff; tauto.
Qed.

Lemma compile_expr_numerals e : forall s x s', compile_expr e s = COk (x, s') ->
  leaf_ok (fst (tree_numbers e (st_clock s))) (snd (tree_numbers e (st_clock s))) x s'.
Proof.
  assert (Hbin : forall op a b,
    numeric_start (chars op) = false ->
    (forall s x s', compile_expr a s = COk (x, s') ->
       leaf_ok (fst (tree_numbers a (st_clock s))) (snd (tree_numbers a (st_clock s))) x s') ->
    (forall s x s', compile_expr b s = COk (x, s') ->
       leaf_ok (fst (tree_numbers b (st_clock s))) (snd (tree_numbers b (st_clock s))) x s') ->
    forall s x s',
      match compile_expr a s with
      | COk (xa, s1) => match compile_expr b s1 with
                        | COk (xb, s2) => COk (lst [atom op; xa; xb], s2)
                        | bad => bad end
      | bad => bad end = COk (x, s') ->
      leaf_ok (fst (tree_numbers (EAnd a b) (st_clock s))) (snd (tree_numbers (EAnd a b) (st_clock s))) x s').
  { intros op a b Hop IHa IHb s x s' H.
    destruct (compile_expr a s) as [[xa s1]|?|?] eqn:Ea; try discriminate H.
    destruct (compile_expr b s1) as [[xb s2]|?|?] eqn:Eb; try discriminate H.
    eapply cok_pair; [exact H|].
    exact (bin_numerals op a b s xa s1 xb s2 Hop (IHa _ _ _ Ea) (IHb _ _ _ Eb)). }
  induction e as [e IH|e IH|a IHa b IHb|a IHa b IHb|a IHa b IHb|t|a|g|]; intros s x s' H;
    cbn [compile_expr] in H; try discriminate H.
  - destruct (compile_expr e s) as [[y s1]|?|?] eqn:Ee; try discriminate H.
    destruct (IH _ _ _ Ee) as (Hc & Ha & He).
    eapply cok_pair; [exact H|]. cbn [tree_numbers]. split; [exact Hc|split].
    + apply all_lst. constructor; [apply all_sym; reflexivity|]. constructor; [exact Ha|constructor].
    + eapply Forall_impl; [|exact He]. intros n Hn. unfold emits in *. rewrite latoms_lst.
      cbn [flat_map]. rewrite !in_app_iff. tauto.
  - exact (Hbin "and"%string a b eq_refl IHa IHb s x s' H).
  - exact (Hbin "or"%string a b eq_refl IHa IHb s x s' H).
  - exact (Hbin "and"%string a b eq_refl IHa IHb s x s' H).
  - exact (compile_test_numerals t s x s' H).
  - exact (compile_action_numerals a s x s' H).
Qed.

(** ** the compiled program *)
Lemma wrap_numbers e clk : fst (tree_numbers (wrap e) clk) = fst (tree_numbers e clk).
Proof.
  unfold wrap. destruct (has_action e); [reflexivity|]. rewrite tree_numbers_bin.
  cbn [fst snd tree_numbers]. apply app_nil_r.
Qed.

Lemma compile_body e o clk c : compile e o clk = COk c ->
  exists m0 s, compile_expr (wrap e) {| st_mgr := m0; st_clock := clk |} = COk (c_body c, s).
Proof.
  unfold compile. intros H.
  destruct (compile_expr (wrap e) _) as [[body s]|?|?] eqn:E; try discriminate H.
  eexists _, s. rewrite E. inversion H as [Hc]. destruct (st_mgr s); reflexivity.
Qed.

Theorem emitted_numerals e o clk c : compile e o clk = COk c ->
  forall a, In a (atoms (erase (c_body c))) -> numeric_start a = true ->
  In a numeric_symbols
  \/ exists n, a = print_dec n /\ (In n (fst (tree_numbers e clk)) \/ In n fixed_constants).
Proof.
  intros H a Ha Hs. destruct (compile_body e o clk c H) as (m0 & s & E).
  destruct (compile_expr_numerals _ _ _ _ E) as (_ & Hacc & _). cbn [st_clock] in Hacc.
  rewrite wrap_numbers in Hacc. rewrite atoms_erase in Ha.
  unfold all_acc in Hacc. rewrite Forall_forall in Hacc. exact (Hacc a Ha Hs).
Qed.

Lemma digits_numeric_start a : digits a -> a <> [] -> numeric_start a = true.
Proof.
  intros Hd Hne. destruct a as [|c r]; [contradiction|]. inversion Hd as [|x y Hc _]; subst.
  cbn [numeric_start]. apply (proj2 (is_digit_true c)) in Hc. rewrite Hc. reflexivity.
Qed.

Lemma digits_not_symbol a : digits a -> ~ In a numeric_symbols.
Proof.
  intros Hd Hin. unfold numeric_symbols in Hin. cbn [In] in Hin.
  repeat (destruct Hin as [Hin|Hin];
          [subst a; inversion Hd as [|x y Hc _]; subst; unfold digit in Hc; cbn in Hc; lia|]).
  exact Hin.
Qed.

(** the form asked for: an atom made of decimal digits only *)
Theorem emitted_digit_atoms e o clk c : compile e o clk = COk c ->
  forall a, In a (atoms (erase (c_body c))) -> digits a -> a <> [] ->
  exists n, a = print_dec n /\ (In n (fst (tree_numbers e clk)) \/ In n fixed_constants).
Proof.
  intros H a Ha Hd Hne.
  destruct (emitted_numerals e o clk c H a Ha (digits_numeric_start a Hd Hne)) as [Hsym|Hn].
  - exfalso. exact (digits_not_symbol a Hd Hsym).
  - exact Hn.
Qed.

(** conversely every number of the tree and every clock reading it takes is emitted *)
Theorem numbers_emitted e o clk c : compile e o clk = COk c ->
  forall n, In n (fst (tree_numbers e clk)) -> In (print_dec n) (atoms (erase (c_body c))).
Proof.
  intros H n Hn. destruct (compile_body e o clk c H) as (m0 & s & E).
  destruct (compile_expr_numerals _ _ _ _ E) as (_ & _ & Hem). cbn [st_clock] in Hem.
  rewrite wrap_numbers in Hem. rewrite Forall_forall in Hem. rewrite atoms_erase.
  exact (Hem n Hn).
Qed.

(** ** where the numbers of a tree come from *)
Lemma tree_numbers_sources e : forall clk,
  incl (snd (tree_numbers e clk)) clk
  /\ forall n, In n (fst (tree_numbers e clk)) ->
       (exists t, Subterm (ETest t) e /\ In n (test_numbers t)) \/ In n clk \/ n = 0.
Proof.
  assert (Hbin : forall a b (mk : expr -> expr -> expr),
    (forall s x, Subterm s x -> Subterm s (mk x b)) -> (forall s x, Subterm s x -> Subterm s (mk a x)) ->
    (forall clk, incl (snd (tree_numbers a clk)) clk
       /\ forall n, In n (fst (tree_numbers a clk)) ->
            (exists t, Subterm (ETest t) a /\ In n (test_numbers t)) \/ In n clk \/ n = 0) ->
    (forall clk, incl (snd (tree_numbers b clk)) clk
       /\ forall n, In n (fst (tree_numbers b clk)) ->
            (exists t, Subterm (ETest t) b /\ In n (test_numbers t)) \/ In n clk \/ n = 0) ->
    forall clk, incl (snd (tree_numbers (EAnd a b) clk)) clk
       /\ forall n, In n (fst (tree_numbers (EAnd a b) clk)) ->
            (exists t, Subterm (ETest t) (mk a b) /\ In n (test_numbers t)) \/ In n clk \/ n = 0).
  { intros a b mk Hl Hr IHa IHb clk. rewrite tree_numbers_bin. cbn [fst snd].
    destruct (IHa clk) as [Hia Hna]. destruct (IHb (snd (tree_numbers a clk))) as [Hib Hnb]. split.
    - exact (incl_tran Hib Hia).
    - intros n Hn. apply in_app_or in Hn as [Hn|Hn].
      + destruct (Hna n Hn) as [(t & Hs & Ht)|[Hc|Hz]]; [left; exists t; split; [exact (Hl _ _ Hs)|exact Ht]|tauto|tauto].
      + destruct (Hnb n Hn) as [(t & Hs & Ht)|[Hc|Hz]]; [left; exists t; split; [exact (Hr _ _ Hs)|exact Ht]|right; left; exact (Hia n Hc)|tauto]. }
  induction e as [e IH|e IH|a IHa b IHb|a IHa b IHb|a IHa b IHb|t|a|g|]; intros clk.
  - destruct (IH clk) as [Hi Hn]. split; [exact Hi|]. intros n Hin.
    destruct (Hn n Hin) as [(t & Hs & Ht)|H]; [left; exists t; split; [constructor; exact Hs|exact Ht]|right; exact H].
  - destruct (IH clk) as [Hi Hn]. split; [exact Hi|]. intros n Hin.
    destruct (Hn n Hin) as [(t & Hs & Ht)|H]; [left; exists t; split; [constructor; exact Hs|exact Ht]|right; exact H].
  - exact (Hbin a b EAnd (fun s x => Sub_and_l s x b) (fun s x => Sub_and_r s a x) IHa IHb clk).
  - exact (Hbin a b EOr (fun s x => Sub_or_l s x b) (fun s x => Sub_or_r s a x) IHa IHb clk).
  - exact (Hbin a b EList (fun s x => Sub_list_l s x b) (fun s x => Sub_list_r s a x) IHa IHb clk).
  - cbn [tree_numbers]. destruct (reads_clock t); cbn [fst snd]; split.
    + destruct clk as [|k clk]; [apply incl_refl|apply incl_tl, incl_refl].
    + intros n [Hn|Hn].
      * destruct clk as [|k clk]; cbn [hd] in Hn; [right; right; symmetry; exact Hn|right; left; left; exact Hn].
      * left. exists t. split; [constructor|exact Hn].
    + apply incl_refl.
    + intros n Hn. left. exists t. split; [constructor|exact Hn].
  - split; [apply incl_refl|intros n []].
  - split; [apply incl_refl|intros n []].
  - split; [apply incl_refl|intros n []].
Qed.

Theorem tree_numbers_from e clk n : In n (fst (tree_numbers e clk)) ->
  (exists t, Subterm (ETest t) e /\ In n (test_numbers t)) \/ In n clk \/ n = 0.
Proof. exact (proj2 (tree_numbers_sources e clk) n). Qed.
