(** The error [parse] reports is the error of the first token that fails: if the input lexes
    fine up to some point and the token parser fails there, that failure — context and cursor —
    is what [parse] turns into its message, whether the failing token is met by the leading run
    of options or by the lexer proper. *)
From Coq Require Import List String NArith Bool Arith Lia.
From FP Require Import Model.Chars Model.Winnow Model.Ast Model.Args Model.Lex Model.Prec Model.Parse.
From FP Require Import Spec.Messages Proofs.WinnowFacts Proofs.WinnowTotal Proofs.LexTotal
  Proofs.Totality Proofs.Dispatch.
Import ListNotations.
Local Open Scope N_scope.

(** an error outcome at any result type *)
Definition err_as {A} (cut : bool) (c : list ctx) : out A := if cut then Cut c else Back c.

(** * one round of the lexer *)
Lemma token_step_eq i :
  token_step i =
    match parse_token i with
    | (Ok t, r) => (Ok t, skip_blanks r)
    | (Back c, r) => (Back c, r) | (Cut c, r) => (Cut c, r) | (Panic s, r) => (Panic s, r)
    end.
Proof.
  unfold token_step, terminated, bind, pmap. destruct (parse_token i) as [[t|c|c|s] r]; try reflexivity.
  rewrite multispace0_eq. reflexivity.
Qed.

Lemma wf_token_step : wf true token_step.
Proof. unfold token_step. pose proof (wf_parse_token true). wf_solve. Qed.

Lemma token_step_consumes i t r : token_step i = (Ok t, r) -> (slen r < slen i)%nat.
Proof.
  intros H. pose proof (wf_token_step i) as Hw. rewrite H in Hw. destruct Hw as [_ Hw].
  exact (Hw eq_refl).
Qed.

Lemma token_step_nil : token_step [] = (Back invalid_token_error, []).
Proof. reflexivity. Qed.

Lemma token_step_skip i t r : token_step i = (Ok t, r) -> skip_blanks r = r.
Proof.
  rewrite token_step_eq. destruct (parse_token i) as [[t0|c|c|s] r0]; try discriminate.
  intros H. inversion H; subst. apply skip_blanks_idem.
Qed.

(** * chains of rounds *)
Lemma lexes_to_skip i r : lexes_to i r -> skip_blanks i = i -> skip_blanks r = r.
Proof.
  intros H. induction H as [i|i t i' r Hs Hc IH]; intros Hi; [exact Hi|].
  apply IH. exact (token_step_skip _ _ _ Hs).
Qed.

Lemma lexes_to_trans a b c : lexes_to a b -> lexes_to b c -> lexes_to a c.
Proof.
  intros H. induction H as [i|i t i' r Hs Hc IH]; intros H2; [exact H2|].
  exact (lexes_step _ _ _ _ Hs (IH H2)).
Qed.

Definition is_err {A} (x : out A * str) : Prop :=
  match x with (Back _, _) | (Cut _, _) => True | _ => False end.

(** the chain from a point is a line: a point where the token parser fails lies beyond every
    other point of it *)
Lemma lexes_to_linear i r0 r :
  lexes_to i r0 -> lexes_to i r -> is_err (token_step r) -> lexes_to r0 r.
Proof.
  intros H. revert r. induction H as [i|i t i' r0 Hs Hc IH]; intros r H2 He; [exact H2|].
  destruct H2 as [i|i t2 i2 r Hs2 Hc2].
  - rewrite Hs in He. destruct He.
  - rewrite Hs in Hs2. inversion Hs2; subst. exact (IH _ Hc2 He).
Qed.

Lemma lexes_to_stuck r r2 : lexes_to r r2 -> is_err (token_step r) -> r2 = r.
Proof.
  intros H He. destruct H as [i|i t i' r2 Hs Hc]; [reflexivity|]. rewrite Hs in He. destruct He.
Qed.

Lemma first_error_unique i r1 r2 :
  lexes_to i r1 -> lexes_to i r2 -> is_err (token_step r1) -> is_err (token_step r2) -> r2 = r1.
Proof.
  intros H1 H2 E1 E2. apply lexes_to_stuck; [|exact E1]. exact (lexes_to_linear i r1 r2 H1 H2 E2).
Qed.

(** * the lexer proper follows the chain to the first failure *)
Lemma eof_cons (c : N) r : @eof N (c :: r) = (Back [], c :: r).
Proof. reflexivity. Qed.

Lemma rtill_chain i r b c r' :
  lexes_to i r -> r <> [] -> token_step r = (err_as b c, r') ->
  repeat_till0 slen token_step (@eof N) i = (err_as b c, r').
Proof.
  intros H Hne He. induction H as [i|i t i' r Hs Hc IH].
  - rewrite (repeat_till0_unfold slen token_step eof token_step_consumes).
    destruct i as [|ch i]; [contradiction|]. rewrite eof_cons, He. destruct b; reflexivity.
  - rewrite (repeat_till0_unfold slen token_step eof token_step_consumes).
    destruct i as [|ch i]; [rewrite token_step_nil in Hs; discriminate|].
    rewrite eof_cons, Hs, (IH Hne He). destruct b; reflexivity.
Qed.

Lemma lex_chain s r b c r' :
  lexes_to (skip_blanks s) r -> r <> [] -> token_step r = (err_as b c, r') ->
  lex s = (err_as b c, r').
Proof.
  intros H Hne He. unfold lex, pmap, preceded, bind. rewrite multispace0_eq.
  fold token_step. unfold repeat_till1.
  destruct H as [i|i t i' r Hs Hc].
  - rewrite He. destruct b; reflexivity.
  - rewrite Hs, (rtill_chain _ _ _ _ _ Hc Hne He). destruct b; reflexivity.
Qed.

(** * the leading run of options walks along the same chain *)
Section TableSkip.
Context {A : Type}.
Lemma alt_skip (tbl : @table A) i : table_ok tbl ->
  forall n, forallb (misses i) (firstn n (map fst tbl)) = true -> skipn n tbl <> [] ->
  alt (map snd tbl) i = alt (map snd (skipn n tbl)) i.
Proof.
  intros Hok. induction Hok as [|e0 t He0 Ht IH]; intros n Hm Hne.
  - destruct n; reflexivity.
  - destruct n as [|n]; [reflexivity|].
    cbn [map firstn forallb skipn] in *. apply andb_true_iff in Hm as [Hm0 Hm].
    rewrite alt_cons_ne.
    + specialize (He0 i). unfold misses in Hm0. destruct (lit_ (chars (fst e0)) i); [discriminate|].
      destruct He0 as [c Hc]. rewrite Hc. exact (IH n Hm Hne).
    + destruct t; [destruct n; contradiction|discriminate].
Qed.

Lemma all_miss_back (tbl : @table A) i : table_ok tbl ->
  forallb (misses i) (map fst tbl) = true -> exists c r, alt (map snd tbl) i = (Back c, r).
Proof.
  intros Hok. induction Hok as [|e0 t He0 Ht IH]; intros Hm.
  - eexists _, _. reflexivity.
  - cbn [map forallb] in *. apply andb_true_iff in Hm as [Hm0 Hm]. rewrite alt_cons.
    specialize (He0 i). unfold misses in Hm0. destruct (lit_ (chars (fst e0)) i); [discriminate|].
    destruct He0 as [c Hc]. rewrite Hc. destruct t as [|e1 t]; [eexists _, _; reflexivity|].
    exact (IH Hm).
Qed.
End TableSkip.

Lemma prims_global_at K r : In K (map fst global_table) ->
  no_operator (chars K ++ r) = true /\ prims_alt (chars K ++ r) = pmap wg parse_global (chars K ++ r).
Proof.
  intros HK.
  assert (Hx : forall i, no_operator i = true ->
                 forallb (misses i) (firstn 51 (map fst all_table)) = true ->
                 no_operator i = true /\ prims_alt i = pmap wg parse_global i).
  { intros i Hop Hm. split; [exact Hop|]. rewrite prims_alt_flat.
    rewrite (alt_skip all_table i all_table_ok 51 Hm) by discriminate.
    change (skipn 51 all_table) with (lift_table "global_option" wg global_table).
    rewrite lift_table_snd, <- alt_lift by discriminate. reflexivity. }
  cbn [map fst global_table] in HK.
  destruct HK as [HK|[HK|[HK|[HK|[]]]]]; subst K; apply Hx; reflexivity.
Qed.

Lemma prims_global i : not_back (parse_global i) ->
  no_operator i = true /\ prims_alt i = pmap wg parse_global i.
Proof.
  intros Hnb. destruct (forallb (misses i) (map fst global_table)) eqn:E.
  - exfalso. destruct (all_miss_back global_table i global_table_ok E) as (c & r & Hc).
    rewrite parse_global_table in Hnb. unfold context in Hnb. rewrite Hc in Hnb. exact Hnb.
  - assert (exists K r, In K (map fst global_table) /\ lit_ (chars K) i = Some r) as (K & r & HK & Hl).
    { destruct (forallb_forall (misses i) (map fst global_table)) as [_ Hf].
      destruct (existsb (fun k => negb (misses i k)) (map fst global_table)) eqn:Ex.
      - apply existsb_exists in Ex as (K & HK & Hn). unfold misses in Hn.
        destruct (lit_ (chars K) i) as [r|] eqn:El; [|discriminate]. exists K, r. split; assumption.
      - rewrite Hf in E; [discriminate|]. intros K HK.
        destruct (misses i K) eqn:Em; [reflexivity|].
        assert (existsb (fun k => negb (misses i k)) (map fst global_table) = true) as Hy.
        { apply existsb_exists. exists K. split; [exact HK|]. rewrite Em. reflexivity. }
        rewrite Hy in Ex. discriminate. }
    apply lit_some in Hl. subst i. exact (prims_global_at K r HK).
Qed.

Definition lo_step : sparser gopt :=
  terminated (terminated parse_global word_end) (pair_ multispace0 leading_and).
Definition and_alt : sparser unit := alt [literal "-and"; literal "-a"].

Lemma leading_options_eq s : leading_options s = repeat0 slen lo_step (skip_blanks s).
Proof. unfold leading_options, preceded, bind. rewrite multispace0_eq. reflexivity. Qed.

Lemma and_alt_cases r :
  (exists x y, and_alt r = (Ok tt, x) /\ r = 45 :: 97 :: y) \/ and_alt r = (Back [], r).
Proof.
  unfold and_alt. rewrite alt_cons2, alt_one. unfold literal.
  destruct (lit_ (chars "-and") r) as [x|] eqn:E1.
  - left. apply lit_some in E1. subst r. eexists _, _. split; reflexivity.
  - destruct (lit_ (chars "-a") r) as [x|] eqn:E2.
    + left. apply lit_some in E2. subst r. eexists _, _. split; reflexivity.
    + right. reflexivity.
Qed.

Lemma and_token y x :
  and_alt (45 :: 97 :: y) = (Ok tt, x) -> head_in is_space x = true ->
  parse_token (45 :: 97 :: y) = (Ok KAnd, skip_blanks x).
Proof.
  intros Ha Hx. unfold parse_token, context.
  rewrite alt_cons2, (value_lit1_back KLParen "(" 40 (45 :: 97 :: y) eq_refl eq_refl).
  rewrite alt_cons2, (value_lit1_back KRParen ")" 41 (45 :: 97 :: y) eq_refl eq_refl).
  rewrite alt_cons2, (value_lit1_back KNot "!" 33 (45 :: 97 :: y) eq_refl eq_refl).
  rewrite alt_cons2, (value_lit1_back KComma "," 44 (45 :: 97 :: y) eq_refl eq_refl).
  rewrite alt_cons2.
  change (value KOr (terminated (alt [literal "-or"; literal "-o"]) blank_or_eof) (45 :: 97 :: y))
    with (@Back token [], 45 :: 97 :: y).
  rewrite alt_cons2. fold and_alt. unfold value at 1, pmap at 1, terminated at 1, bind at 1.
  rewrite Ha. unfold pmap at 1. rewrite blank_or_eof_eq.
  destruct x as [|c x]; [discriminate|]. cbn [head_in] in Hx. cbn [at_blank_or_end]. rewrite Hx.
  reflexivity.
Qed.

Lemma leading_and_eq r :
  leading_and r =
    match and_alt r with
    | (Ok _, x) =>
        if head_in is_space x
        then match skip_blanks x with [] => (Ok None, r) | _ :: _ => (Ok (Some tt), skip_blanks x) end
        else (Ok None, r)
    | _ => (Ok None, r)
    end.
Proof.
  unfold leading_and, opt, terminated, bind, pmap. fold and_alt.
  destruct (and_alt_cases r) as [(x & y & Ha & Hr)|Hb].
  - rewrite Ha. unfold pair_, bind, pmap. rewrite multispace1_eq.
    destruct (head_in is_space x); [|reflexivity].
    unfold peek, any. destruct (skip_blanks x); reflexivity.
  - rewrite Hb. reflexivity.
Qed.

Lemma lo_step_cases i :
  match lo_step i with
  | (Ok g, r) => lexes_to i r
  | (Cut c, r') => token_step i = (Cut (c ++ [Label "syntax"]), r')
  | _ => True
  end.
Proof.
  unfold lo_step, terminated, bind.
  destruct (parse_global i) as [[g|c|c|s] r1] eqn:Eg; unfold pmap; try exact I.
  - destruct (prims_global i) as [Hop Hpa]; [rewrite Eg; exact I|].
    rewrite word_end_eq. destruct (at_word_end r1) eqn:Ew; [|exact I].
    unfold pair_, bind, pmap. rewrite multispace0_eq.
    assert (Hs1 : token_step i = (Ok (wg g), skip_blanks r1)).
    { rewrite token_step_eq, (parse_token_prims i Hop), Hpa. unfold pmap. rewrite Eg, Ew. reflexivity. }
    rewrite leading_and_eq.
    destruct (and_alt_cases (skip_blanks r1)) as [(x & y & Ha & Hr)|Hb].
    + rewrite Ha. destruct (head_in is_space x) eqn:Ex.
      * destruct (skip_blanks x) as [|ch r3] eqn:E3.
        -- exact (lexes_step _ _ _ _ Hs1 (lexes_here _)).
        -- apply (lexes_step _ _ _ _ Hs1). rewrite Hr in *.
           assert (Hs2 : token_step (45 :: 97 :: y) = (Ok KAnd, ch :: r3)).
           { rewrite token_step_eq, (and_token y x Ha Ex). rewrite skip_blanks_idem, E3. reflexivity. }
           exact (lexes_step _ _ _ _ Hs2 (lexes_here _)).
      * exact (lexes_step _ _ _ _ Hs1 (lexes_here _)).
    + rewrite Hb. exact (lexes_step _ _ _ _ Hs1 (lexes_here _)).
  - destruct (prims_global i) as [Hop Hpa]; [rewrite Eg; exact I|].
    rewrite token_step_eq, (parse_token_prims i Hop), Hpa. unfold pmap. rewrite Eg. reflexivity.
Qed.

Lemma wf_lo_step : wf true lo_step.
Proof. unfold lo_step. pose proof (wf_parse_global true). pose proof wf_leading_and. wf_solve. Qed.
Lemma lo_step_consumes i g r : lo_step i = (Ok g, r) -> (slen r < slen i)%nat.
Proof.
  intros H. pose proof (wf_lo_step i) as Hw. rewrite H in Hw. destruct Hw as [_ Hw]. exact (Hw eq_refl).
Qed.

Lemma lo_chain : forall n i, (slen i < n)%nat ->
  match repeat0 slen lo_step i with
  | (Ok gs, r0) => lexes_to i r0
  | (Cut c, r') => exists r, lexes_to i r /\ token_step r = (Cut (c ++ [Label "syntax"]), r')
  | (Back _, _) => False
  | (Panic _, _) => True
  end.
Proof.
  induction n as [|n IH]; intros i Hlt; [lia|].
  rewrite (repeat0_unfold slen lo_step lo_step_consumes).
  pose proof (lo_step_cases i) as Hc.
  destruct (lo_step i) as [[g|c|c|s] r] eqn:E.
  - pose proof (lo_step_consumes i g r E) as Hlt2.
    assert (Hr : (slen r < n)%nat) by lia. specialize (IH r Hr).
    destruct (repeat0 slen lo_step r) as [[l|c|c|s] r'].
    + exact (lexes_to_trans _ _ _ Hc IH).
    + exact IH.
    + destruct IH as (r1 & H1 & H2). exists r1. split; [exact (lexes_to_trans _ _ _ Hc H1)|exact H2].
    + exact I.
  - apply lexes_here.
  - exists i. split; [apply lexes_here|exact Hc].
  - exact I.
Qed.

(** the outermost label never changes the message *)
Lemma message_syntax c rest : message (c ++ [Label "syntax"]) rest = message c rest.
Proof. unfold message, syntax_context. rewrite rev_app_distr. reflexivity. Qed.

Lemma lexes_from_nil r : lexes_to [] r -> r = [].
Proof.
  intros H. apply lexes_to_stuck in H; [exact H|]. rewrite token_step_nil. exact I.
Qed.

Theorem first_error s r b c r' :
  lexes_to (skip_blanks s) r -> r <> [] -> token_step r = (err_as b c, r') ->
  parse s = ParseErr (message c r').
Proof.
  intros Hch Hne He.
  assert (Herr : is_err (token_step r)) by (rewrite He; destruct b; exact I).
  unfold parse. pose proof (leading_options_cases s) as Hl. rewrite leading_options_eq in *.
  pose proof (lo_chain (S (slen (skip_blanks s))) (skip_blanks s) (Nat.lt_succ_diag_r _)) as Hlo.
  destruct (repeat0 slen lo_step (skip_blanks s)) as [[gs|c0|c0|site] r0].
  - destruct (update_all_some gs default_options Hl) as [o Eo]. rewrite Eo. cbv zeta.
    pose proof (lexes_to_linear _ _ _ Hlo Hch Herr) as H0.
    pose proof (lexes_to_skip _ _ Hlo (skip_blanks_idem s)) as Hsk.
    destruct r0 as [|ch r0]; [apply lexes_from_nil in H0; contradiction|].
    rewrite <- Hsk in H0. rewrite (lex_chain _ _ _ _ _ H0 Hne He). destruct b; reflexivity.
  - destruct Hlo.
  - destruct Hlo as (r1 & H1 & H2).
    assert (E1 : is_err (token_step r1)) by (rewrite H2; exact I).
    pose proof (first_error_unique _ _ _ Hch H1 Herr E1) as Hr. subst r1.
    rewrite H2 in He. destruct b; cbn [err_as] in He; inversion He; subst.
    cbn [err_of]. rewrite message_syntax. reflexivity.
  - destruct Hl.
Qed.
