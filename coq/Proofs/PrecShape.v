(** The climber only assembles the leaves it is given with not / and / or / list nodes: if every
    primary token carries a test or a non-default action, the result is a [parser_tree]. *)
From Coq Require Import List.
From FP Require Import Model.Ast Model.Lex Model.Prec Spec.Grammar Spec.TreeShape Proofs.PrecIff.
Import ListNotations.

Definition leaf_plain (l : leaf) : Prop :=
  match l with
  | LTest _ => True
  | LAction a => a <> ADefaultPrint
  | LGlobal _ | LPositional => False
  end.
Definition tok_plain (t : token) : Prop :=
  match t with KPrim l => leaf_plain l | _ => True end.

Lemma leaf_plain_tree l : leaf_plain l -> parser_tree (leaf_expr l).
Proof.
  destruct l as [t|a|g|]; cbn [leaf_plain leaf_expr]; intros H.
  - apply PT_test.
  - apply PT_action. exact H.
  - destruct H.
  - destruct H.
Qed.

Scheme GAtom_min := Minimality for GAtom Sort Prop
  with GAnd_min := Minimality for GAnd Sort Prop
  with GOr_min := Minimality for GOr Sort Prop
  with GList_min := Minimality for GList Sort Prop.

Lemma grammar_tree ts e : GList ts e -> Forall tok_plain ts -> parser_tree e.
Proof.
  pose (Q := fun (ts : list token) (e : expr) => Forall tok_plain ts -> parser_tree e).
  revert ts e. apply (GList_min Q Q Q Q); unfold Q; clear Q.
  - intros p H. inversion H as [|x l Hp Hl]; subst. apply leaf_plain_tree. exact Hp.
  - intros ts e _ IH H. inversion H as [|x l Hp Hl]; subst. apply PT_not. apply IH. exact Hl.
  - intros ts e _ IH H. inversion H as [|x l Hp Hl]; subst.
    apply Forall_app in Hl. destruct Hl as [Hl _]. apply IH. exact Hl.
  - intros ts e _ IH H. apply IH. exact H.
  - intros l r a b _ IHa _ IHb H. apply Forall_app in H. destruct H as [Hl Hr].
    inversion Hr as [|x l' Hp Hr']; subst. apply PT_and; [apply IHa; exact Hl|apply IHb; exact Hr'].
  - intros l r a b _ IHa _ IHb H. apply Forall_app in H. destruct H as [Hl Hr].
    apply PT_and; [apply IHa; exact Hl|apply IHb; exact Hr].
  - intros ts e _ IH H. apply IH. exact H.
  - intros l r a b _ IHa _ IHb H. apply Forall_app in H. destruct H as [Hl Hr].
    inversion Hr as [|x l' Hp Hr']; subst. apply PT_or; [apply IHa; exact Hl|apply IHb; exact Hr'].
  - intros ts e _ IH H. apply IH. exact H.
  - intros l r a b _ IHa _ IHb H. apply Forall_app in H. destruct H as [Hl Hr].
    inversion Hr as [|x l' Hp Hr']; subst. apply PT_list; [apply IHa; exact Hl|apply IHb; exact Hr'].
Qed.

Lemma prec_parser_tree ts e : prec_parser ts = Some e -> Forall tok_plain ts -> parser_tree e.
Proof. intros H. apply grammar_tree. apply parser_sound. exact H. Qed.
