(** Two statements one might expect of the model that are FALSE, with their counterexamples:
    (a) "every accepted string argument is a word of [WordArg]" — a quote character that is
        never closed makes the code read an unquoted word starting with that quote;
    (b) "every accepted input is the rendering of a [wf_sentence]" — the lexer lets a
        one-character operator follow a closing quote directly, [Surface.tight_ok] does not. *)
From Coq Require Import List String NArith Bool Arith Lia ZifyBool ZifyN.
From FP Require Import Model.Chars Model.Winnow Model.Ast Model.Args Model.Lex Model.Parse.
From FP Require Import Spec.Decimal Spec.Vocabulary Spec.Surface Spec.Accepted.
From FP Require Import Proofs.LexArgs Proofs.LexPrimary Proofs.WordLevel.
Import ListNotations.
Local Open Scope N_scope.

(** * The words of -name *)
Lemma name_words ws v gaps : Primary ws (LTest (TName v)) -> gaps_for ws gaps ->
  exists g w, gap g /\ WordArg w v /\ weave ws gaps = chars "-name" ++ g ++ w.
Proof.
  intros Hp Hg. inversion Hp as [k l Hin|k f w v0 Hin Hw|k f w c Hin Hw|w c Hw|k u f w c Hin Hw|w c Hw|w ts Hw
                |w v0 k b Hw Hpm|w1 v1 w2 v2 Hw1 Hw2|w v0 fmt Hw Hs|w1 v1 w2 v2 fmt Hw1 Hw2 Hs|w n Hw]; subst.
  - unfold nullary_table in Hin. in_cases Hin.
  - destruct (gaps2 _ _ _ Hg) as (g & -> & Hgap). exists g, w.
    unfold string_table in Hin. cbn [In] in Hin.
    repeat (destruct Hin as [Hin|Hin];
            [inversion Hin; subst; clear Hin;
             match goal with H : _ = LTest (TName v) |- _ => cbv beta in H; inversion H; subst; clear H end|]);
      try (destruct Hin).
    split; [exact Hgap|]. split; [exact Hw|]. cbn [weave weave_args]. rewrite app_nil_r. reflexivity.
  - unfold count32_table in Hin. cbn [In] in Hin.
    repeat (destruct Hin as [Hin|Hin];
            [inversion Hin; subst; clear Hin;
             match goal with H : _ = LTest (TName v) |- _ => cbv beta in H; discriminate H end|]);
      destruct Hin.
  - unfold time_table in Hin. cbn [In] in Hin.
    repeat (destruct Hin as [Hin|Hin];
            [inversion Hin; subst; clear Hin;
             match goal with H : _ = LTest (TName v) |- _ => cbv beta in H; discriminate H end|]);
      destruct Hin.
Qed.

Definition stray_text : str := chars "'abc".

Lemma stray_text_no_word w : ~ (WordArg w stray_text /\ exists r, stray_text = w ++ r).
Proof.
  intros [Hw (r & E)]. unfold stray_text in *.
  inversion Hw as [v Hne Hb Hq Ew|v Hn Ew|v Hn Ew]; subst.
  - cbn in Hq. apply Hq. right. reflexivity.
  - apply Hn. left. reflexivity.
  - cbn in E. discriminate E.
Qed.

(** (a) at the level of the string argument ... *)
Theorem string_sound_refuted :
  parse_string stray_text = (Ok stray_text, [])
  /\ ~ exists w, WordArg w stray_text /\ stray_text = w ++ [].
Proof.
  split; [vm_compute; reflexivity|]. intros (w & Hw & E).
  apply (stray_text_no_word w). split; [exact Hw|]. exists []. exact E.
Qed.

(** ... and of the token *)
Theorem token_sound_refuted :
  parse_token (chars "-name 'abc") = (Ok (KPrim (LTest (TName stray_text))), [])
  /\ ~ exists ws gaps, Primary ws (LTest (TName stray_text)) /\ gaps_for ws gaps
                       /\ chars "-name 'abc" = weave ws gaps ++ [].
Proof.
  split; [vm_compute; reflexivity|]. intros (ws & gaps & Hp & Hg & E).
  destruct (name_words ws stray_text gaps Hp Hg) as (g & w & Hgap & Hw & Ew).
  rewrite Ew, app_nil_r in E. change (chars "-name 'abc") with (chars "-name" ++ 32 :: stray_text) in E.
  apply app_inv_head in E.
  destruct (gap_cases g Hgap) as (c & g' & -> & _). cbn [app] in E. inversion E as [[Ec E']].
  destruct g' as [|c' g'].
  - cbn [app] in E'. apply (stray_text_no_word w). split; [exact Hw|]. exists []. rewrite app_nil_r. exact E'.
  - destruct Hgap as [_ Hb]. inversion Hb as [|x l _ Hb']; subst. inversion Hb' as [|x l Hc' _]; subst.
    unfold stray_text in E'. cbn [app chars] in E'. inversion E'; subst.
    match goal with H : Blank _ |- _ => unfold Blank in H; cbn in H; lia end.
Qed.

(** * (b) a one-character operator directly after a closing quote *)
Definition tight_text : str := chars "-name 'a'!-true".

Definition nb (s : str) : nat := List.length (filter is_space s).
Lemma nb_app a b : nb (a ++ b) = (nb a + nb b)%nat.
Proof. unfold nb. rewrite filter_app, app_length. reflexivity. Qed.
Lemma nb_blanks b : blanks b -> b <> [] -> (1 <= nb b)%nat.
Proof.
  intros Hb Hne. destruct b as [|c b]; [congruence|]. inversion Hb as [|x l Hc _]; subst.
  unfold nb. cbn [filter]. rewrite (Blank_space c Hc). cbn [List.length]. lia.
Qed.

Theorem wf_sentence_refuted :
  parse tight_text
  = ParseOk default_options (EAnd (ETest (TName (chars "a"))) (ENot (ETest TTrue)))
  /\ forall st, wf_sentence st -> render st <> tight_text.
Proof.
  split; [vm_compute; reflexivity|]. intros st Hwf E.
  assert (body st <> []) as Hne.
  { intros Eb. destruct Hwf as (_ & _ & Htr). unfold render in E. rewrite Eb in E. cbn [render_body] in E.
    rewrite E in Htr. inversion Htr as [|x l Hc _]; subst. unfold Blank in Hc. cbn in Hc. lia. }
  pose proof (lex_render st Hwf Hne) as Hlex. rewrite E in Hlex.
  assert (tokens_of st = [KPrim (LTest (TName (chars "a"))); KNot; KPrim (LTest TTrue)]) as Ht.
  { assert (lex tight_text = (Ok [KPrim (LTest (TName (chars "a"))); KNot; KPrim (LTest TTrue)], [])) as El
      by (vm_compute; reflexivity).
    rewrite El in Hlex. inversion Hlex. reflexivity. }
  destruct st as [b tr]. unfold tokens_of, render in *. cbn [body trail] in *.
  destruct b as [|[sp0 it0] [|[sp1 it1] b]]; try discriminate Ht.
  cbn [map snd] in Ht. inversion Ht as [[H0 H1 H2]]. clear Ht H2.
  destruct it0 as [ws gaps l|o0]; [|destruct o0; discriminate H0]. cbn [item_token] in H0.
  inversion H0; subst l. clear H0.
  destruct it1 as [ws1 gaps1 l1|o1]; [discriminate H1|]. destruct o1; try discriminate H1. clear H1.
  destruct Hwf as (Hok & Hl & _). cbn [body layout_ok] in Hok, Hl.
  inversion Hok as [|x l Hit _]; subst. cbn [snd item_ok] in Hit. destruct Hit as [Hp Hg]. destruct Hl as (_ & _ & Hsp1 & Ht1 & _).
  assert (sp1 <> []) as Hsp1ne.
  { intros Esp. specialize (Ht1 Esp). cbn [tight_ok self_delimiting] in Ht1.
    destruct Ht1 as [Hx|[Hx _]]; discriminate Hx. }
  destruct (name_words ws _ gaps Hp Hg) as (g & w & Hgap & _ & Ew).
  cbn [render_body item_text] in E. rewrite Ew in E.
  apply (f_equal nb) in E. rewrite !nb_app in E.
  pose proof (nb_blanks g (proj2 Hgap) (proj1 Hgap)) as N1.
  pose proof (nb_blanks sp1 Hsp1 Hsp1ne) as N2.
  change (nb tight_text) with 1%nat in E. lia.
Qed.

(** * Instances of the notions of Spec/Accepted.v *)
Lemma stray_quote_example : stray_quote (chars "-name 'abc").
Proof.
  exists (chars "-name"), (chars " "), 39, (chars "abc"). split; [reflexivity|]. split.
  - split; [discriminate|]. constructor; [left; reflexivity|constructor].
  - split; [right; reflexivity|]. cbn. intros [H|[H|[H|[]]]]; discriminate H.
Qed.

Definition tight_sentence : sentence :=
  {| body := [ ([], IPrim [chars "-name"; chars "'a'"] [chars " "] (LTest (TName (chars "a"))));
               ([], IOp ONot);
               ([], IPrim [chars "-true"] [] (LTest TTrue)) ];
     trail := [] |}.

Lemma tight_sentence_readable :
  readable_sentence tight_sentence /\ render tight_sentence = tight_text /\ ~ wf_sentence tight_sentence.
Proof.
  split; [|split; [reflexivity|]].
  - split; [|split].
    + cbn [body tight_sentence]. constructor; [|constructor; [exact I|constructor; [|constructor]]].
      * cbn [snd item_ok]. split.
        -- apply (P_string "-name" (fun s => LTest (TName s)) (chars "'a'") (chars "a")).
           ++ unfold string_table. cbn [In]. repeat (first [left; reflexivity | right]).
           ++ apply (W_single (chars "a")). cbn. intros [H|[]]. discriminate H.
        -- split; [reflexivity|]. constructor; [|constructor]. split; [discriminate|].
           constructor; [left; reflexivity|constructor].
      * cbn [snd item_ok]. split.
        -- apply (P_nullary "-true" (LTest TTrue)). unfold nullary_table. cbn [In].
           repeat (first [left; reflexivity | right]).
        -- split; [reflexivity|constructor].
    + cbn [body tight_sentence layout_lex abuts_ok]. split; [constructor|]. split; [intros _; exact I|].
      split; [constructor|]. split; [intros _; exists ONot; split; reflexivity|].
      split; [constructor|]. split; [intros _; reflexivity|exact I].
    + constructor.
  - intros Hwf. exact (proj2 wf_sentence_refuted tight_sentence Hwf eq_refl).
Qed.
