(** C18, the part that holds for ALL inputs: every error message has one of the two formats of
    Spec/Messages.v, and the word it quotes occurs in the input. *)
From Coq Require Import List String NArith Bool Arith Lia.
From FP Require Import Model.Chars Model.Winnow Model.Ast Model.Args Model.Lex Model.Prec Model.Parse.
From FP Require Import Spec.Messages Proofs.WinnowFacts Proofs.WinnowTotal Proofs.Suffix Proofs.Totality.
Import ListNotations.
Local Open Scope N_scope.

(** * the shape of [message] *)
Definition kind_of_sc (sc : sctx) : option (kind * string) :=
  match sc_test sc, sc_action sc, sc_global sc with
  | Some t, _, _ => Some (KTest, t)
  | None, Some a, _ => Some (KAction, a)
  | None, None, Some g => Some (KOption, g)
  | None, None, None => None
  end.

Lemma message_eq cs rest :
  message cs rest =
    match kind_of_sc (syntax_context cs) with
    | Some (k, name) =>
        failed_msg (next_word rest) k name (option_map explain (sc_descr (syntax_context cs)))
    | None => unexpected_msg (next_word rest)
    end.
Proof.
  unfold message, kind_of_sc. cbv zeta.
  destruct (syntax_context cs) as [t a g d]. cbn [sc_test sc_action sc_global sc_descr].
  destruct t as [t|]; [destruct d; reflexivity|].
  destruct a as [a|]; [destruct d; reflexivity|].
  destruct g as [g|]; [destruct d; reflexivity|].
  reflexivity.
Qed.

Lemma message_quoted cs rest : quoted_in (message cs rest) (next_word rest).
Proof.
  rewrite message_eq. destruct (kind_of_sc (syntax_context cs)) as [[k name]|].
  - right. eexists _, _, _. reflexivity.
  - left. reflexivity.
Qed.

(** * the quoted word is a piece of what is left *)
Lemma delimited_piece q c i w r :
  delimited (literal q) (take_until0 c) (literal q) i = (Ok w, r) ->
  i = chars q ++ w ++ chars q ++ r.
Proof.
  unfold delimited, preceded, terminated, bind, pmap, literal, take_until0. intros H.
  destruct (lit_ (chars q) i) as [r1|] eqn:E1; [|discriminate].
  destruct (until_ c r1) as [[a b]|] eqn:E2; [|discriminate].
  destruct (lit_ (chars q) b) as [r3|] eqn:E3; [|discriminate].
  inversion H; subst. apply lit_some in E1, E3. apply until_eq in E2. subst. reflexivity.
Qed.

Lemma quote_delimiter_substring i w r : quote_delimiter i = (Ok w, r) -> substring w i.
Proof.
  unfold quote_delimiter. intros H.
  set (p1 := delimited (literal """") (take_until0 34) (literal """")) in *.
  set (p2 := delimited (literal "'") (take_until0 39) (literal "'")) in *.
  rewrite alt_cons2 in H. destruct (p1 i) as [[a|x|x|s] r1] eqn:E1.
  - inversion H; subst. apply delimited_piece in E1. eexists _, _. exact E1.
  - rewrite alt_cons2 in H. destruct (p2 i) as [[a|y|y|s] r2] eqn:E2.
    + inversion H; subst. apply delimited_piece in E2. eexists _, _. exact E2.
    + rewrite alt_one in H. unfold take_while in H.
      destruct (span bare_char i) as [a b] eqn:E3. apply span_eq in E3.
      destruct (Nat.leb 1 (List.length a)); [|discriminate]. inversion H; subst.
      exists [], r. reflexivity.
    + discriminate.
    + discriminate.
  - discriminate.
  - discriminate.
Qed.

Lemma next_word_substring rest : substring (next_word rest) rest.
Proof.
  unfold next_word, parse_string, context.
  destruct (quote_delimiter rest) as [[w|x|x|s] r] eqn:E; try (exists [], rest; reflexivity).
  exact (quote_delimiter_substring rest w r E).
Qed.

Lemma substring_suffix w r s : substring w r -> suffix_of r s -> substring w s.
Proof.
  intros (a & b & Hr) (x & Hs). subst. exists (x ++ a), b. rewrite <- app_assoc. reflexivity.
Qed.

(** * where [parse] takes its error from *)
Lemma suffix_nil (s : str) : suffix_of [] s.
Proof. exists s. rewrite app_nil_r. reflexivity. Qed.

Lemma parse_err_origin s m :
  parse s = ParseErr m -> exists cs rest, m = message cs rest /\ suffix_of rest s.
Proof.
  unfold parse. pose proof (sfx_leading_options s) as Hl.
  destruct (leading_options s) as [[gs|c|c|site] rest]; cbn [snd err_of] in *.
  - destruct (update_all default_options gs) as [o|]; [|discriminate]. cbv zeta.
    assert (Hx : suffix_of (snd (match rest with
                                 | [] => (Ok [KPrim (LTest TTrue)], rest)
                                 | _ :: _ => lex rest end)) rest).
    { destruct rest as [|ch rest']; [apply suffix_refl|apply sfx_lex]. }
    destruct (match rest with [] => (Ok [KPrim (LTest TTrue)], rest) | _ :: _ => lex rest end)
      as [[ts|c|c|site] rest']; cbn [snd err_of] in *.
    + destruct (replace_globals o ts) as [[o' ts']|]; [|discriminate].
      destruct (prec_parser ts'); [discriminate|]. unfold grammar_error. intros H. inversion H.
      eexists _, _. split; [reflexivity|apply suffix_nil].
    + intros H. inversion H. eexists _, _. split; [reflexivity|exact (suffix_trans _ _ _ Hx Hl)].
    + intros H. inversion H. eexists _, _. split; [reflexivity|exact (suffix_trans _ _ _ Hx Hl)].
    + discriminate.
  - intros H. inversion H. eexists _, _. split; [reflexivity|exact Hl].
  - intros H. inversion H. eexists _, _. split; [reflexivity|exact Hl].
  - discriminate.
Qed.

Theorem error_sane s m :
  parse s = ParseErr m -> m <> [] /\ exists w, quoted_in m w /\ substring w s.
Proof.
  intros H. split; [exact (message_nonempty s m H)|].
  destruct (parse_err_origin s m H) as (cs & rest & Hm & Hs). subst m.
  exists (next_word rest). split; [apply message_quoted|].
  exact (substring_suffix _ _ _ (next_word_substring rest) Hs).
Qed.
