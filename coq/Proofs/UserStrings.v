(** User text stays data: where user strings sit in the erased program, the device path as the
    only thing that depends on the device path, and literal format text. *)
From Coq Require Import List String NArith Bool Lia ZifyBool ZifyN.
From FP Require Import Model.Chars Model.Ast Model.Sexp Model.Compile
  Spec.GuileReader Spec.SexpContext Spec.GuileFormat Proofs.ReaderRoundTrip.
Import ListNotations.
Local Open Scope N_scope.

(** * A user string is one string node *)

Lemma erase_lstr : forall u, erase (lstr u) = SStr u.
Proof. intros u. unfold lstr. cbn [erase flat_map piece_value]. rewrite app_nil_r. reflexivity. Qed.

Lemma string_roundtrip : forall u,
  erase (lstr u) = SStr u
  /\ read_all (print (lstr u)) = Some [SStr u]
  /\ forall cur stk rest,
       run MTop cur stk (print (lstr u) ++ rest) = run MTop (SStr u :: cur) stk rest.
Proof.
  intros u. split; [apply erase_lstr | split; [apply read_lstr | apply read_lstr_in_context]].
Qed.

(** * The device path *)

(** the second form with the device path taken out *)
Definition device_ctx (c : compiled) : ctx :=
  match erase (snd (render c [])) with
  | SList [letstar; defs; SList [wind; init; SList [lam; formals; SList (scan :: _ :: after)]; fini]] =>
      CList [letstar; defs]
        (CList [wind; init] (CList [lam; formals] (CList [scan] CHole after) []) [fini]) []
  | _ => CHole
  end.

Lemma device_path_plug : forall c mdt,
  fst (render c mdt) = fst (render c [])
  /\ erase (snd (render c mdt)) = plug (device_ctx c) (SStr mdt).
Proof.
  intros c mdt. split; [reflexivity|].
  unfold device_ctx, render, thunk, lstr.
  cbn [snd erase erase_items plug app flat_map piece_value].
  rewrite app_nil_r. reflexivity.
Qed.

Lemma device_path_only : forall c, exists k : ctx, forall mdt,
  fst (render c mdt) = fst (render c [])
  /\ erase (snd (render c mdt)) = plug k (SStr mdt).
Proof. intros c. exists (device_ctx c). apply device_path_plug. Qed.

(** * Where the other user strings sit *)

Definition erased_test (t : test) (s : cstate) : option sexp :=
  match compile_test t s with COk (x, _) => Some (erase x) | _ => None end.
Definition sym (s : string) : sexp := SAtom (chars s).

Ltac shape :=
  unfold lst; cbn [erase erase_items items_sep]; rewrite ?erase_lstr; reflexivity.

Lemma user_string_nodes :
  (* name and path patterns: the matcher definition *)
  (forall idx pat ci,
     erase (matcher_binding idx pat ci)
     = SList [erase (ident "match" (idx + 1));
              SList [sym "lambda"; SList [erase (ident "str" idx)];
                     SList [sym (matcher_name pat ci); SStr pat; erase (ident "str" idx)]]])
  (* pool names *)
  /\ (forall p s, erased_test (TPool p) s
                  = Some (SList [sym "member"; SStr p; SList [sym "lov-pools"]]))
  (* attribute names and values *)
  /\ (forall f s, erased_test (TXattr f) s = Some (SList [sym "xattr?"; SStr f]))
  /\ (forall f v s, erased_test (TXattrMatch f v) s
                    = Some (if xattr_offending f || xattr_offending v
                            then SList [sym "xattr-match?"; SStr f; SStr v]
                            else SList [sym "equal?"; SList [sym "xattr-ref-string"; SStr f]; SStr v]))
  /\ (forall a, option_map erase (snippet (FXAttr a))
                = Some (SList [sym "or"; SList [sym "xattr-ref-string"; SStr a]; SStr []]))
  (* output file names *)
  /\ (forall f m, assoc str_eqb f (l_files m) = None ->
        map erase (l_vars (snd (l_init_file_port f m)))
        = map erase (l_vars m)
          ++ [SList [erase (ident "port" (l_idx m)); SList [sym "open-file"; SStr f; SStr [119]]];
              SList [erase (ident "mutex" (l_idx m + 1)); SList [sym "make-mutex"]]]).
Proof.
  split; [|split; [|split; [|split; [|split]]]].
  - intros idx pat ci. unfold matcher_binding, binding. shape.
  - intros p s. unfold erased_test. cbn [compile_test]. shape.
  - intros f s. unfold erased_test. cbn [compile_test]. shape.
  - intros f v s. unfold erased_test. cbn [compile_test].
    destruct (xattr_offending f || xattr_offending v); shape.
  - intros a. cbn [snippet option_map]. shape.
  - intros f m H. unfold l_init_file_port. rewrite H. cbn [snd l_vars]. rewrite map_app.
    cbn [map]. unfold binding. shape.
Qed.

(** * Literal format text *)

Lemma double_tilde_cons : forall c t,
  double_tilde (c :: t) = (if c =? 126 then [126; 126] else [c]) ++ double_tilde t.
Proof. reflexivity. Qed.

Lemma format_literal_double_tilde : forall t, format_literal_value (double_tilde t) = t.
Proof.
  induction t as [|c t IH]; [reflexivity|].
  rewrite double_tilde_cons. destruct (c =? 126) eqn:E.
  - apply N.eqb_eq in E. subst c. cbn [app format_literal_value].
    change (126 =? 126) with true. cbv iota. rewrite IH. reflexivity.
  - cbn [app format_literal_value]. rewrite E. rewrite IH. reflexivity.
Qed.

Lemma format_tokens_double_tilde : forall t,
  format_tokens (double_tilde t) = Some (map FChar t).
Proof.
  induction t as [|c t IH]; [reflexivity|].
  rewrite double_tilde_cons. destruct (c =? 126) eqn:E.
  - apply N.eqb_eq in E. subst c. cbn [app format_tokens].
    change (126 =? 126) with true. cbv iota. rewrite IH. reflexivity.
  - cbn [app format_tokens]. rewrite E. rewrite IH. reflexivity.
Qed.

(** the pieces of a template are the pieces of its elements, in order *)
Lemma template_pieces : forall fmt ps,
  template fmt = COk ps -> Forall2 (fun el p => elem_piece el = COk p) fmt ps.
Proof.
  induction fmt as [|el r IH]; intros ps E; cbn [template] in E.
  - inversion E; subst. constructor.
  - destruct (elem_piece el) as [p|k c|m] eqn:Ep; try discriminate E.
    destruct (template r) as [ps'|k c|m] eqn:Er; try discriminate E.
    inversion E; subst. constructor; [exact Ep | apply IH; reflexivity].
Qed.

Lemma template_literal : forall t,
  elem_piece (ELit t) = COk (PLit (double_tilde t))
  /\ piece_value (PLit (double_tilde t)) = double_tilde t
  /\ format_literal_value (double_tilde t) = t
  /\ format_tokens (double_tilde t) = Some (map FChar t).
Proof.
  intros t. split; [reflexivity | split; [reflexivity | split]];
    [apply format_literal_double_tilde | apply format_tokens_double_tilde].
Qed.
