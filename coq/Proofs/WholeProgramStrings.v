(** C04w — every string node and every atom node of the WHOLE emitted program is accounted for:
    an invariant of the compiler state ([good_mgr]) carried through [compile_expr], then through
    [compile] and [render].  Mirrors the structure of Proofs/CompileWf.v. *)
From Coq Require Import List String NArith Bool Lia ZifyBool ZifyN.
From FP Require Import Model.Chars Model.Ast Model.Sexp Model.Compile
  Spec.GuileFormat Spec.UserStrings Proofs.ReaderRoundTrip.
Import ListNotations.
Local Open Scope N_scope.

(** * Deciding membership in the fixed tables *)

Definition fixedb (a : str) : bool := existsb (str_eqb a) (map chars fixed_symbols).
Definition kindb (k : string) : bool := existsb (String.eqb k) ident_kinds.

Lemma str_eqb_true : forall a b, str_eqb a b = true -> a = b.
Proof.
  induction a as [|x a IH]; intros [|y b] H; cbn [str_eqb] in H; try discriminate H; [reflexivity|].
  apply andb_true_iff in H. destruct H as [H1 H2]. apply N.eqb_eq in H1. subst y.
  rewrite (IH b H2). reflexivity.
Qed.

Lemma fixedb_In : forall a, fixedb a = true -> In a (map chars fixed_symbols).
Proof.
  intros a H. unfold fixedb in H. apply existsb_exists in H. destruct H as [b [Hb E]].
  apply str_eqb_true in E. subst b. exact Hb.
Qed.
Lemma kindb_In : forall k, kindb k = true -> In k ident_kinds.
Proof.
  intros k H. unfold kindb in H. apply existsb_exists in H. destruct H as [b [Hb E]].
  apply String.eqb_eq in E. subst b. exact Hb.
Qed.

(** * The predicate on layout-carrying S-expressions *)

Section Good.
Variable PS : str -> Prop.

Fixpoint good (x : lsexp) : Prop :=
  match x with
  | LAtom a => atom_shape a
  | LStr ps => PS (flat_map piece_value ps)
  | LList items _ => good_items items
  end
with good_items (l : litems) : Prop :=
  match l with
  | LNil => True
  | LCons _ x r => good x /\ good_items r
  end.

Lemma good_erase_both :
  (forall x, good x -> Forall PS (strings_of (erase x)) /\ Forall atom_shape (atoms_of (erase x)))
  /\ (forall l, good_items l ->
        Forall PS (flat_map strings_of (erase_items l))
        /\ Forall atom_shape (flat_map atoms_of (erase_items l))).
Proof.
  apply lsexp_litems_ind.
  - intros a H. cbn [good] in H. cbn [erase strings_of atoms_of]. split; [constructor|].
    constructor; [exact H | constructor].
  - intros ps H. cbn [good] in H. cbn [erase strings_of atoms_of]. split; [|constructor].
    constructor; [exact H | constructor].
  - intros items IH trail H. cbn [good] in H. cbn [erase strings_of atoms_of]. exact (IH H).
  - intros _. cbn [erase_items flat_map]. split; constructor.
  - intros ws x IHx r IHr H. cbn [good_items] in H. destruct H as [Hx Hr].
    destruct (IHx Hx) as [Hx1 Hx2]. destruct (IHr Hr) as [Hr1 Hr2].
    cbn [erase_items flat_map]. split; apply Forall_app; split; assumption.
Qed.

Lemma good_erase : forall x, good x ->
  Forall PS (strings_of (erase x)) /\ Forall atom_shape (atoms_of (erase x)).
Proof. exact (proj1 good_erase_both). Qed.

(** building blocks *)
Lemma good_atom : forall s, fixedb (chars s) = true -> good (atom s).
Proof. intros s H. unfold atom. cbn [good]. apply AtomFixed. apply fixedb_In. exact H. Qed.
Lemma good_num : forall n, good (num n).
Proof. intros n. unfold num. cbn [good]. apply (AtomNumber _ n). reflexivity. Qed.
Lemma good_ident : forall kind n, kindb kind = true -> good (ident kind n).
Proof.
  intros kind n H. unfold ident. cbn [good]. apply (AtomIdent _ kind n); [apply kindb_In; exact H|].
  reflexivity.
Qed.
Lemma good_charlit : forall n, good (LAtom (chars "#\x" ++ print_hex2 n)).
Proof. intros n. cbn [good]. apply (AtomChar _ n). reflexivity. Qed.
Lemma good_terminator : forall t, good (terminator_escape t).
Proof.
  intros [c|]; unfold terminator_escape; [apply good_charlit | apply good_atom; reflexivity].
Qed.
Lemma good_lstr : forall u, PS u -> good (lstr u).
Proof. intros u H. unfold lstr. cbn [good flat_map piece_value]. rewrite app_nil_r. exact H. Qed.

Lemma good_items_sep : forall sep l, Forall good l -> good_items (items_sep sep l).
Proof.
  intros sep l H. induction H as [|x l Hx Hl IH]; cbn [items_sep good_items]; [exact I|].
  split; assumption.
Qed.
Lemma good_lst : forall l, Forall good l -> good (lst l).
Proof.
  intros [|x l] H; unfold lst; cbn [good good_items]; [exact I|].
  inversion H as [|x' l' Hx Hl]; subst. split; [exact Hx | apply good_items_sep; exact Hl].
Qed.
Lemma good_list : forall its trail, good_items its -> good (LList its trail).
Proof. intros its trail H. exact H. Qed.
Lemma good_items_cons : forall ws x r, good x -> good_items r -> good_items (LCons ws x r).
Proof. intros ws x r H1 H2. split; assumption. Qed.
Lemma good_items_nil : good_items LNil.
Proof. exact I. Qed.
Lemma good_items_app : forall a b, good_items a -> good_items b -> good_items (items_app a b).
Proof.
  induction a as [|ws x r IH]; intros b Ha Hb; cbn [items_app]; [exact Hb|].
  cbn [good_items] in Ha |- *. destruct Ha as [Hx Hr]. split; [exact Hx | apply IH; assumption].
Qed.
Lemma good_call0 : forall f, fixedb (chars f) = true -> good (call0 f).
Proof. intros f H. unfold call0. apply good_lst. constructor; [apply good_atom; exact H | constructor]. Qed.

Ltac good_tac :=
  repeat lazymatch goal with
  | |- True => exact I
  | |- Forall _ (_ :: _) => apply Forall_cons
  | |- Forall _ [] => apply Forall_nil
  | |- good_items LNil => exact I
  | |- good_items (LCons _ _ _) => apply good_items_cons
  | |- good_items _ => assumption
  | |- good (LList _ _) => apply good_list
  | |- good (lst _) => apply good_lst
  | |- good (thunk _) => unfold thunk
  | |- good (num _) => apply good_num
  | |- good (terminator_escape _) => apply good_terminator
  | |- good (LAtom (chars "#\x" ++ print_hex2 _)) => apply good_charlit
  | |- good (ident _ _) => apply good_ident; reflexivity
  | |- good (call0 _) => first [assumption | apply good_call0; reflexivity]
  | |- good (atom _) => first [assumption | apply good_atom; reflexivity]
  | |- good _ => assumption
  end.

Lemma good_binding : forall a b, good a -> good b -> good (binding a b).
Proof. intros a b Ha Hb. unfold binding. good_tac. Qed.
Lemma good_cmp_op : forall T (c : cmp T), good (atom (cmp_op c)).
Proof. intros T [v|v|v]; apply good_atom; reflexivity. Qed.
Lemma good_matcher_name : forall pat ci, good (atom (matcher_name pat ci)).
Proof.
  intros pat ci. unfold matcher_name.
  destruct (is_pattern pat); destruct ci; apply good_atom; reflexivity.
Qed.
Lemma good_matcher_binding : forall idx pat ci, PS pat -> good (matcher_binding idx pat ci).
Proof.
  intros idx pat ci Hp. unfold matcher_binding. pose proof (good_matcher_name pat ci) as Hn.
  pose proof (good_lstr pat Hp) as Hs. apply good_binding; good_tac.
Qed.

(** * Managers *)

Definition good_mgr (m : mgr) : Prop :=
  match m with
  | ML l => Forall good (l_vars l) /\ Forall good (l_fini l)
  | MD d => Forall good (d_vars d)
  end.

Lemma Forall_snoc : forall (l : list lsexp) x, Forall good l -> good x -> Forall good (l ++ [x]).
Proof. intros l x Hl Hx. apply Forall_app. split; [exact Hl | constructor; [exact Hx | constructor]]. Qed.
Lemma Forall_snoc2 : forall (l : list lsexp) x y,
  Forall good l -> good x -> good y -> Forall good (l ++ [x; y]).
Proof. intros l x y Hl Hx Hy. apply Forall_app. split; [exact Hl | repeat constructor; assumption]. Qed.

Lemma l_init_default_port_good : forall m,
  good_mgr (ML m) -> good_mgr (ML (snd (l_init_default_port m))).
Proof.
  intros m [Hv Hf]. unfold l_init_default_port. destruct (l_default m) as [p|]; cbn [snd good_mgr].
  - split; assumption.
  - cbn [l_vars l_fini]. split; [|exact Hf].
    apply Forall_snoc2; [exact Hv | apply good_binding; good_tac | apply good_binding; good_tac].
Qed.

Hypothesis PS_w : PS (chars "w").
Hypothesis PS_empty : PS [].

Lemma l_init_file_port_good : forall f m, PS f ->
  good_mgr (ML m) -> good_mgr (ML (snd (l_init_file_port f m))).
Proof.
  intros f m Hu [Hv Hf]. unfold l_init_file_port.
  destruct (assoc str_eqb f (l_files m)) as [p|]; cbn [snd good_mgr].
  - split; assumption.
  - cbn [l_vars l_fini]. pose proof (good_lstr f Hu) as H1. pose proof (good_lstr _ PS_w) as H2.
    split.
    + apply Forall_snoc2; [exact Hv | apply good_binding; good_tac | apply good_binding; good_tac].
    + apply Forall_snoc; [exact Hf | good_tac].
Qed.

Lemma l_register_printer_good : forall p term m,
  good_mgr (ML m) -> good_mgr (ML (snd (l_register_printer p term m))).
Proof.
  intros p term m [Hv Hf]. unfold l_register_printer.
  destruct (assoc pkey_eqb (p, term) (l_printers m)) as [i|]; cbn [snd good_mgr].
  - split; assumption.
  - cbn [l_vars l_fini]. split; [|exact Hf].
    apply Forall_snoc; [exact Hv | apply good_binding; good_tac].
Qed.

Lemma l_register_match_good : forall pat ci m, PS pat ->
  good_mgr (ML m) -> good_mgr (ML (snd (l_register_match pat ci m))).
Proof.
  intros pat ci m Hp [Hv Hf]. unfold l_register_match.
  destruct (assoc mkey_eqb (pat, ci) (l_matches m)) as [i|]; cbn [snd good_mgr].
  - split; assumption.
  - cbn [l_vars l_fini]. split; [|exact Hf].
    apply Forall_snoc; [exact Hv | apply good_matcher_binding; exact Hp].
Qed.

Lemma d_register_printer_good : forall t m,
  good_mgr (MD m) -> good_mgr (MD (snd (d_register_printer t m))).
Proof.
  intros t m Hv. cbn [good_mgr] in Hv. unfold d_register_printer.
  destruct (assoc target_eqb t (d_printers m)) as [i|]; cbn [snd good_mgr]; [exact Hv|].
  cbn [d_vars]. apply Forall_snoc; [exact Hv|].
  apply good_binding; good_tac.
Qed.

Lemma d_register_match_good : forall pat ci m, PS pat ->
  good_mgr (MD m) -> good_mgr (MD (snd (d_register_match pat ci m))).
Proof.
  intros pat ci m Hp Hv. cbn [good_mgr] in Hv. unfold d_register_match.
  destruct (assoc mkey_eqb (pat, ci) (d_matches m)) as [i|]; cbn [snd good_mgr]; [exact Hv|].
  cbn [d_vars]. apply Forall_snoc; [exact Hv | apply good_matcher_binding; exact Hp].
Qed.

Lemma get_printer_good : forall term m,
  good_mgr m -> good (fst (get_printer term m)) /\ good_mgr (snd (get_printer term m)).
Proof.
  intros term [l|d] H; cbn [get_printer].
  - destruct (l_init_default_port l) as [p l1] eqn:E1.
    destruct (l_register_printer p term l1) as [i l2] eqn:E2. cbn [fst snd].
    split; [good_tac|].
    change l2 with (snd (i, l2)). rewrite <- E2. apply l_register_printer_good.
    change l1 with (snd (p, l1)). rewrite <- E1. apply l_init_default_port_good. exact H.
  - destruct (d_register_printer (TStdout term) d) as [i d1] eqn:E1. cbn [fst snd].
    split; [good_tac|].
    change d1 with (snd (i, d1)). rewrite <- E1. apply d_register_printer_good. exact H.
Qed.

Lemma get_file_printer_good : forall f term m, PS f ->
  good_mgr m -> good (fst (get_file_printer f term m)) /\ good_mgr (snd (get_file_printer f term m)).
Proof.
  intros f term [l|d] Hu H; cbn [get_file_printer].
  - destruct (l_init_file_port f l) as [p l1] eqn:E1.
    destruct (l_register_printer p term l1) as [i l2] eqn:E2. cbn [fst snd].
    split; [good_tac|].
    change l2 with (snd (i, l2)). rewrite <- E2. apply l_register_printer_good.
    change l1 with (snd (p, l1)). rewrite <- E1. apply l_init_file_port_good; assumption.
  - destruct (d_register_printer (TFile f term) d) as [i d1] eqn:E1. cbn [fst snd].
    split; [good_tac|].
    change d1 with (snd (i, d1)). rewrite <- E1. apply d_register_printer_good. exact H.
Qed.

Lemma get_matcher_good : forall pat ci m, PS pat ->
  good_mgr m -> good (fst (get_matcher pat ci m)) /\ good_mgr (snd (get_matcher pat ci m)).
Proof.
  intros pat ci [l|d] Hp H; cbn [get_matcher].
  - destruct (l_register_match pat ci l) as [i l1] eqn:E1. cbn [fst snd].
    split; [good_tac|].
    change l1 with (snd (i, l1)). rewrite <- E1. apply l_register_match_good; assumption.
  - destruct (d_register_match pat ci d) as [i d1] eqn:E1. cbn [fst snd].
    split; [good_tac|].
    change d1 with (snd (i, d1)). rewrite <- E1. apply d_register_match_good; assumption.
Qed.

Definition mgr_op_good (g : mgr -> lsexp * mgr) : Prop :=
  forall m, good_mgr m -> good (fst (g m)) /\ good_mgr (snd (g m)).

Lemma with_mgr_good : forall g s x s',
  mgr_op_good g -> with_mgr g s = (x, s') -> good_mgr (st_mgr s) -> good x /\ good_mgr (st_mgr s').
Proof.
  intros g s x s' Hg E H. unfold with_mgr in E.
  destruct (g (st_mgr s)) as [a m] eqn:Eg. inversion E; subst. cbn [st_mgr].
  specialize (Hg (st_mgr s) H). rewrite Eg in Hg. exact Hg.
Qed.

(** * Tests *)

Lemma good_cmp_field : forall c f, fixedb (chars f) = true -> good (cmp_field c f).
Proof.
  intros c f H. unfold cmp_field. pose proof (good_cmp_op N c) as Ho.
  pose proof (good_call0 f H) as Hf. good_tac.
Qed.
Lemma good_compile_size : forall c, good (compile_size c).
Proof.
  intros c. unfold compile_size. pose proof (good_cmp_op size c) as Ho.
  destruct (cmp_val c) as [u n]. destruct u; good_tac.
Qed.
Lemma good_compile_time : forall now f c, fixedb (chars f) = true -> good (compile_time now f c).
Proof.
  intros now f c H. unfold compile_time. pose proof (good_cmp_op timespec c) as Ho.
  pose proof (good_call0 f H) as Hf. destruct (cmp_val c) as [u n]. good_tac.
Qed.
Lemma good_type_check : forall t, good (type_check t).
Proof. intros t. unfold type_check. good_tac. Qed.
Lemma good_compile_types : forall l, good (compile_types l).
Proof.
  intros l. unfold compile_types. destruct l as [|t [|t2 r]].
  - good_tac.
  - apply good_type_check.
  - good_tac. apply good_items_sep.
    apply Forall_forall. intros x Hx. apply in_map_iff in Hx. destruct Hx as [t' [<- _]].
    apply good_type_check.
Qed.
Lemma good_compile_perm : forall k b, good (compile_perm k b).
Proof. intros k b. unfold compile_perm. destruct k; good_tac. Qed.

Lemma compile_test_good : forall t s x s',
  compile_test t s = COk (x, s') -> Forall PS (test_strings t) ->
  good_mgr (st_mgr s) -> good x /\ good_mgr (st_mgr s').
Proof.
  assert (Hm : forall caller pat ci s x s',
    fixedb (chars caller) = true -> PS pat ->
    (let (m, s1) := with_mgr (get_matcher pat ci) s in
     @COk (lsexp * cstate) (lst [atom caller; m], s1)) = COk (x, s') ->
    good_mgr (st_mgr s) -> good x /\ good_mgr (st_mgr s')).
  { intros caller pat ci s x s' Hc Hp E H.
    destruct (with_mgr (get_matcher pat ci) s) as [m s1] eqn:Ew. inversion E; subst.
    destruct (with_mgr_good _ _ _ _ (fun m0 => get_matcher_good pat ci m0 Hp) Ew H) as [Hx Hs].
    split; [|exact Hs]. pose proof (good_atom caller Hc) as Ha. good_tac. }
  intros t s x s' E HU H.
  destruct t; cbn [compile_test test_unsupported] in E; cbn [test_strings] in HU;
    try discriminate E;
    try (eapply Hm; [| |exact E|exact H]; [reflexivity | exact (Forall_inv HU)]);
    try (unfold tick in E; inversion E; subst; cbn [st_mgr]; split; [|exact H]).
  all: try (apply good_compile_time; reflexivity).
  all: try (apply good_cmp_field; reflexivity).
  all: try solve [good_tac].
  - apply good_compile_perm.
  - pose proof (good_lstr s0 (Forall_inv HU)) as Hs. good_tac.
  - apply good_compile_size.
  - apply good_compile_types.
  - pose proof (good_lstr s0 (Forall_inv HU)) as Hs. good_tac.
  - pose proof (good_lstr a (Forall_inv HU)) as Ha.
    pose proof (good_lstr b (Forall_inv (Forall_inv_tail HU))) as Hb.
    destruct (xattr_offending a || xattr_offending b); inversion E; subst; split; try exact H;
      good_tac.
Qed.

(** * Formats *)

Lemma special_piece_value : forall x p, special_piece x = COk p -> piece_value p = special_text x.
Proof.
  intros x p E. destruct x; cbn [special_piece] in E; inversion E; subst; reflexivity.
Qed.
Lemma elem_piece_value : forall el p, elem_piece el = COk p -> piece_value p = elem_text el.
Proof.
  intros [s|f|x] p E; cbn [elem_piece] in E.
  - inversion E; subst. reflexivity.
  - destruct (field_unsupported f); inversion E; subst. reflexivity.
  - apply (special_piece_value x p E).
Qed.
Lemma template_value : forall fmt ps,
  template fmt = COk ps -> flat_map piece_value ps = template_text fmt.
Proof.
  induction fmt as [|el r IH]; intros ps E; cbn [template] in E.
  - inversion E; subst. reflexivity.
  - destruct (elem_piece el) as [p|k c|m] eqn:Ep; try discriminate E.
    destruct (template r) as [ps'|k c|m] eqn:Er; try discriminate E.
    inversion E; subst. unfold template_text. cbn [flat_map].
    rewrite (elem_piece_value el p Ep). f_equal. apply IH. reflexivity.
Qed.

Variable sel_ok : N -> Prop.
Hypothesis PS_sel : forall c, sel_ok c -> PS [37; c].

Lemma good_strftime : forall c f, sel_ok c -> fixedb (chars f) = true -> good (strftime c f).
Proof.
  intros c f Hc H. unfold strftime. pose proof (good_call0 f H) as Hf.
  assert (Hs : good (LStr [PLit [37; c]])) by (cbn [good flat_map piece_value app]; apply PS_sel; exact Hc).
  good_tac.
Qed.

Lemma snippet_good : forall f s, snippet f = Some s ->
  Forall PS (elem_names (EField f)) -> Forall sel_ok (elem_selectors (EField f)) -> good s.
Proof.
  intros f s E HN HS.
  assert (He : good (LStr [])) by (cbn [good flat_map]; exact PS_empty).
  destruct f; cbn [snippet] in E; try discriminate E; inversion E; subst;
    try solve [good_tac].
  - cbn [elem_selectors] in HS. destruct (c =? 64);
      [apply good_call0; reflexivity | apply good_strftime; [exact (Forall_inv HS) | reflexivity]].
  - cbn [elem_selectors] in HS. destruct (c =? 64);
      [apply good_call0; reflexivity | apply good_strftime; [exact (Forall_inv HS) | reflexivity]].
  - cbn [elem_selectors] in HS. destruct (c =? 64);
      [apply good_call0; reflexivity | apply good_strftime; [exact (Forall_inv HS) | reflexivity]].
  - cbn [elem_names] in HN. pose proof (good_lstr s0 (Forall_inv HN)) as Hs. good_tac.
Qed.

Lemma format_items_good : forall fmt,
  Forall PS (flat_map elem_names fmt) -> Forall sel_ok (flat_map elem_selectors fmt) ->
  Forall good (format_items fmt).
Proof.
  induction fmt as [|el r IH]; intros HN HS; cbn [format_items]; [constructor|].
  cbn [flat_map] in HN, HS. apply Forall_app in HN. apply Forall_app in HS.
  destruct HN as [HN1 HN2]. destruct HS as [HS1 HS2]. specialize (IH HN2 HS2).
  destruct el as [s|f|x]; try exact IH.
  destruct (snippet f) as [sn|] eqn:Es; [|exact IH].
  constructor; [apply (snippet_good f sn Es HN1 HS1) | exact IH].
Qed.

Lemma compile_format_good : forall fmt f, compile_format fmt = COk f ->
  PS (template_text fmt) ->
  Forall PS (flat_map elem_names fmt) -> Forall sel_ok (flat_map elem_selectors fmt) ->
  good f.
Proof.
  intros fmt f E HT HN HS. unfold compile_format in E.
  destruct (template fmt) as [ps|k c|m] eqn:Et; try discriminate E.
  assert (Hps : good (LStr ps)) by (cbn [good]; rewrite (template_value fmt ps Et); exact HT).
  pose proof (format_items_good fmt HN HS) as Hit.
  destruct (format_items fmt) as [|i its]; inversion E; subst.
  - good_tac.
  - inversion Hit as [|i' its' Hi Hits]; subst.
    cbn [items_app items_sep]. good_tac. apply good_items_sep. exact Hits.
Qed.

(** * Actions and expressions *)

Definition fmt_ok (fmt : format) : Prop :=
  PS (template_text fmt)
  /\ Forall PS (flat_map elem_names fmt) /\ Forall sel_ok (flat_map elem_selectors fmt).

Lemma compile_action_good : forall a s x s',
  compile_action a s = COk (x, s') ->
  Forall PS (action_files a) -> Forall fmt_ok (action_formats a) ->
  good_mgr (st_mgr s) -> good x /\ good_mgr (st_mgr s').
Proof.
  assert (Hpath : forall g s x s', mgr_op_good g ->
    (let (p, s1) := with_mgr g s in
     @COk (lsexp * cstate) (lst [atom "call-with-relative-path"; p], s1)) = COk (x, s') ->
    good_mgr (st_mgr s) -> good x /\ good_mgr (st_mgr s')).
  { intros g s x s' Hg E H. destruct (with_mgr g s) as [p s1] eqn:Ew. inversion E; subst.
    destruct (with_mgr_good _ _ _ _ Hg Ew H) as [Hp Hs]. split; [good_tac | exact Hs]. }
  assert (Hfmt : forall g fmt s x s', mgr_op_good g -> fmt_ok fmt ->
    (let (p, s1) := with_mgr g s in
     match compile_format fmt with
     | COk f => @COk (lsexp * cstate) (lst [p; f], s1)
     | CErr k c => CErr k c
     | CPanic m => CPanic m
     end) = COk (x, s') ->
    good_mgr (st_mgr s) -> good x /\ good_mgr (st_mgr s')).
  { intros g fmt s x s' Hg [HT [HN HS]] E H. destruct (with_mgr g s) as [p s1] eqn:Ew.
    destruct (compile_format fmt) as [f|k c|m] eqn:Ef; try discriminate E. inversion E; subst.
    destruct (with_mgr_good _ _ _ _ Hg Ew H) as [Hp Hs]. split; [|exact Hs].
    pose proof (compile_format_good fmt f Ef HT HN HS) as Hf. good_tac. }
  intros a s x s' E HF HM H. destruct a; cbn [compile_action] in E; try discriminate E;
    cbn [action_files] in HF; cbn [action_formats] in HM.
  - exact (Hpath _ _ _ _ (fun m => get_file_printer_good f (Some 10) m (Forall_inv HF)) E H).
  - exact (Hpath _ _ _ _ (fun m => get_file_printer_good f (Some 0) m (Forall_inv HF)) E H).
  - exact (Hfmt _ _ _ _ _ (fun m => get_file_printer_good f None m (Forall_inv HF)) (Forall_inv HM) E H).
  - exact (Hpath _ _ _ _ (get_printer_good (Some 10)) E H).
  - exact (Hpath _ _ _ _ (get_printer_good (Some 0)) E H).
  - exact (Hfmt _ _ _ _ _ (get_printer_good None) (Forall_inv HM) E H).
  - destruct (with_mgr (get_printer (Some 10)) s) as [p s1] eqn:Ew. inversion E; subst.
    destruct (with_mgr_good _ _ _ _ (get_printer_good (Some 10)) Ew H) as [Hp Hs]. split; [|exact Hs].
    good_tac.
  - inversion E; subst. split; [|exact H]. good_tac.
  - inversion E; subst. split; [|exact H]. good_tac.
Qed.

Lemma compile_expr_good : forall e s x s',
  compile_expr e s = COk (x, s') ->
  Forall PS (tree_strings e) -> Forall fmt_ok (formats e) ->
  good_mgr (st_mgr s) -> good x /\ good_mgr (st_mgr s').
Proof.
  assert (Hbin : forall op a b,
    fixedb (chars op) = true ->
    (forall s x s', compile_expr a s = COk (x, s') ->
       Forall PS (tree_strings a) -> Forall fmt_ok (formats a) ->
       good_mgr (st_mgr s) -> good x /\ good_mgr (st_mgr s')) ->
    (forall s x s', compile_expr b s = COk (x, s') ->
       Forall PS (tree_strings b) -> Forall fmt_ok (formats b) ->
       good_mgr (st_mgr s) -> good x /\ good_mgr (st_mgr s')) ->
    forall s x s',
    match compile_expr a s with
    | COk (xa, s1) =>
        match compile_expr b s1 with
        | COk (y, s2) => COk (lst [atom op; xa; y], s2)
        | bad => bad
        end
    | bad => bad
    end = COk (x, s') ->
    Forall PS (tree_strings a ++ tree_strings b) -> Forall fmt_ok (formats a ++ formats b) ->
    good_mgr (st_mgr s) -> good x /\ good_mgr (st_mgr s')).
  { intros op a b Hop IHa IHb s x s' E HU HM H.
    apply Forall_app in HU. apply Forall_app in HM.
    destruct HU as [HUa HUb]. destruct HM as [HMa HMb].
    destruct (compile_expr a s) as [[xa s1]|k c|m] eqn:Ea; try discriminate E.
    destruct (IHa s xa s1 Ea HUa HMa H) as [Hxa Hs1].
    destruct (compile_expr b s1) as [[xb s2]|k c|m] eqn:Eb; try discriminate E.
    destruct (IHb s1 xb s2 Eb HUb HMb Hs1) as [Hxb Hs2].
    inversion E; subst. split; [|exact Hs2].
    pose proof (good_atom op Hop) as Ho. good_tac. }
  induction e as [e IH|e IH|a IHa b IHb|a IHa b IHb|a IHa b IHb|t|a|g|];
    intros s x s' E HU HM H; cbn [compile_expr] in E; try discriminate E;
    cbn [tree_strings] in HU; cbn [formats] in HM.
  - destruct (compile_expr e s) as [[xa s1]|k c|m] eqn:Ea; try discriminate E.
    destruct (IH s xa s1 Ea HU HM H) as [Hxa Hs1]. inversion E; subst. split; [good_tac | exact Hs1].
  - exact (Hbin "and"%string a b (eq_refl true) IHa IHb s x s' E HU HM H).
  - exact (Hbin "or"%string a b (eq_refl true) IHa IHb s x s' E HU HM H).
  - exact (Hbin "and"%string a b (eq_refl true) IHa IHb s x s' E HU HM H).
  - exact (compile_test_good t s x s' E HU H).
  - exact (compile_action_good a s x s' E HU HM H).
Qed.

(** * The compiled record and its rendering *)

Definition good_compiled (c : compiled) : Prop :=
  Forall good (c_defs c) /\ Forall good (c_init c) /\ Forall good (c_fini c) /\ good (c_body c).

Lemma good_frame_proc : good frame_proc.
Proof. unfold frame_proc. good_tac. Qed.
Lemma good_mgr_init_d : good_mgr (MD dmgr_init).
Proof.
  cbn [good_mgr dmgr_init d_vars]. pose proof good_frame_proc as Hf.
  apply Forall_cons; [apply good_binding; good_tac|].
  apply Forall_cons; [apply good_binding; good_tac|].
  apply Forall_cons; [apply good_binding; good_tac|]. constructor.
Qed.
Lemma good_mgr_init_l : good_mgr (ML lmgr_init).
Proof. cbn [good_mgr lmgr_init l_vars l_fini]. split; constructor. Qed.

Lemma wrap_tree_strings : forall e, Forall PS (tree_strings e) -> Forall PS (tree_strings (wrap e)).
Proof.
  intros e H. unfold wrap. destruct (has_action e); [exact H|].
  cbn [tree_strings action_files]. rewrite app_nil_r. exact H.
Qed.
Lemma wrap_formats : forall e, formats (wrap e) = formats e.
Proof.
  intros e. unfold wrap. destruct (has_action e); [reflexivity|].
  cbn [formats action_formats]. apply app_nil_r.
Qed.

Lemma compile_good_compiled : forall e o clk c, compile e o clk = COk c ->
  Forall PS (tree_strings e) -> Forall fmt_ok (formats e) -> good_compiled c.
Proof.
  intros e o clk c E HU HM. unfold compile in E.
  destruct (compile_expr (wrap e) _) as [[body s]|k cs|m] eqn:Ec; try discriminate E.
  assert (H0 : good_mgr (st_mgr {| st_mgr := if complex_frames e then MD dmgr_init else ML lmgr_init;
                                   st_clock := clk |})).
  { cbn [st_mgr]. destruct (complex_frames e); [apply good_mgr_init_d | apply good_mgr_init_l]. }
  apply wrap_tree_strings in HU. rewrite <- wrap_formats in HM.
  destruct (compile_expr_good _ _ _ _ Ec HU HM H0) as [Hb Hs].
  inversion E; subst. unfold good_compiled.
  destruct (st_mgr s) as [l|d]; cbn [good_mgr] in Hs;
    cbn [c_defs c_init c_fini c_body].
  - destruct Hs as [Hv Hf]. split; [exact Hv | split; [constructor | split; [exact Hf | exact Hb]]].
  - split; [exact Hs | split; [constructor | split; [constructor | exact Hb]]].
Qed.

Lemma good_forms_or_true : forall l, Forall good l -> good_items (forms_or_true l).
Proof.
  intros [|x l] H; unfold forms_or_true; [good_tac|]. apply good_items_sep. exact H.
Qed.
Lemma good_thunk : forall body, good_items body -> good (thunk body).
Proof. intros body H. unfold thunk. good_tac. Qed.

Lemma render_good : forall c mdt, good_compiled c -> PS mdt ->
  good (fst (render c mdt)) /\ good (snd (render c mdt)).
Proof.
  intros c mdt [Hd [Hi [Hf Hb]]] Hm. unfold render. cbn [fst snd]. split.
  - destruct (c_framed c); good_tac.
  - pose proof (good_lstr mdt Hm) as Hmdt.
    pose proof (good_forms_or_true _ Hi) as Hi'. pose proof (good_forms_or_true _ Hf) as Hf'.
    assert (Hdefs : good match c_defs c with
                         | [] => LList LNil []
                         | d :: r => LList (LCons [] d (items_sep (if c_framed c then nl 7 else [32]) r)) []
                         end).
    { destruct (c_defs c) as [|d r]; [good_tac|]. inversion Hd as [|d' r' Hd1 Hd2]; subst.
      good_tac. apply good_items_sep. exact Hd2. }
    assert (Hthr : good match c_threads c with
                        | Some n => num n
                        | None => lst [atom "lipe-getopt-thread-count"]
                        end).
    { destruct (c_threads c); good_tac. }
    good_tac.
Qed.

End Good.

(** * The whole program *)

Definition origin_ok (e : expr) (mdt : str) : str -> Prop := string_origin e mdt.

Lemma In_flat_map_intro : forall (A B : Type) (f : A -> list B) (l : list A) x y,
  In x l -> In y (f x) -> In y (flat_map f l).
Proof. intros A B f l x y Hx Hy. apply in_flat_map. exists x. split; assumption. Qed.

Lemma formats_ok : forall e mdt,
  Forall (fmt_ok (string_origin e mdt) (fun c => In c (selectors e))) (formats e).
Proof.
  intros e mdt. apply Forall_forall. intros fmt Hf. unfold fmt_ok. split; [|split].
  - right. right. right. exists fmt. split; [exact Hf | reflexivity].
  - apply Forall_forall. intros u Hu. left. apply in_or_app. left. unfold direct_strings.
    apply in_or_app. right. exact (In_flat_map_intro _ _ _ _ fmt u Hf Hu).
  - apply Forall_forall. intros c Hc. unfold selectors.
    exact (In_flat_map_intro _ _ _ _ fmt c Hf Hc).
Qed.

Lemma whole_program_good : forall e o clk c mdt,
  compile e o clk = COk c ->
  good (string_origin e mdt) (fst (render c mdt)) /\ good (string_origin e mdt) (snd (render c mdt)).
Proof.
  intros e o clk c mdt E.
  assert (Hw : string_origin e mdt (chars "w")) by (right; left; left; reflexivity).
  assert (He : string_origin e mdt []) by (right; left; right; left; reflexivity).
  assert (Hsel : forall ch, In ch (selectors e) -> string_origin e mdt [37; ch]).
  { intros ch Hc. right. right. left. exists ch. split; [exact Hc | reflexivity]. }
  apply (render_good _ c mdt).
  - apply (compile_good_compiled (string_origin e mdt) Hw He (fun ch => In ch (selectors e)) Hsel
             e o clk c E).
    + apply Forall_forall. intros u Hu. left. apply in_or_app. left. unfold direct_strings.
      apply in_or_app. left. exact Hu.
    + apply formats_ok.
  - left. apply in_or_app. right. left. reflexivity.
Qed.

(** (a) every string node of the two forms *)
Theorem program_strings : forall e o clk c mdt,
  compile e o clk = COk c ->
  forall v, In v (strings_of (erase (fst (render c mdt))) ++ strings_of (erase (snd (render c mdt)))) ->
  string_origin e mdt v.
Proof.
  intros e o clk c mdt E v Hv. destruct (whole_program_good e o clk c mdt E) as [H1 H2].
  apply good_erase in H1. apply good_erase in H2. destruct H1 as [H1 _]. destruct H2 as [H2 _].
  apply in_app_or in Hv. destruct Hv as [Hv|Hv];
    [exact (proj1 (Forall_forall _ _) H1 v Hv) | exact (proj1 (Forall_forall _ _) H2 v Hv)].
Qed.

(** (b) every atom node of the two forms *)
Theorem program_atoms : forall e o clk c mdt,
  compile e o clk = COk c ->
  forall a, In a (atoms_of (erase (fst (render c mdt))) ++ atoms_of (erase (snd (render c mdt)))) ->
  atom_shape a.
Proof.
  intros e o clk c mdt E a Ha. destruct (whole_program_good e o clk c mdt E) as [H1 H2].
  apply good_erase in H1. apply good_erase in H2. destruct H1 as [_ H1]. destruct H2 as [_ H2].
  apply in_app_or in Ha. destruct Ha as [Ha|Ha];
    [exact (proj1 (Forall_forall _ _) H1 a Ha) | exact (proj1 (Forall_forall _ _) H2 a Ha)].
Qed.

(** * The classifications in terms of the model's builders *)

Lemma atom_texts :
  (forall kind n, ident kind n = LAtom (ident_text kind n))
  /\ (forall n, num n = LAtom (print_dec n))
  /\ (forall c, terminator_escape (Some c) = LAtom (charlit_text (c mod 256)))
  /\ terminator_escape None = atom "#f"
  /\ (forall s, atom s = LAtom (chars s)).
Proof. repeat split. Qed.

Lemma strings_are_user : forall e,
  incl (direct_strings e) (user_strings e) /\ incl (literal_strings e) (user_strings e).
Proof.
  intros e. unfold user_strings. split; intros u Hu; apply in_or_app; [left | right]; exact Hu.
Qed.

(** the task's form of (a): with all the strings of the tree allowed as plain nodes *)
Lemma program_strings_user : forall e o clk c mdt,
  compile e o clk = COk c ->
  forall v, In v (strings_of (erase (fst (render c mdt))) ++ strings_of (erase (snd (render c mdt)))) ->
  In v (user_strings e ++ [mdt])
  \/ In v fixed_strings
  \/ (exists ch, In ch (selectors e) /\ v = [37; ch])
  \/ (exists fmt, In fmt (formats e) /\ v = template_text fmt).
Proof.
  intros e o clk c mdt E v Hv. destruct (program_strings e o clk c mdt E v Hv) as [H|H]; [left | right; exact H].
  apply in_app_or in H. apply in_or_app. destruct H as [H|H]; [left | right; exact H].
  exact (proj1 (strings_are_user e) v H).
Qed.

(** the first form has no string node at all *)
Lemma first_form_no_strings : forall c mdt, strings_of (erase (fst (render c mdt))) = [].
Proof. intros c mdt. unfold render. cbn [fst]. destruct (c_framed c); reflexivity. Qed.

(** * Templates *)

Lemma placeholder_fixed : forall f, In (placeholder f) directive_texts.
Proof.
  intros f. destruct f; cbn [placeholder directive_texts In]; try tauto;
    destruct (c =? 64); tauto.
Qed.

Lemma template_text_app : forall a b, template_text (a ++ b) = template_text a ++ template_text b.
Proof. intros a b. unfold template_text. apply flat_map_app. Qed.

Lemma format_tokens_app_len : forall n a ta b,
  (List.length a <= n)%nat -> format_tokens a = Some ta ->
  format_tokens (a ++ b) = option_map (app ta) (format_tokens b).
Proof.
  induction n as [|n IH]; intros a ta b Hl H.
  - destruct a as [|c r]; [|cbn [List.length] in Hl; lia]. cbn [format_tokens] in H. inversion H; subst.
    cbn [app]. destruct (format_tokens b); reflexivity.
  - destruct a as [|c r].
    + cbn [format_tokens] in H. inversion H; subst. cbn [app]. destruct (format_tokens b); reflexivity.
    + cbn [List.length] in Hl. cbn [format_tokens] in H. cbn [app format_tokens].
      destruct (c =? 126) eqn:Ec.
      * destruct r as [|d r']; [discriminate H|]. cbn [app]. cbn [List.length] in Hl.
        destruct (format_tokens r') as [t'|] eqn:Er; cbn [option_map] in H; [|discriminate H].
        inversion H; subst. rewrite (IH r' t' b); [|lia|exact Er].
        destruct (format_tokens b); reflexivity.
      * destruct (format_tokens r) as [t'|] eqn:Er; cbn [option_map] in H; [|discriminate H].
        inversion H; subst. rewrite (IH r t' b); [|lia|exact Er].
        destruct (format_tokens b); reflexivity.
Qed.
Lemma format_tokens_app : forall a ta b tb,
  format_tokens a = Some ta -> format_tokens b = Some tb -> format_tokens (a ++ b) = Some (ta ++ tb).
Proof.
  intros a ta b tb Ha Hb. rewrite (format_tokens_app_len (List.length a) a ta b (le_n _) Ha), Hb. reflexivity.
Qed.

Lemma format_tokens_double_tilde' : forall t, format_tokens (double_tilde t) = Some (map FChar t).
Proof.
  induction t as [|c t IH]; [reflexivity|].
  change (double_tilde (c :: t)) with ((if c =? 126 then [126; 126] else [c]) ++ double_tilde t).
  destruct (c =? 126) eqn:E.
  - apply N.eqb_eq in E. subst c. cbn [app format_tokens].
    change (126 =? 126) with true. cbv iota. rewrite IH. reflexivity.
  - cbn [app format_tokens]. rewrite E. rewrite IH. reflexivity.
Qed.

Lemma elem_tokens_ok : forall el, format_tokens (elem_text el) = Some (elem_tokens el).
Proof.
  intros [t|f|x]; cbn [elem_text elem_tokens].
  - apply format_tokens_double_tilde'.
  - destruct f; cbn [placeholder]; try reflexivity; destruct (c =? 64); reflexivity.
  - destruct x; try reflexivity.
    cbn [special_text]. apply (format_tokens_double_tilde' [scalar_or_zero n]).
Qed.

(** the tokens of a whole template are the tokens of its elements, in order: no literal text
    combines with what precedes or follows it into a directive *)
Lemma template_tokens : forall fmt,
  format_tokens (template_text fmt) = Some (flat_map elem_tokens fmt).
Proof.
  induction fmt as [|el r IH]; [reflexivity|].
  unfold template_text. cbn [flat_map]. apply format_tokens_app; [apply elem_tokens_ok | exact IH].
Qed.

Lemma template_facts : forall fmt,
  (forall ps, template fmt = COk ps -> flat_map piece_value ps = template_text fmt)
  /\ (forall a b, template_text (a ++ b) = template_text a ++ template_text b)
  /\ (forall t, template_text [ELit t] = double_tilde t /\ elem_tokens (ELit t) = map FChar t)
  /\ (forall f, In (placeholder f) directive_texts)
  /\ format_tokens (template_text fmt) = Some (flat_map elem_tokens fmt).
Proof.
  intros fmt. split; [exact (template_value fmt)|]. split; [exact template_text_app|].
  split; [intros t; split; [apply app_nil_r | reflexivity]|].
  split; [exact placeholder_fixed | exact (template_tokens fmt)].
Qed.
