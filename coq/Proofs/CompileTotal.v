(** The compiler never reaches one of its [unreachable!()] arms on a tree the parser returns. *)
From Coq Require Import List String NArith Bool.
From FP Require Import Model.Chars Model.Ast Model.Sexp Model.Compile Spec.TreeShape.
Import ListNotations.

(** what [compile_expr] tolerates: anything but a precedence marker or a global-option node *)
Inductive compilable : expr -> Prop :=
| CP_test t : compilable (ETest t)
| CP_action a : compilable (EAction a)
| CP_pos : compilable EPositional
| CP_not e : compilable e -> compilable (ENot e)
| CP_and a b : compilable a -> compilable b -> compilable (EAnd a b)
| CP_or a b : compilable a -> compilable b -> compilable (EOr a b)
| CP_list a b : compilable a -> compilable b -> compilable (EList a b).

Lemma parser_tree_compilable e : parser_tree e -> compilable e.
Proof.
  intros H. induction H as [t|a Ha|e He IH|a b Ha IHa Hb IHb|a b Ha IHa Hb IHb|a b Ha IHa Hb IHb].
  - apply CP_test.
  - apply CP_action.
  - apply CP_not. exact IH.
  - apply CP_and; assumption.
  - apply CP_or; assumption.
  - apply CP_list; assumption.
Qed.

Lemma wrap_compilable e : compilable e -> compilable (wrap e).
Proof.
  intros H. unfold wrap. destruct (has_action e); [exact H|]. apply CP_and; [exact H|apply CP_action].
Qed.

Lemma compile_test_no_panic t s site : compile_test t s <> CPanic site.
Proof.
  unfold compile_test. destruct t; cbv zeta; cbn [test_unsupported]; try discriminate;
    try (destruct (tick s) as [now s']; discriminate);
    try (destruct (with_mgr _ s) as [m s']; discriminate).
  destruct (xattr_offending a || xattr_offending b); discriminate.
Qed.

Lemma elem_piece_no_panic el site : elem_piece el <> CPanic site.
Proof.
  destruct el as [l|f|x]; cbn [elem_piece].
  - discriminate.
  - destruct (field_unsupported f); discriminate.
  - destruct x; discriminate.
Qed.

Lemma template_no_panic fmt site : template fmt <> CPanic site.
Proof.
  induction fmt as [|el r IH]; cbn [template]; [discriminate|].
  pose proof (elem_piece_no_panic el) as He. destruct (elem_piece el) as [p|k c|s]; try discriminate.
  - destruct (template r) as [ps|k c|s]; try discriminate. exact IH.
  - exfalso. exact (He s eq_refl).
Qed.

Lemma compile_format_no_panic fmt site : compile_format fmt <> CPanic site.
Proof.
  unfold compile_format. pose proof (template_no_panic fmt) as Ht.
  destruct (template fmt) as [ps|k c|s]; try discriminate.
  - destruct (format_items fmt); discriminate.
  - exfalso. exact (Ht s eq_refl).
Qed.

Lemma compile_action_no_panic a s site : compile_action a s <> CPanic site.
Proof.
  unfold compile_action. destruct a as [f|f|f|f fmt| | | |fmt| | | |]; cbv zeta; try discriminate;
    try (destruct (with_mgr _ s) as [p s']; try discriminate;
         pose proof (compile_format_no_panic fmt) as Hf;
         destruct (compile_format fmt) as [x|k c|m]; try discriminate;
         exfalso; exact (Hf m eq_refl)).
Qed.

Lemma compile_expr_no_panic e : compilable e -> forall s site, compile_expr e s <> CPanic site.
Proof.
  intros H. induction H as [t|a| |e He IH|a b Ha IHa Hb IHb|a b Ha IHa Hb IHb|a b Ha IHa Hb IHb];
    intros s site; cbn [compile_expr].
  - apply compile_test_no_panic.
  - apply compile_action_no_panic.
  - discriminate.
  - pose proof (IH s site) as H1. destruct (compile_expr e s) as [[x s1]|k c|m]; try discriminate.
    exact H1.
  - pose proof (IHa s site) as H1. destruct (compile_expr a s) as [[x s1]|k c|m]; try discriminate.
    + pose proof (IHb s1 site) as H2. destruct (compile_expr b s1) as [[y s2]|k c|m]; try discriminate.
      exact H2.
    + exact H1.
  - pose proof (IHa s site) as H1. destruct (compile_expr a s) as [[x s1]|k c|m]; try discriminate.
    + pose proof (IHb s1 site) as H2. destruct (compile_expr b s1) as [[y s2]|k c|m]; try discriminate.
      exact H2.
    + exact H1.
  - pose proof (IHa s site) as H1. destruct (compile_expr a s) as [[x s1]|k c|m]; try discriminate.
    + pose proof (IHb s1 site) as H2. destruct (compile_expr b s1) as [[y s2]|k c|m]; try discriminate.
      exact H2.
    + exact H1.
Qed.

Theorem compile_no_panic e : parser_tree e -> forall o clk site, compile e o clk <> CPanic site.
Proof.
  intros H o clk site. unfold compile.
  pose proof (compile_expr_no_panic (wrap e) (wrap_compilable e (parser_tree_compilable e H))) as Hc.
  match goal with |- context [compile_expr (wrap e) ?s0] => specialize (Hc s0); destruct (compile_expr (wrap e) s0) as [[body s]|k c|m] end;
    try discriminate.
  exfalso. exact (Hc m eq_refl).
Qed.

(** every outcome of the compiler on such a tree is a program or an error value *)
Corollary compile_total e : parser_tree e -> forall o clk,
  (exists c, compile e o clk = COk c) \/ (exists k n, compile e o clk = CErr k n).
Proof.
  intros H o clk. pose proof (compile_no_panic e H o clk) as Hn.
  destruct (compile e o clk) as [c|k n|m].
  - left. exists c. reflexivity.
  - right. exists k, n. reflexivity.
  - exfalso. exact (Hn m eq_refl).
Qed.
