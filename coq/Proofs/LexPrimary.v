(** Every primary of the vocabulary, written with any gaps and followed by anything that may
    follow it, is read by [parse_token] as exactly the leaf it denotes — whatever other keyword
    is a prefix or an extension of its keyword — and so are the operator words. *)
From Coq Require Import List String Ascii NArith Bool Arith Lia ZifyBool ZifyN.
From FP Require Import Model.Chars Model.Winnow Model.Ast Model.Args Model.Perm Model.Format Model.Lex.
From FP Require Import Spec.Decimal Spec.Numeric Spec.Chmod Spec.PermWord Spec.FormatSpec.
From FP Require Import Spec.Vocabulary Spec.Surface.
From FP Require Import Proofs.WinnowFacts Proofs.Numbers Proofs.PermProofs Proofs.FormatSeg Proofs.LexArgs.
Import ListNotations.
Local Open Scope N_scope.

(** * Failing alternatives *)
Definition isBack {A} (x : out A * str) : bool :=
  match x with (Back _, _) => true | _ => false end.
Definition fails_on {A} (p : sparser A) (i : str) : Prop := isBack (p i) = true.

Lemma fails_inv {A} (p : sparser A) i : fails_on p i -> exists c r, p i = (Back c, r).
Proof.
  unfold fails_on. destruct (p i) as [[a|c|c|s] r]; cbn; try discriminate.
  intros _. exists c, r. reflexivity.
Qed.

Lemma value_fail {A} (a : A) (k : string) i :
  lit_ (chars k) i = None -> fails_on (value a (literal k)) i.
Proof. intros H. unfold fails_on. rewrite value_literal, H. reflexivity. Qed.

Lemma literal_fail (k : string) i : lit_ (chars k) i = None -> literal k i = (Back [], i).
Proof. intros H. unfold literal. rewrite H. reflexivity. Qed.

Lemma unary_fail {A B} id (f : A -> B) (p : sparser A) i :
  lit_ (chars id) i = None -> fails_on (unary id f p) i.
Proof.
  intros H. unfold fails_on, unary, pmap, context, preceded, terminated.
  unfold bind at 1. unfold bind at 1. rewrite (literal_fail id i H). reflexivity.
Qed.
Lemma binary_fail {A B C} id (f : A * B -> C) (pl : sparser A) (pr : sparser B) args i :
  lit_ (chars id) i = None -> fails_on (binary id f pl pr args) i.
Proof.
  intros H. unfold fails_on, binary, pmap, context at 1, preceded at 1, terminated.
  unfold bind at 1. unfold bind at 1. rewrite (literal_fail id i H). reflexivity.
Qed.

Lemma context_fail {A} x (p : sparser A) i : fails_on p i -> fails_on (context x p) i.
Proof.
  intros H. destruct (fails_inv p i H) as [c [r E]]. unfold fails_on, context. rewrite E. reflexivity.
Qed.
Lemma pmap_fail {A B} (f : A -> B) (p : sparser A) i : fails_on p i -> fails_on (pmap f p) i.
Proof.
  intros H. destruct (fails_inv p i H) as [c [r E]]. unfold fails_on, pmap. rewrite E. reflexivity.
Qed.

Lemma alt_skip {A} (p q : sparser A) ps i x :
  fails_on p i -> alt (q :: ps) i = x -> alt (p :: q :: ps) i = x.
Proof.
  intros H Hx. destruct (fails_inv p i H) as [c [r E]]. rewrite alt_cons, E. exact Hx.
Qed.
Lemma alt_fail {A} (ps : list (sparser A)) i :
  Forall (fun p => fails_on p i) ps -> fails_on (alt ps) i.
Proof.
  intros H. induction H as [|p ps Hp _ IH]; [reflexivity|].
  destruct (fails_inv p i Hp) as [c [r E]]. unfold fails_on. rewrite alt_cons, E.
  destruct ps as [|q qs]; [reflexivity|exact IH].
Qed.
Lemma alt_pick {A} (pre : list (sparser A)) p post i a r :
  Forall (fun q => fails_on q i) pre -> p i = (Ok a, r) -> alt (pre ++ p :: post) i = (Ok a, r).
Proof.
  intros H Hp. induction H as [|q pre Hq _ IH]; cbn [app].
  - apply alt_ok. exact Hp.
  - destruct (pre ++ p :: post) as [|x xs] eqn:E; [destruct pre; discriminate|].
    apply alt_skip; assumption.
Qed.

(** * The structure of [parse_token] *)
Definition op_alts : list (sparser token) :=
  [ value KLParen (literal "("); value KRParen (literal ")"); value KNot (literal "!");
    value KComma (literal ",");
    value KOr (terminated (alt [literal "-or"; literal "-o"]) blank_or_eof);
    value KAnd (terminated (alt [literal "-and"; literal "-a"]) blank_or_eof) ].
Definition group_alts : list (sparser token) :=
  [ pmap (fun t => KPrim (LTest t)) parse_test;
    pmap (fun a => KPrim (LAction a)) parse_action;
    pmap (fun g => KPrim (LGlobal g)) parse_global ].

Lemma parse_token_eq :
  parse_token = context (label "syntax")
                  (alt (op_alts ++ [ terminated (alt group_alts) word_end;
                                     context (expected "invalid_token") fail ])).
Proof. reflexivity. Qed.

Lemma token_prim i k r :
  Forall (fun p => fails_on p i) op_alts -> alt group_alts i = (Ok k, r) -> at_word_end r ->
  parse_token i = (Ok k, r).
Proof.
  intros Hops Hk Hr. rewrite parse_token_eq. apply context_ok. apply alt_pick; [exact Hops|].
  unfold terminated, bind, pmap. rewrite Hk. rewrite (word_end_ok r Hr). reflexivity.
Qed.

Lemma group_test i t r : parse_test i = (Ok t, r) -> alt group_alts i = (Ok (KPrim (LTest t)), r).
Proof.
  intros H. unfold group_alts. apply alt_ok. apply (pmap_ok (fun t => KPrim (LTest t))). exact H.
Qed.
Lemma group_action i a r : fails_on parse_test i -> parse_action i = (Ok a, r) ->
  alt group_alts i = (Ok (KPrim (LAction a)), r).
Proof.
  intros Ht H. unfold group_alts. apply alt_skip; [apply pmap_fail; exact Ht|].
  apply alt_ok. apply (pmap_ok (fun a => KPrim (LAction a))). exact H.
Qed.
Lemma group_global i g r : fails_on parse_test i -> fails_on parse_action i ->
  parse_global i = (Ok g, r) -> alt group_alts i = (Ok (KPrim (LGlobal g)), r).
Proof.
  intros Ht Ha H. unfold group_alts. apply alt_skip; [apply pmap_fail; exact Ht|].
  apply alt_skip; [apply pmap_fail; exact Ha|]. cbn [alt]. apply (pmap_ok (fun g => KPrim (LGlobal g))). exact H.
Qed.

(** * Tactics: walk a concrete list of keyword alternatives on an input with a concrete head *)
Ltac lit_none := vm_compute; reflexivity.
Ltac prove_fail :=
  lazymatch goal with
  | |- fails_on (value _ (literal _)) _ => apply value_fail; lit_none
  | |- fails_on (unary _ _ _) _ => apply unary_fail; lit_none
  | |- fails_on (binary _ _ _ _ _) _ => apply binary_fail; lit_none
  | |- fails_on (alt _) _ => apply alt_fail; repeat (apply Forall_cons; [prove_fail|]); apply Forall_nil
  | |- fails_on (context _ _) _ => apply context_fail; prove_fail
  | |- fails_on (pmap _ _) _ => apply pmap_fail; prove_fail
  | |- fails_on _ _ => vm_compute; reflexivity
  end.
(** [pick hit]: skip the failing alternatives of [alt (p :: ...) i = (Ok _, _)] up to the one
    that [hit] proves to succeed *)
Ltac pick hit :=
  lazymatch goal with
  | |- alt (alt _ :: _) _ = _ =>
      first [ apply alt_skip; [prove_fail | pick hit]
            | apply alt_ok; pick hit ]
  | |- alt [_] _ = _ => apply alt_ok; hit
  | |- alt (_ :: _ :: _) _ = _ =>
      first [ apply alt_skip; [prove_fail | pick hit]
            | apply alt_ok; hit ]
  end.

Ltac ops_fail :=
  unfold op_alts; repeat (apply Forall_cons; [vm_compute; reflexivity|]); apply Forall_nil.

Ltac in_test hit := unfold parse_test; apply context_ok; pick hit.
Ltac in_action hit := unfold parse_action; apply context_ok; pick hit.
Ltac in_global hit := unfold parse_global; apply context_ok; pick hit.
Ltac test_fails := unfold parse_test; prove_fail.
Ltac action_fails := unfold parse_action; prove_fail.

(** the token-level goal, according to the class of the leaf *)
Ltac tok_core hit Hend :=
  lazymatch goal with
  | |- parse_token _ = (Ok (KPrim (LTest _)), _) =>
      apply token_prim; [ops_fail | apply group_test; in_test hit | exact Hend]
  | |- parse_token _ = (Ok (KPrim (LAction _)), _) =>
      apply token_prim; [ops_fail | apply group_action; [test_fails | in_action hit] | exact Hend]
  | |- parse_token _ = (Ok (KPrim (LGlobal _)), _) =>
      apply token_prim;
      [ops_fail | apply group_global; [test_fails | action_fails | in_global hit] | exact Hend]
  end.

(** case analysis of a table membership *)
Ltac in_cases H :=
  cbn [In] in H;
  repeat (destruct H as [H|H]; [inversion H; subst; clear H|]); try (destruct H).

(** split a gap / a word end into its possible first characters *)
Lemma gap_cases g : gap g -> exists c g', g = c :: g' /\ (c = 32 \/ c = 9 \/ c = 13 \/ c = 10).
Proof.
  intros [Hne Hb]. destruct g as [|c g']; [congruence|]. exists c, g'. split; [reflexivity|].
  inversion Hb; assumption.
Qed.

(** * Primaries without argument *)
Lemma word_end_cases r : at_word_end r ->
  r = [] \/ exists c r', r = c :: r' /\
    (c = 32 \/ c = 9 \/ c = 13 \/ c = 10 \/ c = 40 \/ c = 41 \/ c = 33 \/ c = 44).
Proof.
  destruct r as [|c r']; [left; reflexivity|]. cbn. unfold Blank, lparen, rparen, bang, comma.
  intros H. right. exists c, r'. split; [reflexivity|]. tauto.
Qed.

Ltac split_end Hend :=
  let c := fresh "c" in let r' := fresh "r'" in let E := fresh "E" in let Hc := fresh "Hc" in
  destruct (word_end_cases _ Hend) as [E|[c [r' [E Hc]]]];
  [ subst | subst; repeat (destruct Hc as [Hc|Hc]; [subst c|]); [..|subst c] ].

Lemma tok_nullary k l rest : In (k, l) nullary_table -> at_word_end rest ->
  parse_token (chars k ++ rest) = (Ok (KPrim l), rest).
Proof.
  intros H Hend. unfold nullary_table in H. in_cases H.
  all: try (tok_core ltac:(apply nullary_ok) Hend).
  (* -print is a prefix of -print0, -printf, -print-file-fid *)
  split_end Hend; tok_core ltac:(apply nullary_ok) Hend.
Qed.

(** * Primaries with arguments *)
Ltac split_gap Hg :=
  let c := fresh "c" in let g' := fresh "g'" in let E := fresh "E" in let Hc := fresh "Hc" in
  destruct (gap_cases _ Hg) as [c [g' [E Hc]]]; subst;
  repeat (destruct Hc as [Hc|Hc]; [subst c|]); [..|subst c].

Ltac unary_hit Hacc Hg Hr := exact (unary_ok _ _ _ _ _ _ _ _ Hacc Hg Hr).
Ltac binary_hit H1 H2 Hg1 Hg2 Hr := exact (binary_ok _ _ _ _ _ _ _ _ _ _ _ _ _ H1 H2 Hg1 Hg2 Hr).

Lemma tok_string k f w v g rest :
  In (k, f) string_table -> WordArg w v -> gap g -> at_arg_end rest ->
  parse_token (chars k ++ g ++ w ++ rest) = (Ok (KPrim (f v)), rest).
Proof.
  intros H Hw Hg Hr. pose proof (string_accepts w v Hw) as Hacc.
  pose proof (at_arg_word_end rest Hr) as Hend.
  unfold string_table in H. in_cases H; cbv beta.
  all: try (tok_core ltac:(unary_hit Hacc Hg Hr) Hend).
  (* -xattr is a prefix of -xattr-match, -fprint of -fprintf and -fprint0 *)
  all: split_gap Hg; tok_core ltac:(unary_hit Hacc Hg Hr) Hend.
Qed.

Lemma tok_count32 k f w c g rest :
  In (k, f) count32_table -> CmpArg (Count (2 ^ 32)) w c -> gap g -> at_word_end rest ->
  parse_token (chars k ++ g ++ w ++ rest) = (Ok (KPrim (f c)), rest).
Proof.
  intros H Hw Hg Hr. pose proof (cmp_count_accepts _ w c Hw) as Hacc.
  unfold count32_table in H. in_cases H; cbv beta.
  all: tok_core ltac:(unary_hit Hacc Hg Hr) Hr.
Qed.

Lemma tok_links w c g rest :
  CmpArg (Count (2 ^ 64)) w c -> gap g -> at_word_end rest ->
  parse_token (chars "-links" ++ g ++ w ++ rest) = (Ok (KPrim (LTest (TLinks c))), rest).
Proof.
  intros Hw Hg Hr. pose proof (cmp_count_accepts _ w c Hw) as Hacc.
  tok_core ltac:(unary_hit Hacc Hg Hr) Hr.
Qed.

Lemma tok_time k u f w c g rest :
  In (k, u, f) time_table -> CmpArg (TimeArg u) w c -> gap g -> at_word_end rest ->
  parse_token (chars k ++ g ++ w ++ rest) = (Ok (KPrim (f c)), rest).
Proof.
  intros H Hw Hg Hr.
  pose proof (cmp_accepts (TimeArg u) (parse_time u) at_word_end w c (time_accepts u) Hw) as Hacc.
  unfold time_table in H. in_cases H; cbv beta.
  all: tok_core ltac:(unary_hit Hacc Hg Hr) Hr.
Qed.

Lemma tok_size w c g rest :
  CmpArg SizeArg w c -> gap g -> at_word_end rest ->
  parse_token (chars "-size" ++ g ++ w ++ rest) = (Ok (KPrim (LTest (TSize c))), rest).
Proof.
  intros Hw Hg Hr.
  pose proof (cmp_accepts SizeArg parse_size at_word_end w c size_accepts Hw) as Hacc.
  tok_core ltac:(unary_hit Hacc Hg Hr) Hr.
Qed.

Lemma tok_type w ts g rest :
  TypeList w ts -> gap g -> at_arg_end rest ->
  parse_token (chars "-type" ++ g ++ w ++ rest) = (Ok (KPrim (LTest (TType ts))), rest).
Proof.
  intros Hw Hg Hr. pose proof (types_accepts w ts Hw) as Hacc.
  pose proof (at_arg_word_end rest Hr) as Hend.
  tok_core ltac:(unary_hit Hacc Hg Hr) Hend.
Qed.

Lemma tok_perm w v k b g rest :
  WordArg w v -> PermArg v k b -> gap g -> at_arg_end rest ->
  parse_token (chars "-perm" ++ g ++ w ++ rest) = (Ok (KPrim (LTest (TPerm k b))), rest).
Proof.
  intros Hw Hp Hg Hr. pose proof (perm_accepts w v k b Hw Hp) as Hacc.
  pose proof (at_arg_word_end rest Hr) as Hend.
  tok_core ltac:(unary_hit Hacc Hg Hr) Hend.
Qed.

Lemma tok_xattr_match w1 v1 w2 v2 g1 g2 rest :
  WordArg w1 v1 -> WordArg w2 v2 -> gap g1 -> gap g2 -> at_arg_end rest ->
  parse_token (chars "-xattr-match" ++ g1 ++ w1 ++ g2 ++ w2 ++ rest)
  = (Ok (KPrim (LTest (TXattrMatch v1 v2))), rest).
Proof.
  intros Hw1 Hw2 Hg1 Hg2 Hr.
  pose proof (ctx_accepts (expected "attribute") _ _ _ _ (string_accepts w1 v1 Hw1)) as H1.
  pose proof (ctx_accepts (expected "value") _ _ _ _ (string_accepts w2 v2 Hw2)) as H2.
  pose proof (at_arg_word_end rest Hr) as Hend.
  tok_core ltac:(binary_hit H1 H2 Hg1 Hg2 Hr) Hend.
Qed.

Lemma tok_printf w v fmt g rest :
  WordArg w v -> Seg v fmt -> gap g -> at_arg_end rest ->
  parse_token (chars "-printf" ++ g ++ w ++ rest) = (Ok (KPrim (LAction (APrintFormatted fmt))), rest).
Proof.
  intros Hw Hs Hg Hr. pose proof (format_accepts w v fmt Hw Hs) as Hacc.
  pose proof (at_arg_word_end rest Hr) as Hend.
  tok_core ltac:(unary_hit Hacc Hg Hr) Hend.
Qed.

Lemma tok_fprintf w1 v1 w2 v2 fmt g1 g2 rest :
  WordArg w1 v1 -> WordArg w2 v2 -> Seg v2 fmt -> gap g1 -> gap g2 -> at_arg_end rest ->
  parse_token (chars "-fprintf" ++ g1 ++ w1 ++ g2 ++ w2 ++ rest)
  = (Ok (KPrim (LAction (AFilePrintFormatted v1 fmt))), rest).
Proof.
  intros Hw1 Hw2 Hs Hg1 Hg2 Hr.
  pose proof (ctx_accepts (expected "filename") _ _ _ _ (string_accepts w1 v1 Hw1)) as H1.
  pose proof (ctx_accepts (expected "format_string") _ _ _ _ (format_accepts w2 v2 fmt Hw2 Hs)) as H2.
  pose proof (at_arg_word_end rest Hr) as Hend.
  tok_core ltac:(binary_hit H1 H2 Hg1 Hg2 Hr) Hend.
Qed.

Lemma tok_threads w n g rest :
  Count (2 ^ 32) w n -> gap g -> at_word_end rest ->
  parse_token (chars "-threads" ++ g ++ w ++ rest) = (Ok (KPrim (LGlobal (GThreads n))), rest).
Proof.
  intros Hw Hg Hr. pose proof (count_accepts _ w n Hw) as Hacc.
  tok_core ltac:(unary_hit Hacc Hg Hr) Hr.
Qed.

(** * The theorem for the whole vocabulary *)
Lemma gaps1 k gaps : gaps_for [k] gaps -> gaps = [].
Proof. intros [Hl _]. destruct gaps as [|g gaps]; [reflexivity|cbn in Hl; lia]. Qed.
Lemma gaps2 k w gaps : gaps_for [k; w] gaps -> exists g, gaps = [g] /\ gap g.
Proof.
  intros [Hl Hg]. destruct gaps as [|g [|g2 gaps]]; cbn in Hl; try lia.
  exists g. split; [reflexivity|]. inversion Hg; assumption.
Qed.
Lemma gaps3 k w1 w2 gaps : gaps_for [k; w1; w2] gaps ->
  exists g1 g2, gaps = [g1; g2] /\ gap g1 /\ gap g2.
Proof.
  intros [Hl Hg]. destruct gaps as [|g1 [|g2 [|g3 gaps]]]; cbn in Hl; try lia.
  exists g1, g2. split; [reflexivity|]. inversion Hg as [|x l H1 H2]; subst.
  inversion H2; subst. split; assumption.
Qed.
Lemma weave2_eq k w g rest : weave [k; w] [g] ++ rest = k ++ g ++ w ++ rest.
Proof. cbn [weave weave_args]. rewrite app_nil_r, <- !app_assoc. reflexivity. Qed.
Lemma weave3_eq k w1 w2 g1 g2 rest :
  weave [k; w1; w2] [g1; g2] ++ rest = k ++ g1 ++ w1 ++ g2 ++ w2 ++ rest.
Proof. cbn [weave weave_args]. rewrite app_nil_r, <- !app_assoc. reflexivity. Qed.

Lemma nullary_closed k l : In (k, l) nullary_table -> self_delimiting l = true.
Proof. intros H. unfold nullary_table in H. in_cases H; reflexivity. Qed.
Lemma string_open k f v : In (k, f) string_table -> self_delimiting (f v) = false.
Proof. intros H. unfold string_table in H. in_cases H; reflexivity. Qed.
Lemma count32_closed k f c : In (k, f) count32_table -> self_delimiting (f c) = true.
Proof. intros H. unfold count32_table in H. in_cases H; reflexivity. Qed.
Lemma time_closed k u f c : In (k, u, f) time_table -> self_delimiting (f c) = true.
Proof. intros H. unfold time_table in H. in_cases H; reflexivity. Qed.

Theorem primary_token ws l : Primary ws l -> forall gaps rest,
  gaps_for ws gaps -> ends_ok l rest ->
  parse_token (weave ws gaps ++ rest) = (Ok (KPrim l), rest).
Proof.
  intros H gaps rest Hg Hr. unfold ends_ok in Hr.
  destruct H as [k l Hin|k f w v Hin Hw|k f w c Hin Hw|w c Hw|k u f w c Hin Hw|w c Hw|w ts Hw
                |w v k b Hw Hp|w1 v1 w2 v2 Hw1 Hw2|w v fmt Hw Hs|w1 v1 w2 v2 fmt Hw1 Hw2 Hs|w n Hw].
  - rewrite (gaps1 _ _ Hg). rewrite (nullary_closed k l Hin) in Hr.
    cbn [weave weave_args]. rewrite app_nil_r. apply tok_nullary; assumption.
  - destruct (gaps2 _ _ _ Hg) as [g [-> Hgap]]. rewrite (string_open k f v Hin) in Hr.
    rewrite weave2_eq. apply tok_string; assumption.
  - destruct (gaps2 _ _ _ Hg) as [g [-> Hgap]]. rewrite (count32_closed k f c Hin) in Hr.
    rewrite weave2_eq. apply tok_count32; assumption.
  - destruct (gaps2 _ _ _ Hg) as [g [-> Hgap]]. cbn in Hr.
    rewrite weave2_eq. apply tok_links; assumption.
  - destruct (gaps2 _ _ _ Hg) as [g [-> Hgap]]. rewrite (time_closed k u f c Hin) in Hr.
    rewrite weave2_eq. apply (tok_time k u); assumption.
  - destruct (gaps2 _ _ _ Hg) as [g [-> Hgap]]. cbn in Hr.
    rewrite weave2_eq. apply tok_size; assumption.
  - destruct (gaps2 _ _ _ Hg) as [g [-> Hgap]]. cbn in Hr.
    rewrite weave2_eq. apply tok_type; assumption.
  - destruct (gaps2 _ _ _ Hg) as [g [-> Hgap]]. cbn in Hr.
    rewrite weave2_eq. apply (tok_perm w v); assumption.
  - destruct (gaps3 _ _ _ _ Hg) as [g1 [g2 [-> [Hg1 Hg2]]]]. cbn in Hr.
    rewrite weave3_eq. apply tok_xattr_match; assumption.
  - destruct (gaps2 _ _ _ Hg) as [g [-> Hgap]]. cbn in Hr.
    rewrite weave2_eq. apply (tok_printf w v); assumption.
  - destruct (gaps3 _ _ _ _ Hg) as [g1 [g2 [-> [Hg1 Hg2]]]]. cbn in Hr.
    rewrite weave3_eq. apply (tok_fprintf w1 v1 w2 v2); assumption.
  - destruct (gaps2 _ _ _ Hg) as [g [-> Hgap]]. cbn in Hr.
    rewrite weave2_eq. apply tok_threads; assumption.
Qed.

(** the text of a primary starts with its keyword, which starts with '-' *)
Lemma primary_head ws l gaps : Primary ws l -> exists t, weave ws gaps = 45 :: t.
Proof.
  intros H.
  destruct H as [k l Hin|k f w v Hin Hw|k f w c Hin Hw|w c Hw|k u f w c Hin Hw|w c Hw|w ts Hw
                |w v k b Hw Hp|w1 v1 w2 v2 Hw1 Hw2|w v fmt Hw Hs|w1 v1 w2 v2 fmt Hw1 Hw2 Hs|w n Hw];
    cbn [weave].
  - unfold nullary_table in Hin. in_cases Hin; eexists; reflexivity.
  - unfold string_table in Hin. in_cases Hin; eexists; reflexivity.
  - unfold count32_table in Hin. in_cases Hin; eexists; reflexivity.
  - eexists; reflexivity.
  - unfold time_table in Hin. in_cases Hin; eexists; reflexivity.
  - eexists; reflexivity.
  - eexists; reflexivity.
  - eexists; reflexivity.
  - eexists; reflexivity.
  - eexists; reflexivity.
  - eexists; reflexivity.
  - eexists; reflexivity.
Qed.

(** * The options, as [parse_global] reads them in the leading run *)
Lemma global_depth rest : parse_global (chars "-depth" ++ rest) = (Ok GDepth, rest).
Proof. in_global ltac:(apply nullary_ok). Qed.
Lemma global_threads w n g rest : Count (2 ^ 32) w n -> gap g -> at_word_end rest ->
  parse_global (chars "-threads" ++ g ++ w ++ rest) = (Ok (GThreads n), rest).
Proof.
  intros Hw Hg Hr. pose proof (count_accepts _ w n Hw) as Hacc.
  in_global ltac:(unary_hit Hacc Hg Hr).
Qed.

Lemma primary_global_aux ws l : Primary ws l -> forall g, l = LGlobal g -> forall gaps rest,
  gaps_for ws gaps -> at_word_end rest ->
  parse_global (weave ws gaps ++ rest) = (Ok g, rest).
Proof.
  intros H.
  destruct H as [k l Hin|k f w v Hin Hw|k f w c Hin Hw|w c Hw|k u f w c Hin Hw|w c Hw|w ts Hw
                |w v k b Hw Hp|w1 v1 w2 v2 Hw1 Hw2|w v fmt Hw Hs|w1 v1 w2 v2 fmt Hw1 Hw2 Hs|w n Hw];
    intros g0 El gaps rest Hg Hr; try discriminate El.
  - subst l. unfold nullary_table in Hin. in_cases Hin.
    rewrite (gaps1 _ _ Hg). cbn [weave weave_args]. rewrite app_nil_r.
    apply global_depth.
  - unfold string_table in Hin. in_cases Hin; discriminate El.
  - unfold count32_table in Hin. in_cases Hin; discriminate El.
  - unfold time_table in Hin. in_cases Hin; discriminate El.
  - injection El as <-. destruct (gaps2 _ _ _ Hg) as [g1 [-> Hgap]].
    rewrite weave2_eq. apply global_threads; assumption.
Qed.
Theorem primary_global ws g : Primary ws (LGlobal g) -> forall gaps rest,
  gaps_for ws gaps -> at_word_end rest ->
  parse_global (weave ws gaps ++ rest) = (Ok g, rest).
Proof. intros H. exact (primary_global_aux ws _ H g eq_refl). Qed.

(** the only options of the vocabulary are -depth and -threads *)
Lemma primary_global_supported_aux ws l : Primary ws l -> forall g, l = LGlobal g ->
  match g with GDepth | GThreads _ => True | _ => False end.
Proof.
  intros H.
  destruct H as [k l Hin|k f w v Hin Hw|k f w c Hin Hw|w c Hw|k u f w c Hin Hw|w c Hw|w ts Hw
                |w v k b Hw Hp|w1 v1 w2 v2 Hw1 Hw2|w v fmt Hw Hs|w1 v1 w2 v2 fmt Hw1 Hw2 Hs|w n Hw];
    intros g0 El; try discriminate El.
  - subst l. unfold nullary_table in Hin. in_cases Hin. exact I.
  - unfold string_table in Hin. in_cases Hin; discriminate El.
  - unfold count32_table in Hin. in_cases Hin; discriminate El.
  - unfold time_table in Hin. in_cases Hin; discriminate El.
  - injection El as <-. exact I.
Qed.
Lemma primary_global_supported ws g : Primary ws (LGlobal g) ->
  match g with GDepth | GThreads _ => True | _ => False end.
Proof. intros H. exact (primary_global_supported_aux ws _ H g eq_refl). Qed.

(** * Operator words *)
Lemma tok_single o i : single_char o = true -> parse_token (op_text o ++ i) = (Ok (op_token o), i).
Proof.
  intros H. rewrite parse_token_eq. apply context_ok. unfold op_alts. cbn [app].
  destruct o; try discriminate H; cbn [op_text op_token]; pick ltac:(apply nullary_ok).
Qed.

(** what follows -a -and -o -or: the end, or blanks and then something that is not a blank *)
Definition after_opword (i more : str) : Prop :=
  (i = [] /\ more = []) \/ (exists b, gap b /\ i = b ++ more /\ stops is_space more).

Lemma blank_or_eof_ok i more : after_opword i more -> blank_or_eof i = (Ok tt, more).
Proof.
  intros [[-> ->]|[b [Hb [-> Hs]]]]; unfold blank_or_eof.
  - reflexivity.
  - apply alt_ok. unfold value, pmap. rewrite (multispace1_gap b more Hb Hs). reflexivity.
Qed.

Lemma kw_alt1 (k1 k2 : string) i : alt [literal k1; literal k2] (chars k1 ++ i) = (Ok tt, i).
Proof. apply alt_ok. apply literal_app. Qed.
Lemma kw_alt2 (k1 k2 : string) i : lit_ (chars k1) (chars k2 ++ i) = None ->
  alt [literal k1; literal k2] (chars k2 ++ i) = (Ok tt, i).
Proof.
  intros H. rewrite alt_cons. rewrite (literal_fail k1 _ H). cbn [alt]. apply literal_app.
Qed.

Lemma opword_long (a : token) (k1 k2 : string) i more : after_opword i more ->
  value a (terminated (alt [literal k1; literal k2]) blank_or_eof) (chars k1 ++ i) = (Ok a, more).
Proof.
  intros H. unfold value, pmap, terminated, bind. rewrite kw_alt1.
  unfold pmap. rewrite (blank_or_eof_ok i more H). reflexivity.
Qed.
Lemma opword_short (a : token) (k1 k2 : string) i more : after_opword i more ->
  lit_ (chars k1) (chars k2 ++ i) = None ->
  value a (terminated (alt [literal k1; literal k2]) blank_or_eof) (chars k2 ++ i) = (Ok a, more).
Proof.
  intros H Hn. unfold value, pmap, terminated, bind. rewrite (kw_alt2 k1 k2 i Hn).
  unfold pmap. rewrite (blank_or_eof_ok i more H). reflexivity.
Qed.

Lemma after_opword_cases i more : after_opword i more ->
  i = [] \/ exists c i', i = c :: i' /\ (c = 32 \/ c = 9 \/ c = 13 \/ c = 10).
Proof.
  intros [[-> _]|[b [Hb [-> _]]]]; [left; reflexivity|right].
  destruct (gap_cases b Hb) as [c [g' [-> Hc]]]. exists c, (g' ++ more). split; [reflexivity|exact Hc].
Qed.

Lemma tok_opword o i more : single_char o = false -> after_opword i more ->
  parse_token (op_text o ++ i) = (Ok (op_token o), more).
Proof.
  intros H Ha. rewrite parse_token_eq. apply context_ok. unfold op_alts. cbn [app].
  destruct o; try discriminate H; cbn [op_text op_token].
  - (* -a *)
    destruct (after_opword_cases i more Ha) as [E|[c [i' [E Hc]]]].
    + subst i. pick ltac:(apply (opword_short KAnd "-and" "-a" [] more Ha); lit_none).
    + subst i. destruct Hc as [Hc|[Hc|[Hc|Hc]]]; subst c;
        pick ltac:(apply (opword_short KAnd "-and" "-a" _ more Ha); lit_none).
  - (* -and *)
    pick ltac:(apply (opword_long KAnd "-and" "-a" i more Ha)).
  - (* -o *)
    destruct (after_opword_cases i more Ha) as [E|[c [i' [E Hc]]]].
    + subst i. pick ltac:(apply (opword_short KOr "-or" "-o" [] more Ha); lit_none).
    + subst i. destruct Hc as [Hc|[Hc|[Hc|Hc]]]; subst c;
        pick ltac:(apply (opword_short KOr "-or" "-o" _ more Ha); lit_none).
  - (* -or *)
    pick ltac:(apply (opword_long KOr "-or" "-o" i more Ha)).
Qed.
