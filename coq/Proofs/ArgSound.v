(** Soundness of the argument parsers with respect to the argument languages of
    Spec/Vocabulary.v: whatever an argument parser of the model accepts is a word of the
    language, consumed exactly.  (The converse direction is Proofs/LexArgs.v.) *)
From Coq Require Import List String NArith Bool Arith Lia ZifyBool ZifyN.
From FP Require Import Model.Chars Model.Winnow Model.Ast Model.Args Model.Perm Model.Format.
From FP Require Import Spec.Decimal Spec.Numeric Spec.Chmod Spec.PermWord Spec.FormatSpec.
From FP Require Import Spec.Vocabulary Spec.Surface Spec.Accepted.
From FP Require Import Proofs.WinnowFacts Proofs.Numbers Proofs.PermProofs Proofs.FormatSeg Proofs.LexArgs.
Import ListNotations.
Local Open Scope N_scope.

(** * Inversion of the combinators on success *)
Section Inv.
Context {I : Type}.

Lemma pmap_inv {A B} (f : A -> B) (p : @parser I A) i b r :
  pmap f p i = (Ok b, r) -> exists a, p i = (Ok a, r) /\ b = f a.
Proof.
  unfold pmap. destruct (p i) as [[a|c|c|s] r0]; intros H; try discriminate H.
  inversion H; subst. exists a. split; reflexivity.
Qed.
Lemma bind_inv {A B} (p : @parser I A) (f : A -> @parser I B) i b r :
  bind p f i = (Ok b, r) -> exists a r1, p i = (Ok a, r1) /\ f a r1 = (Ok b, r).
Proof.
  unfold bind. destruct (p i) as [[a|c|c|s] r0]; intros H; try discriminate H.
  exists a, r0. split; [reflexivity|exact H].
Qed.
Lemma context_inv {A} x (p : @parser I A) i a r : context x p i = (Ok a, r) -> p i = (Ok a, r).
Proof. unfold context. destruct (p i) as [[a0|c|c|s] r0]; intros H; try discriminate H; exact H. Qed.
Lemma cut_err_inv {A} (p : @parser I A) i a r : cut_err p i = (Ok a, r) -> p i = (Ok a, r).
Proof. unfold cut_err. destruct (p i) as [[a0|c|c|s] r0]; intros H; try discriminate H; exact H. Qed.
Lemma try_map_inv {A B} (p : @parser I A) (f : A -> option B) i b r :
  try_map p f i = (Ok b, r) -> exists a, p i = (Ok a, r) /\ f a = Some b.
Proof.
  unfold try_map. destruct (p i) as [[a|c|c|s] r0]; intros H; try discriminate H.
  destruct (f a) as [b0|] eqn:E; [|discriminate H]. inversion H; subst. exists a. split; [reflexivity|exact E].
Qed.
Lemma preceded_inv {A B} (p : @parser I A) (q : @parser I B) i b r :
  preceded p q i = (Ok b, r) -> exists a r1, p i = (Ok a, r1) /\ q r1 = (Ok b, r).
Proof. apply bind_inv. Qed.
Lemma terminated_inv {A B} (p : @parser I A) (q : @parser I B) i a r :
  terminated p q i = (Ok a, r) -> exists r1 b, p i = (Ok a, r1) /\ q r1 = (Ok b, r).
Proof.
  unfold terminated. intros H. apply bind_inv in H. destruct H as (a0 & r1 & Hp & Hq).
  apply pmap_inv in Hq. destruct Hq as (b & Hq & ->). exists r1, b. split; assumption.
Qed.
Lemma pair_inv {A B} (p : @parser I A) (q : @parser I B) i x r :
  pair_ p q i = (Ok x, r) -> exists r1, p i = (Ok (fst x), r1) /\ q r1 = (Ok (snd x), r).
Proof.
  unfold pair_. intros H. apply bind_inv in H. destruct H as (a & r1 & Hp & Hq).
  apply pmap_inv in Hq. destruct Hq as (b & Hq & ->). exists r1. split; assumption.
Qed.
Lemma alt_inv {A} (ps : list (@parser I A)) i a r :
  alt ps i = (Ok a, r) -> exists p, In p ps /\ p i = (Ok a, r).
Proof.
  induction ps as [|p ps IH]; intros H; [discriminate H|].
  rewrite alt_cons in H. destruct (p i) as [[a0|c|c|s] r0] eqn:E; try discriminate H.
  - exists p. split; [left; reflexivity|]. rewrite E. exact H.
  - destruct ps as [|q qs]; [discriminate H|].
    destruct (IH H) as (p' & Hin & Hp). exists p'. split; [right; exact Hin|exact Hp].
Qed.
End Inv.

Lemma and_then_inv {A} (outer : sparser str) (inner : sparser A) i a r :
  and_then outer inner i = (Ok a, r) -> exists o x, outer i = (Ok o, r) /\ inner o = (Ok a, x).
Proof.
  unfold and_then. destruct (outer i) as [[o|c|c|s] r0]; intros H; try discriminate H.
  destruct (inner o) as [[a0|c|c|s] x] eqn:E; try discriminate H.
  inversion H; subst. exists o, x. split; [reflexivity|exact E].
Qed.

(** * Primitives *)
Lemma literal_inv s i u r : literal s i = (Ok u, r) -> i = chars s ++ r.
Proof.
  unfold literal. destruct (lit_ (chars s) i) as [r0|] eqn:E; intros H; [|discriminate H].
  inversion H; subst. apply lit_some. exact E.
Qed.

Lemma span_inv p i a b : span p i = (a, b) -> i = a ++ b /\ forallb p a = true /\ stops p b.
Proof.
  revert a b. induction i as [|c i IH]; intros a b H; cbn [span] in H.
  - inversion H; subst. repeat split.
  - destruct (p c) eqn:E.
    + destruct (span p i) as [a0 b0]. inversion H; subst.
      destruct (IH a0 b eq_refl) as (-> & Ha & Hb). cbn [forallb app]. rewrite E. repeat split; assumption.
    + inversion H; subst. repeat split. exact E.
Qed.

Lemma take_while_inv m p i a r :
  take_while m p i = (Ok a, r) ->
  i = a ++ r /\ forallb p a = true /\ stops p r /\ (m <= List.length a)%nat.
Proof.
  unfold take_while. destruct (span p i) as [a0 b0] eqn:E.
  destruct (Nat.leb m (List.length a0)) eqn:L; intros H; [|discriminate H].
  inversion H; subst. destruct (span_inv _ _ _ _ E) as (Hi & Ha & Hb).
  apply Nat.leb_le in L. repeat split; assumption.
Qed.

Lemma forallb_space_blanks g : forallb is_space g = true -> blanks g.
Proof.
  induction g as [|c g IH]; intros H; [constructor|].
  cbn [forallb] in H. apply andb_true_iff in H. destruct H as [Hc Hg].
  constructor; [apply space_Blank; exact Hc|apply IH; exact Hg].
Qed.

Lemma multispace1_inv i g r : multispace1 i = (Ok g, r) -> i = g ++ r /\ gap g /\ stops is_space r.
Proof.
  intros H. apply take_while_inv in H. destruct H as (Hi & Hg & Hr & Hl).
  split; [exact Hi|]. split; [|exact Hr]. split.
  - intros ->. cbn [List.length] in Hl. lia.
  - apply forallb_space_blanks. exact Hg.
Qed.
Lemma multispace0_inv i g r : multispace0 i = (Ok g, r) -> i = g ++ r /\ blanks g /\ stops is_space r.
Proof.
  intros H. apply take_while_inv in H. destruct H as (Hi & Hg & Hr & _).
  split; [exact Hi|]. split; [apply forallb_space_blanks; exact Hg|exact Hr].
Qed.

Lemma one_of_inv (p : N -> bool) i c r : one_of p i = (Ok c, r) -> i = c :: r /\ p c = true.
Proof.
  unfold one_of. destruct i as [|d i]; intros H; [discriminate H|].
  destruct (p d) eqn:E; [|discriminate H]. inversion H; subst. split; [reflexivity|exact E].
Qed.

Lemma word_end_inv i u r : word_end i = (Ok u, r) -> r = i /\ at_word_end i.
Proof.
  unfold word_end, peek. intros H.
  assert (r = i) as -> by (inversion H; reflexivity). split; [reflexivity|].
  destruct i as [|c t]; [exact I|]. cbn [at_word_end].
  destruct (alt [value tt multispace1; eof; value tt (one_of (in_str "()!,"))] (c :: t))
    as [o r0] eqn:E. cbn [fst] in H. assert (o = Ok u) as -> by (inversion H; reflexivity).
  apply alt_inv in E. destruct E as (p & Hin & Hp). cbn [In] in Hin.
  destruct Hin as [<-|[<-|[<-|[]]]].
  - apply pmap_inv in Hp. destruct Hp as (g & Hg & _). apply take_while_inv in Hg.
    destruct Hg as (Hi & Hg & _ & Hl). destruct g as [|d g]; [cbn [List.length] in Hl; lia|].
    cbn [app] in Hi. inversion Hi; subst d. cbn [forallb] in Hg. apply andb_true_iff in Hg.
    left. apply space_Blank. apply Hg.
  - discriminate Hp.
  - apply pmap_inv in Hp. destruct Hp as (d & Hd & _). apply one_of_inv in Hd.
    destruct Hd as [Hi Hd]. inversion Hi; subst d.
    change (in_str "()!," c) with ((c =? 40) || ((c =? 41) || ((c =? 33) || ((c =? 44) || false)))) in Hd.
    unfold lparen, rparen, bang, comma. right. lia.
Qed.

(** * Strings *)
Lemma until_inv c i a b : until_ c i = Some (a, b) -> ~ In c a /\ exists b', b = c :: b' /\ i = a ++ c :: b'.
Proof.
  revert a b. induction i as [|d i IH]; intros a b H; cbn [until_] in H; [discriminate H|].
  destruct (N.eqb_spec d c) as [E|E].
  - inversion H; subst. split; [intros []|]. exists i. split; reflexivity.
  - destruct (until_ c i) as [[a0 b0]|]; [|discriminate H]. inversion H; subst.
    destruct (IH a0 b eq_refl) as (Hn & b' & -> & ->). split.
    + intros [Hd|Hin]; [congruence|exact (Hn Hin)].
    + exists b'. split; reflexivity.
Qed.
Lemma until_none c i : until_ c i = None -> ~ In c i.
Proof.
  induction i as [|d i IH]; intros H; [intros []|]. cbn [until_] in H.
  destruct (N.eqb_spec d c) as [E|E]; [discriminate H|].
  destruct (until_ c i) as [[a0 b0]|]; [discriminate H|].
  intros [Hd|Hin]; [congruence|exact (IH eq_refl Hin)].
Qed.

Definition quoted (q : N) (s : string) : sparser str := delimited (literal s) (take_until0 q) (literal s).

Lemma quoted_inv q s i v r : chars s = [q] -> quoted q s i = (Ok v, r) -> ~ In q v /\ i = q :: v ++ q :: r.
Proof.
  intros Hs H. unfold quoted, delimited in H.
  apply preceded_inv in H. destruct H as (u & r1 & H1 & H).
  apply terminated_inv in H. destruct H as (r2 & u' & H2 & H3).
  apply literal_inv in H1. apply literal_inv in H3. rewrite Hs in H1, H3. cbn [app] in H1, H3.
  unfold take_until0 in H2. destruct (until_ q r1) as [[a b]|] eqn:E; [|discriminate H2].
  inversion H2; subst a b. apply until_inv in E. destruct E as (Hn & b' & Hb & Hr1).
  rewrite H3 in Hb. inversion Hb; subst b'. split; [exact Hn|]. rewrite H1, Hr1. reflexivity.
Qed.
(** an opening quote that is never closed: the alternative backtracks *)
Lemma quoted_back q s t c r : chars s = [q] -> quoted q s (q :: t) = (Back c, r) -> ~ In q t.
Proof.
  intros Hs H. unfold quoted, delimited, preceded, terminated, bind, pmap in H.
  rewrite (literal1_hit q s t Hs) in H. unfold take_until0 in H.
  destruct (until_ q t) as [[a b]|] eqn:E.
  - apply until_inv in E. destruct E as (_ & b' & -> & _).
    rewrite (literal1_hit q s b' Hs) in H. discriminate H.
  - apply until_none. exact E.
Qed.

Lemma forallb_bare v : forallb bare_char v = true -> Forall BareChar v.
Proof.
  induction v as [|c v IH]; intros H; [constructor|].
  cbn [forallb] in H. apply andb_true_iff in H. destruct H as [Hc Hv].
  constructor; [|apply IH; exact Hv].
  unfold BareChar, Blank, rparen. unfold bare_char in Hc. lia.
Qed.

(** a word as the argument delimiter reads it: a word of the vocabulary, or a stray-quote word *)
Definition word_read (w v r : str) : Prop := WordArg w v \/ (w = v /\ stray_word w r).

Theorem quote_delimiter_sound i v r :
  quote_delimiter i = (Ok v, r) -> exists w, i = w ++ r /\ word_read w v r.
Proof.
  unfold quote_delimiter. fold (quoted 34 """"). fold (quoted 39 "'"). intros H.
  rewrite alt_cons in H. destruct (quoted 34 """" i) as [[a|c1|c1|s] r1] eqn:E1; try discriminate H.
  { inversion H; subst a r1. apply (quoted_inv 34 """" i v r eq_refl) in E1. destruct E1 as [Hn ->].
    exists (dquote :: v ++ [dquote]). split; [unfold dquote; cbn [app]; rewrite <- app_assoc; reflexivity|].
    left. apply W_double. exact Hn. }
  rewrite alt_cons in H. destruct (quoted 39 "'" i) as [[a|c2|c2|s] r2] eqn:E2; try discriminate H.
  { inversion H; subst a r2. apply (quoted_inv 39 "'" i v r eq_refl) in E2. destruct E2 as [Hn ->].
    exists (squote :: v ++ [squote]). split; [unfold squote; cbn [app]; rewrite <- app_assoc; reflexivity|].
    left. apply W_single. exact Hn. }
  cbn [alt] in H. apply take_while_inv in H. destruct H as (-> & Hv & Hr & Hl).
  exists v. split; [reflexivity|].
  destruct v as [|q t]; [cbn [List.length] in Hl; lia|].
  destruct (N.eqb_spec q 34) as [->|N34]; [|destruct (N.eqb_spec q 39) as [->|N39]].
  - right. split; [reflexivity|]. exists 34, t. split; [reflexivity|]. split; [left; reflexivity|].
    cbn [app] in E1. exact (quoted_back 34 """" _ _ _ eq_refl E1).
  - right. split; [reflexivity|]. exists 39, t. split; [reflexivity|]. split; [right; reflexivity|].
    cbn [app] in E2. exact (quoted_back 39 "'" _ _ _ eq_refl E2).
  - left. apply W_bare; [discriminate|apply forallb_bare; exact Hv|].
    cbn [not_starting_with]. unfold Quote, dquote, squote. lia.
Qed.

Theorem parse_string_sound i v r :
  parse_string i = (Ok v, r) -> exists w, i = w ++ r /\ word_read w v r.
Proof. intros H. apply context_inv in H. apply quote_delimiter_sound. exact H. Qed.

(** * Counts, comparisons, sizes, times *)
Lemma count_sound bound i n r :
  parse_uint bound i = (Ok n, r) -> exists w, i = w ++ r /\ Count bound w n.
Proof.
  intros H. apply parse_uint_sound in H. destruct H as (ds & Hi & Hd & Hne & _ & Hv & Hb).
  exists ds. split; [exact Hi|]. unfold Count. repeat split; [exact Hd|exact Hne|symmetry; exact Hv|exact Hb].
Qed.

Lemma cmp_sound {T} (d : sparser T) (Inner : str -> T -> Prop) :
  (forall i v r, d i = (Ok v, r) -> exists w, i = w ++ r /\ Inner w v) ->
  forall i c r, parse_cmp d i = (Ok c, r) -> exists w, i = w ++ r /\ CmpArg Inner w c.
Proof.
  intros Hd i c r H. unfold parse_cmp in H. apply context_inv in H.
  apply alt_inv in H. destruct H as (p & Hin & Hp). cbn [In] in Hin.
  destruct Hin as [<-|[<-|[<-|[]]]]; apply pmap_inv in Hp; destruct Hp as (v & Hp & ->).
  - apply preceded_inv in Hp. destruct Hp as (u & r1 & H1 & H2). apply literal_inv in H1.
    destruct (Hd _ _ _ H2) as (w & -> & Hw). exists (Numeric.prefix_str PPlus ++ w).
    split; [rewrite H1; reflexivity|]. exact (Cmp_arg Inner PPlus w v Hw).
  - apply preceded_inv in Hp. destruct Hp as (u & r1 & H1 & H2). apply literal_inv in H1.
    destruct (Hd _ _ _ H2) as (w & -> & Hw). exists (Numeric.prefix_str PMinus ++ w).
    split; [rewrite H1; reflexivity|]. exact (Cmp_arg Inner PMinus w v Hw).
  - apply cut_err_inv in Hp. destruct (Hd _ _ _ Hp) as (w & -> & Hw).
    exists (Numeric.prefix_str PNone ++ w). split; [reflexivity|]. exact (Cmp_arg Inner PNone w v Hw).
Qed.

Lemma size_sound i v r : parse_size i = (Ok v, r) -> exists w, i = w ++ r /\ SizeArg w v.
Proof.
  destruct v as [u n]. intros H. apply parse_size_sound in H.
  destruct H as (ds & Hd & Hne & Hn & Hb & [Hi|(-> & Hi & _)]).
  - exists (ds ++ [size_letter u]). split; [rewrite <- app_assoc; exact Hi|].
    apply Size_unit. unfold Count. repeat split; [exact Hd|exact Hne|symmetry; exact Hn|exact Hb].
  - exists ds. split; [exact Hi|].
    apply Size_plain. unfold Count. repeat split; [exact Hd|exact Hne|symmetry; exact Hn|exact Hb].
Qed.

Lemma time_sound dflt i v r : parse_time dflt i = (Ok v, r) -> exists w, i = w ++ r /\ TimeArg dflt w v.
Proof.
  destruct v as [u n]. intros H. apply parse_time_sound in H.
  destruct H as (ds & Hd & Hne & Hn & Hb & [Hi|(-> & Hi & _)]).
  - exists (ds ++ [time_letter u]). split; [rewrite <- app_assoc; exact Hi|].
    apply Time_unit. unfold Count. repeat split; [exact Hd|exact Hne|symmetry; exact Hn|exact Hb].
  - exists ds. split; [exact Hi|].
    apply Time_plain. unfold Count. repeat split; [exact Hd|exact Hne|symmetry; exact Hn|exact Hb].
Qed.

(** * Type lists *)
Lemma invalid_spec_never {A} what o (a : A) x : invalid_spec what o <> (Ok a, x).
Proof. unfold invalid_spec, cut_err, context, fail. discriminate. Qed.

Lemma parse_filetype_inv i t r : parse_filetype i = (Ok t, r) -> i = type_letter t :: r.
Proof.
  intros H. unfold parse_filetype in H. apply alt_inv in H. destruct H as (p & Hin & Hp).
  cbn [In] in Hin. destruct Hin as [<-|[<-|[<-|[]]]].
  - apply and_then_inv in Hp. destruct Hp as (o & x & _ & Hp). exfalso. exact (invalid_spec_never _ _ _ _ Hp).
  - apply pmap_inv in Hp. destruct Hp as (c & Hc & ->). apply one_of_inv in Hc. destruct Hc as [-> Hc].
    f_equal.
    change (in_str "bcdpfls" c)
      with ((c =? 98) || ((c =? 99) || ((c =? 100) || ((c =? 112) || ((c =? 102) || ((c =? 108) || ((c =? 115) || false))))))) in Hc.
    assert (c = 98 \/ c = 99 \/ c = 100 \/ c = 112 \/ c = 102 \/ c = 108 \/ c = 115) as Hcases by lia.
    destruct Hcases as [->|[->|[->|[->|[->|[->| ->]]]]]]; reflexivity.
  - apply and_then_inv in Hp. destruct Hp as (o & x & _ & Hp). exfalso. exact (invalid_spec_never _ _ _ _ Hp).
Qed.

Fixpoint types_tail (ts : list filetype) : str :=
  match ts with [] => [] | t :: r => comma :: type_letter t :: types_tail r end.

Lemma typelist_tail ts : forall t, TypeList (type_letter t :: types_tail ts) (t :: ts).
Proof.
  induction ts as [|t' ts IH]; intros t; cbn [types_tail].
  - apply TL_one.
  - apply TL_more. apply IH.
Qed.

Lemma sep_fuel_types_inv : forall fuel i ts r,
  sep_fuel slen fuel parse_filetype (literal ",") i = (Ok ts, r) -> i = types_tail ts ++ r.
Proof.
  induction fuel as [|n IH]; intros i ts r H; cbn [sep_fuel] in H; [discriminate H|].
  destruct (literal "," i) as [[u|c|c|s] r1] eqn:E1; try discriminate H.
  - destruct (Nat.leb (slen i) (slen r1)); [discriminate H|].
    apply literal_inv in E1.
    destruct (parse_filetype r1) as [[t|c|c|s] r2] eqn:E2; try discriminate H.
    + destruct (sep_fuel slen n parse_filetype (literal ",") r2) as [[l|c|c|s] r3] eqn:E3; try discriminate H.
      inversion H; subst ts r3. apply IH in E3. apply parse_filetype_inv in E2.
      rewrite E1, E2, E3. reflexivity.
    + inversion H; subst. reflexivity.
  - inversion H; subst. reflexivity.
Qed.

Theorem filetypes_sound i ts r :
  parse_filetypes i = (Ok ts, r) -> exists w, i = w ++ r /\ TypeList w ts.
Proof.
  unfold parse_filetypes, separated1. intros H.
  destruct (parse_filetype i) as [[t|c|c|s] r1] eqn:E1; try discriminate H.
  destruct (sep_fuel slen (S (slen r1)) parse_filetype (literal ",") r1) as [[l|c|c|s] r2] eqn:E2;
    try discriminate H.
  inversion H; subst ts r2. apply parse_filetype_inv in E1. apply sep_fuel_types_inv in E2.
  exists (type_letter t :: types_tail l). split; [rewrite E1, E2; reflexivity|apply typelist_tail].
Qed.

(** * -perm *)
Lemma who_chars_inv target : forallb (in_str "ugoa") target = true -> exists ws, target = map who_char ws.
Proof.
  induction target as [|c t IH]; intros H; [exists []; reflexivity|].
  cbn [forallb] in H. apply andb_true_iff in H. destruct H as [Hc Ht].
  destruct (IH Ht) as (ws & ->).
  change (in_str "ugoa" c) with ((c =? 117) || ((c =? 103) || ((c =? 111) || ((c =? 97) || false)))) in Hc.
  assert (c = 117 \/ c = 103 \/ c = 111 \/ c = 97) as Hcases by lia.
  destruct Hcases as [->|[->|[->| ->]]].
  - exists (Wu :: ws). reflexivity.
  - exists (Wg :: ws). reflexivity.
  - exists (Wo :: ws). reflexivity.
  - exists (Wa :: ws). reflexivity.
Qed.
Lemma perm_chars_inv level : forallb (in_str "rwx") level = true -> exists ps, level = map perm_char ps.
Proof.
  induction level as [|c t IH]; intros H; [exists []; reflexivity|].
  cbn [forallb] in H. apply andb_true_iff in H. destruct H as [Hc Ht].
  destruct (IH Ht) as (ps & ->).
  change (in_str "rwx" c) with ((c =? 114) || ((c =? 119) || ((c =? 120) || false))) in Hc.
  assert (c = 114 \/ c = 119 \/ c = 120) as Hcases by lia.
  destruct Hcases as [->|[->| ->]].
  - exists (Pr :: ps). reflexivity.
  - exists (Pw :: ps). reflexivity.
  - exists (Px :: ps). reflexivity.
Qed.

Lemma parse_partial_inv i pa r :
  parse_partial i = (Ok pa, r) -> exists c, i = render_clause c ++ r /\ pa = code_partial c.
Proof.
  unfold parse_partial. intros H.
  apply bind_inv in H. destruct H as (target & r1 & H1 & H).
  apply bind_inv in H. destruct H as (op & r2 & H2 & H).
  apply pmap_inv in H. destruct H as (level & H3 & ->).
  apply take_while_inv in H1. destruct H1 as (-> & Ht & _ & Lt).
  apply cut_err_inv, context_inv, one_of_inv in H2. destruct H2 as [-> Hop].
  apply cut_err_inv, context_inv, take_while_inv in H3. destruct H3 as (-> & Hl & _ & Ll).
  destruct (who_chars_inv _ Ht) as (ws & ->). destruct (perm_chars_inv _ Hl) as (ps & ->).
  destruct ws as [|w ws]; [cbn [map List.length] in Lt; lia|].
  destruct ps as [|p ps]; [cbn [map List.length] in Ll; lia|].
  change (in_str "+=-" op) with ((op =? 43) || ((op =? 61) || ((op =? 45) || false))) in Hop.
  assert (op = 43 \/ op = 61 \/ op = 45) as Hcases by lia.
  rewrite from_symbolic_who, from_symbolic_perm.
  destruct Hcases as [->|[->| ->]].
  - exists (Clause w ws OAdd p ps). split; [unfold render_clause; rewrite <- !app_assoc; reflexivity|reflexivity].
  - exists (Clause w ws OSet p ps). split; [unfold render_clause; rewrite <- !app_assoc; reflexivity|reflexivity].
  - exists (Clause w ws ODel p ps). split; [unfold render_clause; rewrite <- !app_assoc; reflexivity|reflexivity].
Qed.

Lemma sep_fuel_partial_inv : forall fuel i v r,
  sep_fuel slen fuel parse_partial (literal ",") i = (Ok v, r) ->
  exists cls, i = tail_render cls ++ r /\ v = map code_partial cls.
Proof.
  induction fuel as [|n IH]; intros i v r H; cbn [sep_fuel] in H; [discriminate H|].
  destruct (literal "," i) as [[u|c|c|s] r1] eqn:E1; try discriminate H.
  - destruct (Nat.leb (slen i) (slen r1)); [discriminate H|].
    apply literal_inv in E1.
    destruct (parse_partial r1) as [[pa|c|c|s] r2] eqn:E2; try discriminate H.
    + destruct (sep_fuel slen n parse_partial (literal ",") r2) as [[l|c|c|s] r3] eqn:E3; try discriminate H.
      inversion H; subst v r3. apply IH in E3. destruct E3 as (cls & -> & ->).
      apply parse_partial_inv in E2. destruct E2 as (c & -> & ->).
      exists (c :: cls). split; [|reflexivity]. rewrite E1. cbn [tail_render app]. rewrite <- app_assoc. reflexivity.
    + inversion H; subst. exists []. split; reflexivity.
  - inversion H; subst. exists []. split; reflexivity.
Qed.

Lemma parse_permission_sound body b :
  parse_permission body = (Ok b, []) ->
  (oct_digits body /\ (3 <= List.length body)%nat /\ pos_value8 body <= 4095 /\ b = pos_value8 body)
  \/ (exists cls, cls <> [] /\ body = render_clauses cls /\ b = code_chmod cls).
Proof.
  intros H. unfold parse_permission in H. apply context_inv in H.
  apply alt_inv in H. destruct H as (p & Hin & Hp). cbn [In] in Hin.
  destruct Hin as [<-|[<-|[<-|[]]]].
  - left. apply try_map_inv in Hp. destruct Hp as (n & Hp & Hn).
    apply try_map_inv in Hp. destruct Hp as (ds & Hp & Hds).
    apply take_while_inv in Hp. destruct Hp as (Hb & Ho & _ & Hl). rewrite app_nil_r in Hb. subst ds.
    cbv beta zeta in Hds. destruct (oct_value body <? two32); [|discriminate Hds].
    inversion Hds; subst n. rewrite oct_value_pos in Hn.
    destruct (pos_value8 body <=? all_bits) eqn:E; [|discriminate Hn]. inversion Hn; subst b.
    unfold all_bits in E. repeat split; [|exact Hl|lia].
    clear - Ho. induction body as [|c body IH]; [constructor|].
    cbn [forallb] in Ho. apply andb_true_iff in Ho. destruct Ho as [Hc Ho].
    constructor; [unfold is_oct in Hc; lia|apply IH; exact Ho].
  - right. apply pmap_inv in Hp. destruct Hp as (v & Hp & ->).
    unfold separated1 in Hp.
    destruct (parse_partial body) as [[pa|c|c|s] r1] eqn:E1; try discriminate Hp.
    destruct (sep_fuel slen (S (slen r1)) parse_partial (literal ",") r1) as [[l|c|c|s] r2] eqn:E2;
      try discriminate Hp.
    inversion Hp; subst v r2. apply parse_partial_inv in E1. destruct E1 as (c & -> & ->).
    apply sep_fuel_partial_inv in E2. destruct E2 as (cls & -> & ->).
    exists (c :: cls). split; [discriminate|]. split.
    + rewrite render_clauses_cons, app_nil_r. reflexivity.
    + change (code_partial c :: map code_partial cls) with (map code_partial (c :: cls)).
      rewrite fold_update_code. reflexivity.
  - apply context_inv in Hp. discriminate Hp.
Qed.

Lemma permcheck_sound w k b :
  parse_permcheck w = (Ok (k, b), []) ->
  exists p body, w = Chmod.prefix_str p ++ body /\ k = kind_of p /\ parse_permission body = (Ok b, []).
Proof.
  intros H.
  assert (forall p body, parse_permcheck w = lift_check (kind_of p) (parse_permission body) ->
          k = kind_of p /\ parse_permission body = (Ok b, [])) as Hgen.
  { intros p body Hw. rewrite Hw in H.
    destruct (parse_permission body) as [[b0|c|c|s] r'] eqn:E; cbn [lift_check] in H; try discriminate H.
    inversion H; subst. split; reflexivity. }
  destruct w as [|c w]; [vm_compute in H; discriminate H|].
  destruct (N.eqb_spec c 47) as [->|N47]; [|destruct (N.eqb_spec c 45) as [->|N45]].
  - destruct (Hgen Slash w (permcheck_slash w)) as [Hk Hp]. exists Slash, w. repeat split; assumption.
  - destruct (Hgen Dash w (permcheck_dash w)) as [Hk Hp]. exists Dash, w. repeat split; assumption.
  - assert (no_prefix_head (c :: w)) as Hh by (unfold no_prefix_head, stops; lia).
    destruct (Hgen NoPrefix (c :: w) (permcheck_none _ Hh)) as [Hk Hp].
    exists NoPrefix, (c :: w). repeat split; assumption.
Qed.

(** the value of a -perm word is in the -perm language of the vocabulary *)
Theorem perm_word_sound v k b r : perm_word v = (Ok (k, b), r) -> r = [] /\ PermArg v k b.
Proof.
  intros H. apply perm_word_inv in H. destruct H as [H ->]. split; [reflexivity|].
  apply permcheck_sound in H. destruct H as (p & body & -> & -> & H).
  apply parse_permission_sound in H. destruct H as [(Ho & Hl & Hv & ->)|(cls & Hne & -> & ->)].
  - apply Perm_octal; assumption.
  - apply Perm_symbolic; assumption.
Qed.

(** a stray-quote word is never a -perm value *)
Lemma perm_not_stray v k b r x : perm_word v = (Ok (k, b), r) -> ~ stray_word v x.
Proof.
  intros H (q & t & Hv & Hq & _). apply perm_word_prefix_inv in H.
  destruct H as (p & c & body & Hw & _ & _ & Hc). rewrite Hv in Hw. clear Hv.
  assert (is_oct q = false /\ in_str "ugoa" q = false /\ q <> 45 /\ q <> 47) as (Q1 & Q2 & Q3 & Q4).
  { destruct Hq as [->| ->]; repeat split; discriminate. }
  destruct p; cbn [Chmod.prefix_str chars app] in Hw; inversion Hw; subst.
  - destruct Hc as [Hc|Hc]; congruence.
  - apply Q3. reflexivity.
  - apply Q4. reflexivity.
Qed.

Theorem perm_arg_sound i k b r :
  parse_perm_arg i = (Ok (k, b), r) -> exists w v, i = w ++ r /\ WordArg w v /\ PermArg v k b.
Proof.
  rewrite parse_perm_arg_is_perm_word. intros H.
  apply and_then_inv in H. destruct H as (v & x & Hq & Hp).
  apply quote_delimiter_sound in Hq. destruct Hq as (w & -> & [Hw|[-> Hs]]).
  - exists w, v. split; [reflexivity|]. split; [exact Hw|]. apply (perm_word_sound v k b x Hp).
  - exfalso. exact (perm_not_stray _ _ _ _ _ Hp Hs).
Qed.

(** * Formats *)
Theorem format_arg_sound i fmt r :
  parse_format_arg i = (Ok fmt, r) -> exists w v, i = w ++ r /\ word_read w v r /\ Seg v fmt.
Proof.
  unfold parse_format_arg. intros H.
  apply and_then_inv in H. destruct H as (v & x & Hq & Hp).
  apply quote_delimiter_sound in Hq. destruct Hq as (w & -> & Hw).
  exists w, v. split; [reflexivity|]. split; [exact Hw|].
  apply parse_format_seg.
  destruct (parse_format_total v) as [(es & He)|(c & r' & He)]; rewrite He in Hp; [|discriminate Hp].
  inversion Hp; subst. exact He.
Qed.
