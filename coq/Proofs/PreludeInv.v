(** The prelude the managers build denotes an environment that agrees with their tables. *)
From Coq Require Import List String NArith Bool Lia ZifyBool ZifyN.
From FP Require Import Model.Chars Model.Ast Model.Sexp Model.Compile
  Spec.FileRecord Spec.SchemeSem Spec.SchemeEnv Spec.SchemePrelude
  Proofs.SemFacts Proofs.MgrEnv Proofs.PreludeNames.
Import ListNotations.
Local Open Scope N_scope.

(** * Extending an environment by a fresh name *)
Definition preserves (e e1 : env) : Prop :=
  forall name v, lookup e name = Some v -> lookup e1 name = Some v.

Lemma preserves_refl : forall e, preserves e e.
Proof. intros e name v H. exact H. Qed.
Lemma preserves_trans : forall a b c, preserves a b -> preserves b c -> preserves a c.
Proof. intros a b c H1 H2 name v H. apply H2, H1, H. Qed.

Lemma preserves_fresh : forall e n k j v,
  keys_ok e n -> n <= j -> k <> KFrame -> preserves e ((idname (kname k) j, v) :: e).
Proof.
  intros e n k j v Hk Hj Hf name v0 H. apply lookup_cons_keep; [exact H|].
  apply (lookup_fresh e n k j Hk Hj Hf).
Qed.

Lemma erase_binding : forall a b, erase (binding a b) = SList [erase a; erase b].
Proof. intros a b. unfold binding. rewrite erase_lst. reflexivity. Qed.

Lemma sem_binding_ident : forall io e k i v ent,
  sem_bound io e (erase v) = Some ent ->
  sem_binding io e (erase (binding (ident (kname k) i) v)) = Some (idname (kname k) i, ent).
Proof.
  intros io e k i v ent H. rewrite erase_binding, erase_ident. cbn [sem_binding]. rewrite H. reflexivity.
Qed.

Lemma target_of_mk : forall d t, target_of d t = mk_target d t.
Proof. intros [|p] t; reflexivity. Qed.

(** * Terminators *)
Definition term_small (t : option N) : Prop := match t with Some c => c < 256 | None => True end.
Definition term_text (t : option N) : str :=
  match t with None => chars "#f" | Some c => chars "#\x" ++ print_hex2 (c mod 256) end.
Lemma erase_terminator : forall t, erase (terminator_escape t) = SAtom (term_text t).
Proof. intros [c|]; reflexivity. Qed.
Lemma term_literal_text : forall t, term_small t -> term_literal (term_text t) = Some t.
Proof.
  intros [c|] H; [|reflexivity]. cbn [term_small] in H.
  unfold term_literal, term_text.
  change (is "#f" (chars "#\x" ++ print_hex2 (c mod 256))) with false. cbn iota.
  rewrite char_literal_hex2. cbn [option_map]. rewrite N.mod_small by exact H. reflexivity.
Qed.

(** * The local manager *)
Definition port_bound (e : env) (n : N) (p : port) (d : dest) : Prop :=
  lookup e (idname (kname KPort) (p_port p)) = Some (EPort d)
  /\ lookup e (idname (kname KMutex) (p_mutex p)) = Some EMutex
  /\ p_port p < n.

Record linv (l : lmgr) (e : env) : Prop := {
  li_defs : sem_defs None [] (map erase (l_vars l)) = Some e;
  li_keys : keys_ok e (l_idx l);
  li_ports : forall p d, port_dest l p d -> port_bound e (l_idx l) p d;
  li_printers : forall p term i d, In ((p, term), i) (l_printers l) -> port_dest l p d ->
      lookup e (idname (kname KPrint) i) = Some (EPrinter (mk_target d term));
  li_printer_ports : forall p term i, In ((p, term), i) (l_printers l) -> p_port p < l_idx l;
  li_matches : forall pat ci i, In ((pat, ci), i) (l_matches l) ->
      lookup e (idname (kname KMatch) i) = Some (EMatcher (is_pattern pat) ci pat) }.

Lemma port_bound_ext : forall e e1 n n1 p d,
  preserves e e1 -> n <= n1 -> port_bound e n p d -> port_bound e1 n1 p d.
Proof.
  intros e e1 n n1 p d Hp Hn (H1 & H2 & H3). split; [apply Hp, H1|]. split; [apply Hp, H2 | lia].
Qed.

Lemma linv_agrees : forall l e, linv l e -> env_agrees e (ML l).
Proof.
  intros l e H. split.
  - intros pat ci i Hin. exact (li_matches l e H pat ci i Hin).
  - intros t i (p & d & term & Hin & Hd & ->). exact (li_printers l e H p term i d Hin Hd).
Qed.

(** a new port with its mutex *)
Lemma new_port_env : forall l e v d,
  linv l e -> sem_bound None e (erase v) = Some (EPort d) ->
  let e1 := (idname (kname KMutex) (l_idx l + 1), EMutex)
            :: (idname (kname KPort) (l_idx l), EPort d) :: e in
  sem_defs None [] (map erase (l_vars l ++ [binding (ident "port" (l_idx l)) v;
                                             binding (ident "mutex" (l_idx l + 1)) (lst [atom "make-mutex"])]))
  = Some e1
  /\ keys_ok e1 (l_idx l + 2) /\ preserves e e1
  /\ port_bound e1 (l_idx l + 2) {| p_port := l_idx l; p_mutex := l_idx l + 1 |} d.
Proof.
  intros l e v d H Hv e1.
  pose proof (li_keys l e H) as Hk.
  assert (Hp0 : preserves e ((idname (kname KPort) (l_idx l), EPort d) :: e))
    by (apply (preserves_fresh e (l_idx l)); [exact Hk | lia | discriminate]).
  assert (Hk0 : keys_ok ((idname (kname KPort) (l_idx l), EPort d) :: e) (l_idx l + 1))
    by (apply keys_ok_cons; [apply (keys_ok_mono e (l_idx l)); [lia | exact Hk] | lia]).
  assert (Hp1 : preserves ((idname (kname KPort) (l_idx l), EPort d) :: e) e1)
    by (apply (preserves_fresh _ (l_idx l + 1)); [exact Hk0 | lia | discriminate]).
  split; [|split; [|split]].
  - rewrite map_app, sem_defs_app, (li_defs l e H). cbn [map sem_defs].
    change (ident "port") with (ident (kname KPort)). change (ident "mutex") with (ident (kname KMutex)).
    rewrite (sem_binding_ident None e KPort (l_idx l) v (EPort d) Hv).
    rewrite (sem_binding_ident None _ KMutex (l_idx l + 1) (lst [atom "make-mutex"]) EMutex eq_refl).
    reflexivity.
  - apply keys_ok_cons; [apply (keys_ok_mono _ (l_idx l + 1)); [lia | exact Hk0] | lia].
  - exact (preserves_trans _ _ _ Hp0 Hp1).
  - split; [|split; [apply lookup_cons_eq | cbn [p_port]; lia]].
    apply Hp1. apply lookup_cons_eq.
Qed.

Lemma l_init_default_port_inv : forall l e p l1,
  linv l e -> l_init_default_port l = (p, l1) ->
  exists e1, linv l1 e1 /\ port_dest l1 p DStdout.
Proof.
  intros l e p l1 H E. unfold l_init_default_port in E. destruct (l_default l) as [p0|] eqn:Ed.
  - inversion E; subst. exists e. split; [exact H | exact Ed].
  - inversion E; subst. clear E.
    destruct (new_port_env l e (lst [atom "current-output-port"]) DStdout H eq_refl)
      as (Hdefs & Hkeys & Hpres & Hnew).
    eexists. split; [|reflexivity]. constructor; cbn [l_vars l_idx l_default l_files l_printers l_matches].
    + exact Hdefs.
    + exact Hkeys.
    + intros p d Hd. destruct d as [|path]; cbn [port_dest l_default l_files] in Hd.
      * injection Hd as <-. exact Hnew.
      * apply (port_bound_ext e _ (l_idx l)); [exact Hpres | lia |].
        apply (li_ports l e H). exact Hd.
    + intros p term i d Hin Hd. destruct d as [|path]; cbn [port_dest l_default l_files] in Hd.
      * injection Hd as <-. pose proof (li_printer_ports l e H _ _ _ Hin) as Hlt.
        cbn [p_port] in Hlt. lia.
      * apply Hpres. exact (li_printers l e H p term i (DFile path) Hin Hd).
    + intros p term i Hin. pose proof (li_printer_ports l e H _ _ _ Hin). lia.
    + intros pat ci i Hin. apply Hpres. exact (li_matches l e H pat ci i Hin).
Qed.

Lemma l_init_file_port_inv : forall f l e p l1,
  linv l e -> l_init_file_port f l = (p, l1) ->
  exists e1, linv l1 e1 /\ port_dest l1 p (DFile f).
Proof.
  intros f l e p l1 H E. unfold l_init_file_port in E.
  destruct (assoc str_eqb f (l_files l)) as [p0|] eqn:Ea.
  - inversion E; subst. exists e. split; [exact H|].
    apply (assoc_in _ _ _ str_eqb_eq _ _ _ Ea).
  - inversion E; subst. clear E.
    assert (Hv : sem_bound None e (erase (lst [atom "open-file"; lstr f; lstr (chars "w")]))
                 = Some (EPort (DFile f))).
    { rewrite erase_lst. cbn [map]. rewrite !erase_lstr. reflexivity. }
    destruct (new_port_env l e _ (DFile f) H Hv) as (Hdefs & Hkeys & Hpres & Hnew).
    eexists. split; [|cbn [port_dest l_files]; apply in_or_app; right; left; reflexivity].
    constructor; cbn [l_vars l_idx l_default l_files l_printers l_matches].
    + exact Hdefs.
    + exact Hkeys.
    + intros p d Hd. destruct d as [|path]; cbn [port_dest l_default l_files] in Hd.
      * apply (port_bound_ext e _ (l_idx l)); [exact Hpres | lia |].
        apply (li_ports l e H p DStdout). exact Hd.
      * apply in_app_or in Hd. destruct Hd as [Hd|[Hd|[]]].
        -- apply (port_bound_ext e _ (l_idx l)); [exact Hpres | lia |].
           apply (li_ports l e H p (DFile path)). exact Hd.
        -- injection Hd as <- <-. exact Hnew.
    + intros p term i d Hin Hd. destruct d as [|path]; cbn [port_dest l_default l_files] in Hd.
      * apply Hpres. exact (li_printers l e H p term i DStdout Hin Hd).
      * apply in_app_or in Hd. destruct Hd as [Hd|[Hd|[]]].
        -- apply Hpres. exact (li_printers l e H p term i (DFile path) Hin Hd).
        -- injection Hd as <- <-. pose proof (li_printer_ports l e H _ _ _ Hin) as Hlt.
           cbn [p_port] in Hlt. lia.
    + intros p term i Hin. pose proof (li_printer_ports l e H _ _ _ Hin). lia.
    + intros pat ci i Hin. apply Hpres. exact (li_matches l e H pat ci i Hin).
Qed.

Lemma l_register_printer_inv : forall p term l e i l1 d0,
  linv l e -> term_small term -> port_dest l p d0 ->
  l_register_printer p term l = (i, l1) ->
  exists e1, linv l1 e1.
Proof.
  intros p term l e i l1 d0 H Hterm Hd0 E. unfold l_register_printer in E.
  destruct (assoc pkey_eqb (p, term) (l_printers l)) as [i0|] eqn:Ea.
  - inversion E; subst. exists e. exact H.
  - injection E as <- <-.
    destruct (li_ports l e H p d0 Hd0) as (Hport & Hmutex & Hlt).
    pose proof (li_keys l e H) as Hk.
    set (e1 := (idname (kname KPrint) (l_idx l), EPrinter (mk_target d0 term)) :: e).
    assert (Hpres : preserves e e1)
      by (apply (preserves_fresh e (l_idx l)); [exact Hk | lia | discriminate]).
    exists e1. constructor; cbn [l_vars l_idx l_default l_files l_printers l_matches].
    + rewrite map_app. cbn [map]. apply sem_defs_snoc; [exact (li_defs l e H)|].
      change (ident "print") with (ident (kname KPrint)). apply sem_binding_ident.
      cbn [erase erase_items]. rewrite !erase_ident, erase_terminator.
      change (erase (atom "make-printer")) with (SAtom (chars "make-printer")).
      change (sem_bound None e (SList [SAtom (chars "make-printer"); SAtom (idname "port" (p_port p));
                                        SAtom (idname "mutex" (p_mutex p)); SAtom (term_text term)]))
        with (match lookup e (idname (kname KPort) (p_port p)),
                    lookup e (idname (kname KMutex) (p_mutex p)), term_literal (term_text term) with
              | Some (EPort d), Some EMutex, Some t => Some (EPrinter (target_of d t))
              | _, _, _ => None
              end).
      rewrite Hport, Hmutex, (term_literal_text term Hterm), target_of_mk. reflexivity.
    + apply keys_ok_cons; [apply (keys_ok_mono e (l_idx l)); [lia | exact Hk] | lia].
    + intros p' d Hd. apply (port_bound_ext e e1 (l_idx l)); [exact Hpres | lia |].
      apply (li_ports l e H). apply (port_dest_same _ l) in Hd; [exact Hd | reflexivity | reflexivity].
    + intros p' term' i d Hin Hd. apply (port_dest_same _ l) in Hd; [|reflexivity|reflexivity].
      apply in_app_or in Hin. destruct Hin as [Hin|[Hin|[]]].
      * apply Hpres. exact (li_printers l e H p' term' i d Hin Hd).
      * injection Hin as <- <- <-.
        destruct (li_ports l e H p d Hd) as (Hport' & _ & _).
        rewrite Hport in Hport'. injection Hport' as <-. apply lookup_cons_eq.
    + intros p' term' i Hin. apply in_app_or in Hin. destruct Hin as [Hin|[Hin|[]]].
      * pose proof (li_printer_ports l e H _ _ _ Hin). lia.
      * injection Hin as <- <- <-. lia.
    + intros pat ci i Hin. apply Hpres. exact (li_matches l e H pat ci i Hin).
Qed.

Lemma matcher_kind_name : forall pat ci,
  matcher_kind (chars (matcher_name pat ci)) = Some (is_pattern pat, ci).
Proof. intros pat ci. unfold matcher_name. destruct (is_pattern pat), ci; reflexivity. Qed.

Lemma sem_matcher_binding : forall io e idx pat ci,
  sem_binding io e (erase (matcher_binding idx pat ci))
  = Some (idname (kname KMatch) (idx + 1), EMatcher (is_pattern pat) ci pat).
Proof.
  intros io e idx pat ci. unfold matcher_binding.
  change (ident "match") with (ident (kname KMatch)). apply sem_binding_ident.
  rewrite erase_lst. cbn [map]. rewrite !erase_lst. cbn [map].
  rewrite !erase_atom, !erase_ident, erase_lstr.
  change (sem_bound io e
            (SList [SAtom (chars "lambda"); SList [SAtom (idname "str" idx)];
                    SList [SAtom (chars (matcher_name pat ci)); SStr pat; SAtom (idname "str" idx)]]))
    with (if str_eqb (idname "str" idx) (idname "str" idx)
          then match matcher_kind (chars (matcher_name pat ci)) with
               | Some (glob, c) => Some (EMatcher glob c pat)
               | None => None
               end
          else None).
  rewrite str_eqb_refl, matcher_kind_name. reflexivity.
Qed.

Lemma l_register_match_inv : forall pat ci l e i l1,
  linv l e -> l_register_match pat ci l = (i, l1) -> exists e1, linv l1 e1.
Proof.
  intros pat ci l e i l1 H E. unfold l_register_match in E.
  destruct (assoc mkey_eqb (pat, ci) (l_matches l)) as [i0|] eqn:Ea.
  - inversion E; subst. exists e. exact H.
  - inversion E; subst. clear E. pose proof (li_keys l e H) as Hk.
    set (e1 := (idname (kname KMatch) (l_idx l + 1), EMatcher (is_pattern pat) ci pat) :: e).
    assert (Hpres : preserves e e1)
      by (apply (preserves_fresh e (l_idx l)); [exact Hk | lia | discriminate]).
    exists e1. constructor; cbn [l_vars l_idx l_default l_files l_printers l_matches].
    + rewrite map_app. cbn [map]. apply sem_defs_snoc; [exact (li_defs l e H)|].
      apply sem_matcher_binding.
    + apply keys_ok_cons; [apply (keys_ok_mono e (l_idx l)); [lia | exact Hk] | lia].
    + intros p' d Hd. apply (port_bound_ext e e1 (l_idx l)); [exact Hpres | lia |].
      apply (li_ports l e H). apply (port_dest_same _ l) in Hd; [exact Hd | reflexivity | reflexivity].
    + intros p' term' i d Hin Hd. apply (port_dest_same _ l) in Hd; [|reflexivity|reflexivity].
      apply Hpres. exact (li_printers l e H p' term' i d Hin Hd).
    + intros p' term' i Hin. pose proof (li_printer_ports l e H _ _ _ Hin). lia.
    + intros pat' ci' i Hin. apply in_app_or in Hin. destruct Hin as [Hin|[Hin|[]]].
      * apply Hpres. exact (li_matches l e H pat' ci' i Hin).
      * injection Hin as <- <- <-. apply lookup_cons_eq.
Qed.

Lemma linv_init : linv lmgr_init [].
Proof.
  constructor; cbn [lmgr_init l_vars l_idx l_default l_files l_printers l_matches].
  - reflexivity.
  - constructor.
  - intros p d Hd. destruct d; cbn [port_dest lmgr_init l_default l_files] in Hd; [discriminate Hd | contradiction].
  - intros p term i d Hin. contradiction.
  - intros p term i Hin. contradiction.
  - intros pat ci i Hin. contradiction.
Qed.

(** * The distributed manager *)
Definition io_ok (io : list (N * target)) (d : dmgr) : Prop :=
  forall t i, In (t, i) (d_printers d) -> assoc N.eqb i io = Some t.

Record dinv (io : list (N * target)) (d : dmgr) (e : env) : Prop := {
  di_defs : sem_defs (Some io) [] (map erase (d_vars d)) = Some e;
  di_keys : keys_ok e (d_idx d);
  di_frame : lookup e (idname (kname KFrame) 2) = Some EFrame;
  di_printers : forall t i, In (t, i) (d_printers d) ->
      lookup e (idname (kname KPrint) i) = Some (EPrinter t);
  di_matches : forall pat ci i, In ((pat, ci), i) (d_matches d) ->
      lookup e (idname (kname KMatch) i) = Some (EMatcher (is_pattern pat) ci pat) }.

Lemma dinv_agrees : forall io d e, dinv io d e -> env_agrees e (MD d).
Proof.
  intros io d e H. split.
  - intros pat ci i Hin. exact (di_matches io d e H pat ci i Hin).
  - intros t i Hin. exact (di_printers io d e H t i Hin).
Qed.

Lemma sem_framed_printer : forall io e n t,
  lookup e (idname (kname KFrame) 2) = Some EFrame -> assoc N.eqb n io = Some t ->
  sem_bound (Some io) e
    (erase (lst [atom "lambda"; lst [atom "line"];
                 lst [ident "frame" 2; atom "line"; LAtom (chars "#\x" ++ print_hex2 n)]]))
  = Some (EPrinter t).
Proof.
  intros io e n t Hf Ha.
  change (sem_bound (Some io) e
            (erase (lst [atom "lambda"; lst [atom "line"];
                         lst [ident "frame" 2; atom "line"; LAtom (chars "#\x" ++ print_hex2 n)]])))
    with (if str_eqb (chars "line") (chars "line")
          then match lookup e (idname (kname KFrame) 2), char_literal (chars "#\x" ++ print_hex2 n) with
               | Some EFrame, Some k => option_map EPrinter (assoc N.eqb k io)
               | _, _ => None
               end
          else None).
  rewrite Hf, char_literal_hex2, Ha. reflexivity.
Qed.

Lemma d_register_printer_inv : forall io t d e i d1,
  dinv io d e -> d_register_printer t d = (i, d1) -> io_ok io d1 -> exists e1, dinv io d1 e1.
Proof.
  intros io t d e i d1 H E Hio. unfold d_register_printer in E.
  destruct (assoc target_eqb t (d_printers d)) as [i0|] eqn:Ea.
  - inversion E; subst. exists e. exact H.
  - injection E as <- <-. pose proof (di_keys io d e H) as Hk.
    set (e1 := (idname (kname KPrint) (d_idx d), EPrinter t) :: e).
    assert (Hpres : preserves e e1)
      by (apply (preserves_fresh e (d_idx d)); [exact Hk | lia | discriminate]).
    assert (Hassoc : assoc N.eqb (d_idx d) io = Some t).
    { apply Hio. cbn [d_printers]. apply in_or_app. right. left. reflexivity. }
    exists e1. constructor; cbn [d_vars d_idx d_printers d_matches].
    + rewrite map_app. cbn [map]. apply sem_defs_snoc; [exact (di_defs io d e H)|].
      change (ident "print") with (ident (kname KPrint)). apply sem_binding_ident.
      apply sem_framed_printer; [exact (di_frame io d e H) | exact Hassoc].
    + apply keys_ok_cons; [apply (keys_ok_mono e (d_idx d)); [lia | exact Hk] | lia].
    + apply Hpres. exact (di_frame io d e H).
    + intros t' i Hin. apply in_app_or in Hin. destruct Hin as [Hin|[Hin|[]]].
      * apply Hpres. exact (di_printers io d e H t' i Hin).
      * injection Hin as <- <-. apply lookup_cons_eq.
    + intros pat ci i Hin. apply Hpres. exact (di_matches io d e H pat ci i Hin).
Qed.

Lemma d_register_match_inv : forall io pat ci d e i d1,
  dinv io d e -> d_register_match pat ci d = (i, d1) -> exists e1, dinv io d1 e1.
Proof.
  intros io pat ci d e i d1 H E. unfold d_register_match in E.
  destruct (assoc mkey_eqb (pat, ci) (d_matches d)) as [i0|] eqn:Ea.
  - inversion E; subst. exists e. exact H.
  - injection E as <- <-. pose proof (di_keys io d e H) as Hk.
    set (e1 := (idname (kname KMatch) (d_idx d + 1), EMatcher (is_pattern pat) ci pat) :: e).
    assert (Hpres : preserves e e1)
      by (apply (preserves_fresh e (d_idx d)); [exact Hk | lia | discriminate]).
    exists e1. constructor; cbn [d_vars d_idx d_printers d_matches].
    + rewrite map_app. cbn [map]. apply sem_defs_snoc; [exact (di_defs io d e H)|].
      apply sem_matcher_binding.
    + apply keys_ok_cons; [apply (keys_ok_mono e (d_idx d)); [lia | exact Hk] | lia].
    + apply Hpres. exact (di_frame io d e H).
    + intros t' i Hin. apply Hpres. exact (di_printers io d e H t' i Hin).
    + intros pat' ci' i Hin. apply in_app_or in Hin. destruct Hin as [Hin|[Hin|[]]].
      * apply Hpres. exact (di_matches io d e H pat' ci' i Hin).
      * injection Hin as <- <- <-. apply lookup_cons_eq.
Qed.

Lemma dinv_init : forall io, exists e, dinv io dmgr_init e.
Proof.
  intros io.
  exists [(idname (kname KFrame) 2, EFrame); (idname (kname KMutex) 1, EMutex);
          (idname (kname KPort) 0, EPort DStdout)].
  constructor; cbn [dmgr_init d_vars d_idx d_printers d_matches].
  - reflexivity.
  - repeat constructor.
    + exists KFrame, 2. split; [reflexivity | right; reflexivity].
    + exists KMutex, 1. split; [reflexivity | left; lia].
    + exists KPort, 0. split; [reflexivity | left; lia].
  - reflexivity.
  - intros t i Hin. contradiction.
  - intros pat ci i Hin. contradiction.
Qed.

(** the io-map the compiler returns routes every tag to its target *)
Definition dwf (d : dmgr) : Prop :=
  NoDup (map snd (d_printers d)) /\ forall t i, In (t, i) (d_printers d) -> i < d_idx d.

Lemma dwf_init : dwf dmgr_init.
Proof. split; [constructor | intros t i Hin; contradiction]. Qed.

Lemma NoDup_snoc : forall (A : Type) (l : list A) x, NoDup l -> ~ In x l -> NoDup (l ++ [x]).
Proof.
  intros A l x Hnd. induction Hnd as [|y l Hy Hl IH]; intros Hx; cbn [app].
  - constructor; [intros []|constructor].
  - constructor.
    + intros Hin. apply in_app_or in Hin. destruct Hin as [Hin|[Hin|[]]]; [contradiction|].
      subst. apply Hx. left. reflexivity.
    + apply IH. intros Hin. apply Hx. right. exact Hin.
Qed.

Lemma d_register_printer_wf : forall t d i d1,
  dwf d -> d_register_printer t d = (i, d1) -> dwf d1.
Proof.
  intros t d i d1 [Hnd Hlt] E. unfold d_register_printer in E.
  destruct (assoc target_eqb t (d_printers d)) as [i0|].
  - inversion E; subst. split; assumption.
  - injection E as <- <-. unfold dwf. cbn [d_printers d_idx]. split.
    + rewrite map_app. cbn [map snd].
      apply NoDup_snoc; [exact Hnd|]. intros Hin. apply in_map_iff in Hin.
      destruct Hin as [[t' i'] [Hi Hin]]. cbn [snd] in Hi. subst i'.
      pose proof (Hlt t' _ Hin). lia.
    + intros t' i' Hin. apply in_app_or in Hin. destruct Hin as [Hin|[Hin|[]]].
      * pose proof (Hlt t' i' Hin). lia.
      * injection Hin as <- <-. lia.
Qed.
