From Coq Require Import List NArith Bool Lia.
From FP Require Import Model.Chars Model.Ast Spec.Tree.
Import ListNotations.

Lemma has_action_iff e : has_action e = true <-> exists a, Subterm (EAction a) e.
Proof.
  split.
  - induction e as [e IH|e IH|a IHa b IHb|a IHa b IHb|a IHa b IHb|t|a|g|]; cbn [has_action]; intro H;
      try discriminate.
    + destruct (IH H) as [x Hx]; exists x; now constructor.
    + destruct (IH H) as [x Hx]; exists x; now constructor.
    + apply orb_true_iff in H as [H|H]; [destruct (IHa H) as [x Hx]|destruct (IHb H) as [x Hx]];
        exists x; [now apply Sub_and_l|now apply Sub_and_r].
    + apply orb_true_iff in H as [H|H]; [destruct (IHa H) as [x Hx]|destruct (IHb H) as [x Hx]];
        exists x; [now apply Sub_or_l|now apply Sub_or_r].
    + apply orb_true_iff in H as [H|H]; [destruct (IHa H) as [x Hx]|destruct (IHb H) as [x Hx]];
        exists x; [now apply Sub_list_l|now apply Sub_list_r].
    + exists a; constructor.
  - intros [x Hx]. induction Hx; cbn [has_action]; try reflexivity; try assumption;
      rewrite ?IHHx, ?orb_true_r; reflexivity.
Qed.

Lemma is_newline_elem_spec el : is_newline_elem el = true <-> el = ESpecial XNewline.
Proof.
  split; [|intros ->; reflexivity].
  destruct el as [s|f|x]; cbn; try discriminate. destruct x; cbn; try discriminate; reflexivity.
Qed.

Lemma action_frames_iff a : action_frames a = true <-> NeedsFrames a.
Proof.
  split.
  - destruct a; cbn [action_frames]; try discriminate; try (intros _; constructor).
    destruct (rev fmt) as [|el r] eqn:E; [discriminate|].
    intro H. apply negb_true_iff in H.
    assert (fmt = rev r ++ [el]) as ->.
    { rewrite <- (rev_involutive fmt), E. reflexivity. }
    constructor. intro Hc. apply is_newline_elem_spec in Hc. congruence.
  - destruct 1; cbn [action_frames]; try reflexivity.
    rewrite rev_app_distr. cbn. apply negb_true_iff.
    destruct (is_newline_elem el) eqn:E; [|reflexivity].
    apply is_newline_elem_spec in E. contradiction.
Qed.

Lemma complex_frames_iff e :
  complex_frames e = true <-> exists a, Subterm (EAction a) e /\ NeedsFrames a.
Proof.
  split.
  - induction e as [e IH|e IH|a IHa b IHb|a IHa b IHb|a IHa b IHb|t|a|g|]; cbn [complex_frames]; intro H;
      try discriminate.
    + destruct (IH H) as [x [Hx Hn]]; exists x; split; [now constructor|assumption].
    + destruct (IH H) as [x [Hx Hn]]; exists x; split; [now constructor|assumption].
    + apply orb_true_iff in H as [H|H]; [destruct (IHa H) as [x [Hx Hn]]|destruct (IHb H) as [x [Hx Hn]]];
        exists x; (split; [|assumption]); [now apply Sub_and_l|now apply Sub_and_r].
    + apply orb_true_iff in H as [H|H]; [destruct (IHa H) as [x [Hx Hn]]|destruct (IHb H) as [x [Hx Hn]]];
        exists x; (split; [|assumption]); [now apply Sub_or_l|now apply Sub_or_r].
    + apply orb_true_iff in H as [H|H]; [destruct (IHa H) as [x [Hx Hn]]|destruct (IHb H) as [x [Hx Hn]]];
        exists x; (split; [|assumption]); [now apply Sub_list_l|now apply Sub_list_r].
    + exists a; split; [constructor|now apply action_frames_iff].
  - intros [x [Hx Hn]]. apply action_frames_iff in Hn.
    remember (EAction x) as s eqn:Es.
    induction Hx; subst; cbn [complex_frames]; try assumption;
      rewrite ?IHHx, ?orb_true_r by reflexivity; reflexivity.
Qed.

Lemma byte_size_exact p u n :
  (n * size_mult u < two64)%N -> byte_size p (Size u n) = Some (n * size_mult u)%N.
Proof.
  intro H. unfold byte_size. apply N.ltb_lt in H. now rewrite H.
Qed.
