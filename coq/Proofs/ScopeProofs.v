(** C11 (scoping): every emitted program passes the checker of Spec/Scope.v. *)
From Coq Require Import List String NArith Bool Lia ZifyBool ZifyN.
From FP Require Import Model.Chars Model.Ast Model.Sexp Model.Compile.
From FP Require Import Spec.Tree Spec.Resources Spec.Scope Spec.Decimal.
From FP Require Import Proofs.Numbers Proofs.RenderFacts Proofs.ManagerInv.
Import ListNotations.
Local Open Scope N_scope.

(** * strings *)
Lemma str_eqb_refl a : str_eqb a a = true.
Proof. now apply str_eqb_eq. Qed.
Lemma in_strs_In a l : in_strs a l = true <-> In a l.
Proof.
  induction l as [|b l IH]; cbn [in_strs In]; [split; [discriminate|contradiction]|].
  rewrite orb_true_iff, IH, str_eqb_eq. split; intros [H|H]; auto.
Qed.
Lemma in_strs_notIn a l : ~ In a l -> in_strs a l = false.
Proof.
  intro H. destruct (in_strs a l) eqn:E; [|reflexivity]. apply in_strs_In in E. contradiction.
Qed.
Lemma nodup_strs_NoDup l : NoDup l -> nodup_strs l = true.
Proof.
  induction 1 as [|a l Hni Hn IH]; cbn [nodup_strs]; [reflexivity|].
  now rewrite (in_strs_notIn _ _ Hni), IH.
Qed.

(** * generated names *)
Definition ident_str (kind : string) (n : N) : str :=
  chars "%lf3:" ++ chars kind ++ [58] ++ print_dec n.
Lemma ident_eq kind n : ident kind n = LAtom (ident_str kind n).
Proof. reflexivity. Qed.
Lemma is_gen_ident k n : is_gen (ident_str k n) = true.
Proof. reflexivity. Qed.
Lemma ident_not_lambda k n : str_eqb (ident_str k n) (chars "lambda") = false.
Proof. reflexivity. Qed.

Definition binder (k : string) : Prop := In k ["port"; "mutex"; "frame"; "print"; "match"]%string.

Lemma ident_tail_inj k k' (t t' : str) :
  binder k -> binder k' ->
  chars "%lf3:" ++ chars k ++ [58] ++ t = chars "%lf3:" ++ chars k' ++ [58] ++ t' ->
  k = k' /\ t = t'.
Proof.
  unfold binder. cbn [In].
  intros [<-|[<-|[<-|[<-|[<-|[]]]]]] [<-|[<-|[<-|[<-|[<-|[]]]]]] H; vm_compute in H;
    try discriminate H; (split; [reflexivity|]); injection H; trivial.
Qed.
Lemma print_dec_inj n n' : print_dec n = print_dec n' -> n = n'.
Proof. intro H. now rewrite <- (print_dec_value n), <- (print_dec_value n'), H. Qed.
Lemma ident_str_inj k k' n n' :
  binder k -> binder k' -> ident_str k n = ident_str k' n' -> k = k' /\ n = n'.
Proof.
  intros Hk Hk' H. destruct (ident_tail_inj _ _ _ _ Hk Hk' H) as [E1 E2].
  split; [assumption|now apply print_dec_inj].
Qed.
Lemma str_not_binder k n j : binder k -> ident_str "str" j <> ident_str k n.
Proof.
  unfold binder, ident_str. cbn [In]. generalize (print_dec j) (print_dec n). intros t t'.
  intros [<-|[<-|[<-|[<-|[<-|[]]]]]] H; vm_compute in H; discriminate H.
Qed.
Arguments ident_str : simpl never.

(** * erasure of the builders *)
Lemma erase_lst l : erase (lst l) = SList (map erase l).
Proof. destruct l as [|x l]; cbn [lst erase erase_items map]; [reflexivity|]. now rewrite erase_items_sep. Qed.
Lemma erase_items_app a b : erase_items (items_app a b) = erase_items a ++ erase_items b.
Proof. induction a as [|ws x r IH]; cbn [items_app erase_items app]; [reflexivity|now rewrite IH]. Qed.
Lemma erase_binding n v : erase (binding n v) = SList [erase n; erase v].
Proof. reflexivity. Qed.

(** * induction on plain S-expressions *)
Section SexpInd.
  Variable P : sexp -> Prop.
  Hypothesis Ha : forall a, P (SAtom a).
  Hypothesis Hs : forall s, P (SStr s).
  Hypothesis Hl : forall l, Forall P l -> P (SList l).
  Fixpoint sexp_ind' (x : sexp) : P x :=
    match x with
    | SAtom a => Ha a
    | SStr s => Hs s
    | SList l =>
        Hl l ((fix go (l : list sexp) : Forall P l :=
                 match l with
                 | [] => Forall_nil P
                 | y :: r => Forall_cons y (sexp_ind' y) (go r)
                 end) l)
    end.
End SexpInd.

(** * code without generated names and without lambda *)
Definition ok (env : list str) (x : sexp) : Prop := uses_ok env x = true /\ lambda_params x = [].

Fixpoint no_gen (x : sexp) : bool :=
  match x with
  | SAtom a => negb (is_gen a) && negb (str_eqb a (chars "lambda"))
  | SStr _ => true
  | SList l => forallb no_gen l
  end.

Lemma lambda_head_atom h r : str_eqb h (chars "lambda") = false -> lambda_head (SAtom h :: r) = None.
Proof. intro H. destruct r as [|[a|s|ps] r]; cbn [lambda_head]; try reflexivity. now rewrite H. Qed.
Lemma lambda_head_list l r : lambda_head (SList l :: r) = None.
Proof. reflexivity. Qed.

Lemma lambda_head_no_gen l : forallb no_gen l = true -> lambda_head l = None.
Proof.
  destruct l as [|[h|s|l0] r]; try reflexivity. cbn [forallb no_gen]. intro H.
  apply andb_true_iff in H as [H _]. apply andb_true_iff in H as [_ H]. apply negb_true_iff in H.
  now apply lambda_head_atom.
Qed.

Lemma ok_list env l : lambda_head l = None -> Forall (ok env) l -> ok env (SList l).
Proof.
  intros Hh Hl. unfold ok. cbn [uses_ok lambda_params]. rewrite Hh. cbn [app]. split.
  - apply forallb_forall. intros x Hx. rewrite Forall_forall in Hl. apply (Hl x Hx).
  - clear Hh. induction Hl as [|x l [_ Hx] _ IH]; cbn [flat_map]; [reflexivity|]. now rewrite Hx, IH.
Qed.

Lemma no_gen_ok env x : no_gen x = true -> ok env x.
Proof.
  induction x as [a|s|l IH] using sexp_ind'; cbn [no_gen]; intro H.
  - apply andb_true_iff in H as [H _]. unfold ok. cbn [uses_ok lambda_params]. now rewrite H.
  - now split.
  - apply ok_list; [now apply lambda_head_no_gen|].
    rewrite forallb_forall in H. rewrite Forall_forall in *. intros x Hx. apply IH; auto.
Qed.

Definition lclean (x : lsexp) : bool := no_gen (erase x).
Lemma forallb_map {A B} (f : B -> bool) (g : A -> B) l : forallb f (map g l) = forallb (fun x => f (g x)) l.
Proof. induction l as [|x l IH]; cbn [map forallb]; [reflexivity|now rewrite IH]. Qed.
Lemma lclean_lst l : lclean (lst l) = forallb lclean l.
Proof. unfold lclean. rewrite erase_lst. cbn [no_gen]. apply forallb_map. Qed.
Lemma lclean_num n : lclean (num n) = true.
Proof.
  unfold lclean, num. cbn [erase no_gen].
  pose proof (print_dec_digits n) as Hd. pose proof (print_dec_nonempty n) as Hn.
  destruct (print_dec n) as [|c r]; [congruence|]. inversion Hd as [|? ? Hc _]; subst.
  unfold digit in Hc. unfold is_gen. change (chars "%lf3:") with (37 :: chars "lf3:").
  change (chars "lambda") with (108 :: chars "ambda"). cbn [is_prefix str_eqb].
  destruct (N.eqb_spec 37 c); [lia|]. destruct (N.eqb_spec c 108); [lia|]. reflexivity.
Qed.
Lemma lclean_str ps : lclean (LStr ps) = true.
Proof. reflexivity. Qed.
Lemma lclean_items_sep sep l : forallb no_gen (erase_items (items_sep sep l)) = forallb lclean l.
Proof. rewrite erase_items_sep. rewrite forallb_map. reflexivity. Qed.

Ltac cl :=
  unfold call0, lstr;
  repeat (rewrite ?lclean_lst, ?lclean_num; cbn [forallb andb]);
  try reflexivity.

Lemma cmp_op_clean {T} (c : cmp T) : lclean (atom (cmp_op c)) = true.
Proof. now destruct c. Qed.
Lemma cmp_field_clean c f : lclean (atom f) = true -> lclean (cmp_field c f) = true.
Proof. intro H. unfold cmp_field. cl. now rewrite cmp_op_clean, H. Qed.
Lemma compile_size_clean c : lclean (compile_size c) = true.
Proof.
  unfold compile_size. destruct (cmp_val c) as [u n]. cl. rewrite cmp_op_clean.
  destruct u; cl.
Qed.
Lemma compile_time_clean now f c : lclean (atom f) = true -> lclean (compile_time now f c) = true.
Proof.
  intro H. unfold compile_time. destruct (cmp_val c) as [u n]. cl. now rewrite cmp_op_clean, H.
Qed.
Lemma type_check_clean t : lclean (type_check t) = true.
Proof. unfold type_check. cl. Qed.
Lemma compile_types_clean l : lclean (compile_types l) = true.
Proof.
  unfold compile_types. destruct l as [|t [|t2 r]]; try reflexivity; [apply type_check_clean|].
  unfold lclean. cbn [erase erase_items no_gen forallb].
  apply andb_true_iff; split; [reflexivity|]. rewrite lclean_items_sep, forallb_map.
  apply forallb_forall. intros x _. apply type_check_clean.
Qed.
Lemma compile_perm_clean k b : lclean (compile_perm k b) = true.
Proof. unfold compile_perm. destruct k; cl. Qed.
Lemma snippet_clean f x : snippet f = Some x -> lclean x = true.
Proof.
  destruct f; cbn [snippet]; intro H; inversion H; subst; try (unfold strftime; cl);
    match goal with |- context [if ?c then _ else _] => destruct c end; unfold strftime; cl.
Qed.
Lemma format_items_clean fmt : forallb lclean (format_items fmt) = true.
Proof.
  induction fmt as [|el r IH]; [reflexivity|]. destruct el as [s|f|x]; cbn [format_items]; try assumption.
  destruct (snippet f) eqn:E; [|assumption]. cbn [forallb]. now rewrite (snippet_clean _ _ E).
Qed.
Lemma compile_format_clean fmt x : compile_format fmt = COk x -> lclean x = true.
Proof.
  unfold compile_format. destruct (template fmt) as [ps| |]; try discriminate.
  pose proof (format_items_clean fmt) as Hc.
  destruct (format_items fmt) as [|i r]; intro H; inversion H; subst; [reflexivity|].
  unfold lclean. cbn [erase erase_items no_gen forallb]. rewrite lclean_items_sep.
  cbn [forallb] in Hc. change (no_gen (erase i)) with (lclean i). rewrite Hc. reflexivity.
Qed.

Lemma some_pair_inv {A B} (a c : A) (b d : B) : Some (a, b) = Some (c, d) -> a = c /\ b = d.
Proof. intro H. now inversion H. Qed.
Lemma some_inv {A} (a c : A) : Some a = Some c -> a = c.
Proof. intro H. now inversion H. Qed.

(** * the body uses only names bound in the tables *)
Section Body.
  Variable m : mgr.
  Variable names : list str.
  Hypothesis Hmatch : forall pat ci i, matcher_index m pat ci = Some i -> In (ident_str "match" i) names.
  Hypothesis Hprint : forall t i, printer_index m t = Some i -> In (ident_str "print" i) names.

  Lemma ok_ident k i : In (ident_str k i) names -> ok names (erase (ident k i)).
  Proof.
    intro H. rewrite ident_eq. unfold ok. cbn [erase uses_ok lambda_params].
    apply in_strs_In in H. rewrite H, orb_true_r. now split.
  Qed.
  Lemma ok_clean x : lclean x = true -> ok names (erase x).
  Proof. apply no_gen_ok. Qed.
  Lemma ok_call h l :
    lclean (atom h) = true -> Forall (fun x => ok names (erase x)) l -> ok names (erase (lst (atom h :: l))).
  Proof.
    intros Hh Hl. rewrite erase_lst. cbn [map]. apply ok_list.
    - apply lambda_head_atom. unfold lclean in Hh. cbn [atom erase no_gen] in Hh.
      apply andb_true_iff in Hh as [_ Hh]. now apply negb_true_iff in Hh.
    - constructor; [now apply ok_clean|]. now apply Forall_map.
  Qed.
  Lemma ok_call_ident k i l :
    In (ident_str k i) names -> Forall (fun x => ok names (erase x)) l ->
    ok names (erase (lst (ident k i :: l))).
  Proof.
    intros Hh Hl. rewrite erase_lst. cbn [map]. apply ok_list.
    - rewrite ident_eq. cbn [erase]. apply lambda_head_atom, ident_not_lambda.
    - constructor; [now apply ok_ident|]. now apply Forall_map.
  Qed.

  Ltac solve_clean :=
    first [ apply cmp_field_clean; reflexivity | apply compile_time_clean; reflexivity
          | apply compile_size_clean | apply compile_types_clean | apply compile_perm_clean | cl ].

  Lemma expected_test_ok t clk x clk' : expected_test m t clk = Some (x, clk') -> ok names (erase x).
  Proof.
    destruct t; cbn [expected_test]; try discriminate;
      try (intro H; inversion H; subst; apply ok_clean; solve_clean; fail);
      try (unfold matcher_ref;
           match goal with |- context [matcher_index m ?p ?b] =>
             destruct (matcher_index m p b) as [i|] eqn:E end; cbn [option_map]; try discriminate;
           intro H; apply some_pair_inv in H as [<- <-]; apply ok_call; [reflexivity|];
           constructor; [apply ok_ident; eapply Hmatch; eassumption|constructor]).
    destruct (xattr_offending a || xattr_offending b); intro H; inversion H; subst; apply ok_clean; cl.
  Qed.

  Lemma expected_action_ok a x : expected_action m a = Some x -> ok names (erase x).
  Proof.
    destruct a; cbn [expected_action action_target]; try discriminate;
      try (intro H; inversion H; subst; apply ok_clean; cl; fail);
      unfold printer_ref;
      match goal with |- context [printer_index m ?t] =>
        destruct (printer_index m t) as [i|] eqn:E end; cbn [option_map]; try discriminate;
      try (intro H; apply some_inv in H as <-; apply ok_call; [reflexivity|];
           constructor; [apply ok_ident; eapply Hprint; eassumption|constructor]).
    - destruct (compile_format fmt) as [f0| |] eqn:Ef; try discriminate.
      intro H; apply some_inv in H as <-. apply ok_call_ident; [eapply Hprint; eassumption|].
      constructor; [|constructor]. apply ok_clean. eapply compile_format_clean; eassumption.
    - destruct (compile_format fmt) as [f0| |] eqn:Ef; try discriminate.
      intro H; apply some_inv in H as <-. apply ok_call_ident; [eapply Hprint; eassumption|].
      constructor; [|constructor]. apply ok_clean. eapply compile_format_clean; eassumption.
    - intro H; apply some_inv in H as <-. apply ok_call_ident; [eapply Hprint; eassumption|].
      constructor; [|constructor]. apply ok_clean. cl.
  Qed.

  Lemma expected_expr_ok e : forall clk x clk',
    expected_expr m e clk = Some (x, clk') -> ok names (erase x).
  Proof.
    induction e as [e IH|e IH|a IHa b IHb|a IHa b IHb|a IHa b IHb|t|a|g|]; cbn [expected_expr];
      intros clk x clk' H; try discriminate.
    - destruct (expected_expr m e clk) as [[y c1]|] eqn:E; try discriminate. apply some_pair_inv in H as [<- <-].
      apply ok_call; [reflexivity|]. constructor; [eapply IH; eassumption|constructor].
    - destruct (expected_expr m a clk) as [[y c1]|] eqn:Ea; try discriminate.
      destruct (expected_expr m b c1) as [[z c2]|] eqn:Eb; try discriminate. apply some_pair_inv in H as [<- <-].
      apply ok_call; [reflexivity|].
      constructor; [eapply IHa; eassumption|constructor; [eapply IHb; eassumption|constructor]].
    - destruct (expected_expr m a clk) as [[y c1]|] eqn:Ea; try discriminate.
      destruct (expected_expr m b c1) as [[z c2]|] eqn:Eb; try discriminate. apply some_pair_inv in H as [<- <-].
      apply ok_call; [reflexivity|].
      constructor; [eapply IHa; eassumption|constructor; [eapply IHb; eassumption|constructor]].
    - destruct (expected_expr m a clk) as [[y c1]|] eqn:Ea; try discriminate.
      destruct (expected_expr m b c1) as [[z c2]|] eqn:Eb; try discriminate. apply some_pair_inv in H as [<- <-].
      apply ok_call; [reflexivity|].
      constructor; [eapply IHa; eassumption|constructor; [eapply IHb; eassumption|constructor]].
    - eapply expected_test_ok; eassumption.
    - destruct (expected_action m a) as [y|] eqn:E; try discriminate. cbn [option_map] in H.
      inversion H; subst. eapply expected_action_ok; eassumption.
  Qed.
End Body.

(** * the scoping invariant of the binding list *)
Definition bname_ok (idx : N) (nm : str) : Prop :=
  exists k n, binder k /\ nm = ident_str k n /\ (n < idx \/ k = "frame"%string).
Definition param_ok (p : str) : Prop := is_gen p = false \/ exists j, p = ident_str "str" j.

Record scinv (idx : N) (vars : list lsexp) (bs : list (str * sexp)) : Prop := {
  sc_split : split_bindings (map erase vars) = Some bs;
  sc_names : Forall (bname_ok idx) (map fst bs);
  sc_nodup : NoDup (map fst bs);
  sc_scoped : scoped_from [] bs = true;
  sc_params : Forall (fun v => Forall param_ok (lambda_params v)) (map snd bs)
}.

Lemma split_bindings_app a b :
  split_bindings (a ++ b) =
  match split_bindings a, split_bindings b with
  | Some x, Some y => Some (x ++ y)
  | _, _ => None
  end.
Proof.
  induction a as [|x a IH]; cbn [app split_bindings].
  - now destruct (split_bindings b).
  - rewrite IH. destruct (binding_parts x); [|reflexivity].
    destruct (split_bindings a); [|reflexivity]. now destruct (split_bindings b).
Qed.
Lemma scoped_from_app e a b :
  scoped_from e (a ++ b) = scoped_from e a && scoped_from (e ++ map fst a) b.
Proof.
  revert e. induction a as [|[n v] a IH]; intro e; cbn [app scoped_from map fst].
  - now rewrite app_nil_r.
  - rewrite IH, <- app_assoc, andb_assoc. reflexivity.
Qed.

Lemma bname_ok_mono idx idx' nm : idx <= idx' -> bname_ok idx nm -> bname_ok idx' nm.
Proof.
  intros Hle (k & n & Hk & -> & Hn). exists k, n. repeat split; try assumption.
  destruct Hn as [Hn|Hn]; [left; lia|now right].
Qed.
Lemma fresh_name idx names k n :
  Forall (bname_ok idx) names -> binder k -> k <> "frame"%string -> idx <= n ->
  ~ In (ident_str k n) names.
Proof.
  intros Hf Hk Hnf Hn Hin. rewrite Forall_forall in Hf.
  destruct (Hf _ Hin) as (k' & n' & Hk' & E & Hb).
  apply ident_str_inj in E as [-> ->]; try assumption. destruct Hb as [Hb|Hb]; [lia|contradiction].
Qed.

Lemma scinv_snoc idx idx' vars bs k n v :
  scinv idx vars bs -> binder k -> k <> "frame"%string -> idx <= n < idx' ->
  uses_ok (map fst bs) (erase v) = true -> Forall param_ok (lambda_params (erase v)) ->
  scinv idx' (vars ++ [binding (ident k n) v]) (bs ++ [(ident_str k n, erase v)]).
Proof.
  intros [Hs Hn Hd Hsc Hp] Hk Hnf Hrange Hu Hpar. constructor.
  - rewrite map_app, split_bindings_app, Hs. reflexivity.
  - rewrite map_app. apply Forall_app. split.
    + eapply Forall_impl; [|exact Hn]. intros a. apply bname_ok_mono. lia.
    + constructor; [|constructor]. exists k, n. repeat split; try assumption. left. lia.
  - rewrite map_app. cbn [map fst]. apply NoDup_snoc; [assumption|].
    eapply fresh_name; try eassumption. lia.
  - rewrite scoped_from_app, Hsc. cbn [app scoped_from]. now rewrite Hu.
  - rewrite map_app. apply Forall_app. split; [assumption|]. constructor; [assumption|constructor].
Qed.

Definition sc_mgr (m : mgr) : Prop := exists bs, scinv (m_idx m) (m_vars m) bs.

Definition bound_in (vars : list lsexp) (nm : str) : Prop := exists v, In (binding (LAtom nm) v) vars.
Lemma bound_in_names vars bs nm :
  split_bindings (map erase vars) = Some bs -> bound_in vars nm -> In nm (map fst bs).
Proof.
  revert bs. induction vars as [|b vars IH]; intros bs Hs [v Hin]; [contradiction|].
  cbn [map split_bindings] in Hs.
  destruct (binding_parts (erase b)) as [[n0 v0]|] eqn:Eb; [|discriminate].
  destruct (split_bindings (map erase vars)) as [ps|] eqn:Ep; [|discriminate].
  inversion Hs; subst bs. cbn [map fst]. destruct Hin as [Hin|Hin].
  - subst b. cbn in Eb. inversion Eb. now left.
  - right. apply IH; [reflexivity|]. now exists v.
Qed.
Lemma bound_in_app vars r nm : bound_in vars nm -> bound_in (vars ++ r) nm.
Proof. intros [v Hv]. exists v. apply in_app_iff. now left. Qed.

Lemma uses_ok_clean env x : lclean x = true -> uses_ok env (erase x) = true.
Proof. intro H. apply (no_gen_ok env) in H. apply H. Qed.
Lemma params_clean x : lclean x = true -> Forall param_ok (lambda_params (erase x)).
Proof. intro H. apply (no_gen_ok []) in H. destruct H as [_ ->]. constructor. Qed.

Lemma in_names_ok names nm : In nm names -> in_strs nm names = true.
Proof. apply in_strs_In. Qed.

Ltac sc_side :=
  first [ solve [unfold binder; cbn [In]; auto 10]
        | discriminate
        | lia
        | solve [apply uses_ok_clean; reflexivity]
        | solve [apply params_clean; reflexivity] ].

(** the values of the six kinds of binding *)
Lemma sc_l_init_default_port l : sc_mgr (ML l) -> sc_mgr (ML (snd (l_init_default_port l))).
Proof.
  unfold l_init_default_port. destruct (l_default l); cbn [snd]; [trivial|].
  intros [bs H]. unfold sc_mgr. cbn [m_idx m_vars l_idx l_vars] in *. eexists.
  change (l_vars l ++ [?a; ?b]) with (l_vars l ++ [a] ++ [b]). rewrite app_assoc.
  eapply (scinv_snoc (l_idx l + 1)); [eapply (scinv_snoc (l_idx l)); [exact H|..]|..]; sc_side.
Qed.

Lemma ok_side names v :
  ok names (erase v) -> uses_ok names (erase v) = true /\ Forall param_ok (lambda_params (erase v)).
Proof. intros [H1 H2]. split; [assumption|]. rewrite H2. constructor. Qed.

Lemma sc_l_init_file_port f l : sc_mgr (ML l) -> sc_mgr (ML (snd (l_init_file_port f l))).
Proof.
  unfold l_init_file_port. destruct (assoc str_eqb f (l_files l)); cbn [snd]; [trivial|].
  intros [bs H]. unfold sc_mgr. cbn [m_idx m_vars l_idx l_vars] in *. eexists.
  change (l_vars l ++ [?a; ?b]) with (l_vars l ++ [a] ++ [b]). rewrite app_assoc.
  eapply (scinv_snoc (l_idx l + 1)); [eapply (scinv_snoc (l_idx l)); [exact H|..]|..]; sc_side.
Qed.

Lemma terminator_clean term : lclean (terminator_escape term) = true.
Proof. destruct term as [c|]; reflexivity. Qed.

Lemma sc_l_register_printer p term l :
  bound_in (l_vars l) (ident_str "port" (p_port p)) ->
  bound_in (l_vars l) (ident_str "mutex" (p_mutex p)) ->
  sc_mgr (ML l) -> sc_mgr (ML (snd (l_register_printer p term l))).
Proof.
  intros Hp Hm. unfold l_register_printer. destruct (assoc pkey_eqb (p, term) (l_printers l)); cbn [snd]; [trivial|].
  intros [bs H]. unfold sc_mgr. cbn [m_idx m_vars l_idx l_vars] in *. eexists.
  assert (Hok : ok (map fst bs) (erase (lst [atom "make-printer"; ident "port" (p_port p);
                                             ident "mutex" (p_mutex p); terminator_escape term]))).
  { apply ok_call; [reflexivity|]. constructor; [|constructor; [|constructor; [|constructor]]].
    - apply ok_ident. eapply bound_in_names; [apply H|exact Hp].
    - apply ok_ident. eapply bound_in_names; [apply H|exact Hm].
    - apply ok_clean, terminator_clean. }
  apply ok_side in Hok as [Hu Hpar].
  eapply (scinv_snoc (l_idx l)); [exact H|..]; try assumption; sc_side.
Qed.

Arguments is_gen : simpl never.

Lemma matcher_value_ok names idx pat ci :
  let v := lst [atom "lambda"; lst [ident "str" idx];
                lst [atom (matcher_name pat ci); lstr pat; ident "str" idx]] in
  uses_ok names (erase v) = true /\ lambda_params (erase v) = [ident_str "str" idx].
Proof.
  cbn zeta. rewrite !ident_eq. unfold matcher_name.
  destruct (is_pattern pat), ci; cbn; rewrite is_gen_ident, str_eqb_refl; split; reflexivity.
Qed.

Lemma sc_register_match idx vars bs pat ci :
  scinv idx vars bs -> exists bs', scinv (idx + 2) (vars ++ [matcher_binding idx pat ci]) bs'.
Proof.
  intro H. destruct (matcher_value_ok (map fst bs) idx pat ci) as [Hu Hp]. cbn zeta in Hu, Hp.
  eexists. unfold matcher_binding.
  eapply (scinv_snoc idx); [exact H|..]; try exact Hu; try sc_side.
  rewrite Hp. constructor; [|constructor]. right. now exists idx.
Qed.
Lemma sc_l_register_match pat ci l : sc_mgr (ML l) -> sc_mgr (ML (snd (l_register_match pat ci l))).
Proof.
  unfold l_register_match. destruct (assoc mkey_eqb (pat, ci) (l_matches l)); cbn [snd]; [trivial|].
  intros [bs H]. unfold sc_mgr. cbn [m_idx m_vars l_idx l_vars] in *. eapply sc_register_match, H.
Qed.
Lemma sc_d_register_match pat ci d : sc_mgr (MD d) -> sc_mgr (MD (snd (d_register_match pat ci d))).
Proof.
  unfold d_register_match. destruct (assoc mkey_eqb (pat, ci) (d_matches d)); cbn [snd]; [trivial|].
  intros [bs H]. unfold sc_mgr. cbn [m_idx m_vars d_idx d_vars] in *. eapply sc_register_match, H.
Qed.

Lemma framed_value_ok names i :
  In (ident_str "frame" 2) names ->
  let v := lst [atom "lambda"; lst [atom "line"];
                lst [ident "frame" 2; atom "line"; LAtom (chars "#\x" ++ print_hex2 i)]] in
  uses_ok names (erase v) = true /\ lambda_params (erase v) = [chars "line"].
Proof.
  intro Hin. apply in_strs_In in Hin. cbn zeta. rewrite !ident_eq. generalize (print_hex2 i). intro h.
  cbn. rewrite Hin, !orb_true_r. split; reflexivity.
Qed.
Lemma sc_d_register_printer t d :
  bound_in (d_vars d) (ident_str "frame" 2) ->
  sc_mgr (MD d) -> sc_mgr (MD (snd (d_register_printer t d))).
Proof.
  intro Hf. unfold d_register_printer. destruct (assoc target_eqb t (d_printers d)); cbn [snd]; [trivial|].
  intros [bs H]. unfold sc_mgr. cbn [m_idx m_vars d_idx d_vars] in *.
  destruct (framed_value_ok (map fst bs) (d_idx d)) as [Hu Hp].
  { eapply bound_in_names; [apply H|exact Hf]. }
  cbn zeta in Hu, Hp. eexists.
  eapply (scinv_snoc (d_idx d)); [exact H|..]; try exact Hu; try sc_side.
  rewrite Hp. constructor; [|constructor]. now left.
Qed.

Lemma serve_sc r m : minv m -> sc_mgr m -> sc_mgr (snd (serve r m)).
Proof.
  rewrite serve_snd. destruct r as [pat ci|[term|f term]], m as [l|d]; cbn [minv]; intros Hi Hs.
  - now apply sc_l_register_match.
  - now apply sc_d_register_match.
  - pose proof (l_init_default_port_inv _ Hi) as Hi1.
    destruct (li_d_bind _ Hi1 _ (l_init_default_port_default l)) as [Hp Hm].
    apply sc_l_register_printer; [eexists; exact Hp|eexists; exact Hm|now apply sc_l_init_default_port].
  - apply sc_d_register_printer; [|assumption]. eexists.
    apply (prefix_In _ _ _ (di_prefix _ Hi)). cbn. right. right. left. reflexivity.
  - pose proof (l_init_file_port_inv f _ Hi) as Hi1.
    pose proof (assoc_In _ str_eqb_eq _ _ _ (l_init_file_port_assoc f l)) as Hin.
    destruct (li_f_bind _ Hi1 _ _ Hin) as [Hp Hm].
    apply sc_l_register_printer; [eexists; exact Hp|eexists; exact Hm|now apply sc_l_init_file_port].
  - apply sc_d_register_printer; [|assumption]. eexists.
    apply (prefix_In _ _ _ (di_prefix _ Hi)). cbn. right. right. left. reflexivity.
Qed.
Lemma run_sc rs : forall m, minv m -> sc_mgr m -> sc_mgr (run rs m).
Proof.
  induction rs as [|r rs IH]; intros m Hi Hs; cbn [run fold_left]; [exact Hs|].
  apply IH; [now apply serve_inv|now apply serve_sc].
Qed.

Lemma sc_lmgr_init : sc_mgr (ML lmgr_init).
Proof. exists []. constructor; cbn; try reflexivity; constructor. Qed.
Lemma sc_dmgr_init : sc_mgr (MD dmgr_init).
Proof.
  exists [(ident_str "port" 0, erase (lst [atom "current-output-port"]));
          (ident_str "mutex" 1, erase (lst [atom "make-mutex"]));
          (ident_str "frame" 2, erase frame_proc)].
  constructor; cbn [m_idx m_vars dmgr_init d_idx d_vars map fst snd].
  - reflexivity.
  - constructor; [|constructor; [|constructor; [|constructor]]].
    + exists "port"%string, 0. unfold binder; cbn [In]. repeat split; auto. left; lia.
    + exists "mutex"%string, 1. unfold binder; cbn [In]. repeat split; auto. left; lia.
    + exists "frame"%string, 2. unfold binder; cbn [In]. repeat split; auto 10.
  - assert (Hb : forall k, In k ["port"; "mutex"; "frame"]%string -> binder k).
    { unfold binder. cbn [In]. intuition. }
    constructor; [|constructor; [|constructor; [|constructor]]]; cbn [In].
    + intros [H|[H|[]]]; apply ident_str_inj in H as [H _]; try discriminate; apply Hb; cbn; auto.
    + intros [H|[]]; apply ident_str_inj in H as [H _]; try discriminate; apply Hb; cbn; auto.
    + intros [].
  - vm_compute. reflexivity.
  - repeat (constructor; [vm_compute; repeat constructor|]). constructor.
Qed.
Lemma sc_init_mgr e : sc_mgr (init_mgr e).
Proof. unfold init_mgr. destruct (complex_frames e); [apply sc_dmgr_init|apply sc_lmgr_init]. Qed.

(** references through the tables are bound names *)
Lemma match_bound m bs :
  minv m -> split_bindings (map erase (m_vars m)) = Some bs ->
  forall pat ci i, matcher_index m pat ci = Some i -> In (ident_str "match" i) (map fst bs).
Proof.
  intros Hi Hs pat ci i H. destruct (sharing m Hi) as (_ & _ & Hiff & _). apply Hiff in H.
  eapply bound_in_names; [exact Hs|].
  exists (lst [atom "lambda"; lst [ident "str" (i - 1)];
               lst [atom (matcher_name pat ci); lstr pat; ident "str" (i - 1)]]).
  destruct m as [l|d]; cbn [minv m_matches m_vars] in *.
  - pose proof (li_m_bound _ Hi _ _ H) as Hb. pose proof (li_m_bind _ Hi _ _ _ H) as Hin.
    unfold matcher_binding in Hin. replace (i - 1 + 1) with i in Hin by lia. exact Hin.
  - pose proof (di_m_bound _ Hi _ _ H) as Hb. pose proof (di_m_bind _ Hi _ _ _ H) as Hin.
    unfold matcher_binding in Hin. replace (i - 1 + 1) with i in Hin by lia. exact Hin.
Qed.
Lemma print_bound m bs :
  minv m -> split_bindings (map erase (m_vars m)) = Some bs ->
  forall t i, printer_index m t = Some i -> In (ident_str "print" i) (map fst bs).
Proof.
  intros Hi Hs t i H. eapply bound_in_names; [exact Hs|].
  destruct m as [l|d]; cbn [minv m_vars printer_index] in *.
  - destruct (l_printer_key l t) as [[p term]|]; [|discriminate].
    apply (assoc_In _ pkey_eqb_eq) in H. eexists. exact (li_p_bind _ Hi _ _ _ H).
  - apply (assoc_In _ target_eqb_eq) in H. eexists. exact (di_p_bind _ Hi _ _ H).
Qed.

Theorem scoped e o clk c :
  compile e o clk = COk c -> well_scoped (map erase (c_defs c)) (erase (c_body c)) = true.
Proof.
  intro H. destruct (reaches _ _ _ _ H) as (m & Hm & Hd & Hb).
  pose proof (final_mgr_inv _ _ _ Hm) as Hi.
  assert (Hs : sc_mgr m).
  { rewrite (final_mgr_run _ _ _ Hm). apply run_sc; [apply init_mgr_inv|apply sc_init_mgr]. }
  destruct Hs as [bs [Hsp Hn Hnd Hsc Hp]].
  unfold expected_body in Hb.
  destruct (expected_expr m (wrap e) clk) as [[x clk']|] eqn:E; [|discriminate].
  cbn [option_map fst] in Hb. apply some_inv in Hb. subst x.
  destruct (expected_expr_ok m (map fst bs) (match_bound m bs Hi Hsp) (print_bound m bs Hi Hsp) _ _ _ _ E)
    as [Hu Hl].
  unfold well_scoped. rewrite Hd, Hsp.
  assert (Hgen : forallb is_gen (map fst bs) = true).
  { apply forallb_forall. intros a Ha. rewrite Forall_forall in Hn.
    destruct (Hn a Ha) as (k & n & _ & -> & _). apply is_gen_ident. }
  assert (Hfresh : forallb (fresh_params (map fst bs)) (map snd bs) = true).
  { apply forallb_forall. intros v Hv. rewrite Forall_forall in Hp. specialize (Hp v Hv).
    unfold fresh_params. apply forallb_forall. intros p Hpin. rewrite Forall_forall in Hp.
    destruct (Hp p Hpin) as [Hng|[j ->]]; [now rewrite Hng|].
    rewrite in_strs_notIn; [now rewrite orb_true_r|].
    intro Hin. rewrite Forall_forall in Hn. destruct (Hn _ Hin) as (k & n & Hk & Heq & _).
    exact (str_not_binder _ _ _ Hk Heq). }
  rewrite Hgen, (nodup_strs_NoDup _ Hnd), Hsc, Hu. cbn [forallb]. rewrite Hfresh.
  unfold fresh_params. rewrite Hl. reflexivity.
Qed.
