(** One equation for all forty argument-taking primaries: what [parse_token] returns on
    "keyword rest" in terms of what the keyword's own argument parser (Spec/Messages.v,
    [arg_table]) returns on the text after the blanks. *)
From Coq Require Import List String NArith Bool Arith Lia.
From FP Require Import Model.Chars Model.Winnow Model.Ast Model.Args Model.Perm Model.Format Model.Lex.
From FP Require Import Spec.Messages Proofs.WinnowFacts Proofs.WinnowTotal Proofs.Dispatch.
Import ListNotations.
Local Open Scope N_scope.

Definition kind_label (k : kind) : string :=
  match k with KTest => "test" | KAction => "action" | KOption => "global_option" end.

(** the context a binary! primary adds when nothing follows the keyword *)
Definition missing_ctx (l : arglang) : list ctx :=
  match l with
  | LTwoStrings => [Expected "attribute_and_value"]
  | LFileFormat => [Expected "filename_and_format"]
  | _ => []
  end.

Definition primary_ctx (K : string) (k : kind) : list ctx :=
  [Label K; Label (kind_label k); Label "syntax"].

(** [res] is what the token parser returns on [K ++ rest], described through the argument
    parser [p] of [K] *)
Definition token_view (K : string) (k : kind) (l : arglang) (p : sparser unit) (rest : str)
  (res : out token * str) : Prop :=
  if head_in is_space rest then
    match p (skip_blanks rest) with
    | (Ok _, r2) => if at_word_end r2 then exists t, res = (Ok t, r2)
                    else res = (Back invalid_token_error, chars K ++ rest)
    | (Back c, r2) | (Cut c, r2) => res = (Cut (c ++ primary_ctx K k), r2)
    | (Panic s, r2) => res = (Panic s, r2)
    end
  else res = (Cut (missing_ctx l ++ primary_ctx K k), rest).

Lemma view_of_unary n K k l X (w : X -> token) A (f : A -> X) (p : sparser A) rest :
  nth_error all_table n = Some (K, lift (kind_label k) w (unary K f p)) ->
  forallb (misses (chars K ++ rest)) (firstn n (map fst all_table)) = true ->
  no_operator (chars K ++ rest) = true -> at_word_end rest = true -> missing_ctx l = [] ->
  token_view K k l (erased p) rest (parse_token (chars K ++ rest)).
Proof.
  intros Hn Hm Hop Hwe Hl.
  rewrite (token_unary n K (kind_label k) X w A f p rest Hn Hm Hop Hwe).
  unfold token_view, erased, value, pmap, primary_ctx. rewrite Hl.
  destruct (head_in is_space rest); [|reflexivity].
  unfold on_err. destruct (p (skip_blanks rest)) as [[a|c|c|s] r2]; try reflexivity.
  destruct (at_word_end r2); [eexists; reflexivity|reflexivity].
Qed.

Lemma view_of_binary n K k l X (w : X -> token) A B (f : A * B -> X) pl pr args rest :
  nth_error all_table n = Some (K, lift (kind_label k) w (binary K f pl pr args)) ->
  forallb (misses (chars K ++ rest)) (firstn n (map fst all_table)) = true ->
  no_operator (chars K ++ rest) = true -> at_word_end rest = true ->
  missing_ctx l = [Expected args] ->
  token_view K k l (two_args pl pr args) rest (parse_token (chars K ++ rest)).
Proof.
  intros Hn Hm Hop Hwe Hl.
  rewrite (token_binary n K (kind_label k) X w A B f pl pr args rest Hn Hm Hop Hwe). cbv zeta.
  unfold token_view, two_args, erased, value, pmap, context, separated_pair, preceded, bind, pmap,
    primary_ctx. rewrite Hl.
  destruct (head_in is_space rest); [|reflexivity].
  unfold on_err. destruct (pl (skip_blanks rest)) as [[a|c|c|s] r2]; try rewrite <- app_assoc; try reflexivity.
  rewrite multispace1_eq. destruct (head_in is_space r2); [|reflexivity].
  destruct (pr (skip_blanks r2)) as [[b|c|c|s] r3]; try rewrite <- app_assoc; try reflexivity.
  destruct (at_word_end r3); [eexists; reflexivity|reflexivity].
Qed.

Fixpoint index_of (k : string) (l : list string) (n : nat) : nat :=
  match l with [] => n | x :: r => if String.eqb k x then n else index_of k r (S n) end.

(** the two keywords that are a proper prefix of an earlier alternative *)
Lemma word_end_head c rest d :
  at_word_end (c :: rest) = true -> is_space d = false -> in_str "()!," d = false -> (d =? c) = false.
Proof.
  intros H H1 H2. destruct (N.eqb_spec d c) as [E|E]; [|reflexivity]. subst d.
  cbn [at_word_end] in H. rewrite H1, H2 in H. discriminate.
Qed.

Lemma misses_fprint rest : at_word_end rest = true ->
  forallb (misses (chars "-fprint" ++ rest)) (firstn 43 (map fst all_table)) = true.
Proof.
  intros Hwe. destruct rest as [|c rest]; [reflexivity|].
  change (firstn 43 (map fst all_table))
    with (firstn 41 (map fst all_table) ++ ["-fprintf"; "-fprint0"]%string).
  rewrite forallb_app. apply andb_true_iff. split; [reflexivity|].
  cbn [forallb].
  change (misses (chars "-fprint" ++ c :: rest) "-fprintf")
    with (match (if 102 =? c then Some rest else None) with None => true | Some _ => false end).
  change (misses (chars "-fprint" ++ c :: rest) "-fprint0")
    with (match (if 48 =? c then Some rest else None) with None => true | Some _ => false end).
  rewrite (word_end_head c rest 102 Hwe eq_refl eq_refl), (word_end_head c rest 48 Hwe eq_refl eq_refl).
  reflexivity.
Qed.

Lemma misses_xattr rest : at_word_end rest = true ->
  forallb (misses (chars "-xattr" ++ rest)) (firstn 38 (map fst all_table)) = true.
Proof.
  intros Hwe. destruct rest as [|c rest]; [reflexivity|].
  change (firstn 38 (map fst all_table))
    with (firstn 37 (map fst all_table) ++ ["-xattr-match"]%string).
  rewrite forallb_app. apply andb_true_iff. split; [reflexivity|].
  cbn [forallb].
  change (misses (chars "-xattr" ++ c :: rest) "-xattr-match")
    with (match (if 45 =? c then lit_ (chars "match") rest else None) with None => true | Some _ => false end).
  rewrite (word_end_head c rest 45 Hwe eq_refl eq_refl).
  reflexivity.
Qed.

Ltac view_case Hwe :=
  lazymatch goal with
  | |- token_view ?K _ _ _ ?rest _ =>
      let n := eval vm_compute in (index_of K (map fst all_table) 0) in
      first [ eapply (view_of_unary n); [reflexivity| |reflexivity|exact Hwe|reflexivity]
            | eapply (view_of_binary n); [reflexivity| |reflexivity|exact Hwe|reflexivity] ];
      first [ reflexivity | exact (misses_fprint rest Hwe) | exact (misses_xattr rest Hwe) ]
  end.

Theorem token_view_ok K k l p rest :
  In (K, k, l, p) arg_table -> at_word_end rest = true ->
  token_view K k l p rest (parse_token (chars K ++ rest)).
Proof.
  intros Hin Hwe. unfold arg_table in Hin.
  repeat (destruct Hin as [Hin|Hin]; [inversion Hin; subst; clear Hin; view_case Hwe|]).
  destruct Hin.
Qed.
