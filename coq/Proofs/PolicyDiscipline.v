(** C16 (link): the calls of a policy invocation obey the locking discipline, their records are
    the records of the outputs, and every schedule of a scan keeps records whole. *)
From Coq Require Import List String NArith Bool Arith Lia ZifyBool ZifyN Permutation Relations.
From FP Require Import Model.Chars Model.Ast Model.Sexp Model.Compile.
From FP Require Import Spec.Tree Spec.TreeShape Spec.Resources Spec.Locking Spec.FileRecord Spec.FindSem
  Spec.SchemeSem Spec.SchemeEnv Spec.SchemePrelude Spec.Interleave Spec.PolicyCalls.
From FP Require Import Proofs.TreeHelpers Proofs.Numbers Proofs.SemFacts Proofs.ImplicitPrint
  Proofs.ManagerInv Proofs.Routing Proofs.Locking Proofs.PreludeInv Proofs.PreludeSound.
From FP Require Proofs.Mutex.
Import ListNotations.
Local Open Scope N_scope.

(** * reading the default port off the bindings *)
Lemma strip_prefix_app p s : strip_prefix p (p ++ s) = Some s.
Proof.
  induction p as [|a p IH]; cbn [strip_prefix app]; [reflexivity|]. rewrite N.eqb_refl. exact IH.
Qed.

Lemma port_number_ident n : port_number (idname "port" n) = Some n.
Proof.
  unfold port_number, idname.
  change (chars "%lf3:" ++ chars "port" ++ [58] ++ print_dec n) with (chars "%lf3:port:" ++ print_dec n).
  rewrite strip_prefix_app.
  assert (Hall : all is_digit (print_dec n) = true).
  { pose proof (print_dec_nonempty n) as Hne. pose proof (digits_forallb _ (print_dec_digits n)) as Hf.
    unfold all. destruct (print_dec n); [contradiction|exact Hf]. }
  rewrite Hall, dec_value_pos_value_all, print_dec_value. reflexivity.
Qed.

Lemma stdout_binding_port n : stdout_binding (erase (default_port_binding n)) = Some n.
Proof.
  unfold default_port_binding. rewrite erase_binding, erase_ident. cbn [erase_items erase lst items_sep].
  cbn [stdout_binding]. change (is "current-output-port" (chars "current-output-port")) with true.
  cbn iota. apply port_number_ident.
Qed.
Lemma stdout_binding_mutex n : stdout_binding (erase (mutex_binding n)) = None.
Proof. reflexivity. Qed.
Lemma stdout_binding_printer i p term : stdout_binding (erase (plain_printer_binding i p term)) = None.
Proof. reflexivity. Qed.
Lemma stdout_binding_matcher b : is_matcher_binding b -> stdout_binding (erase b) = None.
Proof. intros (i & pat & ci & ->). reflexivity. Qed.

Lemma default_port_matchers defs :
  (forall b, In b defs -> is_matcher_binding b) -> default_port (map erase defs) = None.
Proof.
  induction defs as [|b r IH]; intro H; cbn [map default_port]; [reflexivity|].
  rewrite stdout_binding_matcher by (apply H; now left). apply IH. intros b' Hb'. apply H. now right.
Qed.

Lemma stdout_binding_shape p b n :
  plain_shape p b -> stdout_binding (erase b) = Some n -> n = p_port p.
Proof.
  intros [->|[->|[(i & term & ->)|Hm]]] H.
  - rewrite stdout_binding_port in H. congruence.
  - rewrite stdout_binding_mutex in H. discriminate.
  - rewrite stdout_binding_printer in H. discriminate.
  - rewrite (stdout_binding_matcher _ Hm) in H. discriminate.
Qed.

Lemma default_port_plain p defs :
  (forall b, In b defs -> plain_shape p b) -> In (default_port_binding (p_port p)) defs ->
  default_port (map erase defs) = Some (p_port p).
Proof.
  induction defs as [|b r IH]; intros H Hin; [contradiction|]. cbn [map default_port].
  destruct (stdout_binding (erase b)) as [n|] eqn:E.
  - f_equal. eapply stdout_binding_shape; [|exact E]. apply H. now left.
  - destruct Hin as [->|Hin]; [rewrite stdout_binding_port in E; discriminate|].
    apply IH; [|exact Hin]. intros b' Hb'. apply H. now right.
Qed.

(** * the final manager of a plain program *)
Lemma plain_final e o clk c :
  compile e o clk = COk c -> c_framed c = false ->
  exists l, Resources.final_mgr e clk = Some (ML l) /\ c_defs c = l_vars l /\ pinv l /\ ManagerInv.linv l.
Proof.
  intros H Hfr. destruct (compile_final _ _ _ _ H) as (s & _ & Hf & Hd & Hfr' & _).
  pose proof (final_mgr_framed _ _ _ Hf) as Hcf. rewrite <- Hfr', Hfr in Hcf.
  assert (Hp : pinv_m (st_mgr s)).
  { rewrite (final_mgr_run _ _ _ Hf). apply run_pinv.
    - rewrite requests_wrap. now apply requests_no_file.
    - unfold init_mgr. rewrite <- Hcf. apply pinv_init. }
  pose proof (final_mgr_inv _ _ _ Hf) as Hi.
  rewrite Hfr' in Hfr. destruct (st_mgr s) as [l|d] eqn:Em; [|discriminate].
  exists l. cbn [pinv_m ManagerInv.minv m_vars] in *. auto.
Qed.

(** the port read off the prelude is the default port of the final manager, whose mutex is the
    next index; with it, every binding is on that pair; without it, there are only matchers *)
Theorem plain_port_spec e o clk c :
  compile e o clk = COk c -> c_framed c = false ->
  exists l, Resources.final_mgr e clk = Some (ML l)
    /\ plain_port c = option_map p_port (l_default l)
    /\ (forall p, l_default l = Some p ->
          p_mutex p = p_port p + 1 /\ forall b, In b (c_defs c) -> plain_shape p b)
    /\ (l_default l = None -> forall b, In b (c_defs c) -> is_matcher_binding b).
Proof.
  intros H Hfr. destruct (plain_final _ _ _ _ H Hfr) as (l & Hf & Hd & Hp & Hi).
  exists l. split; [exact Hf|]. destruct Hp as (_ & _ & Hm & _ & Hb).
  assert (Hshape : forall p, l_default l = Some p -> forall b, In b (c_defs c) -> plain_shape p b).
  { intros p Hp b Hin. rewrite Hd in Hin. destruct (Hb b Hin) as [Hmb|(p' & Hp' & Hs)].
    - unfold plain_shape. auto.
    - rewrite Hp in Hp'. inversion Hp'; subst. exact Hs. }
  assert (Hnone : l_default l = None -> forall b, In b (c_defs c) -> is_matcher_binding b).
  { intros Hn b Hin. rewrite Hd in Hin. destruct (Hb b Hin) as [Hmb|(p' & Hp' & _)]; [exact Hmb|congruence]. }
  split; [|split; [|exact Hnone]].
  - unfold plain_port. destruct (l_default l) as [p|] eqn:E; cbn [option_map].
    + apply default_port_plain; [now apply Hshape|]. rewrite Hd. apply (li_d_bind _ Hi _ E).
    + apply default_port_matchers. now apply Hnone.
  - intros p Hp. split; [now apply Hm|now apply Hshape].
Qed.

(** * where the outputs of an expression come from *)
Definition outs (r : result) : list output := snd (fst r).

Lemma outs_seq_and (P : output -> Prop) r k :
  Forall P (outs r) -> Forall P (outs k) -> Forall P (outs (seq_and r k)).
Proof.
  destruct r as [[b o] q], k as [[b' o'] q']. unfold outs. cbn [seq_and fst snd].
  intros Hr Hk. destruct b; cbn [fst snd]; [apply Forall_app; split; assumption|assumption].
Qed.
Lemma outs_seq_or (P : output -> Prop) r k :
  Forall P (outs r) -> Forall P (outs k) -> Forall P (outs (seq_or r k)).
Proof.
  destruct r as [[b o] q], k as [[b' o'] q']. unfold outs. cbn [seq_or fst snd].
  intros Hr Hk. destruct b; cbn [fst snd]; [assumption|apply Forall_app; split; assumption].
Qed.
Lemma outs_neg r : outs (neg r) = outs r.
Proof. destruct r as [[b o] q]. reflexivity. Qed.

(** every output of an expression is an output of one of its action occurrences *)
Lemma feval_outputs h (P : output -> Prop) f e : forall clk,
  (forall a, Subterm (EAction a) e -> Forall P (outs (action_result h a f))) ->
  Forall P (outs (feval h e clk f)).
Proof.
  induction e as [e IH|e IH|a IHa b IHb|a IHa b IHb|a IHa b IHb|t|a|g|]; intros clk H; cbn [feval].
  - apply IH. intros a Ha. apply H. now constructor.
  - rewrite outs_neg. apply IH. intros a Ha. apply H. now constructor.
  - apply outs_seq_and; [apply IHa|apply IHb]; intros x Hx; apply H;
      [now apply Sub_and_l|now apply Sub_and_r].
  - apply outs_seq_or; [apply IHa|apply IHb]; intros x Hx; apply H;
      [now apply Sub_or_l|now apply Sub_or_r].
  - apply outs_seq_and; [apply IHa|apply IHb]; intros x Hx; apply H;
      [now apply Sub_list_l|now apply Sub_list_r].
  - constructor.
  - apply H. constructor.
  - constructor.
  - constructor.
Qed.

Lemma complex_frames_wrap e : complex_frames (wrap e) = complex_frames e.
Proof.
  unfold wrap. destruct (has_action e); [reflexivity|]. cbn [complex_frames action_frames].
  apply orb_false_r.
Qed.

Lemma subterm_no_frames e a :
  complex_frames e = false -> Subterm (EAction a) e -> action_frames a = false.
Proof.
  intros He Hs. destruct (action_frames a) eqn:E; [|reflexivity].
  assert (Ht : complex_frames e = true).
  { apply complex_frames_iff. exists a. split; [exact Hs|now apply action_frames_iff]. }
  congruence.
Qed.

Definition to_stdout (o : output) : Prop := fst (fst o) = DStdout.
Lemma action_stdout h a f : action_frames a = false -> Forall to_stdout (outs (action_result h a f)).
Proof.
  destruct a; cbn [action_frames action_result]; intro H; try discriminate;
    unfold outs, emit; cbn [fst snd]; repeat constructor.
Qed.

(** plain mode: everything goes to standard output *)
Lemma plain_outputs_stdout h e clk f :
  complex_frames e = false -> Forall to_stdout (outs (feval h (wrap e) clk f)).
Proof.
  intro He. apply feval_outputs. intros a Ha. apply action_stdout.
  apply (subterm_no_frames (wrap e)); [now rewrite complex_frames_wrap|exact Ha].
Qed.

Lemma parser_tree_no_default e : parser_tree e -> no_default e = true.
Proof.
  induction 1 as [t|a Ha|e _ IH|a b _ IHa _ IHb|a b _ IHa _ IHb|a b _ IHa _ IHb]; cbn [no_default];
    try reflexivity; try assumption; try (rewrite IHa, IHb; reflexivity).
  destruct a; try reflexivity. contradiction.
Qed.

Lemma subterm_not_default e a :
  no_default e = true -> Subterm (EAction a) e -> a <> ADefaultPrint.
Proof.
  intros He Hs.
  induction Hs as [|e Hs IH|e Hs IH|x y Hs IH|x y Hs IH|x y Hs IH|x y Hs IH|x y Hs IH|x y Hs IH];
    cbn [no_default] in He;
    try (apply andb_true_iff in He as [H1 H2]); try (apply IH; assumption).
  intros ->. discriminate.
Qed.

(** an output of an action other than the implicit print is addressed to the action's target *)
Definition routed_by (a : action) (o : output) : Prop :=
  action_target a = Some (target_of (fst (fst o)) (snd o)).
Lemma action_routed h a f : a <> ADefaultPrint -> Forall (routed_by a) (outs (action_result h a f)).
Proof.
  destruct a; intro H; cbn [action_result]; unfold outs, emit; cbn [fst snd];
    try (constructor; fail); try (repeat constructor; fail).
  contradiction.
Qed.

Lemma framed_has_action e : complex_frames e = true -> has_action e = true.
Proof.
  intro H. destruct (has_action e) eqn:E; [reflexivity|].
  rewrite (has_action_no_frames _ E) in H. discriminate.
Qed.

(** framed mode: every output is addressed to the target of some action occurrence *)
Lemma framed_outputs_routed h e clk f :
  no_default e = true -> complex_frames e = true ->
  Forall (fun o => exists a, Subterm (EAction a) (wrap e) /\ routed_by a o)
         (outs (feval h (wrap e) clk f)).
Proof.
  intros Hn Hc. unfold wrap. rewrite (framed_has_action _ Hc).
  apply feval_outputs. intros a Ha.
  eapply Forall_impl; [|apply action_routed; eapply subterm_not_default; eassumption].
  intros o Ho. exists a. split; assumption.
Qed.

(** * lists of options *)
Lemma all_some_map {A B} (g : A -> option B) (Q : A -> B -> Prop) l :
  Forall (fun a => exists b, g a = Some b /\ Q a b) l ->
  exists bs, all_some (map g l) = Some bs /\ Forall2 Q l bs.
Proof.
  induction 1 as [|a l (b & Hb & Hq) _ (bs & Hbs & Hall)]; cbn [map all_some].
  - exists []. split; [reflexivity|constructor].
  - exists (b :: bs). rewrite Hb, Hbs. split; [reflexivity|now constructor].
Qed.

Lemma all_some_Forall2 {A B} (g : A -> option B) l bs :
  all_some (map g l) = Some bs -> Forall2 (fun a b => g a = Some b) l bs.
Proof.
  revert bs. induction l as [|a l IH]; intros bs H; cbn [map all_some] in H.
  - inversion H. constructor.
  - destruct (g a) as [b|] eqn:E; [|discriminate].
    destruct (all_some (map g l)) as [bs'|]; [|discriminate]. inversion H; subst.
    constructor; [exact E|now apply IH].
Qed.

(** * tags *)
Lemma tag_of_In tbl t i : tag_of tbl t = Some i -> In (i, t) tbl.
Proof.
  induction tbl as [|[j t'] r IH]; cbn [tag_of]; [discriminate|].
  destruct (target_eqb t t') eqn:E.
  - intro H. inversion H; subst. apply target_eqb_eq in E. subst. now left.
  - intro H. right. now apply IH.
Qed.
Lemma In_tag_of tbl t i : In (i, t) tbl -> exists j, tag_of tbl t = Some j.
Proof.
  induction tbl as [|[j t'] r IH]; cbn [tag_of In]; [contradiction|].
  intros [H|H].
  - inversion H; subst. assert (E : target_eqb t t = true) by now apply target_eqb_eq.
    rewrite E. eauto.
  - destruct (target_eqb t t'); eauto.
Qed.
Lemma tag_of_unique tbl t i : NoDup (map snd tbl) -> In (i, t) tbl -> tag_of tbl t = Some i.
Proof.
  induction tbl as [|[j t'] r IH]; cbn [tag_of In map snd]; [contradiction|].
  intros Hnd [H|H]; inversion Hnd as [|x xs Hnot Hnd']; subst.
  - inversion H; subst. assert (E : target_eqb t t = true) by now apply target_eqb_eq.
    now rewrite E.
  - destruct (target_eqb t t') eqn:E; [|now apply IH].
    apply target_eqb_eq in E. subst t'. exfalso. apply Hnot.
    apply in_map_iff. exists (i, t). split; [reflexivity|exact H].
Qed.

(** * one invocation: the calls of its outputs *)
Definition linked (c : compiled) (o : output) (cl : call) : Prop :=
  call_ok (guard_of c) cl /\ call_port cl = out_port c /\ record_of c o = Some (call_record cl).

Lemma concat_term_writes payload term :
  List.concat (payload :: terminator_writes term) = payload ++ terminator_text term.
Proof. destruct term; cbn [terminator_writes terminator_text List.concat app]; rewrite ?app_nil_r; reflexivity. Qed.

Lemma plain_calls_linked c (os : list output) :
  c_framed c = false -> Forall to_stdout os ->
  exists calls, policy_calls c os = Some calls /\ Forall2 (linked c) os calls.
Proof.
  intros Hfr Hos. unfold policy_calls. rewrite Hfr.
  destruct (plain_port c) as [P|] eqn:EP; apply all_some_map;
    (eapply Forall_impl; [|exact Hos]); intros [[d payload] term] Hd;
    unfold to_stdout in Hd; cbn [fst] in Hd; subst d.
  - eexists. split; [reflexivity|]. unfold linked, guard_of, out_port, record_of.
    rewrite Hfr, EP. cbn [call_ok call_port call_record]. rewrite Nat.eqb_refl, concat_term_writes.
    repeat split.
  - eexists. split; [reflexivity|]. unfold linked, guard_of, out_port, record_of.
    rewrite Hfr, EP. cbn [call_ok call_port call_record]. repeat split.
Qed.

Lemma framed_calls_linked c tbl (os : list output) :
  c_framed c = true -> c_iomap c = Some tbl ->
  Forall (fun o => exists i, In (i, target_of (fst (fst o)) (snd o)) tbl) os ->
  exists calls, policy_calls c os = Some calls /\ Forall2 (linked c) os calls.
Proof.
  intros Hfr Hio Hos. unfold policy_calls. rewrite Hfr, Hio. apply all_some_map.
  eapply Forall_impl; [|exact Hos]. intros [[d payload] term] (i & Hi). cbn [fst snd] in Hi.
  destruct (In_tag_of _ _ _ Hi) as [j Hj]. unfold framed_call. rewrite Hj. cbn [option_map].
  eexists. split; [reflexivity|]. unfold linked, guard_of, out_port, record_of.
  rewrite Hfr, Hio, Hj. cbn [call_ok call_port call_record option_map List.concat app Nat.eqb].
  repeat split.
Qed.

Theorem outputs_calls h e o clk c f :
  parser_tree e -> compile e o clk = COk c ->
  exists calls, policy_calls c (outs (feval h (wrap e) clk f)) = Some calls
                /\ Forall2 (linked c) (outs (feval h (wrap e) clk f)) calls.
Proof.
  intros Hpt H. pose proof (mode _ _ _ _ H) as Hmode.
  destruct (c_framed c) eqn:Hfr.
  - destruct (compile_final _ _ _ _ H) as (s & _ & Hf & _ & Hfr' & Hio & _).
    rewrite Hfr in Hfr'. destruct (st_mgr s) as [l|d]; [discriminate|].
    eapply framed_calls_linked; [exact Hfr|exact Hio|].
    eapply Forall_impl; [|apply framed_outputs_routed; [now apply parser_tree_no_default|now symmetry]].
    intros ou (a & Ha & Hr). unfold routed_by in Hr.
    eapply complete; [exact H|exact Hio|exact Ha|exact Hr].
  - apply plain_calls_linked; [exact Hfr|]. apply plain_outputs_stdout. now symmetry.
Qed.

Lemma Forall2_impl {A B} (R S : A -> B -> Prop) l bs :
  (forall a b, R a b -> S a b) -> Forall2 R l bs -> Forall2 S l bs.
Proof. intros H. induction 1; constructor; auto. Qed.

Lemma Forall2_right {A B} (R : A -> B -> Prop) (P : B -> Prop) l bs :
  (forall a b, R a b -> P b) -> Forall2 R l bs -> Forall P bs.
Proof. intros H. induction 1; constructor; eauto. Qed.

Lemma all_some_Forall2_map {A B C} (g : A -> option C) (k : B -> C) l bs :
  Forall2 (fun a b => g a = Some (k b)) l bs -> all_some (map g l) = Some (map k bs).
Proof.
  induction 1 as [|a b l bs Hab _ IH]; cbn [map all_some]; [reflexivity|]. now rewrite Hab, IH.
Qed.

Lemma all_some_app {A} (l1 l2 : list (option A)) a b :
  all_some l1 = Some a -> all_some l2 = Some b -> all_some (l1 ++ l2) = Some (a ++ b).
Proof.
  revert a. induction l1 as [|[x|] l1 IH]; intros a H1 H2; cbn [all_some app] in *.
  - inversion H1. exact H2.
  - destruct (all_some l1) as [a'|]; [|discriminate]. inversion H1; subst.
    now rewrite (IH a' eq_refl H2).
  - discriminate.
Qed.

Lemma linked_calls c os calls :
  Forall2 (linked c) os calls ->
  disciplined (guard_of c) calls
  /\ Forall (fun cl => call_port cl = out_port c) calls
  /\ all_some (map (record_of c) os) = Some (map call_record calls).
Proof.
  intro H. split; [|split].
  - eapply Forall2_right; [|exact H]. intros a b Hab. apply Hab.
  - eapply Forall2_right; [|exact H]. intros a b Hab. apply Hab.
  - apply all_some_Forall2_map. apply (Forall2_impl (linked c)); [|exact H]. intros a b Hab. apply Hab.
Qed.

Lemma guard_of_other c p : p <> out_port c -> guard_of c p = None.
Proof.
  unfold guard_of, out_port. destruct (c_framed c); [|destruct (plain_port c) as [P|]];
    intro H; try reflexivity; apply Nat.eqb_neq in H; now rewrite H.
Qed.

Lemma calls_on_all p cs : Forall (fun cl => call_port cl = p) cs -> calls_on p cs = cs.
Proof.
  induction 1 as [|cl cs Hcl _ IH]; cbn [calls_on filter]; [reflexivity|].
  rewrite Hcl, Nat.eqb_refl. f_equal. exact IH.
Qed.
Lemma calls_on_none p q cs : p <> q -> Forall (fun cl => call_port cl = q) cs -> calls_on p cs = [].
Proof.
  intro Hpq. induction 1 as [|cl cs Hcl _ IH]; cbn [calls_on filter]; [reflexivity|].
  rewrite Hcl. assert (E : Nat.eqb q p = false) by (apply Nat.eqb_neq; congruence).
  rewrite E. exact IH.
Qed.

Section WithHost.
Variable h : host.
Hypothesis Hlaw : host_law h.

(** * (2) one invocation *)
Theorem policy_discipline e o clk c f :
  parser_tree e -> compile e o clk = COk c -> ctime_free e = true -> defined e f = true ->
  exists os calls,
    policy_outputs h c f = Some os
    /\ os = outs (feval h (wrap e) clk f)
    /\ policy_calls c os = Some calls
    /\ disciplined (guard_of c) calls
    /\ Forall (fun cl => call_port cl = out_port c) calls
    /\ all_some (map (record_of c) os) = Some (map call_record calls).
Proof.
  intros Hpt H Hct Hdef.
  destruct (outputs_calls h e o clk c f Hpt H) as (calls & Hcalls & Hl).
  exists (outs (feval h (wrap e) clk f)), calls.
  split; [|split; [reflexivity|split; [exact Hcalls|now apply linked_calls]]].
  unfold policy_outputs. rewrite (compile_sound h Hlaw e o clk c f H Hct Hdef). reflexivity.
Qed.

Definition file_ok (c : compiled) (f : file) (cs : list call) : Prop :=
  disciplined (guard_of c) cs /\ Forall (fun cl => call_port cl = out_port c) cs
  /\ file_records h c f = Some (map call_record cs).

Lemma file_link e o clk c f :
  parser_tree e -> compile e o clk = COk c -> ctime_free e = true -> defined e f = true ->
  exists cs, file_calls h c f = Some cs /\ file_ok c f cs.
Proof.
  intros Hpt H Hct Hdef.
  destruct (policy_discipline e o clk c f Hpt H Hct Hdef) as (os & cs & Ho & _ & Hc & Hd & Hp & Hr).
  exists cs. unfold file_calls, file_ok, file_records. rewrite Ho. auto.
Qed.

Definition thread_ok (c : compiled) (fs : list file) (cs : list call) : Prop :=
  disciplined (guard_of c) cs /\ Forall (fun cl => call_port cl = out_port c) cs
  /\ files_records h c fs = Some (map call_record cs).

Lemma thread_link e o clk c fs :
  parser_tree e -> compile e o clk = COk c -> ctime_free e = true ->
  Forall (fun f => defined e f = true) fs ->
  exists cs, thread_calls h c fs = Some cs /\ thread_ok c fs cs.
Proof.
  intros Hpt H Hct Hdef.
  destruct (all_some_map (file_calls h c) (file_ok c) fs) as (css & Hcss & Hall).
  { eapply Forall_impl; [|exact Hdef]. intros f Hf. now apply (file_link e o clk). }
  exists (List.concat css). unfold thread_calls, thread_ok, files_records. rewrite Hcss.
  split; [reflexivity|].
  assert (Hr : all_some (map (file_records h c) fs) = Some (map (map call_record) css)).
  { apply all_some_Forall2_map. apply (Forall2_impl (file_ok c)); [|exact Hall]. intros f cs Hok. apply Hok. }
  rewrite Hr. cbn [option_map]. rewrite concat_map. split; [|split; [|reflexivity]].
  - unfold disciplined. apply Forall_concat. eapply Forall2_right; [|exact Hall].
    intros f cs Hok. apply Hok.
  - apply Forall_concat. eapply Forall2_right; [|exact Hall]. intros f cs Hok. apply Hok.
Qed.

Lemma files_records_app c a b ra rb :
  files_records h c a = Some ra -> files_records h c b = Some rb ->
  files_records h c (a ++ b) = Some (ra ++ rb).
Proof.
  unfold files_records. intros Ha Hb.
  destruct (all_some (map (file_records h c) a)) as [la|] eqn:Ea; [|discriminate].
  destruct (all_some (map (file_records h c) b)) as [lb|] eqn:Eb; [|discriminate].
  cbn [option_map] in *. inversion Ha; inversion Hb; subst.
  rewrite map_app, (all_some_app _ _ _ _ Ea Eb). cbn [option_map]. now rewrite concat_app.
Qed.

Lemma scan_link e o clk c files :
  parser_tree e -> compile e o clk = COk c -> ctime_free e = true ->
  Forall (Forall (fun f => defined e f = true)) files ->
  exists prog, scan_prog h c files = Some prog
    /\ Forall (disciplined (guard_of c)) prog
    /\ Forall (fun cl => call_port cl = out_port c) (List.concat prog)
    /\ files_records h c (List.concat files) = Some (map call_record (List.concat prog)).
Proof.
  intros Hpt H Hct Hdef.
  destruct (all_some_map (thread_calls h c) (thread_ok c) files) as (prog & Hprog & Hall).
  { eapply Forall_impl; [|exact Hdef]. intros fs Hfs. now apply (thread_link e o clk). }
  exists prog. split; [exact Hprog|]. split; [|split].
  - eapply Forall2_right; [|exact Hall]. intros fs cs Hok. apply Hok.
  - apply Forall_concat. eapply Forall2_right; [|exact Hall]. intros fs cs Hok. apply Hok.
  - clear Hprog Hdef. induction Hall as [|fs cs files prog Hok _ IH]; [reflexivity|].
    cbn [List.concat]. rewrite map_app. apply files_records_app; [apply Hok|exact IH].
Qed.

(** * (3) every schedule of a scan *)
Theorem scan_whole e o clk c files :
  parser_tree e -> compile e o clk = COk c -> ctime_free e = true ->
  Forall (Forall (fun f => defined e f = true)) files ->
  exists prog recs,
    scan_prog h c files = Some prog
    /\ files_records h c (List.concat files) = Some recs
    /\ Forall (disciplined (guard_of c)) prog
    /\ forall st, steps (init prog) st ->
         (forall p, exists (done rest : list call) (partial : str),
             out st p = List.concat (map call_record done) ++ partial
             /\ Permutation (done ++ rest) (calls_on p (List.concat prog))
             /\ partial_on (guard_of c) prog st p partial)
         /\ (forall p, p <> out_port c -> out st p = [])
         /\ (final st -> exists rs, out st (out_port c) = List.concat rs /\ Permutation rs recs)
         /\ (~ final st -> exists st', Interleave.step st st').
Proof.
  intros Hpt H Hct Hdef.
  destruct (scan_link e o clk c files Hpt H Hct Hdef) as (prog & Hprog & Hdisc & Hport & Hrec).
  exists prog, (map call_record (List.concat prog)).
  split; [exact Hprog|]. split; [exact Hrec|]. split; [exact Hdisc|].
  intros st Hst. split; [|split; [|split]].
  - intro p. exact (Mutex.records_reachable (guard_of c) prog st Hdisc Hst p).
  - intros p Hp.
    destruct (Mutex.records_reachable (guard_of c) prog st Hdisc Hst p)
      as (done & rest & partial & Hout & Hperm & Hpart).
    rewrite (calls_on_none p (out_port c) _ Hp Hport) in Hperm.
    apply Permutation_sym, Permutation_nil in Hperm. apply app_eq_nil in Hperm as [-> _].
    unfold partial_on in Hpart. rewrite (guard_of_other c p Hp) in Hpart. subst partial.
    rewrite Hout. reflexivity.
  - intro Hfin.
    destruct (Mutex.records_final (guard_of c) prog st Hdisc Hst Hfin (out_port c)) as (rs & Hout & Hperm).
    exists rs. split; [exact Hout|]. unfold records_on in Hperm.
    now rewrite (calls_on_all _ _ Hport) in Hperm.
  - intro Hnf. exact (Mutex.progress prog st Hst Hnf).
Qed.

End WithHost.

(** * what justifies reading the calls off the outputs *)
(** plain mode with a default port P: the implicit print does not occur in the policy, and every
    binding is port P, mutex P+1, a make-printer on exactly that pair, or a matcher: whatever
    wrote an output took mutex P+1 around its writes to port P *)
Theorem plain_pair e o clk c P :
  parser_tree e -> compile e o clk = COk c -> c_framed c = false -> plain_port c = Some P ->
  atom_occurs prp (c_body c) = false
  /\ forall b, In b (c_defs c) -> plain_shape {| p_port := P; p_mutex := P + 1 |} b.
Proof.
  intros Hpt H Hfr HP. destruct (plain_port_spec _ _ _ _ H Hfr) as (l & Hf & Hpp & Hsome & Hnone).
  rewrite HP in Hpp. destruct (l_default l) as [p|] eqn:E; [|discriminate].
  cbn [option_map] in Hpp. injection Hpp as HPp. destruct (Hsome p eq_refl) as [Hm Hshape].
  assert (Hp : {| p_port := P; p_mutex := P + 1 |} = p).
  { destruct p as [pp pm]. cbn [p_port p_mutex] in *. subst. reflexivity. }
  split; [|rewrite Hp; exact Hshape].
  destruct (has_action e) eqn:Ha.
  - apply (implicit_print_not_added e o clk c Ha (parser_tree_no_default _ Hpt) H).
  - destruct (default_print_alone e o clk c Ha H) as (_ & _ & Hmb).
    unfold plain_port in HP. rewrite (default_port_matchers _ Hmb) in HP. discriminate.
Qed.

(** plain mode without a default port: no port, no mutex and no printer is bound at all, so the
    only writer a policy can call is (print-relative-path) *)
Theorem plain_bare e o clk c :
  compile e o clk = COk c -> c_framed c = false -> plain_port c = None ->
  forall b, In b (c_defs c) -> is_matcher_binding b.
Proof.
  intros H Hfr HP. destruct (plain_port_spec _ _ _ _ H Hfr) as (l & Hf & Hpp & Hsome & Hnone).
  rewrite HP in Hpp. destruct (l_default l) as [p|] eqn:E; [discriminate|]. now apply Hnone.
Qed.

(** framed mode: [tag_of] is the inverse of the io-map (a target is listed once), and the printer
    with tag i is bound to (lambda (line) (%lf3:frame:2 line #\x<i>)) *)
Theorem tag_spec e o clk c tbl :
  compile e o clk = COk c -> c_iomap c = Some tbl ->
  (forall t i, tag_of tbl t = Some i <-> In (i, t) tbl)
  /\ forall t i, tag_of tbl t = Some i -> In (framed_printer_binding i) (c_defs c).
Proof.
  intros H Hio. destruct (tags _ _ _ _ _ H Hio) as (_ & Hnd & Hb).
  assert (Hiff : forall t i, tag_of tbl t = Some i <-> In (i, t) tbl).
  { intros t i. split; [apply tag_of_In|now apply tag_of_unique]. }
  split; [exact Hiff|]. intros t i Ht. apply Hiff in Ht. now apply (Hb i t).
Qed.

(** ... and in that case, if the expression has an action at all, no invocation writes anything:
    the unguarded single-write call stands for the implicit print only *)
Lemma action_silent h a f :
  a <> ADefaultPrint -> action_target a = None -> outs (action_result h a f) = [].
Proof. destruct a; cbn [action_target action_result]; intros Hd Ht; try discriminate; try reflexivity. contradiction. Qed.

Theorem bare_outputs h e o clk c f :
  parser_tree e -> compile e o clk = COk c -> c_framed c = false -> plain_port c = None ->
  has_action e = true -> outs (feval h (wrap e) clk f) = [].
Proof.
  intros Hpt H Hfr HP Ha.
  destruct (plain_port_spec _ _ _ _ H Hfr) as (l & Hf & Hpp & _ & _).
  rewrite HP in Hpp. destruct (l_default l) as [p|] eqn:Ed; [discriminate|].
  destruct (reaches _ _ _ _ H) as (m & Hm & _ & Hb). rewrite Hf in Hm. inversion Hm; subst m.
  unfold expected_body in Hb.
  destruct (expected_expr (ML l) (wrap e) clk) as [[x clk']|] eqn:E; [|discriminate].
  assert (Hall : Forall (fun _ : output => False) (outs (feval h (wrap e) clk f))).
  { apply feval_outputs. intros a Hs.
    assert (Hnd : a <> ADefaultPrint).
    { unfold wrap in Hs. rewrite Ha in Hs.
      eapply subterm_not_default; [apply parser_tree_no_default; exact Hpt|exact Hs]. }
    destruct (action_target a) as [t|] eqn:Et.
    - exfalso. destruct (expected_complete _ _ _ _ _ E a t Hs Et) as [i Hi].
      assert (Hnf : action_frames a = false).
      { apply (subterm_no_frames (wrap e)); [|exact Hs].
        rewrite complex_frames_wrap, <- (mode _ _ _ _ H). exact Hfr. }
      cbn [printer_index] in Hi.
      destruct a; cbn [action_target] in Et; try discriminate; inversion Et; subst t;
        cbn [action_frames] in Hnf; try discriminate;
        cbn [l_printer_key] in Hi; rewrite Ed in Hi; discriminate.
    - rewrite (action_silent h a f Hnd Et). constructor. }
  destruct (outs (feval h (wrap e) clk f)) as [|x0 r]; [reflexivity|].
  inversion Hall as [|y ys Hfalse _]. contradiction.
Qed.
