(** C18 for the SECOND argument of the two-argument primaries (-xattr-match NAME VALUE,
    -fprintf FILE FORMAT) and for a -printf / -fprintf FORMAT word whose content is no format
    ([SegErr], Spec/FormatSpec.v): which word the message quotes and which explanation it gives.

    Method: [arg_error] (Proofs/ErrorAttribution.v) reduces everything to what the keyword's
    argument parser of [arg_table] returns on the text after the blanks; the first word is
    accepted by the lemmas of Proofs/LexArgs.v; the second fails in place.  For a bad format the
    only new fact needed is that EVERY final error of [parse_format] carries exactly the context
    [Expected "invalid_format_specifier"; Expected "format_string"] (part A). *)
From Coq Require Import List String Ascii NArith Bool Arith Lia ZifyBool ZifyN.
From FP Require Import Model.Chars Model.Winnow Model.Ast Model.Args Model.Perm Model.Format Model.Lex
  Model.Parse.
From FP Require Import Spec.Decimal Spec.PermWord Spec.FormatSpec Spec.Vocabulary Spec.Surface.
From FP Require Import Spec.Messages.   (* after Surface: [blanks], [at_word_end] are those of Messages *)
From FP Require Import Proofs.WinnowFacts Proofs.WinnowTotal Proofs.FormatSeg Proofs.LexArgs Proofs.Dispatch
  Proofs.TokenView Proofs.ArgFail Proofs.ErrorAttribution Proofs.QuotedOnlyInput.
Import ListNotations.
Local Open Scope N_scope.

(** * A. the context of a final error of [parse_format] *)
Definition ifs : list ctx := [Expected "invalid_format_specifier"].

Lemma nocut_tblp {A} (tbl : list (string * A)) : Forall nocut (tblp tbl).
Proof.
  induction tbl as [|[w a] t IH]; [constructor|].
  cbn [tblp map]. constructor; [|exact IH]. apply nocut_value, nocut_literal.
Qed.

Lemma nocut_letter_any (k : string) (F : N -> ffield) : nocut (pmap F (preceded (literal k) any)).
Proof. apply nocut_pmap. apply nocut_bind; [apply nocut_literal|]. intros _. apply nocut_any. Qed.

Lemma nocut_pX : nocut pX.
Proof.
  unfold pX, delimited, preceded. apply nocut_pmap. apply nocut_bind; [apply nocut_literal|].
  intros _. apply nocut_terminated; [apply nocut_take_while|apply nocut_literal].
Qed.

Lemma field_alts_cut i c r : field_alts i = (Cut c, r) -> c = ifs.
Proof.
  unfold field_alts. intros H.
  pose proof (nocut_alt (tblp T1) (nocut_tblp T1) i) as H1.
  assert (H2 : nocut (alt (tblp T2 ++ [pA; pC; pT; pX]))).
  { apply nocut_alt. apply Forall_app. split; [apply nocut_tblp|].
    repeat constructor; first [apply nocut_letter_any | apply nocut_pX]. }
  specialize (H2 i).
  rewrite alt_cons in H. destruct (alt (tblp T1) i) as [[a|x|x|s] r1]; try discriminate; [|contradiction].
  rewrite alt_cons in H.
  destruct (alt (tblp T2 ++ [pA; pC; pT; pX]) i) as [[a|y|y|s] r2]; try discriminate; [|contradiction].
  cbn in H. injection H as <- _. reflexivity.
Qed.

Lemma parse_field_cut i c r : parse_field i = (Cut c, r) -> c = ifs.
Proof.
  destruct i as [|d i]; [rewrite parse_field_nil; discriminate|].
  destruct (N.eq_dec d pct) as [->|Hd].
  - rewrite parse_field_pct. apply field_alts_cut.
  - rewrite (parse_field_other d i Hd). discriminate.
Qed.

Lemma nocut_take_while_mn m n p : nocut (take_while_mn m n p).
Proof.
  intros i. unfold take_while_mn. destruct (span_max n p i) as [a b].
  destruct (Nat.leb m (List.length a)); exact I.
Qed.

Lemma nocut_parse_special : nocut parse_special.
Proof.
  unfold parse_special. apply nocut_alt. constructor; [|constructor; [|constructor]].
  - unfold preceded. apply nocut_bind; [apply nocut_literal|]. intros _.
    apply nocut_alt.
    repeat constructor;
      first [ apply nocut_pmap, nocut_take_while_mn | apply nocut_value, nocut_literal ].
  - apply nocut_value, nocut_literal.
Qed.

Lemma parse_element_cut i c r : parse_element i = (Cut c, r) -> c = ifs.
Proof.
  rewrite parse_element_eq. unfold pmap.
  destruct (parse_field i) as [[a|x|x|s] r1] eqn:E; try discriminate.
  - pose proof (nocut_parse_special i) as Hn.
    destruct (parse_special i) as [[a|y|y|s] r2]; try discriminate. contradiction.
  - intros H. injection H as <- _. exact (parse_field_cut i x r1 E).
Qed.

Lemma rt_cut_ctx i : forall c r, rt i = (Cut c, r) -> c = ifs.
Proof.
  induction i as [|a i IH]; intros c r; rewrite rt_unfold.
  - rewrite parse_element_nil. cbn [any]. discriminate.
  - destruct (parse_element (a :: i)) as [[b|x|x|s] r1] eqn:E; try discriminate.
    + cbn [any]. destruct (rt i) as [[[l b]|y|y|s] r2] eqn:E2; try discriminate.
      intros H. injection H as <- _. exact (IH y r2 eq_refl).
    + intros H. injection H as <- _. exact (parse_element_cut _ _ _ E).
Qed.

Lemma chunkp_cut_ctx i c r : chunkp i = (Cut c, r) -> c = ifs.
Proof.
  unfold chunkp, pmap. destruct (rt i) as [[x|y|y|s] r1] eqn:E; try discriminate.
  intros H. injection H as <- _. exact (rt_cut_ctx i y r1 E).
Qed.

Lemma rp_cut_ctx : forall n i, (slen i < n)%nat -> forall c r, rp i = (Cut c, r) -> c = ifs.
Proof.
  induction n as [|n IH]; intros i Hn c r; [lia|].
  rewrite rp_unfold. destruct (chunkp i) as [[a|x|x|s] r1] eqn:E; try discriminate.
  - pose proof (chunkp_consumes i a r1 E) as Hlt.
    destruct (rp r1) as [[l|y|y|s] r2] eqn:E2; try discriminate.
    intros H. injection H as <- _. apply (IH r1 ltac:(lia) y r2 E2).
  - intros H. injection H as <- _. exact (chunkp_cut_ctx i x r1 E).
Qed.

(** the context of the final error of the format parser *)
Definition bad_format_ctx : list ctx :=
  [Expected "invalid_format_specifier"; Expected "format_string"].

Lemma parse_format_cut s c r : parse_format s = (Cut c, r) -> c = bad_format_ctx.
Proof.
  rewrite parse_format_eq. destruct (rp s) as [[l|x|x|m] r1] eqn:E; try discriminate.
  intros H. injection H as <- _.
  rewrite (rp_cut_ctx (S (slen s)) s (Nat.lt_succ_diag_r _) x r1 E). reflexivity.
Qed.

Lemma parse_format_bad v : SegErr v -> exists r, parse_format v = (Cut bad_format_ctx, r).
Proof.
  intros H. apply parse_format_err in H. destruct H as [c [r H]].
  exists r. rewrite <- (parse_format_cut v c r H). exact H.
Qed.

(** a well-formed word whose content is no format: the format-argument parser fails for good,
    with the cursor back at the start of the word *)
Lemma format_arg_bad w v rest : WordArg w v -> SegErr v -> at_arg_end rest ->
  parse_format_arg (w ++ rest) = (Cut bad_format_ctx, w ++ rest).
Proof.
  intros Hw He Hr. unfold parse_format_arg, and_then.
  rewrite (quote_delimiter_word w v rest Hw Hr).
  destruct (parse_format_bad v He) as [r ->]. reflexivity.
Qed.

(** * B. the two-argument parser on "WORD1 gap TEXT" and on "WORD1 TEXT" *)
Lemma no_word_facts a : no_word a ->
  at_arg_end a /\ stops is_space a /\ head_in is_space a = false.
Proof.
  intros [->|[r ->]]; repeat split; try reflexivity; try exact I.
  cbn. right. reflexivity.
Qed.

Lemma word_head w v x : WordArg w v -> head_in is_space (w ++ x) = false.
Proof.
  intros Hw. pose proof (word_nonblank w v Hw) as H.
  destruct w as [|c w]; [destruct H|exact H].
Qed.

Lemma next_word_word w v rest : WordArg w v -> at_arg_end rest -> next_word (w ++ rest) = v.
Proof.
  intros Hw Hr. unfold next_word. destruct (string_accepts w v Hw) as [_ H].
  rewrite (H rest Hr). reflexivity.
Qed.

Section TwoArgs.
Context {B : Type} (what1 : string) (pr : sparser B) (args : string).
Let p2 := two_args (context (expected what1) parse_string) pr args.

(** the first word is accepted, the gap is skipped, and a failure of the second parser is the
    failure of the pair, with the description of the pair added *)
Lemma two_args_second_fails w1 v1 g a (b : bool) c r :
  WordArg w1 v1 -> gap g -> stops is_space a -> pr a = ((if b then Cut c else Back c), r) ->
  p2 (w1 ++ g ++ a)
  = ((if b then Cut (c ++ [Expected args]) else Back (c ++ [Expected args])), r).
Proof.
  intros Hw Hg Ha Hpr. unfold p2.
  destruct (ctx_accepts (expected what1) parse_string at_arg_end w1 v1 (string_accepts w1 v1 Hw))
    as [_ Hacc].
  specialize (Hacc (g ++ a) (gap_arg_end g a Hg)).
  set (pl := context (expected what1) parse_string) in *.
  unfold two_args, erased, value, pmap, separated_pair, preceded, bind. unfold context.
  rewrite Hacc. cbv beta iota. rewrite (multispace1_gap g a Hg Ha). cbv beta iota.
  unfold pmap. rewrite Hpr. destruct b; reflexivity.
Qed.

(** nothing that could be a word follows the first word directly: the separator fails *)
Lemma two_args_no_gap w1 v1 a :
  WordArg w1 v1 -> no_word a -> p2 (w1 ++ a) = (Back [Expected args], a).
Proof.
  intros Hw Ha. unfold p2. destruct (no_word_facts a Ha) as (Hend & Hst & _).
  destruct (ctx_accepts (expected what1) parse_string at_arg_end w1 v1 (string_accepts w1 v1 Hw))
    as [_ Hacc].
  specialize (Hacc a Hend).
  set (pl := context (expected what1) parse_string) in *.
  unfold two_args, erased, value, pmap, separated_pair, preceded, bind. unfold context.
  rewrite Hacc. cbv beta iota. rewrite (multispace1_stop a Hst). reflexivity.
Qed.

Lemma second_arg_error K k l pre bl w1 v1 g a (b : bool) c r :
  In (K, k, l, p2) arg_table -> WordArg w1 v1 -> gap g -> stops is_space a -> blanks bl ->
  pr a = ((if b then Cut c else Back c), r) ->
  lexes_fine pre (chars K ++ bl ++ w1 ++ g ++ a) ->
  parse (pre ++ chars K ++ bl ++ w1 ++ g ++ a)
  = ParseErr (message ((c ++ [Expected args]) ++ primary_ctx K k) r).
Proof.
  intros Hin Hw Hg Ha Hbl Hpr Hlf.
  apply (arg_error K k l p2 pre bl (w1 ++ g ++ a) b (c ++ [Expected args]) r Hin Hlf Hbl).
  - exact (word_head w1 v1 _ Hw).
  - pose proof (two_args_second_fails w1 v1 g a b c r Hw Hg Ha Hpr) as H.
    destruct b; exact H.
Qed.

Lemma no_gap_error K k l pre bl w1 v1 a :
  In (K, k, l, p2) arg_table -> WordArg w1 v1 -> no_word a -> blanks bl ->
  lexes_fine pre (chars K ++ bl ++ w1 ++ a) ->
  parse (pre ++ chars K ++ bl ++ w1 ++ a)
  = ParseErr (message ([Expected args] ++ primary_ctx K k) a).
Proof.
  intros Hin Hw Ha Hbl Hlf.
  apply (arg_error K k l p2 pre bl (w1 ++ a) false [Expected args] a Hin Hlf Hbl).
  - exact (word_head w1 v1 _ Hw).
  - exact (two_args_no_gap w1 v1 a Hw Ha).
Qed.
End TwoArgs.

(** * the two table entries *)
Definition xattr_match_args : sparser unit :=
  two_args (context (expected "attribute") parse_string)
           (context (expected "value") parse_string) "attribute_and_value".
Definition fprintf_args : sparser unit :=
  two_args (context (expected "filename") parse_string)
           (context (expected "format_string") parse_format_arg) "filename_and_format".

Lemma in_xattr_match : In ("-xattr-match"%string, KTest, LTwoStrings, xattr_match_args) arg_table.
Proof. unfold arg_table. do 30 right. left. reflexivity. Qed.
Lemma in_fprintf : In ("-fprintf"%string, KAction, LFileFormat, fprintf_args) arg_table.
Proof. unfold arg_table. do 33 right. left. reflexivity. Qed.
Lemma in_printf : In ("-printf"%string, KAction, LFormat, erased parse_format_arg) arg_table.
Proof. unfold arg_table. do 36 right. left. reflexivity. Qed.

(** * C. the second word is missing or cannot start a word *)

(** -xattr-match NAME, a gap, and then the end of the input or a ')' *)
Theorem xattr_match_second_bad pre bl w1 v1 g a :
  WordArg w1 v1 -> gap g -> no_word a -> blanks bl ->
  lexes_fine pre (chars "-xattr-match" ++ bl ++ w1 ++ g ++ a) ->
  parse (pre ++ chars "-xattr-match" ++ bl ++ w1 ++ g ++ a)
  = ParseErr (failed_msg (next_word a) KTest "-xattr-match" (Some "Expected a string"%string)).
Proof.
  intros Hw Hg Ha Hbl Hlf. destruct (no_word_facts a Ha) as (_ & Hst & _).
  rewrite (second_arg_error "attribute" (context (expected "value") parse_string) "attribute_and_value"
             "-xattr-match" KTest LTwoStrings pre bl w1 v1 g a false
             [Expected "string"; Expected "value"] a in_xattr_match Hw Hg Hst Hbl); [reflexivity| |exact Hlf].
  unfold context. rewrite (fail_string a Ha). reflexivity.
Qed.

(** -fprintf FILE, a gap, and then the end of the input or a ')': the explanation is the bare
    internal description "format_string" (error.rs has no text for it) *)
Theorem fprintf_second_bad pre bl w1 v1 g a :
  WordArg w1 v1 -> gap g -> no_word a -> blanks bl ->
  lexes_fine pre (chars "-fprintf" ++ bl ++ w1 ++ g ++ a) ->
  parse (pre ++ chars "-fprintf" ++ bl ++ w1 ++ g ++ a)
  = ParseErr (failed_msg (next_word a) KAction "-fprintf" (Some "format_string"%string)).
Proof.
  intros Hw Hg Ha Hbl Hlf. destruct (no_word_facts a Ha) as (_ & Hst & _).
  rewrite (second_arg_error "filename" (context (expected "format_string") parse_format_arg)
             "filename_and_format"
             "-fprintf" KAction LFileFormat pre bl w1 v1 g a false
             [Expected "format_string"] a in_fprintf Hw Hg Hst Hbl); [reflexivity| |exact Hlf].
  unfold context. rewrite (fail_format a Ha). reflexivity.
Qed.

(** no gap at all after the first word (end of input, or a ')' directly after it): the pair as a
    whole is reported missing *)
Theorem xattr_match_second_absent pre bl w1 v1 a :
  WordArg w1 v1 -> no_word a -> blanks bl ->
  lexes_fine pre (chars "-xattr-match" ++ bl ++ w1 ++ a) ->
  parse (pre ++ chars "-xattr-match" ++ bl ++ w1 ++ a)
  = ParseErr (failed_msg (next_word a) KTest "-xattr-match"
                (Some "Expected an attribute name and a value to compare"%string)).
Proof.
  intros Hw Ha Hbl Hlf.
  rewrite (no_gap_error "attribute" (context (expected "value") parse_string) "attribute_and_value"
             "-xattr-match" KTest LTwoStrings pre bl w1 v1 a in_xattr_match Hw Ha Hbl Hlf).
  reflexivity.
Qed.

Theorem fprintf_second_absent pre bl w1 v1 a :
  WordArg w1 v1 -> no_word a -> blanks bl ->
  lexes_fine pre (chars "-fprintf" ++ bl ++ w1 ++ a) ->
  parse (pre ++ chars "-fprintf" ++ bl ++ w1 ++ a)
  = ParseErr (failed_msg (next_word a) KAction "-fprintf" (Some "filename_and_format"%string)).
Proof.
  intros Hw Ha Hbl Hlf.
  rewrite (no_gap_error "filename" (context (expected "format_string") parse_format_arg)
             "filename_and_format"
             "-fprintf" KAction LFileFormat pre bl w1 v1 a in_fprintf Hw Ha Hbl Hlf).
  reflexivity.
Qed.

(** the keyword and its first word are the last things in the input, with or without blanks
    after them *)
Corollary xattr_match_second_missing pre bl w1 v1 :
  WordArg w1 v1 -> blanks bl -> lexes_fine pre (chars "-xattr-match" ++ bl ++ w1) ->
  parse (pre ++ chars "-xattr-match" ++ bl ++ w1)
  = ParseErr (failed_msg [] KTest "-xattr-match"
                (Some "Expected an attribute name and a value to compare"%string)).
Proof.
  intros Hw Hbl Hlf. rewrite <- (app_nil_r w1) in Hlf |- *.
  rewrite (xattr_match_second_absent pre bl w1 v1 [] Hw (or_introl eq_refl) Hbl Hlf).
  rewrite next_word_nil. reflexivity.
Qed.
Corollary xattr_match_second_missing_gap pre bl w1 v1 g :
  WordArg w1 v1 -> gap g -> blanks bl -> lexes_fine pre (chars "-xattr-match" ++ bl ++ w1 ++ g) ->
  parse (pre ++ chars "-xattr-match" ++ bl ++ w1 ++ g)
  = ParseErr (failed_msg [] KTest "-xattr-match" (Some "Expected a string"%string)).
Proof.
  intros Hw Hg Hbl Hlf. rewrite <- (app_nil_r g) in Hlf |- *.
  rewrite (xattr_match_second_bad pre bl w1 v1 g [] Hw Hg (or_introl eq_refl) Hbl Hlf).
  rewrite next_word_nil. reflexivity.
Qed.
Corollary fprintf_second_missing pre bl w1 v1 :
  WordArg w1 v1 -> blanks bl -> lexes_fine pre (chars "-fprintf" ++ bl ++ w1) ->
  parse (pre ++ chars "-fprintf" ++ bl ++ w1)
  = ParseErr (failed_msg [] KAction "-fprintf" (Some "filename_and_format"%string)).
Proof.
  intros Hw Hbl Hlf. rewrite <- (app_nil_r w1) in Hlf |- *.
  rewrite (fprintf_second_absent pre bl w1 v1 [] Hw (or_introl eq_refl) Hbl Hlf).
  rewrite next_word_nil. reflexivity.
Qed.
Corollary fprintf_second_missing_gap pre bl w1 v1 g :
  WordArg w1 v1 -> gap g -> blanks bl -> lexes_fine pre (chars "-fprintf" ++ bl ++ w1 ++ g) ->
  parse (pre ++ chars "-fprintf" ++ bl ++ w1 ++ g)
  = ParseErr (failed_msg [] KAction "-fprintf" (Some "format_string"%string)).
Proof.
  intros Hw Hg Hbl Hlf. rewrite <- (app_nil_r g) in Hlf |- *.
  rewrite (fprintf_second_bad pre bl w1 v1 g [] Hw Hg (or_introl eq_refl) Hbl Hlf).
  rewrite next_word_nil. reflexivity.
Qed.

(** * D. a format word whose content is no format *)
Definition bad_format_expl : option string := Some "Found an invalid format specifier"%string.

(** -printf WORD: the message quotes the whole content of the word (without its quotes), not the
    place inside it where the bad '%' stands: [and_then] resets the cursor to the start of the
    word when the inner parser fails *)
Theorem printf_bad_format pre bl w v rest :
  WordArg w v -> SegErr v -> at_arg_end rest -> blanks bl ->
  lexes_fine pre (chars "-printf" ++ bl ++ w ++ rest) ->
  parse (pre ++ chars "-printf" ++ bl ++ w ++ rest)
  = ParseErr (failed_msg v KAction "-printf" bad_format_expl).
Proof.
  intros Hw He Hr Hbl Hlf.
  rewrite (arg_error "-printf" KAction LFormat (erased parse_format_arg) pre bl (w ++ rest) true
             bad_format_ctx (w ++ rest) in_printf Hlf Hbl (word_head w v rest Hw)).
  - rewrite <- (next_word_word w v rest Hw Hr). reflexivity.
  - apply (erased_err parse_format_arg (w ++ rest) true). exact (format_arg_bad w v rest Hw He Hr).
Qed.

(** -fprintf FILE WORD *)
Theorem fprintf_bad_format pre bl w1 v1 g w2 v2 rest :
  WordArg w1 v1 -> gap g -> WordArg w2 v2 -> SegErr v2 -> at_arg_end rest -> blanks bl ->
  lexes_fine pre (chars "-fprintf" ++ bl ++ w1 ++ g ++ w2 ++ rest) ->
  parse (pre ++ chars "-fprintf" ++ bl ++ w1 ++ g ++ w2 ++ rest)
  = ParseErr (failed_msg v2 KAction "-fprintf" bad_format_expl).
Proof.
  intros Hw1 Hg Hw2 He Hr Hbl Hlf.
  rewrite (second_arg_error "filename" (context (expected "format_string") parse_format_arg)
             "filename_and_format"
             "-fprintf" KAction LFileFormat pre bl w1 v1 g (w2 ++ rest) true
             (bad_format_ctx ++ [Expected "format_string"]) (w2 ++ rest) in_fprintf Hw1 Hg
             (nonblank_stops w2 rest (word_nonblank w2 v2 Hw2)) Hbl).
  - rewrite <- (next_word_word w2 v2 rest Hw2 Hr). reflexivity.
  - unfold context. rewrite (format_arg_bad w2 v2 rest Hw2 He Hr). reflexivity.
  - exact Hlf.
Qed.

(** the converse for -printf, so that the error above is characteristic: on a well-formed word
    the argument parser fails exactly when the content is no format *)
Lemma format_arg_ok_or_bad w v rest : WordArg w v -> at_arg_end rest ->
  (exists fmt, Seg v fmt /\ parse_format_arg (w ++ rest) = (Ok fmt, rest))
  \/ (SegErr v /\ parse_format_arg (w ++ rest) = (Cut bad_format_ctx, w ++ rest)).
Proof.
  intros Hw Hr. destruct (seg_or_err v) as [[fmt Hs]|He].
  - left. exists fmt. split; [exact Hs|].
    destruct (format_accepts w v fmt Hw Hs) as [_ H]. exact (H rest Hr).
  - right. split; [exact He|exact (format_arg_bad w v rest Hw He Hr)].
Qed.

(** * first in the input: no hypothesis on a prefix *)
Corollary printf_bad_format_first bl w v rest :
  WordArg w v -> SegErr v -> at_arg_end rest -> blanks bl ->
  parse (chars "-printf" ++ bl ++ w ++ rest) = ParseErr (failed_msg v KAction "-printf" bad_format_expl).
Proof.
  intros Hw He Hr Hbl.
  exact (printf_bad_format [] bl w v rest Hw He Hr Hbl (lexes_fine_first _ _ _ _ _ in_printf)).
Qed.
Corollary fprintf_bad_format_first bl w1 v1 g w2 v2 rest :
  WordArg w1 v1 -> gap g -> WordArg w2 v2 -> SegErr v2 -> at_arg_end rest -> blanks bl ->
  parse (chars "-fprintf" ++ bl ++ w1 ++ g ++ w2 ++ rest)
  = ParseErr (failed_msg v2 KAction "-fprintf" bad_format_expl).
Proof.
  intros Hw1 Hg Hw2 He Hr Hbl.
  exact (fprintf_bad_format [] bl w1 v1 g w2 v2 rest Hw1 Hg Hw2 He Hr Hbl
           (lexes_fine_first _ _ _ _ _ in_fprintf)).
Qed.
Corollary xattr_match_second_bad_first bl w1 v1 g a :
  WordArg w1 v1 -> gap g -> no_word a -> blanks bl ->
  parse (chars "-xattr-match" ++ bl ++ w1 ++ g ++ a)
  = ParseErr (failed_msg (next_word a) KTest "-xattr-match" (Some "Expected a string"%string)).
Proof.
  intros Hw Hg Ha Hbl.
  exact (xattr_match_second_bad [] bl w1 v1 g a Hw Hg Ha Hbl (lexes_fine_first _ _ _ _ _ in_xattr_match)).
Qed.
Corollary fprintf_second_bad_first bl w1 v1 g a :
  WordArg w1 v1 -> gap g -> no_word a -> blanks bl ->
  parse (chars "-fprintf" ++ bl ++ w1 ++ g ++ a)
  = ParseErr (failed_msg (next_word a) KAction "-fprintf" (Some "format_string"%string)).
Proof.
  intros Hw Hg Ha Hbl.
  exact (fprintf_second_bad [] bl w1 v1 g a Hw Hg Ha Hbl (lexes_fine_first _ _ _ _ _ in_fprintf)).
Qed.

(** * [no_word] is exactly "no string can start here": everything else that is not a blank
    starts a word, so the cases above are all the ways the second word can be invalid from its
    first character *)
Lemma delimited_quote_soft q (s : string) i :
  match fst (delimited (literal s) (take_until0 q) (literal s) i) with
  | Ok _ | Back _ => True | _ => False end.
Proof.
  unfold delimited, preceded, terminated, bind, pmap, literal, take_until0.
  destruct (lit_ (chars s) i) as [r1|]; [|exact I].
  destruct (until_ q r1) as [[x y]|]; [|exact I].
  destruct (lit_ (chars s) y) as [r2|]; exact I.
Qed.

Lemma word_starts a : head_in is_space a = false -> ~ no_word a ->
  exists v r, parse_string a = (Ok v, r).
Proof.
  intros Hsp Hnw. destruct a as [|c a]; [exfalso; apply Hnw; left; reflexivity|].
  cbn [head_in] in Hsp.
  assert (Hb : bare_char c = true).
  { unfold bare_char. destruct (N.eqb_spec c 41) as [E|E].
    - exfalso. apply Hnw. right. exists a. rewrite E. reflexivity.
    - unfold is_space in Hsp. lia. }
  assert (H3 : exists v r, take_while 1 bare_char (c :: a) = (Ok v, r)).
  { unfold take_while. cbn [span]. rewrite Hb. destruct (span bare_char a) as [x y].
    eexists. eexists. reflexivity. }
  destruct H3 as (v3 & r3 & H3).
  unfold parse_string, context, quote_delimiter. rewrite alt_cons.
  pose proof (delimited_quote_soft 34 """" (c :: a)) as H1.
  destruct (delimited (literal """") (take_until0 34) (literal """") (c :: a)) as [[x|x|x|s] r1];
    try contradiction; [eexists; eexists; reflexivity|].
  rewrite alt_cons.
  pose proof (delimited_quote_soft 39 "'" (c :: a)) as H2.
  destruct (delimited (literal "'") (take_until0 39) (literal "'") (c :: a)) as [[x2|x2|x2|s] r2];
    try contradiction; [eexists; eexists; reflexivity|].
  rewrite alt_cons, H3. eexists. eexists. reflexivity.
Qed.
