(** Corollaries that combine results of several properties. *)
From Coq Require Import List String NArith Bool.
From FP Require Import Model.Chars Model.Ast Model.Sexp Model.Compile.
From FP Require Import Spec.GuileReader Spec.FileRecord Spec.FindSem.
From FP Require Import Proofs.RenderFacts Proofs.CompileWf.
Import ListNotations.

(** C20 at the level of the emitted TEXT: the program text reads back as the first form (which
    does not depend on the path) and the fixed context of the compiled expression filled with the
    string node that decodes to the path *)
Theorem render_text_one_place e o clk c p : compile e o clk = COk c ->
  read_all (scheme_text c p) = Some [erase (fst (render c [])); program_ctx c (SStr p)].
Proof.
  intro H. rewrite (reads_back _ _ _ _ p H). rewrite render_snd_erase.
  now rewrite (render_fst_indep c p []).
Qed.

(** C09 in terms of find's rules: an expression without any action produces no output and no
    stop request by itself *)
Lemma no_action_silent h e : has_action e = false -> forall clk f,
  snd (fst (feval h e clk f)) = [] /\ snd (feval h e clk f) = false.
Proof.
  induction e as [e IH|e IH|a IHa b IHb|a IHa b IHb|a IHa b IHb|t|a|g|]; cbn [has_action]; intros Ha clk f;
    try discriminate; cbn [feval].
  - now apply IH.
  - destruct (IH Ha clk f) as [H1 H2]. destruct (feval h e clk f) as [[b0 o0] q0]. cbn in *. now subst.
  - apply orb_false_iff in Ha as [H1 H2].
    destruct (IHa H1 clk f) as [A1 A2].
    destruct (IHb H2 (skipn (clock_reads a) clk) f) as [B1 B2].
    destruct (feval h a clk f) as [[ba oa] qa], (feval h b _ f) as [[bb ob] qb]. cbn in *. subst.
    destruct ba; cbn; auto.
  - apply orb_false_iff in Ha as [H1 H2].
    destruct (IHa H1 clk f) as [A1 A2].
    destruct (IHb H2 (skipn (clock_reads a) clk) f) as [B1 B2].
    destruct (feval h a clk f) as [[ba oa] qa], (feval h b _ f) as [[bb ob] qb]. cbn in *. subst.
    destruct ba; cbn; auto.
  - apply orb_false_iff in Ha as [H1 H2].
    destruct (IHa H1 clk f) as [A1 A2].
    destruct (IHb H2 (skipn (clock_reads a) clk) f) as [B1 B2].
    destruct (feval h a clk f) as [[ba oa] qa], (feval h b _ f) as [[bb ob] qb]. cbn in *. subst.
    destruct ba; cbn; auto.
  - auto.
  - auto.
  - auto.
Qed.

(** ... so the wrapped expression prints the relative path, newline-terminated, to stdout for
    exactly the files on which the expression is true, and nothing else *)
Theorem implicit_print_meaning h e clk f : has_action e = false ->
  feval h (wrap e) clk f =
    (fst (fst (feval h e clk f)),
     if fst (fst (feval h e clk f)) then [(DStdout, f_relative_path f, Some 10%N)] else [],
     false).
Proof.
  intro Ha. unfold wrap. rewrite Ha. cbn [feval].
  destruct (no_action_silent h e Ha clk f) as [H1 H2].
  destruct (feval h e clk f) as [[b0 o0] q0]. cbn in *. subst. destruct b0; reflexivity.
Qed.
