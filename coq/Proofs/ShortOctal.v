(** C14o: a backslash followed by FEWER than three octal digits is never an octal escape. *)
From Coq Require Import List String Ascii NArith Bool Arith Lia ZifyBool ZifyN.
From FP Require Import Model.Chars Model.Winnow Model.Ast Model.Args Model.Format.
From FP Require Import Spec.Decimal Spec.FormatSpec Proofs.FormatSeg.
Import ListNotations.
Local Open Scope N_scope.

Lemma octal_plain c : Octal c -> Plain c.
Proof. unfold Octal, Plain, pct, bsl. lia. Qed.

(** * inversion of [Seg] at a backslash and at a plain character *)
Lemma seg_bsl_inv i es : Seg (bsl :: i) es ->
  exists e x rest es', i = e ++ rest /\ Escape e x rest /\ Seg rest es' /\ es = ESpecial x :: es'.
Proof.
  intros H. remember (bsl :: i) as s eqn:Es.
  destruct H as [|d f rest es Hd Hs|e x rest es He Hs|l rest es Hne Hl Hb Hs].
  - discriminate Es.
  - injection Es as Ec _. unfold pct, bsl in Ec. discriminate Ec.
  - injection Es as Ei. exists e, x, rest, es. repeat split; [symmetry; exact Ei|exact He|exact Hs].
  - destruct l as [|c l]; [contradiction|]. injection Es as Ec _. subst c.
    inversion Hl as [|y z [_ Hc] _]; subst. contradiction.
Qed.

Lemma plain_prefix a : Forall Plain a -> forall r l rest1,
  a ++ r = l ++ rest1 -> Boundary rest1 -> exists l', l = a ++ l' /\ r = l' ++ rest1.
Proof.
  induction a as [|x a IH]; intros Ha r l rest1 E Hb.
  - exists l. split; [reflexivity|exact E].
  - inversion Ha as [|y z Hx Ha']; subst. destruct l as [|y l].
    + cbn [app] in E. symmetry in E. destruct (Hb x (a ++ r) E) as [->| ->]; destruct Hx; contradiction.
    + cbn [app] in E. injection E as <- E.
      destruct (IH Ha' r l rest1 E Hb) as (l' & -> & Hr). exists l'. split; [reflexivity|exact Hr].
Qed.

Lemma seg_plain_inv a r es : a <> [] -> Forall Plain a -> Seg (a ++ r) es ->
  exists l rest' es', es = ELit (a ++ l) :: es' /\ Forall Plain l /\ r = l ++ rest'
                      /\ Boundary rest' /\ Seg rest' es'.
Proof.
  intros Hne Ha H. destruct a as [|c a]; [contradiction|].
  inversion Ha as [|y z Hc Ha']; subst.
  remember ((c :: a) ++ r) as s eqn:Es.
  destruct H as [|d f rest es Hd Hs|e x rest es He Hs|l rest es Hnl Hl Hb Hs].
  - discriminate Es.
  - injection Es as Ec _. subst c. destruct Hc as [Hc _]. contradiction.
  - injection Es as Ec _. subst c. destruct Hc as [_ Hc]. contradiction.
  - symmetry in Es. destruct (plain_prefix (c :: a) Ha r l rest Es Hb) as (l' & -> & Hr).
    exists l', rest, es. repeat split; try assumption.
    apply Forall_app in Hl as [_ Hl]. exact Hl.
Qed.

(** * no proper escape starts at a short run of octal digits *)
Lemma table_not_ascii w x : In (w, x) escape_table -> forall n, x <> XAscii n.
Proof.
  intros Hin n. unfold escape_table in Hin.
  repeat (destruct Hin as [Hin|Hin]; [inversion Hin; discriminate|]). destruct Hin.
Qed.
Lemma table_not_octal w x c r0 r : In (w, x) escape_table -> chars w ++ r0 = c :: r -> ~ Octal c.
Proof.
  intros Hin E. unfold escape_table in Hin.
  repeat (destruct Hin as [Hin|Hin];
          [inversion Hin; subst; injection E as <- _; unfold Octal; cbn; lia|]).
  destruct Hin.
Qed.

(** fewer than three octal digits, then no octal digit: not three octal digits *)
Lemma short_not_three os rest a b c r :
  Forall Octal os -> (List.length os < 3)%nat -> not_starting_with Octal rest ->
  os ++ rest = a :: b :: c :: r -> ~ (Octal a /\ Octal b /\ Octal c).
Proof.
  intros Ho Hl Hr E (Ha & Hb & Hc).
  destruct os as [|o1 [|o2 [|o3 os]]]; cbn [app List.length] in *; try lia; subst;
    try (injection E as -> E); try (injection E as -> E); try (injection E as -> E);
    try subst rest; cbn [not_starting_with] in Hr; contradiction.
Qed.

Section Short.
Variables (os rest : str).
Hypothesis Hoct : Forall Octal os.
Hypothesis Hlen : (List.length os < 3)%nat.
Hypothesis Hrest : not_starting_with Octal rest.

Lemma short_escape1 e x r0 : os ++ rest = e ++ r0 -> Escape1 e x r0 ->
  (exists os', os = 48 :: os' /\ e = chars "0" /\ x = XNull /\ r0 = os' ++ rest)
  \/ (os = [] /\ forall n, x <> XAscii n).
Proof.
  intros E H. destruct H as [a b c r0 Ha Hb Hc|r0 Hn|w x r0 Hin].
  - exfalso. exact (short_not_three os rest a b c r0 Hoct Hlen Hrest E (conj Ha (conj Hb Hc))).
  - destruct os as [|o os'].
    + right. split; [reflexivity|discriminate].
    + left. injection E as -> E. exists os'. repeat split. symmetry. exact E.
  - destruct os as [|o os'].
    + right. split; [reflexivity|exact (table_not_ascii w x Hin)].
    + exfalso. inversion Hoct as [|y z Ho _]; subst. symmetry in E.
      exact (table_not_octal w x o r0 (os' ++ rest) Hin E Ho).
Qed.

(** the element standing at the backslash is never an octal escape *)
Lemma short_octal_head es : Seg (bsl :: os ++ rest) es -> forall n es', es <> ESpecial (XAscii n) :: es'.
Proof.
  intros H n es' ->. destruct (seg_bsl_inv _ _ H) as (e & x & r0 & es0 & E & He & _ & Hes).
  injection Hes as <- _. destruct He as [H1|(_ & Hx & _)]; [|discriminate Hx].
  destruct (short_escape1 e (XAscii n) r0 E H1) as [(os' & _ & _ & Hx & _)|[_ Hx]];
    [discriminate Hx|exact (Hx n eq_refl)].
Qed.
End Short.

(** backslash, '0', at most one more octal digit, then no octal digit: the NUL escape, and the
    digit (if any) starts the text that follows *)
Lemma short_octal_null os' rest es :
  Forall Octal os' -> (List.length os' < 2)%nat -> not_starting_with Octal rest ->
  Seg (bsl :: 48 :: os' ++ rest) es -> exists es', es = ESpecial XNull :: es' /\ Seg (os' ++ rest) es'.
Proof.
  intros Ho Hl Hr H.
  assert (Ho0 : Forall Octal (48 :: os')) by (constructor; [unfold Octal; lia|exact Ho]).
  assert (Hl0 : (List.length (48%N :: os') < 3)%nat) by (cbn [List.length]; lia).
  destruct (seg_bsl_inv _ _ H) as (e & x & r0 & es0 & E & He & Hs & ->).
  change (48 :: os' ++ rest) with ((48 :: os') ++ rest) in E.
  destruct He as [H1|(-> & _ & Hno)].
  - destruct (short_escape1 (48 :: os') rest Ho0 Hl0 Hr e x r0 E H1)
      as [(os2 & Eo & _ & -> & ->)|[Eo _]]; [|discriminate Eo].
    injection Eo as <-. exists es0. split; [reflexivity|exact Hs].
  - exfalso. cbn [app] in E. apply (Hno (chars "0") XNull (os' ++ rest)); [symmetry; exact E|].
    apply Esc_null. intros b c r Eb [Hb Hc].
    destruct os' as [|o1 [|o2 os']]; cbn [app List.length] in *; try lia.
    + subst rest. cbn [not_starting_with] in Hr. contradiction.
    + injection Eb as -> Eb. subst rest. cbn [not_starting_with] in Hr. contradiction.
Qed.

(** backslash, an octal digit other than '0', at most one more, then no octal digit: the
    backslash stands for itself and the digits open the literal that follows *)
Lemma short_octal_backslash c os' rest es :
  Octal c -> c <> 48 -> Forall Octal os' -> (List.length os' < 2)%nat ->
  not_starting_with Octal rest -> Seg (bsl :: c :: os' ++ rest) es ->
  exists l rest' es', es = ESpecial XBackslash :: ELit (c :: os' ++ l) :: es'
    /\ Forall Plain l /\ rest = l ++ rest' /\ Boundary rest' /\ Seg rest' es'.
Proof.
  intros Hc Hc0 Ho Hl Hr H.
  assert (Ho0 : Forall Octal (c :: os')) by (constructor; assumption).
  assert (Hl0 : (List.length (c :: os') < 3)%nat) by (cbn [List.length]; lia).
  destruct (seg_bsl_inv _ _ H) as (e & x & r0 & es0 & E & He & Hs & ->).
  change (c :: os' ++ rest) with ((c :: os') ++ rest) in E.
  destruct He as [H1|(-> & -> & _)].
  - exfalso. destruct (short_escape1 (c :: os') rest Ho0 Hl0 Hr e x r0 E H1)
      as [(os2 & Eo & _)|[Eo _]]; [|discriminate Eo].
    injection Eo as Ec _. contradiction.
  - cbn [app] in E. subst r0.
    assert (Hp : Forall Plain (c :: os')).
    { apply Forall_forall. intros y Hy. apply octal_plain.
      rewrite Forall_forall in Ho0. exact (Ho0 y Hy). }
    destruct (seg_plain_inv (c :: os') rest es0 ltac:(discriminate) Hp Hs)
      as (l & rest' & es' & -> & Hpl & Er & Hb & Hs').
    exists l, rest', es'. repeat split; assumption.
Qed.

(** * the same about the model's parser (by [parse_format_seg]) *)
Lemma pf_short_octal_head os rest es :
  Forall Octal os -> (List.length os < 3)%nat -> not_starting_with Octal rest ->
  parse_format (bsl :: os ++ rest) = (Ok es, []) -> forall n es', es <> ESpecial (XAscii n) :: es'.
Proof.
  intros Ho Hl Hr H. apply parse_format_seg in H. exact (short_octal_head os rest Ho Hl Hr es H).
Qed.
Lemma pf_short_octal_null os' rest es :
  Forall Octal os' -> (List.length os' < 2)%nat -> not_starting_with Octal rest ->
  parse_format (bsl :: 48 :: os' ++ rest) = (Ok es, []) ->
  exists es', es = ESpecial XNull :: es' /\ parse_format (os' ++ rest) = (Ok es', []).
Proof.
  intros Ho Hl Hr H. apply parse_format_seg in H.
  destruct (short_octal_null os' rest es Ho Hl Hr H) as (es' & -> & Hs).
  exists es'. split; [reflexivity|]. apply parse_format_seg. exact Hs.
Qed.
Lemma pf_short_octal_backslash c os' rest es :
  Octal c -> c <> 48 -> Forall Octal os' -> (List.length os' < 2)%nat ->
  not_starting_with Octal rest -> parse_format (bsl :: c :: os' ++ rest) = (Ok es, []) ->
  exists l rest' es', es = ESpecial XBackslash :: ELit (c :: os' ++ l) :: es'
    /\ Forall Plain l /\ rest = l ++ rest' /\ Boundary rest' /\ parse_format rest' = (Ok es', []).
Proof.
  intros Hc Hc0 Ho Hl Hr H. apply parse_format_seg in H.
  destruct (short_octal_backslash c os' rest es Hc Hc0 Ho Hl Hr H)
    as (l & rest' & es' & -> & Hpl & Er & Hb & Hs).
  exists l, rest', es'. repeat split; try assumption. apply parse_format_seg. exact Hs.
Qed.

Lemma short_never_octal os rest es :
  Forall Octal os -> (List.length os < 3)%nat -> not_starting_with Octal rest ->
  Seg (bsl :: os ++ rest) es -> forall n es', es <> ESpecial (XAscii n) :: es'.
Proof. intros Ho Hl Hr H. exact (short_octal_head os rest Ho Hl Hr es H). Qed.

(** * the codes of parsed octal escapes are below 512, hence no surrogates *)
From FP Require Model.Compile.

Lemma escape_ascii_small e x rest : Escape e x rest -> forall n, x = XAscii n -> n <= 511.
Proof.
  intros [H1|(_ & Hx & _)] n En.
  - destruct H1 as [a b c r Ha Hb Hc|r Hr|w x r Hin].
    + injection En as <-. unfold Octal in Ha, Hb, Hc. unfold oct. lia.
    + discriminate En.
    + exfalso. exact (table_not_ascii w x Hin n En).
  - rewrite Hx in En. discriminate En.
Qed.

Lemma seg_ascii_small s es : Seg s es -> forall n, In (ESpecial (XAscii n)) es -> n <= 511.
Proof.
  intros H. induction H as [|d f rest es Hd Hs IH|e x rest es He Hs IH|l rest es Hne Hl Hb Hs IH];
    intros n Hin.
  - destruct Hin.
  - destruct Hin as [Hin|Hin]; [discriminate Hin|exact (IH n Hin)].
  - destruct Hin as [Hin|Hin]; [|exact (IH n Hin)].
    injection Hin as Hx. exact (escape_ascii_small e x rest He n Hx).
  - destruct Hin as [Hin|Hin]; [discriminate Hin|exact (IH n Hin)].
Qed.

Lemma small_is_scalar n : n <= 511 -> Compile.scalar_or_zero n = n.
Proof.
  intros Hn. unfold Compile.scalar_or_zero.
  destruct (55296 <=? n) eqn:E; [|reflexivity]. apply N.leb_le in E. lia.
Qed.

Lemma parse_format_ok_rest : forall i fmt r, parse_format i = (Ok fmt, r) -> r = [].
Proof.
  intros i fmt r H.
  destruct (parse_format_total i) as [(es & He)|(c & r' & He)]; rewrite He in H.
  - injection H as _ <-. reflexivity.
  - discriminate H.
Qed.

Lemma parsed_codes_are_scalar : forall fmt i r n,
  parse_format i = (Ok fmt, r) -> In (ESpecial (XAscii n)) fmt ->
  n <= 511 /\ Compile.scalar_or_zero n = n.
Proof.
  intros fmt i r n H Hin. pose proof (parse_format_ok_rest i fmt r H) as ->.
  apply parse_format_seg in H. pose proof (seg_ascii_small i fmt H n Hin) as Hn.
  split; [exact Hn|exact (small_is_scalar n Hn)].
Qed.
