(** Everything the compiler emits is well formed in the sense of Proofs/ReaderRoundTrip.v, for
    ALL expressions, options, clocks and device paths; hence the emitted text reads back as the
    erasure of the two rendered forms. *)
From Coq Require Import List String NArith Bool Lia ZifyBool ZifyN.
From FP Require Import Model.Chars Model.Ast Model.Sexp Model.Compile Spec.GuileReader
  Proofs.ReaderRoundTrip.
Import ListNotations.
Local Open Scope N_scope.

(** * Atoms *)

(** atom characters other than the backslash *)
Definition plain (c : N) : bool := atom_char c && negb (c =? 92).
(** lower-case hexadecimal digits *)
Definition hexd (c : N) : bool := ((48 <=? c) && (c <=? 57)) || ((97 <=? c) && (c <=? 102)).

Lemma hexd_plain : forall c, hexd c = true -> plain c = true.
Proof. intros c H. unfold hexd in H. unfold plain, atom_char. lia. Qed.
Lemma plain_atom_char : forall c, plain c = true -> atom_char c = true.
Proof. intros c H. unfold plain in H. apply andb_true_iff in H. exact (proj1 H). Qed.

Lemma forallb_impl : forall (P Q : N -> bool) l,
  (forall c, P c = true -> Q c = true) -> forallb P l = true -> forallb Q l = true.
Proof.
  intros P Q l HPQ. induction l as [|c l IH]; intros H; [reflexivity|].
  cbn [forallb] in *. apply andb_true_iff in H. destruct H as [Hc Hl].
  rewrite (HPQ c Hc), (IH Hl). reflexivity.
Qed.

Lemma plain_no_backslash : forall a, forallb plain a = true -> mem 92 a = false.
Proof.
  induction a as [|c a IH]; intros H; [reflexivity|].
  cbn [forallb] in H. apply andb_true_iff in H. destruct H as [Hc Ha].
  cbn [mem]. rewrite (IH Ha). unfold plain in Hc. lia.
Qed.

Lemma valid_plain : forall c a,
  (c =? 46) = false -> forallb plain (c :: a) = true -> valid_atom (c :: a) = true.
Proof.
  intros c a Hdot H. unfold valid_atom. cbn [nonempty andb].
  rewrite (forallb_impl plain atom_char (c :: a) plain_atom_char H). cbn [andb].
  unfold atom_ok. cbn [str_eqb]. rewrite Hdot. cbn [andb negb].
  rewrite (plain_no_backslash (c :: a) H). reflexivity.
Qed.

Lemma valid_hexd : forall a, nonempty a = true -> forallb hexd a = true -> valid_atom a = true.
Proof.
  intros [|c a] Hne H; [discriminate Hne|]. apply valid_plain.
  - cbn [forallb] in H. apply andb_true_iff in H. destruct H as [Hc _]. unfold hexd in Hc. lia.
  - exact (forallb_impl hexd plain (c :: a) hexd_plain H).
Qed.

(** character syntax #\x.. *)
Lemma valid_charlit : forall a, nonempty a = true -> forallb hexd a = true ->
  valid_atom (chars "#\x" ++ a) = true.
Proof.
  intros [|c a] Hne H; [discriminate Hne|].
  change (chars "#\x") with [35; 92; 120]. cbn [app]. unfold valid_atom. cbn [nonempty andb].
  assert (Hc : forallb atom_char (35 :: 92 :: 120 :: c :: a) = true).
  { cbn [forallb]. change (atom_char 35) with true. change (atom_char 92) with true.
    change (atom_char 120) with true. cbn [andb].
    apply (forallb_impl plain atom_char (c :: a) plain_atom_char).
    exact (forallb_impl hexd plain (c :: a) hexd_plain H). }
  rewrite Hc. cbn [andb]. unfold atom_ok. cbn [str_eqb char_syntax].
  change (35 =? 46) with false. change (35 =? 35) with true. change (92 =? 92) with true.
  cbn [andb negb]. apply orb_true_r.
Qed.

(** * Printed numbers *)

Lemma digit_char_hexd : forall d, d < 16 -> hexd (digit_char d) = true.
Proof. intros d H. unfold digit_char, hexd. destruct (d <? 10) eqn:E; lia. Qed.

Lemma print_radix_aux_hexd : forall fuel radix n acc,
  0 < radix -> radix <= 16 -> forallb hexd acc = true ->
  forallb hexd (print_radix_aux fuel radix n acc) = true.
Proof.
  induction fuel as [|f IH]; intros radix n acc H0 H16 Hacc; cbn [print_radix_aux].
  - exact Hacc.
  - destruct (n <? radix) eqn:E.
    + cbn [forallb]. rewrite Hacc. rewrite digit_char_hexd by lia. reflexivity.
    + apply IH; [exact H0 | exact H16 |]. cbn [forallb]. rewrite Hacc.
      rewrite digit_char_hexd; [reflexivity|].
      assert (Hm : n mod radix < radix) by (apply N.mod_lt; lia). lia.
Qed.

Lemma print_radix_aux_nonempty : forall fuel radix n acc,
  nonempty acc = true -> nonempty (print_radix_aux fuel radix n acc) = true.
Proof.
  induction fuel as [|f IH]; intros radix n acc H; cbn [print_radix_aux]; [exact H|].
  destruct (n <? radix); [reflexivity | apply IH; reflexivity].
Qed.

Lemma print_radix_hexd : forall radix n, 0 < radix -> radix <= 16 ->
  forallb hexd (print_radix radix n) = true.
Proof. intros radix n H0 H16. unfold print_radix. apply print_radix_aux_hexd; auto. Qed.

Lemma print_radix_nonempty : forall radix n, nonempty (print_radix radix n) = true.
Proof.
  intros radix n. unfold print_radix. cbn [print_radix_aux].
  destruct (n <? radix); [reflexivity | apply print_radix_aux_nonempty; reflexivity].
Qed.

Lemma print_dec_hexd : forall n, forallb hexd (print_dec n) = true.
Proof. intros n. apply print_radix_hexd; lia. Qed.
Lemma print_hex2_hexd : forall n, forallb hexd (print_hex2 n) = true.
Proof.
  intros n. unfold print_hex2, print_hex.
  destruct (n <? 16); [cbn [forallb]; change (hexd 48) with true; cbn [andb]|];
    apply print_radix_hexd; lia.
Qed.
Lemma print_hex2_nonempty : forall n, nonempty (print_hex2 n) = true.
Proof.
  intros n. unfold print_hex2, print_hex.
  destruct (n <? 16); [reflexivity | apply print_radix_nonempty].
Qed.

(** * Building blocks *)

Lemma wf_atom : forall s, valid_atom (chars s) = true -> wf (atom s).
Proof. intros s H. exact H. Qed.

Lemma wf_num : forall n, wf (num n).
Proof.
  intros n. unfold num. cbn [wf]. apply valid_hexd;
    [apply print_radix_nonempty | apply print_dec_hexd].
Qed.

Lemma wf_ident : forall kind n, forallb plain (chars kind) = true -> wf (ident kind n).
Proof.
  intros kind n Hk. unfold ident. cbn [wf]. change (chars "%lf3:") with [37; 108; 102; 51; 58].
  cbn [app]. apply valid_plain; [reflexivity|].
  cbn [forallb]. change (plain 37) with true. change (plain 108) with true.
  change (plain 102) with true. change (plain 51) with true. change (plain 58) with true.
  cbn [andb]. rewrite forallb_app, Hk. cbn [andb forallb]. change (plain 58) with true. cbn [andb].
  exact (forallb_impl hexd plain _ hexd_plain (print_dec_hexd n)).
Qed.

Lemma wf_charlit : forall a, nonempty a = true -> forallb hexd a = true ->
  wf (LAtom (chars "#\x" ++ a)).
Proof. intros a Hne H. cbn [wf]. apply valid_charlit; assumption. Qed.

Lemma wf_terminator : forall t, wf (terminator_escape t).
Proof.
  intros [c|]; unfold terminator_escape.
  - apply wf_charlit; [apply print_hex2_nonempty | apply print_hex2_hexd].
  - apply wf_atom. reflexivity.
Qed.

Lemma wf_lstr : forall u, wf (lstr u).
Proof. intros u. unfold lstr. cbn [wf]. constructor; [exact I | constructor]. Qed.

Lemma sep_ok_items_sep : forall sep x l, nonempty sep = true -> sep_ok x (items_sep sep l) = true.
Proof. intros sep x [|y l] H; cbn [items_sep sep_ok]; [reflexivity | rewrite H; reflexivity]. Qed.

Lemma wf_items_sep : forall sep l,
  blank sep -> nonempty sep = true -> Forall wf l -> wf_items (items_sep sep l).
Proof.
  intros sep l Hb Hne. induction l as [|x l IH]; intros H; cbn [items_sep wf_items]; [exact I|].
  inversion H as [|x' l' Hx Hl]; subst.
  repeat split; [exact Hb | exact Hx | apply sep_ok_items_sep; exact Hne | apply IH; exact Hl].
Qed.

Lemma blank_nil : blank [].
Proof. reflexivity. Qed.
Lemma blank_sp : blank [32].
Proof. reflexivity. Qed.

Lemma wf_list : forall its trail, wf_items its -> blank trail -> wf (LList its trail).
Proof. intros its trail H1 H2. cbn [wf]. split; assumption. Qed.
Lemma wf_items_nil : wf_items LNil.
Proof. exact I. Qed.
Lemma wf_items_cons : forall ws x r,
  blank ws -> wf x -> sep_ok x r = true -> wf_items r -> wf_items (LCons ws x r).
Proof. intros ws x r H1 H2 H3 H4. cbn [wf_items]. repeat split; assumption. Qed.
Lemma sep_ok_nil : forall x, sep_ok x LNil = true.
Proof. reflexivity. Qed.
Lemma sep_ok_ws : forall x c ws y r, sep_ok x (LCons (c :: ws) y r) = true.
Proof. reflexivity. Qed.
Lemma sep_ok_after_list : forall its trail r, sep_ok (LList its trail) r = true.
Proof. intros its trail [|ws y r]; [reflexivity|]. cbn [sep_ok needs_sep negb]. apply orb_true_r. Qed.
Lemma sep_ok_after_str : forall ps r, sep_ok (LStr ps) r = true.
Proof. intros ps [|ws y r]; [reflexivity|]. cbn [sep_ok needs_sep negb]. apply orb_true_r. Qed.

Lemma wf_lst : forall l, Forall wf l -> wf (lst l).
Proof.
  intros [|x l] H; unfold lst.
  - apply wf_list; [exact I | exact blank_nil].
  - inversion H as [|x' l' Hx Hl]; subst.
    apply wf_list; [|exact blank_nil].
    apply wf_items_cons; [exact blank_nil | exact Hx | apply sep_ok_items_sep; reflexivity |].
    apply wf_items_sep; [exact blank_sp | reflexivity | exact Hl].
Qed.

Lemma blank_nl : forall n, blank (nl n).
Proof.
  intros n. unfold blank, nl. cbn [forallb]. change (is_blank 10) with true. cbn [andb].
  induction n as [|n IH]; [reflexivity|]. cbn [repeat forallb]. rewrite IH. reflexivity.
Qed.

Lemma wf_call0 : forall f, valid_atom (chars f) = true -> wf (call0 f).
Proof. intros f H. unfold call0. apply wf_lst. constructor; [apply wf_atom; exact H | constructor]. Qed.

Ltac wf_tac :=
  repeat first
    [ assumption
    | exact I
    | exact blank_nil
    | exact blank_sp
    | apply blank_nl
    | apply wf_num
    | apply wf_lstr
    | apply wf_terminator
    | apply wf_ident; reflexivity
    | apply wf_atom; reflexivity
    | apply wf_call0; reflexivity
    | apply wf_lst
    | apply Forall_cons
    | apply Forall_nil
    | apply wf_list
    | apply wf_items_cons
    | apply wf_items_nil
    | apply sep_ok_nil
    | apply sep_ok_ws
    | apply sep_ok_after_list
    | apply sep_ok_after_str
    | apply sep_ok_items_sep; reflexivity ].

Lemma wf_binding : forall a b, wf a -> wf b -> wf (binding a b).
Proof. intros a b Ha Hb. unfold binding. wf_tac. Qed.

Lemma wf_cmp_op : forall T (c : cmp T), wf (atom (cmp_op c)).
Proof. intros T [v|v|v]; apply wf_atom; reflexivity. Qed.

Lemma wf_matcher_name : forall pat ci, wf (atom (matcher_name pat ci)).
Proof.
  intros pat ci. unfold matcher_name.
  destruct (is_pattern pat); destruct ci; apply wf_atom; reflexivity.
Qed.

Lemma wf_matcher_binding : forall idx pat ci, wf (matcher_binding idx pat ci).
Proof.
  intros idx pat ci. unfold matcher_binding. pose proof (wf_matcher_name pat ci) as Hn.
  apply wf_binding; wf_tac.
Qed.

(** * Managers *)

Definition wf_mgr (m : mgr) : Prop :=
  match m with
  | ML l => Forall wf (l_vars l) /\ Forall wf (l_fini l)
  | MD d => Forall wf (d_vars d)
  end.

Lemma Forall_snoc : forall (l : list lsexp) x, Forall wf l -> wf x -> Forall wf (l ++ [x]).
Proof. intros l x Hl Hx. apply Forall_app. split; [exact Hl | constructor; [exact Hx | constructor]]. Qed.
Lemma Forall_snoc2 : forall (l : list lsexp) x y,
  Forall wf l -> wf x -> wf y -> Forall wf (l ++ [x; y]).
Proof. intros l x y Hl Hx Hy. apply Forall_app. split; [exact Hl | repeat constructor; assumption]. Qed.

Lemma l_init_default_port_wf : forall m,
  wf_mgr (ML m) -> wf_mgr (ML (snd (l_init_default_port m))).
Proof.
  intros m [Hv Hf]. unfold l_init_default_port. destruct (l_default m) as [p|]; cbn [snd wf_mgr].
  - split; assumption.
  - cbn [l_vars l_fini]. split; [|exact Hf].
    apply Forall_snoc2; [exact Hv | apply wf_binding; wf_tac | apply wf_binding; wf_tac].
Qed.

Lemma l_init_file_port_wf : forall f m,
  wf_mgr (ML m) -> wf_mgr (ML (snd (l_init_file_port f m))).
Proof.
  intros f m [Hv Hf]. unfold l_init_file_port.
  destruct (assoc str_eqb f (l_files m)) as [p|]; cbn [snd wf_mgr].
  - split; assumption.
  - cbn [l_vars l_fini]. split.
    + apply Forall_snoc2; [exact Hv | apply wf_binding; wf_tac | apply wf_binding; wf_tac].
    + apply Forall_snoc; [exact Hf | wf_tac].
Qed.

Lemma l_register_printer_wf : forall p term m,
  wf_mgr (ML m) -> wf_mgr (ML (snd (l_register_printer p term m))).
Proof.
  intros p term m [Hv Hf]. unfold l_register_printer.
  destruct (assoc pkey_eqb (p, term) (l_printers m)) as [i|]; cbn [snd wf_mgr].
  - split; assumption.
  - cbn [l_vars l_fini]. split; [|exact Hf].
    apply Forall_snoc; [exact Hv | apply wf_binding; wf_tac].
Qed.

Lemma l_register_match_wf : forall pat ci m,
  wf_mgr (ML m) -> wf_mgr (ML (snd (l_register_match pat ci m))).
Proof.
  intros pat ci m [Hv Hf]. unfold l_register_match.
  destruct (assoc mkey_eqb (pat, ci) (l_matches m)) as [i|]; cbn [snd wf_mgr].
  - split; assumption.
  - cbn [l_vars l_fini]. split; [|exact Hf].
    apply Forall_snoc; [exact Hv | apply wf_matcher_binding].
Qed.

Lemma d_register_printer_wf : forall t m,
  wf_mgr (MD m) -> wf_mgr (MD (snd (d_register_printer t m))).
Proof.
  intros t m Hv. cbn [wf_mgr] in Hv. unfold d_register_printer.
  destruct (assoc target_eqb t (d_printers m)) as [i|]; cbn [snd wf_mgr]; [exact Hv|].
  cbn [d_vars]. apply Forall_snoc; [exact Hv|].
  assert (Hc : wf (LAtom (chars "#\x" ++ print_hex2 (d_idx m))))
    by (apply wf_charlit; [apply print_hex2_nonempty | apply print_hex2_hexd]).
  apply wf_binding; wf_tac.
Qed.

Lemma d_register_match_wf : forall pat ci m,
  wf_mgr (MD m) -> wf_mgr (MD (snd (d_register_match pat ci m))).
Proof.
  intros pat ci m Hv. cbn [wf_mgr] in Hv. unfold d_register_match.
  destruct (assoc mkey_eqb (pat, ci) (d_matches m)) as [i|]; cbn [snd wf_mgr]; [exact Hv|].
  cbn [d_vars]. apply Forall_snoc; [exact Hv | apply wf_matcher_binding].
Qed.

Lemma get_printer_wf : forall term m,
  wf_mgr m -> wf (fst (get_printer term m)) /\ wf_mgr (snd (get_printer term m)).
Proof.
  intros term [l|d] H; cbn [get_printer].
  - destruct (l_init_default_port l) as [p l1] eqn:E1.
    destruct (l_register_printer p term l1) as [i l2] eqn:E2. cbn [fst snd].
    split; [wf_tac|].
    change l2 with (snd (i, l2)). rewrite <- E2. apply l_register_printer_wf.
    change l1 with (snd (p, l1)). rewrite <- E1. apply l_init_default_port_wf. exact H.
  - destruct (d_register_printer (TStdout term) d) as [i d1] eqn:E1. cbn [fst snd].
    split; [wf_tac|].
    change d1 with (snd (i, d1)). rewrite <- E1. apply d_register_printer_wf. exact H.
Qed.

Lemma get_file_printer_wf : forall f term m,
  wf_mgr m -> wf (fst (get_file_printer f term m)) /\ wf_mgr (snd (get_file_printer f term m)).
Proof.
  intros f term [l|d] H; cbn [get_file_printer].
  - destruct (l_init_file_port f l) as [p l1] eqn:E1.
    destruct (l_register_printer p term l1) as [i l2] eqn:E2. cbn [fst snd].
    split; [wf_tac|].
    change l2 with (snd (i, l2)). rewrite <- E2. apply l_register_printer_wf.
    change l1 with (snd (p, l1)). rewrite <- E1. apply l_init_file_port_wf. exact H.
  - destruct (d_register_printer (TFile f term) d) as [i d1] eqn:E1. cbn [fst snd].
    split; [wf_tac|].
    change d1 with (snd (i, d1)). rewrite <- E1. apply d_register_printer_wf. exact H.
Qed.

Lemma get_matcher_wf : forall pat ci m,
  wf_mgr m -> wf (fst (get_matcher pat ci m)) /\ wf_mgr (snd (get_matcher pat ci m)).
Proof.
  intros pat ci [l|d] H; cbn [get_matcher].
  - destruct (l_register_match pat ci l) as [i l1] eqn:E1. cbn [fst snd].
    split; [wf_tac|].
    change l1 with (snd (i, l1)). rewrite <- E1. apply l_register_match_wf. exact H.
  - destruct (d_register_match pat ci d) as [i d1] eqn:E1. cbn [fst snd].
    split; [wf_tac|].
    change d1 with (snd (i, d1)). rewrite <- E1. apply d_register_match_wf. exact H.
Qed.

(** a manager operation lifted to the compiler state *)
Definition mgr_op_wf (g : mgr -> lsexp * mgr) : Prop :=
  forall m, wf_mgr m -> wf (fst (g m)) /\ wf_mgr (snd (g m)).

Lemma with_mgr_wf : forall g s x s',
  mgr_op_wf g -> with_mgr g s = (x, s') -> wf_mgr (st_mgr s) -> wf x /\ wf_mgr (st_mgr s').
Proof.
  intros g s x s' Hg E H. unfold with_mgr in E.
  destruct (g (st_mgr s)) as [a m] eqn:Eg. inversion E; subst. cbn [st_mgr].
  specialize (Hg (st_mgr s) H). rewrite Eg in Hg. exact Hg.
Qed.

(** * Tests *)

Lemma wf_cmp_field : forall c f, valid_atom (chars f) = true -> wf (cmp_field c f).
Proof.
  intros c f H. unfold cmp_field. pose proof (wf_cmp_op N c) as Hc.
  pose proof (wf_call0 f H) as Hf. wf_tac.
Qed.

Lemma wf_compile_size : forall c, wf (compile_size c).
Proof.
  intros c. unfold compile_size. pose proof (wf_cmp_op size c) as Hc.
  destruct (cmp_val c) as [u n]. destruct u; wf_tac.
Qed.

Lemma wf_compile_time : forall now f c, valid_atom (chars f) = true -> wf (compile_time now f c).
Proof.
  intros now f c H. unfold compile_time. pose proof (wf_cmp_op timespec c) as Hc.
  pose proof (wf_call0 f H) as Hf. destruct (cmp_val c) as [u n]. wf_tac.
Qed.

Lemma wf_type_check : forall t, wf (type_check t).
Proof. intros t. unfold type_check. wf_tac. Qed.

Lemma wf_compile_types : forall l, wf (compile_types l).
Proof.
  intros l. unfold compile_types. destruct l as [|t [|t2 l]].
  - wf_tac.
  - apply wf_type_check.
  - wf_tac. apply wf_items_sep; [exact blank_sp | reflexivity |].
    apply Forall_forall. intros x Hx. apply in_map_iff in Hx. destruct Hx as [t' [<- _]].
    apply wf_type_check.
Qed.

Lemma wf_compile_perm : forall k b, wf (compile_perm k b).
Proof. intros k b. unfold compile_perm. destruct k; wf_tac. Qed.

Lemma compile_test_wf : forall t s x s',
  compile_test t s = COk (x, s') -> wf_mgr (st_mgr s) -> wf x /\ wf_mgr (st_mgr s').
Proof.
  assert (Hm : forall caller pat ci s x s',
    valid_atom (chars caller) = true ->
    (let (m, s1) := with_mgr (get_matcher pat ci) s in
     @COk (lsexp * cstate) (lst [atom caller; m], s1)) = COk (x, s') ->
    wf_mgr (st_mgr s) -> wf x /\ wf_mgr (st_mgr s')).
  { intros caller pat ci s x s' Hc E H.
    destruct (with_mgr (get_matcher pat ci) s) as [m s1] eqn:Ew. inversion E; subst.
    destruct (with_mgr_wf _ _ _ _ (get_matcher_wf pat ci) Ew H) as [Hx Hs].
    split; [|exact Hs]. pose proof (wf_atom caller Hc) as Ha. wf_tac. }
  intros t s x s' E H.
  destruct t; cbn [compile_test test_unsupported] in E;
    try discriminate E;
    try (eapply Hm; [|exact E|exact H]; reflexivity);
    try (unfold tick in E; inversion E; subst; cbn [st_mgr]; split; [|exact H]).
  all: try (apply wf_compile_time; reflexivity).
  all: try (apply wf_cmp_field; reflexivity).
  all: try solve [wf_tac].
  - apply wf_compile_perm.
  - apply wf_compile_size.
  - apply wf_compile_types.
  - destruct (xattr_offending a || xattr_offending b); inversion E; subst; split; try exact H;
      wf_tac.
Qed.

(** * Formats *)

Lemma special_piece_wf : forall x p, special_piece x = COk p -> wf_piece p.
Proof.
  intros x p E. destruct x; cbn [special_piece] in E; inversion E; subst; cbn [wf_piece];
    first [exact I | reflexivity].
Qed.

Lemma elem_piece_wf : forall el p, elem_piece el = COk p -> wf_piece p.
Proof.
  intros [s|f|x] p E; cbn [elem_piece] in E.
  - inversion E; subst. exact I.
  - destruct (field_unsupported f); inversion E; subst. exact I.
  - apply (special_piece_wf x p E).
Qed.

Lemma template_wf : forall fmt ps, template fmt = COk ps -> Forall wf_piece ps.
Proof.
  induction fmt as [|el r IH]; intros ps E; cbn [template] in E.
  - inversion E; subst. constructor.
  - destruct (elem_piece el) as [p|k c|m] eqn:Ep; try discriminate E.
    destruct (template r) as [ps'|k c|m] eqn:Er; try discriminate E.
    inversion E; subst. constructor; [apply (elem_piece_wf el p Ep) | apply IH; reflexivity].
Qed.

Lemma wf_strftime : forall c f, valid_atom (chars f) = true -> wf (strftime c f).
Proof.
  intros c f H. unfold strftime. pose proof (wf_call0 f H) as Hf.
  assert (Hs : wf (LStr [PLit [37; c]])) by (cbn [wf]; constructor; [exact I | constructor]).
  wf_tac.
Qed.

Lemma snippet_wf : forall f s, snippet f = Some s -> wf s.
Proof.
  intros f s E.
  assert (He : wf (LStr [])) by (cbn [wf]; constructor).
  destruct f; cbn [snippet] in E; try discriminate E; inversion E; subst;
    try solve [wf_tac];
    destruct (c =? 64); first [apply wf_call0; reflexivity | apply wf_strftime; reflexivity].
Qed.

Lemma format_items_wf : forall fmt, Forall wf (format_items fmt).
Proof.
  induction fmt as [|el r IH]; cbn [format_items]; [constructor|].
  destruct el as [s|f|x]; try exact IH.
  destruct (snippet f) as [sn|] eqn:Es; [|exact IH].
  constructor; [apply (snippet_wf f sn Es) | exact IH].
Qed.

Lemma compile_format_wf : forall fmt f, compile_format fmt = COk f -> wf f.
Proof.
  intros fmt f E. unfold compile_format in E.
  destruct (template fmt) as [ps|k c|m] eqn:Et; try discriminate E.
  assert (Hps : wf (LStr ps)) by (cbn [wf]; apply (template_wf fmt ps Et)).
  pose proof (format_items_wf fmt) as Hit.
  destruct (format_items fmt) as [|i its]; inversion E; subst.
  - wf_tac.
  - inversion Hit as [|i' its' Hi Hits]; subst.
    cbn [items_app items_sep]. wf_tac.
    apply wf_items_sep; [exact blank_sp | reflexivity | exact Hits].
Qed.

(** * Actions and expressions *)

Lemma compile_action_wf : forall a s x s',
  compile_action a s = COk (x, s') -> wf_mgr (st_mgr s) -> wf x /\ wf_mgr (st_mgr s').
Proof.
  assert (Hpath : forall g s x s', mgr_op_wf g ->
    (let (p, s1) := with_mgr g s in
     @COk (lsexp * cstate) (lst [atom "call-with-relative-path"; p], s1)) = COk (x, s') ->
    wf_mgr (st_mgr s) -> wf x /\ wf_mgr (st_mgr s')).
  { intros g s x s' Hg E H. destruct (with_mgr g s) as [p s1] eqn:Ew. inversion E; subst.
    destruct (with_mgr_wf _ _ _ _ Hg Ew H) as [Hp Hs]. split; [wf_tac | exact Hs]. }
  assert (Hfmt : forall g fmt s x s', mgr_op_wf g ->
    (let (p, s1) := with_mgr g s in
     match compile_format fmt with
     | COk f => @COk (lsexp * cstate) (lst [p; f], s1)
     | CErr k c => CErr k c
     | CPanic m => CPanic m
     end) = COk (x, s') ->
    wf_mgr (st_mgr s) -> wf x /\ wf_mgr (st_mgr s')).
  { intros g fmt s x s' Hg E H. destruct (with_mgr g s) as [p s1] eqn:Ew.
    destruct (compile_format fmt) as [f|k c|m] eqn:Ef; try discriminate E. inversion E; subst.
    destruct (with_mgr_wf _ _ _ _ Hg Ew H) as [Hp Hs]. split; [|exact Hs].
    pose proof (compile_format_wf fmt f Ef) as Hf. wf_tac. }
  intros a s x s' E H. destruct a; cbn [compile_action] in E; try discriminate E.
  - exact (Hpath _ _ _ _ (get_file_printer_wf f (Some 10)) E H).
  - exact (Hpath _ _ _ _ (get_file_printer_wf f (Some 0)) E H).
  - exact (Hfmt _ _ _ _ _ (get_file_printer_wf f None) E H).
  - exact (Hpath _ _ _ _ (get_printer_wf (Some 10)) E H).
  - exact (Hpath _ _ _ _ (get_printer_wf (Some 0)) E H).
  - exact (Hfmt _ _ _ _ _ (get_printer_wf None) E H).
  - destruct (with_mgr (get_printer (Some 10)) s) as [p s1] eqn:Ew. inversion E; subst.
    destruct (with_mgr_wf _ _ _ _ (get_printer_wf (Some 10)) Ew H) as [Hp Hs]. split; [|exact Hs].
    wf_tac.
  - inversion E; subst. split; [|exact H]. wf_tac.
  - inversion E; subst. split; [|exact H]. wf_tac.
Qed.

Lemma compile_expr_wf : forall e s x s',
  compile_expr e s = COk (x, s') -> wf_mgr (st_mgr s) -> wf x /\ wf_mgr (st_mgr s').
Proof.
  assert (Hbin : forall op a b,
    valid_atom (chars op) = true ->
    (forall s x s', compile_expr a s = COk (x, s') -> wf_mgr (st_mgr s) -> wf x /\ wf_mgr (st_mgr s')) ->
    (forall s x s', compile_expr b s = COk (x, s') -> wf_mgr (st_mgr s) -> wf x /\ wf_mgr (st_mgr s')) ->
    forall s x s',
    match compile_expr a s with
    | COk (xa, s1) =>
        match compile_expr b s1 with
        | COk (y, s2) => COk (lst [atom op; xa; y], s2)
        | bad => bad
        end
    | bad => bad
    end = COk (x, s') -> wf_mgr (st_mgr s) -> wf x /\ wf_mgr (st_mgr s')).
  { intros op a b Hop IHa IHb s x s' E H.
    destruct (compile_expr a s) as [[xa s1]|k c|m] eqn:Ea; try discriminate E.
    destruct (IHa s xa s1 Ea H) as [Hxa Hs1].
    destruct (compile_expr b s1) as [[xb s2]|k c|m] eqn:Eb; try discriminate E.
    destruct (IHb s1 xb s2 Eb Hs1) as [Hxb Hs2].
    inversion E; subst. split; [|exact Hs2].
    pose proof (wf_atom op Hop) as Ho. wf_tac. }
  induction e as [e IH|e IH|a IHa b IHb|a IHa b IHb|a IHa b IHb|t|a|g|];
    intros s x s' E H; cbn [compile_expr] in E; try discriminate E.
  - destruct (compile_expr e s) as [[xa s1]|k c|m] eqn:Ea; try discriminate E.
    destruct (IH s xa s1 Ea H) as [Hxa Hs1]. inversion E; subst. split; [wf_tac | exact Hs1].
  - exact (Hbin "and"%string a b (eq_refl true) IHa IHb s x s' E H).
  - exact (Hbin "or"%string a b (eq_refl true) IHa IHb s x s' E H).
  - exact (Hbin "and"%string a b (eq_refl true) IHa IHb s x s' E H).
  - exact (compile_test_wf t s x s' E H).
  - exact (compile_action_wf a s x s' E H).
Qed.

(** * The compiled record and its rendering *)

Definition wf_compiled (c : compiled) : Prop :=
  Forall wf (c_defs c) /\ Forall wf (c_init c) /\ Forall wf (c_fini c) /\ wf (c_body c).

Lemma wf_frame_proc : wf frame_proc.
Proof.
  unfold frame_proc. wf_tac.
Qed.

Lemma wf_mgr_init_d : wf_mgr (MD dmgr_init).
Proof.
  cbn [wf_mgr dmgr_init d_vars]. pose proof wf_frame_proc as Hf.
  apply Forall_cons; [apply wf_binding; wf_tac|].
  apply Forall_cons; [apply wf_binding; wf_tac|].
  apply Forall_cons; [apply wf_binding; wf_tac|]. constructor.
Qed.
Lemma wf_mgr_init_l : wf_mgr (ML lmgr_init).
Proof. cbn [wf_mgr lmgr_init l_vars l_fini]. split; constructor. Qed.

Lemma compile_wf_compiled : forall e o clk c, compile e o clk = COk c -> wf_compiled c.
Proof.
  intros e o clk c E. unfold compile in E.
  destruct (compile_expr (wrap e) _) as [[body s]|k cs|m] eqn:Ec; try discriminate E.
  assert (H0 : wf_mgr (st_mgr {| st_mgr := if complex_frames e then MD dmgr_init else ML lmgr_init;
                                 st_clock := clk |})).
  { cbn [st_mgr]. destruct (complex_frames e); [apply wf_mgr_init_d | apply wf_mgr_init_l]. }
  destruct (compile_expr_wf _ _ _ _ Ec H0) as [Hb Hs].
  inversion E; subst. unfold wf_compiled.
  destruct (st_mgr s) as [l|d]; cbn [wf_mgr] in Hs;
    cbn [c_defs c_init c_fini c_body].
  - destruct Hs as [Hv Hf]. split; [exact Hv | split; [constructor | split; [exact Hf | exact Hb]]].
  - split; [exact Hs | split; [constructor | split; [constructor | exact Hb]]].
Qed.

Lemma wf_forms_or_true : forall l, Forall wf l -> wf_items (forms_or_true l).
Proof.
  intros [|x l] H; unfold forms_or_true.
  - wf_tac.
  - apply wf_items_sep; [exact blank_sp | reflexivity | exact H].
Qed.

Lemma wf_thunk : forall body, wf_items body -> wf (thunk body).
Proof. intros body H. unfold thunk. wf_tac. Qed.

Lemma render_wf : forall c mdt,
  wf_compiled c -> wf (fst (render c mdt)) /\ wf (snd (render c mdt)).
Proof.
  intros c mdt [Hd [Hi [Hf Hb]]]. unfold render. cbn [fst snd]. split.
  - wf_tac. destruct (c_framed c); wf_tac.
  - assert (Hdefs : wf match c_defs c with
                       | [] => LList LNil []
                       | d :: r => LList (LCons [] d (items_sep (if c_framed c then nl 7 else [32]) r)) []
                       end).
    { destruct (c_defs c) as [|d r]; [wf_tac|].
      inversion Hd as [|d' r' Hd1 Hdr]; subst.
      assert (Hsep : blank (if c_framed c then nl 7 else [32])
                     /\ nonempty (if c_framed c then nl 7 else [32]) = true).
      { destruct (c_framed c); split; reflexivity. }
      destruct Hsep as [Hbl Hne].
      apply wf_list; [|exact blank_nil].
      apply wf_items_cons; [exact blank_nil | exact Hd1 | apply sep_ok_items_sep; exact Hne |].
      apply wf_items_sep; assumption. }
    assert (Hthr : wf match c_threads c with
                      | Some n => num n
                      | None => lst [atom "lipe-getopt-thread-count"]
                      end).
    { destruct (c_threads c) as [n|]; wf_tac. }
    pose proof (wf_thunk _ (wf_forms_or_true _ Hi)) as Hinit.
    pose proof (wf_thunk _ (wf_forms_or_true _ Hf)) as Hfini.
    assert (Hbody : wf (thunk (LCons [32] (c_body c) LNil))) by (apply wf_thunk; wf_tac).
    wf_tac.
Qed.

(** * The results *)

Theorem compile_wf : forall e o clk c,
  compile e o clk = COk c -> forall mdt, wf (fst (render c mdt)) /\ wf (snd (render c mdt)).
Proof. intros e o clk c E mdt. apply render_wf. apply (compile_wf_compiled e o clk c E). Qed.

Theorem reads_back : forall e o clk c mdt,
  compile e o clk = COk c ->
  read_all (scheme_text c mdt) = Some [erase (fst (render c mdt)); erase (snd (render c mdt))].
Proof.
  intros e o clk c mdt E. destruct (compile_wf e o clk c E mdt) as [Ha Hb].
  unfold scheme_text. destruct (render c mdt) as [a b]. cbn [fst snd] in *.
  apply read_print2; assumption.
Qed.
