(** C16 — proofs about Spec/Interleave.v: a ghost-instrumented invariant, hidden existentially
    in the final theorems. *)
From Coq Require Import List Arith Lia Relations Operators_Properties Permutation Bool.
From FP Require Import Model.Chars Spec.Interleave.
Import ListNotations.

(** * Lists: [nth_error], [set_nth], permutations *)

Lemma nth_error_map' {A B} (f : A -> B) : forall l i,
  nth_error (map f l) i = option_map f (nth_error l i).
Proof.
  induction l as [|x l IH]; intros [|i]; cbn; try reflexivity. apply IH.
Qed.

Lemma nth_error_map_some {A B} (f : A -> B) l i y :
  nth_error (map f l) i = Some y -> exists x, nth_error l i = Some x /\ f x = y.
Proof.
  rewrite nth_error_map'. destruct (nth_error l i) as [x|]; cbn; intros H; inversion H.
  exists x. split; reflexivity.
Qed.

Lemma set_nth_length {A} : forall (l : list A) i x, length (set_nth i x l) = length l.
Proof.
  induction l as [|y l IH]; intros [|i] x; cbn; try reflexivity. now rewrite IH.
Qed.

Lemma nth_error_set_nth_eq {A} : forall (l : list A) i x y,
  nth_error l i = Some y -> nth_error (set_nth i x l) i = Some x.
Proof.
  induction l as [|z l IH]; intros [|i] x y H; cbn in *; try discriminate.
  - reflexivity.
  - eapply IH; eassumption.
Qed.

Lemma nth_error_set_nth_neq {A} : forall (l : list A) i j x,
  i <> j -> nth_error (set_nth i x l) j = nth_error l j.
Proof.
  induction l as [|z l IH]; intros [|i] [|j] x H; cbn; try reflexivity.
  - congruence.
  - apply IH. congruence.
Qed.

Lemma map_set_nth {A B} (f : A -> B) : forall l i x,
  map f (set_nth i x l) = set_nth i (f x) (map f l).
Proof.
  induction l as [|y l IH]; intros [|i] x; cbn; try reflexivity. now rewrite IH.
Qed.

Lemma set_nth_same {A} : forall (l : list A) i x, nth_error l i = Some x -> set_nth i x l = l.
Proof.
  induction l as [|y l IH]; intros [|i] x H; cbn in *; try discriminate.
  - now inversion H.
  - now rewrite IH.
Qed.

Lemma map_set_nth_same {A B} (f : A -> B) l i x y :
  nth_error l i = Some y -> f x = f y -> map f (set_nth i x l) = map f l.
Proof.
  intros H E. rewrite map_set_nth, E. apply set_nth_same.
  rewrite nth_error_map', H. reflexivity.
Qed.

Lemma Forall_set_nth {A} (P : A -> Prop) : forall l i x,
  Forall P l -> P x -> Forall P (set_nth i x l).
Proof.
  induction l as [|y l IH]; intros [|i] x Hl Hx; cbn; try assumption.
  - inversion Hl; subst. now constructor.
  - inversion Hl; subst. constructor; [assumption|now apply IH].
Qed.

Lemma Forall_nth_error {A} (P : A -> Prop) l i x :
  Forall P l -> nth_error l i = Some x -> P x.
Proof.
  intros H E. rewrite Forall_forall in H. apply H. eapply nth_error_In; eassumption.
Qed.

Lemma concat_set_nth_perm {A} : forall (ls : list (list A)) i c r,
  nth_error ls i = Some (c :: r) -> Permutation (concat ls) (c :: concat (set_nth i r ls)).
Proof.
  induction ls as [|l ls IH]; intros [|i] c r H; cbn in H; try discriminate.
  - inversion H; subst. cbn. reflexivity.
  - cbn. eapply Permutation_trans.
    + apply Permutation_app_head. eapply IH; eassumption.
    + symmetry. apply Permutation_middle.
Qed.

Lemma filter_perm {A} (f : A -> bool) l l' :
  Permutation l l' -> Permutation (filter f l) (filter f l').
Proof.
  intros H. induction H as [|x l l' H IH|x y l|l l' l'' H1 IH1 H2 IH2]; cbn.
  - constructor.
  - destruct (f x); [now constructor|assumption].
  - destruct (f x), (f y); try reflexivity. constructor.
  - eapply Permutation_trans; eassumption.
Qed.

Lemma all_nil_or_not (l : list thread) :
  Forall (fun t => t = []) l \/ exists i s rest, nth_error l i = Some (s :: rest).
Proof.
  induction l as [|t l IH].
  - left. constructor.
  - destruct t as [|s rest].
    + destruct IH as [IH|[i [s [rest IH]]]].
      * left. now constructor.
      * right. exists (S i), s, rest. exact IH.
    + right. exists 0, s, rest. reflexivity.
Qed.

(** * Ghost state *)

Inductive gcur := Idle | In (m p : nat) (wd wl : list str).
Record gthread := G { gpre : list call; gc : gcur; gtodo : list call }.

(** the calls not yet completed, the current one included *)
Definition grem (g : gthread) : list call :=
  match gc g with
  | Idle => gtodo g
  | In m p wd wl => Crit m p (wd ++ wl) :: gtodo g
  end.
Definition gsteps (g : gthread) : thread :=
  match gc g with
  | Idle => flatten (gtodo g)
  | In m p wd wl => map (Write p) wl ++ Unlock m :: flatten (gtodo g)
  end.
Definition gall (g : gthread) : list call := gpre g ++ grem g.

Definition sec_part (p : nat) (g : gthread) : str :=
  match gc g with
  | Idle => []
  | In _ p' wd _ => if Nat.eqb p' p then concat wd else []
  end.

Definition part (guard : nat -> option nat) (ow : nat -> option nat) (gs : list gthread)
    (p : nat) : str :=
  match guard p with
  | None => []
  | Some m =>
      match ow m with
      | None => []
      | Some i => match nth_error gs i with Some g => sec_part p g | None => [] end
      end
  end.

(** the part of the invariant that needs no locking discipline *)
Record Core (prog : list (list call)) (st : state) (gs : list gthread)
    (done : nat -> list call) : Prop := {
  c_thr : thr st = map gsteps gs;
  c_prog : prog = map gall gs;
  c_cur : forall i g m p wd wl,
      nth_error gs i = Some g -> gc g = In m p wd wl -> owner st m = Some i;
  c_own : forall m i, owner st m = Some i ->
      exists g p wd wl, nth_error gs i = Some g /\ gc g = In m p wd wl;
  c_perm : forall p,
      Permutation (done p ++ calls_on p (concat (map grem gs))) (calls_on p (concat prog))
}.

(** the part that does *)
Record Disc (guard : nat -> option nat) (st : state) (gs : list gthread)
    (done : nat -> list call) : Prop := {
  d_todo : Forall (fun g => disciplined guard (gtodo g)) gs;
  d_guard : forall i g m p wd wl,
      nth_error gs i = Some g -> gc g = In m p wd wl -> guard p = Some m;
  d_out : forall p,
      out st p = concat (map call_record (done p)) ++ part guard (owner st) gs p
}.

(** ghost-instrumented steps *)
Inductive gstep (st : state) (gs : list gthread) (done : nat -> list call)
  : state -> list gthread -> (nat -> list call) -> Prop :=
| gs_lock i pre m p ws todo :
    nth_error gs i = Some (G pre Idle (Crit m p ws :: todo)) -> owner st m = None ->
    gstep st gs done
      (mkState (set_nth i (gsteps (G pre (In m p [] ws) todo)) (thr st))
               (upd (owner st) m (Some i)) (out st))
      (set_nth i (G pre (In m p [] ws) todo) gs) done
| gs_atomic i pre p cs todo :
    nth_error gs i = Some (G pre Idle (Atomic p cs :: todo)) ->
    gstep st gs done
      (mkState (set_nth i (gsteps (G (pre ++ [Atomic p cs]) Idle todo)) (thr st))
               (owner st) (upd (out st) p (out st p ++ cs)))
      (set_nth i (G (pre ++ [Atomic p cs]) Idle todo) gs)
      (upd done p (done p ++ [Atomic p cs]))
| gs_write i pre m p wd c wl todo :
    nth_error gs i = Some (G pre (In m p wd (c :: wl)) todo) ->
    gstep st gs done
      (mkState (set_nth i (gsteps (G pre (In m p (wd ++ [c]) wl) todo)) (thr st))
               (owner st) (upd (out st) p (out st p ++ c)))
      (set_nth i (G pre (In m p (wd ++ [c]) wl) todo) gs) done
| gs_unlock i pre m p wd todo :
    nth_error gs i = Some (G pre (In m p wd []) todo) -> owner st m = Some i ->
    gstep st gs done
      (mkState (set_nth i (gsteps (G (pre ++ [Crit m p wd]) Idle todo)) (thr st))
               (upd (owner st) m None) (out st))
      (set_nth i (G (pre ++ [Crit m p wd]) Idle todo) gs)
      (upd done p (done p ++ [Crit m p wd])).

Lemma step_gstep st st' gs done :
  thr st = map gsteps gs -> step st st' -> exists gs' done', gstep st gs done st' gs' done'.
Proof.
  intros Ht Hs.
  destruct Hs as [st i m rest Hn Ho|st i m rest Hn Ho|st i p cs rest Hn];
    rewrite Ht in Hn; apply nth_error_map_some in Hn; destruct Hn as [g [Hg Hn]];
    destruct g as [pre cur todo]; destruct cur as [|m' p' wd wl]; unfold gsteps in Hn;
    cbn [gc gtodo] in Hn.
  - (* lock, idle *)
    destruct todo as [|c todo]; [discriminate|]. destruct c as [m2 p2 ws|p2 cs2]; cbn in Hn;
      [|discriminate].
    inversion Hn; subst. eexists; eexists.
    replace ((map (Write p2) ws ++ [Unlock m]) ++ flat_map call_steps todo)
      with (gsteps (G pre (In m p2 [] ws) todo)).
    + eapply gs_lock; eassumption.
    + unfold gsteps, flatten; cbn. rewrite <- app_assoc. reflexivity.
  - (* lock, in section: impossible *)
    destruct wl as [|c wl]; cbn in Hn; discriminate.
  - (* unlock, idle: impossible *)
    destruct todo as [|c todo]; [discriminate|]. destruct c as [m2 p2 ws|p2 cs2]; cbn in Hn;
      discriminate.
  - (* unlock, in section *)
    destruct wl as [|c wl]; cbn in Hn; [|discriminate].
    inversion Hn; subst. eexists; eexists.
    change (flatten todo) with (gsteps (G (pre ++ [Crit m p' wd]) Idle todo)).
    eapply gs_unlock; eassumption.
  - (* write, idle *)
    destruct todo as [|c todo]; [discriminate|]. destruct c as [m2 p2 ws|p2 cs2]; cbn in Hn;
      [discriminate|].
    inversion Hn; subst. eexists; eexists.
    change (flat_map call_steps todo) with (gsteps (G (pre ++ [Atomic p cs]) Idle todo)).
    eapply gs_atomic; eassumption.
  - (* write, in section *)
    destruct wl as [|c wl]; cbn in Hn; [discriminate|].
    inversion Hn; subst. eexists; eexists.
    change (map (Write p) wl ++ Unlock m' :: flatten todo)
      with (gsteps (G pre (In m' p (wd ++ [cs]) wl) todo)).
    eapply gs_write; eassumption.
Qed.

(** * Preservation of the core invariant *)

Lemma upd_eq {A} (f : nat -> A) k v : upd f k v k = v.
Proof. unfold upd. now rewrite Nat.eqb_refl. Qed.
Lemma upd_neq {A} (f : nat -> A) k v x : x <> k -> upd f k v x = f x.
Proof. unfold upd. intros H. apply Nat.eqb_neq in H. now rewrite H. Qed.

Lemma perm_done_step (done : nat -> list call) rems i c r p q X :
  nth_error rems i = Some (c :: r) -> call_port c = p ->
  Permutation (done q ++ calls_on q (concat rems)) X ->
  Permutation (upd done p (done p ++ [c]) q ++ calls_on q (concat (set_nth i r rems))) X.
Proof.
  intros Hn Hp HX. eapply Permutation_trans; [|exact HX].
  pose proof (filter_perm (fun c => Nat.eqb (call_port c) q) _ _ (concat_set_nth_perm _ _ _ _ Hn))
    as HP.
  fold (calls_on q (concat rems)) in HP. cbn [filter] in HP. rewrite Hp in HP.
  destruct (Nat.eq_dec q p) as [->|Hne].
  - rewrite upd_eq. rewrite Nat.eqb_refl in HP. rewrite <- app_assoc.
    apply Permutation_app_head. symmetry. exact HP.
  - rewrite upd_neq by assumption.
    assert (E : Nat.eqb p q = false) by (apply Nat.eqb_neq; congruence).
    rewrite E in HP. apply Permutation_app_head. symmetry. exact HP.
Qed.

Lemma core_preserved prog st gs done st' gs' done' :
  Core prog st gs done -> gstep st gs done st' gs' done' -> Core prog st' gs' done'.
Proof.
  intros [Ht Hp Hc Ho Hperm] Hg.
  destruct Hg as [i pre m p ws todo Hn Hfree|i pre p cs todo Hn|i pre m p wd c wl todo Hn
                 |i pre m p wd todo Hn Hown].
  - (* lock *)
    constructor; cbn [thr owner out].
    + rewrite Ht. symmetry. apply map_set_nth.
    + rewrite Hp. symmetry. eapply map_set_nth_same; [exact Hn|reflexivity].
    + intros j g m2 p2 wd2 wl2 Hj Hgc.
      destruct (Nat.eq_dec i j) as [<-|Hne].
      * rewrite (nth_error_set_nth_eq _ _ _ _ Hn) in Hj. inversion Hj; subst g.
        cbn in Hgc. inversion Hgc; subst. apply upd_eq.
      * rewrite nth_error_set_nth_neq in Hj by assumption.
        pose proof (Hc _ _ _ _ _ _ Hj Hgc) as Hm2.
        rewrite upd_neq; [assumption|]. intros ->. congruence.
    + intros m2 j Hm2. destruct (Nat.eq_dec m2 m) as [->|Hne].
      * rewrite upd_eq in Hm2. inversion Hm2; subst j.
        exists (G pre (In m p [] ws) todo), p, [], ws. split; [|reflexivity].
        eapply nth_error_set_nth_eq; eassumption.
      * rewrite upd_neq in Hm2 by assumption.
        destruct (Ho _ _ Hm2) as [g [p2 [wd2 [wl2 [Hj Hgc]]]]].
        exists g, p2, wd2, wl2. split; [|assumption].
        rewrite nth_error_set_nth_neq; [assumption|]. intros ->.
        rewrite Hn in Hj. inversion Hj; subst g. discriminate.
    + intros q. erewrite map_set_nth_same; [apply Hperm|exact Hn|reflexivity].
  - (* atomic write *)
    constructor; cbn [thr owner out].
    + rewrite Ht. symmetry. apply map_set_nth.
    + rewrite Hp. symmetry. eapply map_set_nth_same; [exact Hn|].
      unfold gall, grem; cbn. rewrite <- app_assoc. reflexivity.
    + intros j g m2 p2 wd2 wl2 Hj Hgc.
      destruct (Nat.eq_dec i j) as [<-|Hne].
      * rewrite (nth_error_set_nth_eq _ _ _ _ Hn) in Hj. inversion Hj; subst g. discriminate.
      * rewrite nth_error_set_nth_neq in Hj by assumption. eapply Hc; eassumption.
    + intros m2 j Hm2.
      destruct (Ho _ _ Hm2) as [g [p2 [wd2 [wl2 [Hj Hgc]]]]].
      exists g, p2, wd2, wl2. split; [|assumption].
      rewrite nth_error_set_nth_neq; [assumption|]. intros ->.
      rewrite Hn in Hj. inversion Hj; subst g. discriminate.
    + intros q. rewrite map_set_nth. cbn [grem gc gtodo].
      apply perm_done_step with (c := Atomic p cs); [|reflexivity|apply Hperm].
      rewrite nth_error_map', Hn. reflexivity.
  - (* write inside a section *)
    constructor; cbn [thr owner out].
    + rewrite Ht. symmetry. apply map_set_nth.
    + rewrite Hp. symmetry. eapply map_set_nth_same; [exact Hn|].
      unfold gall, grem; cbn. rewrite <- app_assoc. reflexivity.
    + intros j g m2 p2 wd2 wl2 Hj Hgc.
      destruct (Nat.eq_dec i j) as [<-|Hne].
      * rewrite (nth_error_set_nth_eq _ _ _ _ Hn) in Hj. inversion Hj; subst g.
        cbn in Hgc. inversion Hgc; subst. eapply Hc; [exact Hn|reflexivity].
      * rewrite nth_error_set_nth_neq in Hj by assumption. eapply Hc; eassumption.
    + intros m2 j Hm2.
      destruct (Ho _ _ Hm2) as [g [p2 [wd2 [wl2 [Hj Hgc]]]]].
      destruct (Nat.eq_dec i j) as [<-|Hne].
      * rewrite Hn in Hj. inversion Hj; subst g. cbn in Hgc. inversion Hgc; subst.
        exists (G pre (In m2 p2 (wd2 ++ [c]) wl) todo), p2, (wd2 ++ [c]), wl.
        split; [|reflexivity]. eapply nth_error_set_nth_eq; eassumption.
      * exists g, p2, wd2, wl2. split; [|assumption].
        rewrite nth_error_set_nth_neq; assumption.
    + intros q. erewrite map_set_nth_same; [apply Hperm|exact Hn|].
      unfold grem; cbn. rewrite <- app_assoc. reflexivity.
  - (* unlock *)
    constructor; cbn [thr owner out].
    + rewrite Ht. symmetry. apply map_set_nth.
    + rewrite Hp. symmetry. eapply map_set_nth_same; [exact Hn|].
      unfold gall, grem; cbn. rewrite app_nil_r, <- app_assoc. reflexivity.
    + intros j g m2 p2 wd2 wl2 Hj Hgc.
      destruct (Nat.eq_dec i j) as [<-|Hne].
      * rewrite (nth_error_set_nth_eq _ _ _ _ Hn) in Hj. inversion Hj; subst g. discriminate.
      * rewrite nth_error_set_nth_neq in Hj by assumption.
        pose proof (Hc _ _ _ _ _ _ Hj Hgc) as Hm2.
        rewrite upd_neq; [assumption|]. intros ->. congruence.
    + intros m2 j Hm2. destruct (Nat.eq_dec m2 m) as [->|Hne].
      * rewrite upd_eq in Hm2. discriminate.
      * rewrite upd_neq in Hm2 by assumption.
        destruct (Ho _ _ Hm2) as [g [p2 [wd2 [wl2 [Hj Hgc]]]]].
        exists g, p2, wd2, wl2. split; [|assumption].
        rewrite nth_error_set_nth_neq; [assumption|]. intros ->.
        rewrite Hn in Hj. inversion Hj; subst g. cbn in Hgc. inversion Hgc; subst.
        congruence.
    + intros q. rewrite map_set_nth. cbn [grem gc gtodo].
      apply perm_done_step with (c := Crit m p wd); [|reflexivity|apply Hperm].
      rewrite nth_error_map', Hn. unfold grem; cbn. rewrite app_nil_r. reflexivity.
Qed.

(** * Preservation of the discipline-dependent invariant *)

Lemma part_set_nth_same guard ow gs i g g' q :
  nth_error gs i = Some g -> sec_part q g' = sec_part q g ->
  part guard ow (set_nth i g' gs) q = part guard ow gs q.
Proof.
  intros Hn E. unfold part. destruct (guard q) as [m|]; [|reflexivity].
  destruct (ow m) as [j|]; [|reflexivity].
  destruct (Nat.eq_dec i j) as [<-|Hne].
  - rewrite (nth_error_set_nth_eq _ _ _ _ Hn), Hn. exact E.
  - rewrite nth_error_set_nth_neq by assumption. reflexivity.
Qed.

Lemma disc_preserved guard prog st gs done st' gs' done' :
  Core prog st gs done -> Disc guard st gs done -> gstep st gs done st' gs' done' ->
  Disc guard st' gs' done'.
Proof.
  intros [Ht Hp Hc Ho Hperm] [Htodo Hgd Hout] Hg.
  destruct Hg as [i pre m p ws todo Hn Hfree|i pre p cs todo Hn|i pre m p wd c wl todo Hn
                 |i pre m p wd todo Hn Hown].
  - (* lock *)
    pose proof (Forall_nth_error _ _ _ _ Htodo Hn) as Hd. cbn in Hd.
    inversion Hd as [|c0 l0 Hc0 Hl0]; subst. cbn in Hc0.
    constructor; cbn [thr owner out].
    + apply Forall_set_nth; assumption.
    + intros j g m2 p2 wd2 wl2 Hj Hgc.
      destruct (Nat.eq_dec i j) as [<-|Hne].
      * rewrite (nth_error_set_nth_eq _ _ _ _ Hn) in Hj. inversion Hj; subst g.
        cbn in Hgc. inversion Hgc; subst. assumption.
      * rewrite nth_error_set_nth_neq in Hj by assumption. eapply Hgd; eassumption.
    + intros q. rewrite Hout. f_equal. unfold part.
      destruct (guard q) as [m2|]; [|reflexivity].
      destruct (Nat.eq_dec m2 m) as [->|Hne].
      * rewrite upd_eq, Hfree, (nth_error_set_nth_eq _ _ _ _ Hn).
        unfold sec_part; cbn. destruct (Nat.eqb p q); reflexivity.
      * rewrite upd_neq by assumption. destruct (owner st m2) as [j|] eqn:Ej; [|reflexivity].
        rewrite nth_error_set_nth_neq; [reflexivity|]. intros ->.
        destruct (Ho _ _ Ej) as [g [p2 [wd2 [wl2 [Hj Hgc]]]]].
        rewrite Hn in Hj. inversion Hj; subst g. discriminate.
  - (* atomic write *)
    pose proof (Forall_nth_error _ _ _ _ Htodo Hn) as Hd. cbn in Hd.
    inversion Hd as [|c0 l0 Hc0 Hl0]; subst. cbn in Hc0.
    constructor; cbn [thr owner out].
    + apply Forall_set_nth; assumption.
    + intros j g m2 p2 wd2 wl2 Hj Hgc.
      destruct (Nat.eq_dec i j) as [<-|Hne].
      * rewrite (nth_error_set_nth_eq _ _ _ _ Hn) in Hj. inversion Hj; subst g. discriminate.
      * rewrite nth_error_set_nth_neq in Hj by assumption. eapply Hgd; eassumption.
    + intros q. rewrite (part_set_nth_same _ _ _ _ _ _ _ Hn) by reflexivity.
      destruct (Nat.eq_dec q p) as [->|Hne].
      * rewrite !upd_eq, Hout. unfold part. rewrite Hc0.
        rewrite map_app, concat_app. cbn. rewrite !app_nil_r. reflexivity.
      * rewrite !upd_neq by assumption. apply Hout.
  - (* write inside a section *)
    pose proof (Hc _ _ _ _ _ _ Hn eq_refl) as Hown.
    assert (Hgp : guard p = Some m) by (eapply Hgd; [exact Hn|reflexivity]).
    constructor; cbn [thr owner out].
    + apply Forall_set_nth; [assumption|].
      exact (Forall_nth_error _ _ _ _ Htodo Hn).
    + intros j g m2 p2 wd2 wl2 Hj Hgc.
      destruct (Nat.eq_dec i j) as [<-|Hne].
      * rewrite (nth_error_set_nth_eq _ _ _ _ Hn) in Hj. inversion Hj; subst g.
        cbn in Hgc. inversion Hgc; subst. assumption.
      * rewrite nth_error_set_nth_neq in Hj by assumption. eapply Hgd; eassumption.
    + intros q. destruct (Nat.eq_dec q p) as [->|Hne].
      * rewrite upd_eq, Hout. unfold part. rewrite Hgp, Hown.
        rewrite (nth_error_set_nth_eq _ _ _ _ Hn), Hn. unfold sec_part; cbn.
        rewrite Nat.eqb_refl, concat_app. cbn. rewrite app_nil_r, app_assoc. reflexivity.
      * rewrite upd_neq by assumption. rewrite Hout. f_equal. symmetry.
        apply part_set_nth_same with (g := G pre (In m p wd (c :: wl)) todo); [assumption|].
        unfold sec_part; cbn.
        assert (E : Nat.eqb p q = false) by (apply Nat.eqb_neq; congruence).
        rewrite E. reflexivity.
  - (* unlock *)
    assert (Hgp : guard p = Some m) by (eapply Hgd; [exact Hn|reflexivity]).
    constructor; cbn [thr owner out].
    + apply Forall_set_nth; [assumption|].
      exact (Forall_nth_error _ _ _ _ Htodo Hn).
    + intros j g m2 p2 wd2 wl2 Hj Hgc.
      destruct (Nat.eq_dec i j) as [<-|Hne].
      * rewrite (nth_error_set_nth_eq _ _ _ _ Hn) in Hj. inversion Hj; subst g. discriminate.
      * rewrite nth_error_set_nth_neq in Hj by assumption. eapply Hgd; eassumption.
    + intros q. destruct (Nat.eq_dec q p) as [->|Hne].
      * rewrite upd_eq, Hout. unfold part. rewrite Hgp, Hown, Hn, upd_eq.
        unfold sec_part; cbn. rewrite Nat.eqb_refl, map_app, concat_app. cbn.
        rewrite !app_nil_r. reflexivity.
      * rewrite upd_neq by assumption. rewrite Hout. f_equal. unfold part.
        destruct (guard q) as [m2|]; [|reflexivity].
        destruct (Nat.eq_dec m2 m) as [->|Hnm].
        -- rewrite upd_eq, Hown, Hn. unfold sec_part; cbn.
           assert (E : Nat.eqb p q = false) by (apply Nat.eqb_neq; congruence).
           rewrite E. reflexivity.
        -- rewrite upd_neq by assumption.
           destruct (owner st m2) as [j|] eqn:Ej; [|reflexivity].
           rewrite nth_error_set_nth_neq; [reflexivity|]. intros ->.
           destruct (Ho _ _ Ej) as [g [p2 [wd2 [wl2 [Hj Hgc]]]]].
           rewrite Hn in Hj. inversion Hj; subst g. cbn in Hgc. inversion Hgc; subst.
           congruence.
Qed.

(** * The invariant holds in every reachable state *)

Definition ginit (prog : list (list call)) : list gthread := map (fun cs => G [] Idle cs) prog.

Lemma core_init prog : Core prog (init prog) (ginit prog) (fun _ => []).
Proof.
  constructor; unfold init, ginit; cbn [thr owner out].
  - rewrite map_map. reflexivity.
  - rewrite map_map. cbn. symmetry. apply map_id.
  - intros i g m p wd wl Hn Hgc. apply nth_error_map_some in Hn.
    destruct Hn as [cs [_ <-]]. discriminate.
  - intros m i H. discriminate.
  - intros p. rewrite map_map. cbn. rewrite map_id. reflexivity.
Qed.

Lemma disc_init guard prog :
  Forall (disciplined guard) prog -> Disc guard (init prog) (ginit prog) (fun _ => []).
Proof.
  intros Hd. constructor; unfold init, ginit; cbn [thr owner out].
  - rewrite Forall_map. cbn. exact Hd.
  - intros i g m p wd wl Hn Hgc. apply nth_error_map_some in Hn.
    destruct Hn as [cs [_ <-]]. discriminate.
  - intros p. unfold part. destruct (guard p); reflexivity.
Qed.

Lemma reach_core prog st :
  steps (init prog) st -> exists gs done, Core prog st gs done.
Proof.
  intros H. apply clos_rt_rtn1 in H. induction H as [|st st' Hs _ IH].
  - eexists; eexists. apply core_init.
  - destruct IH as [gs [done HC]].
    destruct (step_gstep _ _ _ done (c_thr _ _ _ _ HC) Hs) as [gs' [done' Hg]].
    exists gs', done'. eapply core_preserved; eassumption.
Qed.

Lemma reach_inv guard prog st :
  Forall (disciplined guard) prog -> steps (init prog) st ->
  exists gs done, Core prog st gs done /\ Disc guard st gs done.
Proof.
  intros Hd H. apply clos_rt_rtn1 in H. induction H as [|st st' Hs _ IH].
  - eexists; eexists. split; [apply core_init|apply disc_init; assumption].
  - destruct IH as [gs [done [HC HD]]].
    destruct (step_gstep _ _ _ done (c_thr _ _ _ _ HC) Hs) as [gs' [done' Hg]].
    exists gs', done'. split.
    + eapply core_preserved; eassumption.
    + eapply disc_preserved; eassumption.
Qed.

(** * The theorems *)

Lemma core_in_section prog st gs done i pre m p wd wl todo :
  Core prog st gs done -> nth_error gs i = Some (G pre (In m p wd wl) todo) ->
  in_section prog st i m p wd wl.
Proof.
  intros HC Hn. exists pre, todo. split.
  - rewrite (c_prog _ _ _ _ HC), nth_error_map', Hn. reflexivity.
  - rewrite (c_thr _ _ _ _ HC), nth_error_map', Hn. reflexivity.
Qed.

Theorem records_reachable : forall guard prog st,
  Forall (disciplined guard) prog -> steps (init prog) st ->
  forall p, exists (done rest : list call) (partial : str),
    out st p = concat (map call_record done) ++ partial
    /\ Permutation (done ++ rest) (calls_on p (concat prog))
    /\ partial_on guard prog st p partial.
Proof.
  intros guard prog st Hd Hs p.
  destruct (reach_inv _ _ _ Hd Hs) as [gs [done [HC HD]]].
  exists (done p), (calls_on p (concat (map grem gs))), (part guard (owner st) gs p).
  split; [apply (d_out _ _ _ _ HD)|]. split; [apply (c_perm _ _ _ _ HC)|].
  unfold partial_on, part. destruct (guard p) as [m|]; [|reflexivity].
  destruct (owner st m) as [i|] eqn:Ei; [|reflexivity].
  destruct (c_own _ _ _ _ HC _ _ Ei) as [g [p' [wd [wl [Hn Hgc]]]]].
  rewrite Hn. destruct g as [pre cur todo]. cbn in Hgc. subst cur.
  exists p', wd, wl. split; [|reflexivity].
  eapply core_in_section; eassumption.
Qed.

Lemma flatten_nil todo : flatten todo = [] -> todo = [].
Proof.
  destruct todo as [|c todo]; [reflexivity|]. destruct c; cbn; discriminate.
Qed.

Lemma gsteps_nil g : gsteps g = [] -> gc g = Idle /\ gtodo g = [].
Proof.
  destruct g as [pre cur todo]. unfold gsteps; cbn. destruct cur as [|m p wd wl].
  - intros H. split; [reflexivity|now apply flatten_nil].
  - intros H. destruct wl; cbn in H; discriminate.
Qed.

Lemma final_grem st gs :
  thr st = map gsteps gs -> final st -> Forall (fun g => gc g = Idle /\ gtodo g = []) gs.
Proof.
  unfold final. intros -> H. rewrite Forall_map in H.
  eapply Forall_impl; [|exact H]. intros g Hg. now apply gsteps_nil.
Qed.

Lemma concat_all_nil {A} (ls : list (list A)) : Forall (fun l => l = []) ls -> concat ls = [].
Proof.
  induction 1 as [|l ls Hl _ IH]; cbn; [reflexivity|]. now rewrite Hl, IH.
Qed.

Theorem records_final : forall guard prog st,
  Forall (disciplined guard) prog -> steps (init prog) st -> final st ->
  forall p, exists rs, out st p = concat rs /\ Permutation rs (records_on p (concat prog)).
Proof.
  intros guard prog st Hd Hs Hf p.
  destruct (reach_inv _ _ _ Hd Hs) as [gs [done [HC HD]]].
  pose proof (final_grem _ _ (c_thr _ _ _ _ HC) Hf) as Hidle.
  exists (map call_record (done p)). split.
  - rewrite (d_out _ _ _ _ HD). replace (part guard (owner st) gs p) with (@nil char).
    + apply app_nil_r.
    + unfold part. destruct (guard p) as [m|]; [|reflexivity].
      destruct (owner st m) as [i|] eqn:Ei; [|reflexivity].
      destruct (c_own _ _ _ _ HC _ _ Ei) as [g [p' [wd [wl [Hn Hgc]]]]].
      destruct (Forall_nth_error _ _ _ _ Hidle Hn) as [Hi _]. congruence.
  - unfold records_on. apply Permutation_map.
    pose proof (c_perm _ _ _ _ HC p) as HP.
    replace (concat (map grem gs)) with (@nil call) in HP.
    + cbn in HP. rewrite app_nil_r in HP. exact HP.
    + symmetry. apply concat_all_nil. rewrite Forall_map.
      eapply Forall_impl; [|exact Hidle]. intros g [Hi Ht]. unfold grem. now rewrite Hi.
Qed.

(** no discipline is needed for deadlock freedom: sections do not nest *)
Theorem progress : forall prog st,
  steps (init prog) st -> ~ final st -> exists st', step st st'.
Proof.
  intros prog st Hs Hnf.
  destruct (reach_core _ _ Hs) as [gs [done HC]].
  destruct (all_nil_or_not (thr st)) as [Hf|[i [s [rest Hn]]]]; [contradiction|].
  destruct s as [m|m|p cs].
  - (* a thread wants a lock: either it is free, or its holder can move *)
    destruct (owner st m) as [j|] eqn:Ej.
    + destruct (c_own _ _ _ _ HC _ _ Ej) as [g [p [wd [wl [Hj Hgc]]]]].
      assert (Hthr : nth_error (thr st) j
                     = Some (map (Write p) wl ++ Unlock m :: flatten (gtodo g))).
      { rewrite (c_thr _ _ _ _ HC), nth_error_map', Hj. cbn. unfold gsteps. now rewrite Hgc. }
      destruct wl as [|c wl]; cbn in Hthr.
      * eexists. eapply step_unlock; eassumption.
      * eexists. eapply step_write; eassumption.
    + eexists. eapply step_lock; eassumption.
  - (* an unlock: the thread is inside a section on m, hence owns it *)
    pose proof Hn as Hn'. rewrite (c_thr _ _ _ _ HC) in Hn'.
    apply nth_error_map_some in Hn'. destruct Hn' as [g [Hg Hst]].
    destruct g as [pre cur todo]. unfold gsteps in Hst; cbn in Hst.
    destruct cur as [|m' p wd wl].
    + destruct todo as [|c todo]; [discriminate|]. destruct c; cbn in Hst; discriminate.
    + destruct wl as [|c wl]; cbn in Hst; [|discriminate]. inversion Hst; subst.
      eexists. eapply step_unlock; [eassumption|].
      eapply (c_cur _ _ _ _ HC); [exact Hg|reflexivity].
  - eexists. eapply step_write; eassumption.
Qed.

(** every step consumes one atomic step, so schedules are finite *)
Lemma length_concat_set_nth {A} : forall (ls : list (list A)) i s r,
  nth_error ls i = Some (s :: r) ->
  length (concat ls) = S (length (concat (set_nth i r ls))).
Proof.
  induction ls as [|l ls IH]; intros [|i] s r H; cbn in H; try discriminate.
  - inversion H; subst. reflexivity.
  - cbn. rewrite !app_length, (IH _ _ _ H). lia.
Qed.

Theorem step_decreases : forall st st', step st st' -> remaining st' < remaining st.
Proof.
  intros st st' H. unfold remaining.
  destruct H as [st i m rest Hn _|st i m rest Hn _|st i p cs rest Hn]; cbn [thr];
    rewrite (length_concat_set_nth _ _ _ _ Hn); lia.
Qed.

(** * Mutual exclusion, stated on the plain state *)

Fixpoint next_sync (t : thread) : option astep :=
  match t with
  | [] => None
  | Write _ _ :: r => next_sync r
  | s :: _ => Some s
  end.

Lemma next_sync_writes p ws r : next_sync (map (Write p) ws ++ r) = next_sync r.
Proof. induction ws as [|w ws IH]; cbn; [reflexivity|exact IH]. Qed.

Lemma next_sync_flatten todo m : next_sync (flatten todo) <> Some (Unlock m).
Proof.
  induction todo as [|c todo IH]; cbn; [discriminate|].
  destruct c as [m2 p ws|p cs]; cbn; [discriminate|exact IH].
Qed.

(** whoever is inside a section on [m] owns [m]; so at most one thread is inside one *)
Theorem section_owner : forall prog st i m p wd wl,
  steps (init prog) st -> in_section prog st i m p wd wl -> owner st m = Some i.
Proof.
  intros prog st i m p wd wl Hs [pre [todo [_ Ht]]].
  destruct (reach_core _ _ Hs) as [gs [done HC]].
  rewrite (c_thr _ _ _ _ HC) in Ht. apply nth_error_map_some in Ht.
  destruct Ht as [g [Hg Hst]]. apply (f_equal next_sync) in Hst.
  rewrite next_sync_writes in Hst. cbn in Hst.
  destruct g as [pre' cur todo']. unfold gsteps in Hst; cbn in Hst.
  destruct cur as [|m' p' wd' wl'].
  - exfalso. eapply next_sync_flatten; eassumption.
  - rewrite next_sync_writes in Hst. cbn in Hst. inversion Hst; subst.
    eapply (c_cur _ _ _ _ HC); [exact Hg|reflexivity].
Qed.

(** * An executable scheduler, for examples *)

Definition exec1 (i : nat) (st : state) : option state :=
  match nth_error (thr st) i with
  | Some (Lock m :: rest) =>
      match owner st m with
      | None => Some (mkState (set_nth i rest (thr st)) (upd (owner st) m (Some i)) (out st))
      | Some _ => None
      end
  | Some (Unlock m :: rest) =>
      match owner st m with
      | Some j => if Nat.eqb j i
                  then Some (mkState (set_nth i rest (thr st)) (upd (owner st) m None) (out st))
                  else None
      | None => None
      end
  | Some (Write p cs :: rest) =>
      Some (mkState (set_nth i rest (thr st)) (owner st) (upd (out st) p (out st p ++ cs)))
  | _ => None
  end.

Fixpoint exec (sched : list nat) (st : state) : option state :=
  match sched with
  | [] => Some st
  | i :: r => match exec1 i st with Some st' => exec r st' | None => None end
  end.

Lemma exec1_sound i st st' : exec1 i st = Some st' -> step st st'.
Proof.
  unfold exec1. destruct (nth_error (thr st) i) as [t|] eqn:En; [|discriminate].
  destruct t as [|s rest]; [discriminate|]. destruct s as [m|m|p cs].
  - destruct (owner st m) eqn:Eo; [discriminate|]. intros H; inversion H; subst.
    eapply step_lock; eassumption.
  - destruct (owner st m) as [j|] eqn:Eo; [|discriminate].
    destruct (Nat.eqb j i) eqn:Ej; [|discriminate]. apply Nat.eqb_eq in Ej. subst j.
    intros H; inversion H; subst. eapply step_unlock; eassumption.
  - intros H; inversion H; subst. eapply step_write; eassumption.
Qed.

Lemma exec_sound : forall sched st st', exec sched st = Some st' -> steps st st'.
Proof.
  induction sched as [|i r IH]; intros st st' H; cbn in H.
  - inversion H; subst. apply rt_refl.
  - destruct (exec1 i st) as [st1|] eqn:E1; [|discriminate].
    eapply rt_trans; [apply rt_step; eapply exec1_sound; eassumption|now apply IH].
Qed.
