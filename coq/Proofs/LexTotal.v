(** Every parser of the lexer (Args, Perm, Format, Lex) is panic-free and monotone, and the
    ones used inside loops are consuming; the tokens the lexer returns never carry
    -maxdepth/-mindepth, the positional placeholder or the default print action. *)
From Coq Require Import List String NArith Bool Arith Lia.
From FP Require Import Model.Chars Model.Winnow Model.Ast Model.Args Model.Perm Model.Format Model.Lex.
From FP Require Import Proofs.WinnowTotal.
Import ListNotations.

(** * a syntax-directed solver for [wf] goals; [wf_named] is extended as lemmas become available *)
Ltac wf_named := fail.
Ltac wf_solve :=
  lazymatch goal with
  | |- Forall _ [] => constructor
  | |- Forall _ (_ :: _) => constructor; [wf_solve | wf_solve]
  | |- _ <> _ => discriminate
  | |- _ <= _ => lia
  | |- forall _, _ => intro; cbv beta; wf_solve
  | |- wf _ (pmap _ _) => apply wf_pmap; wf_solve
  | |- wf _ (value _ _) => apply wf_value; wf_solve
  | |- wf _ (context _ _) => apply wf_context; wf_solve
  | |- wf _ (cut_err _) => apply wf_cut_err; wf_solve
  | |- wf _ (alt _) => apply wf_alt; wf_solve
  | |- wf _ (try_map _ _) => apply wf_try_map; wf_solve
  | |- wf _ (verify _ _) => apply wf_verify; wf_solve
  | |- wf _ fail => apply wf_fail
  | |- wf false (peek _) => apply (wf_peek false); wf_solve
  | |- wf false (opt _) => apply (wf_opt false); wf_solve
  | |- wf false (literal _) => apply wf_literal0
  | |- wf true (literal _) => apply wf_literal; discriminate
  | |- wf false (take_while _ _) => apply wf_take_while0
  | |- wf true (take_while _ _) => apply wf_take_while; lia
  | |- wf false (take_while_mn _ _ _) => apply wf_take_while_mn0
  | |- wf true (take_while_mn _ _ _) => apply wf_take_while_mn; lia
  | |- wf false (take_until0 _) => apply wf_take_until0
  | |- wf false multispace0 => apply wf_multispace0
  | |- wf _ multispace1 => apply wf_multispace1
  | |- wf _ digit1 => apply wf_digit1
  | |- wf _ alpha1 => apply wf_alpha1
  | |- wf false eof => apply wf_eof
  | |- wf _ any => apply wf_any
  | |- wf _ (one_of _) => apply wf_one_of
  | |- wf false (bind _ _) => apply wf_bind_l; wf_solve
  | |- wf true (bind _ _) => first [ solve [apply wf_bind_l; wf_solve] | solve [apply wf_bind_r; wf_solve] ]
  | |- wf false (preceded _ _) => apply wf_preceded_l; wf_solve
  | |- wf true (preceded _ _) => first [ solve [apply wf_preceded_l; wf_solve] | solve [apply wf_preceded_r; wf_solve] ]
  | |- wf false (terminated _ _) => apply wf_terminated_l; wf_solve
  | |- wf true (terminated _ _) => first [ solve [apply wf_terminated_l; wf_solve] | solve [apply wf_terminated_r; wf_solve] ]
  | |- wf false (pair_ _ _) => apply wf_pair_l; wf_solve
  | |- wf true (pair_ _ _) => first [ solve [apply wf_pair_l; wf_solve] | solve [apply wf_pair_r; wf_solve] ]
  | |- wf _ (delimited _ _ _) => apply wf_delimited_l; wf_solve
  | |- wf _ (separated_pair _ _ _) => apply wf_separated_pair_l; wf_solve
  | |- wf false (repeat0 slen _) => apply wf_repeat0; wf_solve
  | |- wf _ (repeat_till0 slen _ _) => apply wf_repeat_till0; wf_solve
  | |- wf _ (repeat_till1 slen _ _) => apply wf_repeat_till1; wf_solve
  | |- wf _ (separated1 slen _ _) => apply wf_separated1; wf_solve
  | |- wf _ (and_then _ _) => apply wf_and_then; wf_solve
  | |- _ => first [ assumption | apply (wf_false true); assumption | wf_named ]
  end.
(** a lemma [forall c, wf c p] is proved at [c = true] *)
Ltac wf_all := intros; apply wf_weak; wf_solve.

(** * Args *)
Lemma wf_parse_uint c b : wf c (parse_uint b).
Proof. unfold parse_uint. wf_all. Qed.
Lemma wf_parse_u32 c : wf c parse_u32.
Proof. apply wf_parse_uint. Qed.
Lemma wf_parse_u64 c : wf c parse_u64.
Proof. apply wf_parse_uint. Qed.
Lemma wf_quote_delimiter c : wf c quote_delimiter.
Proof. unfold quote_delimiter. wf_all. Qed.
Lemma wf_parse_string c : wf c parse_string.
Proof. unfold parse_string. apply wf_context. apply wf_quote_delimiter. Qed.
Lemma wf_word_end : wf false word_end.
Proof. unfold word_end. wf_solve. Qed.
Lemma wf_invalid_spec {A} c w : wf c (@invalid_spec A w).
Proof. unfold invalid_spec. wf_all. Qed.

Ltac wf_named ::=
  lazymatch goal with
  | |- wf _ (parse_uint _) => apply wf_parse_uint
  | |- wf _ parse_u32 => apply wf_parse_u32
  | |- wf _ parse_u64 => apply wf_parse_u64
  | |- wf _ quote_delimiter => apply wf_quote_delimiter
  | |- wf _ parse_string => apply wf_parse_string
  | |- wf false word_end => apply wf_word_end
  | |- wf _ (invalid_spec _) => apply wf_invalid_spec
  end.

Lemma wf_parse_cmp {T} c (d : sparser T) : wf c d -> wf c (parse_cmp d).
Proof.
  intros Hd. pose proof (wf_false c d Hd) as Hd0. unfold parse_cmp. destruct c; wf_solve.
Qed.
Lemma wf_parse_size c : wf c parse_size.
Proof. unfold parse_size. wf_all. Qed.
Lemma wf_parse_time c u : wf c (parse_time u).
Proof. unfold parse_time. wf_all. Qed.
Lemma wf_parse_filetype c : wf c parse_filetype.
Proof. unfold parse_filetype. wf_all. Qed.
Lemma wf_parse_filetypes c : wf c parse_filetypes.
Proof. unfold parse_filetypes. intros. apply wf_separated1; [apply wf_parse_filetype|wf_solve]. Qed.

(** * Perm *)
Lemma wf_parse_partial c : wf c parse_partial.
Proof. unfold parse_partial. wf_all. Qed.

Ltac wf_named ::=
  lazymatch goal with
  | |- wf _ (parse_uint _) => apply wf_parse_uint
  | |- wf _ parse_u32 => apply wf_parse_u32
  | |- wf _ parse_u64 => apply wf_parse_u64
  | |- wf _ quote_delimiter => apply wf_quote_delimiter
  | |- wf _ parse_string => apply wf_parse_string
  | |- wf false word_end => apply wf_word_end
  | |- wf _ (invalid_spec _) => apply wf_invalid_spec
  | |- wf _ (parse_cmp _) => apply wf_parse_cmp; wf_solve
  | |- wf _ parse_size => apply wf_parse_size
  | |- wf _ (parse_time _) => apply wf_parse_time
  | |- wf _ parse_filetype => apply wf_parse_filetype
  | |- wf _ parse_filetypes => apply wf_parse_filetypes
  | |- wf _ parse_partial => apply wf_parse_partial
  end.

Lemma wf_parse_permission c : wf c parse_permission.
Proof. unfold parse_permission. wf_all. Qed.
Lemma wf_parse_permcheck c : wf c parse_permcheck.
Proof.
  unfold parse_permcheck. intros. apply wf_weak. apply wf_context. apply wf_alt.
  pose proof (wf_parse_permission true) as H1. pose proof (wf_parse_permission false) as H0.
  wf_solve.
Qed.
Lemma wf_parse_perm_arg c : wf c parse_perm_arg.
Proof.
  unfold parse_perm_arg. pose proof (wf_parse_permcheck false) as H0. wf_all.
Qed.

(** * Format *)
Lemma wf_parse_special c : wf c parse_special.
Proof. unfold parse_special. wf_all. Qed.
Lemma wf_parse_field c : wf c parse_field.
Proof. unfold parse_field. wf_all. Qed.
Lemma wf_parse_element c : wf c parse_element.
Proof.
  unfold parse_element. pose proof (wf_parse_special true). pose proof (wf_parse_field true). wf_all.
Qed.
Lemma wf_parse_format : wf false parse_format.
Proof. unfold parse_format. pose proof (wf_parse_element true). wf_solve. Qed.
Lemma wf_parse_format_arg c : wf c parse_format_arg.
Proof. unfold parse_format_arg. pose proof wf_parse_format. wf_all. Qed.

(** * Lex *)
Lemma wf_unary {A B} c id (f : A -> B) (p : sparser A) :
  id <> ""%string -> wf false p -> wf c (unary id f p).
Proof.
  intros Hid Hp. unfold unary. apply wf_weak. apply wf_pmap, wf_context. apply wf_preceded_l.
  - apply wf_terminated_l; [apply wf_literal; exact Hid|apply wf_word_end].
  - wf_solve.
Qed.
Lemma wf_binary {A B C} c id (f : A * B -> C) (pl : sparser A) (pr : sparser B) args :
  id <> ""%string -> wf false pl -> wf false pr -> wf c (binary id f pl pr args).
Proof.
  intros Hid Hl Hr. unfold binary. apply wf_weak. apply wf_pmap, wf_context. apply wf_preceded_l.
  - apply wf_terminated_l; [apply wf_literal; exact Hid|apply wf_word_end].
  - wf_solve.
Qed.
Lemma wf_unsupported_u32 c : wf c unsupported_u32.
Proof. unfold unsupported_u32. wf_all. Qed.

Ltac wf_named ::=
  lazymatch goal with
  | |- wf _ (parse_uint _) => apply wf_parse_uint
  | |- wf _ parse_u32 => apply wf_parse_u32
  | |- wf _ parse_u64 => apply wf_parse_u64
  | |- wf _ quote_delimiter => apply wf_quote_delimiter
  | |- wf _ parse_string => apply wf_parse_string
  | |- wf false word_end => apply wf_word_end
  | |- wf _ (invalid_spec _) => apply wf_invalid_spec
  | |- wf _ (parse_cmp _) => apply wf_parse_cmp; wf_solve
  | |- wf _ parse_size => apply wf_parse_size
  | |- wf _ (parse_time _) => apply wf_parse_time
  | |- wf _ parse_filetype => apply wf_parse_filetype
  | |- wf _ parse_filetypes => apply wf_parse_filetypes
  | |- wf _ parse_partial => apply wf_parse_partial
  | |- wf _ parse_perm_arg => apply wf_parse_perm_arg
  | |- wf _ parse_format_arg => apply wf_parse_format_arg
  | |- wf _ unsupported_u32 => apply wf_unsupported_u32
  | |- wf _ (unary _ _ _) => apply wf_unary; wf_solve
  | |- wf _ (binary _ _ _ _ _) => apply wf_binary; wf_solve
  end.

Lemma wf_parse_global c : wf c parse_global.
Proof. unfold parse_global. wf_all. Qed.
Lemma wf_parse_action c : wf c parse_action.
Proof. unfold parse_action. wf_all. Qed.
Lemma wf_parse_test c : wf c parse_test.
Proof. unfold parse_test. wf_all. Qed.
Lemma wf_blank_or_eof : wf false blank_or_eof.
Proof. unfold blank_or_eof. wf_solve. Qed.
Lemma wf_parse_token c : wf c parse_token.
Proof.
  unfold parse_token.
  pose proof (wf_parse_global true). pose proof (wf_parse_action true).
  pose proof (wf_parse_test true). pose proof wf_blank_or_eof.
  wf_all.
Qed.
Lemma wf_lex : wf false lex.
Proof. unfold lex. pose proof (wf_parse_token true). wf_solve. Qed.
Lemma wf_leading_and : wf false leading_and.
Proof. unfold leading_and. wf_solve. Qed.
Lemma wf_leading_options : wf false leading_options.
Proof.
  unfold leading_options. pose proof (wf_parse_global true). pose proof wf_leading_and. wf_solve.
Qed.

(** * What the lexer returns *)
Definition okg (g : gopt) : Prop :=
  match g with GMaxDepth _ | GMinDepth _ => False | _ => True end.
Definition tok_ok (t : token) : Prop :=
  match t with
  | KPrim (LGlobal g) => okg g
  | KPrim LPositional => False
  | KPrim (LAction a) => a <> ADefaultPrint
  | _ => True
  end.

Lemma post_unary {A B} (P : A -> Prop) (Q : B -> Prop) id (f : A -> B) (p : sparser A) :
  post P p -> (forall a, P a -> Q (f a)) -> post Q (unary id f p).
Proof.
  intros Hp HPQ. unfold unary. apply (post_pmap P); [|exact HPQ].
  apply post_context, post_preceded, post_cut_err, post_preceded, post_cut_err. exact Hp.
Qed.
Lemma post_unary_any {A B} (Q : B -> Prop) id (f : A -> B) (p : sparser A) :
  (forall a, Q (f a)) -> post Q (unary id f p).
Proof. intros H. apply (post_unary (fun _ => True)); [apply post_true|]. intros a _. apply H. Qed.
Lemma post_binary_any {A B C} (Q : C -> Prop) id (f : A * B -> C) pl pr args :
  (forall x, Q (f x)) -> post Q (binary id f pl pr args).
Proof. intros H. unfold binary. apply post_pmap_any. exact H. Qed.

Lemma post_unsupported_u32 : post (fun _ => False) unsupported_u32.
Proof. unfold unsupported_u32. apply post_context. apply post_verify_false. Qed.

Lemma post_parse_global : post okg parse_global.
Proof.
  unfold parse_global. apply post_context, post_alt. repeat constructor.
  - apply post_value. exact I.
  - apply (post_unary (fun _ => False)); [apply post_unsupported_u32|]. intros a [].
  - apply (post_unary (fun _ => False)); [apply post_unsupported_u32|]. intros a [].
  - apply post_unary_any. intros a. exact I.
Qed.

Ltac post_leaf :=
  lazymatch goal with
  | |- post _ (unary _ _ _) => apply post_unary_any; intros ?; discriminate
  | |- post _ (binary _ _ _ _ _) => apply post_binary_any; intros [? ?]; discriminate
  | |- post _ (value _ _) => apply post_value; discriminate
  end.

Lemma post_parse_action : post (fun a => a <> ADefaultPrint) parse_action.
Proof.
  unfold parse_action. apply post_context, post_alt. repeat (constructor; [post_leaf|]). constructor.
Qed.

Lemma post_parse_token : post tok_ok parse_token.
Proof.
  unfold parse_token. apply post_context, post_alt.
  repeat (constructor; [apply post_value; exact I|]).
  constructor; [|constructor; [|constructor]].
  - apply post_terminated, post_alt. repeat constructor.
    + apply post_pmap_any. intros t. exact I.
    + apply (post_pmap (fun a => a <> ADefaultPrint)); [apply post_parse_action|]. intros a Ha. exact Ha.
    + apply (post_pmap okg); [apply post_parse_global|]. intros g Hg. exact Hg.
  - apply post_context, post_fail.
Qed.

Lemma post_lex : post (Forall tok_ok) lex.
Proof.
  unfold lex. apply (post_pmap (fun lb => Forall tok_ok (fst lb))); [|intros a Ha; exact Ha].
  apply post_preceded, post_repeat_till1, post_terminated, post_parse_token.
Qed.

Lemma post_leading_options : post (Forall okg) leading_options.
Proof.
  unfold leading_options. apply post_preceded, post_repeat0, post_terminated, post_terminated.
  apply post_parse_global.
Qed.
