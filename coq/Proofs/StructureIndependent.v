(** C04s: the structure of the compiled program does not depend on the characters of the user
    strings, given the same equality pattern among resource keys (Spec/Blank.v). *)
From Coq Require Import List String NArith Bool Arith Lia ZifyBool ZifyN.
From FP Require Import Model.Chars Model.Ast Model.Sexp Model.Compile Spec.Blank.
From FP Require Import Proofs.MgrEnv Proofs.SemFacts.
Import ListNotations.
Local Open Scope N_scope.

Arguments ident : simpl never.
Arguments atom : simpl never.
Arguments lst : simpl never.
Arguments lstr : simpl never.
Arguments num : simpl never.
Arguments call0 : simpl never.
Arguments cmp_field : simpl never.
Arguments compile_size : simpl never.
Arguments compile_time : simpl never.
Arguments compile_types : simpl never.
Arguments compile_perm : simpl never.
Arguments compile_format : simpl never.
Arguments get_matcher : simpl never.
Arguments get_printer : simpl never.
Arguments get_file_printer : simpl never.
Arguments with_mgr : simpl never.
Arguments binding : simpl never.
Arguments matcher_binding : simpl never.
Arguments terminator_escape : simpl never.
Arguments xattr_offending : simpl never.

Lemma Forall2_rev' {A B} (R : A -> B -> Prop) l1 l2 : Forall2 R l1 l2 -> Forall2 R (rev l1) (rev l2).
Proof.
  intros H. induction H as [|x y l1 l2 Hxy H IH]; cbn [rev]; [constructor|].
  apply Forall2_app; [exact IH|]. constructor; [exact Hxy|constructor].
Qed.

Definition krel {K V} (RK : K -> K -> Prop) (a b : K * V) : Prop := RK (fst a) (fst b) /\ snd a = snd b.
Lemma assoc_rel {K V} (eqb : K -> K -> bool) (RK : K -> K -> Prop) :
  (forall a b a' b', RK a b -> RK a' b' -> eqb a a' = eqb b b') ->
  forall (l1 l2 : list (K * V)) k1 k2, RK k1 k2 -> Forall2 (krel RK) l1 l2 ->
  assoc eqb k1 l1 = assoc eqb k2 l2.
Proof.
  intros Hc l1 l2 k1 k2 Hk HF.
  induction HF as [|[a v] [b w] l1 l2 [Hab Hvw] HF IH]; cbn [assoc]; [reflexivity|].
  cbn [fst snd] in Hab, Hvw. rewrite (Hc _ _ _ _ Hk Hab). subst w.
  destruct (eqb k2 b); [reflexivity|exact IH].
Qed.

Lemma str_eqb_rel R : key_rel R -> forall a b a' b', R a b -> R a' b' -> str_eqb a a' = str_eqb b b'.
Proof.
  intros HR a b a' b' H1 H2. destruct (HR _ _ _ _ H1 H2) as [Hab Hba].
  destruct (str_eqb a a') eqn:E.
  - apply str_eqb_eq in E. rewrite (Hab E). symmetry. apply str_eqb_refl.
  - destruct (str_eqb b b') eqn:E2; [|reflexivity].
    apply str_eqb_eq in E2. rewrite (Hba E2), str_eqb_refl in E. discriminate E.
Qed.

Section Sim.
  Variable Rm : bool -> str -> str -> Prop.
  Variable Rf : str -> str -> Prop.
  Hypothesis HRm : forall ci, key_rel (Rm ci).
  Hypothesis HRf : key_rel Rf.
  Variable bl : sexp -> sexp.
  Hypothesis Hbl_list : forall l, bl (SList l) = SList (map bl l).
  Hypothesis Hbl_str : forall u v, bl (SStr u) = bl (SStr v).
  Hypothesis Hbl_m : forall ci p q, Rm ci p q ->
    bl (SAtom (chars (matcher_name p ci))) = bl (SAtom (chars (matcher_name q ci))).

  Definition be (x : lsexp) : sexp := bl (erase x).
  Lemma be_lst l : be (lst l) = SList (map be l).
  Proof. unfold be. rewrite erase_lst, Hbl_list, map_map. reflexivity. Qed.
  Lemma be_lstr u v : be (lstr u) = be (lstr v).
  Proof. unfold be. rewrite !erase_lstr. apply Hbl_str. Qed.
  Lemma be_LStr a b : be (LStr a) = be (LStr b).
  Proof. unfold be. cbn [erase]. apply Hbl_str. Qed.
  Lemma be_matcher ci p q : Rm ci p q -> be (atom (matcher_name p ci)) = be (atom (matcher_name q ci)).
  Proof. intros H. unfold be. rewrite !erase_atom. apply Hbl_m. exact H. Qed.
  Ltac bes := unfold binding; repeat (rewrite be_lst; cbn [map]).

  Lemma matcher_binding_be i ci p q : Rm ci p q -> be (matcher_binding i p ci) = be (matcher_binding i q ci).
  Proof.
    intros H. unfold matcher_binding. bes. rewrite (be_lstr p q), (be_matcher ci p q H). reflexivity.
  Qed.

  Definition RKm (a b : str * bool) : Prop := snd a = snd b /\ Rm (snd a) (fst a) (fst b).
  Definition RKt (a b : target) : Prop :=
    match a, b with
    | TStdout x, TStdout y => x = y
    | TFile f x, TFile g y => Rf f g /\ x = y
    | _, _ => False
    end.
  Lemma mkey_compat a b a' b' : RKm a b -> RKm a' b' -> mkey_eqb a a' = mkey_eqb b b'.
  Proof.
    destruct a as [p ci], b as [q ci2], a' as [p' ci'], b' as [q' ci2'].
    unfold RKm, mkey_eqb. cbn [fst snd]. intros [E1 H1] [E2 H2]. subst ci2 ci2'.
    destruct (Bool.eqb ci ci') eqn:E; [|rewrite !andb_false_r; reflexivity].
    apply eqb_prop in E. subst ci'. rewrite (str_eqb_rel (Rm ci) (HRm ci) _ _ _ _ H1 H2). reflexivity.
  Qed.
  Lemma target_compat a b a' b' : RKt a b -> RKt a' b' -> target_eqb a a' = target_eqb b b'.
  Proof.
    destruct a as [x|f x], b as [y|g y], a' as [x'|f' x'], b' as [y'|g' y'];
      cbn [RKt target_eqb]; intros H1 H2; try contradiction; subst; try reflexivity.
    destruct H1 as [H1 E1], H2 as [H2 E2]. subst.
    rewrite (str_eqb_rel Rf HRf _ _ _ _ H1 H2). reflexivity.
  Qed.

  Record simL (a b : lmgr) : Prop := {
    sl_idx : l_idx a = l_idx b;
    sl_vars : map be (l_vars a) = map be (l_vars b);
    sl_fini : l_fini a = l_fini b;
    sl_default : l_default a = l_default b;
    sl_files : Forall2 (krel Rf) (l_files a) (l_files b);
    sl_printers : l_printers a = l_printers b;
    sl_matches : Forall2 (krel RKm) (l_matches a) (l_matches b) }.
  Record simD (a b : dmgr) : Prop := {
    sd_idx : d_idx a = d_idx b;
    sd_vars : map be (d_vars a) = map be (d_vars b);
    sd_printers : Forall2 (krel RKt) (d_printers a) (d_printers b);
    sd_matches : Forall2 (krel RKm) (d_matches a) (d_matches b) }.
  Definition sim_mgr (m1 m2 : mgr) : Prop :=
    match m1, m2 with ML a, ML b => simL a b | MD a, MD b => simD a b | _, _ => False end.
  Definition step_sim {A} (r1 r2 : A * mgr) : Prop := fst r1 = fst r2 /\ sim_mgr (snd r1) (snd r2).

  Lemma F2_snoc {A B} (R : A -> B -> Prop) l1 l2 x y : Forall2 R l1 l2 -> R x y -> Forall2 R (l1 ++ [x]) (l2 ++ [y]).
  Proof. intros H Hxy. apply Forall2_app; [exact H|]. constructor; [exact Hxy|constructor]. Qed.

  Lemma l_register_match_sim a b ci p q : simL a b -> Rm ci p q ->
    fst (l_register_match p ci a) = fst (l_register_match q ci b)
    /\ simL (snd (l_register_match p ci a)) (snd (l_register_match q ci b)).
  Proof.
    intros [Hi Hv Hf Hd Hfl Hp Hm] HR. unfold l_register_match.
    rewrite (assoc_rel mkey_eqb RKm mkey_compat _ _ (p, ci) (q, ci) (conj eq_refl HR) Hm).
    destruct (assoc mkey_eqb (q, ci) (l_matches b)) as [i|]; cbn [fst snd].
    - split; [reflexivity|]. constructor; assumption.
    - rewrite Hi. split; [reflexivity|]. constructor; cbn; try assumption; try reflexivity.
      + rewrite !map_app, Hv. cbn [map]. rewrite (matcher_binding_be _ ci p q HR). reflexivity.
      + apply F2_snoc; [exact Hm|]. split; [split; [reflexivity|exact HR]|reflexivity].
  Qed.
  Lemma d_register_match_sim a b ci p q : simD a b -> Rm ci p q ->
    fst (d_register_match p ci a) = fst (d_register_match q ci b)
    /\ simD (snd (d_register_match p ci a)) (snd (d_register_match q ci b)).
  Proof.
    intros [Hi Hv Hp Hm] HR. unfold d_register_match.
    rewrite (assoc_rel mkey_eqb RKm mkey_compat _ _ (p, ci) (q, ci) (conj eq_refl HR) Hm).
    destruct (assoc mkey_eqb (q, ci) (d_matches b)) as [i|]; cbn [fst snd].
    - split; [reflexivity|]. constructor; assumption.
    - rewrite Hi. split; [reflexivity|]. constructor; cbn; try assumption; try reflexivity.
      + rewrite !map_app, Hv. cbn [map]. rewrite (matcher_binding_be _ ci p q HR). reflexivity.
      + apply F2_snoc; [exact Hm|]. split; [split; [reflexivity|exact HR]|reflexivity].
  Qed.
  Lemma get_matcher_sim m1 m2 ci p q : sim_mgr m1 m2 -> Rm ci p q ->
    step_sim (get_matcher p ci m1) (get_matcher q ci m2).
  Proof.
    intros Hs HR. destruct m1 as [a|a], m2 as [b|b]; cbn [sim_mgr] in Hs; try contradiction;
      unfold get_matcher, step_sim.
    - destruct (l_register_match_sim a b ci p q Hs HR) as [H1 H2].
      destruct (l_register_match p ci a) as [i1 a1], (l_register_match q ci b) as [i2 b1].
      cbn [fst snd] in *. subst. split; [reflexivity|exact H2].
    - destruct (d_register_match_sim a b ci p q Hs HR) as [H1 H2].
      destruct (d_register_match p ci a) as [i1 a1], (d_register_match q ci b) as [i2 b1].
      cbn [fst snd] in *. subst. split; [reflexivity|exact H2].
  Qed.

  Lemma l_register_printer_sim a b p t : simL a b ->
    fst (l_register_printer p t a) = fst (l_register_printer p t b)
    /\ simL (snd (l_register_printer p t a)) (snd (l_register_printer p t b)).
  Proof.
    intros [Hi Hv Hf Hd Hfl Hp Hm]. unfold l_register_printer. rewrite Hp.
    destruct (assoc pkey_eqb (p, t) (l_printers b)) as [i|]; cbn [fst snd].
    - split; [reflexivity|]. constructor; assumption.
    - rewrite Hi. split; [reflexivity|]. constructor; cbn; try assumption; try reflexivity.
      rewrite !map_app, Hv. reflexivity.
  Qed.
  Lemma l_init_default_port_sim a b : simL a b ->
    fst (l_init_default_port a) = fst (l_init_default_port b)
    /\ simL (snd (l_init_default_port a)) (snd (l_init_default_port b)).
  Proof.
    intros [Hi Hv Hf Hd Hfl Hp Hm]. unfold l_init_default_port. rewrite Hd.
    destruct (l_default b) as [pp|] eqn:Eb; cbn [fst snd].
    - split; [reflexivity|]. constructor; try assumption; congruence.
    - rewrite Hi. split; [reflexivity|]. constructor; cbn; try assumption; try reflexivity; try congruence.
      rewrite !map_app, Hv. reflexivity.
  Qed.
  Lemma l_init_file_port_sim a b f g : simL a b -> Rf f g ->
    fst (l_init_file_port f a) = fst (l_init_file_port g b)
    /\ simL (snd (l_init_file_port f a)) (snd (l_init_file_port g b)).
  Proof.
    intros [Hi Hv Hf Hd Hfl Hp Hm] HR. unfold l_init_file_port.
    rewrite (assoc_rel str_eqb Rf (str_eqb_rel Rf HRf) _ _ f g HR Hfl).
    destruct (assoc str_eqb g (l_files b)) as [pp|]; cbn [fst snd].
    - split; [reflexivity|]. constructor; assumption.
    - rewrite Hi. split; [reflexivity|]. constructor; cbn; try assumption; try reflexivity.
      + rewrite !map_app, Hv. cbn [map]. f_equal. f_equal. bes. rewrite (be_lstr f g). reflexivity.
      + rewrite Hf. reflexivity.
      + apply F2_snoc; [exact Hfl|]. split; [exact HR|reflexivity].
  Qed.
  Lemma d_register_printer_sim a b t u : simD a b -> RKt t u ->
    fst (d_register_printer t a) = fst (d_register_printer u b)
    /\ simD (snd (d_register_printer t a)) (snd (d_register_printer u b)).
  Proof.
    intros [Hi Hv Hp Hm] HR. unfold d_register_printer.
    rewrite (assoc_rel target_eqb RKt target_compat _ _ t u HR Hp).
    destruct (assoc target_eqb u (d_printers b)) as [i|]; cbn [fst snd].
    - split; [reflexivity|]. constructor; assumption.
    - rewrite Hi. split; [reflexivity|]. constructor; cbn; try assumption; try reflexivity.
      + rewrite !map_app, Hv. reflexivity.
      + apply F2_snoc; [exact Hp|]. split; [exact HR|reflexivity].
  Qed.

  Lemma get_printer_sim term m1 m2 : sim_mgr m1 m2 -> step_sim (get_printer term m1) (get_printer term m2).
  Proof.
    intros Hs. destruct m1 as [a|a], m2 as [b|b]; cbn [sim_mgr] in Hs; try contradiction;
      unfold get_printer, step_sim.
    - destruct (l_init_default_port_sim a b Hs) as [H1 H2].
      destruct (l_init_default_port a) as [p1 a1], (l_init_default_port b) as [p2 b1].
      cbn [fst snd] in H1, H2. subst p2.
      destruct (l_register_printer_sim a1 b1 p1 term H2) as [H3 H4].
      destruct (l_register_printer p1 term a1) as [i1 a2], (l_register_printer p1 term b1) as [i2 b2].
      cbn [fst snd] in *. subst. split; [reflexivity|exact H4].
    - destruct (d_register_printer_sim a b (TStdout term) (TStdout term) Hs eq_refl) as [H1 H2].
      destruct (d_register_printer (TStdout term) a) as [i1 a1], (d_register_printer (TStdout term) b) as [i2 b1].
      cbn [fst snd] in *. subst. split; [reflexivity|exact H2].
  Qed.
  Lemma get_file_printer_sim f g term m1 m2 : Rf f g -> sim_mgr m1 m2 ->
    step_sim (get_file_printer f term m1) (get_file_printer g term m2).
  Proof.
    intros HR Hs. destruct m1 as [a|a], m2 as [b|b]; cbn [sim_mgr] in Hs; try contradiction;
      unfold get_file_printer, step_sim.
    - destruct (l_init_file_port_sim a b f g Hs HR) as [H1 H2].
      destruct (l_init_file_port f a) as [p1 a1], (l_init_file_port g b) as [p2 b1].
      cbn [fst snd] in H1, H2. subst p2.
      destruct (l_register_printer_sim a1 b1 p1 term H2) as [H3 H4].
      destruct (l_register_printer p1 term a1) as [i1 a2], (l_register_printer p1 term b1) as [i2 b2].
      cbn [fst snd] in *. subst. split; [reflexivity|exact H4].
    - destruct (d_register_printer_sim a b (TFile f term) (TFile g term) Hs (conj HR eq_refl)) as [H1 H2].
      destruct (d_register_printer (TFile f term) a) as [i1 a1], (d_register_printer (TFile g term) b) as [i2 b1].
      cbn [fst snd] in *. subst. split; [reflexivity|exact H2].
  Qed.

  (** * states *)
  Definition sim_st (s1 s2 : cstate) : Prop := sim_mgr (st_mgr s1) (st_mgr s2) /\ st_clock s1 = st_clock s2.
  Lemma with_mgr_sim (g1 g2 : mgr -> lsexp * mgr) s1 s2 :
    (forall m1 m2, sim_mgr m1 m2 -> step_sim (g1 m1) (g2 m2)) -> sim_st s1 s2 ->
    fst (with_mgr g1 s1) = fst (with_mgr g2 s2) /\ sim_st (snd (with_mgr g1 s1)) (snd (with_mgr g2 s2)).
  Proof.
    intros Hg [Hm Hc]. unfold with_mgr. destruct (Hg _ _ Hm) as [H1 H2].
    destruct (g1 (st_mgr s1)) as [x1 m1], (g2 (st_mgr s2)) as [x2 m2]. cbn [fst snd] in *.
    split; [exact H1|]. split; cbn; assumption.
  Qed.

  Definition res_sim (r1 r2 : cres (lsexp * cstate)) : Prop :=
    match r1 with
    | COk (x1, s1') => exists x2 s2', r2 = COk (x2, s2') /\ be x1 = be x2 /\ sim_st s1' s2'
    | _ => True
    end.

  Lemma matcher_case caller ci p q s1 s2 : Rm ci p q -> sim_st s1 s2 ->
    res_sim (let (m, s') := with_mgr (get_matcher p ci) s1 in COk (lst [atom caller; m], s'))
            (let (m, s') := with_mgr (get_matcher q ci) s2 in COk (lst [atom caller; m], s')).
  Proof.
    intros HR Hs.
    destruct (with_mgr_sim (get_matcher p ci) (get_matcher q ci) s1 s2
                (fun m1 m2 H => get_matcher_sim m1 m2 ci p q H HR) Hs) as [H1 H2].
    destruct (with_mgr (get_matcher p ci) s1) as [x1 s1'], (with_mgr (get_matcher q ci) s2) as [x2 s2'].
    cbn [fst snd] in *. subst x2. cbn [res_sim]. eexists _, _. split; [reflexivity|]. split; [reflexivity|exact H2].
  Qed.

  Lemma pure_case x y s1 s2 : be x = be y -> sim_st s1 s2 -> res_sim (COk (x, s1)) (COk (y, s2)).
  Proof. intros H Hs. cbn [res_sim]. eexists _, _. split; [reflexivity|]. split; assumption. Qed.

  Lemma tick_case field c s1 s2 : sim_st s1 s2 ->
    res_sim (let (now, s') := tick s1 in COk (compile_time now field c, s'))
            (let (now, s') := tick s2 in COk (compile_time now field c, s')).
  Proof.
    intros [Hm Hc]. unfold tick. apply pure_case; [rewrite Hc; reflexivity|].
    split; cbn; [exact Hm|rewrite Hc; reflexivity].
  Qed.

  Lemma compile_test_sim t u s1 s2 : test_shape Rm t u -> sim_st s1 s2 ->
    res_sim (compile_test t s1) (compile_test u s2).
  Proof.
    intros Ht Hs. destruct Ht as [p q HR|p q HR|p q HR|p q HR|p q|p q|f v g w Hx|t Hk];
      cbn [compile_test].
    - apply matcher_case; assumption.
    - apply matcher_case; assumption.
    - apply matcher_case; assumption.
    - apply matcher_case; assumption.
    - apply pure_case; [|exact Hs]. bes. rewrite (be_lstr p q). reflexivity.
    - apply pure_case; [|exact Hs]. bes. rewrite (be_lstr p q). reflexivity.
    - rewrite Hx. destruct (xattr_offending g || xattr_offending w); (apply pure_case; [|exact Hs]); bes;
        rewrite (be_lstr f g), (be_lstr v w); reflexivity.
    - destruct t; try discriminate Hk; cbn [compile_test test_unsupported res_sim]; try exact I;
        try (apply tick_case; exact Hs); try (apply pure_case; [reflexivity|exact Hs]).
      destruct (xattr_offending a || xattr_offending b); apply pure_case; try reflexivity; exact Hs.
  Qed.

  (** * formats *)
  Lemma template_sim f1 f2 : Forall2 elem_shape f1 f2 -> forall ps1, template f1 = COk ps1 ->
    exists ps2, template f2 = COk ps2.
  Proof.
    intros H. induction H as [|x y f1 f2 Hxy H IH]; intros ps1 Ht; [exists []; reflexivity|].
    cbn [template] in *.
    assert (Hp : forall p, elem_piece x = COk p -> exists p', elem_piece y = COk p').
    { intros p Hp. destruct Hxy as [s t|a b|el]; cbn [elem_piece field_unsupported] in *; eauto. }
    destruct (elem_piece x) as [p| |]; try discriminate Ht.
    destruct (Hp p eq_refl) as [p' Hp']. rewrite Hp'.
    destruct (template f1) as [ps| |]; try discriminate Ht.
    destruct (IH ps eq_refl) as [ps2 E]. rewrite E. eauto.
  Qed.
  Lemma format_items_sim f1 f2 : Forall2 elem_shape f1 f2 ->
    map be (format_items f1) = map be (format_items f2).
  Proof.
    intros H. induction H as [|x y f1 f2 Hxy H IH]; [reflexivity|].
    destruct Hxy as [s t|a b|el]; cbn [format_items snippet map].
    - exact IH.
    - rewrite IH. f_equal. bes. rewrite (be_lstr a b). reflexivity.
    - destruct el as [s|f|sp]; try exact IH. destruct (snippet f); cbn [map]; rewrite IH; reflexivity.
  Qed.
  Lemma compile_format_shape fmt x : compile_format fmt = COk x ->
    exists ps, template fmt = COk ps /\
      erase x = SList ([SAtom (chars "format"); SAtom (chars "#f"); SStr (flat_map piece_value ps)]
                        ++ map erase (format_items fmt)).
  Proof.
    unfold compile_format. intros H. destruct (template fmt) as [ps| |]; try discriminate H.
    exists ps. split; [reflexivity|].
    destruct (format_items fmt) as [|i items] eqn:E; inversion H; subst x; clear H.
    - reflexivity.
    - cbn [erase erase_items items_app]. rewrite erase_items_sep. reflexivity.
  Qed.
  Lemma compile_format_sim f1 f2 x1 : Forall2 elem_shape f1 f2 -> compile_format f1 = COk x1 ->
    exists x2, compile_format f2 = COk x2 /\ be x1 = be x2.
  Proof.
    intros HF H1. destruct (compile_format_shape f1 x1 H1) as [ps1 [T1 E1]].
    destruct (template_sim f1 f2 HF ps1 T1) as [ps2 T2].
    assert (H2 : exists x2, compile_format f2 = COk x2).
    { unfold compile_format. rewrite T2. destruct (format_items f2); eauto. }
    destruct H2 as [x2 H2]. exists x2. split; [exact H2|].
    destruct (compile_format_shape f2 x2 H2) as [ps2' [T2' E2]].
    unfold be. rewrite E1, E2, !Hbl_list. f_equal. cbn [app map]. rewrite !map_map.
    f_equal. f_equal. f_equal; [apply Hbl_str|]. exact (format_items_sim f1 f2 HF).
  Qed.

  Lemma compile_action_sim a b s1 s2 : action_shape Rf a b -> sim_st s1 s2 ->
    res_sim (compile_action a s1) (compile_action b s2).
  Proof.
    intros Ha Hs.
    assert (Hprn : forall term, fst (with_mgr (get_printer term) s1) = fst (with_mgr (get_printer term) s2)
              /\ sim_st (snd (with_mgr (get_printer term) s1)) (snd (with_mgr (get_printer term) s2))).
    { intros term. apply with_mgr_sim; [|exact Hs]. intros m1 m2 H. apply get_printer_sim. exact H. }
    assert (Hfp : forall f g term, Rf f g ->
              fst (with_mgr (get_file_printer f term) s1) = fst (with_mgr (get_file_printer g term) s2)
              /\ sim_st (snd (with_mgr (get_file_printer f term) s1)) (snd (with_mgr (get_file_printer g term) s2))).
    { intros f g term HR. apply with_mgr_sim; [|exact Hs]. intros m1 m2 H. apply get_file_printer_sim; assumption. }
    destruct Ha as [f g HR|f g HR|f g fmt1 fmt2 HR HF|fmt1 fmt2 HF|f g|a Hk]; cbn [compile_action].
    - destruct (Hfp f g (Some 10) HR) as [H1 H2].
      destruct (with_mgr (get_file_printer f (Some 10)) s1) as [x1 s1'], (with_mgr (get_file_printer g (Some 10)) s2) as [x2 s2'].
      cbn [fst snd] in *. subst x2. apply pure_case; [reflexivity|exact H2].
    - destruct (Hfp f g (Some 0) HR) as [H1 H2].
      destruct (with_mgr (get_file_printer f (Some 0)) s1) as [x1 s1'], (with_mgr (get_file_printer g (Some 0)) s2) as [x2 s2'].
      cbn [fst snd] in *. subst x2. apply pure_case; [reflexivity|exact H2].
    - destruct (Hfp f g None HR) as [H1 H2].
      destruct (with_mgr (get_file_printer f None) s1) as [x1 s1'], (with_mgr (get_file_printer g None) s2) as [x2 s2'].
      cbn [fst snd] in *. subst x2.
      destruct (compile_format fmt1) as [y1| |] eqn:E1; cbn [res_sim]; try exact I.
      destruct (compile_format_sim fmt1 fmt2 y1 HF E1) as [y2 [E2 Hy]]. rewrite E2.
      apply pure_case; [|exact H2]. bes. rewrite Hy. reflexivity.
    - destruct (Hprn None) as [H1 H2].
      destruct (with_mgr (get_printer None) s1) as [x1 s1'], (with_mgr (get_printer None) s2) as [x2 s2'].
      cbn [fst snd] in *. subst x2.
      destruct (compile_format fmt1) as [y1| |] eqn:E1; cbn [res_sim]; try exact I.
      destruct (compile_format_sim fmt1 fmt2 y1 HF E1) as [y2 [E2 Hy]]. rewrite E2.
      apply pure_case; [|exact H2]. bes. rewrite Hy. reflexivity.
    - exact I.
    - assert (HFr : forall fmt, Forall2 elem_shape fmt fmt).
      { induction fmt as [|el fmt IH]; constructor; [apply ES_same|exact IH]. }
      destruct a; try discriminate Hk; cbn [compile_action res_sim]; try exact I;
        try (apply pure_case; [reflexivity|exact Hs]).
      + destruct (Hprn (Some 10)) as [H1 H2].
        destruct (with_mgr (get_printer (Some 10)) s1) as [x1 s1'], (with_mgr (get_printer (Some 10)) s2) as [x2 s2'].
        cbn [fst snd] in *. subst x2. apply pure_case; [reflexivity|exact H2].
      + destruct (Hprn (Some 0)) as [H1 H2].
        destruct (with_mgr (get_printer (Some 0)) s1) as [x1 s1'], (with_mgr (get_printer (Some 0)) s2) as [x2 s2'].
        cbn [fst snd] in *. subst x2. apply pure_case; [reflexivity|exact H2].
      + destruct (Hprn None) as [H1 H2].
        destruct (with_mgr (get_printer None) s1) as [x1 s1'], (with_mgr (get_printer None) s2) as [x2 s2'].
        cbn [fst snd] in *. subst x2.
        destruct (compile_format fmt) as [y1| |] eqn:E1; cbn [res_sim]; try exact I.
        apply pure_case; [reflexivity|exact H2].
      + destruct (Hprn (Some 10)) as [H1 H2].
        destruct (with_mgr (get_printer (Some 10)) s1) as [x1 s1'], (with_mgr (get_printer (Some 10)) s2) as [x2 s2'].
        cbn [fst snd] in *. subst x2. apply pure_case; [reflexivity|exact H2].
  Qed.

  Lemma compile_expr_sim e1 e2 : expr_shape Rm Rf e1 e2 -> forall s1 s2, sim_st s1 s2 ->
    res_sim (compile_expr e1 s1) (compile_expr e2 s2).
  Proof.
    assert (Hbin : forall op a b c d,
      (forall s1 s2, sim_st s1 s2 -> res_sim (compile_expr a s1) (compile_expr b s2)) ->
      (forall s1 s2, sim_st s1 s2 -> res_sim (compile_expr c s1) (compile_expr d s2)) ->
      forall s1 s2, sim_st s1 s2 ->
      res_sim (match compile_expr a s1 with
               | COk (x, s1') => match compile_expr c s1' with
                                 | COk (y, s2') => COk (lst [atom op; x; y], s2') | bad => bad end
               | bad => bad end)
              (match compile_expr b s2 with
               | COk (x, s1') => match compile_expr d s1' with
                                 | COk (y, s2') => COk (lst [atom op; x; y], s2') | bad => bad end
               | bad => bad end)).
    { intros op a b c d Ha Hc s1 s2 Hs. specialize (Ha s1 s2 Hs).
      destruct (compile_expr a s1) as [[x1 s1']| |]; cbn [res_sim]; try exact I.
      cbn [res_sim] in Ha. destruct Ha as [x2 [s2' [E [Hx Hs']]]]. rewrite E.
      specialize (Hc s1' s2' Hs').
      destruct (compile_expr c s1') as [[y1 s1'']| |]; cbn [res_sim]; try exact I.
      cbn [res_sim] in Hc. destruct Hc as [y2 [s2'' [E' [Hy Hs'']]]]. rewrite E'.
      eexists _, _. split; [reflexivity|]. split; [|exact Hs'']. bes. rewrite Hx, Hy. reflexivity. }
    intros H. induction H as [a b H IH|a b H IH|a b c d H1 IH1 H2 IH2|a b c d H1 IH1 H2 IH2|a b c d H1 IH1 H2 IH2|t u Ht|a b Ha|g|];
      intros s1 s2 Hs; cbn [compile_expr res_sim]; try exact I.
    - specialize (IH s1 s2 Hs).
      destruct (compile_expr a s1) as [[x1 s1']| |]; cbn [res_sim]; try exact I.
      cbn [res_sim] in IH. destruct IH as [x2 [s2' [E [Hx Hs']]]]. rewrite E.
      eexists _, _. split; [reflexivity|]. split; [|exact Hs']. bes. rewrite Hx. reflexivity.
    - apply Hbin; assumption.
    - apply Hbin; assumption.
    - apply Hbin; assumption.
    - apply compile_test_sim; assumption.
    - apply compile_action_sim; assumption.
  Qed.

  (** * the flags *)
  Lemma last_newline_sim f1 f2 : Forall2 elem_shape f1 f2 ->
    match rev f1 with [] => false | el :: _ => negb (is_newline_elem el) end
    = match rev f2 with [] => false | el :: _ => negb (is_newline_elem el) end.
  Proof.
    intros H. apply Forall2_rev' in H. destruct H as [|x y l1 l2 Hxy H]; [reflexivity|].
    destruct Hxy; reflexivity.
  Qed.
  Lemma has_action_sim e1 e2 : expr_shape Rm Rf e1 e2 -> has_action e1 = has_action e2.
  Proof.
    intros H. induction H; cbn [has_action]; try congruence; reflexivity.
  Qed.
  Lemma complex_frames_sim e1 e2 : expr_shape Rm Rf e1 e2 -> complex_frames e1 = complex_frames e2.
  Proof.
    intros H. induction H as [a b H IH|a b H IH|a b c d H1 IH1 H2 IH2|a b c d H1 IH1 H2 IH2|a b c d H1 IH1 H2 IH2|t u Ht|a b Ha|g|];
      cbn [complex_frames]; try congruence; try reflexivity.
    destruct Ha as [f g HR|f g HR|f g fmt1 fmt2 HR HF|fmt1 fmt2 HF|f g|a Hk]; cbn [action_frames]; try reflexivity.
    apply last_newline_sim. exact HF.
  Qed.

  Lemma iomap_sim l1 l2 : Forall2 (krel RKt) l1 l2 ->
    blank_iomap (Some (map (fun '(t, i) => (i, t)) l1)) = blank_iomap (Some (map (fun '(t, i) => (i, t)) l2)).
  Proof.
    intros H. unfold blank_iomap. cbn [option_map]. f_equal. rewrite !map_map.
    induction H as [|[t i] [u j] l1 l2 [Ht Hi] H IH]; [reflexivity|].
    cbn [map fst snd] in *. rewrite IH. subst j. f_equal. f_equal.
    destruct t as [x|f x], u as [y|g y]; cbn [RKt blank_target] in *; try contradiction.
    - subst; reflexivity.
    - destruct Ht as [_ Ht]. subst; reflexivity.
  Qed.

  Definition same_structure_gen (c1 c2 : compiled) : Prop := same_structure_by bl c1 c2.

  Theorem compile_sim e1 e2 o clk c1 : expr_shape Rm Rf e1 e2 -> compile e1 o clk = COk c1 ->
    exists c2, compile e2 o clk = COk c2 /\ same_structure_gen c1 c2.
  Proof.
    intros H Hc. unfold compile in *.
    rewrite <- (complex_frames_sim e1 e2 H).
    assert (Hw : expr_shape Rm Rf (wrap e1) (wrap e2)).
    { unfold wrap. rewrite <- (has_action_sim e1 e2 H). destruct (has_action e1); [exact H|].
      constructor; [exact H|]. constructor. apply AS_same. reflexivity. }
    set (m0 := if complex_frames e1 then MD dmgr_init else ML lmgr_init) in *.
    assert (Hs : sim_st {| st_mgr := m0; st_clock := clk |} {| st_mgr := m0; st_clock := clk |}).
    { split; [|reflexivity]. cbn [st_mgr]. subst m0.
      destruct (complex_frames e1); cbn [sim_mgr]; constructor; try reflexivity; constructor. }
    pose proof (compile_expr_sim _ _ Hw _ _ Hs) as Hr.
    destruct (compile_expr (wrap e1) {| st_mgr := m0; st_clock := clk |}) as [[x1 s1']| |]; try discriminate Hc.
    cbn [res_sim] in Hr. destruct Hr as [x2 [s2' [E [Hx [Hm Hck]]]]]. rewrite E.
    eexists. split; [reflexivity|]. inversion Hc; subst c1; clear Hc.
    destruct (st_mgr s1') as [a|a], (st_mgr s2') as [b|b]; cbn [sim_mgr] in Hm; try contradiction.
    - destruct Hm as [Hi Hv Hf Hd Hfl Hp Hmm]. unfold same_structure_gen, same_structure_by. fold be. cbn. repeat split; assumption.
    - destruct Hm as [Hi Hv Hp Hmm]. unfold same_structure_gen, same_structure_by. fold be.
      cbn [c_body c_defs c_framed c_init c_fini c_threads c_iomap].
      repeat split; try assumption. apply iomap_sim. exact Hp.
  Qed.
End Sim.

(** * the two instances *)
Theorem structure_independent e1 e2 o clk c1 :
  same_shape e1 e2 -> compile e1 o clk = COk c1 ->
  exists c2, compile e2 o clk = COk c2 /\ same_structure_by blank c1 c2.
Proof.
  intros [Rm [Rf [HRm [HRf H]]]] Hc.
  refine (compile_sim Rm Rf HRm HRf blank _ _ _ e1 e2 o clk c1 H Hc).
  - reflexivity.
  - reflexivity.
  - intros ci p q _. unfold matcher_name. destruct (is_pattern p), (is_pattern q), ci; reflexivity.
Qed.

Theorem structure_independent_atoms e1 e2 o clk c1 :
  same_shape_pat e1 e2 -> compile e1 o clk = COk c1 ->
  exists c2, compile e2 o clk = COk c2 /\ same_structure_by blank_strings c1 c2.
Proof.
  intros [Rm [Rf [HRm [HRf [Hpat H]]]]] Hc.
  refine (compile_sim Rm Rf HRm HRf blank_strings _ _ _ e1 e2 o clk c1 H Hc).
  - reflexivity.
  - reflexivity.
  - intros ci p q HR. unfold matcher_name. rewrite (Hpat ci p q HR). reflexivity.
Qed.

Lemma same_shape_refl e : same_shape e e.
Proof.
  exists (fun _ => eq), eq. split; [|split].
  - intros ci a b a' b' E1 E2. subst. tauto.
  - intros a b a' b' E1 E2. subst. tauto.
  - induction e as [e IH|e IH|a IHa b IHb|a IHa b IHb|a IHa b IHb|t|a|g|]; try (constructor; assumption).
    + constructor. destruct t; try (apply TS_same; reflexivity); constructor; reflexivity.
    + constructor. destruct a; try (apply AS_same; reflexivity); constructor; try reflexivity;
        induction fmt as [|el fmt IH]; constructor; try apply ES_same; exact IH.
Qed.

(** * the hypotheses are needed *)
(** without the same equality pattern among matcher keys the number of definitions differs *)
Example sharing_matters :
  exists c1 c2,
    compile (EOr (ETest (TName (chars "a"))) (ETest (TName (chars "a")))) default_options [] = COk c1
    /\ compile (EOr (ETest (TName (chars "a"))) (ETest (TName (chars "b")))) default_options [] = COk c2
    /\ List.length (c_defs c1) <> List.length (c_defs c2).
Proof. eexists _, _. split; [reflexivity|]. split; [reflexivity|]. vm_compute. discriminate. Qed.
(** with [blank_strings] (atoms kept) the value of [is_pattern] shows *)
Example pattern_matters :
  exists c1 c2,
    compile (ETest (TName (chars "a"))) default_options [] = COk c1
    /\ compile (ETest (TName (chars "a*"))) default_options [] = COk c2
    /\ same_structure_by blank c1 c2
    /\ map (fun d => blank_strings (erase d)) (c_defs c1) <> map (fun d => blank_strings (erase d)) (c_defs c2).
Proof.
  eexists _, _. split; [reflexivity|]. split; [reflexivity|]. split.
  - vm_compute. repeat split; reflexivity.
  - vm_compute. discriminate.
Qed.
(** the choice between xattr-match? and equal? depends on the characters *)
Example xattr_matters :
  exists c1 c2,
    compile (ETest (TXattrMatch (chars "k") (chars "v"))) default_options [] = COk c1
    /\ compile (ETest (TXattrMatch (chars "k") (chars "v*"))) default_options [] = COk c2
    /\ blank (erase (c_body c1)) <> blank (erase (c_body c2)).
Proof. eexists _, _. split; [reflexivity|]. split; [reflexivity|]. vm_compute. discriminate. Qed.

(** * the positional statement of the hypothesis implies the relational one *)
Lemma skeleton_mkeys_len e1 e2 : same_skeleton e1 e2 -> List.length (mkeys e1) = List.length (mkeys e2).
Proof.
  intros H. induction H as [a b H IH|a b H IH|a b c d H1 IH1 H2 IH2|a b c d H1 IH1 H2 IH2|a b c d H1 IH1 H2 IH2|t u Ht|a b Ha|g|];
    cbn [mkeys]; rewrite ?app_length; try congruence; try reflexivity.
  destruct Ht; reflexivity.
Qed.
Lemma skeleton_fkeys_len e1 e2 : same_skeleton e1 e2 -> List.length (fkeys e1) = List.length (fkeys e2).
Proof.
  intros H. induction H as [a b H IH|a b H IH|a b c d H1 IH1 H2 IH2|a b c d H1 IH1 H2 IH2|a b c d H1 IH1 H2 IH2|t u Ht|a b Ha|g|];
    cbn [fkeys]; rewrite ?app_length; try congruence; try reflexivity.
  destruct Ha; reflexivity.
Qed.

Lemma nth_app_l {A} (l l' : list A) i x : nth_error l i = Some x -> nth_error (l ++ l') i = Some x.
Proof. intros H. rewrite nth_error_app1; [exact H|]. apply nth_error_Some. congruence. Qed.
Lemma nth_app_r {A} (l l' : list A) i x : nth_error l' i = Some x -> nth_error (l ++ l') (List.length l + i) = Some x.
Proof.
  intros H. rewrite nth_error_app2 by lia.
  replace (List.length l + i - List.length l)%nat with i by lia. exact H.
Qed.

Lemma skeleton_refine (Rm : bool -> str -> str -> Prop) (Rf : str -> str -> Prop) e1 e2 :
  same_skeleton e1 e2 ->
  (forall i p q ci cj, nth_error (mkeys e1) i = Some (p, ci) -> nth_error (mkeys e2) i = Some (q, cj) -> Rm ci p q) ->
  (forall i f g, nth_error (fkeys e1) i = Some f -> nth_error (fkeys e2) i = Some g -> Rf f g) ->
  expr_shape Rm Rf e1 e2.
Proof.
  intros H. induction H as [a b H IH|a b H IH|a b c d H1 IH1 H2 IH2|a b c d H1 IH1 H2 IH2|a b c d H1 IH1 H2 IH2|t u Ht|a b Ha|g|];
    cbn [mkeys fkeys]; intros Hm Hf.
  - constructor. apply IH; assumption.
  - constructor. apply IH; assumption.
  - constructor.
    + apply IH1; [intros i p q ci cj E1 E2; apply (Hm i p q ci cj); apply nth_app_l; assumption
                 |intros i f g E1 E2; apply (Hf i f g); apply nth_app_l; assumption].
    + apply IH2; [intros i p q ci cj E1 E2; apply (Hm (List.length (mkeys a) + i)%nat p q ci cj);
                    [|rewrite (skeleton_mkeys_len a b H1)]; apply nth_app_r; assumption
                 |intros i f g E1 E2; apply (Hf (List.length (fkeys a) + i)%nat f g);
                    [|rewrite (skeleton_fkeys_len a b H1)]; apply nth_app_r; assumption].
  - constructor.
    + apply IH1; [intros i p q ci cj E1 E2; apply (Hm i p q ci cj); apply nth_app_l; assumption
                 |intros i f g E1 E2; apply (Hf i f g); apply nth_app_l; assumption].
    + apply IH2; [intros i p q ci cj E1 E2; apply (Hm (List.length (mkeys a) + i)%nat p q ci cj);
                    [|rewrite (skeleton_mkeys_len a b H1)]; apply nth_app_r; assumption
                 |intros i f g E1 E2; apply (Hf (List.length (fkeys a) + i)%nat f g);
                    [|rewrite (skeleton_fkeys_len a b H1)]; apply nth_app_r; assumption].
  - constructor.
    + apply IH1; [intros i p q ci cj E1 E2; apply (Hm i p q ci cj); apply nth_app_l; assumption
                 |intros i f g E1 E2; apply (Hf i f g); apply nth_app_l; assumption].
    + apply IH2; [intros i p q ci cj E1 E2; apply (Hm (List.length (mkeys a) + i)%nat p q ci cj);
                    [|rewrite (skeleton_mkeys_len a b H1)]; apply nth_app_r; assumption
                 |intros i f g E1 E2; apply (Hf (List.length (fkeys a) + i)%nat f g);
                    [|rewrite (skeleton_fkeys_len a b H1)]; apply nth_app_r; assumption].
  - constructor. destruct Ht as [p q HR|p q HR|p q HR|p q HR|p q|p q|f v g w Hx|t Hk];
      try (constructor; assumption); constructor; apply (Hm 0%nat _ _ _ _ eq_refl eq_refl).
  - constructor. destruct Ha as [f g HR|f g HR|f g fmt1 fmt2 HR HF|fmt1 fmt2 HF|f g|a Hk];
      try (constructor; assumption); constructor; try assumption; apply (Hf 0%nat _ _ eq_refl eq_refl).
  - constructor.
  - constructor.
Qed.

Theorem same_shape_pos_shape e1 e2 : same_shape_pos e1 e2 -> same_shape e1 e2.
Proof.
  intros [Hsk [Pm Pf]].
  exists (fun ci p q => exists i cj, nth_error (mkeys e1) i = Some (p, ci) /\ nth_error (mkeys e2) i = Some (q, cj)),
         (fun f g => exists i, nth_error (fkeys e1) i = Some f /\ nth_error (fkeys e2) i = Some g).
  split; [|split].
  - intros ci a b a' b' [i [ci1 [E1 E2]]] [j [cj1 [E3 E4]]].
    pose proof (Pm i j _ _ _ _ E1 E3 E2 E4) as [P1 P2]. 
    assert (Hc : ci1 = cj1 -> (a = a' <-> b = b')).
    { intros ->. split; intros ->; [specialize (P1 eq_refl); congruence|specialize (P2 eq_refl); congruence]. }
    pose proof (Pm i i _ _ _ _ E1 E1 E2 E2) as _.
    (* the flags at the same position agree because the skeletons agree *)
    assert (Hflag : forall k p c q c', nth_error (mkeys e1) k = Some (p, c) -> nth_error (mkeys e2) k = Some (q, c') -> c = c').
    { clear -Hsk. induction Hsk as [a b H IH|a b H IH|a b c d H1 IH1 H2 IH2|a b c d H1 IH1 H2 IH2|a b c d H1 IH1 H2 IH2|t u Ht|a b Ha|g|];
        cbn [mkeys]; intros k p c0 q c' E1 E2; eauto;
        try (destruct k; discriminate E1);
        try (destruct (Nat.lt_ge_cases k (List.length (mkeys a))) as [Hlt|Hge];
             [rewrite nth_error_app1 in E1 by exact Hlt;
              rewrite nth_error_app1 in E2 by (rewrite <- (skeleton_mkeys_len a b H1); exact Hlt); eauto
             |rewrite nth_error_app2 in E1 by exact Hge;
              rewrite nth_error_app2 in E2 by (rewrite <- (skeleton_mkeys_len a b H1); exact Hge);
              rewrite <- (skeleton_mkeys_len a b H1) in E2; eauto]).
      destruct Ht as [p' q' HR|p' q' HR|p' q' HR|p' q' HR|p' q'|p' q'|f v g w Hx|t Hk]; cbn [test_mkeys] in *;
        try (destruct k as [|k]; [cbn in E1, E2; congruence|destruct k; discriminate E1]);
        try (destruct k; discriminate E1). congruence. }
    apply Hc. rewrite <- (Hflag _ _ _ _ _ E1 E2), <- (Hflag _ _ _ _ _ E3 E4). reflexivity.
  - intros a b a' b' [i [E1 E2]] [j [E3 E4]]. exact (Pf i j _ _ _ _ E1 E3 E2 E4).
  - apply skeleton_refine; [exact Hsk| |].
    + intros i p q ci cj E1 E2. exists i, cj. split; assumption.
    + intros i f g E1 E2. exists i. split; assumption.
Qed.

Theorem structure_independent_pos e1 e2 o clk c1 :
  same_shape_pos e1 e2 -> compile e1 o clk = COk c1 ->
  exists c2, compile e2 o clk = COk c2 /\ same_structure_by blank c1 c2.
Proof. intros H. apply structure_independent. apply same_shape_pos_shape. exact H. Qed.

(** a non-trivial instance of the hypothesis: shared matcher keys, two files, a format *)
Definition ex_e1 : expr :=
  EAnd (EOr (ETest (TName (chars "a"))) (EOr (ETest (TInsensitiveName (chars "a"))) (ETest (TName (chars "a")))))
       (EAnd (EAction (AFilePrint (chars "f1")))
             (EAction (AFilePrintFormatted (chars "f2") [ELit (chars "lit "); EField FName; ESpecial XNewline]))).
Definition ex_e2 : expr :=
  EAnd (EOr (ETest (TName (chars "x*"))) (EOr (ETest (TInsensitiveName (chars "y"))) (ETest (TName (chars "x*")))))
       (EAnd (EAction (AFilePrint (chars "g1")))
             (EAction (AFilePrintFormatted (chars "g2") [ELit (chars "other"); EField FName; ESpecial XNewline]))).
Ltac pattern_by_cases :=
  intros i j a a' b b' E1 E2 E3 E4;
  destruct i as [|[|[|[|i]]]]; cbn in E1, E3; try discriminate E1;
  destruct j as [|[|[|[|j]]]]; cbn in E2, E4; try discriminate E2;
  vm_compute in E1, E2, E3, E4;
  inversion E1; inversion E2; inversion E3; inversion E4; subst;
  split; intros E; try reflexivity; try discriminate E.
Example ex_same_shape_pos : same_shape_pos ex_e1 ex_e2.
Proof.
  split; [|split].
  - unfold same_skeleton, ex_e1, ex_e2. repeat constructor.
  - pattern_by_cases.
  - pattern_by_cases.
Qed.
Example ex_compiles : exists c, compile ex_e1 default_options [] = COk c.
Proof. eexists. reflexivity. Qed.
