(** Sentences: the lexer returns exactly the tokens of a well-formed sentence, the leading
    pass consumes exactly the leading run of options, and [parse] of the rendered sentence is
    determined by its tokens. *)
From Coq Require Import List String Ascii NArith Bool Arith Lia ZifyBool ZifyN.
From FP Require Import Model.Chars Model.Winnow Model.Ast Model.Args Model.Perm Model.Format Model.Lex.
From FP Require Import Model.Prec Model.Parse.
From FP Require Import Spec.Decimal Spec.PermWord Spec.Vocabulary Spec.Surface Spec.Grammar.
From FP Require Import Proofs.WinnowFacts Proofs.WinnowTotal Proofs.LexTotal Proofs.PermProofs.
From FP Require Import Proofs.PrecIff Proofs.OptionsFacts Proofs.LexArgs Proofs.LexPrimary.
Import ListNotations.
Local Open Scope N_scope.

Lemma multispace0_none i : stops is_space i -> multispace0 i = (Ok [], i).
Proof. intros H. exact (multispace0_blanks [] i (Forall_nil _) H). Qed.

(** * One item and the blanks after it *)
Definition tok_step : sparser token := terminated parse_token multispace0.

(** what the text after an item must look like: [b] the blanks, [more] the rest *)
Definition follows_ok (it : item) (b more : str) : Prop :=
  match it with
  | IPrim _ _ l => ends_ok l (b ++ more)
  | IOp o => if single_char o then True else (b = [] -> more = [])
  end.

Lemma item_step it b more :
  item_ok it -> blanks b -> stops is_space more -> follows_ok it b more ->
  tok_step (item_text it ++ b ++ more) = (Ok (item_token it), more).
Proof.
  intros Hok Hb Hs Hf. unfold tok_step, terminated, bind, pmap.
  destruct it as [ws gaps l|o]; cbn [item_text item_token item_ok follows_ok] in *.
  - destruct Hok as [Hp Hg]. rewrite (primary_token ws l Hp gaps (b ++ more) Hg Hf).
    rewrite (multispace0_blanks b more Hb Hs). reflexivity.
  - destruct (single_char o) eqn:E.
    + rewrite (tok_single o (b ++ more) E). rewrite (multispace0_blanks b more Hb Hs). reflexivity.
    + assert (Ha : after_opword (b ++ more) more).
      { destruct b as [|c b'].
        - left. rewrite (Hf eq_refl). split; reflexivity.
        - right. exists (c :: b'). split; [split; [discriminate|exact Hb]|]. split; [reflexivity|exact Hs]. }
      rewrite (tok_opword o (b ++ more) more E Ha).
      rewrite (multispace0_none more Hs). reflexivity.
Qed.

(** the text of an item starts with a character that is not a blank *)
Lemma item_text_head it : item_ok it -> exists c t, item_text it = c :: t /\ is_space c = false.
Proof.
  destruct it as [ws gaps l|o]; cbn [item_ok item_text].
  - intros [Hp _]. destruct (primary_head ws l gaps Hp) as [t E]. exists 45, t. split; [exact E|reflexivity].
  - intros _. destruct o; eexists; eexists; split; reflexivity.
Qed.
Lemma item_text_stops it x : item_ok it -> stops is_space (item_text it ++ x).
Proof. intros H. destruct (item_text_head it H) as [c [t [E Hc]]]. rewrite E. exact Hc. Qed.

Definition self_delimiting_item (it : item) : bool :=
  match it with IPrim _ _ l => self_delimiting l | IOp _ => false end.

(** * The text after an item: its leading blanks and the rest *)
Section Trail.
Variable trail : str.
Hypothesis Htrail : blanks trail.

Definition lead_blank (r : list (str * item)) : str :=
  match r with [] => trail | (sp, _) :: _ => sp end.
Definition text (r : list (str * item)) : str :=
  match r with [] => [] | (_, it) :: r' => item_text it ++ render_body r' trail end.
Definition items_ok (r : list (str * item)) : Prop := Forall (fun x => item_ok (snd x)) r.
Definition toks (r : list (str * item)) : list token := map (fun x => item_token (snd x)) r.

Lemma render_split r : render_body r trail = lead_blank r ++ text r.
Proof. destruct r as [|[sp it] r']; cbn; [rewrite app_nil_r|]; reflexivity. Qed.

Lemma lead_blank_blanks prev r : layout_ok prev r -> blanks (lead_blank r).
Proof. destruct r as [|[sp it] r']; cbn; [intros _; exact Htrail|intros [H _]; exact H]. Qed.
Lemma text_stops r : items_ok r -> stops is_space (text r).
Proof.
  destruct r as [|[sp it] r']; cbn [text]; [intros _; exact I|].
  intros H. apply item_text_stops. inversion H; assumption.
Qed.

Lemma blank_head_ends l c b x : Blank c -> ends_ok l ((c :: b) ++ x).
Proof. intros H. unfold ends_ok. destruct (self_delimiting l); cbn; left; exact H. Qed.

Lemma follows_from_layout it r :
  item_ok it -> items_ok r -> layout_ok (Some it) r -> follows_ok it (lead_blank r) (text r).
Proof.
  intros Hit Hr Hl. destruct r as [|[sp nx] r']; cbn [lead_blank text].
  - destruct it as [ws gaps l|o]; cbn [follows_ok].
    + rewrite app_nil_r. destruct trail as [|c t].
      * unfold ends_ok. destruct (self_delimiting l); exact I.
      * rewrite <- (app_nil_r (c :: t)). apply blank_head_ends. inversion Htrail; assumption.
    + destruct (single_char o); [exact I|]. intros _. reflexivity.
  - cbn [layout_ok] in Hl. destruct Hl as [Hsp [Ht _]].
    destruct it as [ws gaps l|o]; cbn [follows_ok].
    + destruct sp as [|c sp'].
      * specialize (Ht eq_refl). cbn [tight_ok] in Ht. cbn [app]. unfold ends_ok.
        destruct Ht as [E|[Hsd [o [E Ho]]]]; subst nx; cbn [item_text].
        -- destruct (self_delimiting l); cbn.
           ++ right. right. left. reflexivity.
           ++ right. reflexivity.
        -- rewrite Hsd. destruct o; try discriminate Ho; cbn; right; unfold lparen, rparen, bang, comma; tauto.
      * apply blank_head_ends. inversion Hsp; assumption.
    + destruct (single_char o) eqn:E; [exact I|]. intros Hnil. subst sp.
      specialize (Ht eq_refl). cbn [tight_ok] in Ht. congruence.
Qed.

(** * The token loop of [lex] *)
Lemma tok_step_consumes i a r : tok_step i = (Ok a, r) -> (slen r < slen i)%nat.
Proof.
  intros E.
  pose proof (wf_terminated_l true parse_token multispace0 (wf_parse_token true) wf_multispace0 i) as H.
  fold tok_step in H. rewrite E in H. destruct H as [_ H]. apply H. reflexivity.
Qed.

Definition loop : sparser (list token * unit) := repeat_till0 slen tok_step eof.

Lemma loop_nil : loop [] = (Ok ([], tt), []).
Proof. reflexivity. Qed.
Lemma loop_step c t tok more ts :
  tok_step (c :: t) = (Ok tok, more) -> loop more = (Ok (ts, tt), []) ->
  loop (c :: t) = (Ok (tok :: ts, tt), []).
Proof.
  intros H1 H2. unfold loop. rewrite (repeat_till0_unfold slen tok_step eof tok_step_consumes).
  cbn [eof]. rewrite H1. fold loop. rewrite H2. reflexivity.
Qed.

Lemma step_then_loop : forall r it,
  item_ok it -> items_ok r -> layout_ok (Some it) r ->
  exists more, tok_step (item_text it ++ render_body r trail) = (Ok (item_token it), more)
               /\ loop more = (Ok (toks r, tt), []).
Proof.
  induction r as [|[sp nx] r' IH]; intros it Hit Hr Hl.
  - exists []. split; [|apply loop_nil].
    pose proof (follows_from_layout it [] Hit Hr Hl) as Hf.
    pose proof (item_step it trail [] Hit Htrail I Hf) as H. rewrite app_nil_r in H. exact H.
  - exists (text ((sp, nx) :: r')). split.
    + rewrite render_split. apply item_step.
      * exact Hit.
      * apply (lead_blank_blanks (Some it)). exact Hl.
      * apply text_stops. exact Hr.
      * apply follows_from_layout; assumption.
    + assert (Hnx : item_ok nx) by (inversion Hr; assumption).
      assert (Hr' : items_ok r') by (inversion Hr; assumption).
      assert (Hl' : layout_ok (Some nx) r') by (cbn [layout_ok] in Hl; tauto).
      destruct (IH nx Hnx Hr' Hl') as [more [H1 H2]].
      cbn [text toks map snd]. destruct (item_text_head nx Hnx) as [c [t [E _]]].
      rewrite E in *. cbn [app] in *. apply (loop_step c _ (item_token nx) more); assumption.
Qed.

Lemma lex_strip b i : blanks b -> stops is_space i -> lex (b ++ i) = lex i.
Proof.
  intros Hb Hs. unfold lex, pmap, preceded, bind.
  rewrite (multispace0_blanks b i Hb Hs).
  rewrite (multispace0_none i Hs). reflexivity.
Qed.

Lemma lex_text r : r <> [] -> items_ok r -> layout_ok None r -> lex (text r) = (Ok (toks r), []).
Proof.
  intros Hne Hr Hl. destruct r as [|[sp it] r']; [congruence|]. cbn [text].
  assert (Hit : item_ok it) by (inversion Hr; assumption).
  assert (Hr' : items_ok r') by (inversion Hr; assumption).
  assert (Hl' : layout_ok (Some it) r') by (cbn [layout_ok] in Hl; tauto).
  destruct (step_then_loop r' it Hit Hr' Hl') as [more [H1 H2]].
  unfold lex, pmap, preceded. unfold bind at 1.
  rewrite (multispace0_none _ (item_text_stops it (render_body r' trail) Hit)).
  unfold repeat_till1. fold tok_step. rewrite H1. fold loop. rewrite H2. reflexivity.
Qed.

(** * The leading run of options *)
Definition opt_step : sparser gopt :=
  terminated (terminated parse_global word_end) (pair_ multispace0 leading_and).
Definition opt_loop : sparser (list gopt) := repeat0 slen opt_step.

Lemma opt_step_consumes i a r : opt_step i = (Ok a, r) -> (slen r < slen i)%nat.
Proof.
  intros E.
  assert (W : wf true opt_step).
  { unfold opt_step. apply wf_terminated_l.
    - apply wf_terminated_l; [apply wf_parse_global|apply wf_word_end].
    - apply wf_pair_l; [apply wf_multispace0|apply wf_leading_and]. }
  specialize (W i). rewrite E in W. destruct W as [_ H]. apply H. reflexivity.
Qed.

Lemma opt_loop_unfold i :
  opt_loop i =
  match opt_step i with
  | (Ok a, r) => match opt_loop r with (Ok l, r') => (Ok (a :: l), r') | x => x end
  | (Back _, _) => (Ok [], i)
  | (Cut c, r) => (Cut c, r)
  | (Panic s, r) => (Panic s, r)
  end.
Proof. unfold opt_loop. apply (repeat0_unfold slen opt_step opt_step_consumes). Qed.

Lemma opt_step_fail i : fails_on parse_global i -> fails_on opt_step i.
Proof.
  intros H. destruct (fails_inv _ _ H) as [c [r E]].
  unfold fails_on, opt_step, terminated. unfold bind at 1. unfold bind at 1. rewrite E. reflexivity.
Qed.
Lemma opt_loop_stop i : fails_on parse_global i -> opt_loop i = (Ok [], i).
Proof.
  intros H. rewrite opt_loop_unfold. destruct (fails_inv _ _ (opt_step_fail i H)) as [c [r E]].
  rewrite E. reflexivity.
Qed.

(** the item-level mirror of [leading_toks] *)
Definition is_and (it : item) : bool :=
  match it with IOp OAndA | IOp OAndAnd => true | _ => false end.
Definition opt_of (it : item) : option gopt :=
  match it with IPrim _ _ (LGlobal g) => Some g | _ => None end.
Fixpoint leading_body (after_opt : bool) (b : list (str * item)) : list gopt * list (str * item) :=
  match b with
  | [] => ([], [])
  | (sp, it) :: r =>
      match opt_of it with
      | Some g => let (gs, r') := leading_body true r in (g :: gs, r')
      | None =>
          if is_and it && after_opt && negb (match r with [] => true | _ => false end)
          then leading_body false r else ([], b)
      end
  end.

Lemma leading_body_toks : forall b f,
  leading_toks f (toks b) = (fst (leading_body f b), toks (snd (leading_body f b))).
Proof.
  induction b as [|[sp it] r IH]; intros f; [reflexivity|].
  cbn [toks map snd leading_body]. fold (toks r).
  destruct it as [ws gaps [t|a|g|]|o]; cbn [item_token opt_of is_and andb leading_toks]; try reflexivity.
  - rewrite (IH true). destruct (leading_body true r) as [gs r']. reflexivity.
  - destruct o; cbn [op_token is_and andb leading_toks]; try reflexivity.
    + destruct r as [|x r']; [destruct f; reflexivity|]. cbn [toks map negb]. fold (toks r').
      destruct f; cbn [andb]; [|reflexivity]. exact (IH false).
    + destruct r as [|x r']; [destruct f; reflexivity|]. cbn [toks map negb]. fold (toks r').
      destruct f; cbn [andb]; [|reflexivity]. exact (IH false).
Qed.

(** items that are not options make [parse_global] fail *)
Lemma global_fails_prim ws l gaps x : Primary ws l -> (forall g, l <> LGlobal g) ->
  fails_on parse_global (weave ws gaps ++ x).
Proof.
  intros H Hn.
  destruct H as [k l Hin|k f w v Hin Hw|k f w c Hin Hw|w c Hw|k u f w c Hin Hw|w c Hw|w ts Hw
                |w v k b Hw Hp|w1 v1 w2 v2 Hw1 Hw2|w v fmt Hw Hs|w1 v1 w2 v2 fmt Hw1 Hw2 Hs|w n Hw].
  - unfold nullary_table in Hin. in_cases Hin; try (unfold parse_global; prove_fail).
    exfalso. apply (Hn GDepth). reflexivity.
  - unfold string_table in Hin. in_cases Hin; unfold parse_global; prove_fail.
  - unfold count32_table in Hin. in_cases Hin; unfold parse_global; prove_fail.
  - unfold parse_global; prove_fail.
  - unfold time_table in Hin. in_cases Hin; unfold parse_global; prove_fail.
  - unfold parse_global; prove_fail.
  - unfold parse_global; prove_fail.
  - unfold parse_global; prove_fail.
  - unfold parse_global; prove_fail.
  - unfold parse_global; prove_fail.
  - unfold parse_global; prove_fail.
  - exfalso. apply (Hn (GThreads n)). reflexivity.
Qed.
Lemma global_fails_op o x : fails_on parse_global (op_text o ++ x).
Proof. destruct o; unfold parse_global; prove_fail. Qed.
Lemma global_fails_nil : fails_on parse_global [].
Proof. reflexivity. Qed.

Lemma global_fails_item it x : item_ok it -> opt_of it = None ->
  fails_on parse_global (item_text it ++ x).
Proof.
  destruct it as [ws gaps l|o]; cbn [item_ok item_text opt_of].
  - intros [Hp _] Hn. apply (global_fails_prim ws l); [exact Hp|]. intros g E. subst l. discriminate Hn.
  - intros _ _. apply global_fails_op.
Qed.

(** items that are not an explicit AND are not taken for one *)
Lemma leading_and_prim ws l gaps x : Primary ws l ->
  leading_and (weave ws gaps ++ x) = (Ok None, weave ws gaps ++ x).
Proof.
  intros H.
  destruct H as [k l Hin|k f w v Hin Hw|k f w c Hin Hw|w c Hw|k u f w c Hin Hw|w c Hw|w ts Hw
                |w v k b Hw Hp|w1 v1 w2 v2 Hw1 Hw2|w v fmt Hw Hs|w1 v1 w2 v2 fmt Hw1 Hw2 Hs|w n Hw].
  - unfold nullary_table in Hin. in_cases Hin; vm_compute; reflexivity.
  - unfold string_table in Hin. in_cases Hin; vm_compute; reflexivity.
  - unfold count32_table in Hin. in_cases Hin; vm_compute; reflexivity.
  - vm_compute; reflexivity.
  - unfold time_table in Hin. in_cases Hin; vm_compute; reflexivity.
  - vm_compute; reflexivity.
  - vm_compute; reflexivity.
  - vm_compute; reflexivity.
  - vm_compute; reflexivity.
  - vm_compute; reflexivity.
  - vm_compute; reflexivity.
  - vm_compute; reflexivity.
Qed.
Lemma leading_and_item it x : item_ok it -> is_and it = false ->
  leading_and (item_text it ++ x) = (Ok None, item_text it ++ x).
Proof.
  destruct it as [ws gaps l|o]; cbn [item_ok item_text is_and].
  - intros [Hp _] _. apply (leading_and_prim ws l). exact Hp.
  - intros _ H. destruct o; try discriminate H; vm_compute; reflexivity.
Qed.
Lemma leading_and_nil : leading_and [] = (Ok None, []).
Proof. reflexivity. Qed.

(** an explicit AND with something after it is consumed together with the blanks *)
Lemma leading_and_take o g c t : is_and (IOp o) = true -> gap g -> is_space c = false ->
  leading_and (op_text o ++ g ++ c :: t) = (Ok (Some tt), c :: t).
Proof.
  intros Ho Hg Hc. unfold leading_and, opt, terminated, bind, pair_. unfold bind.
  assert (Ha : alt [literal "-and"; literal "-a"] (op_text o ++ g ++ c :: t) = (Ok tt, g ++ c :: t)).
  { destruct o; try discriminate Ho; cbn [op_text].
    - destruct (gap_cases g Hg) as [d [g' [-> Hd]]].
      apply kw_alt2. destruct Hd as [Hd|[Hd|[Hd|Hd]]]; subst d; vm_compute; reflexivity.
    - apply kw_alt1. }
  rewrite Ha. unfold pmap at 1.
  rewrite (multispace1_gap g (c :: t) Hg Hc). reflexivity.
Qed.
(** ... and left alone when it is the last word *)
Lemma leading_and_last o b : is_and (IOp o) = true -> blanks b ->
  leading_and (op_text o ++ b) = (Ok None, op_text o ++ b).
Proof.
  intros Ho Hb. unfold leading_and, opt, terminated, bind, pair_. unfold bind.
  assert (Ha : alt [literal "-and"; literal "-a"] (op_text o ++ b) = (Ok tt, b)).
  { destruct o; try discriminate Ho; cbn [op_text].
    - apply kw_alt2. destruct b as [|d b']; [vm_compute; reflexivity|].
      assert (Hd : Blank d) by (inversion Hb; assumption).
      destruct Hd as [Hd|[Hd|[Hd|Hd]]]; subst d; vm_compute; reflexivity.
    - apply kw_alt1. }
  rewrite Ha. unfold pmap at 1.
  destruct b as [|d b'].
  - reflexivity.
  - assert (Hgap : gap (d :: b')) by (split; [discriminate|exact Hb]).
    pose proof (multispace1_gap (d :: b') [] Hgap I) as Hm.
    rewrite app_nil_r in Hm. rewrite Hm. reflexivity.
Qed.

Lemma layout_weaken prev b : layout_ok prev b -> layout_ok None b.
Proof.
  destruct b as [|[sp it] r]; cbn [layout_ok]; [auto|]. intros [H1 [_ H3]]. split; [exact H1|].
  split; [intros _; exact I|exact H3].
Qed.

Lemma word_end_after it r : item_ok it -> self_delimiting_item it = true ->
  items_ok r -> layout_ok (Some it) r -> at_word_end (render_body r trail).
Proof.
  intros Hit Hsd Hr Hl. pose proof (follows_from_layout it r Hit Hr Hl) as Hf.
  rewrite render_split. destruct it as [ws gaps l|o]; cbn in Hsd; [|discriminate].
  cbn [follows_ok] in Hf. unfold ends_ok in Hf. rewrite Hsd in Hf. exact Hf.
Qed.

Lemma lead_run : forall b prev, items_ok b -> layout_ok prev b ->
  opt_loop (text b) = (Ok (fst (leading_body false b)), text (snd (leading_body false b)))
  /\ exists x i', leading_and (text b) = (Ok x, i')
       /\ opt_loop i' = (Ok (fst (leading_body true b)), text (snd (leading_body true b))).
Proof.
  induction b as [|[sp it] r IH]; intros prev Hb Hl.
  - assert (A : opt_loop [] = (Ok [], [])) by (apply opt_loop_stop, global_fails_nil).
    split; [exact A|]. exists None, []. split; [apply leading_and_nil|exact A].
  - assert (Hit : item_ok it) by (inversion Hb; assumption).
    assert (Hr : items_ok r) by (inversion Hb; assumption).
    assert (Hlr : layout_ok (Some it) r) by (cbn [layout_ok] in Hl; tauto).
    destruct (IH (Some it) Hr Hlr) as [Ar [x [i' [Br1 Br2]]]].
    cbn [text]. destruct (opt_of it) as [g|] eqn:Eo.
    + (* an option *)
      assert (Eit : exists ws gaps, it = IPrim ws gaps (LGlobal g)).
      { destruct it as [ws gaps [t|a|g0|]|o]; try discriminate Eo. injection Eo as ->. eauto. }
      destruct Eit as [ws [gaps ->]]. cbn [item_ok item_text] in *. destruct Hit as [Hp Hg].
      assert (Hwe : at_word_end (render_body r trail)).
      { apply (word_end_after (IPrim ws gaps (LGlobal g))); [split; assumption|reflexivity|assumption|assumption]. }
      assert (Hstep : opt_step (weave ws gaps ++ render_body r trail) = (Ok g, i')).
      { unfold opt_step, terminated. unfold bind at 1. unfold bind at 1.
        rewrite (primary_global ws g Hp gaps _ Hg Hwe). unfold pmap at 1.
        rewrite (word_end_ok _ Hwe). unfold pmap, pair_, bind.
        rewrite render_split.
        rewrite (multispace0_blanks _ _ (lead_blank_blanks (Some (IPrim ws gaps (LGlobal g))) r Hlr) (text_stops r Hr)).
        unfold pmap. rewrite Br1. reflexivity. }
      assert (A : opt_loop (weave ws gaps ++ render_body r trail)
                  = (Ok (fst (leading_body false ((sp, IPrim ws gaps (LGlobal g)) :: r))),
                     text (snd (leading_body false ((sp, IPrim ws gaps (LGlobal g)) :: r))))).
      { rewrite opt_loop_unfold, Hstep, Br2. cbn [leading_body opt_of].
        destruct (leading_body true r) as [gs r']. reflexivity. }
      split; [exact A|].
      exists None, (weave ws gaps ++ render_body r trail). split.
      * apply (leading_and_prim ws (LGlobal g)). exact Hp.
      * exact A.
    + (* not an option *)
      assert (A : opt_loop (item_text it ++ render_body r trail)
                  = (Ok (fst (leading_body false ((sp, it) :: r))),
                     text (snd (leading_body false ((sp, it) :: r))))).
      { rewrite (opt_loop_stop _ (global_fails_item it _ Hit Eo)).
        cbn [leading_body]. rewrite Eo. rewrite andb_false_r. reflexivity. }
      split; [exact A|].
      destruct (is_and it) eqn:Ea.
      * destruct it as [ws gaps l|o]; [discriminate Ea|]. cbn [item_text] in *.
        destruct r as [|[sp' nx] r''].
        -- exists None, (op_text o ++ render_body [] trail). split.
           ++ cbn [render_body]. apply leading_and_last; assumption.
           ++ rewrite A. cbn [leading_body opt_of]. rewrite Ea. reflexivity.
        -- assert (Hnx : item_ok nx) by (inversion Hr; assumption).
           destruct (item_text_head nx Hnx) as [c [t [E Hc]]].
           assert (Hgap : gap sp').
           { cbn [layout_ok] in Hlr. destruct Hlr as [Hb' [Ht _]]. split; [|exact Hb'].
             intros ->. specialize (Ht eq_refl). cbn [tight_ok] in Ht.
             destruct o; discriminate Ht || discriminate Ea. }
           exists (Some tt), (text ((sp', nx) :: r'')). split.
           ++ cbn [render_body text]. rewrite E. cbn [app].
              apply leading_and_take; assumption.
           ++ rewrite Ar. cbn [leading_body opt_of]. rewrite Ea. reflexivity.
      * exists None, (item_text it ++ render_body r trail). split.
        -- apply leading_and_item; assumption.
        -- rewrite A. cbn [leading_body]. rewrite Eo, Ea. reflexivity.
Qed.

(** what the leading pass leaves is again a well-formed sentence body, and the options it
    returns are -depth and -threads *)
Definition item_supported (it : item) : Prop :=
  match it with IPrim _ _ (LGlobal g) => supported_opt g = true | _ => True end.
Lemma item_ok_supported it : item_ok it -> item_supported it.
Proof.
  destruct it as [ws gaps [t|a|g|]|o]; cbn; auto. intros [Hp _].
  pose proof (primary_global_supported ws g Hp) as H. destruct g; try contradiction; reflexivity.
Qed.

Lemma leading_body_props : forall b f prev, items_ok b -> layout_ok prev b ->
  items_ok (snd (leading_body f b)) /\ layout_ok None (snd (leading_body f b))
  /\ forallb supported_opt (fst (leading_body f b)) = true.
Proof.
  induction b as [|[sp it] r IH]; intros f prev Hb Hl.
  - cbn. split; [constructor|]. split; [exact I|reflexivity].
  - assert (Hit : item_ok it) by (inversion Hb; assumption).
    assert (Hr : items_ok r) by (inversion Hb; assumption).
    assert (Hlr : layout_ok (Some it) r) by (cbn [layout_ok] in Hl; tauto).
    cbn [leading_body]. destruct (opt_of it) as [g|] eqn:Eo.
    + destruct (IH true (Some it) Hr Hlr) as [H1 [H2 H3]].
      destruct (leading_body true r) as [gs r']. cbn [fst snd] in *.
      split; [exact H1|]. split; [exact H2|]. cbn [forallb]. rewrite H3, andb_true_r.
      destruct it as [ws gaps [t|a|g0|]|o]; try discriminate Eo. injection Eo as ->.
      exact (item_ok_supported _ Hit).
    + destruct (is_and it && f && negb match r with [] => true | _ => false end).
      * exact (IH false (Some it) Hr Hlr).
      * cbn [fst snd]. split; [exact Hb|]. split; [exact (layout_weaken prev _ Hl)|reflexivity].
Qed.

Lemma globals_supported r : items_ok r -> forallb supported_opt (globals_of (toks r)) = true.
Proof.
  intros H. induction H as [|[sp it] r Hit _ IH]; [reflexivity|].
  cbn [toks map snd]. fold (toks r). cbn [snd] in Hit.
  pose proof (item_ok_supported it Hit) as Hs.
  destruct it as [ws gaps [t|a|g|]|o]; cbn [item_token globals_of]; try exact IH.
  - cbn [forallb]. cbn in Hs. rewrite Hs. exact IH.
  - destruct o; exact IH.
Qed.
End Trail.

(** * [parse] of a rendered sentence *)
Definition opts_for (gl : list gopt) : options :=
  {| opt_depth := any_depth false gl; opt_threads := last_threads None gl |}.
(** the result determined by the tokens: the leading options are taken off, an empty rest means
    -true, options inside count and read as -true, and the grammar decides *)
Definition result_of (ts : list token) : presult :=
  let (gs, r) := leading_toks false ts in
  let tk := run_tokens r in
  match prec_parser (map detrue tk) with
  | Some e => ParseOk (opts_for (gs ++ globals_of tk)) e
  | None => grammar_error
  end.

Lemma any_depth_app d a b : any_depth (any_depth d a) b = any_depth d (a ++ b).
Proof. unfold any_depth. rewrite existsb_app, orb_assoc. reflexivity. Qed.
Lemma last_threads_app o a b : last_threads (last_threads o a) b = last_threads o (a ++ b).
Proof. unfold last_threads. rewrite fold_left_app. reflexivity. Qed.

Theorem parse_render s : wf_sentence s -> parse (render s) = result_of (tokens_of s).
Proof.
  intros [Hitems [Hlay Htr]]. destruct s as [b tr]. cbn [body trail] in *.
  unfold render, tokens_of. cbn [body trail].
  change (map (fun x => item_token (snd x)) b) with (toks b).
  unfold result_of. rewrite (leading_body_toks b false).
  destruct (lead_run tr Htr b None Hitems Hlay) as [A _].
  destruct (leading_body_props b false None Hitems Hlay) as [Hr [Hlr Hgs]].
  destruct (leading_body false b) as [gs r]. cbn [fst snd] in *.
  unfold parse.
  assert (HL : leading_options (render_body b tr) = (Ok gs, text tr r)).
  { unfold leading_options, preceded, bind. rewrite (render_split tr b).
    rewrite (multispace0_blanks _ _ (lead_blank_blanks tr Htr None b Hlay) (text_stops tr b Hitems)).
    exact A. }
  rewrite HL. rewrite (update_all_spec gs default_options Hgs). cbn [opt_depth opt_threads default_options].
  assert (HX : exists rest', (match text tr r with
                              | [] => (Ok [KPrim (LTest TTrue)], text tr r)
                              | _ :: _ => lex (text tr r)
                              end) = (Ok (run_tokens (toks r)), rest')).
  { destruct r as [|[sp it] r'].
    - exists []. reflexivity.
    - assert (Hit : item_ok it) by (inversion Hr; assumption).
      pose proof (lex_text tr Htr ((sp, it) :: r') ltac:(discriminate) Hr Hlr) as HLx.
      cbn [text] in *. destruct (item_text_head it Hit) as [c [t [E _]]]. rewrite E in *.
      cbn [app] in *. rewrite HLx. exists []. reflexivity. }
  destruct HX as [rest' HX]. rewrite HX.
  assert (Hsup : forallb supported_opt (globals_of (run_tokens (toks r))) = true).
  { destruct r as [|x r']; [reflexivity|]. exact (globals_supported _ Hr). }
  rewrite (replace_globals_spec _ _ Hsup). cbn [opt_depth opt_threads].
  rewrite any_depth_app, last_threads_app.
  destruct (prec_parser (map detrue (run_tokens (toks r)))); reflexivity.
Qed.
