(** The result of [parse] is the result determined by the tokens of the sentence that
    Proofs/SentenceSound.v reads the input as: [parse_sound] with the tokens, the options of
    the leading pass and the tree kept.  (Strengthens [leads] with the token-level run
    [Surface.leading_toks].) *)
From Coq Require Import List String NArith Bool Arith Lia ZifyBool ZifyN.
From FP Require Import Model.Chars Model.Winnow Model.Ast Model.Args Model.Lex Model.Prec Model.Parse.
From FP Require Import Spec.Decimal Spec.PermWord Spec.Vocabulary Spec.Surface Spec.Accepted.
From FP Require Import Proofs.LexArgs Proofs.LexPrimary Proofs.ArgSound Proofs.TokenSound Proofs.OptionsFacts.
From FP Require Proofs.LexSentence Proofs.Dispatch Spec.Messages.
From FP Require Import Proofs.SentenceSound.
Import ListNotations.
Local Open Scope N_scope.

(** * [leading_and] *)
Lemma leading_and_inv2 i x r : leading_and i = (Ok x, r) ->
  (r = i /\ x = None) \/ exists o g, (o = OAndAnd \/ o = OAndA) /\ i = op_text o ++ g ++ r /\ gap g /\ r <> [].
Proof.
  unfold leading_and, opt. intros H.
  destruct (terminated (alt [literal "-and"; literal "-a"]) (pair_ multispace1 (peek any)) i)
    as [[a|c|c|s] r0] eqn:E; try discriminate H.
  - inversion H; subst. right. apply terminated_inv in E. destruct E as (r1 & y & E1 & E2).
    apply pair_inv in E2. destruct E2 as (r2 & Hg & Hp). apply multispace1_inv in Hg.
    destruct Hg as (-> & Hg & _). unfold peek in Hp. inversion Hp as [[Hany Hr2]]. subst r2.
    assert (Hne : r <> []). { intros ->. cbn in Hany. discriminate Hany. }
    apply alt_inv in E1. destruct E1 as (p & Hin & Hp'). cbn [In] in Hin.
    destruct Hin as [<-|[<-|[]]]; apply literal_inv in Hp'.
    + exists OAndAnd, (fst y). split; [left; reflexivity|]. split; [exact Hp'|]. split; [exact Hg|exact Hne].
    + exists OAndA, (fst y). split; [right; reflexivity|]. split; [exact Hp'|]. split; [exact Hg|exact Hne].
  - inversion H; subst. left. split; reflexivity.
Qed.

Lemma leading_and_not_back i c r : leading_and i <> (Back c, r).
Proof.
  unfold leading_and, opt.
  destruct (terminated (alt [literal "-and"; literal "-a"]) (pair_ multispace1 (peek any)) i)
    as [[a|c0|c0|s] r0]; discriminate.
Qed.

(** * One step of the leading pass, with its tokens *)
Definition final_ok (fl : bool) (rest : str) : Prop :=
  fl = true -> leading_and rest = (Ok None, rest).

(** the token-level run over [body], started with the flag [f], having read the options [gs],
    ends with the flag [fl] *)
Definition runs (f : bool) (i : str) (body : list (str * item)) (gs : list gopt) (fl : bool) (rest : str) : Prop :=
  forall ts2, (rest <> [] -> ts2 <> []) ->
    (i <> [] -> toks body ++ ts2 <> []) /\
    leading_toks f (toks body ++ ts2) = (gs ++ fst (leading_toks fl ts2), snd (leading_toks fl ts2)).

Lemma lt_glob f g r :
  leading_toks f (KPrim (LGlobal g) :: r) = (g :: fst (leading_toks true r), snd (leading_toks true r)).
Proof.
  change (leading_toks f (KPrim (LGlobal g) :: r)) with (let (gs, r') := leading_toks true r in (g :: gs, r')).
  destruct (leading_toks true r) as [gs r']. reflexivity.
Qed.
Lemma lt_and t r : leading_toks true (KAnd :: t :: r) = leading_toks false (t :: r).
Proof. reflexivity. Qed.

Lemma opt_step_sound2 i g r : opt_step i = (Ok g, r) ->
  forall prev sp, blanks sp -> (sp = [] -> head_cond prev i) ->
  stray_quote i \/ exists body sp' fl, leads prev sp i body sp' r /\ body <> [] /\ stops is_space r
     /\ final_ok fl r /\ forall f, runs f i body [g] fl r.
Proof.
  intros H prev sp Hsp Hhead. unfold opt_step in H.
  apply terminated_inv in H. destruct H as (r0 & x & H & Hrest).
  apply terminated_inv in H. destruct H as (r0' & u & Hg & Hw).
  apply word_end_inv in Hw. destruct Hw as [-> Hw].
  apply pair_inv in Hrest. destruct Hrest as (r1 & Hb & Hand).
  apply multispace0_inv in Hb. destruct Hb as (-> & Hb & Hst1). set (b := fst x) in *.
  apply parse_global_sound in Hg. destruct Hg as [(ws & gaps & Hp & Hgaps & ->)|Hs]; [|left; exact Hs].
  right. set (it := IPrim ws gaps (LGlobal g)).
  assert (item_ok it) as Hit by (split; assumption).
  assert (blanks sp /\ (sp = [] -> match prev with None => True | Some p => abuts_ok p it end)) as Hfirst.
  { split; [exact Hsp|]. intros E. destruct prev as [p|]; [|exact I].
    exact (head_abuts p it (b ++ r1) Hit (Hhead E)). }
  pose proof Hand as Hand0.
  apply leading_and_inv2 in Hand. destruct Hand as [[-> Hx]|(o & g' & Ho & -> & Hg' & Hne)].
  - exists [(sp, it)], b, true. split; [|split; [discriminate|split; [exact Hst1|split]]].
    + split; [constructor; [exact Hit|constructor]|]. split.
      * cbn [layout_lex]. destruct Hfirst as [H1 H2]. split; [exact H1|]. split; [exact H2|exact I].
      * split; [exact Hb|]. split; [cbn [render_body item_text it]; reflexivity|].
        intros E. cbn [last_item]. right. unfold it. rewrite E in Hw. exact Hw.
    + intros _. rewrite Hand0, Hx. reflexivity.
    + intros f ts2 _. split; [intros _; discriminate|].
      cbn [toks map snd it item_token app]. rewrite lt_glob. reflexivity.
  - assert (Hst : stops is_space r).
    { unfold leading_and, opt in Hand0.
      destruct (terminated (alt [literal "-and"; literal "-a"]) (pair_ multispace1 (peek any))
                  (op_text o ++ g' ++ r)) as [[a|c|c|s] r9] eqn:E; try discriminate Hand0.
      - inversion Hand0; subst r9. apply terminated_inv in E. destruct E as (r1' & y & _ & E2).
        apply pair_inv in E2. destruct E2 as (r2 & Hg2 & Hp2). apply multispace1_inv in Hg2.
        destruct Hg2 as (_ & _ & Hs2). unfold peek in Hp2. inversion Hp2; subst r2. exact Hs2.
      - inversion Hand0 as [[Hx Hr]]. exfalso.
        pose proof (f_equal (@List.length N) Hr) as Hl.
        rewrite !app_length in Hl. destruct Ho as [-> | ->]; cbn in Hl; lia. }
    exists [(sp, it); (b, IOp o)], g', false.
    split; [|split; [discriminate|split; [exact Hst|split]]].
    + split; [constructor; [exact Hit|constructor; [exact I|constructor]]|].
      split.
      * cbn [layout_lex]. destruct Hfirst as [H1 H2]. split; [exact H1|]. split; [exact H2|].
        split; [exact Hb|]. split; [|exact I]. intros E. exfalso. rewrite E in Hw.
        destruct Ho as [-> | ->]; cbn [app op_text chars at_word_end] in Hw;
          unfold Blank, lparen, rparen, bang, comma in Hw; cbn in Hw; lia.
      * split; [exact (gap_blanks g' Hg')|]. split; [cbn [render_body item_text it]; reflexivity|].
        intros E. exfalso. destruct Hg' as [Hne' _]. exact (Hne' E).
    + intros E. discriminate E.
    + intros f ts2 Hts. specialize (Hts Hne). split; [intros _; discriminate|].
      assert (Et : toks [(sp, it); (b, IOp o)] = [KPrim (LGlobal g); KAnd]).
      { destruct Ho as [-> | ->]; reflexivity. }
      rewrite Et. cbn [app]. destruct ts2 as [|t2 ts2]; [congruence|].
      rewrite lt_glob, lt_and. reflexivity.
Qed.

Lemma toks_app b1 b2 : toks (b1 ++ b2) = toks b1 ++ toks b2.
Proof. unfold toks. apply map_app. Qed.

Lemma lead_sound2 : forall fuel i gs rest,
  repeat_fuel slen fuel opt_step i = (Ok gs, rest) ->
  forall prev sp f, blanks sp -> (sp = [] -> head_cond prev i) -> final_ok f i -> stops is_space i ->
  stray_quote (sp ++ i) \/ exists body sp' fl, leads prev sp i body sp' rest
     /\ final_ok fl rest /\ stops is_space rest /\ runs f i body gs fl rest
     /\ exists c r, opt_step rest = (Back c, r).
Proof.
  induction fuel as [|n IH]; intros i gs rest H prev sp f Hsp Hhead Hf Hst; cbn [repeat_fuel] in H; [discriminate H|].
  destruct (opt_step i) as [[g|c|c|s] r1] eqn:E1; try discriminate H.
  - destruct (Nat.leb (slen i) (slen r1)); [discriminate H|].
    destruct (repeat_fuel slen n opt_step r1) as [[l|c|c|s] r2] eqn:E2; try discriminate H.
    inversion H; subst.
    destruct (opt_step_sound2 i g r1 E1 prev sp Hsp Hhead)
      as [Hs|(b1 & sp1 & fl1 & (Hok1 & Hl1 & Hsp1 & Hr1 & Hh1) & Hne1 & Hst1 & Hf1 & Hrun1)];
      [left; apply stray_quote_prefix; exact Hs|].
    destruct (IH r1 l rest E2 (last_item prev b1) sp1 fl1 Hsp1 Hh1 Hf1 Hst1)
      as [Hs|(b2 & sp2 & fl2 & (Hok2 & Hl2 & Hsp2 & Hr2 & Hh2) & Hf2 & Hst2 & Hrun2 & Hback)].
    + left. rewrite Hr1. destruct (render_body_suffix b1 (sp1 ++ r1)) as (pre & ->).
      apply stray_quote_prefix. exact Hs.
    + right. exists (b1 ++ b2), sp2, fl2. split; [|split; [exact Hf2|split; [exact Hst2|split; [|exact Hback]]]].
      * split; [apply Forall_app; split; assumption|].
        split; [apply layout_lex_app; assumption|]. split; [exact Hsp2|].
        split; [rewrite render_body_app, <- Hr2; exact Hr1|]. rewrite last_item_app. exact Hh2.
      * intros ts2 Hts. destruct (Hrun2 ts2 Hts) as [Hne2 Hlt2].
        destruct (Hrun1 f (toks b2 ++ ts2) Hne2) as [_ Hlt1].
        rewrite toks_app, <- app_assoc. split.
        -- intros _ E. apply app_eq_nil in E. destruct E as [E _]. destruct b1; [congruence|discriminate E].
        -- rewrite Hlt1, Hlt2. cbn [fst snd app]. reflexivity.
  - inversion H; subst. right. exists [], sp, f. split; [|split; [exact Hf|split; [exact Hst|split]]].
    + split; [constructor|]. split; [exact I|]. split; [exact Hsp|]. split; [reflexivity|]. exact Hhead.
    + intros ts2 Hts. cbn [toks map app]. split; [exact Hts|]. destruct (leading_toks f ts2); reflexivity.
    + exists c, r1. exact E1.
Qed.

Theorem leading_options_sound2 i gs rest : leading_options i = (Ok gs, rest) ->
  stray_quote i \/ exists body sp' fl i1, leads None [] i body sp' rest
     /\ final_ok fl rest /\ stops is_space rest /\ runs false i1 body gs fl rest
     /\ exists c r, opt_step rest = (Back c, r).
Proof.
  unfold leading_options. intros H. apply preceded_inv in H. destruct H as (b0 & i1 & Hb & H).
  apply multispace0_inv in Hb. destruct Hb as (-> & Hb & Hst).
  unfold repeat0 in H. fold opt_step in H.
  destruct (lead_sound2 _ _ _ _ H None b0 false Hb (fun _ => or_intror I) ltac:(intros E; discriminate E) Hst)
    as [Hs|(body & sp' & fl & Hl & Hrest)].
  - left. exact Hs.
  - right. exists body, sp', fl, i1. split; [exact Hl|exact Hrest].
Qed.

(** * Where the leading pass stops, the token-level run stops *)
Lemma lex_first i ts r : stops is_space i -> lex i = (Ok ts, r) ->
  exists t l r0 r1, ts = t :: l /\ parse_token i = (Ok t, r0) /\ (exists b, multispace0 r0 = (Ok b, r1))
     /\ (r1 = [] -> l = []).
Proof.
  unfold lex. intros Hst H. apply pmap_inv in H. destruct H as ([l u] & H & ->). cbn [fst].
  apply preceded_inv in H. destruct H as (b0 & i1 & Hb & H).
  rewrite (LexSentence.multispace0_none i Hst) in Hb. inversion Hb; subst b0 i1. clear Hb.
  unfold repeat_till1 in H.
  destruct (terminated parse_token multispace0 i) as [[t|c1|c1|s] r1] eqn:E1; try discriminate H.
  unfold repeat_till0 in H.
  destruct (rtill_fuel slen (S (slen r1)) (terminated parse_token multispace0) eof r1) as [[[l' b]|c2|c2|s] r2] eqn:E2;
    try discriminate H.
  inversion H; subst. apply terminated_inv in E1. destruct E1 as (r0 & b1 & Hp & Hm).
  exists t, l', r0, r1. split; [reflexivity|]. split; [exact Hp|]. split; [exists b1; exact Hm|].
  intros ->. cbn in E2. inversion E2; reflexivity.
Qed.

Lemma global_runs_on i g r0 : ~ stray_quote i -> parse_token i = (Ok (KPrim (LGlobal g)), r0) ->
  forall c r, opt_step i <> (Back c, r).
Proof.
  intros Hn H c r. destruct (token_primary_clean i _ r0 Hn H) as (ws & gaps & Hp & Hg & -> & Hwe).
  unfold opt_step, terminated. unfold bind at 1. unfold bind at 1.
  rewrite (primary_global_aux ws _ Hp g eq_refl gaps r0 Hg Hwe). unfold pmap at 1.
  rewrite (word_end_ok _ Hwe). unfold pmap, pair_, bind.
  rewrite (Dispatch.multispace0_eq r0). unfold pmap.
  destruct (leading_and (Messages.skip_blanks r0)) as [[x|c0|c0|s] r9] eqn:E; try discriminate.
  intros _. exact (leading_and_not_back _ _ _ E).
Qed.

Lemma and_taken i r0 b r1 : parse_token i = (Ok KAnd, r0) -> multispace0 r0 = (Ok b, r1) -> r1 <> [] ->
  leading_and i <> (Ok None, i).
Proof.
  intros H Hm Hne.
  destruct (token_operator_sound i KAnd r0 H ltac:(intros l E; discriminate E)) as (o & g & Ho & -> & Hf).
  assert (Hand : LexSentence.is_and (IOp o) = true) by (destruct o; try discriminate Ho; reflexivity).
  unfold op_follow in Hf. assert (Hsc : single_char o = false) by (destruct o; try discriminate Ho; reflexivity).
  rewrite Hsc in Hf. destruct Hf as [[-> ->]|[Hg Hst]].
  - cbn in Hm. inversion Hm; subst. congruence.
  - destruct r0 as [|c t].
    + cbn in Hm. inversion Hm; subst. congruence.
    + cbn [stops] in Hst. rewrite (LexSentence.leading_and_take o g c t Hand Hg Hst). discriminate.
Qed.

Lemma run_stops fl rest ts r : ~ stray_quote rest -> stops is_space rest -> final_ok fl rest ->
  (exists c r', opt_step rest = (Back c, r')) -> lex rest = (Ok ts, r) ->
  ts <> [] /\ leading_toks fl ts = ([], ts).
Proof.
  intros Hn Hst Hf (c & r' & Hback) HL.
  destruct (lex_first rest ts r Hst HL) as (t & l & r0 & r1 & -> & Hp & (b & Hm) & Hl).
  split; [discriminate|].
  destruct t as [| | | | | |[t|a|g|]]; try (destruct fl; reflexivity).
  - (* KAnd *) destruct l as [|t2 l]; [destruct fl; reflexivity|].
    destruct fl; [|reflexivity]. exfalso.
    assert (Hne : r1 <> []) by (intros E; specialize (Hl E); discriminate Hl).
    exact (and_taken rest r0 b r1 Hp Hm Hne (Hf eq_refl)).
  - (* an option *) exfalso. exact (global_runs_on rest g r0 Hn Hp c r' Hback).
Qed.

(** * Supported options *)
Lemma update_all_supported gs : forall o o1, update_all o gs = Some o1 -> forallb supported_opt gs = true.
Proof.
  induction gs as [|g gs IH]; intros o o1 H; [reflexivity|].
  cbn [update_all] in H. destruct (update_options o g) as [o'|] eqn:E; [|discriminate H].
  cbn [forallb]. rewrite (IH _ _ H), andb_true_r. destruct g; try discriminate E; reflexivity.
Qed.
Lemma replace_globals_supported ts : forall o x, replace_globals o ts = Some x ->
  forallb supported_opt (globals_of ts) = true.
Proof.
  induction ts as [|t ts IH]; intros o x H; [reflexivity|].
  destruct t as [| | | | | |[t|a|g|]]; cbn [replace_globals globals_of] in *;
    try (destruct (replace_globals o ts) as [[o' r']|] eqn:E; [|discriminate H]; exact (IH _ _ E)).
  destruct (update_options o g) as [o'|] eqn:E; [|discriminate H].
  destruct (replace_globals o' ts) as [[o'' r']|] eqn:E2; [|discriminate H].
  cbn [forallb]. rewrite (IH _ _ E2), andb_true_r. destruct g; try discriminate E; reflexivity.
Qed.

(** * Whole inputs *)
Theorem parse_result s o e : ~ stray_quote s -> parse s = ParseOk o e ->
  exists st, readable_sentence st /\ render st = s /\ LexSentence.result_of (tokens_of st) = ParseOk o e.
Proof.
  unfold parse. intros Hn H.
  destruct (leading_options s) as [[gs|c|c|m] rest] eqn:EL; try discriminate H.
  destruct (update_all default_options gs) as [o1|] eqn:EU; [|discriminate H].
  pose proof (update_all_supported _ _ _ EU) as Hgs.
  pose proof (update_all_spec gs default_options Hgs) as EU2. rewrite EU in EU2. injection EU2 as Ho1.
  change (opt_depth default_options) with false in Ho1.
  change (opt_threads default_options) with (@None N) in Ho1. subst o1. clear EU.
  apply leading_options_sound2 in EL.
  destruct EL as [Hs|(b1 & sp1 & fl & i1 & (Hok1 & Hl1 & Hsp1 & Hr1 & Hh1) & Hf & Hst & Hrun & Hback)];
    [contradiction|].
  cbn [app] in Hr1.
  destruct rest as [|c rest].
  - exists {| body := b1; trail := sp1 |}. rewrite app_nil_r in Hr1.
    split; [split; [exact Hok1|split; assumption]|]. split; [symmetry; exact Hr1|].
    unfold tokens_of. cbn [body]. fold (toks b1).
    destruct (Hrun [] ltac:(intros E; congruence)) as [_ Hlt]. rewrite app_nil_r in Hlt.
    unfold LexSentence.result_of. rewrite Hlt.
    replace (leading_toks fl []) with (@nil gopt, @nil token) by (destruct fl; reflexivity).
    cbn [fst snd run_tokens map detrue globals_of]. rewrite !app_nil_r.
    cbn [replace_globals] in H. unfold LexSentence.opts_for.
    destruct (prec_parser [KPrim (LTest TTrue)]) as [e'|]; [|discriminate H].
    exact H.
  - destruct (lex (c :: rest)) as [[ts|c1|c1|m] r'] eqn:ELex; try discriminate H.
    assert (Hn2 : ~ stray_quote (c :: rest)).
    { intros Hs. apply Hn. rewrite Hr1. destruct (render_body_suffix b1 (sp1 ++ c :: rest)) as (pre & ->).
      rewrite app_assoc. apply stray_quote_prefix. exact Hs. }
    destruct (run_stops fl (c :: rest) ts r' Hn2 Hst Hf Hback ELex) as [Hne Hstop].
    apply lex_written in ELex. destruct ELex as [_ Hw].
    destruct (Hw (last_item None b1) sp1 Hsp1 Hh1) as [Hs|(b2 & tr & Hok2 & Hl2 & Htr & Hr2 & Hts)].
    + exfalso. exact (Hn2 Hs).
    + exists {| body := b1 ++ b2; trail := tr |}. split; [|split].
      * split; [apply Forall_app; split; assumption|]. split; [apply layout_lex_app; assumption|exact Htr].
      * unfold render. cbn [body trail]. rewrite render_body_app, Hr2. symmetry. exact Hr1.
      * unfold tokens_of. cbn [body]. fold (toks (b1 ++ b2)). rewrite toks_app, Hts.
        destruct (Hrun ts ltac:(intros _; exact Hne)) as [_ Hlt].
        unfold LexSentence.result_of. rewrite Hlt, Hstop. cbn [fst snd]. rewrite app_nil_r.
        assert (Ert : run_tokens ts = ts) by (destruct ts; [congruence|reflexivity]). rewrite Ert.
        match type of H with context [replace_globals ?oo ts] =>
          destruct (replace_globals oo ts) as [[o' tokens']|] eqn:ER; [|discriminate H];
          pose proof (replace_globals_supported _ _ _ ER) as Hsup;
          rewrite (replace_globals_spec ts oo Hsup) in ER end.
        cbn [opt_depth opt_threads] in ER.
        change (existsb (fun g : gopt => match g with GDepth => true | _ => false end) gs) with (any_depth false gs) in ER. rewrite LexSentence.any_depth_app, LexSentence.last_threads_app in ER.
        injection ER as Ho' Htk. subst o' tokens'.
        unfold LexSentence.opts_for.
        destruct (prec_parser (map detrue ts)) as [e'|]; [|discriminate H].
        exact H.
Qed.
