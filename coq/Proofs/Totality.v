(** C03 — totality of [parse] and of [compile] on what [parse] returns. *)
From Coq Require Import List String NArith Bool Arith Lia.
From FP Require Import Model.Chars Model.Winnow Model.Ast Model.Args Model.Lex Model.Prec Model.Parse
  Model.Compile.
From FP Require Import Spec.TreeShape Proofs.WinnowTotal Proofs.LexTotal Proofs.PrecShape
  Proofs.CompileTotal.
Import ListNotations.

(** * RunOptions::update never reaches its unreachable arm *)
Lemma update_options_some o g : okg g -> exists o', update_options o g = Some o'.
Proof.
  destruct g as [|n|n|n]; cbn [okg update_options]; intros H; try destruct H; eexists; reflexivity.
Qed.

Lemma update_all_some : forall gs o, Forall okg gs -> exists o', update_all o gs = Some o'.
Proof.
  induction gs as [|g gs IH]; intros o H; cbn [update_all].
  - exists o. reflexivity.
  - inversion H as [|x l Hg Hgs]; subst.
    destruct (update_options_some o g Hg) as [o1 E1]. rewrite E1. apply IH. exact Hgs.
Qed.

Lemma replace_globals_some : forall ts o, Forall tok_ok ts ->
  exists o' ts', replace_globals o ts = Some (o', ts') /\ Forall tok_plain ts'.
Proof.
  induction ts as [|t ts IH]; intros o H.
  - exists o, []. split; [reflexivity|constructor].
  - inversion H as [|x l Ht Hts]; subst.
    assert (Hother : tok_plain t ->
              (replace_globals o (t :: ts) =
               match replace_globals o ts with Some (o', r') => Some (o', t :: r') | None => None end) ->
              exists o' ts', replace_globals o (t :: ts) = Some (o', ts') /\ Forall tok_plain ts').
    { intros Hp E. destruct (IH o Hts) as (o1 & ts1 & E1 & F1). rewrite E, E1.
      exists o1, (t :: ts1). split; [reflexivity|constructor; assumption]. }
    destruct t as [| | | | | |l]; try (apply Hother; [exact I|reflexivity]).
    destruct l as [tt|a|g|]; try (apply Hother; [exact Ht|reflexivity]).
    cbn [tok_ok] in Ht. cbn [replace_globals].
    destruct (update_options_some o g Ht) as [o1 E1]. rewrite E1.
    destruct (IH o1 Hts) as (o2 & ts2 & E2 & F2). rewrite E2.
    exists o2, (KPrim (LTest TTrue) :: ts2). split; [reflexivity|constructor; [exact I|exact F2]].
Qed.

(** * the error reporter *)
Lemma message_not_nil cs rest : message cs rest <> [].
Proof.
  unfold message. change (chars "Syntax error: ") with (83%N :: chars "yntax error: ").
  cbn [app]. discriminate.
Qed.

Lemma err_of_cases {A} (o : out A) rest :
  match o with Ok _ | Panic _ => False | _ => True end ->
  exists m, err_of o rest = ParseErr m /\ m <> [].
Proof.
  destruct o as [a|c|c|s]; intros H; try destruct H; cbn [err_of]; eexists; (split; [reflexivity|apply message_not_nil]).
Qed.

(** * the two stages that run winnow parsers *)
Lemma leading_options_cases s :
  match leading_options s with
  | (Ok gs, _) => Forall okg gs
  | (Panic _, _) => False
  | _ => True
  end.
Proof.
  pose proof (wf_leading_options s) as Hw. pose proof (post_leading_options s) as Hp.
  destruct (leading_options s) as [[gs|c|c|m] r]; try exact I; [|exact Hw].
  exact (Hp gs r eq_refl).
Qed.

Lemma lex_cases s :
  match lex s with
  | (Ok ts, _) => Forall tok_ok ts
  | (Panic _, _) => False
  | _ => True
  end.
Proof.
  pose proof (wf_lex s) as Hw. pose proof (post_lex s) as Hp.
  destruct (lex s) as [[ts|c|c|m] r]; try exact I; [|exact Hw].
  exact (Hp ts r eq_refl).
Qed.

(** * parse: an error message or a well-shaped tree, nothing else *)
Definition parse_outcome (s : str) : Prop :=
  (exists m, parse s = ParseErr m /\ m <> []) \/
  (exists o e, parse s = ParseOk o e /\ parser_tree e).

Lemma after_lex o (ts : list token) :
  Forall tok_ok ts ->
  (exists m, match replace_globals o ts with
             | None => ParsePanic "RunOptions::update: unreachable"
             | Some (o', tokens') =>
                 match prec_parser tokens' with Some e => ParseOk o' e | None => grammar_error end
             end = ParseErr m /\ m <> []) \/
  (exists o1 e, match replace_globals o ts with
             | None => ParsePanic "RunOptions::update: unreachable"
             | Some (o', tokens') =>
                 match prec_parser tokens' with Some e => ParseOk o' e | None => grammar_error end
             end = ParseOk o1 e /\ parser_tree e).
Proof.
  intros H. destruct (replace_globals_some ts o H) as (o1 & ts1 & E1 & F1). rewrite E1.
  destruct (prec_parser ts1) as [e|] eqn:Ep.
  - right. exists o1, e. split; [reflexivity|]. exact (prec_parser_tree ts1 e Ep F1).
  - left. unfold grammar_error. eexists. split; [reflexivity|apply message_not_nil].
Qed.

Theorem parse_cases s : parse_outcome s.
Proof.
  unfold parse_outcome, parse. pose proof (leading_options_cases s) as Hl.
  destruct (leading_options s) as [[gs|c|c|m] rest].
  - destruct (update_all_some gs default_options Hl) as [o Eo]. rewrite Eo. cbv zeta.
    destruct rest as [|ch rest].
    + apply after_lex. constructor; [exact I|constructor].
    + pose proof (lex_cases (ch :: rest)) as Hx.
      destruct (lex (ch :: rest)) as [[ts|c|c|m] r'].
      * apply after_lex. exact Hx.
      * left. apply err_of_cases. exact I.
      * left. apply err_of_cases. exact I.
      * destruct Hx.
  - left. apply err_of_cases. exact I.
  - left. apply err_of_cases. exact I.
  - destruct Hl.
Qed.

Theorem parse_no_panic : forall s site, parse s <> ParsePanic site.
Proof.
  intros s site E. destruct (parse_cases s) as [(m & Em & _)|(o & e & Eo & _)]; congruence.
Qed.

Theorem parse_tree_shape : forall s o e, parse s = ParseOk o e -> parser_tree e.
Proof.
  intros s o e E. destruct (parse_cases s) as [(m & Em & _)|(o1 & e1 & Eo & Ht)]; [congruence|].
  rewrite E in Eo. inversion Eo; subst. exact Ht.
Qed.

Theorem message_nonempty : forall s m, parse s = ParseErr m -> m <> [].
Proof.
  intros s m E. destruct (parse_cases s) as [(m1 & Em & Hm)|(o1 & e1 & Eo & _)]; [|congruence].
  rewrite E in Em. inversion Em; subst. exact Hm.
Qed.

(** every input gets a result or an error value *)
Theorem parse_total : forall s,
  (exists o e, parse s = ParseOk o e) \/ (exists m, parse s = ParseErr m).
Proof.
  intros s. destruct (parse_cases s) as [(m & Em & _)|(o & e & Eo & _)].
  - right. exists m. exact Em.
  - left. exists o, e. exact Eo.
Qed.

(** rendering: [scheme_text] and the two error displays are total functions; what they return
    is never the empty text *)
Lemma compile_error_text_nonempty k n : compile_error_text k n <> [].
Proof.
  unfold compile_error_text. destruct k.
  - change (chars "Although this expression is valid, LiPE does not support this test: ")
      with (65%N :: chars "lthough this expression is valid, LiPE does not support this test: ").
    cbn [app]. discriminate.
  - change (chars "Although this expression is valid, LiPE does not support this action: ")
      with (65%N :: chars "lthough this expression is valid, LiPE does not support this action: ").
    cbn [app]. discriminate.
  - change (chars "Although this expression is valid, LiPE does not support this action: ")
      with (65%N :: chars "lthough this expression is valid, LiPE does not support this action: ").
    cbn [app]. discriminate.
  - change (chars "Although this format string is valid, LiPE does not support this formatting: ")
      with (65%N :: chars "lthough this format string is valid, LiPE does not support this formatting: ").
    cbn [app]. discriminate.
Qed.

Theorem render_total : forall c mdt, exists text, scheme_text c mdt = text.
Proof. intros c mdt. eexists. reflexivity. Qed.

(** end to end: whatever the input, parsing and then compiling ends in a program or an error *)
Theorem pipeline_total : forall s clk,
  (exists m, parse s = ParseErr m /\ m <> []) \/
  (exists o e, parse s = ParseOk o e /\
     ((exists c, compile e o clk = COk c) \/
      (exists k n, compile e o clk = CErr k n /\ compile_error_text k n <> []))).
Proof.
  intros s clk. destruct (parse_cases s) as [Herr|(o & e & Eo & Ht)]; [left; exact Herr|].
  right. exists o, e. split; [exact Eo|].
  destruct (compile_total e Ht o clk) as [(c & Ec)|(k & n & Ec)].
  - left. exists c. exact Ec.
  - right. exists k, n. split; [exact Ec|apply compile_error_text_nonempty].
Qed.

Theorem display_total :
  (forall s m, parse s = ParseErr m -> m <> []) /\
  (forall k n, compile_error_text k n <> []).
Proof. split; [exact message_nonempty|exact compile_error_text_nonempty]. Qed.
