(** Facts about CompiledExpression::scheme (Model.Compile.render): the device path enters the
    program at exactly one place. *)
From Coq Require Import List String NArith Bool.
From FP Require Import Model.Chars Model.Ast Model.Sexp Model.Compile.
Import ListNotations.
Local Open Scope N_scope.

(** the second top-level form with a hole where the device string stands *)
Definition program_ctx (c : compiled) (dev : sexp) : sexp :=
  SList [ SAtom (chars "let*");
          SList (map erase (c_defs c));
          SList [ SAtom (chars "dynamic-wind");
                  SList (SAtom (chars "lambda") :: SList [] ::
                           match c_init c with [] => [SAtom (chars "#t")] | l => map erase l end);
                  SList [ SAtom (chars "lambda"); SList [];
                          SList [ SAtom (chars "lipe-scan");
                                  dev;
                                  SList [SAtom (chars "lipe-getopt-client-mount-path")];
                                  SList [SAtom (chars "lambda"); SList []; erase (c_body c)];
                                  SList [SAtom (chars "lipe-getopt-required-attrs")];
                                  match c_threads c with
                                  | Some n => SAtom (print_dec n)
                                  | None => SList [SAtom (chars "lipe-getopt-thread-count")]
                                  end ] ];
                  SList (SAtom (chars "lambda") :: SList [] ::
                           match c_fini c with [] => [SAtom (chars "#t")] | l => map erase l end) ] ].

Lemma erase_items_sep sep l : erase_items (items_sep sep l) = map erase l.
Proof. induction l as [|x l IH]; cbn; [reflexivity|now rewrite IH]. Qed.

Lemma erase_forms_or_true l :
  erase_items (forms_or_true l) = match l with [] => [SAtom (chars "#t")] | _ => map erase l end.
Proof. destruct l as [|x l]; [reflexivity|]. unfold forms_or_true. apply erase_items_sep. Qed.

Lemma render_snd_erase c mdt : erase (snd (render c mdt)) = program_ctx c (SStr mdt).
Proof.
  unfold render, program_ctx. cbn [snd erase erase_items thunk].
  rewrite !erase_forms_or_true.
  assert (Hd : erase match c_defs c with
                     | [] => LList LNil []
                     | d :: r => LList (LCons [] d (items_sep (if c_framed c then nl 7 else [32]) r)) []
                     end = SList (map erase (c_defs c))).
  { destruct (c_defs c) as [|d r]; cbn; [reflexivity|]. now rewrite erase_items_sep. }
  rewrite Hd. destruct (c_threads c), (c_init c), (c_fini c); cbn; rewrite ?app_nil_r; reflexivity.
Qed.

Lemma render_fst_indep c p1 p2 : fst (render c p1) = fst (render c p2).
Proof. reflexivity. Qed.

Lemma program_ctx_inj c x y : program_ctx c x = program_ctx c y -> x = y.
Proof. unfold program_ctx. intro H. now inversion H. Qed.

(** where the thread count goes *)
Definition scan_call (program : sexp) : option (list sexp) :=
  match program with
  | SList [_; _; SList [_; _; SList [_; _; SList (_ :: args)]; _]] => Some args
  | _ => None
  end.
Lemma scan_call_ctx c dev :
  scan_call (program_ctx c dev)
  = Some [ dev; SList [SAtom (chars "lipe-getopt-client-mount-path")];
           SList [SAtom (chars "lambda"); SList []; erase (c_body c)];
           SList [SAtom (chars "lipe-getopt-required-attrs")];
           match c_threads c with
           | Some n => SAtom (print_dec n)
           | None => SList [SAtom (chars "lipe-getopt-thread-count")]
           end ].
Proof. reflexivity. Qed.
