(** C16 (link, without the find semantics): whatever outputs the SCHEME-side meaning of a compiled
    policy yields on a file, each of them is one call on the shared port under the program's
    guard.  Nothing here mentions [feval], [ctime_free] or [defined]: the outputs of [sem_policy]
    are traced to the printers bound by the prelude (and to (print-relative-path)), and the
    bindings have the shapes of C16b. *)
From Coq Require Import List String NArith Bool Arith Lia ZifyBool ZifyN Permutation.
From FP Require Import Model.Chars Model.Ast Model.Sexp Model.Compile.
From FP Require Import Spec.Tree Spec.TreeShape Spec.Resources Spec.Locking Spec.FileRecord
  Spec.SchemeSem Spec.SchemeEnv Spec.SchemePrelude Spec.Interleave Spec.PolicyCalls.
From FP Require Import Proofs.SemFacts Proofs.ImplicitPrint Proofs.Routing Proofs.Locking
  Proofs.PreludeNames Proofs.PreludeInv Proofs.PolicyDiscipline.
From FP Require Proofs.ScopeProofs Proofs.ManagerInv Proofs.Mutex.
Import ListNotations.
Local Open Scope N_scope.

(** * atoms of a read S-expression *)
Fixpoint satom_occurs (a : str) (x : sexp) : bool :=
  match x with
  | SAtom b => str_eqb a b
  | SStr _ => false
  | SList l => existsb (satom_occurs a) l
  end.

Scheme lsexp_mut_ns := Induction for lsexp Sort Prop
  with litems_mut_ns := Induction for litems Sort Prop.
Combined Scheme lsexp_litems_ind_ns from lsexp_mut_ns, litems_mut_ns.

Lemma satom_occurs_erase_both a :
  (forall x, satom_occurs a (erase x) = atom_occurs a x)
  /\ (forall l, existsb (satom_occurs a) (erase_items l) = atom_occurs_items a l).
Proof.
  apply lsexp_litems_ind_ns.
  - intros b. reflexivity.
  - intros ps. reflexivity.
  - intros items IH trail. cbn [erase satom_occurs atom_occurs]. exact IH.
  - reflexivity.
  - intros ws x IHx r IHr. cbn [erase_items existsb atom_occurs_items]. now rewrite IHx, IHr.
Qed.
Lemma satom_occurs_erase a x : satom_occurs a (erase x) = atom_occurs a x.
Proof. apply satom_occurs_erase_both. Qed.

(** * where the outputs of the Scheme-side meaning come from *)
Definition target_of_output (o : output) : target := target_of (fst (fst o)) (snd o).
(** written by a printer bound in the environment, to that printer's target *)
Definition env_output (e : env) (o : output) : Prop :=
  exists name, lookup e name = Some (EPrinter (target_of_output o)).
(** ... or by (print-relative-path), which must then occur in the code *)
Definition origin (e : env) (x : sexp) (o : output) : Prop :=
  (satom_occurs prp x = true /\ fst (fst o) = DStdout) \/ env_output e o.

Lemma outs_pure b r : pure b = Some r -> outs r = [].
Proof. unfold pure. intro H. injection H as <-. reflexivity. Qed.

Lemma apply_printer_target t payload :
  Forall (fun o => target_of_output o = t) (outs (apply_printer t payload)).
Proof. destruct t as [term|p term]; repeat constructor. Qed.

Lemma Forall_nil_eq {A} (P : A -> Prop) l : l = [] -> Forall P l.
Proof. intros ->. constructor. Qed.

Section WithHost.
Variable h : host.

Lemma sem_builtin_outputs e g args f r :
  sem_builtin h e g args f = Some r ->
  Forall (fun o => (is "print-relative-path" g = true /\ fst (fst o) = DStdout) \/ env_output e o)
         (outs r).
Proof.
  unfold sem_builtin. intro H.
  repeat match type of H with
         | context [match ?x with _ => _ end] => destruct x eqn:?; try discriminate H
         end;
    try (apply Forall_nil_eq; eapply outs_pure; exact H; fail);
    try (injection H as <-; apply Forall_nil_eq; reflexivity; fail).
  - injection H as <-. constructor; [left; split; reflexivity|constructor].
  - injection H as <-. eapply Forall_impl; [|apply apply_printer_target].
    intros o Ho. right. unfold env_output. rewrite Ho. eexists. eassumption.
Qed.

Lemma is_prp_occurs g args : is "print-relative-path" g = true -> satom_occurs prp (SList (SAtom g :: args)) = true.
Proof.
  unfold is. intro H. apply ManagerInv.str_eqb_eq in H. subst g.
  cbn [satom_occurs existsb]. change (chars "print-relative-path") with prp.
  now rewrite ScopeProofs.str_eqb_refl.
Qed.

Lemma sem_leaf_outputs e g args f r :
  sem_leaf h e g args f = Some r -> Forall (origin e (SList (SAtom g :: args))) (outs r).
Proof.
  unfold sem_leaf. intro H. destruct (comparison g) as [rel|].
  - destruct args as [|a [|b [|c l]]]; try discriminate H.
    destruct (sem_num a f); [|discriminate H]. destruct (sem_num b f); [|discriminate H].
    apply Forall_nil_eq. eapply outs_pure. exact H.
  - destruct (builtin g).
    + eapply Forall_impl; [|eapply sem_builtin_outputs; exact H].
      intros o [[Hg Ho]|Ho]; [left|right; exact Ho]. split; [now apply is_prp_occurs|exact Ho].
    + destruct (lookup e g) as [[gl ci pat|t|d| |]|] eqn:El; try discriminate H.
      destruct args as [|x [|y l]]; try discriminate H.
      destruct (sem_str h x f) as [s|]; [|discriminate H]. cbn [option_map] in H. injection H as <-.
      eapply Forall_impl; [|apply apply_printer_target].
      intros o Ho. right. exists g. now rewrite Ho.
Qed.

Lemma origin_mono e a l o : In a l -> origin e a o -> origin e (SList l) o.
Proof.
  intros Hin [[Hp Ho]|Ho]; [left|right; exact Ho]. split; [|exact Ho].
  cbn [satom_occurs]. apply existsb_exists. exists a. split; assumption.
Qed.

Lemma then_if_outputs (P : output -> Prop) want a k r :
  then_if want a k = Some r ->
  (forall ra, a = Some ra -> Forall P (outs ra)) -> (forall rk, k = Some rk -> Forall P (outs rk)) ->
  Forall P (outs r).
Proof.
  unfold then_if. intros H Ha Hk. destruct a as [[[b o] q]|]; [|discriminate H].
  specialize (Ha _ eq_refl). destruct (Bool.eqb b want).
  - destruct k as [[[b' o'] q']|]; [|discriminate H]. specialize (Hk _ eq_refl).
    injection H as <-. unfold outs in *. cbn [fst snd] in *. apply Forall_app. split; assumption.
  - injection H as <-. exact Ha.
Qed.

Lemma sem_bool_head e g args f :
  sem_bool h e (SList (SAtom g :: args)) f
  = if is "and" g then conj_list h e f args
    else if is "or" g then disj_list h e f args
    else if is "not" g then match args with [a] => option_map negate (sem_bool h e a f) | _ => None end
    else sem_leaf h e g args f.
Proof. reflexivity. Qed.

Lemma conj_list_outputs (P : output -> Prop) e f args :
  Forall (fun a => forall r, sem_bool h e a f = Some r -> Forall P (outs r)) args ->
  forall r, conj_list h e f args = Some r -> Forall P (outs r).
Proof.
  induction 1 as [|a l Ha Hl IH]; intros r H.
  - apply Forall_nil_eq. eapply outs_pure. exact H.
  - cbn [conj_list] in H. destruct l as [|b l']; [now apply Ha|].
    eapply then_if_outputs; [exact H|exact Ha|exact IH].
Qed.
Lemma disj_list_outputs (P : output -> Prop) e f args :
  Forall (fun a => forall r, sem_bool h e a f = Some r -> Forall P (outs r)) args ->
  forall r, disj_list h e f args = Some r -> Forall P (outs r).
Proof.
  induction 1 as [|a l Ha Hl IH]; intros r H.
  - apply Forall_nil_eq. eapply outs_pure. exact H.
  - cbn [disj_list] in H. destruct l as [|b l']; [now apply Ha|].
    eapply then_if_outputs; [exact H|exact Ha|exact IH].
Qed.

Lemma outs_negate r : outs (negate r) = outs r.
Proof. destruct r as [[b o] q]. reflexivity. Qed.

(** every output of a policy body was written by a printer of the environment or by
    (print-relative-path) *)
Theorem sem_bool_outputs e f x :
  forall r, sem_bool h e x f = Some r -> Forall (origin e x) (outs r).
Proof.
  induction x as [a|s|l IH] using ScopeProofs.sexp_ind'; intros r H.
  - cbn [sem_bool] in H. apply Forall_nil_eq.
    destruct (is "#t" a); [eapply outs_pure; exact H|].
    destruct (is "#f" a); [eapply outs_pure; exact H|discriminate H].
  - discriminate H.
  - destruct l as [|[g|s|l0] args]; try discriminate H.
    rewrite sem_bool_head in H. inversion IH as [|y ys _ IHargs]; subst y ys.
    assert (Hsub : Forall (fun a => forall r, sem_bool h e a f = Some r ->
                            Forall (origin e (SList (SAtom g :: args))) (outs r)) args).
    { rewrite Forall_forall in *. intros a Ha r0 Hr0.
      eapply Forall_impl; [|apply (IHargs a Ha r0 Hr0)].
      intros o Ho. eapply origin_mono; [right; exact Ha|exact Ho]. }
    destruct (is "and" g); [now apply (conj_list_outputs _ e f args Hsub)|].
    destruct (is "or" g); [now apply (disj_list_outputs _ e f args Hsub)|].
    destruct (is "not" g); [|eapply sem_leaf_outputs; exact H].
    destruct args as [|a [|b l']]; try discriminate H.
    destruct (sem_bool h e a f) as [ra|] eqn:Ea; [|discriminate H].
    cbn [option_map] in H. injection H as <-. rewrite outs_negate.
    inversion Hsub as [|y ys Hy _]; subst y ys. now apply Hy.
Qed.

End WithHost.

(** * what the prelude binds *)
Lemma lookup_cons name n v e :
  lookup ((n, v) :: e) name = if str_eqb name n then Some v else lookup e name.
Proof. reflexivity. Qed.

(** an invariant of the entries, established binding by binding *)
Definition env_all (Q : entry -> Prop) (e : env) : Prop :=
  forall name ent, lookup e name = Some ent -> Q ent.
Lemma env_all_nil (Q : entry -> Prop) : env_all Q [].
Proof. intros name ent H. discriminate H. Qed.
Lemma env_all_cons (Q : entry -> Prop) n v e : Q v -> env_all Q e -> env_all Q ((n, v) :: e).
Proof.
  intros Hv He name ent H. rewrite lookup_cons in H. destruct (str_eqb name n).
  - injection H as <-. exact Hv.
  - exact (He name ent H).
Qed.

Lemma sem_defs_env_all io (Q : entry -> Prop) defs :
  forall e e', env_all Q e ->
    (forall e0 b ne, In b defs -> env_all Q e0 -> sem_binding io e0 b = Some ne -> Q (snd ne)) ->
    sem_defs io e defs = Some e' -> env_all Q e'.
Proof.
  induction defs as [|b r IH]; intros e e' He Hb H; cbn [sem_defs] in H.
  - injection H as <-. exact He.
  - destruct (sem_binding io e b) as [[n v]|] eqn:E; [|discriminate H].
    apply (IH ((n, v) :: e) e'); [| |exact H].
    + apply env_all_cons; [|exact He]. apply (Hb e b (n, v)); [now left|exact He|exact E].
    + intros e0 b0 ne Hin. apply Hb. now right.
Qed.

(** the one lambda shape that yields a printer looks its target up in the io-map *)
Definition lambda_entry (io : option (list (N * target))) (ent : entry) : Prop :=
  match ent with
  | EMatcher _ _ _ | EFrame => True
  | EPrinter t => exists tbl n, io = Some tbl /\ assoc N.eqb n tbl = Some t
  | EPort _ | EMutex => False
  end.
Lemma sem_lambda_entry io e params body ent :
  sem_lambda io e params body = Some ent -> lambda_entry io ent.
Proof.
  unfold sem_lambda. intro H.
  repeat match type of H with
         | context [match ?x with _ => _ end] => destruct x eqn:?; try discriminate H
         end;
    try (injection H as <-; exact I; fail).
  match type of H with
  | context [assoc N.eqb ?k ?l] => destruct (assoc N.eqb k l) eqn:Ea; [|discriminate H]
  end.
  cbn [option_map] in H. injection H as <-. cbn [lambda_entry]. eauto.
Qed.

Lemma assoc_N_In {V} n (tbl : list (N * V)) v : assoc N.eqb n tbl = Some v -> In (n, v) tbl.
Proof.
  induction tbl as [|[k w] r IH]; cbn [assoc]; [discriminate|].
  destruct (n =? k) eqn:E.
  - intro H. injection H as <-. apply N.eqb_eq in E. subst k. now left.
  - intro H. right. now apply IH.
Qed.

(** ** plain mode *)
Definition entry_plain (ent : entry) : Prop :=
  match ent with
  | EPort d => d = DStdout
  | EPrinter t => exists term, t = TStdout term
  | _ => True
  end.

Lemma sem_binding_lambda io e name params body ne :
  sem_binding io e (erase (binding name (lst [atom "lambda"; lst params; body]))) = Some ne ->
  exists ent, snd ne = ent /\ sem_lambda io e (map erase params) (erase body) = Some ent.
Proof.
  rewrite erase_binding, !erase_lst. cbn [map]. rewrite erase_lst, erase_atom.
  destruct (erase name) as [nm|s|l]; cbn [sem_binding]; try discriminate.
  cbn [sem_bound]. change (is "lambda" (chars "lambda")) with true. cbn iota.
  destruct (sem_lambda io e (map erase params) (erase body)) as [ent|]; [|discriminate].
  cbn [option_map]. intro H. injection H as <-. exists ent. split; reflexivity.
Qed.

Lemma matcher_binding_entry io e b ne :
  is_matcher_binding b -> sem_binding io e (erase b) = Some ne -> exists gl ci pat, snd ne = EMatcher gl ci pat.
Proof.
  intros (i & pat & ci & ->) H. rewrite sem_matcher_binding in H. injection H as <-.
  cbn [snd]. eauto.
Qed.

Lemma plain_binding_entry io p e b ne :
  plain_shape p b -> env_all entry_plain e -> sem_binding io e (erase b) = Some ne -> entry_plain (snd ne).
Proof.
  intros [->|[->|[(i & term & ->)|Hm]]] He H.
  - unfold default_port_binding in H. rewrite erase_binding, erase_ident, erase_lst in H.
    cbn [map] in H. rewrite erase_atom in H. cbn [sem_binding sem_bound] in H.
    change (is "current-output-port" (chars "current-output-port")) with true in H. cbn iota in H.
    cbn [option_map] in H. injection H as <-. reflexivity.
  - unfold mutex_binding in H. rewrite erase_binding, erase_ident, erase_lst in H.
    cbn [map] in H. rewrite erase_atom in H. cbn [sem_binding sem_bound] in H.
    change (is "current-output-port" (chars "make-mutex")) with false in H.
    change (is "make-mutex" (chars "make-mutex")) with true in H. cbn iota in H.
    cbn [option_map] in H. injection H as <-. exact I.
  - unfold plain_printer_binding in H. rewrite erase_binding, erase_ident, erase_lst in H.
    cbn [map] in H. rewrite erase_atom, !erase_ident, erase_terminator in H.
    cbn [sem_binding sem_bound] in H.
    change (is "make-printer" (chars "make-printer")) with true in H. cbn iota in H.
    destruct (lookup e (idname "port" (p_port p))) as [[gl ci pat|t|d| |]|] eqn:Ep; try discriminate H.
    destruct (lookup e (idname "mutex" (p_mutex p))) as [[gl ci pat|t| | |]|]; try discriminate H.
    destruct (term_literal (term_text term)) as [t|]; [|discriminate H].
    cbn [option_map] in H. injection H as <-. cbn [snd entry_plain].
    pose proof (He _ _ Ep) as Hd. cbn [entry_plain] in Hd. subst d. exists t. reflexivity.
  - destruct (matcher_binding_entry io e b ne Hm H) as (gl & ci & pat & ->). exact I.
Qed.

Lemma plain_env io p defs e :
  (forall b, In b defs -> plain_shape p b) ->
  sem_defs io [] (map erase defs) = Some e -> env_all entry_plain e.
Proof.
  intros Hshape H. eapply sem_defs_env_all; [apply env_all_nil| |exact H].
  intros e0 b ne Hin He0 Hb. apply in_map_iff in Hin as (lb & <- & Hlb).
  eapply plain_binding_entry; [apply Hshape; exact Hlb|exact He0|exact Hb].
Qed.

(** ** framed mode *)
Definition entry_framed (tbl : list (N * target)) (ent : entry) : Prop :=
  match ent with
  | EPrinter t => exists i, In (i, t) tbl
  | _ => True
  end.

Lemma lambda_entry_framed tbl ent : lambda_entry (Some tbl) ent -> entry_framed tbl ent.
Proof.
  destruct ent as [gl ci pat|t|d| |]; cbn [lambda_entry entry_framed]; try (intros; exact I).
  intros (tbl' & n & Hio & Ha). injection Hio as <-. exists n. now apply assoc_N_In.
Qed.

Lemma framed_binding_entry tbl e b ne :
  In b frame_prelude \/ framed_shape b ->
  sem_binding (Some tbl) e (erase b) = Some ne -> entry_framed tbl (snd ne).
Proof.
  intros [Hin|[(i & ->)|Hm]] H.
  - cbn [frame_prelude In] in Hin. destruct Hin as [<-|[<-|[<-|[]]]].
    + unfold default_port_binding in H. rewrite erase_binding, erase_ident, erase_lst in H.
      cbn [map] in H. rewrite erase_atom in H. cbn [sem_binding sem_bound] in H.
      change (is "current-output-port" (chars "current-output-port")) with true in H. cbn iota in H.
      cbn [option_map] in H. injection H as <-. exact I.
    + unfold mutex_binding in H. rewrite erase_binding, erase_ident, erase_lst in H.
      cbn [map] in H. rewrite erase_atom in H. cbn [sem_binding sem_bound] in H.
      change (is "current-output-port" (chars "make-mutex")) with false in H.
      change (is "make-mutex" (chars "make-mutex")) with true in H. cbn iota in H.
      cbn [option_map] in H. injection H as <-. exact I.
    + unfold frame_proc in H. apply sem_binding_lambda in H as (ent & <- & Hl).
      apply lambda_entry_framed. eapply sem_lambda_entry. exact Hl.
  - unfold framed_printer_binding in H. apply sem_binding_lambda in H as (ent & <- & Hl).
    apply lambda_entry_framed. eapply sem_lambda_entry. exact Hl.
  - destruct (matcher_binding_entry _ e b ne Hm H) as (gl & ci & pat & ->). exact I.
Qed.

Lemma framed_env tbl rest e :
  Forall framed_shape rest ->
  sem_defs (Some tbl) [] (map erase (frame_prelude ++ rest)) = Some e -> env_all (entry_framed tbl) e.
Proof.
  intros Hrest H. eapply sem_defs_env_all; [apply env_all_nil| |exact H].
  intros e0 b ne Hin He0 Hb. apply in_map_iff in Hin as (lb & <- & Hlb).
  eapply framed_binding_entry; [|exact Hb].
  apply in_app_or in Hlb as [Hp|Hr]; [left; exact Hp|right].
  rewrite Forall_forall in Hrest. now apply Hrest.
Qed.

(** * one invocation: the outputs of the Scheme-side meaning *)
Lemma policy_outputs_inv h c f os :
  policy_outputs h c f = Some os ->
  exists e r, sem_defs (c_iomap c) [] (map erase (c_defs c)) = Some e
    /\ sem_bool h e (erase (c_body c)) f = Some r /\ os = outs r.
Proof.
  unfold policy_outputs, sem_policy. intro H.
  destruct (sem_defs (c_iomap c) [] (map erase (c_defs c))) as [e|]; [|discriminate H].
  destruct (sem_bool h e (erase (c_body c)) f) as [r|] eqn:Er; [|discriminate H].
  cbn [option_map] in H. injection H as <-. exists e, r. repeat split. exact Er.
Qed.

(** plain mode: whatever the policy writes goes to standard output (no hypothesis on the tree) *)
Theorem plain_sem_outputs_stdout h e o clk c f os :
  compile e o clk = COk c -> c_framed c = false ->
  policy_outputs h c f = Some os -> Forall to_stdout os.
Proof.
  intros H Hfr Hos. destruct (policy_outputs_inv _ _ _ _ Hos) as (env & r & Hdefs & Hbody & ->).
  destruct (plain_one_mutex _ _ _ _ H Hfr) as (_ & p & _ & Hshape).
  pose proof (plain_env _ p _ _ Hshape Hdefs) as Henv.
  eapply Forall_impl; [|eapply sem_bool_outputs; exact Hbody].
  intros [[d payload] term] [[_ Hd]|(name & Hl)]; [exact Hd|].
  apply Henv in Hl. cbn [entry_plain] in Hl. destruct Hl as (t & Ht).
  unfold target_of_output in Ht. cbn [fst snd] in Ht. unfold to_stdout. cbn [fst].
  destruct d; [reflexivity|discriminate Ht].
Qed.

(** framed mode: whatever the policy writes is addressed to a target listed in the io-map *)
Theorem framed_sem_outputs_routed h e o clk c f os tbl :
  parser_tree e -> compile e o clk = COk c -> c_framed c = true -> c_iomap c = Some tbl ->
  policy_outputs h c f = Some os ->
  Forall (fun ou => exists i, In (i, target_of (fst (fst ou)) (snd ou)) tbl) os.
Proof.
  intros Hpt H Hfr Hio Hos.
  destruct (policy_outputs_inv _ _ _ _ Hos) as (env & r & Hdefs & Hbody & ->).
  destruct (framed_frame_proc _ _ _ _ H Hfr) as (rest & Hd & Hrest).
  rewrite Hio, Hd in Hdefs. pose proof (framed_env _ _ _ Hrest Hdefs) as Henv.
  assert (Hprp : atom_occurs prp (c_body c) = false).
  { apply (implicit_print_not_added e o clk c); [|now apply parser_tree_no_default|exact H].
    apply framed_has_action. rewrite <- (mode _ _ _ _ H). exact Hfr. }
  eapply Forall_impl; [|eapply sem_bool_outputs; exact Hbody].
  intros ou [[Hocc _]|(name & Hl)].
  - rewrite satom_occurs_erase, Hprp in Hocc. discriminate Hocc.
  - apply Henv in Hl. exact Hl.
Qed.

(** the calls of the outputs of the Scheme-side meaning *)
Theorem sem_outputs_calls h e o clk c f os :
  parser_tree e -> compile e o clk = COk c -> policy_outputs h c f = Some os ->
  exists calls, policy_calls c os = Some calls /\ Forall2 (linked c) os calls.
Proof.
  intros Hpt H Hos. destruct (c_framed c) eqn:Hfr.
  - destruct (iomap_inverse _ _ _ _ H Hfr) as (d & _ & _ & Hio).
    eapply framed_calls_linked; [exact Hfr|exact Hio|].
    eapply framed_sem_outputs_routed; eassumption.
  - apply plain_calls_linked; [exact Hfr|]. eapply plain_sem_outputs_stdout; eassumption.
Qed.

(** * (2') one invocation, no find semantics *)
Theorem policy_discipline_nosem e o clk c :
  parser_tree e -> compile e o clk = COk c ->
  forall h f os, policy_outputs h c f = Some os ->
  exists calls,
    policy_calls c os = Some calls
    /\ disciplined (guard_of c) calls
    /\ Forall (fun cl => call_port cl = out_port c) calls
    /\ all_some (map (record_of c) os) = Some (map call_record calls).
Proof.
  intros Hpt H h f os Hos.
  destruct (sem_outputs_calls h e o clk c f os Hpt H Hos) as (calls & Hcalls & Hl).
  exists calls. split; [exact Hcalls|now apply linked_calls].
Qed.

(** the same with the hypothesis spelt with [sem_policy] *)
Theorem policy_discipline_sem e o clk c :
  parser_tree e -> compile e o clk = COk c ->
  forall h f r, sem_policy h c f = Some r ->
  exists calls,
    policy_calls c (snd (fst r)) = Some calls
    /\ disciplined (guard_of c) calls
    /\ Forall (fun cl => call_port cl = out_port c) calls
    /\ all_some (map (record_of c) (snd (fst r))) = Some (map call_record calls).
Proof.
  intros Hpt H h f r Hr. apply (policy_discipline_nosem e o clk c Hpt H h f).
  unfold policy_outputs. rewrite Hr. reflexivity.
Qed.

(** * (3') a scan over files on which the policy has a meaning *)
Section Scan.
Variable h : host.

Definition runs (c : compiled) (f : file) : Prop := exists r, sem_policy h c f = Some r.

Lemma file_link_nosem e o clk c f :
  parser_tree e -> compile e o clk = COk c -> runs c f ->
  exists cs, file_calls h c f = Some cs /\ file_ok h c f cs.
Proof.
  intros Hpt H (r & Hr).
  destruct (policy_discipline_sem e o clk c Hpt H h f r Hr) as (cs & Hc & Hd & Hp & Hrec).
  exists cs. unfold file_calls, file_ok, file_records, policy_outputs. rewrite Hr. cbn [option_map]. auto.
Qed.

Lemma thread_link_nosem e o clk c fs :
  parser_tree e -> compile e o clk = COk c -> Forall (runs c) fs ->
  exists cs, thread_calls h c fs = Some cs /\ thread_ok h c fs cs.
Proof.
  intros Hpt H Hdef.
  destruct (all_some_map (file_calls h c) (file_ok h c) fs) as (css & Hcss & Hall).
  { eapply Forall_impl; [|exact Hdef]. intros f Hf. now apply (file_link_nosem e o clk). }
  exists (List.concat css). unfold thread_calls, thread_ok, files_records. rewrite Hcss.
  split; [reflexivity|].
  assert (Hr : all_some (map (file_records h c) fs) = Some (map (map call_record) css)).
  { apply all_some_Forall2_map. apply (Forall2_impl (file_ok h c)); [|exact Hall]. intros f cs Hok. apply Hok. }
  rewrite Hr. cbn [option_map]. rewrite concat_map. split; [|split; [|reflexivity]].
  - unfold disciplined. apply Forall_concat. eapply Forall2_right; [|exact Hall].
    intros f cs Hok. apply Hok.
  - apply Forall_concat. eapply Forall2_right; [|exact Hall]. intros f cs Hok. apply Hok.
Qed.

Lemma scan_link_nosem e o clk c files :
  parser_tree e -> compile e o clk = COk c -> Forall (Forall (runs c)) files ->
  exists prog, scan_prog h c files = Some prog
    /\ Forall (disciplined (guard_of c)) prog
    /\ Forall (fun cl => call_port cl = out_port c) (List.concat prog)
    /\ files_records h c (List.concat files) = Some (map call_record (List.concat prog)).
Proof.
  intros Hpt H Hdef.
  destruct (all_some_map (thread_calls h c) (thread_ok h c) files) as (prog & Hprog & Hall).
  { eapply Forall_impl; [|exact Hdef]. intros fs Hfs. now apply (thread_link_nosem e o clk). }
  exists prog. split; [exact Hprog|]. split; [|split].
  - eapply Forall2_right; [|exact Hall]. intros fs cs Hok. apply Hok.
  - apply Forall_concat. eapply Forall2_right; [|exact Hall]. intros fs cs Hok. apply Hok.
  - clear Hprog Hdef. induction Hall as [|fs cs files prog Hok _ IH]; [reflexivity|].
    cbn [List.concat]. rewrite map_app. apply files_records_app; [apply Hok|exact IH].
Qed.

Theorem scan_whole_nosem e o clk c files :
  parser_tree e -> compile e o clk = COk c ->
  Forall (Forall (fun f => exists r, sem_policy h c f = Some r)) files ->
  exists prog recs,
    scan_prog h c files = Some prog
    /\ files_records h c (List.concat files) = Some recs
    /\ Forall (disciplined (guard_of c)) prog
    /\ forall st, steps (init prog) st ->
         (forall p, exists (done rest : list call) (partial : str),
             out st p = List.concat (map call_record done) ++ partial
             /\ Permutation (done ++ rest) (calls_on p (List.concat prog))
             /\ partial_on (guard_of c) prog st p partial)
         /\ (forall p, p <> out_port c -> out st p = [])
         /\ (final st -> exists rs, out st (out_port c) = List.concat rs /\ Permutation rs recs)
         /\ (~ final st -> exists st', Interleave.step st st').
Proof.
  intros Hpt H Hdef.
  destruct (scan_link_nosem e o clk c files Hpt H Hdef) as (prog & Hprog & Hdisc & Hport & Hrec).
  exists prog, (map call_record (List.concat prog)).
  split; [exact Hprog|]. split; [exact Hrec|]. split; [exact Hdisc|].
  intros st Hst. split; [|split; [|split]].
  - intro p. exact (Mutex.records_reachable (guard_of c) prog st Hdisc Hst p).
  - intros p Hp.
    destruct (Mutex.records_reachable (guard_of c) prog st Hdisc Hst p)
      as (done & rest & partial & Hout & Hperm & Hpart).
    rewrite (calls_on_none p (out_port c) _ Hp Hport) in Hperm.
    apply Permutation_sym, Permutation_nil in Hperm. apply app_eq_nil in Hperm as [-> _].
    unfold partial_on in Hpart. rewrite (guard_of_other c p Hp) in Hpart. subst partial.
    rewrite Hout. reflexivity.
  - intro Hfin.
    destruct (Mutex.records_final (guard_of c) prog st Hdisc Hst Hfin (out_port c)) as (rs & Hout & Hperm).
    exists rs. split; [exact Hout|]. unfold records_on in Hperm.
    now rewrite (calls_on_all _ _ Hport) in Hperm.
  - intro Hnf. exact (Mutex.progress prog st Hst Hnf).
Qed.

(** the converse of the hypothesis: a scan is defined only if the policy runs on every file *)
Lemma all_some_Some_Forall {A B} (g : A -> option B) l bs :
  all_some (map g l) = Some bs -> Forall (fun a => exists b, g a = Some b) l.
Proof.
  revert bs. induction l as [|a l IH]; intros bs H; cbn [map all_some] in H; [constructor|].
  destruct (g a) as [b|] eqn:E; [|discriminate H].
  destruct (all_some (map g l)) as [bs'|]; [|discriminate H]. constructor; [eauto|now apply (IH bs')].
Qed.

Theorem scan_defined_runs c files prog :
  scan_prog h c files = Some prog -> Forall (Forall (fun f => exists r, sem_policy h c f = Some r)) files.
Proof.
  unfold scan_prog. intro H. apply all_some_Some_Forall in H.
  eapply Forall_impl; [|exact H]. intros fs (cs & Hcs). unfold thread_calls in Hcs.
  destruct (all_some (map (file_calls h c) fs)) as [css|] eqn:E; [|discriminate Hcs].
  apply all_some_Some_Forall in E. eapply Forall_impl; [|exact E].
  intros f (cl & Hcl). unfold file_calls, policy_outputs in Hcl.
  destruct (sem_policy h c f) as [r|]; [eauto|discriminate Hcl].
Qed.

End Scan.
