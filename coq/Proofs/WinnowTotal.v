(** Totality toolkit for the winnow combinators over character streams.
    [wf c p]: [p] never panics, an Ok result never leaves more input than it was given, and when
    [c = true] an Ok result leaves strictly less (the parser is "consuming").
    [post P p]: every Ok result of [p] satisfies [P]. *)
From Coq Require Import List String NArith Bool Arith Lia.
From FP Require Import Model.Chars Model.Winnow Model.Ast Model.Args.
Import ListNotations.

Notation sp := (@parser str).

Definition wf {A} (c : bool) (p : sp A) : Prop :=
  forall i, match p i with
            | (Ok _, r) => List.length r <= List.length i /\ (c = true -> List.length r < List.length i)
            | (Panic _, _) => False
            | _ => True
            end.

Definition post {A} (P : A -> Prop) (p : sp A) : Prop :=
  forall i a r, p i = (Ok a, r) -> P a.

(** * wf: structural lemmas *)
Lemma wf_weak {A} c (p : sp A) : wf true p -> wf c p.
Proof.
  intros H i. specialize (H i). destruct (p i) as [[a|x|x|s] r]; auto.
  destruct H as [H1 H2]. split; [exact H1|]. intros _. auto.
Qed.

Lemma wf_false {A} c (p : sp A) : wf c p -> wf false p.
Proof.
  intros H i. specialize (H i). destruct (p i) as [[a|x|x|s] r]; auto.
  destruct H as [H1 _]. split; [exact H1|]. discriminate.
Qed.

Lemma wf_pmap {A B} c (f : A -> B) (p : sp A) : wf c p -> wf c (pmap f p).
Proof.
  intros H i. unfold pmap. specialize (H i). destruct (p i) as [[a|x|x|s] r]; exact H.
Qed.

Lemma wf_value {A B} c (b : B) (p : sp A) : wf c p -> wf c (value b p).
Proof. apply wf_pmap. Qed.

Lemma wf_bind_l {A B} c (p : sp A) (f : A -> sp B) :
  wf c p -> (forall a, wf false (f a)) -> wf c (bind p f).
Proof.
  intros Hp Hf i. unfold bind. specialize (Hp i). destruct (p i) as [[a|x|x|s] r]; try exact Hp.
  specialize (Hf a r). destruct (f a r) as [[b|x|x|s] r']; try exact Hf.
  destruct Hp as [H1 H2], Hf as [H3 _]. split; [lia|]. intros Hc. specialize (H2 Hc). lia.
Qed.

Lemma wf_bind_r {A B} c (p : sp A) (f : A -> sp B) :
  wf false p -> (forall a, wf c (f a)) -> wf c (bind p f).
Proof.
  intros Hp Hf i. unfold bind. specialize (Hp i). destruct (p i) as [[a|x|x|s] r]; try exact Hp.
  specialize (Hf a r). destruct (f a r) as [[b|x|x|s] r']; try exact Hf.
  destruct Hp as [H1 _], Hf as [H3 H4]. split; [lia|]. intros Hc. specialize (H4 Hc). lia.
Qed.

Lemma wf_preceded_l {A B} c (p : sp A) (q : sp B) : wf c p -> wf false q -> wf c (preceded p q).
Proof. intros Hp Hq. apply wf_bind_l; [exact Hp|]. intros _. exact Hq. Qed.
Lemma wf_preceded_r {A B} c (p : sp A) (q : sp B) : wf false p -> wf c q -> wf c (preceded p q).
Proof. intros Hp Hq. apply wf_bind_r; [exact Hp|]. intros _. exact Hq. Qed.

Lemma wf_terminated_l {A B} c (p : sp A) (q : sp B) : wf c p -> wf false q -> wf c (terminated p q).
Proof. intros Hp Hq. apply wf_bind_l; [exact Hp|]. intros a. apply wf_pmap. exact Hq. Qed.
Lemma wf_terminated_r {A B} c (p : sp A) (q : sp B) : wf false p -> wf c q -> wf c (terminated p q).
Proof. intros Hp Hq. apply wf_bind_r; [exact Hp|]. intros a. apply wf_pmap. exact Hq. Qed.

Lemma wf_pair_l {A B} c (p : sp A) (q : sp B) : wf c p -> wf false q -> wf c (pair_ p q).
Proof. intros Hp Hq. apply wf_bind_l; [exact Hp|]. intros a. apply wf_pmap. exact Hq. Qed.
Lemma wf_pair_r {A B} c (p : sp A) (q : sp B) : wf false p -> wf c q -> wf c (pair_ p q).
Proof. intros Hp Hq. apply wf_bind_r; [exact Hp|]. intros a. apply wf_pmap. exact Hq. Qed.

Lemma wf_delimited_l {A B C} c (p : sp A) (q : sp B) (r : sp C) :
  wf c p -> wf false q -> wf false r -> wf c (delimited p q r).
Proof. intros Hp Hq Hr. apply wf_preceded_l; [exact Hp|]. apply wf_terminated_l; assumption. Qed.

Lemma wf_separated_pair_l {A B C} c (p : sp A) (s : sp B) (q : sp C) :
  wf c p -> wf false s -> wf false q -> wf c (separated_pair p s q).
Proof.
  intros Hp Hs Hq. apply wf_bind_l; [exact Hp|]. intros a.
  apply wf_preceded_l; [exact Hs|]. apply wf_pmap. exact Hq.
Qed.

Lemma wf_cut_err {A} c (p : sp A) : wf c p -> wf c (cut_err p).
Proof.
  intros H i. unfold cut_err. specialize (H i). destruct (p i) as [[a|x|x|s] r]; exact H.
Qed.

Lemma wf_context {A} c k (p : sp A) : wf c p -> wf c (context k p).
Proof.
  intros H i. unfold context. specialize (H i). destruct (p i) as [[a|x|x|s] r]; exact H.
Qed.

Lemma wf_fail {A} c : wf c (@fail str A).
Proof. intros i. exact I. Qed.

Lemma wf_peek {A} c (p : sp A) : wf c p -> wf false (peek p).
Proof.
  intros H i. unfold peek. specialize (H i). destruct (p i) as [[a|x|x|s] r]; cbn [fst]; auto.
  split; [lia|discriminate].
Qed.

Lemma wf_opt {A} c (p : sp A) : wf c p -> wf false (opt p).
Proof.
  intros H i. unfold opt. specialize (H i). destruct (p i) as [[a|x|x|s] r]; auto.
  - destruct H as [H _]. split; [exact H|discriminate].
  - split; [lia|discriminate].
Qed.

Lemma alt_cons2 {A} (p q : sp A) l i :
  alt (p :: q :: l) i = match p i with (Back _, _) => alt (q :: l) i | x => x end.
Proof. reflexivity. Qed.
Lemma alt_one {A} (p : sp A) i : alt [p] i = p i.
Proof. reflexivity. Qed.

Lemma wf_alt {A} c (ps : list (sp A)) : Forall (wf c) ps -> wf c (alt ps).
Proof.
  induction ps as [|p ps IH]; intros HF.
  - intros i. exact I.
  - inversion HF as [|p' ps' Hp Hps]; subst. destruct ps as [|q l].
    + intros i. rewrite alt_one. exact (Hp i).
    + specialize (IH Hps). intros i. rewrite alt_cons2.
      specialize (Hp i). destruct (p i) as [[a|x|x|s] r]; try exact Hp. exact (IH i).
Qed.

Lemma wf_try_map {A B} c (p : sp A) (f : A -> option B) : wf c p -> wf c (try_map p f).
Proof.
  intros H i. unfold try_map. specialize (H i). destruct (p i) as [[a|x|x|s] r]; try exact H.
  destruct (f a) as [b|]; [exact H|exact I].
Qed.

Lemma wf_verify {A} c (p : sp A) (f : A -> bool) : wf c p -> wf c (verify p f).
Proof. apply wf_try_map. Qed.

(** * loops: the fuel [S (length i)] is enough when each iteration consumes *)
Lemma repeat_fuel_wf {A} (p : sp A) (Hp : wf true p) : forall fuel i,
  List.length i < fuel ->
  match repeat_fuel slen fuel p i with
  | (Ok _, r) => List.length r <= List.length i
  | (Panic _, _) => False
  | _ => True
  end.
Proof.
  induction fuel as [|fuel IH]; intros i Hlt; [lia|].
  cbn [repeat_fuel]. pose proof (Hp i) as Hpi. destruct (p i) as [[a|x|x|s] r]; try exact I.
  - destruct Hpi as [_ H2]. specialize (H2 eq_refl). 
    destruct (Nat.leb (slen i) (slen r)) eqn:E; [apply Nat.leb_le in E; unfold slen in E; lia|].
    assert (Hr : List.length r < fuel) by lia. specialize (IH r Hr).
    destruct (repeat_fuel slen fuel p r) as [[l|x|x|s] r']; try exact IH. lia.
  - lia.
  - exact Hpi.
Qed.

Lemma wf_repeat0 {A} (p : sp A) : wf true p -> wf false (repeat0 slen p).
Proof.
  intros Hp i. unfold repeat0.
  assert (Hlt : List.length i < S (slen i)) by (unfold slen; lia).
  pose proof (repeat_fuel_wf p Hp (S (slen i)) i Hlt) as H.
  destruct (repeat_fuel slen (S (slen i)) p i) as [[l|x|x|s] r]; try exact H.
  split; [exact H|discriminate].
Qed.

Lemma rtill_fuel_wf {A B} c (f : sp A) (g : sp B) (Hf : wf true f) (Hg : wf c g) : forall fuel i,
  List.length i < fuel ->
  match rtill_fuel slen fuel f g i with
  | (Ok _, r) => List.length r <= List.length i /\ (c = true -> List.length r < List.length i)
  | (Panic _, _) => False
  | _ => True
  end.
Proof.
  induction fuel as [|fuel IH]; intros i Hlt; [lia|].
  cbn [rtill_fuel]. pose proof (Hg i) as Hgi. destruct (g i) as [[b|x|x|s] r]; try exact Hgi.
  pose proof (Hf i) as Hfi. destruct (f i) as [[a|y|y|s] r1]; try exact Hfi.
  destruct Hfi as [_ H2]. specialize (H2 eq_refl). 
  destruct (Nat.leb (slen i) (slen r1)) eqn:E; [apply Nat.leb_le in E; unfold slen in E; lia|].
  assert (Hr : List.length r1 < fuel) by lia. specialize (IH r1 Hr).
  destruct (rtill_fuel slen fuel f g r1) as [[[l b]|z|z|s] r']; try exact IH.
  destruct IH as [H3 _]. split; [lia|]. intros _. lia.
Qed.

Lemma wf_repeat_till0 {A B} c (f : sp A) (g : sp B) :
  wf true f -> wf c g -> wf c (repeat_till0 slen f g).
Proof.
  intros Hf Hg i. unfold repeat_till0.
  assert (Hlt : List.length i < S (slen i)) by (unfold slen; lia).
  exact (rtill_fuel_wf c f g Hf Hg (S (slen i)) i Hlt).
Qed.

Lemma wf_repeat_till1 {A B} c (f : sp A) (g : sp B) :
  wf true f -> wf false g -> wf c (repeat_till1 slen f g).
Proof.
  intros Hf Hg i. unfold repeat_till1.
  pose proof (Hf i) as Hfi. destruct (f i) as [[a|y|y|s] r1]; try exact Hfi.
  destruct Hfi as [_ H2]. specialize (H2 eq_refl).
  pose proof (wf_repeat_till0 false f g Hf Hg r1) as H.
  destruct (repeat_till0 slen f g r1) as [[[l b]|z|z|s] r']; try exact H.
  destruct H as [H3 _]. split; [lia|]. intros _. lia.
Qed.

Lemma sep_fuel_wf {A B} (p : sp A) (s : sp B) (Hp : wf false p) (Hs : wf true s) : forall fuel i,
  List.length i < fuel ->
  match sep_fuel slen fuel p s i with
  | (Ok _, r) => List.length r <= List.length i
  | (Panic _, _) => False
  | _ => True
  end.
Proof.
  induction fuel as [|fuel IH]; intros i Hlt; [lia|].
  cbn [sep_fuel]. pose proof (Hs i) as Hsi. destruct (s i) as [[b|x|x|m] r1]; try exact Hsi.
  2: lia.
  destruct Hsi as [_ H2]. specialize (H2 eq_refl). 
  destruct (Nat.leb (slen i) (slen r1)) eqn:E; [apply Nat.leb_le in E; unfold slen in E; lia|].
  pose proof (Hp r1) as Hpi. destruct (p r1) as [[a|y|y|m] r2]; try exact Hpi.
  2: lia.
  destruct Hpi as [H3 _].
  assert (Hr : List.length r2 < fuel) by lia. specialize (IH r2 Hr).
  destruct (sep_fuel slen fuel p s r2) as [[l|z|z|m] r']; try exact IH. lia.
Qed.

Lemma wf_separated1 {A B} c (p : sp A) (s : sp B) :
  wf c p -> wf true s -> wf c (separated1 slen p s).
Proof.
  intros Hp Hs i. unfold separated1.
  pose proof (Hp i) as Hpi. destruct (p i) as [[a|y|y|m] r1]; try exact Hpi.
  assert (Hlt : List.length r1 < S (slen r1)) by (unfold slen; lia).
  pose proof (sep_fuel_wf p s (wf_false c p Hp) Hs (S (slen r1)) r1 Hlt) as H.
  destruct (sep_fuel slen (S (slen r1)) p s r1) as [[l|z|z|m] r']; try exact H.
  destruct Hpi as [H1 H2]. split; [lia|]. intros Hc. specialize (H2 Hc). lia.
Qed.

(** * primitives *)
Lemma lit_length : forall k i r, lit_ k i = Some r -> List.length i = List.length k + List.length r.
Proof.
  induction k as [|c k IH]; intros i r H.
  - cbn [lit_] in H. inversion H; subst. reflexivity.
  - destruct i as [|d i]; cbn [lit_] in H; [discriminate|].
    destruct (N.eqb c d); [|discriminate]. apply IH in H. cbn [List.length]. lia.
Qed.

Lemma wf_literal0 s : wf false (literal s).
Proof.
  intros i. unfold literal. destruct (lit_ (chars s) i) as [r|] eqn:E; [|exact I].
  apply lit_length in E. split; [lia|discriminate].
Qed.

Lemma wf_literal c s : s <> ""%string -> wf c (literal s).
Proof.
  intros Hs i. unfold literal. destruct (lit_ (chars s) i) as [r|] eqn:E; [|exact I].
  apply lit_length in E. destruct s as [|a s]; [congruence|]. cbn [chars List.length] in E.
  split; [lia|]. intros _. lia.
Qed.

Lemma span_length p : forall i a b, span p i = (a, b) -> List.length i = List.length a + List.length b.
Proof.
  induction i as [|c i IH]; intros a b H; cbn [span] in H.
  - inversion H; subst. reflexivity.
  - destruct (p c).
    + destruct (span p i) as [a' b'] eqn:E. inversion H; subst. specialize (IH a' b eq_refl).
      cbn [List.length]. lia.
    + inversion H; subst. reflexivity.
Qed.

Lemma wf_take_while0 m p : wf false (take_while m p).
Proof.
  intros i. unfold take_while. destruct (span p i) as [a b] eqn:E. apply span_length in E.
  destruct (Nat.leb m (List.length a)); [|exact I]. split; [lia|discriminate].
Qed.

Lemma wf_take_while c m p : 1 <= m -> wf c (take_while m p).
Proof.
  intros Hm i. unfold take_while. destruct (span p i) as [a b] eqn:E. apply span_length in E.
  destruct (Nat.leb m (List.length a)) eqn:El; [|exact I]. apply Nat.leb_le in El.
  split; [lia|]. intros _. lia.
Qed.

Lemma span_max_length p : forall n i a b,
  span_max n p i = (a, b) -> List.length i = List.length a + List.length b.
Proof.
  induction n as [|n IH]; intros i a b H; cbn [span_max] in H.
  - inversion H; subst. reflexivity.
  - destruct i as [|c i].
    + inversion H; subst. reflexivity.
    + destruct (p c).
      * destruct (span_max n p i) as [a' b'] eqn:E. inversion H; subst.
        specialize (IH i a' b E). cbn [List.length]. lia.
      * inversion H; subst. reflexivity.
Qed.

Lemma wf_take_while_mn0 m n p : wf false (take_while_mn m n p).
Proof.
  intros i. unfold take_while_mn. destruct (span_max n p i) as [a b] eqn:E.
  apply span_max_length in E.
  destruct (Nat.leb m (List.length a)); [|exact I]. split; [lia|discriminate].
Qed.

Lemma wf_take_while_mn c m n p : 1 <= m -> wf c (take_while_mn m n p).
Proof.
  intros Hm i. unfold take_while_mn. destruct (span_max n p i) as [a b] eqn:E.
  apply span_max_length in E.
  destruct (Nat.leb m (List.length a)) eqn:El; [|exact I]. apply Nat.leb_le in El.
  split; [lia|]. intros _. lia.
Qed.

Lemma until_length c : forall i a b, until_ c i = Some (a, b) -> List.length i = List.length a + List.length b.
Proof.
  induction i as [|d i IH]; intros a b H; cbn [until_] in H; [discriminate|].
  destruct (N.eqb d c).
  - inversion H; subst. reflexivity.
  - destruct (until_ c i) as [[a' b']|] eqn:E; [|discriminate]. inversion H; subst.
    specialize (IH a' b eq_refl). cbn [List.length]. lia.
Qed.

Lemma wf_take_until0 c : wf false (take_until0 c).
Proof.
  intros i. unfold take_until0. destruct (until_ c i) as [[a b]|] eqn:E; [|exact I].
  apply until_length in E. split; [lia|discriminate].
Qed.

Lemma wf_multispace0 : wf false multispace0.
Proof. apply wf_take_while0. Qed.
Lemma wf_multispace1 c : wf c multispace1.
Proof. apply wf_take_while. lia. Qed.
Lemma wf_digit1 c : wf c digit1.
Proof. apply wf_take_while. lia. Qed.
Lemma wf_alpha1 c : wf c alpha1.
Proof. apply wf_take_while. lia. Qed.

Lemma wf_eof : wf false (@eof N).
Proof. intros i. unfold eof. destruct i as [|c i]; [|exact I]. split; [lia|discriminate]. Qed.

Lemma wf_any c : wf c (@any N).
Proof.
  intros i. unfold any. destruct i as [|d i]; [exact I|]. cbn [List.length]. split; [lia|]. intros _. lia.
Qed.

Lemma wf_one_of c f : wf c (@one_of N f).
Proof.
  intros i. unfold one_of. destruct i as [|d i]; [exact I|]. destruct (f d); [|exact I].
  cbn [List.length]. split; [lia|]. intros _. lia.
Qed.

Lemma wf_and_then {A} c (outer : sp str) (inner : sp A) :
  wf c outer -> wf false inner -> wf c (and_then outer inner).
Proof.
  intros Ho Hi i. unfold and_then. specialize (Ho i).
  destruct (outer i) as [[o|x|x|s] r]; try exact Ho.
  specialize (Hi o). destruct (inner o) as [[a|x|x|s] r']; try exact I; [exact Ho|exact Hi].
Qed.

(** * post: what an Ok result looks like *)
Lemma post_weaken {A} (P Q : A -> Prop) (p : sp A) :
  post P p -> (forall a, P a -> Q a) -> post Q p.
Proof. intros H HPQ i a r E. apply HPQ. exact (H i a r E). Qed.

Lemma post_true {A} (p : sp A) : post (fun _ => True) p.
Proof. intros i a r _. exact I. Qed.

Lemma post_pmap {A B} (P : A -> Prop) (Q : B -> Prop) (f : A -> B) (p : sp A) :
  post P p -> (forall a, P a -> Q (f a)) -> post Q (pmap f p).
Proof.
  intros H HPQ i b r E. unfold pmap in E. destruct (p i) as [[a|x|x|s] r0] eqn:Ep; inversion E; subst.
  apply HPQ. exact (H i a r Ep).
Qed.

Lemma post_pmap_any {A B} (Q : B -> Prop) (f : A -> B) (p : sp A) :
  (forall a, Q (f a)) -> post Q (pmap f p).
Proof. intros H. apply (post_pmap (fun _ => True)); [apply post_true|]. intros a _. apply H. Qed.

Lemma post_value {A B} (Q : B -> Prop) (b : B) (p : sp A) : Q b -> post Q (value b p).
Proof. intros H. apply post_pmap_any. intros _. exact H. Qed.

Lemma post_bind {A B} (Q : B -> Prop) (p : sp A) (f : A -> sp B) :
  (forall a, post Q (f a)) -> post Q (bind p f).
Proof.
  intros H i b r E. unfold bind in E. destruct (p i) as [[a|x|x|s] r0] eqn:Ep; try discriminate.
  exact (H a r0 b r E).
Qed.

Lemma post_preceded {A B} (Q : B -> Prop) (p : sp A) (q : sp B) : post Q q -> post Q (preceded p q).
Proof. intros H. apply post_bind. intros _. exact H. Qed.

Lemma post_terminated {A B} (P : A -> Prop) (p : sp A) (q : sp B) : post P p -> post P (terminated p q).
Proof.
  intros H i a r E. unfold terminated, bind, pmap in E.
  destruct (p i) as [[a0|x|x|s] r0] eqn:Ep; try discriminate.
  destruct (q r0) as [[b|x|x|s] r1]; inversion E; subst. exact (H i a r0 Ep).
Qed.

Lemma post_cut_err {A} (P : A -> Prop) (p : sp A) : post P p -> post P (cut_err p).
Proof.
  intros H i a r E. unfold cut_err in E. destruct (p i) as [[a0|x|x|s] r0] eqn:Ep; inversion E; subst.
  exact (H i a r Ep).
Qed.

Lemma post_context {A} (P : A -> Prop) k (p : sp A) : post P p -> post P (context k p).
Proof.
  intros H i a r E. unfold context in E. destruct (p i) as [[a0|x|x|s] r0] eqn:Ep; inversion E; subst.
  exact (H i a r Ep).
Qed.

Lemma post_fail {A} (P : A -> Prop) : post P (@fail str A).
Proof. intros i a r E. unfold fail in E. discriminate. Qed.

Lemma post_alt {A} (P : A -> Prop) (ps : list (sp A)) : Forall (post P) ps -> post P (alt ps).
Proof.
  induction ps as [|p ps IH]; intros HF.
  - intros i a r E. cbn in E. discriminate.
  - inversion HF as [|p' ps' Hp Hps]; subst. destruct ps as [|q l].
    + intros i a r E. rewrite alt_one in E. exact (Hp i a r E).
    + specialize (IH Hps). intros i a r E. rewrite alt_cons2 in E.
      destruct (p i) as [[a0|x|x|s] r0] eqn:Ep; try discriminate.
      * inversion E; subst. exact (Hp i a r Ep).
      * exact (IH i a r E).
Qed.

Lemma post_try_map_none {A B} (Q : B -> Prop) (p : sp A) (f : A -> option B) :
  (forall a, f a = None) -> post Q (try_map p f).
Proof.
  intros H i b r E. unfold try_map in E. destruct (p i) as [[a|x|x|s] r0]; try discriminate.
  rewrite H in E. discriminate.
Qed.

Lemma post_verify_false {A} (Q : A -> Prop) (p : sp A) : post Q (verify p (fun _ => false)).
Proof. apply post_try_map_none. intros a. reflexivity. Qed.

Lemma repeat_fuel_post {A} (P : A -> Prop) (p : sp A) (Hp : post P p) : forall fuel i l r,
  repeat_fuel slen fuel p i = (Ok l, r) -> Forall P l.
Proof.
  induction fuel as [|fuel IH]; intros i l r E; cbn [repeat_fuel] in E; [discriminate|].
  destruct (p i) as [[a|x|x|s] r0] eqn:Ep; try discriminate.
  - destruct (Nat.leb (slen i) (slen r0)); [discriminate|].
    destruct (repeat_fuel slen fuel p r0) as [[l0|x|x|s] r1] eqn:Er; inversion E; subst.
    constructor; [exact (Hp i a r0 Ep)|exact (IH r0 l0 r Er)].
  - inversion E; subst. constructor.
Qed.

Lemma post_repeat0 {A} (P : A -> Prop) (p : sp A) : post P p -> post (Forall P) (repeat0 slen p).
Proof. intros Hp i l r E. unfold repeat0 in E. exact (repeat_fuel_post P p Hp _ i l r E). Qed.

Lemma rtill_fuel_post {A B} (P : A -> Prop) (f : sp A) (g : sp B) (Hf : post P f) : forall fuel i l b r,
  rtill_fuel slen fuel f g i = (Ok (l, b), r) -> Forall P l.
Proof.
  induction fuel as [|fuel IH]; intros i l b r E; cbn [rtill_fuel] in E; [discriminate|].
  destruct (g i) as [[b0|x|x|s] r0] eqn:Eg; try discriminate.
  - inversion E; subst. constructor.
  - destruct (f i) as [[a|y|y|s] r1] eqn:Ef; try discriminate.
    destruct (Nat.leb (slen i) (slen r1)); [discriminate|].
    destruct (rtill_fuel slen fuel f g r1) as [[[l0 b1]|z|z|s] r2] eqn:Er; inversion E; subst.
    constructor; [exact (Hf i a r1 Ef)|exact (IH r1 l0 b r Er)].
Qed.

Lemma post_repeat_till1 {A B} (P : A -> Prop) (f : sp A) (g : sp B) :
  post P f -> post (fun lb => Forall P (fst lb)) (repeat_till1 slen f g).
Proof.
  intros Hf i [l b] r E. unfold repeat_till1 in E.
  destruct (f i) as [[a|y|y|s] r1] eqn:Ef; try discriminate.
  unfold repeat_till0 in E.
  destruct (rtill_fuel slen (S (slen r1)) f g r1) as [[[l0 b1]|z|z|s] r2] eqn:Er; inversion E; subst.
  cbn [fst]. constructor; [exact (Hf i a r1 Ef)|exact (rtill_fuel_post P f g Hf _ r1 l0 b r Er)].
Qed.
