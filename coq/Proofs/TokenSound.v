(** Soundness of the token parser with respect to the vocabulary: whatever [parse_token]
    accepts as a primary is the weaving of words of [Primary], consumed exactly, and whatever it
    accepts as an operator is an operator word.  (The converse is Proofs/LexPrimary.v.)
    The one exception — a word starting with a quote character that is never closed, which
    the code reads as an unquoted word — is carried as the alternative [stray_quote]. *)
From Coq Require Import List String NArith Bool Arith Lia ZifyBool ZifyN.
From FP Require Import Model.Chars Model.Winnow Model.Ast Model.Args Model.Perm Model.Format Model.Lex.
From FP Require Import Spec.Decimal Spec.Numeric Spec.Chmod Spec.PermWord Spec.FormatSpec.
From FP Require Import Spec.Vocabulary Spec.Surface Spec.Accepted.
From FP Require Import Proofs.WinnowFacts Proofs.LexArgs Proofs.LexPrimary Proofs.ArgSound.
Import ListNotations.
Local Open Scope N_scope.

(** * The keyword macros, inverted *)
Lemma keyword_inv id i u r :
  terminated (literal id) word_end i = (Ok u, r) -> i = chars id ++ r /\ at_word_end r.
Proof.
  intros H. apply terminated_inv in H. destruct H as (r1 & u' & H1 & H2).
  apply literal_inv in H1. apply word_end_inv in H2. destruct H2 as [-> Hw]. split; assumption.
Qed.

Lemma unary_inv {A B} id (f : A -> B) (p : sparser A) i b r :
  unary id f p i = (Ok b, r) ->
  exists g j a, i = chars id ++ g ++ j /\ gap g /\ p j = (Ok a, r) /\ b = f a.
Proof.
  unfold unary. intros H. apply pmap_inv in H. destruct H as (a & H & ->).
  apply context_inv, preceded_inv in H. destruct H as (u & r1 & Hk & H).
  apply keyword_inv in Hk. destruct Hk as [-> _].
  apply cut_err_inv, preceded_inv in H. destruct H as (g & j & Hg & H).
  apply multispace1_inv in Hg. destruct Hg as (-> & Hg & _). apply cut_err_inv in H.
  exists g, j, a. split; [reflexivity|]. split; [exact Hg|]. split; [exact H|reflexivity].
Qed.

Lemma binary_inv {A B C} id (f : A * B -> C) (pl : sparser A) (pr : sparser B) args i c r :
  binary id f pl pr args i = (Ok c, r) ->
  exists g1 j1 a g2 j2 b,
    i = chars id ++ g1 ++ j1 /\ gap g1 /\ pl j1 = (Ok a, g2 ++ j2) /\ gap g2 /\ pr j2 = (Ok b, r)
    /\ c = f (a, b).
Proof.
  unfold binary. intros H. apply pmap_inv in H. destruct H as (ab & H & ->).
  apply context_inv, preceded_inv in H. destruct H as (u & r1 & Hk & H).
  apply keyword_inv in Hk. destruct Hk as [-> _].
  apply cut_err_inv, context_inv, preceded_inv in H. destruct H as (g1 & j1 & Hg1 & H).
  apply multispace1_inv in Hg1. destruct Hg1 as (-> & Hg1 & _).
  unfold separated_pair in H. apply bind_inv in H. destruct H as (a & r2 & Hl & H).
  apply preceded_inv in H. destruct H as (g2 & j2 & Hg2 & H).
  apply multispace1_inv in Hg2. destruct Hg2 as (-> & Hg2 & _).
  apply pmap_inv in H. destruct H as (b & Hr & ->).
  exists g1, j1, a, g2, j2, b. split; [reflexivity|]. split; [exact Hg1|]. split; [exact Hl|].
  split; [exact Hg2|]. split; [exact Hr|reflexivity].
Qed.

(** * Stray quotes propagate outwards *)
Lemma stray_quote_prefix pre s : stray_quote s -> stray_quote (pre ++ s).
Proof.
  intros (p & g & q & t & -> & Hg & Hq & Hn). exists (pre ++ p), g, q, t.
  split; [rewrite <- app_assoc; reflexivity|]. split; [exact Hg|]. split; assumption.
Qed.
Lemma stray_word_quote pre g w r : gap g -> stray_word w r -> stray_quote (pre ++ g ++ w ++ r).
Proof.
  intros Hg (q & t & -> & Hq & Hn). exists pre, g, q, (t ++ r).
  split; [reflexivity|]. split; [exact Hg|]. split; assumption.
Qed.

(** * Soundness of one alternative *)
(** [q] accepts only primaries of the vocabulary whose leaf is [wrap x] *)
Definition prim_sound {X} (q : sparser X) (wrap : X -> leaf) : Prop :=
  forall i x r, q i = (Ok x, r) ->
    (exists ws gaps, Primary ws (wrap x) /\ gaps_for ws gaps /\ i = weave ws gaps ++ r)
    \/ stray_quote i.
(** [p] accepts only words of [L] (or stray-quote words) *)
Definition arg_sound {A} (p : sparser A) (L : str -> A -> Prop) : Prop :=
  forall j a r, p j = (Ok a, r) -> exists w, j = w ++ r /\ (L w a \/ stray_word w r).

Lemma gaps_one k w g : gap g -> gaps_for [k; w] [g].
Proof. intros Hg. split; [reflexivity|]. constructor; [exact Hg|constructor]. Qed.
Lemma gaps_two k w1 w2 g1 g2 : gap g1 -> gap g2 -> gaps_for [k; w1; w2] [g1; g2].
Proof. intros H1 H2. split; [reflexivity|]. constructor; [exact H1|]. constructor; [exact H2|constructor]. Qed.

Lemma unary_sound {A B} id (f : A -> B) (p : sparser A) (wrap : B -> leaf) (L : str -> A -> Prop) :
  arg_sound p L -> (forall w a, L w a -> Primary [chars id; w] (wrap (f a))) ->
  prim_sound (unary id f p) wrap.
Proof.
  intros Hp HL i x r H. apply unary_inv in H. destruct H as (g & j & a & -> & Hg & Hj & ->).
  destruct (Hp _ _ _ Hj) as (w & -> & [Hw|Hs]).
  - left. exists [chars id; w], [g]. split; [exact (HL w a Hw)|]. split; [exact (gaps_one _ _ _ Hg)|].
    rewrite weave2_eq. reflexivity.
  - right. apply stray_word_quote; assumption.
Qed.

Lemma binary_sound {A B C} id (f : A * B -> C) pl pr args (wrap : C -> leaf)
  (L1 : str -> A -> Prop) (L2 : str -> B -> Prop) :
  arg_sound pl L1 -> arg_sound pr L2 ->
  (forall w1 a w2 b, L1 w1 a -> L2 w2 b -> Primary [chars id; w1; w2] (wrap (f (a, b)))) ->
  prim_sound (binary id f pl pr args) wrap.
Proof.
  intros Hl Hr HL i x r H. apply binary_inv in H.
  destruct H as (g1 & j1 & a & g2 & j2 & b & -> & Hg1 & Hj1 & Hg2 & Hj2 & ->).
  destruct (Hl _ _ _ Hj1) as (w1 & -> & [Hw1|Hs1]).
  - destruct (Hr _ _ _ Hj2) as (w2 & -> & [Hw2|Hs2]).
    + left. exists [chars id; w1; w2], [g1; g2]. split; [exact (HL _ _ _ _ Hw1 Hw2)|].
      split; [exact (gaps_two _ _ _ _ _ Hg1 Hg2)|]. rewrite weave3_eq. reflexivity.
    + right. replace (chars id ++ g1 ++ w1 ++ g2 ++ w2 ++ r) with ((chars id ++ g1 ++ w1) ++ g2 ++ w2 ++ r)
        by (rewrite <- !app_assoc; reflexivity).
      apply stray_word_quote; assumption.
  - right. apply stray_word_quote; assumption.
Qed.

Lemma nullary_sound {X} (a : X) k (wrap : X -> leaf) :
  In (k, wrap a) nullary_table -> prim_sound (value a (literal k)) wrap.
Proof.
  intros Hin i x r H. apply pmap_inv in H. destruct H as (u & H & ->). apply literal_inv in H.
  left. exists [chars k], []. split; [exact (P_nullary k _ Hin)|]. split.
  - split; [reflexivity|constructor].
  - cbn [weave weave_args]. rewrite app_nil_r. exact H.
Qed.

Lemma context_sound {X} c (q : sparser X) wrap : prim_sound q wrap -> prim_sound (context c q) wrap.
Proof. intros Hq i x r H. apply context_inv in H. exact (Hq i x r H). Qed.
Lemma alt_sound {X} (ps : list (sparser X)) wrap :
  Forall (fun q => prim_sound q wrap) ps -> prim_sound (alt ps) wrap.
Proof.
  intros Hall i x r H. apply alt_inv in H. destruct H as (p & Hin & Hp).
  rewrite Forall_forall in Hall. exact (Hall p Hin i x r Hp).
Qed.

(** * The argument parsers, in the form [arg_sound] *)
Lemma string_arg : arg_sound parse_string WordArg.
Proof.
  intros j a r H. apply parse_string_sound in H. destruct H as (w & -> & [Hw|[_ Hs]]);
    exists w; (split; [reflexivity|]); [left; exact Hw|right; exact Hs].
Qed.
Lemma context_arg {A} c (p : sparser A) L : arg_sound p L -> arg_sound (context c p) L.
Proof. intros Hp j a r H. apply context_inv in H. exact (Hp j a r H). Qed.
Lemma strict_arg {A} (p : sparser A) (L : str -> A -> Prop) :
  (forall i a r, p i = (Ok a, r) -> exists w, i = w ++ r /\ L w a) -> arg_sound p L.
Proof. intros Hp j a r H. destruct (Hp j a r H) as (w & -> & Hw). exists w. split; [reflexivity|left; exact Hw]. Qed.

Lemma cmp_u32_arg : arg_sound (parse_cmp parse_u32) (CmpArg (Count (2 ^ 32))).
Proof. apply strict_arg. apply cmp_sound. intros i v r H. exact (count_sound two32 i v r H). Qed.
Lemma cmp_u64_arg : arg_sound (parse_cmp parse_u64) (CmpArg (Count (2 ^ 64))).
Proof. apply strict_arg. apply cmp_sound. intros i v r H. exact (count_sound two64 i v r H). Qed.
Lemma cmp_time_arg u : arg_sound (parse_cmp (parse_time u)) (CmpArg (TimeArg u)).
Proof. apply strict_arg. apply cmp_sound. apply time_sound. Qed.
Lemma cmp_size_arg : arg_sound (parse_cmp parse_size) (CmpArg SizeArg).
Proof. apply strict_arg. apply cmp_sound. apply size_sound. Qed.
Lemma types_arg : arg_sound parse_filetypes TypeList.
Proof. apply strict_arg. apply filetypes_sound. Qed.
Lemma u32_arg : arg_sound parse_u32 (Count (2 ^ 32)).
Proof. apply strict_arg. intros i v r H. exact (count_sound two32 i v r H). Qed.
Lemma perm_arg : arg_sound parse_perm_arg (fun w kb => exists v, WordArg w v /\ PermArg v (fst kb) (snd kb)).
Proof.
  apply strict_arg. intros i [k b] r H. apply perm_arg_sound in H.
  destruct H as (w & v & -> & Hw & Hp). exists w. split; [reflexivity|]. exists v. split; assumption.
Qed.
Lemma format_arg : arg_sound parse_format_arg (fun w fmt => exists v, WordArg w v /\ Seg v fmt).
Proof.
  intros j fmt r H. apply format_arg_sound in H. destruct H as (w & v & -> & [Hw|[_ Hs]] & Hseg);
    exists w; (split; [reflexivity|]).
  - left. exists v. split; assumption.
  - right. exact Hs.
Qed.
Lemma unsupported_arg : arg_sound unsupported_u32 (fun _ _ => False).
Proof.
  intros j a r H. exfalso. unfold unsupported_u32 in H. apply context_inv in H.
  unfold verify in H. apply try_map_inv in H. destruct H as (x & _ & Hx). discriminate Hx.
Qed.

(** * The entries of the three groups *)
Lemma string_entry {B} id (f : str -> B) (wrap : B -> leaf) :
  In (id, fun s => wrap (f s)) string_table -> prim_sound (unary id f parse_string) wrap.
Proof.
  intros Hin. apply (unary_sound id f parse_string wrap WordArg string_arg).
  intros w a Hw. exact (P_string id (fun s => wrap (f s)) w a Hin Hw).
Qed.
Lemma count32_entry {B} id (f : cmp N -> B) (wrap : B -> leaf) :
  In (id, fun c => wrap (f c)) count32_table -> prim_sound (unary id f (parse_cmp parse_u32)) wrap.
Proof.
  intros Hin. apply (unary_sound id f _ wrap _ cmp_u32_arg).
  intros w a Hw. exact (P_count32 id (fun c => wrap (f c)) w a Hin Hw).
Qed.
Lemma time_entry {B} id u (f : cmp timespec -> B) (wrap : B -> leaf) :
  In (id, u, fun c => wrap (f c)) time_table -> prim_sound (unary id f (parse_cmp (parse_time u))) wrap.
Proof.
  intros Hin. apply (unary_sound id f _ wrap _ (cmp_time_arg u)).
  intros w a Hw. exact (P_time id u (fun c => wrap (f c)) w a Hin Hw).
Qed.
Lemma links_entry : prim_sound (unary "-links" TLinks (parse_cmp parse_u64)) LTest.
Proof. apply (unary_sound _ _ _ _ _ cmp_u64_arg). intros w a Hw. exact (P_links w a Hw). Qed.
Lemma size_entry : prim_sound (unary "-size" TSize (parse_cmp parse_size)) LTest.
Proof. apply (unary_sound _ _ _ _ _ cmp_size_arg). intros w a Hw. exact (P_size w a Hw). Qed.
Lemma type_entry : prim_sound (unary "-type" TType parse_filetypes) LTest.
Proof. apply (unary_sound _ _ _ _ _ types_arg). intros w a Hw. exact (P_type w a Hw). Qed.
Lemma perm_entry : prim_sound (unary "-perm" (fun '(k, b) => TPerm k b) parse_perm_arg) LTest.
Proof.
  apply (unary_sound _ _ _ _ _ perm_arg). intros w [k b] (v & Hw & Hp). exact (P_perm w v k b Hw Hp).
Qed.
Lemma xattr_match_entry :
  prim_sound (binary "-xattr-match" (fun '(f, v) => TXattrMatch f v)
                (context (expected "attribute") parse_string) (context (expected "value") parse_string)
                "attribute_and_value") LTest.
Proof.
  apply (binary_sound _ _ _ _ _ _ WordArg WordArg); try (apply context_arg, string_arg).
  intros w1 a w2 b H1 H2. exact (P_xattr_match w1 a w2 b H1 H2).
Qed.
Lemma printf_entry : prim_sound (unary "-printf" APrintFormatted parse_format_arg) LAction.
Proof.
  apply (unary_sound _ _ _ _ _ format_arg). intros w fmt (v & Hw & Hs). exact (P_printf w v fmt Hw Hs).
Qed.
Lemma fprintf_entry :
  prim_sound (binary "-fprintf" (fun '(f, t) => AFilePrintFormatted f t)
                (context (expected "filename") parse_string)
                (context (expected "format_string") parse_format_arg) "filename_and_format") LAction.
Proof.
  apply (binary_sound _ _ _ _ _ _ WordArg (fun w fmt => exists v, WordArg w v /\ Seg v fmt)).
  - apply context_arg, string_arg.
  - apply context_arg, format_arg.
  - intros w1 a w2 fmt H1 (v & Hw & Hs). exact (P_fprintf w1 a w2 v fmt H1 Hw Hs).
Qed.
Lemma threads_entry : prim_sound (unary "-threads" GThreads parse_u32) LGlobal.
Proof. apply (unary_sound _ _ _ _ _ u32_arg). intros w n Hw. exact (P_threads w n Hw). Qed.
Lemma refused_entry id f : prim_sound (unary id f unsupported_u32) LGlobal.
Proof. apply (unary_sound _ _ _ _ _ unsupported_arg). intros w a []. Qed.

Ltac in_table := cbn [In]; repeat (first [left; reflexivity | right]).
Ltac entry :=
  first [ exact links_entry | exact size_entry | exact type_entry | exact perm_entry
        | exact xattr_match_entry | exact printf_entry | exact fprintf_entry | exact threads_entry
        | apply refused_entry
        | apply nullary_sound; unfold nullary_table; in_table
        | apply string_entry; unfold string_table; in_table
        | apply count32_entry; unfold count32_table; in_table
        | apply time_entry; unfold time_table; in_table ].
Ltac entries := repeat (apply Forall_cons; [entry|]); apply Forall_nil.

Theorem parse_test_sound : prim_sound parse_test LTest.
Proof.
  unfold parse_test. apply context_sound, alt_sound.
  apply Forall_cons; [apply alt_sound; entries|].
  apply Forall_cons; [apply alt_sound; entries|apply Forall_nil].
Qed.
Theorem parse_action_sound : prim_sound parse_action LAction.
Proof. unfold parse_action. apply context_sound, alt_sound. entries. Qed.
Theorem parse_global_sound : prim_sound parse_global LGlobal.
Proof. unfold parse_global. apply context_sound, alt_sound. entries. Qed.

(** * The token parser *)
(** a primary: the words of the vocabulary woven with gaps, then a word end *)
Theorem token_primary_sound i l r :
  parse_token i = (Ok (KPrim l), r) ->
  at_word_end r /\
  ((exists ws gaps, Primary ws l /\ gaps_for ws gaps /\ i = weave ws gaps ++ r) \/ stray_quote i).
Proof.
  intros H. unfold parse_token in H. apply context_inv, alt_inv in H. destruct H as (p & Hin & Hp).
  cbn [In] in Hin.
  destruct Hin as [<-|[<-|[<-|[<-|[<-|[<-|[<-|[<-|[]]]]]]]]];
    try (apply pmap_inv in Hp; destruct Hp as (u & _ & Hu); discriminate Hu).
  - apply terminated_inv in Hp. destruct Hp as (r1 & u & Hp & Hw).
    apply word_end_inv in Hw. destruct Hw as [-> Hw]. split; [exact Hw|].
    apply alt_inv in Hp. destruct Hp as (q & Hin & Hq). cbn [In] in Hin.
    destruct Hin as [<-|[<-|[<-|[]]]]; apply pmap_inv in Hq; destruct Hq as (x & Hq & E);
      inversion E; subst l.
    + exact (parse_test_sound i x r1 Hq).
    + exact (parse_action_sound i x r1 Hq).
    + exact (parse_global_sound i x r1 Hq).
  - apply context_inv in Hp. discriminate Hp.
Qed.

(** an operator: one of the eight operator words; -a -and -o -or take the following blanks *)
Definition op_follow (o : opword) (g r : str) : Prop :=
  if single_char o then g = [] else (g = [] /\ r = []) \/ (gap g /\ stops is_space r).

Lemma blank_or_eof_inv i u r :
  blank_or_eof i = (Ok u, r) -> exists g, i = g ++ r /\ ((g = [] /\ r = []) \/ (gap g /\ stops is_space r)).
Proof.
  unfold blank_or_eof. intros H. apply alt_inv in H. destruct H as (p & Hin & Hp). cbn [In] in Hin.
  destruct Hin as [<-|[<-|[]]].
  - apply pmap_inv in Hp. destruct Hp as (g & Hg & _). apply multispace1_inv in Hg.
    destruct Hg as (-> & Hg & Hs). exists g. split; [reflexivity|]. right. split; assumption.
  - unfold eof in Hp. destruct i as [|c i]; [|discriminate Hp]. inversion Hp; subst r.
    exists []. split; [reflexivity|]. left. split; reflexivity.
Qed.

Lemma opword_inv (k1 k2 : string) i u r :
  terminated (alt [literal k1; literal k2]) blank_or_eof i = (Ok u, r) ->
  exists k g, (k = k1 \/ k = k2) /\ i = chars k ++ g ++ r /\ ((g = [] /\ r = []) \/ (gap g /\ stops is_space r)).
Proof.
  intros H. apply terminated_inv in H. destruct H as (r1 & u' & H1 & H2).
  apply blank_or_eof_inv in H2. destruct H2 as (g & -> & Hg).
  apply alt_inv in H1. destruct H1 as (p & Hin & Hp). cbn [In] in Hin.
  destruct Hin as [<-|[<-|[]]]; apply literal_inv in Hp.
  - exists k1, g. split; [left; reflexivity|]. split; assumption.
  - exists k2, g. split; [right; reflexivity|]. split; assumption.
Qed.

Theorem token_operator_sound i t r :
  parse_token i = (Ok t, r) -> (forall l, t <> KPrim l) ->
  exists o g, t = op_token o /\ i = op_text o ++ g ++ r /\ op_follow o g r.
Proof.
  intros H Hnp. unfold parse_token in H. apply context_inv, alt_inv in H. destruct H as (p & Hin & Hp).
  cbn [In] in Hin.
  destruct Hin as [<-|[<-|[<-|[<-|[<-|[<-|[<-|[<-|[]]]]]]]]].
  - apply pmap_inv in Hp. destruct Hp as (u & Hp & ->). apply literal_inv in Hp.
    exists OLParen, []. repeat split. exact Hp.
  - apply pmap_inv in Hp. destruct Hp as (u & Hp & ->). apply literal_inv in Hp.
    exists ORParen, []. repeat split. exact Hp.
  - apply pmap_inv in Hp. destruct Hp as (u & Hp & ->). apply literal_inv in Hp.
    exists ONot, []. repeat split. exact Hp.
  - apply pmap_inv in Hp. destruct Hp as (u & Hp & ->). apply literal_inv in Hp.
    exists OComma, []. repeat split. exact Hp.
  - apply pmap_inv in Hp. destruct Hp as (u & Hp & ->). apply opword_inv in Hp.
    destruct Hp as (k & g & [-> | ->] & -> & Hg).
    + exists OOrOr, g. repeat split. exact Hg.
    + exists OOrO, g. repeat split. exact Hg.
  - apply pmap_inv in Hp. destruct Hp as (u & Hp & ->). apply opword_inv in Hp.
    destruct Hp as (k & g & [-> | ->] & -> & Hg).
    + exists OAndAnd, g. repeat split. exact Hg.
    + exists OAndA, g. repeat split. exact Hg.
  - exfalso. apply terminated_inv in Hp. destruct Hp as (r1 & u & Hp & _).
    apply alt_inv in Hp. destruct Hp as (q & Hin & Hq). cbn [In] in Hin.
    destruct Hin as [<-|[<-|[<-|[]]]]; apply pmap_inv in Hq; destruct Hq as (x & _ & ->);
      eapply Hnp; reflexivity.
  - apply context_inv in Hp. discriminate Hp.
Qed.
