(** How [parse_token] dispatches on the keyword at the start of its input: exact equations for
    the primaries built with unary!/binary!, and the failure of every alternative when no
    keyword stands there. *)
From Coq Require Import List String NArith Bool Arith Lia.
From FP Require Import Model.Chars Model.Winnow Model.Ast Model.Args Model.Perm Model.Format Model.Lex.
From FP Require Import Spec.Messages Proofs.WinnowFacts Proofs.WinnowTotal.
Import ListNotations.
Local Open Scope N_scope.

(** * blanks and word ends as booleans *)
Lemma multispace1_eq r :
  multispace1 r = if head_in is_space r then (Ok (fst (span is_space r)), skip_blanks r) else (Back [], r).
Proof.
  unfold multispace1, take_while, skip_blanks, head_in. destruct r as [|c r]; [reflexivity|].
  cbn [span]. destruct (is_space c); [|reflexivity]. destruct (span is_space r) as [a b]. reflexivity.
Qed.

Lemma multispace0_eq r : multispace0 r = (Ok (fst (span is_space r)), skip_blanks r).
Proof.
  unfold multispace0, take_while, skip_blanks. destruct (span is_space r) as [a b]. reflexivity.
Qed.

Lemma word_end_eq r : word_end r = (if at_word_end r then Ok tt else Back [], r).
Proof.
  unfold word_end, peek. f_equal. destruct r as [|c r]; [reflexivity|].
  cbn [at_word_end]. rewrite !alt_cons2, alt_one. unfold value, pmap. rewrite multispace1_eq.
  cbn [head_in eof one_of]. destruct (is_space c); [reflexivity|]. cbn [orb fst].
  destruct (in_str "()!," c); reflexivity.
Qed.

Lemma blank_or_eof_eq r :
  blank_or_eof r = if at_blank_or_end r then (Ok tt, skip_blanks r) else (Back [], r).
Proof.
  unfold blank_or_eof. rewrite alt_cons2, alt_one. unfold value, pmap. rewrite multispace1_eq.
  destruct r as [|c r]; [reflexivity|]. cbn [head_in at_blank_or_end eof].
  destruct (is_space c); reflexivity.
Qed.

Lemma skip_blanks_idem r : skip_blanks (skip_blanks r) = skip_blanks r.
Proof.
  unfold skip_blanks. induction r as [|c r IH]; [reflexivity|].
  cbn [span]. destruct (is_space c) eqn:E.
  - destruct (span is_space r) as [a b]. cbn [snd] in *. exact IH.
  - cbn [snd span]. rewrite E. reflexivity.
Qed.

Lemma skip_blanks_head r : head_in is_space (skip_blanks r) = false.
Proof.
  unfold skip_blanks. induction r as [|c r IH]; [reflexivity|].
  cbn [span]. destruct (is_space c) eqn:E.
  - destruct (span is_space r) as [a b]. cbn [snd] in *. exact IH.
  - cbn [snd head_in]. exact E.
Qed.

Lemma skip_blanks_none r : head_in is_space r = false -> skip_blanks r = r.
Proof.
  unfold skip_blanks. destruct r as [|c r]; [reflexivity|]. cbn [head_in span]. intros E. rewrite E. reflexivity.
Qed.

(** * outcome plumbing *)
Definition on_err {A B} (ok : A -> str -> out B * str) (cx : list ctx) (x : out A * str) : out B * str :=
  match x with
  | (Ok a, r) => ok a r
  | (Back c, r) | (Cut c, r) => (Cut (c ++ cx), r)
  | (Panic s, r) => (Panic s, r)
  end.

Definition not_back {A} (x : out A * str) : Prop :=
  match x with (Back _, _) => False | _ => True end.

(** * the three shapes of a keyword alternative *)
Section Shapes.
Context {A B : Type}.

Lemma unary_miss id (f : A -> B) p i :
  lit_ (chars id) i = None -> unary id f p i = (Back [Label id], i).
Proof.
  intros H. unfold unary, pmap, context, preceded, terminated, bind, literal, pmap. rewrite H. reflexivity.
Qed.
Lemma unary_nwe id (f : A -> B) p i r :
  lit_ (chars id) i = Some r -> at_word_end r = false -> unary id f p i = (Back [Label id], r).
Proof.
  intros H E. unfold unary, pmap, context, preceded, terminated, bind, literal, pmap. rewrite H. cbv beta iota.
  rewrite word_end_eq, E. cbv beta iota. reflexivity.
Qed.
Lemma unary_hit id (f : A -> B) p i r :
  lit_ (chars id) i = Some r -> at_word_end r = true ->
  unary id f p i =
    if head_in is_space r
    then on_err (fun a r2 => (Ok (f a), r2)) [Label id] (p (skip_blanks r))
    else (Cut [Label id], r).
Proof.
  intros H E. unfold unary, pmap, context, preceded, terminated, bind, literal, pmap. rewrite H. cbv beta iota.
  rewrite word_end_eq, E. cbv beta iota. unfold cut_err. rewrite multispace1_eq.
  destruct (head_in is_space r); [|reflexivity].
  unfold on_err. destruct (p (skip_blanks r)) as [[a|c|c|s] r2]; reflexivity.
Qed.
End Shapes.

Section Binary.
Context {A B C : Type}.
Lemma binary_miss id (f : A * B -> C) pl pr args i :
  lit_ (chars id) i = None -> binary id f pl pr args i = (Back [Label id], i).
Proof.
  intros H. unfold binary, pmap, context, preceded, terminated, bind, literal, pmap. rewrite H. reflexivity.
Qed.
Lemma binary_nwe id (f : A * B -> C) pl pr args i r :
  lit_ (chars id) i = Some r -> at_word_end r = false ->
  binary id f pl pr args i = (Back [Label id], r).
Proof.
  intros H E. unfold binary, pmap, context, preceded, terminated, bind, literal, pmap. rewrite H. cbv beta iota.
  rewrite word_end_eq, E. cbv beta iota. reflexivity.
Qed.
Lemma binary_hit id (f : A * B -> C) pl pr args i r :
  lit_ (chars id) i = Some r -> at_word_end r = true ->
  binary id f pl pr args i =
    let cx := [Expected args; Label id] in
    if head_in is_space r
    then on_err (fun a r2 =>
                   if head_in is_space r2
                   then on_err (fun b r3 => (Ok (f (a, b)), r3)) cx (pr (skip_blanks r2))
                   else (Cut cx, r2))
                cx (pl (skip_blanks r))
    else (Cut cx, r).
Proof.
  intros H E. unfold binary, pmap, context, preceded, terminated, bind, literal, pmap. rewrite H. cbv beta iota.
  rewrite word_end_eq, E. cbv beta iota. unfold cut_err, separated_pair, preceded, bind, pmap. rewrite multispace1_eq.
  cbv zeta. destruct (head_in is_space r); [|reflexivity].
  unfold on_err. destruct (pl (skip_blanks r)) as [[a|c|c|s] r2]; try rewrite <- app_assoc; try reflexivity.
  rewrite multispace1_eq. destruct (head_in is_space r2); [|reflexivity].
  destruct (pr (skip_blanks r2)) as [[b|c|c|s] r3]; try rewrite <- app_assoc; reflexivity.
Qed.
End Binary.

(** * keyword alternatives in general *)
(** [kwp id q]: the alternative [q] starts by matching the keyword [id]; when the keyword is not
    there it backtracks without moving, and when the keyword is there but not as a whole word it
    backtracks or (for a bare literal) succeeds right after the keyword *)
Definition kwp {A} (id : string) (q : sparser A) : Prop :=
  forall i, match lit_ (chars id) i with
            | None => exists c, q i = (Back c, i)
            | Some r => at_word_end r = false ->
                        (exists c, q i = (Back c, r)) \/ (exists a, q i = (Ok a, r))
            end.

Lemma kwp_unary {A B} id (f : A -> B) p : kwp id (unary id f p).
Proof.
  intros i. destruct (lit_ (chars id) i) as [r|] eqn:E.
  - intros Hw. left. eexists. apply (unary_nwe id f p i r E Hw).
  - eexists. apply (unary_miss id f p i E).
Qed.
Lemma kwp_binary {A B C} id (f : A * B -> C) pl pr args : kwp id (binary id f pl pr args).
Proof.
  intros i. destruct (lit_ (chars id) i) as [r|] eqn:E.
  - intros Hw. left. eexists. apply (binary_nwe id f pl pr args i r E Hw).
  - eexists. apply (binary_miss id f pl pr args i E).
Qed.
Lemma kwp_value {A} id (a : A) : kwp id (value a (literal id)).
Proof.
  intros i. rewrite value_literal. destruct (lit_ (chars id) i) as [r|] eqn:E.
  - intros _. right. eexists. reflexivity.
  - eexists. reflexivity.
Qed.

(** what [parse_token] wraps around each group of primaries *)
Definition lift {X} (lbl : string) (wrap : X -> token) (q : sparser X) : sparser token :=
  pmap wrap (context (label lbl) q).

Lemma kwp_lift {X} lbl (wrap : X -> token) id q : kwp id q -> kwp id (lift lbl wrap q).
Proof.
  intros H i. specialize (H i). unfold lift, pmap, context.
  destruct (lit_ (chars id) i) as [r|].
  - intros Hw. destruct (H Hw) as [[c Hc]|[a Ha]].
    + left. rewrite Hc. eexists. reflexivity.
    + right. rewrite Ha. eexists. reflexivity.
  - destruct H as [c Hc]. rewrite Hc. eexists. reflexivity.
Qed.

(** * [alt] over nested and wrapped lists *)
Lemma alt_ext {A} (ps qs : list (sparser A)) i :
  Forall2 (fun p q => p i = q i) ps qs -> alt ps i = alt qs i.
Proof.
  intros H. induction H as [|p q ps qs Hpq Hrest IH]; [reflexivity|].
  etransitivity; [apply alt_cons|]. symmetry. etransitivity; [apply alt_cons|]. symmetry.
  rewrite Hpq. destruct (q i) as [[a|c|c|s] r]; try reflexivity.
  destruct Hrest; [reflexivity|exact IH].
Qed.

Lemma alt_lift {X} lbl (wrap : X -> token) (l : list (sparser X)) i :
  l <> [] -> lift lbl wrap (alt l) i = alt (map (lift lbl wrap) l) i.
Proof.
  induction l as [|p l IH]; intros Hne; [contradiction|].
  destruct l as [|q l].
  - reflexivity.
  - cbn [map]. rewrite alt_cons2. unfold lift at 1, pmap at 1, context at 1. rewrite alt_cons2.
    unfold lift at 1, pmap at 1, context at 1.
    destruct (p i) as [[a|c|c|s] r]; try reflexivity.
    apply IH. discriminate.
Qed.

Lemma alt_flatten {A} (l1 ps : list (sparser A)) i :
  ps <> [] -> alt (alt l1 :: ps) i = alt (l1 ++ ps) i.
Proof.
  intros Hne. destruct ps as [|q l]; [contradiction|]. clear Hne.
  induction l1 as [|p l1 IH].
  - reflexivity.
  - destruct l1 as [|p' l1].
    + reflexivity.
    + cbn [app]. rewrite alt_cons2. rewrite (alt_cons2 p). rewrite (alt_cons2 p).
      destruct (p i) as [[a|c|c|s] r]; try reflexivity.
      transitivity (alt (alt (p' :: l1) :: q :: l) i); [rewrite alt_cons2; reflexivity|exact IH].
Qed.

Lemma alt_cons_ne {A} (p : sparser A) ps i :
  ps <> [] -> alt (p :: ps) i = match p i with (Back _, _) => alt ps i | x => x end.
Proof. intros H. destruct ps as [|q l]; [contradiction|]. reflexivity. Qed.

Lemma alt_app_cong {A} (l X Y : list (sparser A)) i :
  X <> [] -> Y <> [] -> alt X i = alt Y i -> alt (l ++ X) i = alt (l ++ Y) i.
Proof.
  intros HX HY H. induction l as [|p l IH]; [exact H|].
  cbn [app]. rewrite !alt_cons_ne.
  - rewrite IH. reflexivity.
  - destruct l; [exact HY|discriminate].
  - destruct l; [exact HX|discriminate].
Qed.

Lemma alt_concat {A} (ls : list (list (sparser A))) i :
  Forall (fun l => l <> []) ls -> alt (map alt ls) i = alt (List.concat ls) i.
Proof.
  intros H. induction H as [|l ls Hl Hls IH]; [reflexivity|].
  cbn [map List.concat]. destruct ls as [|l' ls].
  - cbn [map List.concat]. rewrite app_nil_r. reflexivity.
  - rewrite alt_flatten by discriminate. apply alt_app_cong.
    + discriminate.
    + inversion Hls as [|x y Hl' Hy]; subst. cbn [List.concat]. destruct l'; [contradiction|discriminate].
    + exact IH.
Qed.

Lemma lift_ext {X} lbl (wrap : X -> token) (p q : sparser X) i :
  p i = q i -> lift lbl wrap p i = lift lbl wrap q i.
Proof. intros H. unfold lift, pmap, context. rewrite H. reflexivity. Qed.

(** * tables of keyword alternatives *)
Definition misses (i : str) (id : string) : bool :=
  match lit_ (chars id) i with None => true | Some _ => false end.

Section Table.
Context {A : Type}.
Definition table := list (string * sparser A).
Definition table_ok (tbl : table) : Prop := Forall (fun e => kwp (fst e) (snd e)) tbl.

(** the alternatives before the [n]-th do not even match their keyword: the [n]-th decides *)
Lemma alt_dispatch (tbl : table) i : table_ok tbl ->
  forall n e, nth_error tbl n = Some e ->
  forallb (misses i) (firstn n (map fst tbl)) = true ->
  not_back (snd e i) -> alt (map snd tbl) i = snd e i.
Proof.
  intros Hok. induction Hok as [|e0 t He0 Ht IH]; intros n e Hn Hm Hnb.
  - destruct n; discriminate.
  - destruct n as [|n]; cbn [nth_error] in Hn.
    + inversion Hn; subst e0. cbn [map]. rewrite alt_cons.
      destruct (snd e i) as [[a|c|c|s] r]; try reflexivity. destruct Hnb.
    + cbn [map firstn forallb] in Hm. apply andb_true_iff in Hm as [Hm0 Hm].
      cbn [map]. rewrite alt_cons. specialize (He0 i). unfold misses in Hm0.
      destruct (lit_ (chars (fst e0)) i); [discriminate|]. destruct He0 as [c Hc]. rewrite Hc.
      destruct t as [|e1 t]; [destruct n; discriminate|]. cbn [map]. exact (IH n e Hn Hm Hnb).
Qed.

(** no keyword of the table stands at the start as a whole word: every alternative fails, or a
    bare literal succeeds in the middle of a word *)
Lemma alt_all_fail (tbl : table) i : table_ok tbl ->
  (forall e, In e tbl -> primary_at i (fst e) = false) ->
  (exists c r, alt (map snd tbl) i = (Back c, r))
  \/ (exists a r, alt (map snd tbl) i = (Ok a, r) /\ at_word_end r = false).
Proof.
  intros Hok. induction Hok as [|e0 t He0 Ht IH]; intros Hall.
  - left. eexists _, _. reflexivity.
  - cbn [map]. rewrite alt_cons. specialize (He0 i).
    pose proof (Hall e0 (or_introl eq_refl)) as H0. unfold primary_at, after_keyword in H0.
    assert (Hrest : forall e, In e t -> primary_at i (fst e) = false).
    { intros e He. apply Hall. right. exact He. }
    specialize (IH Hrest).
    destruct (lit_ (chars (fst e0)) i) as [r|].
    + destruct (He0 H0) as [[c Hc]|[a Ha]].
      * rewrite Hc. destruct t as [|e1 t]; [left; eexists _, _; reflexivity|exact IH].
      * rewrite Ha. right. eexists _, _. split; [reflexivity|exact H0].
    + destruct He0 as [c Hc]. rewrite Hc.
      destruct t as [|e1 t]; [left; eexists _, _; reflexivity|exact IH].
Qed.
End Table.

(** * the tables of [parse_test], [parse_action], [parse_global] *)
Definition test_table_a : @table test :=
  [ ("-amin", unary "-amin" TAccessTime (parse_cmp (parse_time UMinute)));
    ("-anewer", unary "-anewer" TAccessNewer parse_string);
    ("-atime", unary "-atime" TAccessTime (parse_cmp (parse_time UDay)));
    ("-cmin", unary "-cmin" TChangeTime (parse_cmp (parse_time UMinute)));
    ("-cnewer", unary "-cnewer" TChangeNewer parse_string);
    ("-ctime", unary "-ctime" TChangeTime (parse_cmp (parse_time UDay)));
    ("-empty", value TEmpty (literal "-empty"));
    ("-executable", value TExecutable (literal "-executable"));
    ("-false", value TFalse (literal "-false"));
    ("-fstype", unary "-fstype" TFsType parse_string);
    ("-gid", unary "-gid" TGroupId (parse_cmp parse_u32));
    ("-group", unary "-group" TGroup parse_string);
    ("-ilname", unary "-ilname" TInsensitiveLinkName parse_string);
    ("-iname", unary "-iname" TInsensitiveName parse_string);
    ("-inum", unary "-inum" TInodeNumber (parse_cmp parse_u32));
    ("-ipath", unary "-ipath" TInsensitivePath parse_string);
    ("-iregex", unary "-iregex" TInsensitiveRegex parse_string);
    ("-links", unary "-links" TLinks (parse_cmp parse_u64));
    ("-mirror-count", unary "-mirror-count" TMirrorCount (parse_cmp parse_u32));
    ("-mmin", unary "-mmin" TModifyTime (parse_cmp (parse_time UMinute)));
    ("-mnewer", unary "-mnewer" TModifyNewer parse_string) ]%string.
Definition test_table_b : @table test :=
  [ ("-mtime", unary "-mtime" TModifyTime (parse_cmp (parse_time UDay)));
    ("-name", unary "-name" TName parse_string);
    ("-nouser", value TNoUser (literal "-nouser"));
    ("-nogroup", value TNoGroup (literal "-nogroup"));
    ("-path", unary "-path" TPath parse_string);
    ("-perm", unary "-perm" (fun '(k, b) => TPerm k b) parse_perm_arg);
    ("-pool", unary "-pool" TPool parse_string);
    ("-readable", value TReadable (literal "-readable"));
    ("-regex", unary "-regex" TRegex parse_string);
    ("-samefile", unary "-samefile" TSamefile parse_string);
    ("-size", unary "-size" TSize (parse_cmp parse_size));
    ("-stripe-count", unary "-stripe-count" TStripeCount (parse_cmp parse_u32));
    ("-true", value TTrue (literal "-true"));
    ("-type", unary "-type" TType parse_filetypes);
    ("-uid", unary "-uid" TUserId (parse_cmp parse_u32));
    ("-user", unary "-user" TUser parse_string);
    ("-xattr-match", binary "-xattr-match" (fun '(f, v) => TXattrMatch f v)
                        (context (expected "attribute") parse_string)
                        (context (expected "value") parse_string)
                        "attribute_and_value");
    ("-xattr", unary "-xattr" TXattr parse_string);
    ("-writable", value TWritable (literal "-writable")) ]%string.
Definition action_table : @table action :=
  [ ("-fls", unary "-fls" AFileList parse_string);
    ("-fprintf", binary "-fprintf" (fun '(f, t) => AFilePrintFormatted f t)
                  (context (expected "filename") parse_string)
                  (context (expected "format_string") parse_format_arg)
                  "filename_and_format");
    ("-fprint0", unary "-fprint0" AFilePrintNull parse_string);
    ("-fprint", unary "-fprint" AFilePrint parse_string);
    ("-ls", value AList (literal "-ls"));
    ("-print-file-fid", value APrintFid (literal "-print-file-fid"));
    ("-printf", unary "-printf" APrintFormatted parse_format_arg);
    ("-print0", value APrintNull (literal "-print0"));
    ("-print", value APrint (literal "-print"));
    ("-prune", value APrune (literal "-prune"));
    ("-quit", value AQuit (literal "-quit")) ]%string.
Definition global_table : @table gopt :=
  [ ("-depth", value GDepth (literal "-depth"));
    ("-maxdepth", unary "-maxdepth" GMaxDepth unsupported_u32);
    ("-mindepth", unary "-mindepth" GMinDepth unsupported_u32);
    ("-threads", unary "-threads" GThreads parse_u32) ]%string.

Lemma parse_test_table :
  parse_test = context (label "test") (alt [alt (map snd test_table_a); alt (map snd test_table_b)]).
Proof. reflexivity. Qed.
Lemma parse_action_table : parse_action = context (label "action") (alt (map snd action_table)).
Proof. reflexivity. Qed.
Lemma parse_global_table : parse_global = context (label "global_option") (alt (map snd global_table)).
Proof. reflexivity. Qed.

Ltac table_ok_solve :=
  repeat (constructor;
          [ cbn [fst snd]; first [apply kwp_unary | apply kwp_binary | apply kwp_value] | ]);
  constructor.

Lemma test_table_a_ok : table_ok test_table_a. Proof. unfold test_table_a. table_ok_solve. Qed.
Lemma test_table_b_ok : table_ok test_table_b. Proof. unfold test_table_b. table_ok_solve. Qed.
Lemma action_table_ok : table_ok action_table. Proof. unfold action_table. table_ok_solve. Qed.
Lemma global_table_ok : table_ok global_table. Proof. unfold global_table. table_ok_solve. Qed.

(** the primaries as one flat list of alternatives producing tokens *)
Definition wt (t : test) : token := KPrim (LTest t).
Definition wa (a : action) : token := KPrim (LAction a).
Definition wg (g : gopt) : token := KPrim (LGlobal g).
Definition lift_table {X} lbl (wrap : X -> token) (tbl : @table X) : @table token :=
  map (fun e => (fst e, lift lbl wrap (snd e))) tbl.
Definition all_table : @table token :=
  lift_table "test" wt (test_table_a ++ test_table_b)
  ++ lift_table "action" wa action_table ++ lift_table "global_option" wg global_table.

Definition prims_alt : sparser token :=
  alt [ pmap (fun t => KPrim (LTest t)) parse_test;
        pmap (fun a => KPrim (LAction a)) parse_action;
        pmap (fun g => KPrim (LGlobal g)) parse_global ].

Lemma lift_table_snd {X} lbl (wrap : X -> token) tbl :
  map snd (lift_table lbl wrap tbl) = map (lift lbl wrap) (map snd tbl).
Proof. unfold lift_table. rewrite !map_map. reflexivity. Qed.
Lemma lift_table_fst {X} lbl (wrap : X -> token) tbl :
  map fst (lift_table lbl wrap tbl) = map fst tbl.
Proof. unfold lift_table. rewrite !map_map. reflexivity. Qed.
Lemma lift_table_ok {X} lbl (wrap : X -> token) tbl : table_ok tbl -> table_ok (lift_table lbl wrap tbl).
Proof.
  intros H. induction H as [|e t He Ht IH]; [constructor|].
  constructor; [cbn [fst snd]; apply kwp_lift; exact He|exact IH].
Qed.

Lemma all_table_ok : table_ok all_table.
Proof.
  unfold all_table, table_ok. rewrite !Forall_app. repeat split.
  - apply lift_table_ok. unfold table_ok. rewrite Forall_app. split; [apply test_table_a_ok|apply test_table_b_ok].
  - apply lift_table_ok, action_table_ok.
  - apply lift_table_ok, global_table_ok.
Qed.

Lemma prims_alt_flat i : prims_alt i = alt (map snd all_table) i.
Proof.
  unfold all_table. rewrite !map_app, !lift_table_snd, map_app.
  transitivity (alt (map alt [map (lift "test" wt) (map snd test_table_a ++ map snd test_table_b);
                              map (lift "action" wa) (map snd action_table);
                              map (lift "global_option" wg) (map snd global_table)]) i).
  - unfold prims_alt. rewrite parse_test_table, parse_action_table, parse_global_table.
    cbn [map]. apply alt_ext. repeat constructor.
    + rewrite <- alt_lift by discriminate. apply lift_ext.
      etransitivity;
        [apply (alt_concat [map snd test_table_a; map snd test_table_b] i); repeat constructor; discriminate|].
      cbn [List.concat]. rewrite app_nil_r. reflexivity.
    + rewrite <- alt_lift by discriminate. reflexivity.
    + rewrite <- alt_lift by discriminate. reflexivity.
  - rewrite alt_concat by (repeat constructor; discriminate).
    cbn [List.concat]. rewrite app_nil_r, !map_app. reflexivity.
Qed.

(** * [parse_token] when no operator stands at the start *)
Definition no_operator (i : str) : bool :=
  match i with [] => true | c :: _ => negb (in_str "()!," c) end
  && negb (existsb (operator_at i) operator_words).

Lemma value_lit1_back {A} (a : A) k c0 i :
  chars k = [c0] -> head_in (N.eqb c0) i = false -> value a (literal k) i = (Back [], i).
Proof.
  intros Hk Hi. rewrite value_literal, Hk. destruct i as [|c i]; [reflexivity|].
  cbn [head_in] in Hi. cbn [lit_]. rewrite Hi. reflexivity.
Qed.

Lemma op_back {A} (a : A) k1 k2 i :
  operator_at i k1 = false -> operator_at i k2 = false ->
  exists c r, value a (terminated (alt [literal k1; literal k2]) blank_or_eof) i = (Back c, r).
Proof.
  unfold operator_at, after_keyword. intros H1 H2.
  unfold value, pmap, terminated, bind, pmap. rewrite alt_cons2, alt_one. unfold literal.
  destruct (lit_ (chars k1) i) as [r1|]; cbv beta iota.
  - rewrite blank_or_eof_eq, H1. eexists _, _. reflexivity.
  - destruct (lit_ (chars k2) i) as [r2|]; cbv beta iota.
    + rewrite blank_or_eof_eq, H2. eexists _, _. reflexivity.
    + eexists _, _. reflexivity.
Qed.

Definition invalid_token_error : list ctx := [Expected "invalid_token"; Label "syntax"].

Lemma parse_token_prims i : no_operator i = true ->
  parse_token i =
    match prims_alt i with
    | (Ok t, r) => if at_word_end r then (Ok t, r) else (Back invalid_token_error, i)
    | (Back _, _) => (Back invalid_token_error, i)
    | (Cut c, r) => (Cut (c ++ [Label "syntax"]), r)
    | (Panic s, r) => (Panic s, r)
    end.
Proof.
  unfold no_operator. intros H. apply andb_true_iff in H as [Hc Hop].
  apply negb_true_iff in Hop. cbn [existsb operator_words] in Hop.
  apply orb_false_iff in Hop as [Hor Hop]. apply orb_false_iff in Hop as [Ho Hop].
  apply orb_false_iff in Hop as [Hand Hop]. apply orb_false_iff in Hop as [Ha _].
  assert (Hh : forall c0, in_str "()!," c0 = true -> head_in (N.eqb c0) i = false).
  { intros c0 Hc0. destruct i as [|c i]; [reflexivity|]. cbn [head_in].
    apply negb_true_iff in Hc. destruct (N.eqb_spec c0 c) as [E|E]; [|reflexivity]. subst c.
    rewrite Hc0 in Hc. discriminate. }
  unfold parse_token, context at 1.
  rewrite alt_cons2, (value_lit1_back KLParen "(" 40 i eq_refl (Hh 40 eq_refl)).
  rewrite alt_cons2, (value_lit1_back KRParen ")" 41 i eq_refl (Hh 41 eq_refl)).
  rewrite alt_cons2, (value_lit1_back KNot "!" 33 i eq_refl (Hh 33 eq_refl)).
  rewrite alt_cons2, (value_lit1_back KComma "," 44 i eq_refl (Hh 44 eq_refl)).
  destruct (op_back KOr "-or" "-o" i Hor Ho) as (c1 & r1 & E1). rewrite alt_cons2, E1.
  destruct (op_back KAnd "-and" "-a" i Hand Ha) as (c2 & r2 & E2). rewrite alt_cons2, E2.
  rewrite alt_cons2, alt_one. fold prims_alt. unfold terminated, bind, pmap.
  destruct (prims_alt i) as [[t|c|c|s] r]; try reflexivity.
  rewrite word_end_eq. destruct (at_word_end r); reflexivity.
Qed.

(** * the equation of a unary! primary *)
Theorem token_unary n K L X (w : X -> token) A (f : A -> X) (p : sparser A) rest :
  nth_error all_table n = Some (K, lift L w (unary K f p)) ->
  forallb (misses (chars K ++ rest)) (firstn n (map fst all_table)) = true ->
  no_operator (chars K ++ rest) = true -> at_word_end rest = true ->
  parse_token (chars K ++ rest) =
    if head_in is_space rest
    then on_err (fun a r2 => if at_word_end r2 then (Ok (w (f a)), r2)
                             else (Back invalid_token_error, chars K ++ rest))
                [Label K; Label L; Label "syntax"] (p (skip_blanks rest))
    else (Cut [Label K; Label L; Label "syntax"], rest).
Proof.
  intros Hn Hm Hop Hwe. rewrite (parse_token_prims _ Hop), prims_alt_flat.
  assert (Hu := unary_hit K f p (chars K ++ rest) rest (lit_app _ _) Hwe).
  assert (Hl : lift L w (unary K f p) (chars K ++ rest) =
               if head_in is_space rest
               then on_err (fun a r2 => (Ok (w (f a)), r2)) [Label K; Label L] (p (skip_blanks rest))
               else (Cut [Label K; Label L], rest)).
  { unfold lift, pmap, context. rewrite Hu. destruct (head_in is_space rest); [|reflexivity].
    unfold on_err. destruct (p (skip_blanks rest)) as [[a|c|c|s] r2]; try rewrite <- app_assoc; reflexivity. }
  rewrite (alt_dispatch all_table _ all_table_ok n _ Hn Hm); cbn [snd]; rewrite Hl.
  - destruct (head_in is_space rest); [|reflexivity].
    unfold on_err. destruct (p (skip_blanks rest)) as [[a|c|c|s] r2]; try rewrite <- app_assoc; reflexivity.
  - destruct (head_in is_space rest); [|exact I].
    unfold on_err. destruct (p (skip_blanks rest)) as [[a|c|c|s] r2]; exact I.
Qed.

Theorem token_binary n K L X (w : X -> token) A B (f : A * B -> X) (pl : sparser A) (pr : sparser B)
  args rest :
  nth_error all_table n = Some (K, lift L w (binary K f pl pr args)) ->
  forallb (misses (chars K ++ rest)) (firstn n (map fst all_table)) = true ->
  no_operator (chars K ++ rest) = true -> at_word_end rest = true ->
  parse_token (chars K ++ rest) =
    let cx := [Expected args; Label K; Label L; Label "syntax"] in
    if head_in is_space rest
    then on_err (fun a r2 =>
                   if head_in is_space r2
                   then on_err (fun b r3 => if at_word_end r3 then (Ok (w (f (a, b))), r3)
                                            else (Back invalid_token_error, chars K ++ rest))
                               cx (pr (skip_blanks r2))
                   else (Cut cx, r2))
                cx (pl (skip_blanks rest))
    else (Cut cx, rest).
Proof.
  intros Hn Hm Hop Hwe. rewrite (parse_token_prims _ Hop), prims_alt_flat.
  assert (Hu := binary_hit K f pl pr args (chars K ++ rest) rest (lit_app _ _) Hwe).
  cbv zeta in *.
  assert (Hl : lift L w (binary K f pl pr args) (chars K ++ rest) =
               let cx := [Expected args; Label K; Label L] in
               if head_in is_space rest
               then on_err (fun a r2 =>
                              if head_in is_space r2
                              then on_err (fun b r3 => (Ok (w (f (a, b))), r3)) cx (pr (skip_blanks r2))
                              else (Cut cx, r2))
                           cx (pl (skip_blanks rest))
               else (Cut cx, rest)).
  { unfold lift, pmap, context. rewrite Hu. cbv zeta. destruct (head_in is_space rest); [|reflexivity].
    unfold on_err. destruct (pl (skip_blanks rest)) as [[a|c|c|s] r2]; try rewrite <- app_assoc; try reflexivity.
    destruct (head_in is_space r2); [|reflexivity].
    destruct (pr (skip_blanks r2)) as [[b|c|c|s] r3]; try rewrite <- app_assoc; reflexivity. }
  cbv zeta in Hl.
  rewrite (alt_dispatch all_table _ all_table_ok n _ Hn Hm); cbn [snd]; rewrite Hl.
  - destruct (head_in is_space rest); [|reflexivity].
    unfold on_err. destruct (pl (skip_blanks rest)) as [[a|c|c|s] r2]; try rewrite <- app_assoc; try reflexivity.
    destruct (head_in is_space r2); [|reflexivity].
    destruct (pr (skip_blanks r2)) as [[b|c|c|s] r3]; try rewrite <- app_assoc; reflexivity.
  - destruct (head_in is_space rest); [|exact I].
    unfold on_err. destruct (pl (skip_blanks rest)) as [[a|c|c|s] r2]; try exact I.
    destruct (head_in is_space r2); [|exact I].
    destruct (pr (skip_blanks r2)) as [[b|c|c|s] r3]; exact I.
Qed.

(** * no keyword at the start: the token parser fails in place *)
Lemma all_table_names : forall e, In e all_table -> In (fst e) primary_keywords.
Proof.
  assert (H : forallb (fun id => existsb (String.eqb id) primary_keywords) (map fst all_table) = true)
    by reflexivity.
  intros e He. rewrite forallb_forall in H. specialize (H (fst e) (in_map fst _ _ He)).
  apply existsb_exists in H as (k & Hk & Ek). apply String.eqb_eq in Ek. subst k. exact Hk.
Qed.

Theorem token_unknown i : unknown_at i = true -> parse_token i = (Back invalid_token_error, i).
Proof.
  unfold unknown_at. intros H. apply andb_true_iff in H as [H Hp].
  assert (Hop : no_operator i = true) by exact H.
  rewrite (parse_token_prims i Hop), prims_alt_flat.
  apply negb_true_iff in Hp.
  assert (Hall : forall e, In e all_table -> primary_at i (fst e) = false).
  { intros e He. apply all_table_names in He.
    destruct (primary_at i (fst e)) eqn:E; [|reflexivity].
    assert (existsb (primary_at i) primary_keywords = true) as Hx
      by (apply existsb_exists; exists (fst e); split; assumption).
    rewrite Hx in Hp. discriminate. }
  destruct (alt_all_fail all_table i all_table_ok Hall) as [(c & r & E)|(a & r & E & Hw)]; rewrite E.
  - reflexivity.
  - rewrite Hw. reflexivity.
Qed.
