(** Global options: the token pass of _parse and what reaches the tree and the scan call. *)
From Coq Require Import List String NArith Bool Arith Lia.
From FP Require Import Model.Chars Model.Winnow Model.Ast Model.Sexp Model.Lex Model.Prec Model.Parse Model.Compile.
From FP Require Import Spec.Grammar Spec.Tree Proofs.PrecIff Proofs.RenderFacts.
Import ListNotations.

Definition detrue (t : token) : token :=
  match t with KPrim (LGlobal _) => KPrim (LTest TTrue) | t => t end.
Fixpoint globals_of (ts : list token) : list gopt :=
  match ts with
  | [] => []
  | KPrim (LGlobal g) :: r => g :: globals_of r
  | _ :: r => globals_of r
  end.
Definition supported_opt (g : gopt) : bool :=
  match g with GDepth | GThreads _ => true | _ => false end.

(** the effect of a run of options, independently of the code: the last -threads wins, -depth
    is sticky *)
Definition last_threads (o : option N) (gs : list gopt) : option N :=
  fold_left (fun acc g => match g with GThreads n => Some n | _ => acc end) gs o.
Definition any_depth (d : bool) (gs : list gopt) : bool :=
  d || existsb (fun g => match g with GDepth => true | _ => false end) gs.

Lemma update_all_spec gs : forall o, forallb supported_opt gs = true ->
  update_all o gs = Some {| opt_depth := any_depth (opt_depth o) gs;
                            opt_threads := last_threads (opt_threads o) gs |}.
Proof.
  induction gs as [|g gs IH]; intros o H; cbn in *.
  - unfold any_depth. cbn. rewrite orb_false_r. now destruct o.
  - apply andb_true_iff in H as [Hg Hs]. destruct g; try discriminate; cbn [update_options].
    + rewrite IH by assumption. cbn. unfold any_depth. cbn. now rewrite orb_true_r.
    + rewrite IH by assumption. cbn. unfold any_depth. cbn. reflexivity.
Qed.

Lemma replace_globals_spec ts : forall o, forallb supported_opt (globals_of ts) = true ->
  replace_globals o ts =
    Some ({| opt_depth := any_depth (opt_depth o) (globals_of ts);
             opt_threads := last_threads (opt_threads o) (globals_of ts) |}, map detrue ts).
Proof.
  induction ts as [|t ts IH]; intros o H.
  - cbn. unfold any_depth. cbn. rewrite orb_false_r. now destruct o.
  - destruct t as [| | | | | |[t|a|g|]]; cbn [replace_globals globals_of map detrue] in *;
      try (rewrite IH by assumption; reflexivity).
    cbn in H. apply andb_true_iff in H as [Hg Hs].
    destruct g; try discriminate; cbn [update_options]; rewrite IH by assumption; cbn;
      unfold any_depth; cbn; rewrite ?orb_true_r; reflexivity.
Qed.

(** leaves of a tree *)
Fixpoint leaves (e : expr) : list expr :=
  match e with
  | EPrec a | ENot a => leaves a
  | EAnd a b | EOr a b | EList a b => leaves a ++ leaves b
  | _ => [e]
  end.
Fixpoint prims (ts : list token) : list expr :=
  match ts with
  | [] => []
  | KPrim l :: r => leaf_expr l :: prims r
  | _ :: r => prims r
  end.
Lemma prims_app a b : prims (a ++ b) = prims a ++ prims b.
Proof.
  induction a as [|t a IH]; [reflexivity|]. destruct t; cbn; rewrite ?IH; reflexivity.
Qed.

Scheme GAtom_mind := Induction for GAtom Sort Prop
  with GAnd_mind := Induction for GAnd Sort Prop
  with GOr_mind := Induction for GOr Sort Prop
  with GList_mind := Induction for GList Sort Prop.
Combined Scheme G_mutind from GAtom_mind, GAnd_mind, GOr_mind, GList_mind.

(** the leaves of the tree are exactly the primaries of the sentence, in order *)
Lemma grammar_leaves :
  (forall ts e, GAtom ts e -> leaves e = prims ts) /\
  (forall ts e, GAnd ts e -> leaves e = prims ts) /\
  (forall ts e, GOr ts e -> leaves e = prims ts) /\
  (forall ts e, GList ts e -> leaves e = prims ts).
Proof.
  apply G_mutind; intros; cbn [leaves prims]; rewrite ?prims_app; cbn [prims];
    rewrite ?app_nil_r; try congruence.
  destruct p; reflexivity.
Qed.

Definition no_global_leaf (e : expr) : bool := match e with EGlobal _ => false | _ => true end.
Definition no_global (e : expr) : Prop := forallb no_global_leaf (leaves e) = true.

Lemma prims_detrue ts : forallb no_global_leaf (prims (map detrue ts)) = true.
Proof.
  induction ts as [|t ts IH]; [reflexivity|].
  destruct t as [| | | | | |[t|a|g|]]; cbn; assumption.
Qed.

Lemma parser_no_global ts e : prec_parser (map detrue ts) = Some e -> no_global e.
Proof.
  intro H. apply parser_iff in H. unfold no_global.
  destruct grammar_leaves as (_ & _ & _ & HL). rewrite (HL _ _ H). apply prims_detrue.
Qed.

Lemma replace_globals_tokens ts : forall o o' ts',
  replace_globals o ts = Some (o', ts') -> ts' = map detrue ts.
Proof.
  induction ts as [|t ts IH]; intros o1 o' tokens' R.
  - cbn in R. now inversion R.
  - destruct t as [| | | | | |[t|a|g|]]; cbn [replace_globals] in R;
      try (destruct (replace_globals o1 ts) as [[o2 r2]|] eqn:R2; [|discriminate];
           inversion R; subst; cbn; f_equal; eapply IH; eassumption).
    destruct (update_options o1 g) as [o2|]; [|discriminate].
    destruct (replace_globals o2 ts) as [[o3 r3]|] eqn:R2; [|discriminate].
    inversion R; subst. cbn. f_equal. eapply IH; eassumption.
Qed.

(** no option ever reaches the tree parse returns *)
Theorem parse_no_global s o e : parse s = ParseOk o e -> no_global e.
Proof.
  unfold parse. destruct (leading_options s) as [[gs| | |] rest]; try (cbn; discriminate).
  destruct (update_all default_options gs) as [o1|]; [|discriminate].
  set (lexed := match rest with [] => (Ok [KPrim (LTest TTrue)], rest) | _ => lex rest end).
  destruct lexed as [[tokens| | |] rest']; try (cbn; discriminate).
  destruct (replace_globals o1 tokens) as [[o' tokens']|] eqn:R; [|discriminate].
  apply replace_globals_tokens in R. subst tokens'.
  destruct (prec_parser (map detrue tokens)) as [e'|] eqn:P; [|discriminate].
  intro H. inversion H; subst. now apply parser_no_global in P.
Qed.

(** the thread count of the options is what the scan call receives *)
Lemma compile_threads e o clk c : compile e o clk = COk c -> c_threads c = opt_threads o.
Proof.
  unfold compile. destruct (compile_expr _ _) as [[body s]|?|?]; try discriminate.
  intro H. inversion H. destruct (st_mgr s); reflexivity.
Qed.

Theorem scan_threads_arg e o clk c p : compile e o clk = COk c ->
  option_map (fun args => nth 4 args (SList [])) (scan_call (erase (snd (render c p))))
  = Some match opt_threads o with
         | Some n => SAtom (print_dec n)
         | None => SList [SAtom (chars "lipe-getopt-thread-count")]
         end.
Proof.
  intro H. rewrite render_snd_erase, scan_call_ctx. cbn. now rewrite (compile_threads _ _ _ _ H).
Qed.

(** trees returned by parse have the shape the compiler accepts: no explicit precedence node
    (the grammar never builds one) and no option node *)
From FP Require Import Spec.Unsupported.
Lemma grammar_shape :
  (forall ts e, GAtom ts e -> forallb no_global_leaf (prims ts) = true -> compilable_shape e = true) /\
  (forall ts e, GAnd ts e -> forallb no_global_leaf (prims ts) = true -> compilable_shape e = true) /\
  (forall ts e, GOr ts e -> forallb no_global_leaf (prims ts) = true -> compilable_shape e = true) /\
  (forall ts e, GList ts e -> forallb no_global_leaf (prims ts) = true -> compilable_shape e = true).
Proof.
  apply G_mutind; intros; cbn [compilable_shape]; auto;
    repeat match goal with
           | H : forallb _ (prims (_ ++ _)) = true |- _ =>
               rewrite prims_app, forallb_app in H; cbn [prims] in H; apply andb_true_iff in H as [? ?]
           end; rewrite ?andb_true_iff; auto.
  - destruct p; cbn in *; try reflexivity. discriminate.
  - apply H. cbn [prims] in H0. rewrite prims_app, forallb_app in H0. cbn in H0.
    rewrite andb_true_r in H0. exact H0.
Qed.

Theorem parse_shape s o e : parse s = ParseOk o e -> compilable_shape e = true.
Proof.
  unfold parse. destruct (leading_options s) as [[gs| | |] rest]; try (cbn; discriminate).
  destruct (update_all default_options gs) as [o1|]; [|discriminate].
  set (lexed := match rest with [] => (Ok [KPrim (LTest TTrue)], rest) | _ => lex rest end).
  destruct lexed as [[tokens| | |] rest']; try (cbn; discriminate).
  destruct (replace_globals o1 tokens) as [[o' tokens']|] eqn:R; [|discriminate].
  apply replace_globals_tokens in R. subst tokens'.
  destruct (prec_parser (map detrue tokens)) as [e'|] eqn:P; [|discriminate].
  intro H. inversion H; subst. apply parser_iff in P.
  destruct grammar_shape as (_ & _ & _ & HS). apply (HS _ _ P). apply prims_detrue.
Qed.
