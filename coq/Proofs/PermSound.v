(** Proofs for C08s: the converse of C08_octal / C08_symbolic (whatever [perm_word] accepts is an
    octal word or a rendered clause list), and the fate of one- and two-digit octal words.
    All statements are for lists of arbitrary length. *)
From Coq Require Import List String NArith Bool Arith Lia ZifyBool ZifyN.
From FP Require Import Model.Chars Model.Winnow Model.Ast Model.Args Model.Perm Spec.Chmod Spec.PermWord.
From FP Require Import Proofs.PermProofs.
Import ListNotations.
Local Open Scope N_scope.

(** * Inversion of the character-level primitives *)
Lemma span_inv p : forall i a b,
  span p i = (a, b) -> i = a ++ b /\ forallb p a = true /\ stops p b.
Proof.
  induction i as [|c i IH]; intros a b H; cbn [span] in H.
  - inversion H; subst. repeat split.
  - destruct (p c) eqn:Ec.
    + destruct (span p i) as [a' b'] eqn:Es. inversion H; subst.
      destruct (IH a' b eq_refl) as (Hi & Ha & Hb). subst i.
      repeat split; [|exact Hb]. cbn [forallb]. rewrite Ec, Ha. reflexivity.
    + inversion H; subst. repeat split. exact Ec.
Qed.

Lemma take_while_inv m p i a r :
  take_while m p i = (Ok a, r) ->
  i = a ++ r /\ forallb p a = true /\ stops p r /\ (m <= List.length a)%nat.
Proof.
  unfold take_while. destruct (span p i) as [a' b'] eqn:Es.
  destruct (Nat.leb m (List.length a')) eqn:El; intros H; [|discriminate H].
  inversion H; subst. destruct (span_inv p i a r Es) as (Hi & Ha & Hr).
  apply Nat.leb_le in El. repeat split; assumption.
Qed.

Lemma literal1_inv c s i u r :
  chars s = [c] -> literal s i = (Ok u, r) -> i = c :: r.
Proof.
  intros Hs. unfold literal. rewrite Hs. destruct i as [|d i]; cbn [lit_]; [discriminate|].
  destruct (N.eqb_spec c d) as [->|Hn]; intros H; [|discriminate H]. inversion H; subst. reflexivity.
Qed.

Lemma forallb_oct_digits ds : forallb is_oct ds = true -> oct_digits ds.
Proof.
  induction ds as [|d ds IH]; intros H; [constructor|].
  cbn [forallb] in H. apply andb_true_iff in H. destruct H as [Hd H].
  constructor; [unfold is_oct in Hd; lia|apply IH, H].
Qed.

(** * Reading characters back as whos / perms / ops *)
Lemma ugoa_inv s : forallb (in_str "ugoa") s = true -> exists ws, s = map who_char ws.
Proof.
  induction s as [|c s IH]; intros H; [exists []; reflexivity|].
  cbn [forallb] in H. apply andb_true_iff in H. destruct H as [Hc H].
  destruct (IH H) as (ws & ->).
  change (in_str "ugoa" c) with ((c =? 117) || ((c =? 103) || ((c =? 111) || ((c =? 97) || false)))) in Hc.
  destruct (N.eqb_spec c 117) as [->|N1]; [exists (Wu :: ws); reflexivity|].
  destruct (N.eqb_spec c 103) as [->|N2]; [exists (Wg :: ws); reflexivity|].
  destruct (N.eqb_spec c 111) as [->|N3]; [exists (Wo :: ws); reflexivity|].
  destruct (N.eqb_spec c 97) as [->|N4]; [exists (Wa :: ws); reflexivity|].
  discriminate Hc.
Qed.

Lemma rwx_inv s : forallb (in_str "rwx") s = true -> exists ps, s = map perm_char ps.
Proof.
  induction s as [|c s IH]; intros H; [exists []; reflexivity|].
  cbn [forallb] in H. apply andb_true_iff in H. destruct H as [Hc H].
  destruct (IH H) as (ps & ->).
  change (in_str "rwx" c) with ((c =? 114) || ((c =? 119) || ((c =? 120) || false))) in Hc.
  destruct (N.eqb_spec c 114) as [->|N1]; [exists (Pr :: ps); reflexivity|].
  destruct (N.eqb_spec c 119) as [->|N2]; [exists (Pw :: ps); reflexivity|].
  destruct (N.eqb_spec c 120) as [->|N3]; [exists (Px :: ps); reflexivity|].
  discriminate Hc.
Qed.

Lemma op_inv : forall c, in_str "+=-" c = true -> exists o, c = op_char o.
Proof.
  intros c Hc.
  change (in_str "+=-" c) with ((c =? 43) || ((c =? 61) || ((c =? 45) || false))) in Hc.
  destruct (N.eqb_spec c 43) as [E1|N1]; [exists OAdd; exact E1|].
  destruct (N.eqb_spec c 61) as [E2|N2]; [exists OSet; exact E2|].
  destruct (N.eqb_spec c 45) as [E3|N3]; [exists ODel; exact E3|].
  discriminate Hc.
Qed.

(** * One clause: whatever [parse_partial] accepts is a rendered clause *)
Lemma parse_partial_inv i pt r :
  parse_partial i = (Ok pt, r) ->
  exists c, i = render_clause c ++ r /\ pt = code_partial c /\ stops (in_str "rwx") r.
Proof.
  unfold parse_partial, bind. intros H.
  destruct (take_while 1 (in_str "ugoa") i) as [[target|e|e|s] r1] eqn:Et; try discriminate H.
  destruct (take_while_inv _ _ _ _ _ Et) as (-> & Htf & _ & Htl).
  unfold cut_err at 1, context at 1, one_of in H.
  destruct r1 as [|oc r2]; [discriminate H|].
  destruct (in_str "+=-" oc) eqn:Eo; [|discriminate H].
  unfold pmap, cut_err, context in H.
  destruct (take_while 1 (in_str "rwx") r2) as [[level|e|e|s] r3] eqn:El; try discriminate H.
  destruct (take_while_inv _ _ _ _ _ El) as (-> & Hlf & Hls & Hll).
  inversion H; subst r3. clear H.
  destruct (ugoa_inv _ Htf) as (ws & ->). destruct (rwx_inv _ Hlf) as (ps & ->).
  destruct (op_inv _ Eo) as (o & ->).
  destruct ws as [|w ws]; [cbn [map List.length] in Htl; lia|].
  destruct ps as [|q ps]; [cbn [map List.length] in Hll; lia|].
  exists (Clause w ws o q ps). split; [|split; [|exact Hls]].
  - unfold render_clause. rewrite <- !app_assoc. reflexivity.
  - rewrite from_symbolic_who, from_symbolic_perm.
    unfold code_partial, clause_W, clause_P, clause_op. destruct o; reflexivity.
Qed.

(** * Clause lists *)
Lemma sep_fuel_inv : forall fuel i l r,
  sep_fuel slen fuel parse_partial (literal ",") i = (Ok l, r) ->
  exists cls, i = tail_render cls ++ r /\ l = map code_partial cls.
Proof.
  induction fuel as [|n IH]; intros i l r H; cbn [sep_fuel] in H; [discriminate H|].
  destruct (literal "," i) as [[u|e|e|s] r1] eqn:Es; try discriminate H.
  - apply (literal1_inv 44 "," i u r1 eq_refl) in Es. subst i.
    destruct (Nat.leb (slen (44 :: r1)) (slen r1)); [discriminate H|].
    destruct (parse_partial r1) as [[a|e|e|s] r2] eqn:Ep; try discriminate H.
    + destruct (parse_partial_inv _ _ _ Ep) as (c & -> & -> & _).
      destruct (sep_fuel slen n parse_partial (literal ",") r2) as [[l'|e|e|s] r'] eqn:Er;
        try discriminate H.
      inversion H; subst. destruct (IH _ _ _ Er) as (cls & -> & ->).
      exists (c :: cls). split; [|reflexivity].
      cbn [tail_render app]. rewrite <- app_assoc. reflexivity.
    + inversion H; subst. exists []. split; reflexivity.
  - inversion H; subst. exists []. split; reflexivity.
Qed.

Lemma separated1_inv i l r :
  separated1 slen parse_partial (literal ",") i = (Ok l, r) ->
  exists c cls, i = render_clauses (c :: cls) ++ r /\ l = map code_partial (c :: cls).
Proof.
  unfold separated1. intros H.
  destruct (parse_partial i) as [[a|e|e|s] r1] eqn:Ep; try discriminate H.
  destruct (parse_partial_inv _ _ _ Ep) as (c & -> & -> & _).
  destruct (sep_fuel slen (S (slen r1)) parse_partial (literal ",") r1) as [[l'|e|e|s] r'] eqn:Er;
    try discriminate H.
  inversion H; subst. destruct (sep_fuel_inv _ _ _ _ Er) as (cls & -> & ->).
  exists c, cls. split; [|reflexivity].
  rewrite render_clauses_cons, <- app_assoc. reflexivity.
Qed.

(** * parse_permission: whatever is accepted is one of the two forms *)
Definition octal_form (body : str) (b : N) (r : str) : Prop :=
  exists ds, body = ds ++ r /\ oct_digits ds /\ (3 <= List.length ds)%nat /\ stops is_oct r /\
             b = pos_value8 ds /\ b <= 4095.
Definition symbolic_form (body : str) (b : N) (r : str) : Prop :=
  exists cls, cls <> [] /\ body = render_clauses cls ++ r /\ b = code_chmod cls.

Lemma parse_permission_inv body b r :
  parse_permission body = (Ok b, r) -> octal_form body b r \/ symbolic_form body b r.
Proof.
  unfold parse_permission, context. intros H.
  match type of H with context [alt ?l body] => destruct (alt l body) as [[b'|e|e|s] r'] eqn:Ea end;
    try discriminate H.
  inversion H; subst b' r'. clear H.
  cbn [alt] in Ea.
  match type of Ea with context [try_map ?p ?f body] =>
    destruct (try_map p f body) as [[b1|e|e|s] r1] eqn:E1 end.
  - (* octal *)
    inversion Ea; subst b1 r1. clear Ea. left.
    unfold try_map in E1.
    destruct (take_while 3 is_oct body) as [[ds|e|e|s] r1] eqn:Et; try discriminate E1.
    destruct (take_while_inv _ _ _ _ _ Et) as (-> & Hf & Hs & Hl).
    rewrite oct_value_pos in E1.
    destruct (pos_value8 ds <? two32) eqn:E32; [|discriminate E1].
    destruct (pos_value8 ds <=? all_bits) eqn:E12; [|discriminate E1].
    inversion E1; subst. exists ds. unfold all_bits in E12.
    repeat split; try assumption; [apply forallb_oct_digits, Hf|lia].
  - (* symbolic *)
    right.
    match type of Ea with context [pmap ?f ?p body] =>
      destruct (pmap f p body) as [[b2|e2|e2|s2] r2] eqn:E2 end.
    + inversion Ea; subst b2 r2. clear Ea. unfold pmap in E2.
      destruct (separated1 slen parse_partial (literal ",") body) as [[l|e2|e2|s2] r2] eqn:Es;
        try discriminate E2.
      inversion E2; subst. destruct (separated1_inv _ _ _ Es) as (c & cls & -> & ->).
      exists (c :: cls). split; [discriminate|]. split; [reflexivity|].
      rewrite fold_update_code. reflexivity.
    + unfold context, fail in Ea. discriminate Ea.
    + discriminate Ea.
    + discriminate Ea.
  - discriminate Ea.
  - discriminate Ea.
Qed.

(** * parse_permcheck: every word is a prefix and a body *)
Lemma permcheck_split w :
  exists p body, w = prefix_str p ++ body /\
                 parse_permcheck w = lift_check (kind_of p) (parse_permission body).
Proof.
  destruct w as [|c w].
  - exists NoPrefix, []. split; [reflexivity|]. apply permcheck_none. exact I.
  - destruct (N.eqb_spec c 47) as [->|N47]; [|destruct (N.eqb_spec c 45) as [->|N45]].
    + exists Slash, w. split; [reflexivity|apply permcheck_slash].
    + exists Dash, w. split; [reflexivity|apply permcheck_dash].
    + exists NoPrefix, (c :: w). split; [reflexivity|]. apply permcheck_none.
      unfold no_prefix_head, stops. lia.
Qed.

Lemma lift_check_ok_inv k x v r :
  lift_check k x = (Ok v, r) -> exists b, x = (Ok b, r) /\ v = (k, b).
Proof.
  destruct x as [[b|e|e|s] r']; cbn [lift_check]; intros H; try discriminate H.
  inversion H; subst. exists b. split; reflexivity.
Qed.

(** * Soundness of [perm_word] *)
Theorem perm_word_sound w k b r :
  perm_word w = (Ok (k, b), r) ->
  r = [] /\
  ((exists p ds, w = prefix_str p ++ ds /\ oct_digits ds /\ (3 <= List.length ds)%nat /\
                 b = pos_value8 ds /\ b <= 4095 /\ k = kind_of p)
   \/ (exists p cls, cls <> [] /\ w = prefix_str p ++ render_clauses cls /\
                     b = code_chmod cls /\ k = kind_of p)).
Proof.
  intros H. apply perm_word_inv in H. destruct H as [H ->]. split; [reflexivity|].
  destruct (permcheck_split w) as (p & body & -> & Hw). rewrite Hw in H.
  destruct (lift_check_ok_inv _ _ _ _ H) as (b' & Hp & Hv). inversion Hv; subst k b'. clear Hv.
  destruct (parse_permission_inv _ _ _ Hp) as [(ds & -> & Hd & Hl & _ & Hb & Hle)|(cls & Hne & -> & Hb)].
  - left. exists p, ds. rewrite app_nil_r. repeat split; assumption.
  - right. exists p, cls. rewrite app_nil_r. repeat split; assumption.
Qed.

(** the statement with the empty rest, as C08_octal / C08_symbolic produce it *)
Corollary perm_word_sound_nil w k b :
  perm_word w = (Ok (k, b), []) ->
  (exists p ds, w = prefix_str p ++ ds /\ oct_digits ds /\ (3 <= List.length ds)%nat /\
                b = pos_value8 ds /\ b <= 4095 /\ k = kind_of p)
  \/ (exists p cls, cls <> [] /\ w = prefix_str p ++ render_clauses cls /\
                    b = code_chmod cls /\ k = kind_of p).
Proof. intros H. apply (perm_word_sound w k b [] H). Qed.

(** acceptance is exactly the two forms *)
Theorem perm_word_accepts_iff w k b :
  perm_word w = (Ok (k, b), []) <->
  (exists p ds, w = prefix_str p ++ ds /\ oct_digits ds /\ (3 <= List.length ds)%nat /\
                b = pos_value8 ds /\ b <= 4095 /\ k = kind_of p)
  \/ (exists p cls, cls <> [] /\ w = prefix_str p ++ render_clauses cls /\
                    b = code_chmod cls /\ k = kind_of p).
Proof.
  split; [apply perm_word_sound_nil|].
  intros [(p & ds & -> & Hd & Hl & -> & Hle & ->)|(p & cls & Hne & -> & -> & ->)].
  - apply perm_word_octal; assumption.
  - apply perm_word_symbolic; assumption.
Qed.

(** * Fewer than three octal digits *)
Lemma short_take ds :
  oct_digits ds -> (List.length ds < 3)%nat -> take_while 3 is_oct ds = (Back [], ds).
Proof.
  intros Hd Hl. unfold take_while.
  rewrite <- (app_nil_r ds) at 1. rewrite (span_app is_oct ds [] (oct_digits_forallb ds Hd) I).
  replace (Nat.leb 3 (List.length ds)) with false; [reflexivity|].
  symmetry. apply Nat.leb_gt. exact Hl.
Qed.

Lemma oct_digits_stops_ugoa ds : oct_digits ds -> stops (in_str "ugoa") ds.
Proof.
  intros Hd. destruct ds as [|d ds]; [exact I|]. cbn [stops].
  inversion Hd as [|x l Hx Hl']. apply is_oct_not_ugoa. unfold is_oct. lia.
Qed.

Lemma oct_digits_no_prefix ds : oct_digits ds -> no_prefix_head ds.
Proof.
  intros Hd. destruct ds as [|d ds]; [exact I|].
  inversion Hd as [|x l Hx Hl']. unfold no_prefix_head. cbn [stops]. lia.
Qed.

Lemma parse_permission_short ds :
  oct_digits ds -> (List.length ds < 3)%nat ->
  parse_permission ds = (Back [Expected "invalid_permission_format"; Label "permission"], ds).
Proof.
  intros Hd Hl. unfold parse_permission.
  apply (context_back (label "permission") _ _ [Expected "invalid_permission_format"]).
  erewrite alt_back; cycle 1.
  { apply try_map_back, try_map_back, short_take; assumption. }
  apply symbolic_alts_fail, oct_digits_stops_ugoa, Hd.
Qed.

Theorem perm_word_short_octal p ds :
  oct_digits ds -> (List.length ds < 3)%nat ->
  perm_word (prefix_str p ++ ds) = (Cut perm_format_error, ds).
Proof.
  intros Hd Hl. apply perm_word_cut.
  rewrite permcheck_prefix by (apply oct_digits_no_prefix, Hd).
  rewrite (parse_permission_short ds Hd Hl). reflexivity.
Qed.

(** the same through the argument delimiter: a bare word of a prefix and one or two octal digits
    is rejected by [parse_perm_arg] *)
Lemma and_then_cut_word w rest c r :
  w <> [] -> forallb bare_char w = true -> stops bare_char rest ->
  stops (fun c => (c =? 34) || (c =? 39)) w ->
  perm_word w = (Cut c, r) -> parse_perm_arg (w ++ rest) = (Cut c, w ++ rest).
Proof.
  intros Hne Hw Hr Hq Hp. unfold parse_perm_arg, and_then.
  rewrite (quote_delimiter_bare w rest Hne Hw Hr Hq).
  fold (perm_word w). rewrite Hp. reflexivity.
Qed.

Theorem parse_perm_arg_short_octal p ds rest :
  oct_digits ds -> (1 <= List.length ds < 3)%nat -> stops bare_char rest ->
  parse_perm_arg (prefix_str p ++ ds ++ rest) = (Cut perm_format_error, prefix_str p ++ ds ++ rest).
Proof.
  intros Hd [Hl1 Hl] Hr. rewrite app_assoc.
  destruct ds as [|d ds]; [cbn [List.length] in Hl1; lia|].
  eapply and_then_cut_word.
  - destruct p; discriminate.
  - rewrite forallb_app, bare_prefix, (bare_oct _ Hd). reflexivity.
  - exact Hr.
  - inversion Hd as [|x l Hx Hl']. destruct p; cbn [prefix_str app stops]; try reflexivity. lia.
  - apply perm_word_short_octal; assumption.
Qed.
