(** Parser-level soundness: the climber never returns a tree for a proper prefix, so that
    acceptance coincides with the grammar. *)
From Coq Require Import List Arith Lia Bool.
From FP Require Import Model.Ast Model.Lex Model.Prec Spec.Grammar Proofs.PrecSound Proofs.PrecComplete.
Import ListNotations.

Lemma sound_consumes G f : sound_at G f -> forall ts e r, f ts = POk e r -> length r < length ts.
Proof.
  intros Hs ts e r H. apply Hs in H as (pre & -> & _ & Hne).
  rewrite app_length. destruct pre; [congruence|cbn; lia].
Qed.

Lemma atom_back_inv n ts : atom n ts = PBack -> ~ starts_atom ts.
Proof.
  destruct n as [|n]; cbn [atom]; [discriminate|].
  destruct ts as [|[| | | | | |p] q]; cbn; try tauto; try discriminate.
  - destruct (list_ (atom n) q) as [e [|[] r]| |]; discriminate.
  - destruct (atom n q); discriminate.
Qed.

Section Exit.
  Variable atomf : list token -> pres.
  Hypothesis Ha : sound_at GAtom atomf.
  Hypothesis Hnb : forall ts, atomf ts = PBack -> ~ starts_atom ts.

  Lemma and_exit ts e r : and_ atomf ts = POk e r -> stop_and r.
  Proof.
    unfold and_. destruct (atomf ts) as [e0 r0| |] eqn:E; try discriminate. intro H.
    eapply and_loop_exit; [ | |exact H|exact Hnb]; [apply (sound_consumes _ _ Ha)|lia].
  Qed.

  Lemma or_loop_exit : forall k acc ts e r,
    length ts <= k -> stop_and ts -> or_loop atomf k acc ts = POk e r -> stop_or r.
  Proof.
    induction k as [|k IH]; intros acc ts e r Hk Hs H; cbn [or_loop] in H.
    - inversion H; subst. destruct r; [exact I|cbn in Hk; lia].
    - destruct ts as [|[| | | | | |p] q]; cbn in Hs; try contradiction;
        try (inversion H; subst; exact I).
      destruct (and_ atomf q) as [e' r'| |] eqn:E; try discriminate.
      pose proof (and_exit _ _ _ E) as Hs'.
      pose proof (sound_consumes _ _ (and_sound _ Ha) _ _ _ E) as Hl.
      eapply IH; [|exact Hs'|exact H]. cbn in Hk. lia.
  Qed.

  Lemma or_exit ts e r : or_ atomf ts = POk e r -> stop_or r.
  Proof.
    unfold or_. destruct (and_ atomf ts) as [e0 r0| |] eqn:E; try discriminate. intro H.
    eapply or_loop_exit; [|exact (and_exit _ _ _ E)|exact H]. lia.
  Qed.

  Lemma list_loop_exit : forall k acc ts e r,
    length ts <= k -> stop_or ts -> list_loop atomf k acc ts = POk e r -> stop_list r.
  Proof.
    induction k as [|k IH]; intros acc ts e r Hk Hs H; cbn [list_loop] in H.
    - inversion H; subst. destruct r; [exact I|cbn in Hk; lia].
    - destruct ts as [|[| | | | | |p] q]; cbn in Hs; try contradiction;
        try (inversion H; subst; exact I).
      destruct (or_ atomf q) as [e' r'| |] eqn:E; try discriminate.
      pose proof (or_exit _ _ _ E) as Hs'.
      pose proof (sound_consumes _ _ (or_sound _ Ha) _ _ _ E) as Hl.
      eapply IH; [|exact Hs'|exact H]. cbn in Hk. lia.
  Qed.

  Lemma list_exit ts e r : list_ atomf ts = POk e r -> stop_list r.
  Proof.
    unfold list_. destruct (or_ atomf ts) as [e0 r0| |] eqn:E; try discriminate. intro H.
    eapply list_loop_exit; [|exact (or_exit _ _ _ E)|exact H]. lia.
  Qed.

  Lemma list_back_on_rparen q : atomf (KRParen :: q) = PBack -> list_ atomf (KRParen :: q) = PBack.
  Proof. intro H. unfold list_, or_, and_. now rewrite H. Qed.
End Exit.

Theorem parser_sound ts e : prec_parser ts = Some e -> GList ts e.
Proof.
  unfold prec_parser. set (n := S (length ts)).
  destruct (list_ (atom n) ts) as [e0 r| |] eqn:E; try discriminate.
  pose proof (list_sound _ (atom_sound n) _ _ _ E) as (pre & Hts & G & _).
  pose proof (list_exit _ (atom_sound n) (atom_back_inv n) _ _ _ E) as Hs.
  destruct r as [|t q].
  - cbn. intro H. inversion H; subst. now rewrite app_nil_r.
  - destruct t; cbn in Hs; try contradiction.
    cbn [rt_loop length]. rewrite list_back_on_rparen; [discriminate|]. reflexivity.
Qed.

Theorem parser_iff ts e : prec_parser ts = Some e <-> GList ts e.
Proof. split; [apply parser_sound|apply parser_complete]. Qed.

Corollary grammar_unique ts e1 e2 : GList ts e1 -> GList ts e2 -> e1 = e2.
Proof. intros H1 H2. apply parser_complete in H1, H2. congruence. Qed.

(** the climber never returns a result for an input that is not a sentence as a whole — in
    particular not the tree of a prefix that is a sentence *)
Corollary no_prefix_result pre suf e :
  GList pre e -> (forall e', ~ GList (pre ++ suf) e') -> prec_parser (pre ++ suf) = None.
Proof.
  intros _ Hn. destruct (prec_parser (pre ++ suf)) as [e'|] eqn:E; [|reflexivity].
  apply parser_sound in E. now apply Hn in E.
Qed.
