(** Word-level corollaries of [parse_render]: the lexer on sentences, single primaries,
    acceptance = grammar on word sequences, the leading run of options, blank input. *)
From Coq Require Import List String NArith Bool Arith Lia.
From FP Require Import Model.Chars Model.Winnow Model.Ast Model.Args Model.Lex Model.Prec Model.Parse.
From FP Require Import Spec.Vocabulary Spec.Surface Spec.Grammar.
From FP Require Import Proofs.PrecIff Proofs.OptionsFacts Proofs.LexArgs Proofs.LexPrimary Proofs.LexSentence.
Import ListNotations.

(** * The lexer *)
Theorem lex_render s : wf_sentence s -> body s <> [] -> lex (render s) = (Ok (tokens_of s), []).
Proof.
  destruct s as [b tr]. intros [Hi [Hl Ht]] Hne. unfold render, tokens_of. cbn [body trail] in *.
  rewrite (render_split tr b).
  rewrite (lex_strip _ _ (lead_blank_blanks tr Ht None b Hl) (text_stops tr b Hi)).
  exact (lex_text tr Ht b Hne Hi Hl).
Qed.

(** the leading pass on a sentence: its result on the tokens is [leading_toks], and the text
    handed on is the text of the remaining items, without their leading blanks *)
Theorem leading_options_render s : wf_sentence s ->
  exists rest_items,
    leading_toks false (tokens_of s) = (fst (leading_body false (body s)), toks rest_items)
    /\ leading_options (render s)
       = (Ok (fst (leading_body false (body s))), text (trail s) rest_items).
Proof.
  destruct s as [b tr]. intros [Hi [Hl Ht]]. unfold render, tokens_of. cbn [body trail] in *.
  exists (snd (leading_body false b)). split.
  - exact (leading_body_toks b false).
  - destruct (lead_run tr Ht b None Hi Hl) as [A _].
    unfold leading_options, preceded, bind. rewrite (render_split tr b).
    rewrite (multispace0_blanks _ _ (lead_blank_blanks tr Ht None b Hl) (text_stops tr b Hi)).
    exact A.
Qed.

(** * A single primary, with any blanks around it *)
Lemma single_wf ws gaps l b1 b2 : Primary ws l -> gaps_for ws gaps -> blanks b1 -> blanks b2 ->
  wf_sentence {| body := [(b1, IPrim ws gaps l)]; trail := b2 |}.
Proof.
  intros Hp Hg H1 H2. split; [|split]; cbn.
  - constructor; [split; assumption|constructor].
  - split; [exact H1|]. split; [intros _; exact I|exact I].
  - exact H2.
Qed.

Theorem single_primary ws l gaps b1 b2 :
  Primary ws l -> gaps_for ws gaps -> (forall g, l <> LGlobal g) -> blanks b1 -> blanks b2 ->
  parse (b1 ++ weave ws gaps ++ b2) = ParseOk default_options (leaf_expr l).
Proof.
  intros Hp Hg Hn H1 H2.
  pose proof (parse_render _ (single_wf ws gaps l b1 b2 Hp Hg H1 H2)) as H.
  unfold render, tokens_of in H. cbn [body trail render_body map snd item_text item_token] in H.
  rewrite H. destruct l as [t|a|g|]; try reflexivity. exfalso. exact (Hn g eq_refl).
Qed.

Theorem single_option ws g gaps b1 b2 :
  Primary ws (LGlobal g) -> gaps_for ws gaps -> blanks b1 -> blanks b2 ->
  parse (b1 ++ weave ws gaps ++ b2) = ParseOk (opts_for [g]) (ETest TTrue).
Proof.
  intros Hp Hg H1 H2.
  pose proof (parse_render _ (single_wf ws gaps _ b1 b2 Hp Hg H1 H2)) as H.
  unfold render, tokens_of in H. cbn [body trail render_body map snd item_text item_token] in H.
  rewrite H. reflexivity.
Qed.

(** * Acceptance of a word sequence coincides with the grammar *)
Theorem words_grammar s gs r :
  wf_sentence s -> leading_toks false (tokens_of s) = (gs, r) ->
  (forall e, GList (map detrue (run_tokens r)) e ->
     parse (render s) = ParseOk (opts_for (gs ++ globals_of (run_tokens r))) e)
  /\ ((forall e, ~ GList (map detrue (run_tokens r)) e) -> parse (render s) = grammar_error)
  /\ (forall o e, parse (render s) = ParseOk o e ->
        GList (map detrue (run_tokens r)) e /\ o = opts_for (gs ++ globals_of (run_tokens r))).
Proof.
  intros Hwf Hl. rewrite (parse_render s Hwf). unfold result_of. rewrite Hl.
  destruct (prec_parser (map detrue (run_tokens r))) as [e0|] eqn:P.
  - pose proof (proj1 (parser_iff _ _) P) as G0. split; [|split].
    + intros e G. rewrite (grammar_unique _ _ _ G G0). reflexivity.
    + intros Hn. exfalso. exact (Hn e0 G0).
    + intros o e H. injection H as <- <-. split; [exact G0|reflexivity].
  - split; [|split].
    + intros e G. apply parser_iff in G. congruence.
    + intros _. reflexivity.
    + intros o e H. discriminate H.
Qed.

(** * The leading run leaves the rest untouched *)
Definition with_leading (gs : list gopt) (res : presult) : presult :=
  match res with
  | ParseOk o e =>
      ParseOk {| opt_depth := any_depth false gs || opt_depth o;
                 opt_threads := match opt_threads o with
                                | Some n => Some n
                                | None => last_threads None gs
                                end |} e
  | x => x
  end.

Lemma leading_toks_idem : forall ts f gs r,
  leading_toks f ts = (gs, r) -> leading_toks false r = ([], r).
Proof.
  induction ts as [|t ts IH]; intros f gs r H.
  - cbn in H. injection H as _ <-. reflexivity.
  - destruct t as [| | | | | |[t|a|g|]]; cbn [leading_toks] in H;
      try (injection H as _ <-; reflexivity).
    + destruct ts as [|x xs]; [injection H as _ <-; reflexivity|].
      destruct f; [exact (IH false gs r H)|injection H as _ <-; reflexivity].
    + destruct (leading_toks true ts) as [gs' r'] eqn:E. injection H as _ <-.
      exact (IH true gs' r' E).
Qed.

Lemma last_threads_alt : forall b o,
  last_threads o b = match last_threads None b with Some n => Some n | None => o end.
Proof.
  induction b as [|g b IH]; intros o; [reflexivity|].
  unfold last_threads in *. cbn [fold_left].
  rewrite IH. rewrite (IH (match g with GThreads n => Some n | _ => None end)).
  destruct g; try reflexivity;
    destruct (fold_left (fun acc g => match g with GThreads n => Some n | _ => acc end) b None);
    reflexivity.
Qed.

Lemma opts_for_app gs gl :
  opts_for (gs ++ gl)
  = {| opt_depth := any_depth false gs || opt_depth (opts_for gl);
       opt_threads := match opt_threads (opts_for gl) with
                      | Some n => Some n
                      | None => last_threads None gs
                      end |}.
Proof.
  unfold opts_for. cbn [opt_depth opt_threads]. f_equal.
  - unfold any_depth. rewrite existsb_app. reflexivity.
  - rewrite <- last_threads_app. apply last_threads_alt.
Qed.

Lemma layout_suffix : forall lead prev rest, layout_ok prev (lead ++ rest) -> layout_ok None rest.
Proof.
  induction lead as [|[sp it] lead IH]; intros prev rest H.
  - exact (layout_weaken prev rest H).
  - cbn [app layout_ok] in H. destruct H as [_ [_ H]]. exact (IH (Some it) rest H).
Qed.

Lemma wf_suffix lead rest tr :
  wf_sentence {| body := lead ++ rest; trail := tr |} -> wf_sentence {| body := rest; trail := tr |}.
Proof.
  intros [Hi [Hl Ht]]. cbn [body trail] in *. split; [|split]; cbn [body trail].
  - apply Forall_app in Hi. tauto.
  - exact (layout_suffix lead None rest Hl).
  - exact Ht.
Qed.

Theorem leading_run_rest lead rest tr gs :
  wf_sentence {| body := lead ++ rest; trail := tr |} ->
  leading_toks false (tokens_of {| body := lead ++ rest; trail := tr |})
    = (gs, tokens_of {| body := rest; trail := tr |}) ->
  parse (render {| body := lead ++ rest; trail := tr |})
  = with_leading gs (parse (render {| body := rest; trail := tr |})).
Proof.
  intros Hwf Hl. rewrite (parse_render _ Hwf), (parse_render _ (wf_suffix lead rest tr Hwf)).
  unfold result_of. rewrite Hl. rewrite (leading_toks_idem _ _ _ _ Hl).
  destruct (prec_parser _) as [e|]; [|reflexivity].
  cbn [app with_leading]. rewrite opts_for_app. reflexivity.
Qed.

(** * Blank input *)
Theorem blank_is_true b : blanks b -> parse b = parse (chars "-true").
Proof.
  intros Hb.
  assert (Hwf : wf_sentence {| body := []; trail := b |}).
  { split; [constructor|]. split; [exact I|exact Hb]. }
  pose proof (parse_render _ Hwf) as H. unfold render, tokens_of in H. cbn in H. rewrite H.
  vm_compute. reflexivity.
Qed.

(** * Operator words, stated without auxiliary predicates *)
From FP Require Import Spec.Decimal Spec.PermWord.
Lemma not_blank_stops more : not_starting_with Blank more -> stops is_space more.
Proof.
  destruct more as [|c r]; cbn; [auto|]. intros H. destruct (is_space c) eqn:E; [|reflexivity].
  exfalso. apply H. apply space_Blank. exact E.
Qed.

Theorem opword_at_end o : single_char o = false -> parse_token (op_text o) = (Ok (op_token o), []).
Proof.
  intros H. rewrite <- (app_nil_r (op_text o)). apply tok_opword; [exact H|].
  left. split; reflexivity.
Qed.
Theorem opword_blank o b more :
  single_char o = false -> gap b -> not_starting_with Blank more ->
  parse_token (op_text o ++ b ++ more) = (Ok (op_token o), more).
Proof.
  intros H Hb Hm. apply tok_opword; [exact H|]. right. exists b.
  split; [exact Hb|]. split; [reflexivity|apply not_blank_stops; exact Hm].
Qed.

(** * A primary embedded in a sentence *)
Theorem embedded_primary s sp ws gaps l :
  wf_sentence s -> In (sp, IPrim ws gaps l) (body s) ->
  lex (render s) = (Ok (tokens_of s), []) /\ In (KPrim l) (tokens_of s).
Proof.
  intros Hwf Hin. split.
  - apply lex_render; [exact Hwf|]. intros E. rewrite E in Hin. exact Hin.
  - unfold tokens_of. exact (in_map (fun x => item_token (snd x)) _ _ Hin).
Qed.

(** * Anything that leaves the tokens alone leaves the result alone *)
Theorem same_tokens_same_parse s1 s2 :
  wf_sentence s1 -> wf_sentence s2 -> tokens_of s1 = tokens_of s2 ->
  parse (render s1) = parse (render s2).
Proof. intros H1 H2 E. rewrite (parse_render s1 H1), (parse_render s2 H2), E. reflexivity. Qed.
