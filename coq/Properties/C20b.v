(** C20 (byte level) — the emitted TEXT for a device path is a fixed prefix, the literal of the
    path, a fixed suffix; the literal decodes to the path.  Two renderings for different paths
    share the prefix and the suffix and differ in the literal. *)
From Coq Require Import List NArith String.
From FP Require Import Model.Chars Model.Ast Model.Sexp Model.Compile.
From FP Require Import Spec.GuileReader Proofs.RenderBytes.
Import ListNotations.
Local Open Scope N_scope.

Theorem C20b_text_split : forall c, exists pre post,
  forall p, scheme_text c p = pre ++ print (lstr p) ++ post.
Proof. exact scheme_text_split. Qed.

(** the literal denotes, and reads back as, the string node holding the path (from C04) *)
Theorem C20b_literal_decodes : forall p,
  erase (lstr p) = SStr p /\ read_all (print (lstr p)) = Some [SStr p].
Proof. exact literal_decodes. Qed.

Theorem C20b_literal_injective : forall p1 p2, print (lstr p1) = print (lstr p2) -> p1 = p2.
Proof. exact literal_injective. Qed.

Theorem C20b_two_paths : forall c, exists pre post, forall p1 p2, p1 <> p2 ->
  scheme_text c p1 = pre ++ print (lstr p1) ++ post
  /\ scheme_text c p2 = pre ++ print (lstr p2) ++ post
  /\ print (lstr p1) <> print (lstr p2)
  /\ scheme_text c p1 <> scheme_text c p2.
Proof. exact scheme_text_two_paths. Qed.

Example C20b_example :
  exists c, compile (EAction APrint) default_options [] = COk c
  /\ let pre := firstn 236 (scheme_text c []) in
     let post := skipn 238 (scheme_text c []) in
     scheme_text c (chars "a""b\") = pre ++ print (lstr (chars "a""b\")) ++ post
     /\ scheme_text c (chars "/dev/sda") = pre ++ print (lstr (chars "/dev/sda")) ++ post
     /\ print (lstr (chars "a""b\")) = chars """a\""b\\"""
     /\ List.length pre = 236%nat /\ List.length post = 194%nat.
Proof. eexists. split; [vm_compute; reflexivity|]. vm_compute. repeat split. Qed.
