(** C13r — "-maxdepth/-mindepth N unless rejected with an error": in the model (following the
    code after its repair) the two options are ALWAYS rejected, wherever the word stands as a
    primary — in the leading run of options or inside the expression — and whatever follows it.
    Statements only; proofs are in Proofs/RefusedOptions.v. Vocabulary: Spec/Messages.v
    ([failed_msg], [lexes_fine pre rest]: the model's own token parser consumes [pre] token by
    token and stops exactly at [rest]; [blanks]; [at_word_end]; [ends_word]) and Spec/Decimal.v
    ([digits], [pos_value], [not_starting_with]). The leading position is the prefix [pre = []]
    (or a prefix made of other options); no separate statement is needed for it. *)
From Coq Require Import List String NArith Bool Lia.
From FP Require Import Model.Chars Model.Winnow Model.Ast Model.Args Model.Lex Model.Parse.
From FP Require Import Spec.Decimal Spec.Messages Spec.Refused Proofs.ErrorAttribution Proofs.RefusedOptions.
Import ListNotations.
Local Open Scope N_scope.

(** the two words and the two explanations *)
Theorem C13r_words : forall K, refused_word K <-> K = "-maxdepth"%string \/ K = "-mindepth"%string.
Proof. intros K. reflexivity. Qed.
Theorem C13r_explanations :
  not_supported = Some "This option is not supported by LiPE"%string
  /\ not_a_number = Some "Expected an unsigned integer"%string.
Proof. split; reflexivity. Qed.
(** both are rows of the table of argument-taking keywords of C18 *)
Theorem C13r_in_table : forall K, refused_word K ->
  In (K, KOption, LRefused, erased unsupported_u32) arg_table.
Proof. exact refused_in_table. Qed.

(** the option word, blanks, a number that fits 32 bits, then anything that is not a further
    digit: refused as unsupported, quoting the word standing at the number *)
Theorem C13r_number_refused : forall K pre bl ds rest,
  refused_word K -> lexes_fine pre (chars K ++ bl ++ ds ++ rest) -> blanks bl ->
  digits ds -> ds <> [] -> not_starting_with digit rest -> pos_value ds < 2 ^ 32 ->
  parse (pre ++ chars K ++ bl ++ ds ++ rest)
  = ParseErr (failed_msg (next_word (ds ++ rest)) KOption K
                (Some "This option is not supported by LiPE"%string)).
Proof. exact refused_small_number. Qed.

(** a number of any size: one that does not fit 32 bits is refused as not being a number *)
Theorem C13r_any_number_refused : forall K pre bl ds rest,
  refused_word K -> lexes_fine pre (chars K ++ bl ++ ds ++ rest) -> blanks bl ->
  digits ds -> ds <> [] -> not_starting_with digit rest ->
  parse (pre ++ chars K ++ bl ++ ds ++ rest)
  = ParseErr (failed_msg (next_word (ds ++ rest)) KOption K
                (if pos_value ds <? 2 ^ 32 then not_supported else not_a_number)).
Proof. exact refused_number. Qed.

(** "the rest starts at a word end" is a special case of "no further digit"; and then the
    quoted word is the number itself *)
Theorem C13r_word_end_no_digit : forall rest, ends_word rest -> not_starting_with digit rest.
Proof. exact ends_word_not_digit. Qed.

(** the option word, blanks, anything at all *)
Theorem C13r_any_argument_refused : forall K pre bl a,
  refused_word K -> lexes_fine pre (chars K ++ bl ++ a) -> blanks bl ->
  head_in is_space a = false ->
  exists e, (e = not_supported \/ e = not_a_number)
    /\ parse (pre ++ chars K ++ bl ++ a) = ParseErr (failed_msg (next_word a) KOption K e).
Proof. exact refused_any_argument. Qed.

(** the option word directly followed by the end of the input or by one of ( ) ! , *)
Theorem C13r_no_blank_refused : forall K pre x,
  refused_word K -> lexes_fine pre (chars K ++ x) -> at_word_end x = true ->
  head_in is_space x = false ->
  parse (pre ++ chars K ++ x) = ParseErr (failed_msg (next_word x) KOption K None).
Proof. exact refused_no_blank. Qed.

(** hence: wherever one of the two words stands as a whole word at a primary position, the
    input is an error naming that word as a global option, and never parses *)
Theorem C13r_always_refused : forall K pre x,
  refused_word K -> lexes_fine pre (chars K ++ x) -> at_word_end x = true ->
  exists w e, parse (pre ++ chars K ++ x) = ParseErr (failed_msg w KOption K e).
Proof. exact refused_always. Qed.
Theorem C13r_never_ok : forall K pre x o e,
  refused_word K -> lexes_fine pre (chars K ++ x) -> at_word_end x = true ->
  parse (pre ++ chars K ++ x) <> ParseOk o e.
Proof. exact refused_never_ok. Qed.

(** ** Non-vacuity *)

(** prefixes that lex fine: nothing (C18_prefix_nil), a leading run of other options, and the
    inside of an expression *)
Example C13r_example_prefixes :
  lexes_fine [] (chars "-maxdepth 3 -print")
  /\ lexes_fine (chars "-depth -threads 4 -a ") (chars "-mindepth 2")
  /\ lexes_fine (chars "-name a -o ( ! ") (chars "-maxdepth  12) -print").
Proof.
  repeat split; unfold lexes_fine;
  match goal with
  | |- lexes_to ?x ?y =>
      let x' := eval vm_compute in x in let y' := eval vm_compute in y in change (lexes_to x' y')
  end;
  repeat (eapply lexes_step; [vm_compute; reflexivity|]); apply lexes_here.
Qed.

Example C13r_example_hyps :
  blanks (chars "  ") /\ digits (chars "12") /\ pos_value (chars "12") = 12
  /\ not_starting_with digit (chars ") -print") /\ ends_word (chars ") -print")
  /\ next_word (chars "12) -print") = chars "12".
Proof.
  repeat split; try reflexivity; try discriminate.
  - unfold digits. change (chars "12") with [49; 50].
    repeat (apply Forall_cons; [unfold digit; lia|]). apply Forall_nil.
  - cbn. unfold digit. lia.
Qed.

(** what the model says in the three positions, on a number too large for 32 bits, on a word
    that is no number, and on the bare option word *)
Example C13r_example_eval :
  parse (chars "-maxdepth 3 -print")
  = ParseErr (chars "Syntax error: Failed to parse argument `3` of global option `-maxdepth`: This option is not supported by LiPE")
  /\ parse (chars "-depth -threads 4 -a -mindepth 2")
     = ParseErr (chars "Syntax error: Failed to parse argument `2` of global option `-mindepth`: This option is not supported by LiPE")
  /\ parse (chars "-name a -o ( ! -maxdepth  12) -print")
     = ParseErr (chars "Syntax error: Failed to parse argument `12` of global option `-maxdepth`: This option is not supported by LiPE")
  /\ parse (chars "-print -mindepth 4294967296")
     = ParseErr (chars "Syntax error: Failed to parse argument `4294967296` of global option `-mindepth`: Expected an unsigned integer")
  /\ parse (chars "-maxdepth x")
     = ParseErr (chars "Syntax error: Failed to parse argument `x` of global option `-maxdepth`: Expected an unsigned integer")
  /\ parse (chars "-true -maxdepth")
     = ParseErr (chars "Syntax error: Failed to parse argument `` of global option `-maxdepth`")
  /\ parse (chars "( -mindepth)")
     = ParseErr (chars "Syntax error: Failed to parse argument `` of global option `-mindepth`").
Proof. repeat split; vm_compute; reflexivity. Qed.
