(** C03u — the default values by which the model replaces Rust's [unreachable!()] / [unwrap()]
    arms are never produced.  For each site, Spec/StrictArms.v defines a strict twin of the model
    parser in which the default arm is a [Panic] outcome; the twin is equal to the model parser
    on every input and never panics.  Statements only; proofs are in Proofs/. *)
From Coq Require Import List String NArith Bool.
From FP Require Import Model.Chars Model.Winnow Model.Ast Model.Args Model.Perm Model.Format
  Model.Lex Model.Prec Spec.StrictArms Proofs.DefaultsUnreachable.
Import ListNotations.
Local Open Scope N_scope.

(** size.rs: the unit letter (model default: UTera) *)
Theorem C03u_size :
  (forall i, parse_size_strict i = parse_size i)
  /\ (forall i s, fst (parse_size_strict i) <> Panic s)
  /\ (forall c, in_str "bcwkMGT" c = true -> size_unit_strict c = Some (size_unit_of c))
  /\ (forall c, size_unit_strict c <> None <-> In c [98; 99; 119; 107; 77; 71; 84]).
Proof. exact c03u_size. Qed.

(** timespec.rs: the unit letter (model default: UDay) *)
Theorem C03u_time :
  (forall d i, parse_time_strict d i = parse_time d i)
  /\ (forall d i s, fst (parse_time_strict d i) <> Panic s)
  /\ (forall c, in_str "smhd" c = true -> time_unit_strict c = Some (time_unit_of c))
  /\ (forall c, time_unit_strict c <> None <-> In c [115; 109; 104; 100]).
Proof. exact c03u_time. Qed.

(** filetype.rs: the type letter (model default: FSocket), also under the comma list *)
Theorem C03u_filetype :
  (forall i, parse_filetype_strict i = parse_filetype i)
  /\ (forall i, parse_filetypes_strict i = parse_filetypes i)
  /\ (forall i s, fst (parse_filetypes_strict i) <> Panic s)
  /\ (forall c, in_str "bcdpfls" c = true -> filetype_strict c = Some (filetype_of c))
  /\ (forall c, filetype_strict c <> None <-> In c [98; 99; 100; 112; 102; 108; 115]).
Proof. exact c03u_filetype. Qed.

(** permission.rs: [Permission::value] (model default: 73) and the [unwrap()] of
    [from_symbolic_str] (None on the empty string), at both call sites of [parse_partial] *)
Theorem C03u_sym_value :
  (forall c, in_str "ugoa" c = true \/ in_str "rwx" c = true ->
             sym_value_strict c = Some (sym_value c))
  /\ (forall c, sym_value_strict c <> None <-> In c [117; 103; 111; 97; 114; 119; 120])
  /\ (forall i target r, take_while 1 (in_str "ugoa") i = (Ok target, r) ->
        from_symbolic_strict target = Some (from_symbolic target))
  /\ (forall i level r, take_while 1 (in_str "rwx") i = (Ok level, r) ->
        from_symbolic_strict level = Some (from_symbolic level)).
Proof. exact c03u_sym_value. Qed.

(** permission.rs: the operator match (model default: PDel); the strict [parse_partial] also
    carries the strict [sym_value] and the two [unwrap()]s *)
Theorem C03u_operator :
  (forall i, parse_partial_strict i = parse_partial i)
  /\ (forall i, parse_permission_strict i = parse_permission i)
  /\ (forall i s, fst (parse_partial_strict i) <> Panic s)
  /\ (forall i s, fst (parse_permission_strict i) <> Panic s).
Proof. exact c03u_operator. Qed.

(** format.rs: [u16::from_str_radix(oct, 8).unwrap()] (model: [oct_value], total) *)
Theorem C03u_octal :
  (forall i, parse_special_strict i = parse_special i)
  /\ (forall i s, fst (parse_special_strict i) <> Panic s)
  /\ (forall i oct r, take_while_mn 3 3 is_oct i = (Ok oct, r) ->
        oct_u16_strict oct = Some (oct_value oct) /\ oct_value oct < 512)
  /\ (forall i n r, parse_special i = (Ok (XAscii n), r) -> n < 512).
Proof. exact c03u_octal. Qed.

(** precedence.rs: [out.first().unwrap()] — the list [repeat_till(1.., list, eof)] returns is
    never empty, and its head is what the model returns *)
Theorem C03u_prec_first :
  (forall ts, prec_parser_strict ts
              = match prec_parser ts with Some e => Some (Some e) | None => None end)
  /\ (forall ts, prec_parser_strict ts <> Some None).
Proof. exact c03u_prec_first. Qed.

(** precedence.rs: the leaf match after [one_of(primary)] *)
Theorem C03u_prec_leaf :
  (forall t, prim_expr_strict t <> None <-> is_primary t = true)
  /\ (forall n t r, is_primary t = true ->
        exists e, prim_expr_strict t = Some e /\ atom (S n) (t :: r) = POk e r)
  /\ (forall n t r e r', is_primary t = false -> atom (S n) (t :: r) = POk e r' ->
        t = KNot \/ t = KLParen).
Proof. exact c03u_prec_leaf. Qed.

(** non-vacuity: the strict twins succeed on ordinary inputs, and the strict conversions really
    are partial where the model has a default *)
Example C03u_example :
  parse_size_strict (chars "12k rest") = (Ok (Size UKilo 12), chars " rest")
  /\ parse_time_strict UDay (chars "3h") = (Ok (Time UHour 3), [])
  /\ parse_filetypes_strict (chars "f,d,s") = (Ok [FFile; FDirectory; FSocket], [])
  /\ parse_permission_strict (chars "u+rw,g-x") = parse_permission (chars "u+rw,g-x")
  /\ fst (parse_permission_strict (chars "u+rw,g-x")) = Ok 384
  /\ parse_special_strict (chars "\101") = (Ok (XAscii 65), [])
  /\ prec_parser_strict [KPrim LPositional; KOr; KPrim LPositional]
     = Some (Some (EOr EPositional EPositional))
  /\ (size_unit_strict 120 = None /\ size_unit_of 120 = UTera)
  /\ (time_unit_strict 120 = None /\ time_unit_of 120 = UDay)
  /\ (filetype_strict 120 = None /\ filetype_of 120 = FSocket)
  /\ (sym_value_strict 122 = None /\ sym_value 122 = 73)
  /\ partial_strict [117] 42 [114] = None
  /\ from_symbolic_strict [] = None
  /\ (oct_u16_strict [56; 48; 48] = None /\ oct_u16_strict [] = None)
  /\ prim_expr_strict KNot = None.
Proof. vm_compute. repeat split. Qed.
