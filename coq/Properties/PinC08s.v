(** The statements of C08s pinned by [Check name : statement]: a theorem cannot be weakened
    without this file failing to compile. *)
From Coq Require Import List String NArith Bool.
From FP Require Import Model.Chars Model.Winnow Model.Ast Model.Args Model.Perm.
From FP Require Import Spec.Chmod Spec.PermWord.
From FP Require Properties.C08s.
Import ListNotations.
Local Open Scope N_scope.

Check C08s.C08_sound : forall w k b r,
  perm_word w = (Ok (k, b), r) ->
  r = [] /\
  ((exists p ds, w = prefix_str p ++ ds /\ oct_digits ds /\ (3 <= List.length ds)%nat /\
                 b = pos_value8 ds /\ b <= 4095 /\ k = kind_of p)
   \/ (exists p cls, cls <> [] /\ w = prefix_str p ++ render_clauses cls /\
                     b = code_chmod cls /\ k = kind_of p)).
Check C08s.C08_accepts_iff : forall w k b,
  perm_word w = (Ok (k, b), []) <->
  (exists p ds, w = prefix_str p ++ ds /\ oct_digits ds /\ (3 <= List.length ds)%nat /\
                b = pos_value8 ds /\ b <= 4095 /\ k = kind_of p)
  \/ (exists p cls, cls <> [] /\ w = prefix_str p ++ render_clauses cls /\
                    b = code_chmod cls /\ k = kind_of p).
Check C08s.C08_short_octal_rejected : forall p ds,
  oct_digits ds -> (List.length ds < 3)%nat ->
  perm_word (prefix_str p ++ ds)
  = (Cut [Expected "invalid_permission_format"; Label "permission"; Label "permission_comparison"], ds).
Check C08s.C08_arg_short_octal_rejected : forall p ds rest,
  oct_digits ds -> (1 <= List.length ds < 3)%nat -> stops bare_char rest ->
  parse_perm_arg (prefix_str p ++ ds ++ rest)
  = (Cut [Expected "invalid_permission_format"; Label "permission"; Label "permission_comparison"],
     prefix_str p ++ ds ++ rest).
