(** C09 — Implicit print is added exactly when no action is present. *)
From Coq Require Import List String NArith Bool.
From FP Require Import Model.Chars Model.Ast Model.Sexp Model.Compile Spec.Tree.
From FP Require Import Proofs.TreeHelpers Proofs.ImplicitPrint.
From FP Require Import Spec.FileRecord Spec.FindSem Proofs.Corollaries.
Import ListNotations.

(** no action anywhere: the policy is (and <code of the expression> (print-relative-path)), the
    code being exactly what the expression compiles to on its own — as if "( expr ) -a print"
    had been written *)
Theorem C09_added : forall e o clk c,
  has_action e = false -> compile e o clk = COk c ->
  exists x s', compile_expr e {| st_mgr := if complex_frames e then MD dmgr_init else ML lmgr_init;
                                  st_clock := clk |} = COk (x, s')
    /\ c_body c = lst [atom "and"; x; lst [atom "print-relative-path"]].
Proof. exact implicit_print_added. Qed.

(** at least one action at any depth (under a negation, right of an OR, in a branch that can
    never run): nothing is added — the implicit print does not occur in the policy at all *)
Theorem C09_not_added : forall e o clk c,
  has_action e = true -> no_default e = true -> compile e o clk = COk c ->
  atom_occurs prp (c_body c) = false.
Proof. exact implicit_print_not_added. Qed.

(** "contains an action" means: an action node occurs at some depth *)
Theorem C09_action_anywhere : forall e, has_action e = true <-> exists a, Subterm (EAction a) e.
Proof. exact has_action_iff. Qed.

(** what that means by find's rules (with C02, which shows the emitted policy means [feval (wrap e)]):
    without an action the wrapped expression writes the relative path, newline-terminated, to
    stdout for exactly the files on which the expression is true, and nothing else *)
Theorem C09_meaning : forall h e clk f, has_action e = false ->
  feval h (wrap e) clk f =
    (fst (fst (feval h e clk f)),
     if fst (fst (feval h e clk f)) then [(DStdout, f_relative_path f, Some 10%N)] else [],
     false).
Proof. exact implicit_print_meaning. Qed.

Example C09_example :
  let dead := EOr (ETest TTrue) (ENot (EAction AQuit)) in       (* -true -o ! -quit *)
  let none := EOr (ETest TTrue) (ENot (ETest TFalse)) in
  (exists c, compile dead default_options [] = COk c /\ atom_occurs prp (c_body c) = false)
  /\ (exists c, compile none default_options [] = COk c /\ atom_occurs prp (c_body c) = true).
Proof. split; eexists; split; reflexivity. Qed.
