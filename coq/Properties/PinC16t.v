(** The statements of C16t pinned by [Check name : statement]: a theorem cannot be weakened
    without this file failing to compile. *)
From Coq Require Import List String NArith Bool.
From FP Require Import Model.Chars Model.Ast Model.Sexp Model.Compile Spec.Tree Spec.TreeShape.
From FP Require Import Spec.FileRecord Spec.SchemeSem Spec.SchemePrelude Spec.PolicyCalls.
From FP Require Properties.C16t.
Import ListNotations.
Local Open Scope N_scope.

Check C16t.C16t_plain_records_terminated : forall h e o clk c f rs,
  compile e o clk = COk c -> c_framed c = false ->
  file_records h c f = Some rs ->
  Forall (fun r => r = [] \/ last r 0 = 10) rs.

Check C16t.C16t_parser_tree : forall h e o clk c f rs,
  parser_tree e -> compile e o clk = COk c -> c_framed c = false ->
  file_records h c f = Some rs ->
  Forall (fun r => r = [] \/ last r 0 = 10) rs.

Check C16t.C16t_plain_files_records_terminated : forall h e o clk c fs rs,
  compile e o clk = COk c -> c_framed c = false ->
  files_records h c fs = Some rs ->
  Forall (fun r => r = [] \/ last r 0 = 10) rs.

Check C16t.C16t_plain_actions : forall a,
  ~ NeedsFrames a ->
  a = APrint \/ a = APrintFid \/ a = ADefaultPrint \/ a = AQuit \/ a = APrune \/ a = AList
  \/ a = APrintFormatted []
  \/ exists pre, a = APrintFormatted (pre ++ [ESpecial XNewline]).

Check C16t.C16t_format_newline : forall h t args s,
  format_sem h (t ++ [10]) args = Some s -> s <> [] /\ last s 0 = 10.

Check C16t.C16t_payload_newline : forall h pre x f s,
  compile_format (pre ++ [ESpecial XNewline]) = COk x ->
  sem_str h (erase x) f = Some s -> s <> [] /\ last s 0 = 10.
