(** The statements of C19e pinned by [Check name : statement]: a theorem cannot be weakened
    without this file failing to compile. *)
From Coq Require Import List String NArith Bool.
From FP Require Import Model.Chars Model.Ast Model.Compile Spec.Tree.
From FP Require Import Spec.FileRecord Spec.FindSem Spec.SchemePrelude Spec.PolicyCalls.
From FP Require Properties.C19e.
Import ListNotations.

Check C19e.C19_empty_format_plain :
  ~ NeedsFrames (APrintFormatted [])
  /\ complex_frames (EAction (APrintFormatted [])) = false
  /\ forall e,
       (forall a, Subterm (EAction a) e -> a = APrintFormatted [] \/ ~ NeedsFrames a) ->
       complex_frames e = false.
Check C19e.C19_empty_format_plain_compiled : forall e o clk c,
  compile e o clk = COk c ->
  (forall a, Subterm (EAction a) e -> a = APrintFormatted [] \/ ~ NeedsFrames a) ->
  c_framed c = false /\ c_iomap c = None.
Check C19e.C19_empty_format_meaning :
  exists c, compile (EAction (APrintFormatted [])) default_options [] = COk c
    /\ c_framed c = false /\ c_iomap c = None
    /\ forall h f, sem_policy h c f = Some (true, [(DStdout, [], None)], false)
                   /\ file_records h c f = Some [[]].
Check C19e.C19_empty_format_find : forall h clk f,
  feval h (EAction (APrintFormatted [])) clk f = (true, [(DStdout, [], None)], false).
