(** The statements of C13r pinned by [Check name : statement]: a theorem cannot be weakened
    without this file failing to compile. *)
From Coq Require Import List String NArith Bool.
From FP Require Import Model.Chars Model.Winnow Model.Ast Model.Args Model.Lex Model.Parse.
From FP Require Import Spec.Decimal Spec.Messages Spec.Refused.
From FP Require Properties.C13r.
Import ListNotations.
Local Open Scope N_scope.

Check C13r.C13r_words : forall K, refused_word K <-> K = "-maxdepth"%string \/ K = "-mindepth"%string.
Check C13r.C13r_explanations :
  not_supported = Some "This option is not supported by LiPE"%string
  /\ not_a_number = Some "Expected an unsigned integer"%string.
Check C13r.C13r_in_table : forall K, refused_word K ->
  In (K, KOption, LRefused, erased unsupported_u32) arg_table.
Check C13r.C13r_number_refused : forall K pre bl ds rest,
  refused_word K -> lexes_fine pre (chars K ++ bl ++ ds ++ rest) -> blanks bl ->
  digits ds -> ds <> [] -> not_starting_with digit rest -> pos_value ds < 2 ^ 32 ->
  parse (pre ++ chars K ++ bl ++ ds ++ rest)
  = ParseErr (failed_msg (next_word (ds ++ rest)) KOption K
                (Some "This option is not supported by LiPE"%string)).
Check C13r.C13r_any_number_refused : forall K pre bl ds rest,
  refused_word K -> lexes_fine pre (chars K ++ bl ++ ds ++ rest) -> blanks bl ->
  digits ds -> ds <> [] -> not_starting_with digit rest ->
  parse (pre ++ chars K ++ bl ++ ds ++ rest)
  = ParseErr (failed_msg (next_word (ds ++ rest)) KOption K
                (if pos_value ds <? 2 ^ 32 then not_supported else not_a_number)).
Check C13r.C13r_word_end_no_digit : forall rest, ends_word rest -> not_starting_with digit rest.
Check C13r.C13r_any_argument_refused : forall K pre bl a,
  refused_word K -> lexes_fine pre (chars K ++ bl ++ a) -> blanks bl ->
  head_in is_space a = false ->
  exists e, (e = not_supported \/ e = not_a_number)
    /\ parse (pre ++ chars K ++ bl ++ a) = ParseErr (failed_msg (next_word a) KOption K e).
Check C13r.C13r_no_blank_refused : forall K pre x,
  refused_word K -> lexes_fine pre (chars K ++ x) -> at_word_end x = true ->
  head_in is_space x = false ->
  parse (pre ++ chars K ++ x) = ParseErr (failed_msg (next_word x) KOption K None).
Check C13r.C13r_always_refused : forall K pre x,
  refused_word K -> lexes_fine pre (chars K ++ x) -> at_word_end x = true ->
  exists w e, parse (pre ++ chars K ++ x) = ParseErr (failed_msg w KOption K e).
Check C13r.C13r_never_ok : forall K pre x o e,
  refused_word K -> lexes_fine pre (chars K ++ x) -> at_word_end x = true ->
  parse (pre ++ chars K ++ x) <> ParseOk o e.
