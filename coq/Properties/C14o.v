(** C14o — "an octal escape takes at most three digits": in the model (following the code after
    repair D3) an octal escape takes EXACTLY three octal digits; the only shorter form is the
    lone \0 (NUL). A backslash followed by one or two octal digits and then something that is no
    octal digit is NOT an octal escape: the backslash stands for itself (or, after '0', is the
    NUL escape) and the digits are ordinary text. Stated with the relation [Seg] of
    Spec/FormatSpec.v and transferred to [parse_format] by C14_eq. Statements only; proofs are
    in Proofs/ShortOctal.v. ([chars "\12"] is the three characters backslash, '1', '2'.) *)
From Coq Require Import List String NArith Lia.
From FP Require Import Model.Chars Model.Winnow Model.Ast Model.Args Model.Format.
From FP Require Import Spec.Decimal Spec.FormatSpec Proofs.FormatSeg Proofs.ShortOctal.
From FP Require Model.Compile.
Import ListNotations.
Local Open Scope N_scope.

(** backslash, fewer than three octal digits [os], then [rest] not starting with an octal digit
    (the end of the string included): the element standing at the backslash is never an octal
    escape, whatever the segmentation of the whole string is *)
Theorem C14o_short_never_octal : forall os rest es,
  Forall Octal os -> (List.length os < 3)%nat -> not_starting_with Octal rest ->
  Seg (bsl :: os ++ rest) es -> forall n es', es <> ESpecial (XAscii n) :: es'.
Proof. exact short_never_octal. Qed.

(** after '0' (and at most one more octal digit): the NUL escape, then the segmentation of what
    follows the '0' *)
Theorem C14o_short_null : forall os' rest es,
  Forall Octal os' -> (List.length os' < 2)%nat -> not_starting_with Octal rest ->
  Seg (bsl :: 48 :: os' ++ rest) es ->
  exists es', es = ESpecial XNull :: es' /\ Seg (os' ++ rest) es'.
Proof. exact short_octal_null. Qed.

(** after an octal digit other than '0' (and at most one more octal digit): the backslash
    stands for itself and the digits open the literal that follows *)
Theorem C14o_short_backslash : forall c os' rest es,
  Octal c -> c <> 48 -> Forall Octal os' -> (List.length os' < 2)%nat ->
  not_starting_with Octal rest -> Seg (bsl :: c :: os' ++ rest) es ->
  exists l rest' es', es = ESpecial XBackslash :: ELit (c :: os' ++ l) :: es'
    /\ Forall Plain l /\ rest = l ++ rest' /\ Boundary rest' /\ Seg rest' es'.
Proof. exact short_octal_backslash. Qed.

(** the same three facts about what the model's parser returns *)
Theorem C14o_parse_short_never_octal : forall os rest es,
  Forall Octal os -> (List.length os < 3)%nat -> not_starting_with Octal rest ->
  parse_format (bsl :: os ++ rest) = (Ok es, []) -> forall n es', es <> ESpecial (XAscii n) :: es'.
Proof. exact pf_short_octal_head. Qed.
Theorem C14o_parse_short_null : forall os' rest es,
  Forall Octal os' -> (List.length os' < 2)%nat -> not_starting_with Octal rest ->
  parse_format (bsl :: 48 :: os' ++ rest) = (Ok es, []) ->
  exists es', es = ESpecial XNull :: es' /\ parse_format (os' ++ rest) = (Ok es', []).
Proof. exact pf_short_octal_null. Qed.
Theorem C14o_parse_short_backslash : forall c os' rest es,
  Octal c -> c <> 48 -> Forall Octal os' -> (List.length os' < 2)%nat ->
  not_starting_with Octal rest -> parse_format (bsl :: c :: os' ++ rest) = (Ok es, []) ->
  exists l rest' es', es = ESpecial XBackslash :: ELit (c :: os' ++ l) :: es'
    /\ Forall Plain l /\ rest = l ++ rest' /\ Boundary rest' /\ parse_format rest' = (Ok es', []).
Proof. exact pf_short_octal_backslash. Qed.

(** the codes of the octal escapes the parser yields have three octal digits, so they are at most
    0o777 = 511 and never surrogates: printing a surrogate code as '0' ([scalar_or_zero] of
    Model/Compile.v, reachable only through the public API) does not concern parsed input *)
Theorem C14o_parsed_codes_are_scalar : forall fmt i r n,
  parse_format i = (Ok fmt, r) -> In (ESpecial (XAscii n)) fmt ->
  n <= 511 /\ Compile.scalar_or_zero n = n.
Proof. exact parsed_codes_are_scalar. Qed.
(** the hypotheses are met (the largest code), and a surrogate code is indeed changed *)
Example C14o_parsed_codes_example :
  parse_format (chars "a\777") = (Ok [ELit (chars "a"); ESpecial (XAscii 511)], [])
  /\ In (ESpecial (XAscii 511)) [ELit (chars "a"); ESpecial (XAscii 511)]
  /\ Compile.scalar_or_zero 55296 = 48.
Proof. split; [vm_compute; reflexivity|split; [right; left; reflexivity|reflexivity]]. Qed.

(** the pinned instances: two digits, one digit, \0 alone and before one digit, two digits
    before a non-octal digit and before another escape; and, for contrast, three digits *)
Example C14o_pin :
  Seg (chars "\12") [ESpecial XBackslash; ELit (chars "12")]
  /\ Seg (chars "\7") [ESpecial XBackslash; ELit (chars "7")]
  /\ Seg (chars "\0") [ESpecial XNull]
  /\ Seg (chars "\01") [ESpecial XNull; ELit (chars "1")]
  /\ Seg (chars "\128") [ESpecial XBackslash; ELit (chars "128")]
  /\ Seg (chars "\12\n") [ESpecial XBackslash; ELit (chars "12"); ESpecial XNewline]
  /\ Seg (chars "\123") [ESpecial (XAscii 83)]
  /\ Seg (chars "\0123") [ESpecial (XAscii 10); ELit (chars "3")].
Proof. repeat split; apply parse_format_seg; vm_compute; reflexivity. Qed.
Example C14o_pin_parse :
  parse_format (chars "\12") = (Ok [ESpecial XBackslash; ELit (chars "12")], []).
Proof. vm_compute. reflexivity. Qed.

(** the hypotheses are met by the first pinned instance *)
Example C14o_example_hyps :
  Octal 49 /\ 49 <> 48 /\ Forall Octal [50] /\ (List.length [50] < 2)%nat
  /\ not_starting_with Octal [] /\ chars "\12" = bsl :: 49 :: [50] ++ [].
Proof.
  unfold Octal. repeat split; try lia; try discriminate.
  - repeat constructor; lia.
  - cbn. lia.
Qed.
