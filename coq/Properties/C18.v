(** C18 — Argument errors name the offending primary and word.
    Statements only; proofs are in Proofs/ErrorSane.v (all inputs), Proofs/FirstError.v (the
    error of [parse] is the error of the first failing token, wherever it stands),
    Proofs/TokenView.v (one equation for the forty argument-taking primaries) and
    Proofs/ErrorAttribution.v. Vocabulary: Spec/Messages.v — the two message formats
    ([unexpected_msg], [failed_msg], [quoted_in]), the table of argument-taking keywords with
    kind, argument language and argument parser ([arg_table]), "the prefix lexes fine"
    ([lexes_fine pre rest]: the model's own token parser consumes [pre] token by token and stops
    exactly at [rest]), "invalid from the first character" ([bad_start]). *)
From Coq Require Import List String NArith Bool Lia.
From FP Require Import Model.Chars Model.Winnow Model.Args Model.Lex Model.Parse.
From FP Require Import Spec.Decimal Spec.PermWord Spec.Messages Proofs.ErrorSane Proofs.ErrorAttribution.
From FP Require Spec.Chmod.
Import ListNotations.
Local Open Scope N_scope.

(** ** All inputs *)

(** whatever the input, an error message is never empty, has one of the two formats, and the
    word it quotes between back-quotes occurs (contiguously) in the input *)
Theorem C18_sane : forall s m,
  parse s = ParseErr m -> m <> [] /\ exists w, quoted_in m w /\ substring w s.
Proof. exact error_sane. Qed.

(** ** Missing argument: the keyword is the last thing in the input *)

(** for every argument-taking keyword, after every prefix that lexes fine *)
Theorem C18_missing_arg : forall K k l p pre,
  In (K, k, l, p) arg_table -> lexes_fine pre (chars K) ->
  parse (pre ++ chars K) = ParseErr (failed_msg [] k K (missing_expl l)).
Proof. exact missing_arg. Qed.

(** the two prefixes that need no hypothesis: nothing, and one valid primary *)
Theorem C18_missing_arg_first : forall K k l p,
  In (K, k, l, p) arg_table -> parse (chars K) = ParseErr (failed_msg [] k K (missing_expl l)).
Proof. exact missing_arg_first. Qed.
Theorem C18_missing_arg_after_true : forall K k l p,
  In (K, k, l, p) arg_table ->
  parse (chars "-true " ++ chars K) = ParseErr (failed_msg [] k K (missing_expl l)).
Proof. exact missing_arg_after_true. Qed.

(** ** Argument invalid from its first character *)

(** keyword, blanks, then a text [a] that is invalid from its first character for the
    keyword's argument language (or nothing at all): the message names the keyword and quotes
    the word standing at [a] *)
Theorem C18_invalid_arg : forall K k l p pre bl a e,
  In (K, k, l, p) arg_table -> lexes_fine pre (chars K ++ bl ++ a) -> blanks bl ->
  bad_start l a e ->
  parse (pre ++ chars K ++ bl ++ a) = ParseErr (failed_msg (next_word a) k K e).
Proof. exact invalid_arg. Qed.
Theorem C18_invalid_arg_first : forall K k l p bl a e,
  In (K, k, l, p) arg_table -> blanks bl -> bad_start l a e ->
  parse (chars K ++ bl ++ a) = ParseErr (failed_msg (next_word a) k K e).
Proof. exact invalid_arg_first. Qed.
Theorem C18_invalid_arg_after_true : forall K k l p bl a e,
  In (K, k, l, p) arg_table -> blanks bl -> bad_start l a e ->
  parse (chars "-true " ++ chars K ++ bl ++ a) = ParseErr (failed_msg (next_word a) k K e).
Proof. exact invalid_arg_after_true. Qed.

(** the -perm word: after the optional '/' or '-' comes neither an octal digit nor one of
    u, g, o, a (an empty body included) *)
Theorem C18_invalid_perm : forall pre bl (sg : Chmod.prefix) body rest,
  lexes_fine pre (chars "-perm" ++ bl ++ (Chmod.prefix_str sg ++ body) ++ rest) -> blanks bl ->
  bare_word (Chmod.prefix_str sg ++ body) -> ends_word rest ->
  stops is_oct body -> stops (in_str "ugoa") body ->
  stops (fun c => (c =? 47) || (c =? 45)) body ->
  parse (pre ++ chars "-perm" ++ bl ++ (Chmod.prefix_str sg ++ body) ++ rest)
  = ParseErr (failed_msg (Chmod.prefix_str sg ++ body) KTest "-perm"
                (Some "Invalid permission format"%string)).
Proof. exact invalid_perm_start. Qed.

(** more generally: ANY failure of the keyword's argument parser (invalid later in the word,
    out of range, bad unit, ...) is reported as a failure of that keyword, quoting the word
    standing where the argument parser stopped *)
Theorem C18_any_arg_failure : forall K k l p pre bl a (b : bool) c r2,
  In (K, k, l, p) arg_table -> lexes_fine pre (chars K ++ bl ++ a) -> blanks bl ->
  head_in is_space a = false -> p a = ((if b then Cut c else Back c), r2) ->
  exists e, parse (pre ++ chars K ++ bl ++ a) = ParseErr (failed_msg (next_word r2) k K e).
Proof. exact arg_error_named. Qed.

(** ** A word that is no keyword at all *)
Theorem C18_unknown_word : forall pre i,
  unknown_at i = true -> i <> [] -> lexes_fine pre i ->
  parse (pre ++ i) = ParseErr (unexpected_msg (next_word i)).
Proof. exact unknown_word. Qed.

(** ** The quoted word *)

(** nothing to quote: end of input or a closing parenthesis *)
Theorem C18_quoted_nothing : forall a, no_word a -> next_word a = [].
Proof. exact next_word_no_word. Qed.
(** a bare word is quoted as it stands *)
Theorem C18_quoted_bare : forall w rest, bare_word w -> ends_word rest -> next_word (w ++ rest) = w.
Proof. exact next_word_bare. Qed.
(** a double-quoted string is quoted without its quotes *)
Theorem C18_quoted_dquoted : forall w rest,
  forallb (fun c => negb (c =? 34)) w = true -> next_word (34 :: w ++ 34 :: rest) = w.
Proof. exact next_word_dquoted. Qed.

(** ** Prefixes that lex fine *)
Theorem C18_prefix_nil : forall rest, head_in is_space rest = false -> lexes_fine [] rest.
Proof. exact lexes_fine_nil. Qed.
Theorem C18_prefix_true : forall rest,
  head_in is_space rest = false -> lexes_fine (chars "-true ") rest.
Proof. exact lexes_fine_true. Qed.

(** ** Non-vacuity *)

(** a three-primary prefix with a quoted string, operators and parentheses lexes fine *)
Example C18_example_prefix :
  lexes_fine (chars "-name ""a b"" -o ( ! -uid +5 ) -a ") (chars "-size x").
Proof.
  unfold lexes_fine.
  match goal with
  | |- lexes_to ?x ?y =>
      let x' := eval vm_compute in x in let y' := eval vm_compute in y in change (lexes_to x' y')
  end.
  repeat (eapply lexes_step; [vm_compute; reflexivity|]). apply lexes_here.
Qed.

(** the hypotheses of [C18_invalid_arg] are met ... *)
Example C18_example_hyps :
  In ("-size"%string, KTest, LSize, erased (parse_cmp parse_size)) arg_table
  /\ blanks (chars " ")
  /\ bad_start LSize (chars "x") (Some "Expected an unsigned integer"%string)
  /\ bad_start LSize (chars "+k") (Some "Expected an unsigned integer"%string)
  /\ bad_start LTypes (chars "x,f") (Some "Found an invalid type specifier"%string)
  /\ bad_start LString [] (Some "Expected a string"%string)
  /\ next_word (chars "x") = chars "x".
Proof.
  repeat split; try reflexivity; try discriminate.
  - unfold arg_table. do 25 right. left. reflexivity.
  - cbn. unfold digit. lia.
  - cbn. unfold digit. lia.
  - left. reflexivity.
Qed.

(** ... and this is what the model says on that input, and on a few others *)
Example C18_example_eval :
  parse (chars "-name ""a b"" -o ( ! -uid +5 ) -a -size x")
  = ParseErr (chars "Syntax error: Failed to parse argument `x` of test `-size`: Expected an unsigned integer")
  /\ parse (chars "-depth -a -threads")
     = ParseErr (chars "Syntax error: Failed to parse argument `` of global option `-threads`")
  /\ parse (chars "-fprintf")
     = ParseErr (chars "Syntax error: Failed to parse argument `` of action `-fprintf`: filename_and_format")
  /\ parse (chars "-type f,x")
     = ParseErr (chars "Syntax error: Failed to parse argument `x` of test `-type`: Found an invalid type specifier")
  /\ parse (chars "-true -namex foo")
     = ParseErr (chars "Syntax error: Unexpected token: `-namex`")
  /\ parse (chars "-perm -x+r")
     = ParseErr (chars "Syntax error: Failed to parse argument `-x+r` of test `-perm`: Invalid permission format").
Proof. repeat split; vm_compute; reflexivity. Qed.
