From Coq Require Import List NArith Bool String.
From FP Require Import Model.Chars Model.Ast Model.Sexp Model.Lex Model.Parse Model.Compile.
From FP Require Import Proofs.RenderFacts Proofs.OptionsFacts.
From FP Require Properties.C13.
Import ListNotations.
Local Open Scope string_scope.
Check C13.C13_last_wins_inside_true : forall ts o,
  forallb supported_opt (globals_of ts) = true ->
  replace_globals o ts =
    Some ({| opt_depth := any_depth (opt_depth o) (globals_of ts);
             opt_threads := last_threads (opt_threads o) (globals_of ts) |}, map detrue ts).
Check C13.C13_leading_run : forall gs o,
  forallb supported_opt gs = true ->
  update_all o gs = Some {| opt_depth := any_depth (opt_depth o) gs;
                            opt_threads := last_threads (opt_threads o) gs |}.
Check C13.C13_never_in_tree : forall s o e, parse s = ParseOk o e -> no_global e.
Check C13.C13_threads_emitted : forall e o clk c p, compile e o clk = COk c ->
  option_map (fun args => nth 4 args (SList [])) (scan_call (erase (snd (render c p))))
  = Some match opt_threads o with
         | Some n => SAtom (print_dec n)
         | None => SList [SAtom (chars "lipe-getopt-thread-count")]
         end.
