(** C03 — Totality: every input gets an answer, never a crash or hang.
    Every Rust panic site is an explicit outcome of the model ([Panic] of the winnow loops,
    [ParsePanic] of [RunOptions::update], [CPanic] of the compiler's [unreachable!()] arms);
    the model is made of total Gallina functions, so termination holds by construction and
    these statements say the panic outcomes are unreachable — for ALL input strings, of any
    length and nesting depth. Statements only; proofs are in Proofs/. *)
From Coq Require Import List String NArith Bool.
From FP Require Import Model.Chars Model.Ast Model.Parse Model.Compile Spec.TreeShape Proofs.Totality
  Proofs.CompileTotal.
Import ListNotations.

(** parsing never panics ... *)
Theorem C03_parse_total : forall s site, parse s <> ParsePanic site.
Proof. exact parse_no_panic. Qed.

(** ... so it returns a result or an error value *)
Theorem C03_parse_answer : forall s,
  (exists o e, parse s = ParseOk o e) \/ (exists m, parse s = ParseErr m).
Proof. exact parse_total. Qed.

(** a returned tree has no precedence marker, no option node, no positional placeholder and no
    implicit print action *)
Theorem C03_tree_shape : forall s o e, parse s = ParseOk o e -> parser_tree e.
Proof. exact parse_tree_shape. Qed.

(** compiling such a tree never panics, whatever the options and the clock readings *)
Theorem C03_compile_total : forall e, parser_tree e ->
  forall o clk site, compile e o clk <> CPanic site.
Proof. exact compile_no_panic. Qed.

(** rendering: [scheme_text] and [render] are plain total functions of the model -- their type has
    no panic outcome, the Rust [scheme()] being one [format!] over already built strings -- so there
    is nothing to state here that would not be vacuous; what the rendered text IS, for every
    compiled program and device path, is C04_reads_back and C20_text_split *)

(** both kinds of error render to a non-empty text *)
Theorem C03_display_total :
  (forall s m, parse s = ParseErr m -> m <> []) /\
  (forall k n, compile_error_text k n <> []).
Proof. exact display_total. Qed.

(** end to end: any input, any clock: an error message, or a tree that compiles to a program
    or to a compile error with a message *)
Theorem C03_pipeline_total : forall s clk,
  (exists m, parse s = ParseErr m /\ m <> []) \/
  (exists o e, parse s = ParseOk o e /\
     ((exists c, compile e o clk = COk c) \/
      (exists k n, compile e o clk = CErr k n /\ compile_error_text k n <> []))).
Proof. exact pipeline_total. Qed.

(** non-vacuity: each branch is inhabited — an input with a leading option, nesting, every
    operator, a misplaced option and a format string parses to a [parser_tree] and compiles;
    one is refused by the parser; one parses and is refused by the compiler *)
Example C03_example :
  let s1 := chars "-depth ( -name '*.c' -o ! -size +1k ) -threads 4 , -printf '%p\n'" in
  (exists o e c, parse s1 = ParseOk o e /\ parser_tree e /\ compile e o [] = COk c)
  /\ (exists m, parse (chars "-maxdepth 3") = ParseErr m)
  /\ (exists o e, parse (chars "-name a -prune") = ParseOk o e
                  /\ compile e o [] = CErr UnsupportedAction "Prune").
Proof.
  cbv zeta. split; [|split].
  - eexists. eexists. eexists. split; [vm_compute; reflexivity|]. split.
    + repeat constructor; discriminate.
    + vm_compute. reflexivity.
  - eexists. vm_compute. reflexivity.
  - eexists. eexists. split; vm_compute; reflexivity.
Qed.
