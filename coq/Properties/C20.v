(** C20 — Compile once, render for any device: only the device path varies. *)
From Coq Require Import List NArith String.
From FP Require Import Model.Chars Model.Ast Model.Sexp Model.Compile Proofs.RenderFacts.
From FP Require Import Spec.GuileReader Proofs.Corollaries.
Import ListNotations.
Local Open Scope string_scope.

(** the first top-level form does not depend on the device path at all *)
Theorem C20_first_form : forall c p1 p2, fst (render c p1) = fst (render c p2).
Proof. exact render_fst_indep. Qed.

(** the second form is a fixed context of the compiled expression with exactly one hole, filled
    by the string node that decodes to the path given — for every path, whatever its characters *)
Theorem C20_one_place : forall c p, erase (snd (render c p)) = program_ctx c (SStr p).
Proof. exact render_snd_erase. Qed.

(** the hole really is a place of the program: different fillings give different programs *)
Theorem C20_hole_injective : forall c x y, program_ctx c x = program_ctx c y -> x = y.
Proof. exact program_ctx_inj. Qed.

(** the hole is the first argument of the scan call *)
Theorem C20_is_scan_device : forall c p,
  option_map (@hd sexp (SList [])) (scan_call (erase (snd (render c p)))) = Some (SStr p).
Proof. intros c p. rewrite render_snd_erase, scan_call_ctx. reflexivity. Qed.

(** the same at the level of the emitted TEXT (with C04): the program reads back as a first form
    that does not depend on the path and the fixed context filled with the string node that
    decodes to the path given *)
Theorem C20_text : forall e o clk c p, compile e o clk = COk c ->
  read_all (scheme_text c p) = Some [erase (fst (render c [])); program_ctx c (SStr p)].
Proof. exact render_text_one_place. Qed.

Example C20_example :
  exists c, compile (EAction APrint) default_options [] = COk c
  /\ erase (snd (render c (chars "a""b\"))) = program_ctx c (SStr (chars "a""b\"))
  /\ print (snd (render c (chars "a""b\"))) <> print (snd (render c (chars "a""b"))).
Proof. eexists. split; [reflexivity|]. split; [apply render_snd_erase|]. vm_compute. discriminate. Qed.
