(** The statements of C05r (the rejecting half of C05) pinned by [Check name : statement]. *)
From Coq Require Import List String NArith Bool.
From FP Require Import Model.Chars Model.Winnow Model.Args Model.Perm Model.Lex Model.Parse.
From FP Require Import Spec.Decimal Spec.Numeric Spec.PermWord Spec.Messages.
From FP Require Properties.C05r.
Import ListNotations.
Local Open Scope N_scope.

Check C05r.C05r_reject_word_token : forall i,
  unknown_at i = true -> parse_token i = (Back [Expected "invalid_token"; Label "syntax"], i).

Check C05r.C05r_reject_word : forall pre i,
  unknown_at i = true -> i <> [] -> lexes_fine pre i ->
  parse (pre ++ i) = ParseErr (unexpected_msg (next_word i)).

Check C05r.C05r_vocabulary : vocabulary_recognised.

Check C05r.C05r_reject_arg_token : forall K k l p bl a r2,
  In (K, k, l, p) arg_table -> blanks bl -> head_in is_space a = false ->
  p a = (Ok tt, r2) -> at_word_end r2 = false ->
  parse_token (chars K ++ bl ++ a)
  = (Back [Expected "invalid_token"; Label "syntax"], chars K ++ bl ++ a).

Check C05r.C05r_reject_arg : forall K k l p pre bl a r2,
  In (K, k, l, p) arg_table -> lexes_fine pre (chars K ++ bl ++ a) -> blanks bl ->
  head_in is_space a = false -> p a = (Ok tt, r2) -> at_word_end r2 = false ->
  parse (pre ++ chars K ++ bl ++ a) = ParseErr (unexpected_msg (chars K)).

Check C05r.C05r_reject_arg_failure : forall K k l p pre bl a (b : bool) c r2,
  In (K, k, l, p) arg_table -> lexes_fine pre (chars K ++ bl ++ a) -> blanks bl ->
  head_in is_space a = false -> p a = ((if b then Cut c else Back c), r2) ->
  exists e, parse (pre ++ chars K ++ bl ++ a) = ParseErr (failed_msg (next_word r2) k K e).

Check C05r.C05r_count_junk : forall K k p pre bl sg ds j,
  In (K, k, LCount, p) arg_table -> lexes_fine pre (chars K ++ bl ++ prefix_str sg ++ ds ++ j) ->
  blanks bl -> digits ds -> ds <> [] -> pos_value ds < 2 ^ 32 ->
  not_starting_with digit j -> at_word_end j = false ->
  parse (pre ++ chars K ++ bl ++ prefix_str sg ++ ds ++ j) = ParseErr (unexpected_msg (chars K)).

Check C05r.C05r_size_junk : forall pre bl sg ds u j,
  lexes_fine pre (chars "-size" ++ bl ++ prefix_str sg ++ ds ++ size_letter u :: j) ->
  blanks bl -> digits ds -> ds <> [] -> pos_value ds < 2 ^ 64 -> at_word_end j = false ->
  parse (pre ++ chars "-size" ++ bl ++ prefix_str sg ++ ds ++ size_letter u :: j)
  = ParseErr (unexpected_msg (chars "-size")).

Check C05r.C05r_perm_word : forall pre bl o rest,
  lexes_fine pre (chars "-perm" ++ bl ++ o ++ rest) -> blanks bl ->
  bare_word o -> ends_word rest -> is_ok (fst (perm_word o)) = false ->
  exists e, parse (pre ++ chars "-perm" ++ bl ++ o ++ rest)
            = ParseErr (failed_msg o KTest "-perm" e).
