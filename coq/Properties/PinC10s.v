(** The statements of C10s pinned by [Check name : statement]. *)
From Coq Require Import List String NArith Bool.
From FP Require Import Model.Chars Model.Ast Model.Sexp Model.Compile Spec.Resources.
From FP Require Properties.C10s.
Import ListNotations.
Local Open Scope N_scope.

Check C10s.C10s_tag_bound : forall e o clk c tbl i t,
  compile e o clk = COk c -> c_iomap c = Some tbl -> In (i, t) tbl ->
  has_action e = true /\ i < 2 + 3 * leaves e.
Check C10s.C10s_tag_not_surrogate : forall e o clk c tbl i t,
  compile e o clk = COk c -> c_iomap c = Some tbl -> In (i, t) tbl ->
  leaves e <= 18431 -> i < 55296.
