From Coq Require Import List String NArith Bool.
From FP Require Import Model.Chars Model.Ast Model.Sexp Model.Compile Spec.Tree Proofs.ImplicitPrint.
From FP Require Import Spec.FileRecord Spec.FindSem.
From FP Require Properties.C09.
Import ListNotations.
Check C09.C09_added : forall e o clk c,
  has_action e = false -> compile e o clk = COk c ->
  exists x s', compile_expr e {| st_mgr := if complex_frames e then MD dmgr_init else ML lmgr_init;
                                  st_clock := clk |} = COk (x, s')
    /\ c_body c = lst [atom "and"; x; lst [atom "print-relative-path"]].
Check C09.C09_not_added : forall e o clk c,
  has_action e = true -> no_default e = true -> compile e o clk = COk c ->
  atom_occurs prp (c_body c) = false.
Check C09.C09_action_anywhere : forall e, has_action e = true <-> exists a, Subterm (EAction a) e.
Check C09.C09_meaning : forall h e clk f, has_action e = false ->
  feval h (wrap e) clk f =
    (fst (fst (feval h e clk f)),
     if fst (fst (feval h e clk f)) then [(DStdout, f_relative_path f, Some 10%N)] else [],
     false).
