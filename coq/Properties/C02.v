(** C02 — Compiled policy means what the expression means (translation validity).
    Statements only; proofs are in Proofs/.  The two sides are SPECIFICATIONS:
      Spec/FindSem.v       [feval]: find's rules on an expression tree and a file record;
      Spec/SchemeSem.v     [sem_bool]: the meaning of the emitted Guile/LiPE forms;
      Spec/SchemePrelude.v [sem_policy], [sem_forms]: the meaning of the [let*] prelude and of the
                           whole emitted program;
      Spec/SchemeEnv.v     [env_agrees]: an environment binds the manager's generated names to
                           what the table entries stand for;
      Spec/FileRecord.v    the file record and the uninterpreted host primitives, with the one
                           assumed law [host_law].
    A result is (truth value, writes in order as (destination, payload, terminator), stop request);
    [None] on the emitted side is a run-time failure, so [= Some ...] also says: never fails. *)
From Coq Require Import List String NArith ZArith Bool.
From FP Require Import Model.Chars Model.Ast Model.Sexp Model.Compile
  Spec.Unsupported Spec.GuileReader Spec.FileRecord Spec.FindSem Spec.SchemeSem Spec.SchemeEnv
  Spec.SchemePrelude
  Proofs.Translation Proofs.PreludeSound.
Import ListNotations.
Local Open Scope N_scope.

(** every expression that compiles -- from any compiler state, to code [x] -- means, under ANY
    environment that agrees with the tables of the manager then or at any later time, exactly
    what find's rules say, on every file where the expression is defined (%S needs a non-zero
    size), formats with %a %c %t excepted (known finding D17, see [C02_ctime_refuted]).
    The clock readings are consumed as the compiler consumes them. *)
Theorem C02_valid : forall h, host_law h -> forall e s x s' mf env f,
  compile_expr e s = COk (x, s') ->
  ctime_free e = true -> defined e f = true ->
  mgr_le (st_mgr s') mf -> env_agrees env mf ->
  sem_bool h env (erase x) f = Some (feval h e (st_clock s) f).
Proof. exact compile_expr_sound. Qed.

(** stated from the table of unsupported constructs: such an expression does compile, and ... *)
Theorem C02_valid_supported : forall h, host_law h -> forall e s,
  first_unsupported e = None -> compilable_shape e = true ->
  exists x s', compile_expr e s = COk (x, s')
    /\ forall mf env f, ctime_free e = true -> defined e f = true ->
         mgr_le (st_mgr s') mf -> env_agrees env mf ->
         sem_bool h env (erase x) f = Some (feval h e (st_clock s) f).
Proof. exact supported_sound. Qed.

(** lifted to [compile]: the body means the expression with the implicit print added, under any
    environment agreeing with the final manager tables *)
Theorem C02_compile_env : forall h, host_law h -> forall e o clk c mf env f,
  compile e o clk = COk c -> ctime_free e = true -> defined e f = true ->
  final_mgr e clk = Some mf -> env_agrees env mf ->
  sem_bool h env (erase (c_body c)) f = Some (feval h (wrap e) clk f).
Proof. exact compile_sound_env. Qed.

(** ... and in particular under the environment that the emitted prelude itself denotes, in the
    local mode and in the distributed (framed) mode with the returned io-map: the compiled policy
    means the expression *)
Theorem C02_compile : forall h, host_law h -> forall e o clk c f,
  compile e o clk = COk c -> ctime_free e = true -> defined e f = true ->
  sem_policy h c f = Some (feval h (wrap e) clk f).
Proof. exact compile_sound. Qed.

(** ... and so does the emitted TEXT, read back by the reader of C04 *)
Theorem C02_text : forall h, host_law h -> forall e o clk c f mdt,
  compile e o clk = COk c -> ctime_free e = true -> defined e f = true ->
  exists forms, read_all (scheme_text c mdt) = Some forms
                /\ sem_forms h (c_iomap c) forms f = Some (feval h (wrap e) clk f).
Proof. exact text_sound. Qed.

(** REFUTED for %a %c %t (known finding D17): find prints the time in ctime(3) layout, the
    emitted policy prints the decimal seconds -- for every host and every file; the two differ
    as soon as the host's ctime rendering is not the decimal number *)
Theorem C02_ctime_refuted : forall h f,
  let e := EAction (APrintFormatted [EField FAccess; ESpecial XNewline]) in
  exists c, compile e default_options [] = COk c
    /\ sem_policy h c f = Some (true, [(DStdout, print_dec (f_atime f) ++ [10], None)], false)
    /\ feval h (wrap e) [] f = (true, [(DStdout, ctime_text h (f_atime f) ++ [10], None)], false).
Proof. exact ctime_field_differs. Qed.

(** why [defined] is there: for %S on an empty file the emitted policy divides by zero -- a
    run-time failure (find leaves the value undefined in that case) -- for every host *)
Theorem C02_sparseness_zero_fails : forall h f, f_size f = 0 ->
  let e := EAction (APrintFormatted [EField FSparseness; ESpecial XNewline]) in
  exists c, compile e default_options [] = COk c /\ defined e f = false /\ sem_policy h c f = None.
Proof. exact sparseness_zero_fails. Qed.

(** non-vacuity and a concrete evaluation of both sides: a toy host (globs match everything,
    plain patterns by equality, -i by lower-casing ASCII), one file record, a mixed expression in
    the local mode and one in the distributed mode; all hypotheses of the theorems hold *)
Example C02_example :
  let lower := fun c : N => if (65 <=? c) && (c <=? 90) then c + 32 else c in
  let ci_eq := fun p s : str => str_eqb (map lower p) (map lower s) in
  let h := {| fnmatch := fun ci p s =>
                if plain_pattern p then (if ci then ci_eq p s else str_eqb p s) else true;
              streq_ci := ci_eq;
              xattr_match := fun _ _ _ => false;
              strftime_text := fun c t => c :: 61 :: print_dec t;
              dirname := fun s => chars "d";
              type_char := fun m => if N.land m 61440 =? 32768 then chars "f" else chars "?";
              ratio_text := fun a b => print_dec a ++ [47] ++ print_dec b;
              ctime_text := fun t => chars "ctime" |} in
  let f := {| f_size := 1025; f_mode := 33188 (* 0o100644 *); f_uid := 1000; f_gid := 100;
              f_ino := 42; f_nlink := 1; f_atime := 1000; f_ctime := 2000; f_mtime := 3000;
              f_blocks := 8; f_projid := 7; f_stripe_count := 2; f_stripe_size := 1048576;
              f_mirror_count := 1;
              f_name := chars "A.txt"; f_relative_path := chars "d/A.txt";
              f_absolute_path := chars "/mnt/d/A.txt"; f_fid := chars "[0x1:0x2:0x0]";
              f_user := chars "bob"; f_group := chars "users"; f_mount_path := chars "/mnt";
              f_pools := [chars "fast"]; f_xattrs := [(chars "user.k", chars "v")];
              f_empty := false; f_executable := false; f_readable := true; f_writable := true |} in
  let fmt := [ELit (chars "x~y "); EField FDiskSizeBytes; ESpecial XTabHorizontal; EField FSparseness;
              ELit [32]; EField FPermissionsOctal; ELit [32]; EField (FModifyFormatted 72); ELit [32];
              EField (FAccessFormatted 64); ELit [32]; EField (FXAttr (chars "user.k"));
              EField FDiskSizeKilos; EField FType; EField FPercent; ESpecial XNewline] in
  (* -iname a.txt -o -size +1k, then -mtime -3 -printf fmt , ! -type d,l ( -perm /2 -o -quit ) *)
  let e1 := EAnd (EOr (ETest (TInsensitiveName (chars "a.txt"))) (ETest (TSize (Gt (Size UKilo 1)))))
              (EAnd (ETest (TModifyTime (Lt (Time UDay 3))))
                 (EList (EAction (APrintFormatted fmt))
                    (EAnd (ENot (ETest (TType [FDirectory; FLink])))
                          (EOr (ETest (TPerm PAny 2)) (EAction AQuit))))) in
  (* ( -name 'x*' -fprint0 out -o -false ) -size 2k -xattr-match user.k v -print-file-fid :
     file output makes it the distributed mode *)
  let e2 := EAnd (EOr (EAnd (ETest (TName (chars "x*"))) (EAction (AFilePrintNull (chars "out"))))
                      (ETest TFalse))
                 (EAnd (ETest (TSize (Eq (Size UKilo 2))))
                       (EAnd (ETest (TXattrMatch (chars "user.k") (chars "v"))) (EAction APrintFid))) in
  (* -pool fast : no action, so the implicit print is added *)
  let e3 := ETest (TPool (chars "fast")) in
  host_law h
  /\ first_unsupported e1 = None /\ compilable_shape e1 = true /\ ctime_free e1 = true
  /\ defined e1 f = true
  /\ (exists c, compile e1 default_options [200000] = COk c /\ c_framed c = false
        /\ sem_policy h c f = Some (feval h (wrap e1) [200000] f))
  /\ feval h (wrap e1) [200000] f
     = (true, [(DStdout, chars "x~y 1025" ++ [9] ++ chars "4096/1025 644 H=3000 1000 v4f%" ++ [10], None)],
        true)
  /\ (exists c, compile e2 default_options [] = COk c /\ c_framed c = true
        /\ sem_policy h c f = Some (feval h (wrap e2) [] f))
  /\ feval h (wrap e2) [] f
     = (true, [(DFile (chars "out"), chars "d/A.txt", Some 0);
               (DStdout, chars "[0x1:0x2:0x0]", Some 10)], false)
  /\ (exists c, compile e3 default_options [] = COk c /\ c_framed c = false
        /\ sem_policy h c f = Some (feval h (wrap e3) [] f))
  /\ feval h (wrap e3) [] f = (true, [(DStdout, chars "d/A.txt", Some 10)], false).
Proof.
  intros lower ci_eq h f fmt e1 e2 e3. split.
  - intros p s Hp. subst h. cbn [fnmatch streq_ci]. rewrite Hp. split; reflexivity.
  - repeat split; try (vm_compute; reflexivity);
      (eexists; split; [vm_compute; reflexivity|]; split; vm_compute; reflexivity).
Qed.

(** the refutation evaluated: the policy writes "1000\n" where find writes the ctime(3) text *)
Example C02_ctime_example :
  let h := {| fnmatch := fun _ p s => str_eqb p s; streq_ci := str_eqb;
              xattr_match := fun _ _ _ => false; strftime_text := fun _ _ => [];
              dirname := fun s => s; type_char := fun _ => []; ratio_text := fun _ _ => [];
              ctime_text := fun _ => chars "Thu Jan  1 00:16:40 1970" |} in
  let f := {| f_size := 0; f_mode := 0; f_uid := 0; f_gid := 0; f_ino := 0; f_nlink := 0;
              f_atime := 1000; f_ctime := 0; f_mtime := 0; f_blocks := 0; f_projid := 0;
              f_stripe_count := 0; f_stripe_size := 0; f_mirror_count := 0;
              f_name := []; f_relative_path := []; f_absolute_path := []; f_fid := [];
              f_user := []; f_group := []; f_mount_path := []; f_pools := []; f_xattrs := [];
              f_empty := true; f_executable := false; f_readable := false; f_writable := false |} in
  let e := EAction (APrintFormatted [EField FAccess; ESpecial XNewline]) in
  host_law h /\ ctime_free e = false
  /\ exists c, compile e default_options [] = COk c
       /\ sem_policy h c f = Some (true, [(DStdout, chars "1000" ++ [10], None)], false)
       /\ feval h (wrap e) [] f = (true, [(DStdout, chars "Thu Jan  1 00:16:40 1970" ++ [10], None)], false).
Proof.
  intros h f e. split; [|split; [reflexivity|]].
  - intros p s Hp. split; reflexivity.
  - eexists. split; [vm_compute; reflexivity|]. split; vm_compute; reflexivity.
Qed.
