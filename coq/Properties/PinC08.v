(** The statements of C08 pinned by [Check name : statement]: a theorem cannot be weakened
    without this file failing to compile. *)
From Coq Require Import List String NArith Bool.
From FP Require Import Model.Chars Model.Winnow Model.Ast Model.Args Model.Perm.
From FP Require Import Spec.Chmod Spec.PermWord.
From FP Require Properties.C08.
Import ListNotations.
Local Open Scope N_scope.

Check C08.C08_perm_word : parse_perm_arg = and_then quote_delimiter perm_word.
Check C08.C08_oct_value : forall ds, oct_value ds = pos_value8 ds.
Check C08.C08_octal : forall p ds,
  oct_digits ds -> (3 <= List.length ds)%nat -> pos_value8 ds <= 4095 ->
  perm_word (prefix_str p ++ ds) = (Ok (kind_of p, pos_value8 ds), []).
Check C08.C08_octal_reject : forall p ds,
  oct_digits ds -> (3 <= List.length ds)%nat -> 4095 < pos_value8 ds ->
  perm_word (prefix_str p ++ ds)
  = (Cut [Expected "invalid_permission_format"; Label "permission"; Label "permission_comparison"], ds).
Check C08.C08_symbolic : forall p cls,
  cls <> [] -> perm_word (prefix_str p ++ render_clauses cls) = (Ok (kind_of p, code_chmod cls), []).
Check C08.C08_chmod_no_minus : forall cls, no_minus cls -> code_chmod cls = chmod cls.
Check C08.C08_minus_refuted : exists cls, code_chmod cls <> chmod cls.
Check C08.C08_minus_code : forall m c,
  clause_op c = ODel ->
  code_apply m c = N.ldiff m (N.land (clause_W c) (N.ldiff 4095 (clause_P c)))
  /\ (m < 4096 ->
      code_apply m c = N.land m (N.lnot (N.land (clause_W c) (N.lnot (clause_P c) 12)) 12)).
Check C08.C08_minus_chmod : forall m c,
  clause_op c = ODel -> m < 4096 ->
  apply_clause m c = N.land m (N.lnot (N.land (clause_W c) (clause_P c)) 12).
Check C08.C08_prefix : forall w k bits r,
  perm_word w = (Ok (k, bits), r) ->
  exists p c body,
    w = prefix_str p ++ c :: body /\ k = kind_of p /\ r = [] /\
    (is_oct c = true \/ in_str "ugoa" c = true).
Check C08.C08_check_equal : forall bits mode,
  perm_holds PEqual bits mode = true <-> forall n, N.testbit bits n = (n <? 12) && N.testbit mode n.
Check C08.C08_check_atleast : forall bits mode,
  perm_holds PAtLeast bits mode = true <->
  forall n, N.testbit bits n = true -> N.testbit mode n = true.
Check C08.C08_check_any : forall bits mode,
  perm_holds PAny bits mode = true <->
  exists n, N.testbit bits n = true /\ N.testbit mode n = true.
Check C08.C08_octal_junk : forall p ds c j,
  oct_digits ds -> (3 <= List.length ds)%nat -> is_oct c = false ->
  is_ok (fst (perm_word (prefix_str p ++ ds ++ c :: j))) = false.
Check C08.C08_symbolic_junk : forall p cls c j,
  cls <> [] -> in_str "rwx," c = false ->
  perm_word (prefix_str p ++ render_clauses cls ++ c :: j)
  = (Back [Expected "invalid_permission_format"], c :: j).
Check C08.C08_arg_octal : forall p ds rest,
  oct_digits ds -> (3 <= List.length ds)%nat -> pos_value8 ds <= 4095 -> stops bare_char rest ->
  parse_perm_arg (prefix_str p ++ ds ++ rest) = (Ok (kind_of p, pos_value8 ds), rest).
Check C08.C08_arg_symbolic : forall p cls rest,
  cls <> [] -> stops bare_char rest ->
  parse_perm_arg (prefix_str p ++ render_clauses cls ++ rest) = (Ok (kind_of p, code_chmod cls), rest).
