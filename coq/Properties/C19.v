(** C19 — Tree query helpers agree with the tree. Statements only; proofs are in Proofs/. *)
From Coq Require Import List NArith Bool.
From FP Require Import Model.Chars Model.Ast Spec.Tree Proofs.TreeHelpers.
Import ListNotations.
Local Open Scope N_scope.

(** 'contains an action' is true exactly when an action node occurs at some depth — for every
    tree of the public types, including precedence, option and nested ',' nodes *)
Theorem C19_action : forall e, has_action e = true <-> exists a, Subterm (EAction a) e.
Proof. exact has_action_iff. Qed.

(** 'needs framed output' is true exactly when some action occurrence writes to a file, is
    NUL-terminated, or is a formatted print whose last element is not the newline escape *)
Theorem C19_frames : forall e,
  complex_frames e = true <-> exists a, Subterm (EAction a) e /\ NeedsFrames a.
Proof. exact complex_frames_iff. Qed.

(** the unit helpers *)
Theorem C19_units :
  map size_mult [UByte; UWord; UBlock; UKilo; UMega; UGiga; UTera]
    = [1; 2; 512; 2^10; 2^20; 2^30; 2^40]
  /\ map time_secs [USecond; UMinute; UHour; UDay] = [1; 60; 3600; 86400].
Proof. split; reflexivity. Qed.

(** the byte size of a size literal is count times unit whenever that fits the result type,
    in either build profile *)
Theorem C19_byte_size : forall p u n,
  n * size_mult u < 2^64 -> byte_size p (Size u n) = Some (n * size_mult u).
Proof. exact byte_size_exact. Qed.

(** non-vacuity: the hypotheses are met by trees the parser never returns *)
Example C19_example :
  let e := EList (EPrec (ENot (EGlobal GDepth)))
                 (EOr EPositional (EAction (APrintFormatted [ESpecial XNewline; ELit [65]]))) in
  has_action e = true /\ complex_frames e = true.
Proof. split; reflexivity. Qed.
