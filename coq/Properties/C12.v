(** C12 — Unsupported constructs are refused, never silently dropped. *)
From Coq Require Import List String NArith Bool.
From FP Require Import Model.Chars Model.Ast Model.Parse Model.Compile Spec.Tree Spec.Unsupported.
From FP Require Import Proofs.UnsupportedFacts Proofs.OptionsFacts.
Import ListNotations.

(** for every tree without explicit precedence / option nodes, whatever the options and clock:
    compilation fails exactly with the FIRST unsupported construct in traversal order, naming
    it; and succeeds when there is none *)
Theorem C12_exact : forall e o clk, compilable_shape e = true ->
  match first_unsupported e with
  | Some (k, n) => compile e o clk = CErr k n
  | None => exists c, compile e o clk = COk c
  end.
Proof. exact compile_spec. Qed.

(** hence: an error exactly when an unsupported construct occurs at some depth — in a dead
    branch, under a negation, inside a format string; no program is ever emitted for it *)
Theorem C12_iff : forall e o clk, compilable_shape e = true ->
  ((exists k n, compile e o clk = CErr k n) <-> has_unsupported e).
Proof.
  intros e o clk Hs. pose proof (compile_spec e o clk Hs) as H.
  rewrite <- first_unsupported_iff. destruct (first_unsupported e) as [[k n]|].
  - split; [discriminate|]. intros _. exists k, n. exact H.
  - destruct H as [c Hc]. split; [|contradiction]. intros (k & n & E). congruence.
Qed.

(** everything the parser returns has that shape *)
Theorem C12_parser_trees : forall s o e, parse s = ParseOk o e -> compilable_shape e = true.
Proof. exact parse_shape. Qed.

Example C12_example :
  (* -true -o ( -false -a -printf '%p %Z' ) , -ls : the %Z inside the dead branch is named first *)
  let e := EList (EOr (ETest TTrue)
                      (EAnd (ETest TFalse)
                            (EAction (APrintFormatted [EField FName; ELit [32%N]; EField FSecurityContext]))))
                 (EAction AList) in
  compilable_shape e = true
  /\ compile e default_options [] = CErr UnsupportedFormat "SecurityContext"%string.
Proof. split; reflexivity. Qed.
