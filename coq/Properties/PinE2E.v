(** The statements of E2E pinned by [Check name : statement]: a theorem cannot be weakened
    without this file failing to compile. *)
From Coq Require Import List String NArith ZArith Bool.
From FP Require Import Model.Chars Model.Ast Model.Sexp Model.Parse Model.Compile Model.Ser.
From FP Require Import Spec.Surface Spec.Written Spec.Unsupported Spec.GuileReader Spec.FileRecord
  Spec.FindSem Spec.SchemePrelude Spec.Glue.
From FP Require Import Proofs.RenderFacts Proofs.LexSentence.
From FP Require Properties.E2E.
Import ListNotations.
Local Open Scope N_scope.

Check E2E.E2E_text_to_meaning : forall h, host_law h -> forall w bs tr clk mdt f,
  written_ok w -> List.length bs = List.length (written_items w) ->
  wf_sentence (written_sentence w bs tr) ->
  first_unsupported (written_tree w) = None ->
  ctime_free (written_tree w) = true -> defined (written_tree w) f = true ->
  parse (Surface.render (written_sentence w bs tr))
    = ParseOk (opts_for (written_opts w)) (written_tree w)
  /\ exists c, compile (written_tree w) (opts_for (written_opts w)) clk = COk c
     /\ exists p0 p1,
          read_all (scheme_text c mdt) = Some [p0; p1]
          /\ sem_forms h (c_iomap c) [p0; p1] f = Some (feval h (wrap (written_tree w)) clk f)
          /\ option_map (@hd sexp (SList [])) (scan_call p1) = Some (SStr mdt)
          /\ option_map (fun args => nth 4 args (SList [])) (scan_call p1)
             = Some match opt_threads (opts_for (written_opts w)) with
                    | Some n => SAtom (print_dec n)
                    | None => SList [SAtom (chars "lipe-getopt-thread-count")]
                    end.

Check E2E.E2E_text_to_meaning_uniform : forall h, host_law h -> forall w bs tr clk,
  written_ok w -> List.length bs = List.length (written_items w) ->
  wf_sentence (written_sentence w bs tr) ->
  first_unsupported (written_tree w) = None ->
  parse (Surface.render (written_sentence w bs tr))
    = ParseOk (opts_for (written_opts w)) (written_tree w)
  /\ exists c, compile (written_tree w) (opts_for (written_opts w)) clk = COk c
     /\ forall mdt, exists p0 p1,
          read_all (scheme_text c mdt) = Some [p0; p1]
          /\ option_map (@hd sexp (SList [])) (scan_call p1) = Some (SStr mdt)
          /\ option_map (fun args => nth 4 args (SList [])) (scan_call p1)
             = Some match opt_threads (opts_for (written_opts w)) with
                    | Some n => SAtom (print_dec n)
                    | None => SList [SAtom (chars "lipe-getopt-thread-count")]
                    end
          /\ forall f, ctime_free (written_tree w) = true -> defined (written_tree w) f = true ->
               sem_forms h (c_iomap c) [p0; p1] f = Some (feval h (wrap (written_tree w)) clk f).

Check E2E.E2E_unsupported : forall w bs tr clk k n,
  written_ok w -> List.length bs = List.length (written_items w) ->
  wf_sentence (written_sentence w bs tr) ->
  first_unsupported (written_tree w) = Some (k, n) ->
  parse (Surface.render (written_sentence w bs tr))
    = ParseOk (opts_for (written_opts w)) (written_tree w)
  /\ compile (written_tree w) (opts_for (written_opts w)) clk = CErr k n.

Check E2E.E2E_total : forall s clk,
  (exists m, parse s = ParseErr m /\ m <> []) \/
  (exists o e, parse s = ParseOk o e /\
     ((exists k n, compile e o clk = CErr k n /\ compile_error_text k n <> []) \/
      (exists c, compile e o clk = COk c /\
         forall mdt, exists p0 p1, read_all (scheme_text c mdt) = Some [p0; p1]))).

Check E2E.E2E_glue_roundtrip : forall e,
  read_expr (Ser.tokens_of (ser_expr e)) = Some (mask_perm e).

Check E2E.E2E_glue_roundtrip_exact : forall e, perm_bits_small e ->
  read_expr (Ser.tokens_of (ser_expr e)) = Some e.

Check E2E.E2E_glue_leaves :
  (forall n, dec_value (print_dec n) = n)
  /\ (forall n, Ser.hex_value (print_hex n) = n)
  /\ (forall s, de_str (ser_str s) = s)
  /\ (forall s, Ser.tokens_of (ser_str s) = [ser_str s]).

Check E2E.E2E_glue_truncates :
  read_expr (Ser.tokens_of (ser_expr (ETest (TPerm PAny 4294967296)))) = Some (ETest (TPerm PAny 0)).
