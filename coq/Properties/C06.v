(** C06 — Equivalent spellings give identical results.
    Statements only; proofs are in Proofs/LexSentence.v, WrittenProofs.v, WordLevel.v.
    Vocabulary: Spec/Written.v (expressions as written: the words and gaps of each primary,
    implicit AND / -a / -and, -o / -or, parentheses around any operand; [abstract] forgets the
    spelling), Spec/Surface.v (the layout: a blank string before each word and one at the end;
    [wf_sentence] says where a blank string may be empty).
    Findings: D15 (a quoted number is rejected) and the leading option in parentheses, below. *)
From Coq Require Import List String NArith Bool.
From FP Require Import Model.Chars Model.Winnow Model.Ast Model.Lex Model.Prec Model.Parse.
From FP Require Import Spec.Vocabulary Spec.Surface Spec.Written.
From FP Require Import Proofs.LexSentence Proofs.WrittenProofs Proofs.WordLevel Proofs.SurfaceExamples.
Import ListNotations.
Local Open Scope N_scope.

(** what [parse] returns for an input as written, with any well-formed layout: the options
    written (leading ones first) and the tree the expression denotes, options reading as -true *)
Theorem C06_written : forall w bs tr,
  written_ok w -> List.length bs = List.length (written_items w) ->
  wf_sentence (written_sentence w bs tr) ->
  parse (render (written_sentence w bs tr)) = ParseOk (opts_for (written_opts w)) (written_tree w).
Proof. exact parse_written. Qed.

(** two inputs with the same abstract form — differing in the blank strings (kind, amount,
    leading, trailing, inside parentheses), in the gaps and the quoting of the words of a
    primary, in implicit AND / -a / -and, in -o / -or, or in parentheses that do not change the
    tree — have the same result *)
Theorem C06_spelling : forall w1 bs1 tr1 w2 bs2 tr2,
  abstract w1 = abstract w2 ->
  written_ok w1 -> List.length bs1 = List.length (written_items w1) ->
  wf_sentence (written_sentence w1 bs1 tr1) ->
  written_ok w2 -> List.length bs2 = List.length (written_items w2) ->
  wf_sentence (written_sentence w2 bs2 tr2) ->
  parse (render (written_sentence w1 bs1 tr1)) = parse (render (written_sentence w2 bs2 tr2)).
Proof. exact spelling_irrelevant. Qed.

(** for arbitrary word sequences (grammatical or not): whatever leaves the tokens alone —
    layout, gaps, quoting, -a versus -and, -o versus -or — leaves the result alone *)
Theorem C06_same_tokens : forall s1 s2,
  wf_sentence s1 -> wf_sentence s2 -> tokens_of s1 = tokens_of s2 ->
  parse (render s1) = parse (render s2).
Proof. exact same_tokens_same_parse. Qed.

(** an empty or blank input means -true *)
Theorem C06_blank : forall b, blanks b -> parse b = parse (chars "-true").
Proof. exact blank_is_true. Qed.

(** ** Findings *)
(** D15: the quoted spelling of a number is rejected although it spells the same word *)
Theorem C06_quoted_number_refuted :
  exists w, WordArg w (chars "5") /\
    (exists msg, parse (chars "-uid " ++ w) = ParseErr msg) /\
    parse (chars "-uid " ++ chars "5") = ParseOk default_options (ETest (TUserId (Eq 5))).
Proof.
  exists (chars "'5'"). split.
  - apply (W_single (chars "5")). cbn. unfold squote. intros [H|H]; [discriminate H|exact H].
  - split; [eexists|]; vm_compute; reflexivity.
Qed.

(** redundant parentheses around a LEADING option change the tree: the option is then an
    operand (-true) instead of being taken off; [written_ok] excludes such inputs from
    C06_spelling *)
Theorem C06_paren_leading_option_refuted :
  parse (chars "-depth -print") = ParseOk {| opt_depth := true; opt_threads := None |} (EAction APrint)
  /\ parse (chars "( -depth ) -print")
     = ParseOk {| opt_depth := true; opt_threads := None |} (EAnd (ETest TTrue) (EAction APrint)).
Proof. split; vm_compute; reflexivity. Qed.

(** ** Non-vacuity: two spellings of one input *)
Example C06_example :
  abstract ex1 = abstract ex2
  /\ written_ok ex1 /\ List.length bs1 = List.length (written_items ex1)
  /\ wf_sentence (written_sentence ex1 bs1 [])
  /\ written_ok ex2 /\ List.length bs2 = List.length (written_items ex2)
  /\ wf_sentence (written_sentence ex2 bs2 [32; 9])
  /\ render (written_sentence ex1 bs1 [])
     = chars "-threads 3 -depth ( -name 'a b' -o -uid +5 ) -print"
  /\ render (written_sentence ex2 bs2 [32; 9])
     = [9] ++ chars "-threads 3 -a" ++ [10] ++ chars "-depth  -and (-name" ++ [9; 32; 34]
       ++ chars "a b" ++ [34] ++ chars " -or" ++ [9] ++ chars "-uid" ++ [10] ++ chars "+5)"
       ++ [13; 10] ++ chars "-a (-print) " ++ [9].
Proof.
  split; [exact ex_abstract|]. split; [exact ex1_ok|]. split; [exact ex1_len|].
  split; [exact ex1_wf|]. split; [exact ex2_ok|]. split; [exact ex2_len|]. split; [exact ex2_wf|].
  split; vm_compute; reflexivity.
Qed.
