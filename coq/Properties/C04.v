(** C04 — The emitted program is well-formed Scheme; user text stays data.
    Statements only; proofs are in Proofs/.  The reader is Spec/GuileReader.v. *)
From Coq Require Import List String NArith Bool.
From FP Require Import Model.Chars Model.Ast Model.Sexp Model.Compile
  Spec.GuileReader Spec.SexpContext Spec.GuileFormat
  Proofs.ReaderRoundTrip Proofs.CompileWf Proofs.UserStrings.
Import ListNotations.
Local Open Scope N_scope.

(** for every accepted input -- any expression tree, options, clock and device path -- the emitted
    text reads back as exactly two data: the erasures of the two rendered forms *)
Theorem C04_reads_back : forall e o clk c mdt,
  compile e o clk = COk c ->
  read_all (scheme_text c mdt) = Some [erase (fst (render c mdt)); erase (snd (render c mdt))].
Proof. exact reads_back. Qed.

(** a user string [u] -- ANY string -- is emitted as a literal that denotes the node [SStr u],
    reads back as that node, and in any surrounding text leaves the reader exactly where a
    string node leaves it: its characters cannot change the structure around it *)
Theorem C04_string_roundtrip : forall u,
  erase (lstr u) = SStr u
  /\ read_all (print (lstr u)) = Some [SStr u]
  /\ forall cur stk rest,
       run MTop cur stk (print (lstr u) ++ rest) = run MTop (SStr u :: cur) stk rest.
Proof. exact string_roundtrip. Qed.

(** the device path is one string node in a context that does not depend on it, and the first
    form does not depend on it at all *)
Theorem C04_device_path_only : forall c, exists k : ctx, forall mdt,
  fst (render c mdt) = fst (render c [])
  /\ erase (snd (render c mdt)) = plug k (SStr mdt).
Proof. exact device_path_only. Qed.

(** where the other user strings sit in the erased program: each is a single [SStr] node holding
    exactly the user's string *)
Theorem C04_user_strings :
  (forall idx pat ci,
     erase (matcher_binding idx pat ci)
     = SList [erase (ident "match" (idx + 1));
              SList [sym "lambda"; SList [erase (ident "str" idx)];
                     SList [sym (matcher_name pat ci); SStr pat; erase (ident "str" idx)]]])
  /\ (forall p s, erased_test (TPool p) s
                  = Some (SList [sym "member"; SStr p; SList [sym "lov-pools"]]))
  /\ (forall f s, erased_test (TXattr f) s = Some (SList [sym "xattr?"; SStr f]))
  /\ (forall f v s, erased_test (TXattrMatch f v) s
                    = Some (if xattr_offending f || xattr_offending v
                            then SList [sym "xattr-match?"; SStr f; SStr v]
                            else SList [sym "equal?"; SList [sym "xattr-ref-string"; SStr f]; SStr v]))
  /\ (forall a, option_map erase (snippet (FXAttr a))
                = Some (SList [sym "or"; SList [sym "xattr-ref-string"; SStr a]; SStr []]))
  /\ (forall f m, assoc str_eqb f (l_files m) = None ->
        map erase (l_vars (snd (l_init_file_port f m)))
        = map erase (l_vars m)
          ++ [SList [erase (ident "port" (l_idx m)); SList [sym "open-file"; SStr f; SStr [119]]];
              SList [erase (ident "mutex" (l_idx m + 1)); SList [sym "make-mutex"]]]).
Proof. exact user_string_nodes. Qed.

(** literal text [t] of a format becomes the template piece whose decoded value is [t] with its
    tildes doubled; Guile's format finds no directive in it and prints [t] verbatim *)
Theorem C04_template_literal : forall t,
  elem_piece (ELit t) = COk (PLit (double_tilde t))
  /\ piece_value (PLit (double_tilde t)) = double_tilde t
  /\ format_literal_value (double_tilde t) = t
  /\ format_tokens (double_tilde t) = Some (map FChar t).
Proof. exact template_literal. Qed.

(** the template of a format is made of the pieces of its elements, in order *)
Theorem C04_template_pieces : forall fmt ps,
  template fmt = COk ps -> Forall2 (fun el p => elem_piece el = COk p) fmt ps.
Proof. exact template_pieces. Qed.

(** non-vacuity: a hostile string (quote, backslash, tilde, parentheses, semicolon, hash, bar,
    percent, newline, a control character and a non-ASCII character) as name pattern, file name,
    literal format text, attribute name and device path of an accepted expression *)
Example C04_example_accepted :
  let hostile := chars "a""b\c~d(e)f;g#|%h" ++ [10; 1; 955] in
  let e := EAnd (ETest (TName hostile))
             (EOr (ETest (TXattrMatch hostile hostile))
                  (EAction (AFilePrintFormatted hostile
                              [ELit hostile; EField (FXAttr [120]); ESpecial XNewline]))) in
  exists c, compile e default_options [] = COk c
            /\ read_all (scheme_text c hostile)
               = Some [erase (fst (render c hostile)); erase (snd (render c hostile))].
Proof.
  intros hostile e.
  destruct (compile e default_options []) as [c|k s|s] eqn:E;
    [|vm_compute in E; discriminate E|vm_compute in E; discriminate E].
  exists c. split; [reflexivity|]. exact (C04_reads_back _ _ _ _ hostile E).
Qed.

(** the same by evaluation alone; the hostile string without escaping does NOT read back *)
Example C04_example_eval :
  let hostile := chars "a""b\c~d(e)f;g#|%h" ++ [10; 1; 955] in
  read_all (print (lstr hostile)) = Some [SStr hostile]
  /\ read_all ([34] ++ hostile ++ [34]) = None
  /\ format_literal_value (double_tilde hostile) = hostile.
Proof. vm_compute. repeat split. Qed.
