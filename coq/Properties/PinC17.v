(** The statements of C17 pinned by [Check name : statement]. *)
From Coq Require Import List String NArith Bool.
From FP Require Import Model.Chars Model.Ast Model.Sexp Model.Compile Spec.Tree Spec.Resources.
From FP Require Properties.C17.
Import ListNotations.
Local Open Scope N_scope.

Check C17.C17_counter_bound : forall e clk m,
  final_mgr e clk = Some m ->
  m_idx m <= 2 + 3 * leaves (wrap e)
  /\ (leaves (wrap e) < 2 ^ 30 -> m_idx m < 2 ^ 32).

Check C17.C17_counter_steps : forall e s x s',
  compile_expr e s = COk (x, s') ->
  m_idx (st_mgr s) <= m_idx (st_mgr s') <= m_idx (st_mgr s) + 3 * leaves e.

Check C17.C17_wide_product : forall n u, n < 2 ^ 64 -> n * size_mult u < 2 ^ 128.
