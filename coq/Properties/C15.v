(** C15 — Parsing and compiling are deterministic functions of their input.
    In the model [parse] and [compile] are functions, so equal inputs give equal results by
    construction (the run-time side — hash seeds, process state — is what the repeated
    correspondence runs check). What remains to prove is the exact dependence on the clock. *)
From Coq Require Import List NArith.
From FP Require Import Model.Chars Model.Ast Model.Compile Proofs.ClockFacts.
Import ListNotations.

(** compiling reads the clock once per time test, in traversal order: two clocks that agree on
    that many readings give the same program, table or error — byte for byte *)
Theorem C15_clock_only : forall e o c1 c2,
  firstn (time_tests e) c1 = firstn (time_tests e) c2 -> compile e o c1 = compile e o c2.
Proof. exact compile_clock_only. Qed.

(** without a time test the clock is irrelevant *)
Theorem C15_no_time_no_clock : forall e o c1 c2,
  time_tests e = 0 -> compile e o c1 = compile e o c2.
Proof. exact compile_no_time_no_clock. Qed.

Example C15_example :
  let e := EAnd (ETest (TAccessTime (Gt (Time UMinute 5)))) (EOr (ETest (TName [97%N])) (ETest (TModifyTime (Lt (Time UDay 1))))) in
  time_tests e = 2
  /\ compile e default_options [100; 200; 999]%N = compile e default_options [100; 200; 5]%N
  /\ compile e default_options [100; 200]%N <> compile e default_options [100; 201]%N.
Proof. repeat split; try reflexivity. vm_compute. discriminate. Qed.
