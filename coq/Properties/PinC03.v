(** The statements of C03 pinned by [Check name : statement]: a theorem cannot be weakened
    without this file failing to compile. *)
From Coq Require Import List String NArith Bool.
From FP Require Import Model.Chars Model.Ast Model.Parse Model.Compile Spec.TreeShape.
From FP Require Properties.C03.
Import ListNotations.

Check C03.C03_parse_total : forall s site, parse s <> ParsePanic site.
Check C03.C03_parse_answer : forall s,
  (exists o e, parse s = ParseOk o e) \/ (exists m, parse s = ParseErr m).
Check C03.C03_tree_shape : forall s o e, parse s = ParseOk o e -> parser_tree e.
Check C03.C03_compile_total : forall e, parser_tree e ->
  forall o clk site, compile e o clk <> CPanic site.
Check C03.C03_display_total :
  (forall s m, parse s = ParseErr m -> m <> []) /\
  (forall k n, compile_error_text k n <> []).
Check C03.C03_pipeline_total : forall s clk,
  (exists m, parse s = ParseErr m /\ m <> []) \/
  (exists o e, parse s = ParseOk o e /\
     ((exists c, compile e o clk = COk c) \/
      (exists k n, compile e o clk = CErr k n /\ compile_error_text k n <> []))).
