(** The statements of C16b pinned by [Check name : statement]. *)
From Coq Require Import List String NArith Bool.
From FP Require Import Model.Chars Model.Ast Model.Sexp Model.Compile Spec.Tree Spec.Resources Spec.Locking.
From FP Require Properties.C16b.
Import ListNotations.
Local Open Scope N_scope.

Check C16b.C16_plain_one_mutex : forall e o clk c,
  compile e o clk = COk c -> c_framed c = false ->
  c_fini c = []
  /\ exists p, p_mutex p = p_port p + 1 /\ forall b, In b (c_defs c) -> plain_shape p b.

Check C16b.C16_framed_frame_proc : forall e o clk c,
  compile e o clk = COk c -> c_framed c = true ->
  exists rest, c_defs c = frame_prelude ++ rest /\ Forall framed_shape rest.

Check C16b.C16_default_print_alone : forall e o clk c,
  has_action e = false -> compile e o clk = COk c ->
  c_framed c = false /\ c_fini c = [] /\ forall b, In b (c_defs c) -> is_matcher_binding b.
