(** C11 — Generated identifiers: bound once, before use, never captured; every reference reaches
    the resource created for exactly that request.
    Statements only; definitions are in Spec/Resources.v and Spec/Scope.v, proofs in
    Proofs/ManagerInv.v and Proofs/ScopeProofs.v. *)
From Coq Require Import List String NArith Bool.
From FP Require Import Model.Chars Model.Ast Model.Sexp Model.Compile Spec.Tree Spec.Resources Spec.Scope.
From FP Require Import Proofs.ManagerInv Proofs.ScopeProofs.
Import ListNotations.
Local Open Scope N_scope.

(** the body is exactly what the FINAL tables call for: every matcher/printer reference is the
    name the final table gives to that very (pattern, case-sensitivity) / (destination,
    terminator) — in whatever order the resources first occurred, however many there are *)
Theorem C11_reaches : forall e o clk c,
  compile e o clk = COk c ->
  exists m, final_mgr e clk = Some m /\ c_defs c = m_vars m
            /\ expected_body m clk (wrap e) = Some (c_body c).
Proof. exact reaches. Qed.

(** along compilation the tables, the binding list and the counter only grow, and an entry once
    made never changes *)
Theorem C11_grows : forall e s x s',
  compile_expr e s = COk (x, s') ->
  ext (st_mgr s) (st_mgr s')
  /\ m_idx (st_mgr s) <= m_idx (st_mgr s')
  /\ (forall pat ci i, matcher_index (st_mgr s) pat ci = Some i -> matcher_index (st_mgr s') pat ci = Some i)
  /\ (forall t i, printer_index (st_mgr s) t = Some i -> printer_index (st_mgr s') t = Some i).
Proof. exact grows. Qed.

(** the counter is strictly above every allocated index *)
Theorem C11_counter_above : forall e clk m,
  final_mgr e clk = Some m ->
  (forall k i, In (k, i) (m_matches m) -> i - 1 < m_idx m /\ i < m_idx m)
  /\ match m with
     | ML l => (forall k i, In (k, i) (l_printers l) -> i < l_idx l)
               /\ (forall p, l_default l = Some p -> p_port p < l_idx l /\ p_mutex p < l_idx l)
               /\ (forall f p, In (f, p) (l_files l) -> p_port p < l_idx l /\ p_mutex p < l_idx l)
     | MD d => forall k i, In (k, i) (d_printers d) -> i < d_idx d
     end.
Proof. exact final_counter_above. Qed.

(** each table entry has its binding: the matcher on that pattern with that case-sensitivity, the
    framed printer whose tag is its own index, the plain printer on that port/mutex/terminator *)
Theorem C11_bindings : forall e o clk c m,
  compile e o clk = COk c -> final_mgr e clk = Some m ->
  (forall pat ci i, In ((pat, ci), i) (m_matches m) -> In (matcher_binding (i - 1) pat ci) (c_defs c))
  /\ match m with
     | ML l =>
         (forall p term i, In ((p, term), i) (l_printers l) -> In (plain_printer_binding i p term) (c_defs c))
         /\ (forall p, l_default l = Some p ->
               In (default_port_binding (p_port p)) (c_defs c) /\ In (mutex_binding (p_mutex p)) (c_defs c))
     | MD d => forall t i, In (t, i) (d_printers d) -> In (framed_printer_binding i) (c_defs c)
     end.
Proof. exact bindings. Qed.

(** identical requests share one resource, different requests never share: in the final tables
    keys are pairwise distinct and indices are pairwise distinct, and looking a request up is the
    same as being an entry *)
Theorem C11_share : forall e clk m,
  final_mgr e clk = Some m ->
  NoDup (map fst (m_matches m)) /\ NoDup (map snd (m_matches m))
  /\ (forall pat ci i, matcher_index m pat ci = Some i <-> In ((pat, ci), i) (m_matches m))
  /\ match m with
     | ML l => NoDup (map fst (l_printers l)) /\ NoDup (map snd (l_printers l))
               /\ (forall k i, assoc pkey_eqb k (l_printers l) = Some i <-> In (k, i) (l_printers l))
     | MD d => NoDup (map fst (d_printers d)) /\ NoDup (map snd (d_printers d))
               /\ (forall t i, printer_index (MD d) t = Some i <-> In (t, i) (d_printers d))
     end.
Proof. exact final_sharing. Qed.

Theorem C11_never_shared : forall e clk m,
  final_mgr e clk = Some m ->
  (forall p1 c1 p2 c2 i,
     matcher_index m p1 c1 = Some i -> matcher_index m p2 c2 = Some i -> p1 = p2 /\ c1 = c2)
  /\ match m with
     | ML l => forall t1 t2 i, printer_index m (TStdout t1) = Some i ->
                               printer_index m (TStdout t2) = Some i -> t1 = t2
     | MD d => forall t1 t2 i, printer_index m t1 = Some i -> printer_index m t2 = Some i -> t1 = t2
     end.
Proof. exact final_never_shared. Qed.

(** every emitted program passes the scoping checker: each generated name is bound exactly once,
    every use refers to a binding that precedes it (or to a parameter of an enclosing lambda), no
    lambda parameter can capture a reference to a binding, every name used in the body is bound *)
Theorem C11_scoped : forall e o clk c,
  compile e o clk = COk c -> well_scoped (map erase (c_defs c)) (erase (c_body c)) = true.
Proof. exact scoped. Qed.

(** non-vacuity: -name x / -iname x / -name x again and three printers (one of them twice) *)
Definition C11_example_expr : expr :=
  EAnd (ETest (TName (chars "x")))
   (EAnd (ETest (TInsensitiveName (chars "x")))
    (EAnd (ETest (TName (chars "x")))
     (EOr (EAction APrint)
       (EOr (EAction APrintNull) (EOr (EAction (AFilePrint (chars "f"))) (EAction APrint)))))).
Example C11_example :
  exists c, compile C11_example_expr default_options [] = COk c
    /\ print (c_body c) = chars "(and (call-with-name %lf3:match:3) (and (call-with-name %lf3:match:5) (and (call-with-name %lf3:match:3) (or (call-with-relative-path %lf3:print:6) (or (call-with-relative-path %lf3:print:7) (or (call-with-relative-path %lf3:print:8) (call-with-relative-path %lf3:print:6)))))))"
    /\ (exists d, final_mgr C11_example_expr [] = Some (MD d)
          /\ d_matches d = [((chars "x", false), 3); ((chars "x", true), 5)]
          /\ d_printers d = [(TStdout (Some 10), 6); (TStdout (Some 0), 7); (TFile (chars "f") (Some 10), 8)])
    /\ well_scoped (map erase (c_defs c)) (erase (c_body c)) = true.
Proof. eexists. split; [reflexivity|]. split; [reflexivity|]. split; [eexists; repeat split|reflexivity]. Qed.

(** the checker is not vacuous: it rejects a use before the binding, a name bound twice, an
    unbound name in the body, and a lambda parameter that would capture a binding *)
Local Open Scope string_scope.
Example C11_checker_rejects :
  let a (s : string) := SAtom (chars s) in
  let port0 := SList [a "%lf3:port:0"; SList [a "current-output-port"]] in
  let mutex1 := SList [a "%lf3:mutex:1"; SList [a "make-mutex"]] in
  let print2 := SList [a "%lf3:print:2"; SList [a "make-printer"; a "%lf3:port:0"; a "%lf3:mutex:1"; a "#f"]] in
  let capt := SList [a "%lf3:match:4"; SList [a "lambda"; SList [a "%lf3:port:0"]; SList [a "f"; a "%lf3:port:0"]]] in
  let body := SList [a "%lf3:print:2"; SList [a "file-fid"]] in
  well_scoped [port0; mutex1; print2] body = true
  /\ well_scoped [port0; print2; mutex1] body = false
  /\ well_scoped [port0; mutex1; print2; print2] body = false
  /\ well_scoped [port0; mutex1] body = false
  /\ well_scoped [port0; mutex1; print2; capt] body = false.
Proof. repeat split. Qed.
