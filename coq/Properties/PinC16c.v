(** The statements of C16c pinned by [Check name : statement]: a theorem cannot be weakened
    without this file failing to compile. *)
From Coq Require Import String List Arith NArith Bool Permutation.
From FP Require Import Model.Chars Model.Ast Model.Sexp Model.Compile
  Spec.TreeShape Spec.Resources Spec.Locking Spec.FileRecord Spec.FindSem Spec.SchemeSem
  Spec.SchemePrelude Spec.Interleave Spec.PolicyCalls.
From FP Require Import Proofs.ImplicitPrint.
From FP Require Properties.C16c.
Import ListNotations.
Local Open Scope N_scope.

Check C16c.C16c_default_port : forall e o clk c,
  compile e o clk = COk c -> c_framed c = false ->
  exists l, final_mgr e clk = Some (ML l)
    /\ plain_port c = option_map p_port (l_default l)
    /\ (forall p, l_default l = Some p ->
          p_mutex p = p_port p + 1 /\ forall b, In b (c_defs c) -> plain_shape p b)
    /\ (l_default l = None -> forall b, In b (c_defs c) -> is_matcher_binding b).
Check C16c.C16c_plain_pair : forall e o clk c P,
  parser_tree e -> compile e o clk = COk c -> c_framed c = false -> plain_port c = Some P ->
  atom_occurs prp (c_body c) = false
  /\ forall b, In b (c_defs c) -> plain_shape {| p_port := P; p_mutex := P + 1 |} b.
Check C16c.C16c_bare : forall e o clk c,
  compile e o clk = COk c -> c_framed c = false -> plain_port c = None ->
  forall b, In b (c_defs c) -> is_matcher_binding b.
Check C16c.C16c_bare_silent : forall h e o clk c f,
  parser_tree e -> compile e o clk = COk c -> c_framed c = false -> plain_port c = None ->
  has_action e = true -> snd (fst (feval h (wrap e) clk f)) = [].
Check C16c.C16c_tag : forall e o clk c tbl,
  compile e o clk = COk c -> c_iomap c = Some tbl ->
  (forall t i, tag_of tbl t = Some i <-> In (i, t) tbl)
  /\ forall t i, tag_of tbl t = Some i -> In (framed_printer_binding i) (c_defs c).
Check C16c.C16c_policy : forall h, host_law h -> forall e o clk c f,
  parser_tree e -> compile e o clk = COk c -> ctime_free e = true -> defined e f = true ->
  exists os calls,
    policy_outputs h c f = Some os
    /\ os = snd (fst (feval h (wrap e) clk f))
    /\ policy_calls c os = Some calls
    /\ disciplined (guard_of c) calls
    /\ Forall (fun cl => call_port cl = out_port c) calls
    /\ all_some (map (record_of c) os) = Some (map call_record calls).
Check C16c.C16_scan : forall h, host_law h -> forall e o clk c files,
  parser_tree e -> compile e o clk = COk c -> ctime_free e = true ->
  Forall (Forall (fun f => defined e f = true)) files ->
  exists prog recs,
    scan_prog h c files = Some prog
    /\ files_records h c (concat files) = Some recs
    /\ Forall (disciplined (guard_of c)) prog
    /\ forall st, steps (init prog) st ->
         (forall p, exists (done rest : list call) (partial : str),
             out st p = concat (map call_record done) ++ partial
             /\ Permutation (done ++ rest) (calls_on p (concat prog))
             /\ partial_on (guard_of c) prog st p partial)
         /\ (forall p, p <> out_port c -> out st p = [])
         /\ (final st -> exists rs, out st (out_port c) = concat rs /\ Permutation rs recs)
         /\ (~ final st -> exists st', step st st').
