(** C04w — user text stays data, for the WHOLE program: every string node and every atom node
    of the two emitted forms is accounted for.  Complements the per-site statements of
    Properties/C04.v ([C04_reads_back] says the emitted text reads back as exactly these two
    forms).  Statements only; definitions are in Spec/UserStrings.v, proofs in
    Proofs/WholeProgramStrings.v. *)
From Coq Require Import List String NArith Bool.
From FP Require Import Model.Chars Model.Ast Model.Sexp Model.Compile
  Spec.GuileFormat Spec.UserStrings Proofs.WholeProgramStrings.
Import ListNotations.
Local Open Scope N_scope.

(** (a) for every accepted input, every string node anywhere in the two forms holds exactly: a
    string of the tree that is not literal format text (a pattern, a pool, an attribute name or
    value, an output file) or the device path; or "w" or ""; or "%c" for a time selector c of a
    format of the tree; or the template of one format of the tree *)
Theorem C04w_strings : forall e o clk c mdt,
  compile e o clk = COk c ->
  forall v, In v (strings_of (erase (fst (render c mdt))) ++ strings_of (erase (snd (render c mdt)))) ->
  In v (direct_strings e ++ [mdt])
  \/ In v fixed_strings
  \/ (exists ch, In ch (selectors e) /\ v = [37; ch])
  \/ (exists fmt, In fmt (formats e) /\ v = template_text fmt).
Proof. exact program_strings. Qed.

(** the same with every string carried by the tree allowed as a node (a weaker corollary, in
    the words of the property), and: the first form has no string node *)
Theorem C04w_strings_user : forall e o clk c mdt,
  compile e o clk = COk c ->
  forall v, In v (strings_of (erase (fst (render c mdt))) ++ strings_of (erase (snd (render c mdt)))) ->
  In v (user_strings e ++ [mdt])
  \/ In v fixed_strings
  \/ (exists ch, In ch (selectors e) /\ v = [37; ch])
  \/ (exists fmt, In fmt (formats e) /\ v = template_text fmt).
Proof. exact program_strings_user. Qed.

Theorem C04w_first_form : forall c mdt, strings_of (erase (fst (render c mdt))) = [].
Proof. exact first_form_no_strings. Qed.

(** what a template is: the model's pieces decode to the concatenation, element by element and
    in order, of the literal text with its tildes doubled / the fixed directive of the field /
    the character of the escape; and Guile's format reads it back element by element: literal
    text is copied characters wherever it stands, whatever precedes or follows it *)
Theorem C04w_template : forall fmt,
  (forall ps, template fmt = COk ps -> flat_map piece_value ps = template_text fmt)
  /\ (forall a b, template_text (a ++ b) = template_text a ++ template_text b)
  /\ (forall t, template_text [ELit t] = double_tilde t /\ elem_tokens (ELit t) = map FChar t)
  /\ (forall f, In (placeholder f) directive_texts)
  /\ format_tokens (template_text fmt) = Some (flat_map elem_tokens fmt).
Proof. exact template_facts. Qed.

(** (b) every atom node anywhere in the two forms is a symbol of a fixed table, a generated
    identifier %lf3:KIND:N, a decimal number or a character literal #\xHH: no character of a
    user string reaches an atom *)
Theorem C04w_atoms : forall e o clk c mdt,
  compile e o clk = COk c ->
  forall a, In a (atoms_of (erase (fst (render c mdt))) ++ atoms_of (erase (snd (render c mdt)))) ->
  atom_shape a.
Proof. exact program_atoms. Qed.

(** the texts named by [atom_shape] are those of the model's builders *)
Theorem C04w_atom_texts :
  (forall kind n, ident kind n = LAtom (ident_text kind n))
  /\ (forall n, num n = LAtom (print_dec n))
  /\ (forall c, terminator_escape (Some c) = LAtom (charlit_text (c mod 256)))
  /\ terminator_escape None = atom "#f"
  /\ (forall s, atom s = LAtom (chars s)).
Proof. exact atom_texts. Qed.

(** non-vacuity: a hostile string (quote, backslash, tilde, parentheses, semicolon, hash, bar,
    percent, newline, a control character, a non-ASCII character), tagged by its position, in
    EVERY string position of an accepted expression, a quote and a backslash as time selectors,
    and a lone tilde as literal text.  The string nodes of the program are exactly the listed
    ones (output files are framed away: they travel in the I/O map, not in the program). *)
Definition C04w_hostile (tag : string) : str :=
  chars "a""b\c~d(e)f;g#|%h" ++ [10; 1; 955] ++ chars tag.
Definition C04w_fmt1 : format :=
  [ELit (C04w_hostile "12"); EField (FXAttr (C04w_hostile "13")); EField (FModifyFormatted 34);
   ESpecial XNewline].
Definition C04w_fmt2 : format :=
  [ELit (C04w_hostile "14"); EField (FXAttr (C04w_hostile "15")); EField (FAccessFormatted 92);
   ELit (chars "~")].
Definition C04w_example_expr : expr :=
  fold_right EAnd
    (fold_right EOr (EAction (APrintFormatted C04w_fmt2))
       [EAction (AFilePrint (C04w_hostile "9")); EAction (AFilePrintNull (C04w_hostile "10"));
        EAction (AFilePrintFormatted (C04w_hostile "11") C04w_fmt1)])
    [ETest (TName (C04w_hostile "1")); ETest (TInsensitiveName (C04w_hostile "2"));
     ETest (TPath (C04w_hostile "3")); ETest (TInsensitivePath (C04w_hostile "4"));
     ETest (TPool (C04w_hostile "5")); ETest (TXattr (C04w_hostile "6"));
     ETest (TXattrMatch (C04w_hostile "7") (C04w_hostile "8"))].

Local Notation h := C04w_hostile.
Example C04w_example :
  exists c, compile C04w_example_expr default_options [] = COk c
    /\ strings_of (erase (fst (render c (h "0")))) ++ strings_of (erase (snd (render c (h "0"))))
       = [h "1"; h "2"; h "3"; h "4"; h "0"; h "5"; h "6"; h "7"; h "8";
          template_text C04w_fmt1; h "13"; []; [37; 34];
          template_text C04w_fmt2; h "15"; []; [37; 92]]
    /\ format_tokens (template_text C04w_fmt2)
       = Some (map FChar (h "14") ++ [FDir 97; FDir 97; FChar 126])
    /\ Forall atom_shape (atoms_of (erase (fst (render c (h "0")))) ++ atoms_of (erase (snd (render c (h "0")))))
    /\ List.length (atoms_of (erase (snd (render c (h "0"))))) = 117%nat.
Proof.
  destruct (compile C04w_example_expr default_options []) as [c|k s|s] eqn:E;
    [|vm_compute in E; discriminate E|vm_compute in E; discriminate E].
  exists c. split; [reflexivity|].
  split; [|split; [vm_compute; reflexivity|split]].
  - vm_compute in E. inversion E; subst. vm_compute. reflexivity.
  - apply Forall_forall. intros a Ha. exact (C04w_atoms _ _ _ _ _ E a Ha).
  - vm_compute in E. inversion E; subst. vm_compute. reflexivity.
Qed.

(** an unframed program (the format ends in a newline): the hostile pattern, device path and
    literal text *)
Example C04w_example_plain :
  let fmt := [ELit (h "2"); ESpecial XNewline] in
  exists c, compile (EAnd (ETest (TName (h "1"))) (EAction (APrintFormatted fmt))) default_options []
            = COk c
    /\ c_framed c = false
    /\ strings_of (erase (snd (render c (h "0")))) = [h "1"; h "0"; double_tilde (h "2") ++ [10]].
Proof. intros fmt. eexists. split; [vm_compute; reflexivity|]. split; vm_compute; reflexivity. Qed.
