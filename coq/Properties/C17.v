(** C17 — Debug and release builds behave identically (counter half): the only arithmetic left in
    the compiler is the identifier counter, and it cannot overflow.
    Statements only; proofs in Proofs/Counter.v. *)
From Coq Require Import List String NArith Bool.
From FP Require Import Model.Chars Model.Ast Model.Sexp Model.Compile Spec.Tree Spec.Resources.
From FP Require Import Proofs.Counter.
Import ListNotations.
Local Open Scope N_scope.

(** the counter never decreases, each leaf adds at most 3, and at the end it is at most
    2 + 3 * (number of Test/Action leaves of the compiled tree); so with fewer than 2^30 leaves
    every value it ever takes is below 2^32 — checked and wrapping u32 arithmetic agree *)
Theorem C17_counter_bound : forall e clk m,
  final_mgr e clk = Some m ->
  m_idx m <= 2 + 3 * leaves (wrap e)
  /\ (leaves (wrap e) < 2 ^ 30 -> m_idx m < 2 ^ 32).
Proof. exact counter_bound_both. Qed.

Theorem C17_counter_steps : forall e s x s',
  compile_expr e s = COk (x, s') ->
  m_idx (st_mgr s) <= m_idx (st_mgr s') <= m_idx (st_mgr s) + 3 * leaves e.
Proof. exact compile_expr_counter. Qed.

(** the product computed for a size comparison is widened to 128 bits and cannot overflow *)
Theorem C17_wide_product : forall n u, n < 2 ^ 64 -> n * size_mult u < 2 ^ 128.
Proof. exact wide_product. Qed.

(** non-vacuity: three matchers and three printers, counter 2 + 2*2 + 3 = 9 <= 2 + 3*7 *)
Example C17_example :
  let e := EAnd (ETest (TName (chars "x")))
            (EAnd (ETest (TInsensitiveName (chars "x")))
             (EAnd (ETest (TName (chars "x")))
              (EOr (EAction APrint)
                (EOr (EAction APrintNull) (EOr (EAction (AFilePrint (chars "f"))) (EAction APrint)))))) in
  leaves (wrap e) = 7 /\ option_map m_idx (final_mgr e []) = Some 9
  /\ (2 ^ 64 - 1) * size_mult UTera < 2 ^ 128.
Proof. repeat split. Qed.
