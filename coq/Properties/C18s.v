(** C18, second arguments and bad formats — for the two-argument primaries
    (-xattr-match NAME VALUE, -fprintf FILE FORMAT) the error raised at the SECOND argument names
    the keyword and quotes the word standing there (empty when missing); a -printf / -fprintf
    FORMAT word whose content is no format is reported with the whole content of that word
    quoted.  Statements only; proofs are in Proofs/SecondArgErrors.v (on top of
    Proofs/ErrorAttribution.v, Proofs/LexArgs.v and Proofs/FormatSeg.v).
    Vocabulary: Spec/Messages.v ([failed_msg], [lexes_fine pre rest], [blanks]: one or more
    blanks, [no_word a]: [a] is empty or starts with ')'), Spec/Vocabulary.v ([WordArg w v]: the
    bare or quoted word [w] spells the string [v]), Spec/Surface.v ([gap]: one or more blanks,
    [at_arg_end rest]: [rest] is empty or starts with a blank or ')'), Spec/FormatSpec.v
    ([SegErr v]: scanning [v] reaches a '%' that no directive follows).

    What the model does, in words:
    - FIRST-WORD gap nothing-that-starts-a-word (end of input or ')'): the message quotes nothing
      and explains "Expected a string" for -xattr-match, but the bare internal description
      "format_string" for -fprintf (error.rs has no text for it);
    - FIRST-WORD directly followed by the end of input or ')': the pair as a whole is reported
      missing, with the same text as when the keyword stands alone ([C18_missing_arg]);
    - a bad format: the quoted word is the WHOLE content of the format word, quotes removed —
      not the offending directive and not a suffix: the cursor is reset to the start of the word
      when the format parser fails. *)
From Coq Require Import List String NArith Bool.
From FP Require Import Model.Chars Model.Winnow Model.Args Model.Lex Model.Parse.
From FP Require Import Spec.FormatSpec Spec.Vocabulary Spec.Surface.
From FP Require Import Spec.Messages.   (* after Surface: [blanks] is the one of Messages *)
From FP Require Import Proofs.FormatSeg Proofs.SecondArgErrors.
Import ListNotations.
Local Open Scope N_scope.

(** ** The second word is missing or cannot start a word *)

(** keyword, blanks, first word, a gap, then the end of the input or a ')' *)
Theorem C18s_xattr_match_second : forall pre bl w1 v1 g a,
  WordArg w1 v1 -> gap g -> no_word a -> blanks bl ->
  lexes_fine pre (chars "-xattr-match" ++ bl ++ w1 ++ g ++ a) ->
  parse (pre ++ chars "-xattr-match" ++ bl ++ w1 ++ g ++ a)
  = ParseErr (failed_msg (next_word a) KTest "-xattr-match" (Some "Expected a string"%string)).
Proof. exact xattr_match_second_bad. Qed.

Theorem C18s_fprintf_second : forall pre bl w1 v1 g a,
  WordArg w1 v1 -> gap g -> no_word a -> blanks bl ->
  lexes_fine pre (chars "-fprintf" ++ bl ++ w1 ++ g ++ a) ->
  parse (pre ++ chars "-fprintf" ++ bl ++ w1 ++ g ++ a)
  = ParseErr (failed_msg (next_word a) KAction "-fprintf" (Some "format_string"%string)).
Proof. exact fprintf_second_bad. Qed.

(** no blank after the first word: the end of the input or a ')' follows it directly *)
Theorem C18s_xattr_match_no_gap : forall pre bl w1 v1 a,
  WordArg w1 v1 -> no_word a -> blanks bl ->
  lexes_fine pre (chars "-xattr-match" ++ bl ++ w1 ++ a) ->
  parse (pre ++ chars "-xattr-match" ++ bl ++ w1 ++ a)
  = ParseErr (failed_msg (next_word a) KTest "-xattr-match"
                (Some "Expected an attribute name and a value to compare"%string)).
Proof. exact xattr_match_second_absent. Qed.

Theorem C18s_fprintf_no_gap : forall pre bl w1 v1 a,
  WordArg w1 v1 -> no_word a -> blanks bl ->
  lexes_fine pre (chars "-fprintf" ++ bl ++ w1 ++ a) ->
  parse (pre ++ chars "-fprintf" ++ bl ++ w1 ++ a)
  = ParseErr (failed_msg (next_word a) KAction "-fprintf" (Some "filename_and_format"%string)).
Proof. exact fprintf_second_absent. Qed.

(** in all four the quoted word is empty ([C18_quoted_nothing]: [no_word a -> next_word a = []]);
    spelled out for the end of the input, without and with trailing blanks *)
Theorem C18s_xattr_match_missing : forall pre bl w1 v1,
  WordArg w1 v1 -> blanks bl -> lexes_fine pre (chars "-xattr-match" ++ bl ++ w1) ->
  parse (pre ++ chars "-xattr-match" ++ bl ++ w1)
  = ParseErr (failed_msg [] KTest "-xattr-match"
                (Some "Expected an attribute name and a value to compare"%string)).
Proof. exact xattr_match_second_missing. Qed.
Theorem C18s_xattr_match_missing_gap : forall pre bl w1 v1 g,
  WordArg w1 v1 -> gap g -> blanks bl -> lexes_fine pre (chars "-xattr-match" ++ bl ++ w1 ++ g) ->
  parse (pre ++ chars "-xattr-match" ++ bl ++ w1 ++ g)
  = ParseErr (failed_msg [] KTest "-xattr-match" (Some "Expected a string"%string)).
Proof. exact xattr_match_second_missing_gap. Qed.
Theorem C18s_fprintf_missing : forall pre bl w1 v1,
  WordArg w1 v1 -> blanks bl -> lexes_fine pre (chars "-fprintf" ++ bl ++ w1) ->
  parse (pre ++ chars "-fprintf" ++ bl ++ w1)
  = ParseErr (failed_msg [] KAction "-fprintf" (Some "filename_and_format"%string)).
Proof. exact fprintf_second_missing. Qed.
Theorem C18s_fprintf_missing_gap : forall pre bl w1 v1 g,
  WordArg w1 v1 -> gap g -> blanks bl -> lexes_fine pre (chars "-fprintf" ++ bl ++ w1 ++ g) ->
  parse (pre ++ chars "-fprintf" ++ bl ++ w1 ++ g)
  = ParseErr (failed_msg [] KAction "-fprintf" (Some "format_string"%string)).
Proof. exact fprintf_second_missing_gap. Qed.

(** these are all the ways a string or format word can be invalid from its first character:
    whatever else stands there (and is not a blank) starts a word *)
Theorem C18s_word_or_no_word : forall a,
  head_in is_space a = false -> ~ no_word a -> exists v r, parse_string a = (Ok v, r).
Proof. exact word_starts. Qed.

(** ** A format word whose content is no format *)

(** -printf WORD: the whole content [v] of the word is quoted *)
Theorem C18s_printf_bad_format : forall pre bl w v rest,
  WordArg w v -> SegErr v -> at_arg_end rest -> blanks bl ->
  lexes_fine pre (chars "-printf" ++ bl ++ w ++ rest) ->
  parse (pre ++ chars "-printf" ++ bl ++ w ++ rest)
  = ParseErr (failed_msg v KAction "-printf" (Some "Found an invalid format specifier"%string)).
Proof. exact printf_bad_format. Qed.

(** -fprintf FILE WORD: the whole content [v2] of the second word is quoted *)
Theorem C18s_fprintf_bad_format : forall pre bl w1 v1 g w2 v2 rest,
  WordArg w1 v1 -> gap g -> WordArg w2 v2 -> SegErr v2 -> at_arg_end rest -> blanks bl ->
  lexes_fine pre (chars "-fprintf" ++ bl ++ w1 ++ g ++ w2 ++ rest) ->
  parse (pre ++ chars "-fprintf" ++ bl ++ w1 ++ g ++ w2 ++ rest)
  = ParseErr (failed_msg v2 KAction "-fprintf" (Some "Found an invalid format specifier"%string)).
Proof. exact fprintf_bad_format. Qed.

(** ** First in the input: no hypothesis on a prefix *)
Theorem C18s_xattr_match_second_first : forall bl w1 v1 g a,
  WordArg w1 v1 -> gap g -> no_word a -> blanks bl ->
  parse (chars "-xattr-match" ++ bl ++ w1 ++ g ++ a)
  = ParseErr (failed_msg (next_word a) KTest "-xattr-match" (Some "Expected a string"%string)).
Proof. exact xattr_match_second_bad_first. Qed.
Theorem C18s_fprintf_second_first : forall bl w1 v1 g a,
  WordArg w1 v1 -> gap g -> no_word a -> blanks bl ->
  parse (chars "-fprintf" ++ bl ++ w1 ++ g ++ a)
  = ParseErr (failed_msg (next_word a) KAction "-fprintf" (Some "format_string"%string)).
Proof. exact fprintf_second_bad_first. Qed.
Theorem C18s_printf_bad_format_first : forall bl w v rest,
  WordArg w v -> SegErr v -> at_arg_end rest -> blanks bl ->
  parse (chars "-printf" ++ bl ++ w ++ rest)
  = ParseErr (failed_msg v KAction "-printf" (Some "Found an invalid format specifier"%string)).
Proof. exact printf_bad_format_first. Qed.
Theorem C18s_fprintf_bad_format_first : forall bl w1 v1 g w2 v2 rest,
  WordArg w1 v1 -> gap g -> WordArg w2 v2 -> SegErr v2 -> at_arg_end rest -> blanks bl ->
  parse (chars "-fprintf" ++ bl ++ w1 ++ g ++ w2 ++ rest)
  = ParseErr (failed_msg v2 KAction "-fprintf" (Some "Found an invalid format specifier"%string)).
Proof. exact fprintf_bad_format_first. Qed.

(** ** Non-vacuity *)

(** the hypotheses are met by bare and quoted words, a format with a bad directive after good
    ones, gaps of several kinds of blank, and a continuation after the word *)
Example C18s_example_hyps :
  WordArg (chars "user.x") (chars "user.x")
  /\ WordArg (chars "'x %p y %q z'") (chars "x %p y %q z")
  /\ SegErr (chars "x %p y %q z")
  /\ gap [32; 9] /\ blanks (chars " ")
  /\ no_word [] /\ no_word (chars ") -print") /\ at_arg_end (chars " -print").
Proof.
  split; [|split; [|split; [|split; [|split; [|split; [|split]]]]]].
  - apply W_bare.
    + discriminate.
    + repeat constructor; unfold Blank, rparen; intros H; repeat destruct H as [H|H]; discriminate.
    + unfold Quote, dquote, squote. intros [H|H]; discriminate.
  - change (chars "'x %p y %q z'") with (squote :: chars "x %p y %q z" ++ [squote]).
    apply W_single. unfold squote. intros H. repeat destruct H as [H|H]; try discriminate. exact H.
  - apply parse_format_err. eexists. eexists. vm_compute. reflexivity.
  - split; [discriminate|]. apply Forall_cons; [left; reflexivity|].
    apply Forall_cons; [right; left; reflexivity|apply Forall_nil].
  - split; [discriminate|reflexivity].
  - left. reflexivity.
  - right. eexists. reflexivity.
  - left. left. reflexivity.
Qed.

(** a prefix with a quoted string, an operator and a parenthesis lexes fine ... *)
Example C18s_example_prefix :
  lexes_fine (chars "-name ""a b"" -o ( ") (chars "-fprintf out 'x %p y %q z' )").
Proof.
  unfold lexes_fine.
  match goal with
  | |- lexes_to ?x ?y =>
      let x' := eval vm_compute in x in let y' := eval vm_compute in y in change (lexes_to x' y')
  end.
  repeat (eapply lexes_step; [vm_compute; reflexivity|]). apply lexes_here.
Qed.

(** ... and this is what the model says there, and on a few other inputs *)
Example C18s_example_eval :
  parse (chars "-name ""a b"" -o ( -fprintf out 'x %p y %q z' )")
  = ParseErr (chars "Syntax error: Failed to parse argument `x %p y %q z` of action `-fprintf`: Found an invalid format specifier")
  /\ parse (chars "-printf abc%")
     = ParseErr (chars "Syntax error: Failed to parse argument `abc%` of action `-printf`: Found an invalid format specifier")
  /\ parse (chars "-true -o ( -printf %p\n%{xattr:} )")
     = ParseErr (chars "Syntax error: Failed to parse argument `%p\n%{xattr:}` of action `-printf`: Found an invalid format specifier")
  /\ parse (chars "-depth ( -xattr-match user.x  ) -print")
     = ParseErr (chars "Syntax error: Failed to parse argument `` of test `-xattr-match`: Expected a string")
  /\ parse (chars "-xattr-match user.x")
     = ParseErr (chars "Syntax error: Failed to parse argument `` of test `-xattr-match`: Expected an attribute name and a value to compare")
  /\ parse (chars "( -xattr-match user.x)")
     = ParseErr (chars "Syntax error: Failed to parse argument `` of test `-xattr-match`: Expected an attribute name and a value to compare")
  /\ parse (chars "-fprintf out ")
     = ParseErr (chars "Syntax error: Failed to parse argument `` of action `-fprintf`: format_string")
  /\ parse (chars "-fprintf out")
     = ParseErr (chars "Syntax error: Failed to parse argument `` of action `-fprintf`: filename_and_format").
Proof. repeat split; vm_compute; reflexivity. Qed.
