(** C01 — Operator grammar: precedence, associativity, grouping, exact acceptance.
    Token level: the statements quantify over ALL token lists, of any length and nesting depth. *)
From Coq Require Import List.
From FP Require Import Model.Ast Model.Lex Model.Prec Spec.Grammar Proofs.PrecIff.
Import ListNotations.

(** parsing succeeds exactly on the sentences of the grammar, and returns the tree the
    derivation denotes *)
Theorem C01_tokens : forall ts e, prec_parser ts = Some e <-> GList ts e.
Proof. exact parser_iff. Qed.

(** that tree is unique *)
Theorem C01_unique : forall ts e1 e2, GList ts e1 -> GList ts e2 -> e1 = e2.
Proof. exact grammar_unique. Qed.

(** anything else is rejected as a whole: no prefix is ever returned as the result *)
Theorem C01_no_prefix : forall pre suf e,
  GList pre e -> (forall e', ~ GList (pre ++ suf) e') -> prec_parser (pre ++ suf) = None.
Proof. exact no_prefix_result. Qed.

(** non-vacuity: a sentence mixing every operator, and a prefix-sentence followed by junk *)
Example C01_example :
  let t := KPrim (LTest TTrue) in let f := KPrim (LTest TFalse) in
  prec_parser [KNot; t; KAnd; f; t; KOr; KLParen; f; KComma; t; KRParen; KComma; f]
  = Some (EList (EOr (EAnd (EAnd (ENot (ETest TTrue)) (ETest TFalse)) (ETest TTrue))
                     (EList (ETest TFalse) (ETest TTrue)))
                (ETest TFalse))
  /\ prec_parser [t; KRParen; f] = None.
Proof. split; reflexivity. Qed.
