(** C15 (clock readings) — each time test embeds the clock reading taken when it was compiled:
    the readings embedded in the compiled body, in traversal order, are exactly the first
    readings of the clock, one per time test.  The default [hd 0] of the model is never used
    when the clock has at least that many readings.  Recogniser: Spec/ClockForm.v. *)
From Coq Require Import List NArith String.
From FP Require Import Model.Chars Model.Ast Model.Sexp Model.Compile.
From FP Require Import Spec.ClockForm Proofs.ClockFacts Proofs.ClockReadings.
Import ListNotations.
Local Open Scope N_scope.

(** the form a time test compiles to carries its reading as the numeral the recogniser returns *)
Theorem C15r_time_form : forall now c,
  clock_atoms (compile_time now "atime" c) = [print_dec now]
  /\ clock_atoms (compile_time now "ctime" c) = [print_dec now]
  /\ clock_atoms (compile_time now "mtime" c) = [print_dec now].
Proof. exact clock_atoms_time3. Qed.

(** the numerals embedded in the body are the decimal numerals of the first readings *)
Theorem C15r_clock_atoms : forall e o clk c,
  compile e o clk = COk c ->
  (count_time_tests e <= List.length clk)%nat ->
  clock_atoms (c_body c) = map print_dec (firstn (count_time_tests e) clk).
Proof. exact compile_embeds_clock_atoms. Qed.

(** decoded: the embedded readings are the first readings of the clock *)
Theorem C15r_clock_embedded : forall e o clk c,
  compile e o clk = COk c ->
  (count_time_tests e <= List.length clk)%nat ->
  clock_readings (c_body c) = firstn (count_time_tests e) clk.
Proof. exact compile_embeds_clock. Qed.

(** the count is the one used in C15 *)
Theorem C15r_count : forall e, count_time_tests e = time_tests e.
Proof. exact count_time_tests_eq. Qed.

Example C15r_example :
  let e := EAnd (ETest (TAccessTime (Gt (Time UMinute 5))))
             (EOr (ENot (ETest (TSize (Gt (Size UKilo 3)))))
                  (EAnd (ETest (TModifyTime (Lt (Time UDay 1))))
                        (EAction (APrintFormatted [EField FDiskSizeKilos; EField FAccess])))) in
  count_time_tests e = 2%nat
  /\ exists c, compile e default_options [1700000000; 1700000001; 7] = COk c
     /\ clock_readings (c_body c) = [1700000000; 1700000001].
Proof. split; [reflexivity|]. eexists. split; [vm_compute; reflexivity|]. vm_compute. reflexivity. Qed.

(** the length hypothesis is needed: with too short a clock the model's default 0 shows *)
Example C15r_short_clock :
  exists c, compile (ETest (TAccessTime (Gt (Time UMinute 5)))) default_options [] = COk c
  /\ clock_readings (c_body c) = [0].
Proof. eexists. split; [vm_compute; reflexivity|]. vm_compute. reflexivity. Qed.
