(** The statements of C18 pinned by [Check name : statement]: a theorem cannot be weakened
    without this file failing to compile. *)
From Coq Require Import List String NArith Bool.
From FP Require Import Model.Chars Model.Winnow Model.Args Model.Lex Model.Parse.
From FP Require Import Spec.Decimal Spec.PermWord Spec.Messages.
From FP Require Spec.Chmod.
From FP Require Properties.C18.
Import ListNotations.
Local Open Scope N_scope.

Check C18.C18_sane : forall s m,
  parse s = ParseErr m -> m <> [] /\ exists w, quoted_in m w /\ substring w s.

Check C18.C18_missing_arg : forall K k l p pre,
  In (K, k, l, p) arg_table -> lexes_fine pre (chars K) ->
  parse (pre ++ chars K) = ParseErr (failed_msg [] k K (missing_expl l)).

Check C18.C18_missing_arg_first : forall K k l p,
  In (K, k, l, p) arg_table -> parse (chars K) = ParseErr (failed_msg [] k K (missing_expl l)).

Check C18.C18_missing_arg_after_true : forall K k l p,
  In (K, k, l, p) arg_table ->
  parse (chars "-true " ++ chars K) = ParseErr (failed_msg [] k K (missing_expl l)).

Check C18.C18_invalid_arg : forall K k l p pre bl a e,
  In (K, k, l, p) arg_table -> lexes_fine pre (chars K ++ bl ++ a) -> blanks bl ->
  bad_start l a e ->
  parse (pre ++ chars K ++ bl ++ a) = ParseErr (failed_msg (next_word a) k K e).

Check C18.C18_invalid_arg_first : forall K k l p bl a e,
  In (K, k, l, p) arg_table -> blanks bl -> bad_start l a e ->
  parse (chars K ++ bl ++ a) = ParseErr (failed_msg (next_word a) k K e).

Check C18.C18_invalid_arg_after_true : forall K k l p bl a e,
  In (K, k, l, p) arg_table -> blanks bl -> bad_start l a e ->
  parse (chars "-true " ++ chars K ++ bl ++ a) = ParseErr (failed_msg (next_word a) k K e).

Check C18.C18_invalid_perm : forall pre bl (sg : Chmod.prefix) body rest,
  lexes_fine pre (chars "-perm" ++ bl ++ (Chmod.prefix_str sg ++ body) ++ rest) -> blanks bl ->
  bare_word (Chmod.prefix_str sg ++ body) -> ends_word rest ->
  stops is_oct body -> stops (in_str "ugoa") body ->
  stops (fun c => (c =? 47) || (c =? 45)) body ->
  parse (pre ++ chars "-perm" ++ bl ++ (Chmod.prefix_str sg ++ body) ++ rest)
  = ParseErr (failed_msg (Chmod.prefix_str sg ++ body) KTest "-perm"
                (Some "Invalid permission format"%string)).

Check C18.C18_any_arg_failure : forall K k l p pre bl a (b : bool) c r2,
  In (K, k, l, p) arg_table -> lexes_fine pre (chars K ++ bl ++ a) -> blanks bl ->
  head_in is_space a = false -> p a = ((if b then Cut c else Back c), r2) ->
  exists e, parse (pre ++ chars K ++ bl ++ a) = ParseErr (failed_msg (next_word r2) k K e).

Check C18.C18_unknown_word : forall pre i,
  unknown_at i = true -> i <> [] -> lexes_fine pre i ->
  parse (pre ++ i) = ParseErr (unexpected_msg (next_word i)).

Check C18.C18_quoted_nothing : forall a, no_word a -> next_word a = [].

Check C18.C18_quoted_bare : forall w rest, bare_word w -> ends_word rest -> next_word (w ++ rest) = w.

Check C18.C18_quoted_dquoted : forall w rest,
  forallb (fun c => negb (c =? 34)) w = true -> next_word (34 :: w ++ 34 :: rest) = w.

Check C18.C18_prefix_nil : forall rest, head_in is_space rest = false -> lexes_fine [] rest.

Check C18.C18_prefix_true : forall rest,
  head_in is_space rest = false -> lexes_fine (chars "-true ") rest.
