(** The statements of C04w pinned by [Check name : statement]: a theorem cannot be weakened
    without this file failing to compile. *)
From Coq Require Import List String NArith Bool.
From FP Require Import Model.Chars Model.Ast Model.Sexp Model.Compile Spec.GuileFormat Spec.UserStrings.
From FP Require Properties.C04w.
Import ListNotations.
Local Open Scope N_scope.

Check C04w.C04w_strings : forall e o clk c mdt,
  compile e o clk = COk c ->
  forall v, In v (strings_of (erase (fst (render c mdt))) ++ strings_of (erase (snd (render c mdt)))) ->
  In v (direct_strings e ++ [mdt])
  \/ In v fixed_strings
  \/ (exists ch, In ch (selectors e) /\ v = [37; ch])
  \/ (exists fmt, In fmt (formats e) /\ v = template_text fmt).
Check C04w.C04w_strings_user : forall e o clk c mdt,
  compile e o clk = COk c ->
  forall v, In v (strings_of (erase (fst (render c mdt))) ++ strings_of (erase (snd (render c mdt)))) ->
  In v (user_strings e ++ [mdt])
  \/ In v fixed_strings
  \/ (exists ch, In ch (selectors e) /\ v = [37; ch])
  \/ (exists fmt, In fmt (formats e) /\ v = template_text fmt).
Check C04w.C04w_first_form : forall c mdt, strings_of (erase (fst (render c mdt))) = [].
Check C04w.C04w_template : forall fmt,
  (forall ps, template fmt = COk ps -> flat_map piece_value ps = template_text fmt)
  /\ (forall a b, template_text (a ++ b) = template_text a ++ template_text b)
  /\ (forall t, template_text [ELit t] = double_tilde t /\ elem_tokens (ELit t) = map FChar t)
  /\ (forall f, In (placeholder f) directive_texts)
  /\ format_tokens (template_text fmt) = Some (flat_map elem_tokens fmt).
Check C04w.C04w_atoms : forall e o clk c mdt,
  compile e o clk = COk c ->
  forall a, In a (atoms_of (erase (fst (render c mdt))) ++ atoms_of (erase (snd (render c mdt)))) ->
  atom_shape a.
Check C04w.C04w_atom_texts :
  (forall kind n, ident kind n = LAtom (ident_text kind n))
  /\ (forall n, num n = LAtom (print_dec n))
  /\ (forall c, terminator_escape (Some c) = LAtom (charlit_text (c mod 256)))
  /\ terminator_escape None = atom "#f"
  /\ (forall s, atom s = LAtom (chars s)).
