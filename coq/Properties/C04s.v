(** C04s — Changing the characters of user strings never changes the structure of the program
    around them (whole program, with sharing). Statements only; proofs are in Proofs/. *)
From Coq Require Import List NArith Bool.
From FP Require Import Model.Chars Model.Ast Model.Sexp Model.Compile Spec.Blank
  Proofs.StructureIndependent.
Import ListNotations.
Local Open Scope N_scope.

(** two trees that differ only in the characters of their user strings, with the same equality
    pattern among matcher keys and among file names (stated by positions), compile alike: if the
    first compiles so does the second, and body, definitions, framing, init/fini forms, thread
    count and io-map agree once string contents and the choice of matcher primitive are blanked *)
Theorem C04s_positions : forall e1 e2 o clk c1,
  same_shape_pos e1 e2 -> compile e1 o clk = COk c1 ->
  exists c2, compile e2 o clk = COk c2 /\ same_structure_by blank c1 c2.
Proof. exact structure_independent_pos. Qed.

(** the same for a key correspondence given as relations that preserve and reflect equality *)
Theorem C04s_structure : forall e1 e2 o clk c1,
  same_shape e1 e2 -> compile e1 o clk = COk c1 ->
  exists c2, compile e2 o clk = COk c2 /\ same_structure_by blank c1 c2.
Proof. exact structure_independent. Qed.

(** if corresponding patterns also agree on [is_pattern], every atom agrees as well *)
Theorem C04s_structure_atoms : forall e1 e2 o clk c1,
  same_shape_pat e1 e2 -> compile e1 o clk = COk c1 ->
  exists c2, compile e2 o clk = COk c2 /\ same_structure_by blank_strings c1 c2.
Proof. exact structure_independent_atoms. Qed.

(** the positional hypothesis yields the relational one; every tree is related to itself *)
Theorem C04s_pos_shape : forall e1 e2, same_shape_pos e1 e2 -> same_shape e1 e2.
Proof. exact same_shape_pos_shape. Qed.
Theorem C04s_refl : forall e, same_shape e e.
Proof. exact same_shape_refl. Qed.

(** the hypotheses are inhabited by a tree with shared matcher keys, two files and a format *)
Example C04s_inhabited :
  same_shape_pos ex_e1 ex_e2 /\ exists c, compile ex_e1 default_options [] = COk c.
Proof. exact (conj ex_same_shape_pos ex_compiles). Qed.
