(** The statements of C15r pinned by [Check name : statement]. *)
From Coq Require Import List NArith String.
From FP Require Import Model.Chars Model.Ast Model.Sexp Model.Compile.
From FP Require Import Spec.ClockForm Proofs.ClockFacts.
From FP Require Properties.C15r.
Import ListNotations.
Local Open Scope N_scope.

Check C15r.C15r_time_form : forall now c,
  clock_atoms (compile_time now "atime" c) = [print_dec now]
  /\ clock_atoms (compile_time now "ctime" c) = [print_dec now]
  /\ clock_atoms (compile_time now "mtime" c) = [print_dec now].
Check C15r.C15r_clock_atoms : forall e o clk c,
  compile e o clk = COk c ->
  (count_time_tests e <= List.length clk)%nat ->
  clock_atoms (c_body c) = map print_dec (firstn (count_time_tests e) clk).
Check C15r.C15r_clock_embedded : forall e o clk c,
  compile e o clk = COk c ->
  (count_time_tests e <= List.length clk)%nat ->
  clock_readings (c_body c) = firstn (count_time_tests e) clk.
Check C15r.C15r_count : forall e, count_time_tests e = time_tests e.
