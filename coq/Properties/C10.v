(** C10 — Output routing: mode choice and destination table are right.
    Statements only; definitions are in Spec/Resources.v and Spec/Tree.v, proofs in
    Proofs/ManagerInv.v and Proofs/Routing.v. *)
From Coq Require Import List String NArith Bool.
From FP Require Import Model.Chars Model.Ast Model.Sexp Model.Compile Spec.Tree Spec.Resources.
From FP Require Import Proofs.ManagerInv Proofs.Routing.
Import ListNotations.
Local Open Scope N_scope.

(** framed (distributed) output is selected exactly when some action occurrence writes to a file,
    terminates records with NUL, or prints a format not ending in the newline escape *)
Theorem C10_mode : forall e o clk c,
  compile e o clk = COk c ->
  c_framed c = complex_frames e
  /\ (c_framed c = true <-> exists a, Subterm (EAction a) e /\ NeedsFrames a).
Proof. exact mode_both. Qed.

(** plain mode reports no destination table, framed mode reports one *)
Theorem C10_table_plain_none : forall e o clk c,
  compile e o clk = COk c -> (c_iomap c = None <-> c_framed c = false).
Proof. exact iomap_none_iff. Qed.

(** the reported table is exactly the printers table of the final manager — the table through
    which every printer reference of the body is resolved (C11_reaches) — read from tag to target *)
Theorem C10_table_inverse : forall e o clk c,
  compile e o clk = COk c -> c_framed c = true ->
  exists d, final_mgr e clk = Some (MD d) /\ c_defs c = d_vars d
            /\ c_iomap c = Some (invert (d_printers d)).
Proof. exact iomap_inverse. Qed.

(** every action occurrence that writes has its (destination, terminator) in the table *)
Theorem C10_complete : forall e o clk c tbl,
  compile e o clk = COk c -> c_iomap c = Some tbl ->
  forall a t, Subterm (EAction a) (wrap e) -> action_target a = Some t -> exists i, In (i, t) tbl.
Proof. exact complete. Qed.

(** every entry of the table is the (destination, terminator) of some action occurrence *)
Theorem C10_sound : forall e o clk c tbl,
  compile e o clk = COk c -> c_iomap c = Some tbl ->
  forall i t, In (i, t) tbl -> exists a, Subterm (EAction a) (wrap e) /\ action_target a = Some t.
Proof. exact sound. Qed.

(** equal (destination, terminator) pairs share one tag, different pairs never share; the frame
    a printer emits carries its own tag (the binding of print:i frames with #\x<hex i>) *)
Theorem C10_tags : forall e o clk c tbl,
  compile e o clk = COk c -> c_iomap c = Some tbl ->
  NoDup (map fst tbl) /\ NoDup (map snd tbl)
  /\ forall i t, In (i, t) tbl -> 2 <= i /\ In (framed_printer_binding i) (c_defs c).
Proof. exact tags. Qed.

(** non-vacuity: stdout/newline twice (shared), stdout/NUL, file f/newline, under OR nodes *)
Example C10_example :
  let e := EOr (EAction APrint)
             (EOr (EAction APrintNull) (EOr (EAction (AFilePrint (chars "f"))) (EAction APrintFid))) in
  exists c, compile e default_options [] = COk c /\ c_framed c = true
    /\ c_iomap c = Some [(2, TStdout (Some 10)); (3, TStdout (Some 0)); (4, TFile (chars "f") (Some 10))]
    /\ print (c_body c) = chars "(or (call-with-relative-path %lf3:print:2) (or (call-with-relative-path %lf3:print:3) (or (call-with-relative-path %lf3:print:4) (%lf3:print:2 (file-fid)))))".
Proof. eexists. repeat split. Qed.

Example C10_example_plain :
  let e := EOr (EAction APrint) (EAction (APrintFormatted [ELit (chars "a"); ESpecial XNewline])) in
  exists c, compile e default_options [] = COk c /\ c_framed c = false /\ c_iomap c = None.
Proof. eexists. repeat split. Qed.
