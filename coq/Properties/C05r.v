(** C05, the rejecting half — a word that is not a keyword, or an argument word that is not
    entirely in the argument language, makes the whole input an error rather than being partly
    used. Statements only; proofs are in Proofs/Dispatch.v, Proofs/TokenView.v,
    Proofs/FirstError.v and Proofs/ErrorAttribution.v. Vocabulary: Spec/Messages.v (the keyword
    lists [arg_table], [plain_keywords], [operator_words]; [unknown_at], the decidable "no keyword
    stands here as a whole word"; [lexes_fine]; word ends), Spec/Decimal.v, Spec/Numeric.v,
    Spec/PermWord.v. *)
From Coq Require Import List String NArith Bool.
From FP Require Import Model.Chars Model.Winnow Model.Args Model.Perm Model.Lex Model.Parse.
From FP Require Import Spec.Decimal Spec.Numeric Spec.PermWord Spec.Messages.
From FP Require Import Proofs.Dispatch Proofs.ErrorAttribution.
Import ListNotations.
Local Open Scope N_scope.

(** ** Words that are no keyword *)

(** none of ( ) ! , at the start, and no operator word or primary keyword standing there as a
    whole word: every alternative of the token parser fails, in place *)
Theorem C05r_reject_word_token : forall i,
  unknown_at i = true -> parse_token i = (Back [Expected "invalid_token"; Label "syntax"], i).
Proof. exact token_unknown. Qed.

(** ... and the whole input is an error quoting that word, wherever it stands *)
Theorem C05r_reject_word : forall pre i,
  unknown_at i = true -> i <> [] -> lexes_fine pre i ->
  parse (pre ++ i) = ParseErr (unexpected_msg (next_word i)).
Proof. exact unknown_word. Qed.

(** the lists [unknown_at] quantifies over are not too long either: every listed word is
    recognised by the token parser *)
Theorem C05r_vocabulary : vocabulary_recognised.
Proof. exact vocabulary_ok. Qed.

(** ** Argument words with trailing junk *)

(** the argument parser [p] of the keyword accepts a piece of the word and leaves [r2], which
    is not a word end: the token parser backtracks to the start of the primary ... *)
Theorem C05r_reject_arg_token : forall K k l p bl a r2,
  In (K, k, l, p) arg_table -> blanks bl -> head_in is_space a = false ->
  p a = (Ok tt, r2) -> at_word_end r2 = false ->
  parse_token (chars K ++ bl ++ a)
  = (Back [Expected "invalid_token"; Label "syntax"], chars K ++ bl ++ a).
Proof. exact token_reject_arg. Qed.

(** ... and the whole input is an error (it quotes the keyword, which is where the token parser
    gave up), wherever the primary stands *)
Theorem C05r_reject_arg : forall K k l p pre bl a r2,
  In (K, k, l, p) arg_table -> lexes_fine pre (chars K ++ bl ++ a) -> blanks bl ->
  head_in is_space a = false -> p a = (Ok tt, r2) -> at_word_end r2 = false ->
  parse (pre ++ chars K ++ bl ++ a) = ParseErr (unexpected_msg (chars K)).
Proof. exact reject_arg. Qed.

(** the argument parser fails outright (missing, invalid anywhere in the word, out of range):
    an error of that keyword *)
Theorem C05r_reject_arg_failure : forall K k l p pre bl a (b : bool) c r2,
  In (K, k, l, p) arg_table -> lexes_fine pre (chars K ++ bl ++ a) -> blanks bl ->
  head_in is_space a = false -> p a = ((if b then Cut c else Back c), r2) ->
  exists e, parse (pre ++ chars K ++ bl ++ a) = ParseErr (failed_msg (next_word r2) k K e).
Proof. exact arg_error_named. Qed.

(** instances. A count, signed or not, followed by anything that is neither a digit nor a word
    end ("-uid 12x", "-links +3=") *)
Theorem C05r_count_junk : forall K k p pre bl sg ds j,
  In (K, k, LCount, p) arg_table -> lexes_fine pre (chars K ++ bl ++ prefix_str sg ++ ds ++ j) ->
  blanks bl -> digits ds -> ds <> [] -> pos_value ds < 2 ^ 32 ->
  not_starting_with digit j -> at_word_end j = false ->
  parse (pre ++ chars K ++ bl ++ prefix_str sg ++ ds ++ j) = ParseErr (unexpected_msg (chars K)).
Proof. exact reject_count_junk. Qed.

(** a size with its unit letter followed by junk ("-size 5k9", "-size -3Mb") *)
Theorem C05r_size_junk : forall pre bl sg ds u j,
  lexes_fine pre (chars "-size" ++ bl ++ prefix_str sg ++ ds ++ size_letter u :: j) ->
  blanks bl -> digits ds -> ds <> [] -> pos_value ds < 2 ^ 64 -> at_word_end j = false ->
  parse (pre ++ chars "-size" ++ bl ++ prefix_str sg ++ ds ++ size_letter u :: j)
  = ParseErr (unexpected_msg (chars "-size")).
Proof. exact reject_size_junk. Qed.

(** a -perm word that is not a mode as a whole, embedded and trailing junk included
    ("-perm 644x", "-perm u+r,zz"; see C08 for which words are not) *)
Theorem C05r_perm_word : forall pre bl o rest,
  lexes_fine pre (chars "-perm" ++ bl ++ o ++ rest) -> blanks bl ->
  bare_word o -> ends_word rest -> is_ok (fst (perm_word o)) = false ->
  exists e, parse (pre ++ chars "-perm" ++ bl ++ o ++ rest)
            = ParseErr (failed_msg o KTest "-perm" e).
Proof. exact reject_perm_word. Qed.

(** ** Non-vacuity *)
Example C05r_example_unknown :
  map (fun w => unknown_at (chars w))
      ["-nam x"; "-namex"; "-print1"; "-o("; "foo"; "-name x"; "-o"; "(x"]%string
  = [true; true; true; true; true; false; false; false].
Proof. vm_compute. reflexivity. Qed.

Example C05r_example_eval :
  parse (chars "-size 5k9") = ParseErr (chars "Syntax error: Unexpected token: `-size`")
  /\ parse (chars "-true -o -uid 12x") = ParseErr (chars "Syntax error: Unexpected token: `-uid`")
  /\ parse (chars "-perm 644x")
     = ParseErr (chars "Syntax error: Failed to parse argument `644x` of test `-perm`: Invalid permission format")
  /\ parse (chars "-print1") = ParseErr (chars "Syntax error: Unexpected token: `-print1`").
Proof. repeat split; vm_compute; reflexivity. Qed.
