(** C08s — Permission arguments, the converse direction and the short octal words.
    Statements only; proofs are in Proofs/PermSound.v. Vocabulary as in Properties/C08.v:
    Spec/Chmod.v and Spec/PermWord.v ([perm_word], the parser [parse_perm_arg] runs on the
    delimited argument word). [code_chmod] is the fold of the CODE's clause rule over mode 0
    (finding D14: its '-' differs from chmod's; see C08_minus_refuted). All lists are unbounded. *)
From Coq Require Import List String NArith Bool.
From FP Require Import Model.Chars Model.Winnow Model.Ast Model.Args Model.Perm.
From FP Require Import Spec.Chmod Spec.PermWord Proofs.PermProofs Proofs.PermSound.
Import ListNotations.
Local Open Scope N_scope.

(** soundness: whatever [perm_word] accepts leaves nothing over and is a prefix followed either by
    three or more octal digits whose value is within the twelve bits, or by a rendered non-empty
    clause list; the bits are that value, resp. what the code's rule folds to from mode 0 *)
Theorem C08_sound : forall w k b r,
  perm_word w = (Ok (k, b), r) ->
  r = [] /\
  ((exists p ds, w = prefix_str p ++ ds /\ oct_digits ds /\ (3 <= List.length ds)%nat /\
                 b = pos_value8 ds /\ b <= 4095 /\ k = kind_of p)
   \/ (exists p cls, cls <> [] /\ w = prefix_str p ++ render_clauses cls /\
                     b = code_chmod cls /\ k = kind_of p)).
Proof. exact perm_word_sound. Qed.

(** together with C08_octal and C08_symbolic: acceptance is exactly the two forms *)
Theorem C08_accepts_iff : forall w k b,
  perm_word w = (Ok (k, b), []) <->
  (exists p ds, w = prefix_str p ++ ds /\ oct_digits ds /\ (3 <= List.length ds)%nat /\
                b = pos_value8 ds /\ b <= 4095 /\ k = kind_of p)
  \/ (exists p cls, cls <> [] /\ w = prefix_str p ++ render_clauses cls /\
                    b = code_chmod cls /\ k = kind_of p).
Proof. exact perm_word_accepts_iff. Qed.

(** DEVIATION from find(1), pinned: an octal word of fewer than three digits (also none at all)
    is rejected, with the error of a malformed permission. GNU find accepts `-perm 7`, `-perm -77`
    and reads them as 0o007, 0o077; the property text ("an octal argument denotes its value iff
    <= 07777") does not hold of the code for these words. *)
Theorem C08_short_octal_rejected : forall p ds,
  oct_digits ds -> (List.length ds < 3)%nat ->
  perm_word (prefix_str p ++ ds)
  = (Cut [Expected "invalid_permission_format"; Label "permission"; Label "permission_comparison"], ds).
Proof. exact perm_word_short_octal. Qed.

(** the same through the argument delimiter, for an unquoted word followed by [rest] *)
Theorem C08_arg_short_octal_rejected : forall p ds rest,
  oct_digits ds -> (1 <= List.length ds < 3)%nat -> stops bare_char rest ->
  parse_perm_arg (prefix_str p ++ ds ++ rest)
  = (Cut [Expected "invalid_permission_format"; Label "permission"; Label "permission_comparison"],
     prefix_str p ++ ds ++ rest).
Proof. exact parse_perm_arg_short_octal. Qed.

(** non-vacuity *)
Example C08_short_octal_example :
  let d1 := chars "7" in let d2 := chars "77" in
  oct_digits d1 /\ (List.length d1 < 3)%nat /\ pos_value8 d1 = 7 /\
  oct_digits d2 /\ (List.length d2 < 3)%nat /\ pos_value8 d2 = 63 /\
  is_ok (fst (perm_word (chars "7"))) = false /\
  is_ok (fst (perm_word (chars "-77"))) = false /\
  is_ok (fst (perm_word (chars "/77"))) = false /\
  is_ok (fst (parse_perm_arg (chars "7 -print"))) = false /\
  perm_word (chars "007") = (Ok (PEqual, 7), []) /\
  perm_word (chars "-077") = (Ok (PAtLeast, 63), []).
Proof.
  split; [repeat constructor; discriminate|]. split; [cbn; repeat constructor|].
  split; [reflexivity|].
  split; [repeat constructor; discriminate|]. split; [cbn; repeat constructor|].
  repeat split.
Qed.

Example C08_sound_example :
  perm_word (chars "-0644") = (Ok (PAtLeast, 420), []) /\
  (exists p ds, chars "-0644" = prefix_str p ++ ds /\ oct_digits ds /\ (3 <= List.length ds)%nat /\
                420 = pos_value8 ds /\ 420 <= 4095 /\ PAtLeast = kind_of p) /\
  perm_word (chars "/u+rw,u-r") = (Ok (PAny, 256), []) /\
  (exists p cls, cls <> [] /\ chars "/u+rw,u-r" = prefix_str p ++ render_clauses cls /\
                 256 = code_chmod cls /\ PAny = kind_of p).
Proof.
  split; [reflexivity|]. split.
  { exists Dash, (chars "0644"). split; [reflexivity|].
    split; [repeat constructor; discriminate|]. split; [cbn; repeat constructor|].
    split; [reflexivity|]. split; [discriminate|reflexivity]. }
  split; [reflexivity|].
  exists Slash, [Clause Wu [] OAdd Pr [Pw]; Clause Wu [] ODel Pr []].
  repeat split. discriminate.
Qed.
