(** The statements of C07e pinned by [Check name : statement]: a theorem cannot be weakened
    without this file failing to compile. *)
From Coq Require Import List String NArith Bool.
From FP Require Import Model.Chars Model.Winnow Model.Ast Model.Args Model.Lex Model.Parse
  Model.Sexp Model.Compile.
From FP Require Import Spec.Vocabulary.
From FP Require Import Spec.Decimal Spec.Numeric Spec.Messages Spec.Tree Spec.NumeralSources.
From FP Require Properties.C07e.
Import ListNotations.
Local Open Scope N_scope.

Check C07e.C07e_reject_count32 : forall K f pre bl sg ds rest,
  In (K, f) count32_table ->
  lexes_fine pre (chars K ++ bl ++ Numeric.prefix_str sg ++ ds ++ rest) -> blanks bl ->
  digits ds -> ds <> [] -> not_starting_with digit rest -> 2 ^ 32 <= pos_value ds ->
  parse (pre ++ chars K ++ bl ++ Numeric.prefix_str sg ++ ds ++ rest)
  = ParseErr (failed_msg (next_word (Numeric.prefix_str sg ++ ds ++ rest)) KTest K
                (Some "Expected an unsigned integer"%string)).
Check C07e.C07e_reject_links : forall pre bl sg ds rest,
  lexes_fine pre (chars "-links" ++ bl ++ Numeric.prefix_str sg ++ ds ++ rest) -> blanks bl ->
  digits ds -> ds <> [] -> not_starting_with digit rest -> 2 ^ 64 <= pos_value ds ->
  parse (pre ++ chars "-links" ++ bl ++ Numeric.prefix_str sg ++ ds ++ rest)
  = ParseErr (failed_msg (next_word (Numeric.prefix_str sg ++ ds ++ rest)) KTest "-links"
                (Some "Expected an unsigned integer"%string)).
Check C07e.C07e_reject_threads : forall pre bl ds rest,
  lexes_fine pre (chars "-threads" ++ bl ++ ds ++ rest) -> blanks bl ->
  digits ds -> ds <> [] -> not_starting_with digit rest -> 2 ^ 32 <= pos_value ds ->
  parse (pre ++ chars "-threads" ++ bl ++ ds ++ rest)
  = ParseErr (failed_msg (next_word (ds ++ rest)) KOption "-threads"
                (Some "Expected an unsigned integer"%string)).
Check C07e.C07e_reject_depth : forall K pre bl ds rest,
  K = "-maxdepth"%string \/ K = "-mindepth"%string ->
  lexes_fine pre (chars K ++ bl ++ ds ++ rest) -> blanks bl ->
  digits ds -> ds <> [] -> not_starting_with digit rest -> 2 ^ 32 <= pos_value ds ->
  parse (pre ++ chars K ++ bl ++ ds ++ rest)
  = ParseErr (failed_msg (next_word (ds ++ rest)) KOption K
                (Some "Expected an unsigned integer"%string)).
Check C07e.C07e_reject_size_unit : forall pre bl sg ds u rest,
  lexes_fine pre (chars "-size" ++ bl ++ Numeric.prefix_str sg ++ ds ++ size_letter u :: rest) ->
  blanks bl -> digits ds -> ds <> [] -> 2 ^ 64 <= pos_value ds ->
  parse (pre ++ chars "-size" ++ bl ++ Numeric.prefix_str sg ++ ds ++ size_letter u :: rest)
  = ParseErr (failed_msg (next_word (ds ++ size_letter u :: rest)) KTest "-size"
                (Some "Invalid size specifier"%string)).
Check C07e.C07e_reject_size_plain : forall pre bl sg ds rest,
  lexes_fine pre (chars "-size" ++ bl ++ Numeric.prefix_str sg ++ ds ++ rest) ->
  blanks bl -> digits ds -> ds <> [] -> not_starting_with digit rest ->
  not_starting_with letter rest -> 2 ^ 64 <= pos_value ds ->
  parse (pre ++ chars "-size" ++ bl ++ Numeric.prefix_str sg ++ ds ++ rest)
  = ParseErr (failed_msg (next_word (Numeric.prefix_str sg ++ ds ++ rest)) KTest "-size"
                (Some "Expected an unsigned integer"%string)).
Check C07e.C07e_reject_time_unit : forall K dflt f pre bl sg ds u rest,
  In (K, dflt, f) time_table ->
  lexes_fine pre (chars K ++ bl ++ Numeric.prefix_str sg ++ ds ++ time_letter u :: rest) ->
  blanks bl -> digits ds -> ds <> [] -> 2 ^ 64 <= pos_value ds ->
  parse (pre ++ chars K ++ bl ++ Numeric.prefix_str sg ++ ds ++ time_letter u :: rest)
  = ParseErr (failed_msg (next_word (ds ++ time_letter u :: rest)) KTest K
                (Some "Found an invalid time specifier"%string)).
Check C07e.C07e_reject_time_plain : forall K dflt f pre bl sg ds rest,
  In (K, dflt, f) time_table ->
  lexes_fine pre (chars K ++ bl ++ Numeric.prefix_str sg ++ ds ++ rest) ->
  blanks bl -> digits ds -> ds <> [] -> not_starting_with digit rest ->
  not_starting_with letter rest -> 2 ^ 64 <= pos_value ds ->
  parse (pre ++ chars K ++ bl ++ Numeric.prefix_str sg ++ ds ++ rest)
  = ParseErr (failed_msg (next_word (Numeric.prefix_str sg ++ ds ++ rest)) KTest K
                (Some "Expected an unsigned integer"%string)).
Check C07e.C07e_quoted_number : forall sg ds rest, digits ds -> ds <> [] -> ends_word rest ->
  next_word (Numeric.prefix_str sg ++ ds ++ rest) = Numeric.prefix_str sg ++ ds.
Check C07e.C07e_quoted_number_unit : forall ds c rest,
  digits ds -> ds <> [] -> letter c -> ends_word rest ->
  next_word (ds ++ c :: rest) = ds ++ [c].
Check C07e.C07e_word_end : forall rest, ends_word rest ->
  not_starting_with digit rest /\ not_starting_with letter rest.
Check C07e.C07e_emitted_numerals : forall e o clk c,
  compile e o clk = COk c ->
  forall a, In a (atoms (erase (c_body c))) -> numeric_start a = true ->
  In a numeric_symbols
  \/ exists n, a = print_dec n /\ (In n (fst (tree_numbers e clk)) \/ In n fixed_constants).
Check C07e.C07e_emitted_digit_atoms : forall e o clk c,
  compile e o clk = COk c ->
  forall a, In a (atoms (erase (c_body c))) -> digits a -> a <> [] ->
  exists n, a = print_dec n /\ (In n (fst (tree_numbers e clk)) \/ In n fixed_constants).
Check C07e.C07e_numbers_emitted : forall e o clk c,
  compile e o clk = COk c ->
  forall n, In n (fst (tree_numbers e clk)) -> In (print_dec n) (atoms (erase (c_body c))).
Check C07e.C07e_tree_numbers : forall e clk n,
  In n (fst (tree_numbers e clk)) ->
  (exists t, Subterm (ETest t) e /\ In n (test_numbers t)) \/ In n clk \/ n = 0.
