(** The statements of C03v pinned by [Check name : statement]: a theorem cannot be weakened
    without this file failing to compile. *)
From Coq Require Import List String NArith Bool.
From FP Require Import Model.Chars Model.Winnow Model.Ast Model.Args Model.Perm Model.Format
  Model.Lex Model.Parse Spec.StrictArms Spec.StrictParse.
From FP Require Properties.C03v.
Import ListNotations.
Local Open Scope N_scope.

Check C03v.C03v_perm_arg : forall i, parse_perm_arg_strict i = parse_perm_arg i.
Check C03v.C03v_format_arg : forall i, parse_format_arg_strict i = parse_format_arg i.
Check C03v.C03v_action : forall i, parse_action_strict i = parse_action i.
Check C03v.C03v_test : forall i, parse_test_strict i = parse_test i.
Check C03v.C03v_token : forall i, parse_token_strict i = parse_token i.
Check C03v.C03v_lex : forall i, lex_strict i = lex i.
Check C03v.C03v_lex_strict_total : forall i site, fst (lex_strict i) <> Panic site.
Check C03v.C03v_parse_strict_eq : forall s, parse_strict s = parse s.
Check C03v.C03v_parse_strict_total : forall s site, parse_strict s <> ParsePanic site.
