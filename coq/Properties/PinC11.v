(** The statements of C11 pinned by [Check name : statement]. *)
From Coq Require Import List String NArith Bool.
From FP Require Import Model.Chars Model.Ast Model.Sexp Model.Compile Spec.Tree Spec.Resources Spec.Scope.
From FP Require Properties.C11.
Import ListNotations.
Local Open Scope N_scope.

Check C11.C11_reaches : forall e o clk c,
  compile e o clk = COk c ->
  exists m, final_mgr e clk = Some m /\ c_defs c = m_vars m
            /\ expected_body m clk (wrap e) = Some (c_body c).

Check C11.C11_grows : forall e s x s',
  compile_expr e s = COk (x, s') ->
  ext (st_mgr s) (st_mgr s')
  /\ m_idx (st_mgr s) <= m_idx (st_mgr s')
  /\ (forall pat ci i, matcher_index (st_mgr s) pat ci = Some i -> matcher_index (st_mgr s') pat ci = Some i)
  /\ (forall t i, printer_index (st_mgr s) t = Some i -> printer_index (st_mgr s') t = Some i).

Check C11.C11_counter_above : forall e clk m,
  final_mgr e clk = Some m ->
  (forall k i, In (k, i) (m_matches m) -> i - 1 < m_idx m /\ i < m_idx m)
  /\ match m with
     | ML l => (forall k i, In (k, i) (l_printers l) -> i < l_idx l)
               /\ (forall p, l_default l = Some p -> p_port p < l_idx l /\ p_mutex p < l_idx l)
               /\ (forall f p, In (f, p) (l_files l) -> p_port p < l_idx l /\ p_mutex p < l_idx l)
     | MD d => forall k i, In (k, i) (d_printers d) -> i < d_idx d
     end.

Check C11.C11_bindings : forall e o clk c m,
  compile e o clk = COk c -> final_mgr e clk = Some m ->
  (forall pat ci i, In ((pat, ci), i) (m_matches m) -> In (matcher_binding (i - 1) pat ci) (c_defs c))
  /\ match m with
     | ML l =>
         (forall p term i, In ((p, term), i) (l_printers l) -> In (plain_printer_binding i p term) (c_defs c))
         /\ (forall p, l_default l = Some p ->
               In (default_port_binding (p_port p)) (c_defs c) /\ In (mutex_binding (p_mutex p)) (c_defs c))
     | MD d => forall t i, In (t, i) (d_printers d) -> In (framed_printer_binding i) (c_defs c)
     end.

Check C11.C11_share : forall e clk m,
  final_mgr e clk = Some m ->
  NoDup (map fst (m_matches m)) /\ NoDup (map snd (m_matches m))
  /\ (forall pat ci i, matcher_index m pat ci = Some i <-> In ((pat, ci), i) (m_matches m))
  /\ match m with
     | ML l => NoDup (map fst (l_printers l)) /\ NoDup (map snd (l_printers l))
               /\ (forall k i, assoc pkey_eqb k (l_printers l) = Some i <-> In (k, i) (l_printers l))
     | MD d => NoDup (map fst (d_printers d)) /\ NoDup (map snd (d_printers d))
               /\ (forall t i, printer_index (MD d) t = Some i <-> In (t, i) (d_printers d))
     end.

Check C11.C11_never_shared : forall e clk m,
  final_mgr e clk = Some m ->
  (forall p1 c1 p2 c2 i,
     matcher_index m p1 c1 = Some i -> matcher_index m p2 c2 = Some i -> p1 = p2 /\ c1 = c2)
  /\ match m with
     | ML l => forall t1 t2 i, printer_index m (TStdout t1) = Some i ->
                               printer_index m (TStdout t2) = Some i -> t1 = t2
     | MD d => forall t1 t2 i, printer_index m t1 = Some i -> printer_index m t2 = Some i -> t1 = t2
     end.

Check C11.C11_scoped : forall e o clk c,
  compile e o clk = COk c -> well_scoped (map erase (c_defs c)) (erase (c_body c)) = true.
