(** The statements of C12p pinned by [Check name : statement]: a theorem cannot be weakened
    without this file failing to compile. *)
From Coq Require Import List String NArith Bool.
From FP Require Import Model.Chars Model.Ast Model.Compile Spec.Tree Spec.Unsupported Spec.Stops.
From FP Require Properties.C12p.
Import ListNotations.

Check C12p.C12p_outcome : forall e o clk,
  match first_stop e with
  | Some (StopPanic site) => compile e o clk = CPanic site
  | Some (StopUnsupported k n) => compile e o clk = CErr k n
  | None => exists c, compile e o clk = COk c
  end.
Check C12p.C12p_panic_iff : forall e o clk site,
  compile e o clk = CPanic site <-> first_stop e = Some (StopPanic site).
Check C12p.C12p_err_iff : forall e o clk k n,
  compile e o clk = CErr k n <-> first_stop e = Some (StopUnsupported k n).
Check C12p.C12p_ok_iff : forall e o clk,
  (exists c, compile e o clk = COk c) <-> first_stop e = None.
Check C12p.C12p_extends_C12 : forall e, compilable_shape e = true ->
  first_stop e = match first_unsupported e with
                 | Some (k, n) => Some (StopUnsupported k n)
                 | None => None
                 end.
Check C12p.C12p_panic_node : forall e site, first_stop e = Some (StopPanic site) ->
  (site = "Operator::Precedence: unreachable"%string /\ exists x, Subterm (EPrec x) e)
  \/ (site = "Expression::Global: unreachable"%string /\ exists g, Subterm (EGlobal g) e).
Check C12p.C12p_example_prec :
  compile (EPrec (ETest TTrue)) default_options []
  = CPanic "Operator::Precedence: unreachable"%string.
