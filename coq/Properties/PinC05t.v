(** The statements of C05t pinned by [Check name : statement]: a theorem cannot be weakened
    without this file failing to compile. *)
From Coq Require Import List String NArith Bool.
From FP Require Import Model.Chars Model.Winnow Model.Ast Model.Args Model.Lex Model.Prec Model.Parse.
From FP Require Import Spec.Vocabulary Spec.Surface Spec.Accepted.
From FP Require Import Proofs.LexSentence.
From FP Require Properties.C05t.
Import ListNotations.
Local Open Scope N_scope.

Check C05t.C05t_parse_result : forall s o e,
  ~ stray_quote s -> parse s = ParseOk o e ->
  exists st, readable_sentence st /\ render st = s /\ result_of (tokens_of st) = ParseOk o e.
Check C05t.C05t_example :
  ~ stray_quote (chars "-depth -a -threads 2 -name x -o -depth")
  /\ parse (chars "-depth -a -threads 2 -name x -o -depth")
     = ParseOk {| opt_depth := true; opt_threads := Some 2 |}
               (EOr (ETest (TName (chars "x"))) (ETest TTrue)).
