(** C19e — an explicit DEVIATION from the wording of C10/C19. The properties say framed output is
    chosen when a formatted print's format does "not end in a newline escape". Read literally,
    the EMPTY format does not end in one; the model (following ast.rs, where the rule is "the
    last element exists and is not the newline escape") treats it as PLAIN. Spec/Tree.v
    [NeedsFrames] already says "exists"; these theorems make the consequence explicit.
    Statements only; proofs are in Proofs/EmptyFormat.v. *)
From Coq Require Import List String NArith Bool.
From FP Require Import Model.Chars Model.Ast Model.Compile Spec.Tree.
From FP Require Import Spec.FileRecord Spec.FindSem Spec.SchemePrelude Spec.PolicyCalls.
From FP Require Import Proofs.EmptyFormat.
Import ListNotations.

(** the empty formatted print needs no frames: alone, and at any depth of any tree of the
    public types in which no OTHER action needs frames *)
Theorem C19_empty_format_plain :
  ~ NeedsFrames (APrintFormatted [])
  /\ complex_frames (EAction (APrintFormatted [])) = false
  /\ forall e,
       (forall a, Subterm (EAction a) e -> a = APrintFormatted [] \/ ~ NeedsFrames a) ->
       complex_frames e = false.
Proof.
  split; [exact empty_format_no_frames|]. split; [exact empty_format_alone|exact empty_format_deep].
Qed.

(** hence compilation of such a tree selects plain output and reports no destination table *)
Theorem C19_empty_format_plain_compiled : forall e o clk c,
  compile e o clk = COk c ->
  (forall a, Subterm (EAction a) e -> a = APrintFormatted [] \/ ~ NeedsFrames a) ->
  c_framed c = false /\ c_iomap c = None.
Proof. exact empty_format_compiled. Qed.

(** what it means (semantics of C02, records of C16c): on every host and every file the
    compiled policy yields true and writes, in plain mode, one record with an empty payload and
    no terminator -- a record of no bytes at all; find's semantics of the expression is the same *)
Theorem C19_empty_format_meaning :
  exists c, compile (EAction (APrintFormatted [])) default_options [] = COk c
    /\ c_framed c = false /\ c_iomap c = None
    /\ forall h f, sem_policy h c f = Some (true, [(DStdout, [], None)], false)
                   /\ file_records h c f = Some [[]].
Proof. exact empty_format_meaning. Qed.
Theorem C19_empty_format_find : forall h clk f,
  feval h (EAction (APrintFormatted [])) clk f = (true, [(DStdout, [], None)], false).
Proof. exact empty_format_find. Qed.

(** non-vacuity and contrast: a tree the parser never returns, with the empty formatted print
    under a precedence node next to plain actions, is plain; ANY non-empty format not ending in
    the newline escape -- here one literal character -- is framed *)
Example C19e_example :
  let e := EList (EPrec (ENot (EAction (APrintFormatted []))))
                 (EOr (EAction APrint) (EAction (APrintFormatted [ELit [65%N]; ESpecial XNewline]))) in
  (forall a, Subterm (EAction a) e -> a = APrintFormatted [] \/ ~ NeedsFrames a)
  /\ complex_frames e = false
  /\ complex_frames (EAction (APrintFormatted [ELit [65%N]])) = true.
Proof.
  cbv zeta. split; [|split; reflexivity].
  intros a H.
  repeat match goal with
         | H : Subterm _ _ |- _ => inversion H; subst; clear H
         end.
  - left. reflexivity.
  - right. intros Hn. inversion Hn.
  - right. intros Hn. inversion Hn as [| | | | |pre el Hel Heq].
    destruct pre as [|x [|y [|z pre]]]; try discriminate Heq.
    injection Heq as _ Heq. apply Hel. exact Heq.
Qed.
