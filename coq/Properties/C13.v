(** C13 — Global options are honoured wherever they appear. *)
From Coq Require Import List NArith Bool String.
From FP Require Import Model.Chars Model.Ast Model.Sexp Model.Lex Model.Parse Model.Compile.
From FP Require Import Proofs.RenderFacts Proofs.OptionsFacts.
Import ListNotations.
Local Open Scope string_scope.

(** options met inside the expression (any number, anywhere in the token list): the returned
    options carry the value of the LAST -threads and -depth is sticky; every option token
    behaves there as -true and nothing else changes *)
Theorem C13_last_wins_inside_true : forall ts o,
  forallb supported_opt (globals_of ts) = true ->
  replace_globals o ts =
    Some ({| opt_depth := any_depth (opt_depth o) (globals_of ts);
             opt_threads := last_threads (opt_threads o) (globals_of ts) |}, map detrue ts).
Proof. exact replace_globals_spec. Qed.

(** the same accounting for the leading run *)
Theorem C13_leading_run : forall gs o,
  forallb supported_opt gs = true ->
  update_all o gs = Some {| opt_depth := any_depth (opt_depth o) gs;
                            opt_threads := last_threads (opt_threads o) gs |}.
Proof. exact update_all_spec. Qed.

(** no option ever reaches the tree, for any input text *)
Theorem C13_never_in_tree : forall s o e, parse s = ParseOk o e -> no_global e.
Proof. exact parse_no_global. Qed.

(** the emitted scan call uses the requested thread count, or the runtime's default *)
Theorem C13_threads_emitted : forall e o clk c p, compile e o clk = COk c ->
  option_map (fun args => nth 4 args (SList [])) (scan_call (erase (snd (render c p))))
  = Some match opt_threads o with
         | Some n => SAtom (print_dec n)
         | None => SList [SAtom (chars "lipe-getopt-thread-count")]
         end.
Proof. exact scan_threads_arg. Qed.

Example C13_example :
  parse (chars "-threads 2 ( -name a -o -depth -threads 5 ) -threads 7 -print")
  = ParseOk {| opt_depth := true; opt_threads := Some 7%N |}
      (EAnd (EAnd (EOr (ETest (TName [97%N])) (EAnd (ETest TTrue) (ETest TTrue))) (ETest TTrue))
            (EAction APrint)).
Proof. vm_compute. reflexivity. Qed.
