(** C10s — frame tags stay characters.  The tag of a framed printer is emitted as the character
    literal #\x<hex i> of its identifier i (C10_tags: [framed_printer_binding i]).  Guile's reader
    rejects surrogate code points (0xD800..0xDFFF) and values above 0x10FFFF, while the reader
    specified in Spec/GuileReader.v accepts any hex value.  Identifiers come from the counter of
    C17: every tag of the io-map is below 2 + 3 * (number of Test/Action leaves of the tree), so
    with at most 18431 leaves every tag is below 0xD800 = 55296.
    LIMIT: identifiers grow without bound with the size of the expression (one fresh identifier per
    distinct framed target, e.g. per distinct -fprint file); no theorem excludes a tag >= 55296
    for an expression with more than 18431 leaves, and the compiler has no check for it.  An
    Example of that size is not feasible to evaluate here.
    Statements only; proofs in Proofs/SmallPins2.v. *)
From Coq Require Import List String NArith Bool.
From FP Require Import Model.Chars Model.Ast Model.Sexp Model.Compile Spec.Resources.
From FP Require Proofs.SmallPins2.
Import ListNotations.
Local Open Scope N_scope.

(** a program with an io-map comes from a tree with an action (so nothing is added to it), and
    every tag is below 2 + 3 * leaves *)
Theorem C10s_tag_bound : forall e o clk c tbl i t,
  compile e o clk = COk c -> c_iomap c = Some tbl -> In (i, t) tbl ->
  has_action e = true /\ i < 2 + 3 * leaves e.
Proof. exact SmallPins2.tag_bound. Qed.

(** 2 + 3 * 18431 = 55295: below the first surrogate, hence a valid character for Guile *)
Theorem C10s_tag_not_surrogate : forall e o clk c tbl i t,
  compile e o clk = COk c -> c_iomap c = Some tbl -> In (i, t) tbl ->
  leaves e <= 18431 -> i < 55296.
Proof. exact SmallPins2.tag_not_surrogate. Qed.

(** non-vacuity: three framed targets, tags 2 3 4, four leaves *)
Example C10s_example :
  let e := EOr (EAction APrint)
             (EOr (EAction APrintNull) (EOr (EAction (AFilePrint (chars "f"))) (EAction APrintFid))) in
  leaves e = 4
  /\ exists c, compile e default_options [] = COk c
       /\ c_iomap c = Some [(2, TStdout (Some 10)); (3, TStdout (Some 0)); (4, TFile (chars "f") (Some 10))].
Proof. split; [reflexivity|]. eexists. split; reflexivity. Qed.
