(** The statements of C09m pinned by [Check name : statement]. *)
From Coq Require Import List String NArith Bool.
From FP Require Import Model.Chars Model.Ast Model.Sexp Model.Compile.
From FP Require Import Spec.FileRecord Spec.FindSem Spec.SchemePrelude.
From FP Require Properties.C09m.
Import ListNotations.
Local Open Scope N_scope.

Check C09m.C09m_policy : forall h, host_law h -> forall e o clk c f,
  has_action e = false -> compile e o clk = COk c ->
  sem_policy h c f =
    Some (fst (fst (feval h e clk f)),
          (if fst (fst (feval h e clk f)) then [(DStdout, f_relative_path f, Some 10)] else []),
          false).
Check C09m.C09m_side_conditions : forall e f,
  has_action e = false -> ctime_free e = true /\ defined e f = true.
Check C09m.C09m_quiet : forall h e clk f, has_action e = false ->
  feval h e clk f = (fst (fst (feval h e clk f)), [], false).
