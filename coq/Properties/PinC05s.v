(** The statements of C05s pinned by [Check name : statement]: a theorem cannot be weakened
    without this file failing to compile. *)
From Coq Require Import List String NArith Bool.
From FP Require Import Model.Chars Model.Winnow Model.Ast Model.Args Model.Perm Model.Format Model.Lex Model.Parse.
From FP Require Import Spec.Decimal Spec.Numeric Spec.Chmod Spec.PermWord Spec.FormatSpec.
From FP Require Import Spec.Vocabulary Spec.Surface Spec.Accepted.
From FP Require Properties.C05s.
Import ListNotations.
Local Open Scope N_scope.

Check C05s.C05s_string : forall i v r,
  parse_string i = (Ok v, r) ->
  exists w, i = w ++ r /\ (WordArg w v \/ (w = v /\ stray_word w r)).
Check C05s.C05s_string_refuted :
  parse_string (chars "'abc") = (Ok (chars "'abc"), [])
  /\ ~ exists w, WordArg w (chars "'abc") /\ chars "'abc" = w ++ [].
Check C05s.C05s_count : forall bound i n r,
  parse_uint bound i = (Ok n, r) -> exists w, i = w ++ r /\ Count bound w n.
Check C05s.C05s_cmp : forall T (d : sparser T) (Inner : str -> T -> Prop),
  (forall i v r, d i = (Ok v, r) -> exists w, i = w ++ r /\ Inner w v) ->
  forall i c r, parse_cmp d i = (Ok c, r) -> exists w, i = w ++ r /\ CmpArg Inner w c.
Check C05s.C05s_size : forall i v r, parse_size i = (Ok v, r) -> exists w, i = w ++ r /\ SizeArg w v.
Check C05s.C05s_time : forall dflt i v r,
  parse_time dflt i = (Ok v, r) -> exists w, i = w ++ r /\ TimeArg dflt w v.
Check C05s.C05s_types : forall i ts r,
  parse_filetypes i = (Ok ts, r) -> exists w, i = w ++ r /\ TypeList w ts.
Check C05s.C05s_perm_value : forall v k b r, perm_word v = (Ok (k, b), r) -> r = [] /\ PermArg v k b.
Check C05s.C05s_perm : forall i k b r,
  parse_perm_arg i = (Ok (k, b), r) -> exists w v, i = w ++ r /\ WordArg w v /\ PermArg v k b.
Check C05s.C05s_format : forall i fmt r,
  parse_format_arg i = (Ok fmt, r) ->
  exists w v, i = w ++ r /\ (WordArg w v \/ (w = v /\ stray_word w r)) /\ Seg v fmt.
Check C05s.C05s_token : forall i l r,
  parse_token i = (Ok (KPrim l), r) ->
  at_word_end r /\
  ((exists ws gaps, Primary ws l /\ gaps_for ws gaps /\ i = weave ws gaps ++ r) \/ stray_quote i).
Check C05s.C05s_token_clean : forall i l r,
  ~ stray_quote i -> parse_token i = (Ok (KPrim l), r) ->
  exists ws gaps, Primary ws l /\ gaps_for ws gaps /\ i = weave ws gaps ++ r /\ at_word_end r.
Check C05s.C05s_token_refuted :
  parse_token (chars "-name 'abc") = (Ok (KPrim (LTest (TName (chars "'abc")))), [])
  /\ ~ exists ws gaps, Primary ws (LTest (TName (chars "'abc"))) /\ gaps_for ws gaps
                       /\ chars "-name 'abc" = weave ws gaps ++ [].
Check C05s.C05s_operator : forall i t r,
  parse_token i = (Ok t, r) -> (forall l, t <> KPrim l) ->
  exists o g, t = op_token o /\ i = op_text o ++ g ++ r /\
    if single_char o then g = [] else (g = [] /\ r = []) \/ (gap g /\ stops is_space r).
Check C05s.C05s_lex : forall i ts r,
  lex i = (Ok ts, r) ->
  r = [] /\ (stray_quote i \/ exists st, readable_sentence st /\ render st = i /\ tokens_of st = ts).
Check C05s.C05s_parse : forall s o e,
  parse s = ParseOk o e -> stray_quote s \/ exists st, readable_sentence st /\ render st = s.
Check C05s.C05s_parse_clean : forall s o e,
  ~ stray_quote s -> parse s = ParseOk o e -> exists st, readable_sentence st /\ render st = s.
Check C05s.C05s_no_quote : forall s, (forall c, In c s -> ~ Quote c) -> ~ stray_quote s.
Check C05s.C05s_wf_readable : forall st, wf_sentence st -> readable_sentence st.
Check C05s.C05s_wf_sentence_refuted :
  parse (chars "-name 'a'!-true")
  = ParseOk default_options (EAnd (ETest (TName (chars "a"))) (ENot (ETest TTrue)))
  /\ forall st, wf_sentence st -> render st <> chars "-name 'a'!-true".
