(** C05t — The RESULT of an accepted input is the result of the sentence it is read as.
    [C05s_parse_clean] gives, for an accepted input without a stray quote, a readable sentence
    that renders to it; [render] is not injective, so this file ties the sentence to what was
    parsed: the options and the tree that [parse] returns are the ones determined by the
    tokens of that very sentence ([result_of], Proofs/LexSentence.v, the function of the
    token list used by [C05_parse_sentence]: leading options taken off with the ANDs written
    after them, an empty rest read as -true, options inside counted and read as -true, then
    the grammar).  Statements only; proofs are in Proofs/SentenceResult.v. *)
From Coq Require Import List String NArith Bool.
From FP Require Import Model.Chars Model.Winnow Model.Ast Model.Args Model.Lex Model.Prec Model.Parse.
From FP Require Import Spec.Vocabulary Spec.Surface Spec.Accepted.
From FP Require Import Proofs.OptionsFacts Proofs.LexSentence Proofs.SentenceResult.
From FP Require Proofs.SentenceSound.
Import ListNotations.
Local Open Scope N_scope.

Theorem C05t_parse_result : forall s o e,
  ~ stray_quote s -> parse s = ParseOk o e ->
  exists st, readable_sentence st /\ render st = s /\ result_of (tokens_of st) = ParseOk o e.
Proof. exact parse_result. Qed.

(** ** Non-vacuity: leading options with an AND written after one of them, an option inside *)
Example C05t_example :
  ~ stray_quote (chars "-depth -a -threads 2 -name x -o -depth")
  /\ parse (chars "-depth -a -threads 2 -name x -o -depth")
     = ParseOk {| opt_depth := true; opt_threads := Some 2 |}
               (EOr (ETest (TName (chars "x"))) (ETest TTrue)).
Proof.
  split; [|vm_compute; reflexivity].
  apply SentenceSound.no_quote_clean. intros c Hin [E|E]; subst c; vm_compute in Hin;
    repeat (destruct Hin as [Hin|Hin]; [discriminate Hin|]); exact Hin.
Qed.
