(** C16t — "in plain mode a sequence of complete terminated lines": a record of a compiled
    plain-mode policy IS a terminated line.  C16_scan / C16d_scan say that the port content is a
    concatenation of whole records ([record_of]: payload ++ terminator text); these theorems add
    that, when the program is not framed, every such record ends with the newline character (code
    10) or has no bytes at all (the empty -printf format, C19e).  For -printf the terminator is
    absent and the newline comes from the format itself: plain mode is chosen only if the format
    is empty or ends with the newline escape (Spec/Tree.v [NeedsFrames], C10, C19e).
    No [host_law], no [ctime_free] / [defined] (so %a %c %t, known finding D17, are covered), no
    hypothesis on the tree beyond successful compilation.
    Statements only; proofs are in Proofs/PlainTerminated.v. *)
From Coq Require Import List String NArith Bool.
From FP Require Import Model.Chars Model.Ast Model.Sexp Model.Compile Spec.Tree Spec.TreeShape.
From FP Require Import Spec.FileRecord Spec.SchemeSem Spec.SchemePrelude Spec.PolicyCalls.
From FP Require Import Proofs.PlainTerminated.
Import ListNotations.
Local Open Scope N_scope.

(** the records of one invocation of a plain-mode policy *)
Theorem C16t_plain_records_terminated : forall h e o clk c f rs,
  compile e o clk = COk c -> c_framed c = false ->
  file_records h c f = Some rs ->
  Forall (fun r => r = [] \/ last r 0 = 10) rs.
Proof. exact plain_records_terminated. Qed.

(** the same in the vocabulary of C03 (trees the parser returns) *)
Theorem C16t_parser_tree : forall h e o clk c f rs,
  parser_tree e -> compile e o clk = COk c -> c_framed c = false ->
  file_records h c f = Some rs ->
  Forall (fun r => r = [] \/ last r 0 = 10) rs.
Proof. exact plain_records_terminated_parser. Qed.

(** the records of the invocations on a list of files, in order (what one thread writes) *)
Theorem C16t_plain_files_records_terminated : forall h e o clk c fs rs,
  compile e o clk = COk c -> c_framed c = false ->
  files_records h c fs = Some rs ->
  Forall (fun r => r = [] \/ last r 0 = 10) rs.
Proof. exact plain_files_records_terminated. Qed.

(** the actions a plain-mode tree can hold *)
Theorem C16t_plain_actions : forall a,
  ~ NeedsFrames a ->
  a = APrint \/ a = APrintFid \/ a = ADefaultPrint \/ a = AQuit \/ a = APrune \/ a = AList
  \/ a = APrintFormatted []
  \/ exists pre, a = APrintFormatted (pre ++ [ESpecial XNewline]).
Proof. exact plain_action_cases_spec. Qed.

(** Guile's [format] (Spec/SchemeSem.v [format_sem]): when it succeeds on a template ending with
    the newline character, its text is not empty and ends with that character *)
Theorem C16t_format_newline : forall h t args s,
  format_sem h (t ++ [10]) args = Some s -> s <> [] /\ last s 0 = 10.
Proof. exact format_sem_newline. Qed.

(** the payload of a formatted print whose format ends with the newline escape: whenever the
    emitted (format #f ...) form has a value, it is a non-empty text ending with the newline *)
Theorem C16t_payload_newline : forall h pre x f s,
  compile_format (pre ++ [ESpecial XNewline]) = COk x ->
  sem_str h (erase x) f = Some s -> s <> [] /\ last s 0 = 10.
Proof. exact compile_format_newline. Qed.

(** non-vacuity: %a is outside the hypotheses of C02 (it prints the decimal seconds, D17); on every
    host and every file the policy is plain and its one record is that number and a newline *)
Example C16t_example : forall h f,
  exists c, compile (EAction (APrintFormatted [EField FAccess; ESpecial XNewline])) default_options [] = COk c
    /\ c_framed c = false
    /\ file_records h c f = Some [print_dec (f_atime f) ++ [10]].
Proof. exact ctime_record. Qed.
