(** The statements of C18s pinned by [Check name : statement]: a theorem cannot be weakened
    without this file failing to compile. *)
From Coq Require Import List String NArith Bool.
From FP Require Import Model.Chars Model.Winnow Model.Args Model.Lex Model.Parse.
From FP Require Import Spec.FormatSpec Spec.Vocabulary Spec.Surface.
From FP Require Import Spec.Messages.
From FP Require Properties.C18s.
Import ListNotations.
Local Open Scope N_scope.

Check C18s.C18s_xattr_match_second : forall pre bl w1 v1 g a,
  WordArg w1 v1 -> gap g -> no_word a -> blanks bl ->
  lexes_fine pre (chars "-xattr-match" ++ bl ++ w1 ++ g ++ a) ->
  parse (pre ++ chars "-xattr-match" ++ bl ++ w1 ++ g ++ a)
  = ParseErr (failed_msg (next_word a) KTest "-xattr-match" (Some "Expected a string"%string)).
Check C18s.C18s_fprintf_second : forall pre bl w1 v1 g a,
  WordArg w1 v1 -> gap g -> no_word a -> blanks bl ->
  lexes_fine pre (chars "-fprintf" ++ bl ++ w1 ++ g ++ a) ->
  parse (pre ++ chars "-fprintf" ++ bl ++ w1 ++ g ++ a)
  = ParseErr (failed_msg (next_word a) KAction "-fprintf" (Some "format_string"%string)).
Check C18s.C18s_xattr_match_no_gap : forall pre bl w1 v1 a,
  WordArg w1 v1 -> no_word a -> blanks bl ->
  lexes_fine pre (chars "-xattr-match" ++ bl ++ w1 ++ a) ->
  parse (pre ++ chars "-xattr-match" ++ bl ++ w1 ++ a)
  = ParseErr (failed_msg (next_word a) KTest "-xattr-match"
                (Some "Expected an attribute name and a value to compare"%string)).
Check C18s.C18s_fprintf_no_gap : forall pre bl w1 v1 a,
  WordArg w1 v1 -> no_word a -> blanks bl ->
  lexes_fine pre (chars "-fprintf" ++ bl ++ w1 ++ a) ->
  parse (pre ++ chars "-fprintf" ++ bl ++ w1 ++ a)
  = ParseErr (failed_msg (next_word a) KAction "-fprintf" (Some "filename_and_format"%string)).
Check C18s.C18s_xattr_match_missing : forall pre bl w1 v1,
  WordArg w1 v1 -> blanks bl -> lexes_fine pre (chars "-xattr-match" ++ bl ++ w1) ->
  parse (pre ++ chars "-xattr-match" ++ bl ++ w1)
  = ParseErr (failed_msg [] KTest "-xattr-match"
                (Some "Expected an attribute name and a value to compare"%string)).
Check C18s.C18s_xattr_match_missing_gap : forall pre bl w1 v1 g,
  WordArg w1 v1 -> gap g -> blanks bl -> lexes_fine pre (chars "-xattr-match" ++ bl ++ w1 ++ g) ->
  parse (pre ++ chars "-xattr-match" ++ bl ++ w1 ++ g)
  = ParseErr (failed_msg [] KTest "-xattr-match" (Some "Expected a string"%string)).
Check C18s.C18s_fprintf_missing : forall pre bl w1 v1,
  WordArg w1 v1 -> blanks bl -> lexes_fine pre (chars "-fprintf" ++ bl ++ w1) ->
  parse (pre ++ chars "-fprintf" ++ bl ++ w1)
  = ParseErr (failed_msg [] KAction "-fprintf" (Some "filename_and_format"%string)).
Check C18s.C18s_fprintf_missing_gap : forall pre bl w1 v1 g,
  WordArg w1 v1 -> gap g -> blanks bl -> lexes_fine pre (chars "-fprintf" ++ bl ++ w1 ++ g) ->
  parse (pre ++ chars "-fprintf" ++ bl ++ w1 ++ g)
  = ParseErr (failed_msg [] KAction "-fprintf" (Some "format_string"%string)).
Check C18s.C18s_word_or_no_word : forall a,
  head_in is_space a = false -> ~ no_word a -> exists v r, parse_string a = (Ok v, r).
Check C18s.C18s_printf_bad_format : forall pre bl w v rest,
  WordArg w v -> SegErr v -> at_arg_end rest -> blanks bl ->
  lexes_fine pre (chars "-printf" ++ bl ++ w ++ rest) ->
  parse (pre ++ chars "-printf" ++ bl ++ w ++ rest)
  = ParseErr (failed_msg v KAction "-printf" (Some "Found an invalid format specifier"%string)).
Check C18s.C18s_fprintf_bad_format : forall pre bl w1 v1 g w2 v2 rest,
  WordArg w1 v1 -> gap g -> WordArg w2 v2 -> SegErr v2 -> at_arg_end rest -> blanks bl ->
  lexes_fine pre (chars "-fprintf" ++ bl ++ w1 ++ g ++ w2 ++ rest) ->
  parse (pre ++ chars "-fprintf" ++ bl ++ w1 ++ g ++ w2 ++ rest)
  = ParseErr (failed_msg v2 KAction "-fprintf" (Some "Found an invalid format specifier"%string)).
Check C18s.C18s_xattr_match_second_first : forall bl w1 v1 g a,
  WordArg w1 v1 -> gap g -> no_word a -> blanks bl ->
  parse (chars "-xattr-match" ++ bl ++ w1 ++ g ++ a)
  = ParseErr (failed_msg (next_word a) KTest "-xattr-match" (Some "Expected a string"%string)).
Check C18s.C18s_fprintf_second_first : forall bl w1 v1 g a,
  WordArg w1 v1 -> gap g -> no_word a -> blanks bl ->
  parse (chars "-fprintf" ++ bl ++ w1 ++ g ++ a)
  = ParseErr (failed_msg (next_word a) KAction "-fprintf" (Some "format_string"%string)).
Check C18s.C18s_printf_bad_format_first : forall bl w v rest,
  WordArg w v -> SegErr v -> at_arg_end rest -> blanks bl ->
  parse (chars "-printf" ++ bl ++ w ++ rest)
  = ParseErr (failed_msg v KAction "-printf" (Some "Found an invalid format specifier"%string)).
Check C18s.C18s_fprintf_bad_format_first : forall bl w1 v1 g w2 v2 rest,
  WordArg w1 v1 -> gap g -> WordArg w2 v2 -> SegErr v2 -> at_arg_end rest -> blanks bl ->
  parse (chars "-fprintf" ++ bl ++ w1 ++ g ++ w2 ++ rest)
  = ParseErr (failed_msg v2 KAction "-fprintf" (Some "Found an invalid format specifier"%string)).
