(** C16 (emitted-code half) — locking discipline of the emitted bindings.
    Statements only; shapes are in Spec/Locking.v, proofs in Proofs/Locking.v. *)
From Coq Require Import List String NArith Bool.
From FP Require Import Model.Chars Model.Ast Model.Sexp Model.Compile Spec.Tree Spec.Resources Spec.Locking.
From FP Require Import Proofs.Locking.
Import ListNotations.
Local Open Scope N_scope.

(** plain mode: ONE (port, mutex) pair for the whole program — the default port and the mutex
    created together with it (mutex index = port index + 1); every printer binding is
    (make-printer %lf3:port:P %lf3:mutex:M term) on that pair; every other binding is the port,
    the mutex or a matcher; no file port exists (nothing to close), because any file action
    selects framed mode *)
Theorem C16_plain_one_mutex : forall e o clk c,
  compile e o clk = COk c -> c_framed c = false ->
  c_fini c = []
  /\ exists p, p_mutex p = p_port p + 1 /\ forall b, In b (c_defs c) -> plain_shape p b.
Proof. exact plain_one_mutex. Qed.

(** framed mode: the first three bindings are port 0, mutex 1 and the frame procedure, which
    writes the payload and the tagged separator inside one with-mutex on mutex 1; every other
    binding is a matcher or a printer that calls %lf3:frame:2 and takes no mutex itself *)
Theorem C16_framed_frame_proc : forall e o clk c,
  compile e o clk = COk c -> c_framed c = true ->
  exists rest, c_defs c = frame_prelude ++ rest /\ Forall framed_shape rest.
Proof. exact framed_frame_proc. Qed.

(** the implicit print (print-relative-path, which locks nothing itself) never coexists with a
    printer: without an action the program is plain and binds matchers only *)
Theorem C16_default_print_alone : forall e o clk c,
  has_action e = false -> compile e o clk = COk c ->
  c_framed c = false /\ c_fini c = [] /\ forall b, In b (c_defs c) -> is_matcher_binding b.
Proof. exact default_print_alone. Qed.

(** what the shapes print as *)
Example C16b_shapes :
  map print frame_prelude =
    [chars "(%lf3:port:0 (current-output-port))"; chars "(%lf3:mutex:1 (make-mutex))";
     chars "(%lf3:frame:2 (lambda (s d) (with-mutex %lf3:mutex:1 (display s %lf3:port:0) (display (string #\x1e d) %lf3:port:0))))"]
  /\ print (framed_printer_binding 6) = chars "(%lf3:print:6 (lambda (line) (%lf3:frame:2 line #\x06)))"
  /\ print (plain_printer_binding 2 {| p_port := 0; p_mutex := 1 |} (Some 10))
     = chars "(%lf3:print:2 (make-printer %lf3:port:0 %lf3:mutex:1 #\x0a))".
Proof. repeat split. Qed.

(** non-vacuity: a plain program with two printers on the one pair, and a framed one *)
Example C16b_example_plain :
  let e := EOr (EAction APrint) (EAction (APrintFormatted [ELit (chars "a"); ESpecial XNewline])) in
  exists c, compile e default_options [] = COk c /\ c_framed c = false
    /\ map print (c_defs c) =
       [chars "(%lf3:port:0 (current-output-port))"; chars "(%lf3:mutex:1 (make-mutex))";
        chars "(%lf3:print:2 (make-printer %lf3:port:0 %lf3:mutex:1 #\x0a))";
        chars "(%lf3:print:3 (make-printer %lf3:port:0 %lf3:mutex:1 #f))"].
Proof. eexists. repeat split. Qed.
Example C16b_example_framed :
  let e := EAnd (ETest (TName (chars "x"))) (EAction APrintNull) in
  exists c, compile e default_options [] = COk c /\ c_framed c = true
    /\ skipn 3 (map print (c_defs c)) =
       [chars "(%lf3:match:3 (lambda (%lf3:str:2) (streq? ""x"" %lf3:str:2)))";
        chars "(%lf3:print:4 (lambda (line) (%lf3:frame:2 line #\x04)))"].
Proof. eexists. repeat split. Qed.
