(** C14 — Format strings are segmented exactly as the printf mini-language says.
    Statements only; the specification is Spec/FormatSpec.v, the proofs are in Proofs/. *)
From Coq Require Import List String NArith Lia.
From FP Require Import Model.Chars Model.Winnow Model.Ast Model.Args Model.Format.
From FP Require Import Spec.FormatSpec Proofs.FormatSeg.
Import ListNotations.
Local Open Scope N_scope.

(** a format string has at most one segmentation *)
Theorem C14_unique : forall s es1 es2, Seg s es1 -> Seg s es2 -> es1 = es2.
Proof. exact seg_unique. Qed.

(** the element list returned is that segmentation, for every string; and nothing is left over *)
Theorem C14_eq : forall s es, parse_format s = (Ok es, []) <-> Seg s es.
Proof. exact parse_format_seg. Qed.

(** the input is an (unrecoverable) error exactly when scanning reaches a '%' that no documented
    directive follows *)
Theorem C14_err : forall s, (exists c r, parse_format s = (Cut c, r)) <-> SegErr s.
Proof. exact parse_format_err. Qed.

(** there is no third outcome: never a recoverable error, never a panic, never leftover input *)
Theorem C14_total : forall s,
  (exists es, parse_format s = (Ok es, [])) \/ (exists c r, parse_format s = (Cut c, r)).
Proof. exact parse_format_total. Qed.

(** consequences for the specification itself: the two verdicts exclude each other, and in a
    segmentation no literal is empty and no two literals are adjacent *)
Theorem C14_exclusive : forall s es, Seg s es -> SegErr s -> False.
Proof. exact seg_err_exclusive. Qed.

Theorem C14_literals : forall s es, Seg s es ->
  ~ In (ELit []) es /\ forall pre l1 l2 post, es <> pre ++ ELit l1 :: ELit l2 :: post.
Proof. exact seg_literals. Qed.

(** non-vacuity: a string mixing every class (literal, simple directive, three-digit octal,
    a backslash standing for itself before digits and before a non-escape letter, a directive
    taking an argument character, a braced directive with a name, "%%") *)
Example C14_example :
  let s := chars "a%p\101\12%Ak%{xattr:ab}\q%%z" in
  let es := [ELit (chars "a"); EField FName; ESpecial (XAscii 65); ESpecial XBackslash;
             ELit (chars "12"); EField (FAccessFormatted 107); EField (FXAttr (chars "ab"));
             ESpecial XBackslash; ELit (chars "q"); EField FPercent; ELit (chars "z")] in
  parse_format s = (Ok es, []) /\ Seg s es.
Proof. split; [|apply C14_eq]; vm_compute; reflexivity. Qed.

Example C14_example_err :
  SegErr (chars "ab\n%{xattr:}") /\ SegErr (chars "%A") /\ SegErr (chars "x%") /\ SegErr (chars "%q").
Proof. repeat split; apply C14_err; eexists; eexists; vm_compute; reflexivity. Qed.

(** the specification can be used on its own: a derivation built from the rules alone *)
Example C14_example_direct :
  Seg (chars "a\0%%") [ELit (chars "a"); ESpecial XNull; EField FPercent].
Proof.
  apply (Seg_lit (chars "a") (chars "\0%%")).
  - discriminate.
  - repeat constructor; discriminate.
  - intros c r E. injection E as <- _. right. reflexivity.
  - apply (Seg_special (chars "0") XNull (chars "%%")).
    + left. apply Esc_null. intros b c r E [Hb _]. injection E as <- _ _. unfold Octal in Hb. lia.
    + apply (Seg_field (chars "%") FPercent []); [|constructor].
      apply Dir_word. left. reflexivity.
Qed.
