(** C08 — Permission arguments denote the bits chmod would compute.
    Statements only; proofs are in Proofs/PermProofs.v. Vocabulary: Spec/Chmod.v (clauses, masks,
    chmod, the code's variant, rendering, prefixes, checks) and Spec/PermWord.v ([perm_word], the
    parser [parse_perm_arg] runs on the delimited argument word). All lists are unbounded. *)
From Coq Require Import List String NArith Bool.
From FP Require Import Model.Chars Model.Winnow Model.Ast Model.Args Model.Perm.
From FP Require Import Spec.Chmod Spec.PermWord Proofs.PermProofs.
Import ListNotations.
Local Open Scope N_scope.

(** [perm_word] is the inner parser of the -perm argument *)
Theorem C08_perm_word : parse_perm_arg = and_then quote_delimiter perm_word.
Proof. exact parse_perm_arg_is_perm_word. Qed.

(** the model's octal conversion is the positional base-8 value *)
Theorem C08_oct_value : forall ds, oct_value ds = pos_value8 ds.
Proof. exact oct_value_pos. Qed.

(** octal: three or more octal digits with a value within the twelve bits denote that value *)
Theorem C08_octal : forall p ds,
  oct_digits ds -> (3 <= List.length ds)%nat -> pos_value8 ds <= 4095 ->
  perm_word (prefix_str p ++ ds) = (Ok (kind_of p, pos_value8 ds), []).
Proof. exact perm_word_octal. Qed.

(** octal: any larger value — also one that overflows 32 bits — is rejected, with this error *)
Theorem C08_octal_reject : forall p ds,
  oct_digits ds -> (3 <= List.length ds)%nat -> 4095 < pos_value8 ds ->
  perm_word (prefix_str p ++ ds)
  = (Cut [Expected "invalid_permission_format"; Label "permission"; Label "permission_comparison"], ds).
Proof. exact perm_word_octal_reject. Qed.

(** symbolic: a non-empty clause list denotes what the CODE's rule folds to from mode 0 ... *)
Theorem C08_symbolic : forall p cls,
  cls <> [] -> perm_word (prefix_str p ++ render_clauses cls) = (Ok (kind_of p, code_chmod cls), []).
Proof. exact perm_word_symbolic. Qed.

(** ... which is chmod's result when no clause uses '-' ... *)
Theorem C08_chmod_no_minus : forall cls, no_minus cls -> code_chmod cls = chmod cls.
Proof. exact code_chmod_no_minus. Qed.

(** ... and is NOT chmod's result in general (finding D14) *)
Theorem C08_minus_refuted : exists cls, code_chmod cls <> chmod cls.
Proof. exact code_chmod_minus_differs. Qed.

(** exactly what the code computes for a '-' clause: it clears, of the classes named, the bits
    NOT named; chmod clears the bits named *)
Theorem C08_minus_code : forall m c,
  clause_op c = ODel ->
  code_apply m c = N.ldiff m (N.land (clause_W c) (N.ldiff 4095 (clause_P c)))
  /\ (m < 4096 ->
      code_apply m c = N.land m (N.lnot (N.land (clause_W c) (N.lnot (clause_P c) 12)) 12)).
Proof. exact code_minus_clause. Qed.
Theorem C08_minus_chmod : forall m c,
  clause_op c = ODel -> m < 4096 ->
  apply_clause m c = N.land m (N.lnot (N.land (clause_W c) (clause_P c)) 12).
Proof. exact chmod_minus_clause. Qed.

(** the prefix alone selects the check: every accepted word is a prefix followed by a body that
    starts with an octal digit or one of u, g, o, a; the kind is the prefix's; nothing is left *)
Theorem C08_prefix : forall w k bits r,
  perm_word w = (Ok (k, bits), r) ->
  exists p c body,
    w = prefix_str p ++ c :: body /\ k = kind_of p /\ r = [] /\
    (is_oct c = true \/ in_str "ugoa" c = true).
Proof. exact perm_word_prefix_inv. Qed.

(** the meaning of the three checks on a file mode, bit by bit *)
Theorem C08_check_equal : forall bits mode,
  perm_holds PEqual bits mode = true <-> forall n, N.testbit bits n = (n <? 12) && N.testbit mode n.
Proof. exact perm_holds_equal. Qed.
Theorem C08_check_atleast : forall bits mode,
  perm_holds PAtLeast bits mode = true <->
  forall n, N.testbit bits n = true -> N.testbit mode n = true.
Proof. exact perm_holds_atleast. Qed.
Theorem C08_check_any : forall bits mode,
  perm_holds PAny bits mode = true <->
  exists n, N.testbit bits n = true /\ N.testbit mode n = true.
Proof. exact perm_holds_any. Qed.

(** junk after either form is not accepted: after digits, anything but a further octal digit;
    after clauses, anything but r, w, x (more permissions) or ',' (a further clause) *)
Theorem C08_octal_junk : forall p ds c j,
  oct_digits ds -> (3 <= List.length ds)%nat -> is_oct c = false ->
  is_ok (fst (perm_word (prefix_str p ++ ds ++ c :: j))) = false.
Proof. exact perm_word_octal_junk. Qed.
Theorem C08_symbolic_junk : forall p cls c j,
  cls <> [] -> in_str "rwx," c = false ->
  perm_word (prefix_str p ++ render_clauses cls ++ c :: j)
  = (Back [Expected "invalid_permission_format"], c :: j).
Proof. exact perm_word_symbolic_junk. Qed.

(** the same through the argument delimiter, for an unquoted word followed by [rest] *)
Theorem C08_arg_octal : forall p ds rest,
  oct_digits ds -> (3 <= List.length ds)%nat -> pos_value8 ds <= 4095 -> stops bare_char rest ->
  parse_perm_arg (prefix_str p ++ ds ++ rest) = (Ok (kind_of p, pos_value8 ds), rest).
Proof. exact parse_perm_arg_octal. Qed.
Theorem C08_arg_symbolic : forall p cls rest,
  cls <> [] -> stops bare_char rest ->
  parse_perm_arg (prefix_str p ++ render_clauses cls ++ rest) = (Ok (kind_of p, code_chmod cls), rest).
Proof. exact parse_perm_arg_symbolic. Qed.

(** non-vacuity: the hypotheses are met, and the conclusions are what one expects *)
Example C08_octal_example :
  let ds := chars "0644" in
  oct_digits ds /\ (3 <= List.length ds)%nat /\ pos_value8 ds = 420 /\
  perm_word (chars "-0644") = (Ok (PAtLeast, 420), []).
Proof. split; [repeat constructor; discriminate|]. repeat split. cbn; repeat constructor. Qed.

Example C08_octal_reject_example :
  let ds := chars "17777" in let big := chars "777777777777" in
  oct_digits ds /\ 4095 < pos_value8 ds /\ is_ok (fst (perm_word ds)) = false /\
  oct_digits big /\ 4294967296 <= pos_value8 big /\ is_ok (fst (perm_word (chars "/" ++ big))) = false.
Proof.
  repeat split; try (repeat constructor; discriminate); vm_compute; congruence.
Qed.

Example C08_symbolic_example :
  let cls := [Clause Wu [Wg] OSet Pr [Pw]; Clause Wo [] OAdd Px []; Clause Wa [] OSet Pr []] in
  render_clauses cls = chars "ug=rw,o+x,a=r" /\ no_minus cls /\
  chmod cls = 292 (* 0o444 *) /\
  perm_word (chars "/ug=rw,o+x,a=r") = (Ok (PAny, 292), []).
Proof. repeat split; repeat constructor; discriminate. Qed.

Example C08_minus_example :
  let cls := [Clause Wu [] OAdd Pr [Pw]; Clause Wu [] ODel Pr []] in
  render_clauses cls = chars "u+rw,u-r" /\
  chmod cls = 128 (* 0o200: u=w *) /\ code_chmod cls = 256 (* 0o400: u=r *) /\
  perm_word (chars "u+rw,u-r") = (Ok (PEqual, 256), []).
Proof. repeat split. Qed.

Example C08_check_example :
  perm_holds PEqual 420 33188 (* 0o100644 *) = true /\ perm_holds PEqual 420 33252 (* 0o100744 *) = false /\
  perm_holds PAtLeast 292 33188 = true /\ perm_holds PAtLeast 73 33188 = false /\
  perm_holds PAny 73 33261 (* 0o100755 *) = true /\ perm_holds PAny 73 33188 = false.
Proof. repeat split. Qed.

Example C08_junk_example :
  is_ok (fst (perm_word (chars "7558"))) = false /\ is_ok (fst (perm_word (chars "u+rz"))) = false /\
  is_ok (fst (perm_word (chars "u+r,g+x"))) = true /\ is_ok (fst (perm_word (chars "u+r,"))) = false.
Proof. repeat split. Qed.
