(** C07 — Numbers are exact or rejected; nothing wraps, truncates or saturates.
    Statements only; proofs are in Proofs/Numbers.v. The vocabulary ([digits], [pos_value],
    [canonical], [not_starting_with], the unit letters, [decimal_atom], [sub]) is in
    Spec/Decimal.v and Spec/Numeric.v. Every statement is about digit strings of ANY length,
    leading zeros included, and about unbounded values. *)
From Coq Require Import List String NArith Bool.
From FP Require Import Model.Chars Model.Winnow Model.Ast Model.Args Model.Sexp Model.Compile.
From FP Require Import Spec.Decimal Spec.Numeric Proofs.Numbers.
Import ListNotations.
Local Open Scope N_scope.

(** ** Reading *)

(** the value the model reads from a digit string is its positional value *)
Theorem C07_value : forall ds, digits ds -> dec_value ds = pos_value ds.
Proof. exact dec_value_pos_value. Qed.

(** a run of digits, ended by anything that is not a digit, is read exactly: the result, the
    error and the cursor are all determined, and the value is compared unbounded with the
    range of the field *)
Theorem C07_parse_exact : forall bound ds rest,
  digits ds -> ds <> [] -> not_starting_with digit rest ->
  parse_uint bound (ds ++ rest) =
    if pos_value ds <? bound then (Ok (pos_value ds), rest)
    else (Back [Expected "unsigned_integer"], ds ++ rest).
Proof. exact parse_uint_exact. Qed.

Theorem C07_parse_in_range : forall bound ds rest,
  digits ds -> ds <> [] -> not_starting_with digit rest -> pos_value ds < bound ->
  parse_uint bound (ds ++ rest) = (Ok (pos_value ds), rest).
Proof. exact parse_uint_in_range. Qed.

(** a value beyond the range is rejected, with the cursor back at the start *)
Theorem C07_reject_out_of_range : forall bound ds rest,
  digits ds -> ds <> [] -> not_starting_with digit rest -> bound <= pos_value ds ->
  parse_uint bound (ds ++ rest) = (Back [Expected "unsigned_integer"], ds ++ rest).
Proof. exact parse_uint_out_of_range. Qed.

Theorem C07_parse_u32 : forall ds rest,
  digits ds -> ds <> [] -> not_starting_with digit rest ->
  parse_u32 (ds ++ rest) =
    if pos_value ds <? 2 ^ 32 then (Ok (pos_value ds), rest)
    else (Back [Expected "unsigned_integer"], ds ++ rest).
Proof. exact parse_u32_exact. Qed.

Theorem C07_parse_u64 : forall ds rest,
  digits ds -> ds <> [] -> not_starting_with digit rest ->
  parse_u64 (ds ++ rest) =
    if pos_value ds <? 2 ^ 64 then (Ok (pos_value ds), rest)
    else (Back [Expected "unsigned_integer"], ds ++ rest).
Proof. exact parse_u64_exact. Qed.

(** anything else (a sign, a letter, the empty string, ...) is not a number *)
Theorem C07_reject_no_digit : forall bound i,
  not_starting_with digit i -> parse_uint bound i = (Back [Expected "unsigned_integer"], i).
Proof. exact parse_uint_no_digit. Qed.

(** on EVERY input: an accepted number is the positional value of exactly the digits consumed,
    all of them, and it is in range *)
Theorem C07_parse_sound : forall bound i v r,
  parse_uint bound i = (Ok v, r) ->
  exists ds, i = ds ++ r /\ digits ds /\ ds <> [] /\ not_starting_with digit r
             /\ v = pos_value ds /\ v < bound.
Proof. exact parse_uint_sound. Qed.

(** ** Printing *)

(** a printed number is the canonical decimal numeral of exactly that number *)
Theorem C07_print_exact : forall n,
  digits (print_dec n) /\ print_dec n <> [] /\ pos_value (print_dec n) = n
  /\ (forall r, print_dec n = 48 :: r -> n = 0).
Proof. exact print_dec_dec_of. Qed.

Theorem C07_print_canonical : forall n, canonical (print_dec n).
Proof. exact print_dec_canonical. Qed.

(** and it is the only canonical numeral with that value *)
Theorem C07_print_unique : forall n ds, canonical ds -> pos_value ds = n -> ds = print_dec n.
Proof. exact print_dec_unique. Qed.

(** the fuel of the printer never runs out: any larger fuel prints the same text *)
Theorem C07_print_fuel : forall n fuel,
  (S (N.size_nat n) <= fuel)%nat -> print_radix_aux fuel 10 n [] = print_dec n.
Proof. exact print_dec_fuel_enough. Qed.

(** what is printed is read back unchanged *)
Theorem C07_print_parse : forall bound n rest,
  n < bound -> not_starting_with digit rest ->
  parse_uint bound (print_dec n ++ rest) = (Ok n, rest).
Proof. exact parse_print_roundtrip. Qed.

(** ** The sign of a comparison *)

(** '+' selects Gt, '-' selects Lt, no sign selects Eq; the value is whatever the argument
    parser [d] reads after the sign, and nothing else is ever accepted *)
Theorem C07_cmp_sign : forall T (d : sparser T) p w x r,
  rejects_signs d -> not_starting_with sign w ->
  (parse_cmp d (prefix_str p ++ w) = (Ok x, r)
   <-> exists v, d w = (Ok v, r) /\ x = prefix_cmp p v).
Proof. exact (@parse_cmp_ok_iff). Qed.

Theorem C07_cmp_rejects_signs :
  (forall bound, rejects_signs (parse_uint bound)) /\ rejects_signs parse_size
  /\ (forall dflt, rejects_signs (parse_time dflt)).
Proof.
  exact (conj parse_uint_rejects_signs (conj parse_size_rejects_signs parse_time_rejects_signs)).
Qed.

(** integer comparisons end to end, error and cursor included *)
Theorem C07_cmp_exact : forall bound p ds rest,
  digits ds -> ds <> [] -> not_starting_with digit rest ->
  parse_cmp (parse_uint bound) (prefix_str p ++ ds ++ rest) =
    if pos_value ds <? bound then (Ok (prefix_cmp p (pos_value ds)), rest)
    else (Cut [Expected "unsigned_integer"; Label "comparison"], prefix_str p ++ ds ++ rest).
Proof. exact parse_cmp_uint_exact. Qed.

(** ** Sizes *)

(** count and unit letter, for every unit: the count is carried unchanged or the argument is
    rejected for good *)
Theorem C07_size_exact : forall u ds rest,
  digits ds -> ds <> [] ->
  parse_size (ds ++ size_letter u :: rest) =
    if pos_value ds <? 2 ^ 64 then (Ok (Size u (pos_value ds)), rest)
    else (Cut [Expected "invalid_size_specifier"; Label "size"], ds ++ size_letter u :: rest).
Proof. exact parse_size_unit. Qed.

(** no unit letter: 512-byte blocks *)
Theorem C07_size_default : forall ds rest,
  digits ds -> ds <> [] -> not_starting_with digit rest -> not_starting_with letter rest ->
  parse_size (ds ++ rest) =
    if pos_value ds <? 2 ^ 64 then (Ok (Size UBlock (pos_value ds)), rest)
    else (Back [Expected "unsigned_integer"; Label "size"], ds ++ rest).
Proof. exact parse_size_plain. Qed.

(** any other letter is an error whatever the count *)
Theorem C07_size_bad_unit : forall ds c rest,
  digits ds -> ds <> [] -> letter c -> (forall u, c <> size_letter u) ->
  parse_size (ds ++ c :: rest) =
    (Cut [Expected "invalid_size_specifier"; Label "size"], ds ++ c :: rest).
Proof. exact parse_size_bad_letter. Qed.

(** on EVERY input: an accepted size carries the positional value of the digits consumed, in
    u64 range, with the unit of the letter that follows them (or blocks if none does) *)
Theorem C07_size_sound : forall i u n r,
  parse_size i = (Ok (Size u n), r) ->
  exists ds, digits ds /\ ds <> [] /\ n = pos_value ds /\ n < 2 ^ 64 /\
    (i = ds ++ size_letter u :: r \/
     (u = UBlock /\ i = ds ++ r /\ not_starting_with digit r /\ not_starting_with letter r)).
Proof. exact parse_size_sound. Qed.

(** ** Times *)

Theorem C07_time_exact : forall dflt u ds rest,
  digits ds -> ds <> [] ->
  parse_time dflt (ds ++ time_letter u :: rest) =
    if pos_value ds <? 2 ^ 64 then (Ok (Time u (pos_value ds)), rest)
    else (Cut [Expected "invalid_time_specifier"; Label "timespec"], ds ++ time_letter u :: rest).
Proof. exact parse_time_unit. Qed.

Theorem C07_time_default : forall dflt ds rest,
  digits ds -> ds <> [] -> not_starting_with digit rest -> not_starting_with letter rest ->
  parse_time dflt (ds ++ rest) =
    if pos_value ds <? 2 ^ 64 then (Ok (Time dflt (pos_value ds)), rest)
    else (Back [Expected "unsigned_integer"; Label "timespec"], ds ++ rest).
Proof. exact parse_time_plain. Qed.

Theorem C07_time_bad_unit : forall dflt ds c rest,
  digits ds -> ds <> [] -> letter c -> (forall u, c <> time_letter u) ->
  parse_time dflt (ds ++ c :: rest) =
    (Cut [Expected "invalid_time_specifier"; Label "timespec"], ds ++ c :: rest).
Proof. exact parse_time_bad_letter. Qed.

Theorem C07_time_sound : forall dflt i u n r,
  parse_time dflt i = (Ok (Time u n), r) ->
  exists ds, digits ds /\ ds <> [] /\ n = pos_value ds /\ n < 2 ^ 64 /\
    (i = ds ++ time_letter u :: r \/
     (u = dflt /\ i = ds ++ r /\ not_starting_with digit r /\ not_starting_with letter r)).
Proof. exact parse_time_sound. Qed.

(** ** Emitted constants *)

(** every number is emitted through [num], and [num n] is the canonical numeral of [n] *)
Theorem C07_emitted_num : forall n, decimal_atom (num n) n.
Proof. exact num_decimal_atom. Qed.

(** a size test: the right-hand side is the exact, unbounded product of count and unit; the
    unit itself appears exactly too *)
Theorem C07_emitted_size : forall c u n,
  cmp_val c = Size u n ->
  compile_size c =
    lst [atom (cmp_op c);
         match u with
         | UByte => call0 "size"
         | _ => lst [atom "round-up-power-of-2"; call0 "size"; num (size_mult u)]
         end;
         num (n * size_mult u)].
Proof. exact compile_size_eq. Qed.

Theorem C07_emitted_size_constant : forall c u n,
  cmp_val c = Size u n ->
  exists x, sub [2%nat] (compile_size c) = Some x /\ decimal_atom x (n * size_mult u).
Proof. exact compile_size_third. Qed.

Theorem C07_emitted_size_unit : forall c u n,
  cmp_val c = Size u n -> u <> UByte ->
  exists x, sub [1%nat; 2%nat] (compile_size c) = Some x /\ decimal_atom x (size_mult u).
Proof. exact compile_size_unit_const. Qed.

(** ids and counts *)
Theorem C07_emitted_field : forall c field,
  exists x, sub [2%nat] (cmp_field c field) = Some x /\ decimal_atom x (cmp_val c).
Proof. exact cmp_field_third. Qed.

(** a time test: the count, the seconds per unit and the clock reading *)
Theorem C07_emitted_time : forall now field c u n,
  cmp_val c = Time u n ->
  exists xn xu xnow,
    sub [2%nat] (compile_time now field c) = Some xn /\ decimal_atom xn n /\
    sub [1%nat; 2%nat] (compile_time now field c) = Some xu /\ decimal_atom xu (time_secs u) /\
    sub [1%nat; 1%nat; 1%nat] (compile_time now field c) = Some xnow /\ decimal_atom xnow now.
Proof. exact compile_time_consts. Qed.

(** the thread count goes from the options to the last argument of lipe-scan unchanged *)
Theorem C07_emitted_threads : forall e o clock c mdt n,
  compile e o clock = COk c -> opt_threads o = Some n ->
  exists x, sub [2%nat; 2%nat; 2%nat; 5%nat] (snd (render c mdt)) = Some x /\ decimal_atom x n.
Proof. exact emitted_threads. Qed.

(** ** Non-vacuity: the boundaries of the fields, leading zeros, 40 digits *)

Example C07_ex_u32_max :
  digits (chars "4294967295") /\ pos_value (chars "4294967295") = 2 ^ 32 - 1
  /\ parse_u32 (chars "4294967295 x") = (Ok (2 ^ 32 - 1), chars " x").
Proof. split; [repeat constructor; unfold digit; cbv; discriminate|]. split; vm_compute; reflexivity. Qed.

Example C07_ex_u32_over :
  pos_value (chars "4294967296") = 2 ^ 32
  /\ parse_u32 (chars "4294967296)") = (Back [Expected "unsigned_integer"], chars "4294967296)")
  /\ parse_u64 (chars "4294967296)") = (Ok (2 ^ 32), chars ")").
Proof. repeat split; vm_compute; reflexivity. Qed.

Example C07_ex_u64_max :
  pos_value (chars "18446744073709551615") = 2 ^ 64 - 1
  /\ parse_cmp parse_u64 (chars "+18446744073709551615") = (Ok (Gt (2 ^ 64 - 1)), [])
  /\ parse_cmp parse_u64 (chars "-18446744073709551615") = (Ok (Lt (2 ^ 64 - 1)), [])
  /\ parse_cmp parse_u64 (chars "18446744073709551615") = (Ok (Eq (2 ^ 64 - 1)), []).
Proof. repeat split; vm_compute; reflexivity. Qed.

Example C07_ex_u64_over :
  pos_value (chars "18446744073709551616") = 2 ^ 64
  /\ parse_u64 (chars "18446744073709551616")
     = (Back [Expected "unsigned_integer"], chars "18446744073709551616")
  /\ parse_cmp parse_u64 (chars "+18446744073709551616")
     = (Cut [Expected "unsigned_integer"; Label "comparison"], chars "+18446744073709551616")
  /\ parse_size (chars "18446744073709551616k")
     = (Cut [Expected "invalid_size_specifier"; Label "size"], chars "18446744073709551616k")
  /\ parse_time UDay (chars "18446744073709551616")
     = (Back [Expected "unsigned_integer"; Label "timespec"], chars "18446744073709551616").
Proof. repeat split; vm_compute; reflexivity. Qed.

(** forty digits: thirty-eight leading zeros are harmless, 10^39 is rejected and never
    becomes another number *)
Example C07_ex_40_digits :
  List.length (chars "0000000000000000000000000000000000000042") = 40%nat
  /\ digits (chars "0000000000000000000000000000000000000042")
  /\ parse_u32 (chars "0000000000000000000000000000000000000042") = (Ok 42, [])
  /\ pos_value (chars "1000000000000000000000000000000000000000") = 10 ^ 39
  /\ parse_u64 (chars "1000000000000000000000000000000000000000")
     = (Back [Expected "unsigned_integer"], chars "1000000000000000000000000000000000000000")
  /\ pos_value (print_dec (10 ^ 39)) = 10 ^ 39.
Proof.
  split; [reflexivity|]. split; [repeat constructor; unfold digit; cbv; discriminate|].
  repeat split; vm_compute; reflexivity.
Qed.

(** 2^64 / 1024 kibibytes: the count is in range, the product is 2^64 and is emitted as such *)
Example C07_ex_size_product :
  parse_size (chars "18014398509481984k") = (Ok (Size UKilo (2 ^ 54)), [])
  /\ compile_size (Eq (Size UKilo (2 ^ 54)))
     = lst [atom "="; lst [atom "round-up-power-of-2"; call0 "size"; LAtom (chars "1024")];
            LAtom (chars "18446744073709551616")]
  /\ parse_time UDay (chars "007h") = (Ok (Time UHour 7), []).
Proof. repeat split; vm_compute; reflexivity. Qed.
