(** The statements of C05 (and the word-level C01 / C13 theorems stated with it) pinned by
    [Check name : statement]: a theorem cannot be weakened without this file failing. *)
From Coq Require Import List String NArith Bool.
From FP Require Import Model.Chars Model.Winnow Model.Ast Model.Args Model.Lex Model.Prec Model.Parse.
From FP Require Import Spec.Decimal Spec.Vocabulary Spec.Surface Spec.Written Spec.Grammar.
From FP Require Import Proofs.OptionsFacts Proofs.LexSentence Proofs.WordLevel.
From FP Require Properties.C05.
Import ListNotations.
Local Open Scope N_scope.

Check C05.C05_token : forall ws l, Primary ws l -> forall gaps rest,
  gaps_for ws gaps -> ends_ok l rest ->
  parse_token (weave ws gaps ++ rest) = (Ok (KPrim l), rest).
Check C05.C05_operator_char : forall o i, single_char o = true ->
  parse_token (op_text o ++ i) = (Ok (op_token o), i).
Check C05.C05_operator_word_end : forall o, single_char o = false ->
  parse_token (op_text o) = (Ok (op_token o), []).
Check C05.C05_operator_word_blank : forall o b more,
  single_char o = false -> gap b -> not_starting_with Blank more ->
  parse_token (op_text o ++ b ++ more) = (Ok (op_token o), more).
Check C05.C05_lex : forall s, wf_sentence s -> body s <> [] ->
  lex (render s) = (Ok (tokens_of s), []).
Check C05.C05_accept_embedded : forall s sp ws gaps l,
  wf_sentence s -> In (sp, IPrim ws gaps l) (body s) ->
  lex (render s) = (Ok (tokens_of s), []) /\ In (KPrim l) (tokens_of s).
Check C05.C05_accept_single : forall ws l gaps b1 b2,
  Primary ws l -> gaps_for ws gaps -> (forall g, l <> LGlobal g) -> blanks b1 -> blanks b2 ->
  parse (b1 ++ weave ws gaps ++ b2) = ParseOk default_options (leaf_expr l).
Check C05.C05_accept_option : forall ws g gaps b1 b2,
  Primary ws (LGlobal g) -> gaps_for ws gaps -> blanks b1 -> blanks b2 ->
  parse (b1 ++ weave ws gaps ++ b2) = ParseOk (opts_for [g]) (ETest TTrue).
Check C05.C05_parse_sentence : forall s, wf_sentence s -> parse (render s) = result_of (tokens_of s).
Check C05.C01_words : forall s gs r,
  wf_sentence s -> leading_toks false (tokens_of s) = (gs, r) ->
  (forall e, GList (map detrue (run_tokens r)) e ->
     parse (render s) = ParseOk (opts_for (gs ++ globals_of (run_tokens r))) e)
  /\ ((forall e, ~ GList (map detrue (run_tokens r)) e) -> parse (render s) = grammar_error)
  /\ (forall o e, parse (render s) = ParseOk o e ->
        GList (map detrue (run_tokens r)) e /\ o = opts_for (gs ++ globals_of (run_tokens r))).
Check C05.C13_leading : forall lead rest tr gs,
  wf_sentence {| body := lead ++ rest; trail := tr |} ->
  leading_toks false (tokens_of {| body := lead ++ rest; trail := tr |})
    = (gs, tokens_of {| body := rest; trail := tr |}) ->
  parse (render {| body := lead ++ rest; trail := tr |})
  = with_leading gs (parse (render {| body := rest; trail := tr |})).
Check C05.C13_leading_pass : forall s, wf_sentence s ->
  exists rest_items,
    leading_toks false (tokens_of s) = (fst (leading_body false (body s)), toks rest_items)
    /\ leading_options (render s)
       = (Ok (fst (leading_body false (body s))), text (trail s) rest_items).
Check C05.C05_uniform_word_end_refuted :
  at_word_end (chars ",x")
  /\ parse_token (chars "-name foo" ++ chars ",x") = (Ok (KPrim (LTest (TName (chars "foo,x")))), [])
  /\ parse_token (chars "-type f" ++ chars ",d") = (Ok (KPrim (LTest (TType [FFile; FDirectory]))), []).
