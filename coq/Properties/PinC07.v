(** The statements of C07 pinned by [Check name : statement]: a theorem cannot be weakened
    without this file failing to compile. *)
From Coq Require Import List String NArith Bool.
From FP Require Import Model.Chars Model.Winnow Model.Ast Model.Args Model.Sexp Model.Compile.
From FP Require Import Spec.Decimal Spec.Numeric.
From FP Require Properties.C07.
Import ListNotations.
Local Open Scope N_scope.

Check C07.C07_value : forall ds, digits ds -> dec_value ds = pos_value ds.
Check C07.C07_parse_exact : forall bound ds rest,
  digits ds -> ds <> [] -> not_starting_with digit rest ->
  parse_uint bound (ds ++ rest) =
    if pos_value ds <? bound then (Ok (pos_value ds), rest)
    else (Back [Expected "unsigned_integer"], ds ++ rest).
Check C07.C07_parse_in_range : forall bound ds rest,
  digits ds -> ds <> [] -> not_starting_with digit rest -> pos_value ds < bound ->
  parse_uint bound (ds ++ rest) = (Ok (pos_value ds), rest).
Check C07.C07_reject_out_of_range : forall bound ds rest,
  digits ds -> ds <> [] -> not_starting_with digit rest -> bound <= pos_value ds ->
  parse_uint bound (ds ++ rest) = (Back [Expected "unsigned_integer"], ds ++ rest).
Check C07.C07_parse_u32 : forall ds rest,
  digits ds -> ds <> [] -> not_starting_with digit rest ->
  parse_u32 (ds ++ rest) =
    if pos_value ds <? 2 ^ 32 then (Ok (pos_value ds), rest)
    else (Back [Expected "unsigned_integer"], ds ++ rest).
Check C07.C07_parse_u64 : forall ds rest,
  digits ds -> ds <> [] -> not_starting_with digit rest ->
  parse_u64 (ds ++ rest) =
    if pos_value ds <? 2 ^ 64 then (Ok (pos_value ds), rest)
    else (Back [Expected "unsigned_integer"], ds ++ rest).
Check C07.C07_reject_no_digit : forall bound i,
  not_starting_with digit i -> parse_uint bound i = (Back [Expected "unsigned_integer"], i).
Check C07.C07_parse_sound : forall bound i v r,
  parse_uint bound i = (Ok v, r) ->
  exists ds, i = ds ++ r /\ digits ds /\ ds <> [] /\ not_starting_with digit r
             /\ v = pos_value ds /\ v < bound.
Check C07.C07_print_exact : forall n,
  digits (print_dec n) /\ print_dec n <> [] /\ pos_value (print_dec n) = n
  /\ (forall r, print_dec n = 48 :: r -> n = 0).
Check C07.C07_print_canonical : forall n, canonical (print_dec n).
Check C07.C07_print_unique : forall n ds, canonical ds -> pos_value ds = n -> ds = print_dec n.
Check C07.C07_print_fuel : forall n fuel,
  (S (N.size_nat n) <= fuel)%nat -> print_radix_aux fuel 10 n [] = print_dec n.
Check C07.C07_print_parse : forall bound n rest,
  n < bound -> not_starting_with digit rest ->
  parse_uint bound (print_dec n ++ rest) = (Ok n, rest).
Check C07.C07_cmp_sign : forall T (d : sparser T) p w x r,
  rejects_signs d -> not_starting_with sign w ->
  (parse_cmp d (prefix_str p ++ w) = (Ok x, r)
   <-> exists v, d w = (Ok v, r) /\ x = prefix_cmp p v).
Check C07.C07_cmp_rejects_signs :
  (forall bound, rejects_signs (parse_uint bound)) /\ rejects_signs parse_size
  /\ (forall dflt, rejects_signs (parse_time dflt)).
Check C07.C07_cmp_exact : forall bound p ds rest,
  digits ds -> ds <> [] -> not_starting_with digit rest ->
  parse_cmp (parse_uint bound) (prefix_str p ++ ds ++ rest) =
    if pos_value ds <? bound then (Ok (prefix_cmp p (pos_value ds)), rest)
    else (Cut [Expected "unsigned_integer"; Label "comparison"], prefix_str p ++ ds ++ rest).
Check C07.C07_size_exact : forall u ds rest,
  digits ds -> ds <> [] ->
  parse_size (ds ++ size_letter u :: rest) =
    if pos_value ds <? 2 ^ 64 then (Ok (Size u (pos_value ds)), rest)
    else (Cut [Expected "invalid_size_specifier"; Label "size"], ds ++ size_letter u :: rest).
Check C07.C07_size_default : forall ds rest,
  digits ds -> ds <> [] -> not_starting_with digit rest -> not_starting_with letter rest ->
  parse_size (ds ++ rest) =
    if pos_value ds <? 2 ^ 64 then (Ok (Size UBlock (pos_value ds)), rest)
    else (Back [Expected "unsigned_integer"; Label "size"], ds ++ rest).
Check C07.C07_size_bad_unit : forall ds c rest,
  digits ds -> ds <> [] -> letter c -> (forall u, c <> size_letter u) ->
  parse_size (ds ++ c :: rest) =
    (Cut [Expected "invalid_size_specifier"; Label "size"], ds ++ c :: rest).
Check C07.C07_size_sound : forall i u n r,
  parse_size i = (Ok (Size u n), r) ->
  exists ds, digits ds /\ ds <> [] /\ n = pos_value ds /\ n < 2 ^ 64 /\
    (i = ds ++ size_letter u :: r \/
     (u = UBlock /\ i = ds ++ r /\ not_starting_with digit r /\ not_starting_with letter r)).
Check C07.C07_time_exact : forall dflt u ds rest,
  digits ds -> ds <> [] ->
  parse_time dflt (ds ++ time_letter u :: rest) =
    if pos_value ds <? 2 ^ 64 then (Ok (Time u (pos_value ds)), rest)
    else (Cut [Expected "invalid_time_specifier"; Label "timespec"], ds ++ time_letter u :: rest).
Check C07.C07_time_default : forall dflt ds rest,
  digits ds -> ds <> [] -> not_starting_with digit rest -> not_starting_with letter rest ->
  parse_time dflt (ds ++ rest) =
    if pos_value ds <? 2 ^ 64 then (Ok (Time dflt (pos_value ds)), rest)
    else (Back [Expected "unsigned_integer"; Label "timespec"], ds ++ rest).
Check C07.C07_time_bad_unit : forall dflt ds c rest,
  digits ds -> ds <> [] -> letter c -> (forall u, c <> time_letter u) ->
  parse_time dflt (ds ++ c :: rest) =
    (Cut [Expected "invalid_time_specifier"; Label "timespec"], ds ++ c :: rest).
Check C07.C07_time_sound : forall dflt i u n r,
  parse_time dflt i = (Ok (Time u n), r) ->
  exists ds, digits ds /\ ds <> [] /\ n = pos_value ds /\ n < 2 ^ 64 /\
    (i = ds ++ time_letter u :: r \/
     (u = dflt /\ i = ds ++ r /\ not_starting_with digit r /\ not_starting_with letter r)).
Check C07.C07_emitted_num : forall n, decimal_atom (num n) n.
Check C07.C07_emitted_size : forall c u n,
  cmp_val c = Size u n ->
  compile_size c =
    lst [atom (cmp_op c);
         match u with
         | UByte => call0 "size"
         | _ => lst [atom "round-up-power-of-2"; call0 "size"; num (size_mult u)]
         end;
         num (n * size_mult u)].
Check C07.C07_emitted_size_constant : forall c u n,
  cmp_val c = Size u n ->
  exists x, sub [2%nat] (compile_size c) = Some x /\ decimal_atom x (n * size_mult u).
Check C07.C07_emitted_size_unit : forall c u n,
  cmp_val c = Size u n -> u <> UByte ->
  exists x, sub [1%nat; 2%nat] (compile_size c) = Some x /\ decimal_atom x (size_mult u).
Check C07.C07_emitted_field : forall c field,
  exists x, sub [2%nat] (cmp_field c field) = Some x /\ decimal_atom x (cmp_val c).
Check C07.C07_emitted_time : forall now field c u n,
  cmp_val c = Time u n ->
  exists xn xu xnow,
    sub [2%nat] (compile_time now field c) = Some xn /\ decimal_atom xn n /\
    sub [1%nat; 2%nat] (compile_time now field c) = Some xu /\ decimal_atom xu (time_secs u) /\
    sub [1%nat; 1%nat; 1%nat] (compile_time now field c) = Some xnow /\ decimal_atom xnow now.
Check C07.C07_emitted_threads : forall e o clock c mdt n,
  compile e o clock = COk c -> opt_threads o = Some n ->
  exists x, sub [2%nat; 2%nat; 2%nat; 5%nat] (snd (render c mdt)) = Some x /\ decimal_atom x n.
