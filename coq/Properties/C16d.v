(** C16 (link, without the find semantics) — the calls a compiled policy makes on the shared
    output port, read off the outputs of its SCHEME-side meaning alone.
    Statements only.  C16c_policy and C16_scan (Properties/C16c.v) assume [ctime_free e] and
    [defined e f] and go through [feval], the find semantics, although locking does not depend on
    what is printed.  Here the only hypothesis on a file is that the policy has a meaning on it
    ([sem_policy h c f = Some _], Spec/SchemePrelude.v); no [host_law], no [feval], no
    [ctime_free], no [defined].  Proofs are in Proofs/DisciplineNoSem.v: every output of
    [sem_policy] is written by a printer bound in the prelude or by (print-relative-path), and
    the bindings have the shapes of C16b.  [parser_tree] (Spec/TreeShape.v) is what the parser
    returns (C03_tree_shape); it is needed in framed mode only (C16c_needs_parser_tree). *)
From Coq Require Import String List Arith NArith Bool Permutation.
From FP Require Import Model.Chars Model.Ast Model.Sexp Model.Compile
  Spec.TreeShape Spec.FileRecord Spec.FindSem Spec.SchemeSem
  Spec.SchemePrelude Spec.Interleave Spec.PolicyCalls.
From FP Require Proofs.DisciplineNoSem Properties.C16c.
Import ListNotations.
Local Open Scope N_scope.

(** * where the outputs go *)
(** plain mode: whatever an invocation writes goes to standard output (any tree) *)
Theorem C16d_plain_stdout : forall h e o clk c f os,
  compile e o clk = COk c -> c_framed c = false -> policy_outputs h c f = Some os ->
  Forall (fun ou : output => fst (fst ou) = DStdout) os.
Proof. exact DisciplineNoSem.plain_sem_outputs_stdout. Qed.

(** framed mode: whatever an invocation writes is addressed to a target listed in the io-map *)
Theorem C16d_framed_routed : forall h e o clk c f os tbl,
  parser_tree e -> compile e o clk = COk c -> c_framed c = true -> c_iomap c = Some tbl ->
  policy_outputs h c f = Some os ->
  Forall (fun ou : output => exists i, In (i, target_of (fst (fst ou)) (snd ou)) tbl) os.
Proof. exact DisciplineNoSem.framed_sem_outputs_routed. Qed.

(** * one invocation *)
(** whatever outputs [os] the Scheme-side meaning of the policy yields on a file, each output is
    one call, the calls obey the locking discipline of the program's guard, all address the one
    shared port, and their records are the records of the outputs, in order *)
Theorem C16d_policy : forall e o clk c,
  parser_tree e -> compile e o clk = COk c ->
  forall h f os, policy_outputs h c f = Some os ->
  exists calls,
    policy_calls c os = Some calls
    /\ disciplined (guard_of c) calls
    /\ Forall (fun cl => call_port cl = out_port c) calls
    /\ all_some (map (record_of c) os) = Some (map call_record calls).
Proof. exact DisciplineNoSem.policy_discipline_nosem. Qed.

(** the same, the hypothesis spelt with [sem_policy] *)
Theorem C16d_policy_sem : forall e o clk c,
  parser_tree e -> compile e o clk = COk c ->
  forall h f r, sem_policy h c f = Some r ->
  exists calls,
    policy_calls c (snd (fst r)) = Some calls
    /\ disciplined (guard_of c) calls
    /\ Forall (fun cl => call_port cl = out_port c) calls
    /\ all_some (map (record_of c) (snd (fst r))) = Some (map call_record calls).
Proof. exact DisciplineNoSem.policy_discipline_sem. Qed.

(** * a scan *)
(** C16_scan for all files on which the policy has a meaning: any number of threads, thread i
    running the policy on the files [nth i files] one after the other; the conclusion is that of
    C16_scan, word for word *)
Theorem C16d_scan : forall h e o clk c files,
  parser_tree e -> compile e o clk = COk c ->
  Forall (Forall (fun f => exists r, sem_policy h c f = Some r)) files ->
  exists prog recs,
    scan_prog h c files = Some prog
    /\ files_records h c (concat files) = Some recs
    /\ Forall (disciplined (guard_of c)) prog
    /\ forall st, steps (init prog) st ->
         (forall p, exists (done rest : list call) (partial : str),
             out st p = concat (map call_record done) ++ partial
             /\ Permutation (done ++ rest) (calls_on p (concat prog))
             /\ partial_on (guard_of c) prog st p partial)
         /\ (forall p, p <> out_port c -> out st p = [])
         /\ (final st -> exists rs, out st (out_port c) = concat rs /\ Permutation rs recs)
         /\ (~ final st -> exists st', step st st').
Proof. exact DisciplineNoSem.scan_whole_nosem. Qed.

(** the hypothesis of C16d_scan is necessary: the program of a scan is defined only if the
    policy has a meaning on every file *)
Theorem C16d_scan_defined : forall h c files prog,
  scan_prog h c files = Some prog ->
  Forall (Forall (fun f => exists r, sem_policy h c f = Some r)) files.
Proof. exact DisciplineNoSem.scan_defined_runs. Qed.

(** * non-vacuity *)
Definition C16d_file (size : N) (name path : string) : file :=
  {| f_size := size; f_mode := 33188; f_uid := 0; f_gid := 0; f_ino := 0; f_nlink := 1;
     f_atime := 0; f_ctime := 7; f_mtime := 0; f_blocks := 0; f_projid := 0;
     f_stripe_count := 0; f_stripe_size := 0; f_mirror_count := 0;
     f_name := chars name; f_relative_path := chars path; f_absolute_path := [];
     f_fid := chars "[1]"; f_user := []; f_group := []; f_mount_path := []; f_pools := [];
     f_xattrs := []; f_empty := true; f_executable := false; f_readable := false;
     f_writable := false |}.

(** -printf '%c\n' -print is NOT ctime_free (outside C16c_policy / C16_scan), yet the policy has
    a meaning on every file of the scan below and C16d_scan applies: plain mode, port 0 under
    mutex 1 *)
Example C16d_example_ctime :
  let e := EAnd (EAction (APrintFormatted [EField FChange; ESpecial XNewline])) (EAction APrint) in
  let fa := C16d_file 1 "a" "d/a" in let fb := C16d_file 0 "b" "d/b" in
  parser_tree e /\ ctime_free e = false
  /\ exists c, compile e default_options [] = COk c /\ c_framed c = false
       /\ out_port c = 0%nat /\ guard_of c 0%nat = Some 1%nat
       /\ Forall (Forall (fun f => exists r, sem_policy C16c.C16c_host c f = Some r)) [[fa; fb]; [fb]]
       /\ scan_prog C16c.C16c_host c [[fa; fb]; [fb]]
          = Some [ [Crit 1 0 [chars "7" ++ [10]]; Crit 1 0 [chars "d/a"; [10]];
                    Crit 1 0 [chars "7" ++ [10]]; Crit 1 0 [chars "d/b"; [10]]];
                   [Crit 1 0 [chars "7" ++ [10]]; Crit 1 0 [chars "d/b"; [10]]] ].
Proof.
  intros e fa fb. split; [repeat constructor; discriminate|]. split; [reflexivity|].
  eexists. split; [vm_compute; reflexivity|].
  do 3 (split; [vm_compute; reflexivity|]).
  split; [|vm_compute; reflexivity].
  repeat constructor; eexists; vm_compute; reflexivity.
Qed.

(** -false -printf '%S' on an empty file: [defined e f] is false (outside C16c_policy), yet the
    policy has a meaning (the division is never reached) and makes no call *)
Example C16d_example_undefined :
  let e := EAnd (ETest TFalse) (EAction (APrintFormatted [EField FSparseness])) in
  let fb := C16d_file 0 "b" "d/b" in
  parser_tree e /\ defined e fb = false
  /\ exists c, compile e default_options [] = COk c
       /\ sem_policy C16c.C16c_host c fb = Some (false, [], false)
       /\ scan_prog C16c.C16c_host c [[fb]] = Some [[]].
Proof.
  intros e fb. split; [repeat constructor; discriminate|]. split; [reflexivity|].
  eexists. split; [vm_compute; reflexivity|]. split; vm_compute; reflexivity.
Qed.

(** why the [Some] hypothesis stays: -printf '%S' on an empty file divides by zero, the policy has
    no meaning there, and no program of a scan over that file is defined *)
Example C16d_needs_meaning :
  let e := EAction (APrintFormatted [EField FSparseness]) in
  let fb := C16d_file 0 "b" "d/b" in
  parser_tree e
  /\ exists c, compile e default_options [] = COk c
       /\ sem_policy C16c.C16c_host c fb = None
       /\ scan_prog C16c.C16c_host c [[fb]] = None.
Proof.
  intros e fb. split; [repeat constructor; discriminate|].
  eexists. split; [vm_compute; reflexivity|]. split; vm_compute; reflexivity.
Qed.

(** framed mode, -fprintf out '%c' -print: tags 2 and 3 on port 0 under mutex 1 *)
Example C16d_example_framed :
  let e := EAnd (EAction (AFilePrintFormatted (chars "out") [EField FChange])) (EAction APrint) in
  let fa := C16d_file 1 "a" "d/a" in
  parser_tree e /\ ctime_free e = false
  /\ exists c, compile e default_options [] = COk c /\ c_framed c = true
       /\ c_iomap c = Some [(2, TFile (chars "out") None); (3, TStdout (Some 10))]
       /\ (exists r, sem_policy C16c.C16c_host c fa = Some r)
       /\ scan_prog C16c.C16c_host c [[fa]]
          = Some [ [Crit 1 0 [chars "7"; [30; 2]]; Crit 1 0 [chars "d/a"; [30; 3]]] ].
Proof.
  intros e fa. split; [repeat constructor; discriminate|]. split; [reflexivity|].
  eexists. split; [vm_compute; reflexivity|].
  do 2 (split; [vm_compute; reflexivity|]).
  split; [eexists; vm_compute; reflexivity|vm_compute; reflexivity].
Qed.
