(** The statements of C10 pinned by [Check name : statement]. *)
From Coq Require Import List String NArith Bool.
From FP Require Import Model.Chars Model.Ast Model.Sexp Model.Compile Spec.Tree Spec.Resources.
From FP Require Properties.C10.
Import ListNotations.
Local Open Scope N_scope.

Check C10.C10_mode : forall e o clk c,
  compile e o clk = COk c ->
  c_framed c = complex_frames e
  /\ (c_framed c = true <-> exists a, Subterm (EAction a) e /\ NeedsFrames a).
Check C10.C10_table_plain_none : forall e o clk c,
  compile e o clk = COk c -> (c_iomap c = None <-> c_framed c = false).
Check C10.C10_table_inverse : forall e o clk c,
  compile e o clk = COk c -> c_framed c = true ->
  exists d, final_mgr e clk = Some (MD d) /\ c_defs c = d_vars d
            /\ c_iomap c = Some (invert (d_printers d)).
Check C10.C10_complete : forall e o clk c tbl,
  compile e o clk = COk c -> c_iomap c = Some tbl ->
  forall a t, Subterm (EAction a) (wrap e) -> action_target a = Some t -> exists i, In (i, t) tbl.
Check C10.C10_sound : forall e o clk c tbl,
  compile e o clk = COk c -> c_iomap c = Some tbl ->
  forall i t, In (i, t) tbl -> exists a, Subterm (EAction a) (wrap e) /\ action_target a = Some t.
Check C10.C10_tags : forall e o clk c tbl,
  compile e o clk = COk c -> c_iomap c = Some tbl ->
  NoDup (map fst tbl) /\ NoDup (map snd tbl)
  /\ forall i t, In (i, t) tbl -> 2 <= i /\ In (framed_printer_binding i) (c_defs c).
