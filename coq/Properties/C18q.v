(** C18q — "The message ... never quotes text that does not occur in the input", read
    literally: for ALL inputs, an error message is
        Syntax error: Unexpected token: `W`
    or  Syntax error: Failed to parse argument `W` of test|action|global option `K`E
    where the word W occurs in the input, the keyword K occurs in the input (and is itself free
    of back-quotes), and the explanation E contains no back-quote at all. So the only
    back-quoted segments of a message are W and K (W may itself contain back-quotes: it occurs
    in the input as a whole).
    Statements only; the proofs are in Proofs/QuotedOnlyInput.v. Vocabulary: [substring] and
    [kind_text] (Spec/Messages.v), [no_backquote] and [explain_keys] (Spec/Quoting.v). *)
From Coq Require Import List String NArith Bool.
From FP Require Import Model.Chars Model.Parse.
From FP Require Import Spec.Messages Spec.Quoting Proofs.QuotedOnlyInput.
Import ListNotations.
Local Open Scope N_scope.

Theorem C18_quotes_only_input : forall s m,
  parse s = ParseErr m ->
  (exists W, m = chars "Syntax error: Unexpected token: `" ++ W ++ chars "`" /\ substring W s)
  \/ (exists W k K E,
        m = chars "Syntax error: Failed to parse argument `" ++ W ++ chars "` of "
              ++ chars (kind_text k) ++ chars " `" ++ K ++ chars "`" ++ E
        /\ substring W s /\ substring K s /\ K <> [] /\ no_backquote K /\ no_backquote E).
Proof. exact quotes_only_input. Qed.

(** each of the thirteen explanation texts of error.rs is free of back-quotes *)
Theorem explain_table_unquoted :
  forallb (fun d => forallb (fun c => negb (c =? 96)) (chars (explain d))) explain_keys = true.
Proof. exact QuotedOnlyInput.explain_table_unquoted. Qed.

(** ... and the list is complete: any other description is printed as it stands *)
Theorem explain_keys_complete : forall d, ~ In d explain_keys -> explain d = d.
Proof. exact QuotedOnlyInput.explain_keys_complete. Qed.

(** ** Non-vacuity: the second shape, with its witnesses *)
Example C18q_example_perm :
  parse (chars "-perm u@r")
  = ParseErr (chars "Syntax error: Failed to parse argument `" ++ chars "u@r" ++ chars "` of "
                ++ chars (kind_text KTest) ++ chars " `" ++ chars "-perm" ++ chars "`"
                ++ chars ": Enountered an invalid permission symbol")
  /\ substring (chars "u@r") (chars "-perm u@r")
  /\ substring (chars "-perm") (chars "-perm u@r")
  /\ no_backquote (chars ": Enountered an invalid permission symbol").
Proof.
  split; [vm_compute; reflexivity|]. split; [exists (chars "-perm "), []; reflexivity|].
  split; [exists [], (chars " u@r"); reflexivity|reflexivity].
Qed.

Example C18q_example_uid :
  parse (chars "-true -uid x -print")
  = ParseErr (chars "Syntax error: Failed to parse argument `" ++ chars "x" ++ chars "` of "
                ++ chars (kind_text KTest) ++ chars " `" ++ chars "-uid" ++ chars "`"
                ++ chars ": Expected an unsigned integer")
  /\ substring (chars "x") (chars "-true -uid x -print")
  /\ substring (chars "-uid") (chars "-true -uid x -print")
  /\ no_backquote (chars ": Expected an unsigned integer").
Proof.
  split; [vm_compute; reflexivity|]. split; [exists (chars "-true -uid "), (chars " -print"); reflexivity|].
  split; [exists (chars "-true "), (chars " x -print"); reflexivity|reflexivity].
Qed.

(** the first shape; the quoted word contains back-quotes and occurs in the input as it stands *)
Example C18q_example_unexpected :
  parse (chars "-name `x` -bad`q`")
  = ParseErr (chars "Syntax error: Unexpected token: `" ++ chars "-bad`q`" ++ chars "`")
  /\ substring (chars "-bad`q`") (chars "-name `x` -bad`q`").
Proof.
  split; [vm_compute; reflexivity|]. exists (chars "-name `x` "), []. reflexivity.
Qed.
