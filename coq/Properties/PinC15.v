From Coq Require Import List NArith.
From FP Require Import Model.Chars Model.Ast Model.Compile Proofs.ClockFacts.
From FP Require Properties.C15.
Check C15.C15_clock_only : forall e o c1 c2,
  firstn (time_tests e) c1 = firstn (time_tests e) c2 -> compile e o c1 = compile e o c2.
Check C15.C15_no_time_no_clock : forall e o c1 c2,
  time_tests e = 0 -> compile e o c1 = compile e o c2.
