(** The statements of C16 pinned by [Check name : statement]: a theorem cannot be weakened
    without this file failing to compile. *)
From Coq Require Import List Arith Permutation.
From FP Require Import Model.Chars Spec.Interleave.
From FP Require Properties.C16.
Import ListNotations.

Check C16.C16_records : forall guard prog st,
  Forall (disciplined guard) prog -> steps (init prog) st ->
  forall p, exists (done rest : list call) (partial : str),
    out st p = concat (map call_record done) ++ partial
    /\ Permutation (done ++ rest) (calls_on p (concat prog))
    /\ partial_on guard prog st p partial.
Check C16.C16_final : forall guard prog st,
  Forall (disciplined guard) prog -> steps (init prog) st -> final st ->
  forall p, exists rs, out st p = concat rs /\ Permutation rs (records_on p (concat prog)).
Check C16.C16_progress : forall prog st,
  steps (init prog) st -> ~ final st -> exists st', step st st'.
Check C16.C16_exclusive : forall prog st i m p wd wl,
  steps (init prog) st -> in_section prog st i m p wd wl -> owner st m = Some i.
Check C16.C16_terminates : forall st st', step st st' -> remaining st' < remaining st.
