From Coq Require Import List NArith.
From FP Require Import Model.Chars Model.Ast Model.Sexp Model.Compile Proofs.RenderFacts Spec.GuileReader.
From FP Require Properties.C20.
Import ListNotations.
Check C20.C20_first_form : forall c p1 p2, fst (render c p1) = fst (render c p2).
Check C20.C20_one_place : forall c p, erase (snd (render c p)) = program_ctx c (SStr p).
Check C20.C20_hole_injective : forall c x y, program_ctx c x = program_ctx c y -> x = y.
Check C20.C20_is_scan_device : forall c p,
  option_map (@hd sexp (SList [])) (scan_call (erase (snd (render c p)))) = Some (SStr p).
Check C20.C20_text : forall e o clk c p, compile e o clk = COk c ->
  read_all (scheme_text c p) = Some [erase (fst (render c [])); program_ctx c (SStr p)].
