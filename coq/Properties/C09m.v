(** C09m — C09 for the COMPILED POLICY: if an expression contains no action anywhere, the policy
    it compiles to (its Scheme-side meaning [sem_policy], Spec/SchemePrelude.v) writes the relative
    path, newline-terminated, to stdout for exactly the files on which the whole expression is
    true by find's rules ([feval]), writes nothing else, never requests a stop and never fails.
    A result is (truth value, writes in order as (destination, payload, terminator), stop).
    Statements only; proofs in Proofs/SmallPins2.v. *)
From Coq Require Import List String NArith Bool.
From FP Require Import Model.Chars Model.Ast Model.Sexp Model.Compile.
From FP Require Import Spec.FileRecord Spec.FindSem Spec.SchemePrelude.
From FP Require Proofs.SmallPins2 Properties.C16c.
Import ListNotations.
Local Open Scope N_scope.

Theorem C09m_policy : forall h, host_law h -> forall e o clk c f,
  has_action e = false -> compile e o clk = COk c ->
  sem_policy h c f =
    Some (fst (fst (feval h e clk f)),
          (if fst (fst (feval h e clk f)) then [(DStdout, f_relative_path f, Some 10)] else []),
          false).
Proof. exact SmallPins2.no_action_policy. Qed.

(** the two side conditions of C02_compile hold of every action-free expression *)
Theorem C09m_side_conditions : forall e f,
  has_action e = false -> ctime_free e = true /\ defined e f = true.
Proof. exact SmallPins2.no_action_side_conditions. Qed.

(** by find's rules the expression itself writes nothing and requests no stop *)
Theorem C09m_quiet : forall h e clk f, has_action e = false ->
  feval h e clk f = (fst (fst (feval h e clk f)), [], false).
Proof. exact SmallPins2.no_action_quiet. Qed.

(** non-vacuity: -name a -o ! -true under a host that satisfies the law: the policy prints d/a
    for the file named a and nothing for the file named b *)
Example C09m_example :
  let e := EOr (ETest (TName (chars "a"))) (ENot (ETest TTrue)) in
  let fa := C16c.C16c_file "a" "d/a" in let fb := C16c.C16c_file "b" "d/b" in
  host_law C16c.C16c_host /\ has_action e = false
  /\ exists c, compile e default_options [] = COk c
       /\ sem_policy C16c.C16c_host c fa = Some (true, [(DStdout, chars "d/a", Some 10)], false)
       /\ sem_policy C16c.C16c_host c fb = Some (false, [], false).
Proof.
  intros e fa fb. split; [exact C16c.C16c_host_law|]. split; [reflexivity|].
  eexists. split; [vm_compute; reflexivity|]. split; vm_compute; reflexivity.
Qed.
