From Coq Require Import List String NArith Bool.
From FP Require Import Model.Chars Model.Ast Model.Parse Model.Compile Spec.Tree Spec.Unsupported.
From FP Require Properties.C12.
Check C12.C12_exact : forall e o clk, compilable_shape e = true ->
  match first_unsupported e with
  | Some (k, n) => compile e o clk = CErr k n
  | None => exists c, compile e o clk = COk c
  end.
Check C12.C12_iff : forall e o clk, compilable_shape e = true ->
  ((exists k n, compile e o clk = CErr k n) <-> has_unsupported e).
Check C12.C12_parser_trees : forall s o e, parse s = ParseOk o e -> compilable_shape e = true.
