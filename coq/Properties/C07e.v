(** C07, end to end — (a) a numeric argument beyond the range of its field makes the WHOLE input
    an error naming that keyword, wherever the primary stands; (b) in a compiled program, every
    atom of the policy body that could be read as a number is the canonical decimal numeral of a
    number of the tree, of a clock reading, or of a listed constant of the code generator, and
    every number of the tree is emitted.
    Statements only; proofs are in Proofs/NumbersEndToEnd.v. Vocabulary: Spec/Decimal.v
    ([digits], [pos_value], [not_starting_with], [letter]), Spec/Numeric.v (sign prefix, unit
    letters), Spec/Vocabulary.v (the keyword tables [count32_table], [time_table]),
    Spec/Messages.v ([failed_msg], [lexes_fine], [blanks], [ends_word]), Spec/NumeralSources.v
    ([atoms], [numeric_start], [numeric_symbols], [fixed_constants], [test_numbers],
    [tree_numbers]), Spec/Tree.v ([Subterm]). [next_word] is the model's own reading of the word
    a message quotes (see C18_quoted_bare); for a number that is a whole word it is given explicitly by
    [C07e_quoted_number] and [C07e_quoted_number_unit] below. *)
From Coq Require Import List String NArith Bool.
From FP Require Import Model.Chars Model.Winnow Model.Ast Model.Args Model.Lex Model.Parse
  Model.Sexp Model.Compile.
From FP Require Import Spec.Vocabulary.
From FP Require Import Spec.Decimal Spec.Numeric Spec.Messages Spec.Tree Spec.NumeralSources.
From FP Require Import Proofs.NumbersEndToEnd.
Import ListNotations.
Local Open Scope N_scope.

(** ** (a) Out of range: the whole input is rejected *)

(** -gid -inum -mirror-count -stripe-count -uid: an optional sign and a value of 2^32 or more *)
Theorem C07e_reject_count32 : forall K f pre bl sg ds rest,
  In (K, f) count32_table ->
  lexes_fine pre (chars K ++ bl ++ Numeric.prefix_str sg ++ ds ++ rest) -> blanks bl ->
  digits ds -> ds <> [] -> not_starting_with digit rest -> 2 ^ 32 <= pos_value ds ->
  parse (pre ++ chars K ++ bl ++ Numeric.prefix_str sg ++ ds ++ rest)
  = ParseErr (failed_msg (next_word (Numeric.prefix_str sg ++ ds ++ rest)) KTest K
                (Some "Expected an unsigned integer"%string)).
Proof. exact reject_count32_range. Qed.

(** -links: 2^64 or more *)
Theorem C07e_reject_links : forall pre bl sg ds rest,
  lexes_fine pre (chars "-links" ++ bl ++ Numeric.prefix_str sg ++ ds ++ rest) -> blanks bl ->
  digits ds -> ds <> [] -> not_starting_with digit rest -> 2 ^ 64 <= pos_value ds ->
  parse (pre ++ chars "-links" ++ bl ++ Numeric.prefix_str sg ++ ds ++ rest)
  = ParseErr (failed_msg (next_word (Numeric.prefix_str sg ++ ds ++ rest)) KTest "-links"
                (Some "Expected an unsigned integer"%string)).
Proof. exact reject_links_range. Qed.

(** -threads: no sign, 2^32 or more *)
Theorem C07e_reject_threads : forall pre bl ds rest,
  lexes_fine pre (chars "-threads" ++ bl ++ ds ++ rest) -> blanks bl ->
  digits ds -> ds <> [] -> not_starting_with digit rest -> 2 ^ 32 <= pos_value ds ->
  parse (pre ++ chars "-threads" ++ bl ++ ds ++ rest)
  = ParseErr (failed_msg (next_word (ds ++ rest)) KOption "-threads"
                (Some "Expected an unsigned integer"%string)).
Proof. exact reject_threads_range. Qed.

(** -maxdepth and -mindepth (refused whatever the value, see C12): out of range, the reason
    given is the number *)
Theorem C07e_reject_depth : forall K pre bl ds rest,
  K = "-maxdepth"%string \/ K = "-mindepth"%string ->
  lexes_fine pre (chars K ++ bl ++ ds ++ rest) -> blanks bl ->
  digits ds -> ds <> [] -> not_starting_with digit rest -> 2 ^ 32 <= pos_value ds ->
  parse (pre ++ chars K ++ bl ++ ds ++ rest)
  = ParseErr (failed_msg (next_word (ds ++ rest)) KOption K
                (Some "Expected an unsigned integer"%string)).
Proof. exact reject_depth_range. Qed.

(** -size with a unit letter, every unit: the count alone is compared with 2^64. The message
    quotes the word without its sign and calls it an invalid size specifier *)
Theorem C07e_reject_size_unit : forall pre bl sg ds u rest,
  lexes_fine pre (chars "-size" ++ bl ++ Numeric.prefix_str sg ++ ds ++ size_letter u :: rest) ->
  blanks bl -> digits ds -> ds <> [] -> 2 ^ 64 <= pos_value ds ->
  parse (pre ++ chars "-size" ++ bl ++ Numeric.prefix_str sg ++ ds ++ size_letter u :: rest)
  = ParseErr (failed_msg (next_word (ds ++ size_letter u :: rest)) KTest "-size"
                (Some "Invalid size specifier"%string)).
Proof. exact reject_size_unit_range. Qed.

(** -size without a unit letter *)
Theorem C07e_reject_size_plain : forall pre bl sg ds rest,
  lexes_fine pre (chars "-size" ++ bl ++ Numeric.prefix_str sg ++ ds ++ rest) ->
  blanks bl -> digits ds -> ds <> [] -> not_starting_with digit rest ->
  not_starting_with letter rest -> 2 ^ 64 <= pos_value ds ->
  parse (pre ++ chars "-size" ++ bl ++ Numeric.prefix_str sg ++ ds ++ rest)
  = ParseErr (failed_msg (next_word (Numeric.prefix_str sg ++ ds ++ rest)) KTest "-size"
                (Some "Expected an unsigned integer"%string)).
Proof. exact reject_size_plain_range. Qed.

(** -amin -atime -cmin -ctime -mmin -mtime with a unit letter *)
Theorem C07e_reject_time_unit : forall K dflt f pre bl sg ds u rest,
  In (K, dflt, f) time_table ->
  lexes_fine pre (chars K ++ bl ++ Numeric.prefix_str sg ++ ds ++ time_letter u :: rest) ->
  blanks bl -> digits ds -> ds <> [] -> 2 ^ 64 <= pos_value ds ->
  parse (pre ++ chars K ++ bl ++ Numeric.prefix_str sg ++ ds ++ time_letter u :: rest)
  = ParseErr (failed_msg (next_word (ds ++ time_letter u :: rest)) KTest K
                (Some "Found an invalid time specifier"%string)).
Proof. exact reject_time_unit_range. Qed.

(** ... and without *)
Theorem C07e_reject_time_plain : forall K dflt f pre bl sg ds rest,
  In (K, dflt, f) time_table ->
  lexes_fine pre (chars K ++ bl ++ Numeric.prefix_str sg ++ ds ++ rest) ->
  blanks bl -> digits ds -> ds <> [] -> not_starting_with digit rest ->
  not_starting_with letter rest -> 2 ^ 64 <= pos_value ds ->
  parse (pre ++ chars K ++ bl ++ Numeric.prefix_str sg ++ ds ++ rest)
  = ParseErr (failed_msg (next_word (Numeric.prefix_str sg ++ ds ++ rest)) KTest K
                (Some "Expected an unsigned integer"%string)).
Proof. exact reject_time_plain_range. Qed.

(** the quoted word when the number is a whole word (followed by a blank, ')' or nothing) *)
Theorem C07e_quoted_number : forall sg ds rest, digits ds -> ds <> [] -> ends_word rest ->
  next_word (Numeric.prefix_str sg ++ ds ++ rest) = Numeric.prefix_str sg ++ ds.
Proof. exact quoted_number. Qed.
Theorem C07e_quoted_number_unit : forall ds c rest,
  digits ds -> ds <> [] -> letter c -> ends_word rest ->
  next_word (ds ++ c :: rest) = ds ++ [c].
Proof. exact quoted_number_unit. Qed.
(** such a rest meets the side conditions of the theorems above *)
Theorem C07e_word_end : forall rest, ends_word rest ->
  not_starting_with digit rest /\ not_starting_with letter rest.
Proof. exact word_end_sides. Qed.

(** ** (b) The numerals of a compiled program *)

(** every atom of the body that starts the way a Scheme number can (digit, sign, dot, '#') is
    one of + - #f #t #o07777, or the canonical numeral of a number of the tree (with the clock
    readings it takes) or of one of the thirteen listed constants *)
Theorem C07e_emitted_numerals : forall e o clk c,
  compile e o clk = COk c ->
  forall a, In a (atoms (erase (c_body c))) -> numeric_start a = true ->
  In a numeric_symbols
  \/ exists n, a = print_dec n /\ (In n (fst (tree_numbers e clk)) \/ In n fixed_constants).
Proof. exact emitted_numerals. Qed.

(** in particular an atom made of decimal digits only *)
Theorem C07e_emitted_digit_atoms : forall e o clk c,
  compile e o clk = COk c ->
  forall a, In a (atoms (erase (c_body c))) -> digits a -> a <> [] ->
  exists n, a = print_dec n /\ (In n (fst (tree_numbers e clk)) \/ In n fixed_constants).
Proof. exact emitted_digit_atoms. Qed.

(** conversely every number of the tree, and every clock reading it takes, is emitted *)
Theorem C07e_numbers_emitted : forall e o clk c,
  compile e o clk = COk c ->
  forall n, In n (fst (tree_numbers e clk)) -> In (print_dec n) (atoms (erase (c_body c))).
Proof. exact numbers_emitted. Qed.

(** the numbers of a tree are: a number of one of its tests (a count; count times unit and the
    unit of a size; count and seconds per unit of an age; permission bits), a reading of the
    clock, or 0 when the clock has run out of readings *)
Theorem C07e_tree_numbers : forall e clk n,
  In n (fst (tree_numbers e clk)) ->
  (exists t, Subterm (ETest t) e /\ In n (test_numbers t)) \/ In n clk \/ n = 0.
Proof. exact tree_numbers_from. Qed.

(** ** Non-vacuity *)

(** the hypotheses of the rejection theorems are met by a three-token prefix and 2^64 *)
Example C07e_example_hyps :
  lexes_fine (chars "-name x -o ") (chars "-size" ++ chars "  " ++ Numeric.prefix_str PMinus
                                      ++ chars "18446744073709551616" ++ size_letter UKilo :: chars " -print")
  /\ blanks (chars "  ")
  /\ digits (chars "18446744073709551616")
  /\ 2 ^ 64 <= pos_value (chars "18446744073709551616")
  /\ In ("-uid"%string, fun c => LTest (TUserId c)) count32_table
  /\ In ("-mmin"%string, UMinute, fun c => LTest (TModifyTime c)) time_table
  /\ ends_word (chars " -print").
Proof.
  split.
  { unfold lexes_fine.
    match goal with
    | |- lexes_to ?x ?y =>
        let x' := eval vm_compute in x in let y' := eval vm_compute in y in change (lexes_to x' y')
    end.
    repeat (eapply lexes_step; [vm_compute; reflexivity|]). apply lexes_here. }
  split; [split; [discriminate|reflexivity]|].
  split; [repeat constructor; unfold digit; cbv; discriminate|].
  split; [vm_compute; discriminate|].
  split; [cbn; tauto|]. split; [cbn; tauto|]. reflexivity.
Qed.

(** what the model says on such inputs *)
Example C07e_example_eval :
  parse (chars "-true -uid +4294967296")
  = ParseErr (chars "Syntax error: Failed to parse argument `+4294967296` of test `-uid`: Expected an unsigned integer")
  /\ parse (chars "-name x -o -size  -18446744073709551616k -print")
     = ParseErr (chars "Syntax error: Failed to parse argument `18446744073709551616k` of test `-size`: Invalid size specifier")
  /\ parse (chars "-size +18446744073709551616 -print")
     = ParseErr (chars "Syntax error: Failed to parse argument `+18446744073709551616` of test `-size`: Expected an unsigned integer")
  /\ parse (chars "-mmin +18446744073709551616h")
     = ParseErr (chars "Syntax error: Failed to parse argument `18446744073709551616h` of test `-mmin`: Found an invalid time specifier")
  /\ parse (chars "-mtime 18446744073709551616")
     = ParseErr (chars "Syntax error: Failed to parse argument `18446744073709551616` of test `-mtime`: Expected an unsigned integer")
  /\ parse (chars "-links -18446744073709551616)")
     = ParseErr (chars "Syntax error: Failed to parse argument `-18446744073709551616` of test `-links`: Expected an unsigned integer")
  /\ parse (chars "-threads 4294967296 -print")
     = ParseErr (chars "Syntax error: Failed to parse argument `4294967296` of global option `-threads`: Expected an unsigned integer")
  /\ parse (chars "-maxdepth 4294967296")
     = ParseErr (chars "Syntax error: Failed to parse argument `4294967296` of global option `-maxdepth`: Expected an unsigned integer").
Proof. repeat split; vm_compute; reflexivity. Qed.

(** a tree with a size, two ages, a count, permission bits and a type list: its numbers, and
    the program in which each of them, the two clock readings it takes and the constants
    0, 61440, 32768, 40960 appear *)
Definition C07e_example_expr : expr :=
  EAnd (ETest (TSize (Gt (Size UKilo 5))))
   (EOr (ENot (ETest (TModifyTime (Lt (Time UDay 7)))))
    (EAnd (ETest (TUserId (Eq 1000)))
     (EAnd (ETest (TPerm PAny 73))
      (EAnd (ETest (TType [FFile; FLink])) (ETest (TAccessTime (Gt (Time UMinute 30)))))))).
Example C07e_example_program :
  tree_numbers C07e_example_expr [1700000000; 1700000001; 9]
  = ([5120; 1024; 1700000000; 7; 86400; 1000; 73; 1700000001; 30; 60], [9])
  /\ exists c, compile C07e_example_expr default_options [1700000000; 1700000001; 9] = COk c
     /\ print (c_body c) = chars "(and (and (> (round-up-power-of-2 (size) 1024) 5120) (or (not (< (quotient (- 1700000000 (mtime)) 86400) 7)) (and (= (uid) 1000) (and (not (= (logand (mode) 73) 0)) (and (or (= (logand (mode) 61440) 32768) (= (logand (mode) 61440) 40960)) (> (quotient (- 1700000001 (atime)) 60) 30)))))) (print-relative-path))"
     /\ filter numeric_start (atoms (erase (c_body c)))
        = map chars ["1024"; "5120"; "-"; "1700000000"; "86400"; "7"; "1000"; "73"; "0"; "61440";
                     "32768"; "61440"; "40960"; "-"; "1700000001"; "60"; "30"]%string.
Proof. split; [reflexivity|]. eexists. split; [reflexivity|]. split; vm_compute; reflexivity. Qed.
