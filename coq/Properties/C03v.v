(** C03v — the equalities of C03u lifted from the argument parsers to the whole parser: the
    strict twin of every parser that uses them (Spec/StrictParse.v: each of the seven Rust
    [unreachable!()] / [unwrap()] sites is an explicit Panic) is equal to the model's parser on
    every input, up to [parse] itself; hence that version of the parser never panics.
    Statements only; proofs are in Proofs/StrictParse.v. *)
From Coq Require Import List String NArith Bool.
From FP Require Import Model.Chars Model.Winnow Model.Ast Model.Args Model.Perm Model.Format
  Model.Lex Model.Parse Spec.StrictArms Spec.StrictParse Proofs.StrictParse.
Import ListNotations.
Local Open Scope N_scope.

(** the arguments of -perm and of -printf / -fprintf *)
Theorem C03v_perm_arg : forall i, parse_perm_arg_strict i = parse_perm_arg i.
Proof. exact parse_perm_arg_strict_eq. Qed.
Theorem C03v_format_arg : forall i, parse_format_arg_strict i = parse_format_arg i.
Proof. exact parse_format_arg_strict_eq. Qed.

(** the action and test tables, the tokenizer *)
Theorem C03v_action : forall i, parse_action_strict i = parse_action i.
Proof. exact parse_action_strict_eq. Qed.
Theorem C03v_test : forall i, parse_test_strict i = parse_test i.
Proof. exact parse_test_strict_eq. Qed.
Theorem C03v_token : forall i, parse_token_strict i = parse_token i.
Proof. exact parse_token_strict_eq. Qed.
Theorem C03v_lex : forall i, lex_strict i = lex i.
Proof. exact lex_strict_eq. Qed.
Theorem C03v_lex_strict_total : forall i site, fst (lex_strict i) <> Panic site.
Proof. exact lex_strict_no_panic. Qed.

(** the whole parser *)
Theorem C03v_parse_strict_eq : forall s, parse_strict s = parse s.
Proof. exact parse_strict_eq. Qed.

(** the parser in which every one of those panic sites is an explicit Panic never panics *)
Theorem C03v_parse_strict_total : forall s site, parse_strict s <> ParsePanic site.
Proof. exact parse_strict_no_panic. Qed.

(** non-vacuity: the strict parser runs through every strict argument parser on an input that
    parses, and reports an error (not a panic) on one that does not *)
Example C03v_example_ok :
  exists o e,
    parse_strict (chars "-size +5k -perm /u+rw,g=x -type f,d -mtime -3h -printf '\101%p\n'")
      = ParseOk o e.
Proof. vm_compute. eexists; eexists; reflexivity. Qed.
Example C03v_example_err :
  exists m, parse_strict (chars "-size 5x -print") = ParseErr m.
Proof. vm_compute. eexists; reflexivity. Qed.
