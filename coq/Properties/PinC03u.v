(** The statements of C03u pinned by [Check name : statement]: a theorem cannot be weakened
    without this file failing to compile. *)
From Coq Require Import List String NArith Bool.
From FP Require Import Model.Chars Model.Winnow Model.Ast Model.Args Model.Perm Model.Format
  Model.Lex Model.Prec Spec.StrictArms.
From FP Require Properties.C03u.
Import ListNotations.
Local Open Scope N_scope.

Check C03u.C03u_size :
  (forall i, parse_size_strict i = parse_size i)
  /\ (forall i s, fst (parse_size_strict i) <> Panic s)
  /\ (forall c, in_str "bcwkMGT" c = true -> size_unit_strict c = Some (size_unit_of c))
  /\ (forall c, size_unit_strict c <> None <-> In c [98; 99; 119; 107; 77; 71; 84]).

Check C03u.C03u_time :
  (forall d i, parse_time_strict d i = parse_time d i)
  /\ (forall d i s, fst (parse_time_strict d i) <> Panic s)
  /\ (forall c, in_str "smhd" c = true -> time_unit_strict c = Some (time_unit_of c))
  /\ (forall c, time_unit_strict c <> None <-> In c [115; 109; 104; 100]).

Check C03u.C03u_filetype :
  (forall i, parse_filetype_strict i = parse_filetype i)
  /\ (forall i, parse_filetypes_strict i = parse_filetypes i)
  /\ (forall i s, fst (parse_filetypes_strict i) <> Panic s)
  /\ (forall c, in_str "bcdpfls" c = true -> filetype_strict c = Some (filetype_of c))
  /\ (forall c, filetype_strict c <> None <-> In c [98; 99; 100; 112; 102; 108; 115]).

Check C03u.C03u_sym_value :
  (forall c, in_str "ugoa" c = true \/ in_str "rwx" c = true ->
             sym_value_strict c = Some (sym_value c))
  /\ (forall c, sym_value_strict c <> None <-> In c [117; 103; 111; 97; 114; 119; 120])
  /\ (forall i target r, take_while 1 (in_str "ugoa") i = (Ok target, r) ->
        from_symbolic_strict target = Some (from_symbolic target))
  /\ (forall i level r, take_while 1 (in_str "rwx") i = (Ok level, r) ->
        from_symbolic_strict level = Some (from_symbolic level)).

Check C03u.C03u_operator :
  (forall i, parse_partial_strict i = parse_partial i)
  /\ (forall i, parse_permission_strict i = parse_permission i)
  /\ (forall i s, fst (parse_partial_strict i) <> Panic s)
  /\ (forall i s, fst (parse_permission_strict i) <> Panic s).

Check C03u.C03u_octal :
  (forall i, parse_special_strict i = parse_special i)
  /\ (forall i s, fst (parse_special_strict i) <> Panic s)
  /\ (forall i oct r, take_while_mn 3 3 is_oct i = (Ok oct, r) ->
        oct_u16_strict oct = Some (oct_value oct) /\ oct_value oct < 512)
  /\ (forall i n r, parse_special i = (Ok (XAscii n), r) -> n < 512).

Check C03u.C03u_prec_first :
  (forall ts, prec_parser_strict ts
              = match prec_parser ts with Some e => Some (Some e) | None => None end)
  /\ (forall ts, prec_parser_strict ts <> Some None).

Check C03u.C03u_prec_leaf :
  (forall t, prim_expr_strict t <> None <-> is_primary t = true)
  /\ (forall n t r, is_primary t = true ->
        exists e, prim_expr_strict t = Some e /\ atom (S n) (t :: r) = POk e r)
  /\ (forall n t r e r', is_primary t = false -> atom (S n) (t :: r) = POk e r' ->
        t = KNot \/ t = KLParen).

