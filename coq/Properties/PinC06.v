(** The statements of C06 pinned by [Check name : statement]. *)
From Coq Require Import List String NArith Bool.
From FP Require Import Model.Chars Model.Winnow Model.Ast Model.Lex Model.Prec Model.Parse.
From FP Require Import Spec.Vocabulary Spec.Surface Spec.Written.
From FP Require Import Proofs.LexSentence.
From FP Require Properties.C06.
Import ListNotations.
Local Open Scope N_scope.

Check C06.C06_written : forall w bs tr,
  written_ok w -> List.length bs = List.length (written_items w) ->
  wf_sentence (written_sentence w bs tr) ->
  parse (render (written_sentence w bs tr)) = ParseOk (opts_for (written_opts w)) (written_tree w).
Check C06.C06_spelling : forall w1 bs1 tr1 w2 bs2 tr2,
  abstract w1 = abstract w2 ->
  written_ok w1 -> List.length bs1 = List.length (written_items w1) ->
  wf_sentence (written_sentence w1 bs1 tr1) ->
  written_ok w2 -> List.length bs2 = List.length (written_items w2) ->
  wf_sentence (written_sentence w2 bs2 tr2) ->
  parse (render (written_sentence w1 bs1 tr1)) = parse (render (written_sentence w2 bs2 tr2)).
Check C06.C06_same_tokens : forall s1 s2,
  wf_sentence s1 -> wf_sentence s2 -> tokens_of s1 = tokens_of s2 ->
  parse (render s1) = parse (render s2).
Check C06.C06_blank : forall b, blanks b -> parse b = parse (chars "-true").
Check C06.C06_quoted_number_refuted :
  exists w, WordArg w (chars "5") /\
    (exists msg, parse (chars "-uid " ++ w) = ParseErr msg) /\
    parse (chars "-uid " ++ chars "5") = ParseOk default_options (ETest (TUserId (Eq 5))).
Check C06.C06_paren_leading_option_refuted :
  parse (chars "-depth -print") = ParseOk {| opt_depth := true; opt_threads := None |} (EAction APrint)
  /\ parse (chars "( -depth ) -print")
     = ParseOk {| opt_depth := true; opt_threads := None |} (EAnd (ETest TTrue) (EAction APrint)).
