(** The statements of C14 pinned by [Check name : statement]: a theorem cannot be weakened
    without this file failing to compile. *)
From Coq Require Import List String NArith.
From FP Require Import Model.Chars Model.Winnow Model.Ast Model.Args Model.Format.
From FP Require Import Spec.FormatSpec.
From FP Require Properties.C14.
Import ListNotations.
Local Open Scope N_scope.

Check C14.C14_unique : forall s es1 es2, Seg s es1 -> Seg s es2 -> es1 = es2.
Check C14.C14_eq : forall s es, parse_format s = (Ok es, []) <-> Seg s es.
Check C14.C14_err : forall s, (exists c r, parse_format s = (Cut c, r)) <-> SegErr s.
Check C14.C14_total : forall s,
  (exists es, parse_format s = (Ok es, [])) \/ (exists c r, parse_format s = (Cut c, r)).
Check C14.C14_exclusive : forall s es, Seg s es -> SegErr s -> False.
Check C14.C14_literals : forall s es, Seg s es ->
  ~ In (ELit []) es /\ forall pre l1 l2 post, es <> pre ++ ELit l1 :: ELit l2 :: post.
