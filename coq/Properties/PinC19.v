(** The statements of C19 pinned by [Check name : statement]: a theorem cannot be weakened
    without this file failing to compile. *)
From Coq Require Import List NArith Bool.
From FP Require Import Model.Chars Model.Ast Spec.Tree.
From FP Require Properties.C19.
Import ListNotations.
Local Open Scope N_scope.

Check C19.C19_action : forall e, has_action e = true <-> exists a, Subterm (EAction a) e.
Check C19.C19_frames : forall e,
  complex_frames e = true <-> exists a, Subterm (EAction a) e /\ NeedsFrames a.
Check C19.C19_units :
  map size_mult [UByte; UWord; UBlock; UKilo; UMega; UGiga; UTera] = [1; 2; 512; 2^10; 2^20; 2^30; 2^40]
  /\ map time_secs [USecond; UMinute; UHour; UDay] = [1; 60; 3600; 86400].
Check C19.C19_byte_size : forall p u n,
  n * size_mult u < 2^64 -> byte_size p (Size u n) = Some (n * size_mult u).
