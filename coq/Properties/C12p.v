(** C12p — C12 on ALL trees of the public types. Properties/C12.v assumes a tree without
    explicit precedence / option nodes (the parser never returns such nodes, but the public
    constructors can build them). Here: exactly what [compile] returns on any tree. The code
    generator declares both kinds of node unreachable, so meeting one is a panic — and which
    of panic / error / success happens is decided by the FIRST stopping node in traversal order
    ([first_stop], Spec/Stops.v: left operand before right operand; a precedence node stops the
    traversal without being entered). Statements only; proofs are in Proofs/CompileStops.v. *)
From Coq Require Import List String NArith Bool.
From FP Require Import Model.Chars Model.Ast Model.Compile Spec.Tree Spec.Unsupported Spec.Stops.
From FP Require Import Proofs.CompileStops.
Import ListNotations.

(** for every tree, whatever the options and clock: a panic naming the site when a precedence
    or option node is met before any unsupported construct, the error naming the first
    unsupported construct when that is met first, success when neither is met *)
Theorem C12p_outcome : forall e o clk,
  match first_stop e with
  | Some (StopPanic site) => compile e o clk = CPanic site
  | Some (StopUnsupported k n) => compile e o clk = CErr k n
  | None => exists c, compile e o clk = COk c
  end.
Proof. exact compile_stops. Qed.

(** the same as three equivalences *)
Theorem C12p_panic_iff : forall e o clk site,
  compile e o clk = CPanic site <-> first_stop e = Some (StopPanic site).
Proof. exact compile_panic_iff. Qed.
Theorem C12p_err_iff : forall e o clk k n,
  compile e o clk = CErr k n <-> first_stop e = Some (StopUnsupported k n).
Proof. exact compile_err_iff. Qed.
Theorem C12p_ok_iff : forall e o clk,
  (exists c, compile e o clk = COk c) <-> first_stop e = None.
Proof. exact compile_ok_iff. Qed.

(** on the trees of C12 the first stop is the first unsupported construct: C12_exact is the
    restriction of C12p_outcome to those trees *)
Theorem C12p_extends_C12 : forall e, compilable_shape e = true ->
  first_stop e = match first_unsupported e with
                 | Some (k, n) => Some (StopUnsupported k n)
                 | None => None
                 end.
Proof. exact first_stop_shape. Qed.

(** a panic is never spurious: the site names a kind of node that does occur in the tree *)
Theorem C12p_panic_node : forall e site, first_stop e = Some (StopPanic site) ->
  (site = "Operator::Precedence: unreachable"%string /\ exists x, Subterm (EPrec x) e)
  \/ (site = "Expression::Global: unreachable"%string /\ exists g, Subterm (EGlobal g) e).
Proof. exact first_stop_panic. Qed.

(** the pinned instance, and the order of events: an unsupported construct to the LEFT of the
    node wins, one to the right or below a precedence node does not *)
Example C12p_example_prec :
  compile (EPrec (ETest TTrue)) default_options []
  = CPanic "Operator::Precedence: unreachable"%string.
Proof. reflexivity. Qed.
Example C12p_example_order :
  compile (EAnd (ETest TNoUser) (EPrec (ETest TTrue))) default_options []
    = CErr UnsupportedTest "NoUser"%string
  /\ compile (EAnd (EGlobal GDepth) (ETest TNoUser)) default_options []
    = CPanic "Expression::Global: unreachable"%string
  /\ compile (EOr (ETest TTrue) (ENot (EPrec (ETest TNoUser)))) default_options []
    = CPanic "Operator::Precedence: unreachable"%string
  /\ compile (EList (EAction APrint) (EGlobal (GThreads 2%N))) default_options []
    = CPanic "Expression::Global: unreachable"%string.
Proof. repeat split; reflexivity. Qed.
