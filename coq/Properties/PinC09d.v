(** The statement of C09d pinned by [Check name : statement]. *)
From Coq Require Import List String NArith Bool.
From FP Require Import Model.Chars Model.Ast Model.Sexp Model.Compile Spec.Tree Spec.TreeShape.
From FP Require Import Spec.FileRecord Spec.FindSem Spec.SchemePrelude Spec.PolicyCalls.
From FP Require Import Proofs.TreeHelpers Proofs.ImplicitPrint.
From FP Require Properties.C09d.
Import ListNotations.
Local Open Scope N_scope.

Check C09d.C09d_default_print_witness :
  let e := EAnd (EAction APrintNull) (EAction ADefaultPrint) in
  has_action e = true /\ no_default e = false /\ ~ parser_tree e
  /\ exists c, compile e default_options [] = COk c
       /\ c_framed c = true /\ c_iomap c = Some [(2, TStdout (Some 0))]
       /\ print (c_body c)
          = chars "(and (call-with-relative-path %lf3:print:2) (print-relative-path))"
       /\ atom_occurs prp (c_body c) = true
       /\ forall h, host_law h -> forall f,
            let os := [(DStdout, f_relative_path f, Some 0); (DStdout, f_relative_path f, Some 10)] in
            policy_outputs h c f = Some os
            /\ policy_calls c os = None
            /\ file_calls h c f = None
            /\ file_records h c f = None
            /\ ~ Forall (fun ou : output =>
                   exists i, In (i, target_of (fst (fst ou)) (snd ou)) [(2, TStdout (Some 0))]) os.
