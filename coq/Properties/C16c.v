(** C16 (link) — from the compiled program to the interleaving theorem.
    Statements only.  Spec/PolicyCalls.v reads the calls of a policy invocation on the shared
    output port off the outputs of its meaning ([sem_policy], C02) and the mode of the program;
    Spec/Interleave.v is the interleaving semantics of C16; proofs are in
    Proofs/PolicyDiscipline.v.  [parser_tree] (Spec/TreeShape.v) is what the parser returns
    (C03_tree_shape): in particular no explicit implicit-print action. *)
From Coq Require Import String List Arith NArith Bool Permutation.
From FP Require Import Model.Chars Model.Ast Model.Sexp Model.Compile
  Spec.TreeShape Spec.Resources Spec.Locking Spec.FileRecord Spec.FindSem Spec.SchemeSem
  Spec.SchemePrelude Spec.Interleave Spec.PolicyCalls.
From FP Require Import Proofs.ImplicitPrint.
From FP Require Proofs.PolicyDiscipline Proofs.Mutex.
Import ListNotations.
Local Open Scope N_scope.

(** * why the calls can be read off the outputs *)

(** plain mode: the port number read off the prelude is the default port of the final manager,
    its mutex is the next index; with a default port every binding is on that one pair, without
    one there are only matchers *)
Theorem C16c_default_port : forall e o clk c,
  compile e o clk = COk c -> c_framed c = false ->
  exists l, final_mgr e clk = Some (ML l)
    /\ plain_port c = option_map p_port (l_default l)
    /\ (forall p, l_default l = Some p ->
          p_mutex p = p_port p + 1 /\ forall b, In b (c_defs c) -> plain_shape p b)
    /\ (l_default l = None -> forall b, In b (c_defs c) -> is_matcher_binding b).
Proof. exact PolicyDiscipline.plain_port_spec. Qed.

(** plain mode with default port P: the unlocked (print-relative-path) does not occur in the
    policy, and every binding is port P, mutex P+1, (make-printer port:P mutex:P+1 term) or a
    matcher: every output was written by a printer that holds mutex P+1 around its writes *)
Theorem C16c_plain_pair : forall e o clk c P,
  parser_tree e -> compile e o clk = COk c -> c_framed c = false -> plain_port c = Some P ->
  atom_occurs prp (c_body c) = false
  /\ forall b, In b (c_defs c) -> plain_shape {| p_port := P; p_mutex := P + 1 |} b.
Proof. exact PolicyDiscipline.plain_pair. Qed.

(** plain mode without a default port: nothing but matchers is bound -- no port, no mutex, no
    printer -- so the only writer the policy can call is (print-relative-path) *)
Theorem C16c_bare : forall e o clk c,
  compile e o clk = COk c -> c_framed c = false -> plain_port c = None ->
  forall b, In b (c_defs c) -> is_matcher_binding b.
Proof. exact PolicyDiscipline.plain_bare. Qed.

(** ... and then either the expression has no action, the policy is
    (and <code> (print-relative-path)) (C09_added) and the implicit print is the one writer, or
    it has one and no invocation writes anything: the unguarded single-write call stands for the
    implicit print only *)
Theorem C16c_bare_silent : forall h e o clk c f,
  parser_tree e -> compile e o clk = COk c -> c_framed c = false -> plain_port c = None ->
  has_action e = true -> snd (fst (feval h (wrap e) clk f)) = [].
Proof. exact PolicyDiscipline.bare_outputs. Qed.

(** framed mode: [tag_of] inverts the io-map (each target is listed once), and the printer with
    tag i is (lambda (line) (%lf3:frame:2 line #\x<i>)); the frame procedure itself is pinned by
    C16_framed_frame_proc (port 0, mutex 1) *)
Theorem C16c_tag : forall e o clk c tbl,
  compile e o clk = COk c -> c_iomap c = Some tbl ->
  (forall t i, tag_of tbl t = Some i <-> In (i, t) tbl)
  /\ forall t i, tag_of tbl t = Some i -> In (framed_printer_binding i) (c_defs c).
Proof. exact PolicyDiscipline.tag_spec. Qed.

(** * one invocation *)
(** on every file where the expression is defined the policy runs without failure, its outputs
    [os] are those of find's rules, each output is one call, the calls obey the locking
    discipline of the program's guard, all address the one shared port, and their records are
    the records of the outputs, in order *)
Theorem C16c_policy : forall h, host_law h -> forall e o clk c f,
  parser_tree e -> compile e o clk = COk c -> ctime_free e = true -> defined e f = true ->
  exists os calls,
    policy_outputs h c f = Some os
    /\ os = snd (fst (feval h (wrap e) clk f))
    /\ policy_calls c os = Some calls
    /\ disciplined (guard_of c) calls
    /\ Forall (fun cl => call_port cl = out_port c) calls
    /\ all_some (map (record_of c) os) = Some (map call_record calls).
Proof. exact PolicyDiscipline.policy_discipline. Qed.

(** * a scan *)
(** any number of threads, thread i running the policy on the files [nth i files] one after the
    other: the program [prog] of the scan is defined; in every state reachable under any
    schedule every port holds whole records of the program (each call's at most once) followed
    by what the one thread inside a critical section on that port has written so far, and only
    the shared port is written at all; a final state holds exactly the records of all
    invocations, each once, in some order; and no state is stuck *)
Theorem C16_scan : forall h, host_law h -> forall e o clk c files,
  parser_tree e -> compile e o clk = COk c -> ctime_free e = true ->
  Forall (Forall (fun f => defined e f = true)) files ->
  exists prog recs,
    scan_prog h c files = Some prog
    /\ files_records h c (concat files) = Some recs
    /\ Forall (disciplined (guard_of c)) prog
    /\ forall st, steps (init prog) st ->
         (forall p, exists (done rest : list call) (partial : str),
             out st p = concat (map call_record done) ++ partial
             /\ Permutation (done ++ rest) (calls_on p (concat prog))
             /\ partial_on (guard_of c) prog st p partial)
         /\ (forall p, p <> out_port c -> out st p = [])
         /\ (final st -> exists rs, out st (out_port c) = concat rs /\ Permutation rs recs)
         /\ (~ final st -> exists st', step st st').
Proof. exact PolicyDiscipline.scan_whole. Qed.

(** * non-vacuity *)
Definition C16c_host : host :=
  {| fnmatch := fun _ p s => if plain_pattern p then str_eqb p s else true;
     streq_ci := str_eqb; xattr_match := fun _ _ _ => false; strftime_text := fun _ _ => [];
     dirname := fun s => s; type_char := fun _ => []; ratio_text := fun _ _ => [];
     ctime_text := fun _ => [] |}.
Definition C16c_file (name path : string) : file :=
  {| f_size := 1; f_mode := 33188; f_uid := 0; f_gid := 0; f_ino := 0; f_nlink := 1;
     f_atime := 0; f_ctime := 0; f_mtime := 0; f_blocks := 0; f_projid := 0;
     f_stripe_count := 0; f_stripe_size := 0; f_mirror_count := 0;
     f_name := chars name; f_relative_path := chars path; f_absolute_path := [];
     f_fid := chars "[1]"; f_user := []; f_group := []; f_mount_path := []; f_pools := [];
     f_xattrs := []; f_empty := true; f_executable := false; f_readable := false;
     f_writable := false |}.

Example C16c_host_law : host_law C16c_host.
Proof. intros p s Hp. cbn [fnmatch streq_ci C16c_host]. rewrite Hp. split; reflexivity. Qed.

(** plain mode, -name '*' -print -printf '%f\n': the matcher takes indices 0 and 1, so the shared
    port is 2 and its mutex 3; two threads, on files a, b and on file b; a complete schedule in
    which the sections of the two threads alternate, and a state in which thread 0 is inside its
    first section (path written, newline not yet) and thread 1 cannot take the mutex *)
Example C16c_example_plain :
  let e := EAnd (ETest (TName (chars "*")))
             (EAnd (EAction APrint) (EAction (APrintFormatted [EField FBasename; ESpecial XNewline]))) in
  let fa := C16c_file "a" "d/a" in let fb := C16c_file "b" "d/b" in
  let prog := [ [Crit 3 2 [chars "d/a"; [10]]; Crit 3 2 [chars "a" ++ [10]];
                 Crit 3 2 [chars "d/b"; [10]]; Crit 3 2 [chars "b" ++ [10]]];
                [Crit 3 2 [chars "d/b"; [10]]; Crit 3 2 [chars "b" ++ [10]]] ] in
  parser_tree e /\ ctime_free e = true
  /\ Forall (Forall (fun f => defined e f = true)) [[fa; fb]; [fb]]
  /\ exists c, compile e default_options [] = COk c /\ c_framed c = false
       /\ plain_port c = Some 2 /\ out_port c = 2%nat /\ guard_of c 2%nat = Some 3%nat
       /\ scan_prog C16c_host c [[fa; fb]; [fb]] = Some prog
       /\ files_records C16c_host c [fa; fb; fb]
          = Some [chars "d/a" ++ [10]; chars "a" ++ [10]; chars "d/b" ++ [10]; chars "b" ++ [10];
                  chars "d/b" ++ [10]; chars "b" ++ [10]]
       /\ (exists st, steps (init prog) st /\ final st
             /\ out st 2%nat = concat [chars "d/a" ++ [10]; chars "d/b" ++ [10]; chars "a" ++ [10];
                                       chars "b" ++ [10]; chars "d/b" ++ [10]; chars "b" ++ [10]])
       /\ (exists st, steps (init prog) st /\ ~ final st /\ out st 2%nat = chars "d/a"
             /\ in_section prog st 0 3 2 [chars "d/a"] [[10]] /\ Mutex.exec1 1 st = None).
Proof.
  intros e fa fb prog. split; [repeat constructor; discriminate|]. split; [reflexivity|].
  split; [repeat constructor|].
  eexists. split; [vm_compute; reflexivity|].
  do 6 (split; [vm_compute; reflexivity|]). split.
  - exists (match Mutex.exec [0;0;0;0; 1;1;1;1; 0;0;0; 1;1;1; 0;0;0;0;0;0;0]%nat (init prog) with
            | Some s => s | None => init prog end).
    split; [apply Mutex.exec_sound with (sched := [0;0;0;0; 1;1;1;1; 0;0;0; 1;1;1; 0;0;0;0;0;0;0]%nat);
            vm_compute; reflexivity|].
    split; [vm_compute; repeat constructor|vm_compute; reflexivity].
  - exists (match Mutex.exec [0;0]%nat (init prog) with Some s => s | None => init prog end).
    split; [apply Mutex.exec_sound with (sched := [0;0]%nat); vm_compute; reflexivity|].
    split; [intros H; vm_compute in H; inversion H; discriminate|].
    split; [vm_compute; reflexivity|].
    split; [|vm_compute; reflexivity].
    exists [], [Crit 3 2 [chars "a" ++ [10]]; Crit 3 2 [chars "d/b"; [10]]; Crit 3 2 [chars "b" ++ [10]]].
    split; vm_compute; reflexivity.
Qed.

(** framed mode, -fprint0 out -print-file-fid: file "out"/NUL has tag 2, standard output/newline
    tag 3; every output is framed on port 0 under mutex 1 *)
Example C16c_example_framed :
  let e := EAnd (EAction (AFilePrintNull (chars "out"))) (EAction APrintFid) in
  let fa := C16c_file "a" "d/a" in let fb := C16c_file "b" "d/b" in
  parser_tree e /\ ctime_free e = true
  /\ Forall (Forall (fun f => defined e f = true)) [[fa]; [fb]]
  /\ exists c, compile e default_options [] = COk c /\ c_framed c = true
       /\ c_iomap c = Some [(2, TFile (chars "out") (Some 0)); (3, TStdout (Some 10))]
       /\ out_port c = 0%nat /\ guard_of c 0%nat = Some 1%nat
       /\ scan_prog C16c_host c [[fa]; [fb]]
          = Some [ [Crit 1 0 [chars "d/a"; [30; 2]]; Crit 1 0 [chars "[1]"; [30; 3]]];
                   [Crit 1 0 [chars "d/b"; [30; 2]]; Crit 1 0 [chars "[1]"; [30; 3]]] ]
       /\ files_records C16c_host c [fa; fb]
          = Some [chars "d/a" ++ [30; 2]; chars "[1]" ++ [30; 3]; chars "d/b" ++ [30; 2];
                  chars "[1]" ++ [30; 3]].
Proof.
  intros e fa fb. split; [repeat constructor; discriminate|]. split; [reflexivity|].
  split; [repeat constructor|].
  eexists. split; [vm_compute; reflexivity|]. repeat split; vm_compute; reflexivity.
Qed.

(** no action, -name '*': the implicit print writes each line in one unguarded write; no port is
    bound, the guard is empty *)
Example C16c_example_bare :
  let e := ETest (TName (chars "*")) in
  let fa := C16c_file "a" "d/a" in let fb := C16c_file "b" "d/b" in
  parser_tree e
  /\ exists c, compile e default_options [] = COk c /\ c_framed c = false
       /\ plain_port c = None /\ (forall p, guard_of c p = None)
       /\ scan_prog C16c_host c [[fa; fb]; [fb]]
          = Some [ [Atomic 0 (chars "d/a" ++ [10]); Atomic 0 (chars "d/b" ++ [10])];
                   [Atomic 0 (chars "d/b" ++ [10])] ].
Proof.
  intros e fa fb. split; [repeat constructor|].
  eexists. split; [vm_compute; reflexivity|]. repeat split; vm_compute; reflexivity.
Qed.

(** why [parser_tree] is assumed: a tree with an EXPLICIT implicit-print action next to a printer
    (the parser never returns one, C03_tree_shape) compiles to a policy that calls the unlocked
    (print-relative-path) although port 0 is guarded by mutex 1 *)
Example C16c_needs_parser_tree :
  let e := EAnd (EAction APrint) (EAction ADefaultPrint) in
  ~ parser_tree e
  /\ exists c, compile e default_options [] = COk c /\ c_framed c = false
       /\ plain_port c = Some 0 /\ atom_occurs prp (c_body c) = true.
Proof.
  intros e. split.
  - intro H. inversion H as [| | |a b Ha Hb| |]; subst. inversion Hb as [|a' Hne| | | |]; subst.
    now apply Hne.
  - eexists. repeat split; vm_compute; reflexivity.
Qed.
