(** C09d — why C09_not_added assumes [no_default e] and C16c/C16d assume [parser_tree e]: trees
    built through the public constructors may contain the internal action ADefaultPrint (the
    parser never returns it, C03_tree_shape).  Next to a printer that needs frames the tree has an
    action, so the program is framed and nothing is added, yet its body calls the unframed,
    unlocked (print-relative-path): on every file the policy writes the path newline-terminated to
    stdout, a target that is not in the io-map, so the output has no route ([policy_calls] is None,
    no record exists for it) and the conclusions of C09_not_added, C16d_framed_routed and
    C16d_policy do not hold of this tree.
    Statement only; proof in Proofs/SmallPins2.v. *)
From Coq Require Import List String NArith Bool.
From FP Require Import Model.Chars Model.Ast Model.Sexp Model.Compile Spec.Tree Spec.TreeShape.
From FP Require Import Spec.FileRecord Spec.FindSem Spec.SchemePrelude Spec.PolicyCalls.
From FP Require Import Proofs.TreeHelpers Proofs.ImplicitPrint.
From FP Require Proofs.SmallPins2 Properties.C16c.
Import ListNotations.
Local Open Scope N_scope.

Theorem C09d_default_print_witness :
  let e := EAnd (EAction APrintNull) (EAction ADefaultPrint) in
  has_action e = true /\ no_default e = false /\ ~ parser_tree e
  /\ exists c, compile e default_options [] = COk c
       /\ c_framed c = true /\ c_iomap c = Some [(2, TStdout (Some 0))]
       /\ print (c_body c)
          = chars "(and (call-with-relative-path %lf3:print:2) (print-relative-path))"
       /\ atom_occurs prp (c_body c) = true
       /\ forall h, host_law h -> forall f,
            let os := [(DStdout, f_relative_path f, Some 0); (DStdout, f_relative_path f, Some 10)] in
            policy_outputs h c f = Some os
            /\ policy_calls c os = None
            /\ file_calls h c f = None
            /\ file_records h c f = None
            /\ ~ Forall (fun ou : output =>
                   exists i, In (i, target_of (fst (fst ou)) (snd ou)) [(2, TStdout (Some 0))]) os.
Proof. exact SmallPins2.default_print_witness. Qed.

(** the hypothesis [host_law h] is inhabited *)
Example C09d_host : host_law C16c.C16c_host.
Proof. exact C16c.C16c_host_law. Qed.
