(** The statements of C16d pinned by [Check name : statement]: a theorem cannot be weakened
    without this file failing to compile. *)
From Coq Require Import String List Arith NArith Bool Permutation.
From FP Require Import Model.Chars Model.Ast Model.Sexp Model.Compile
  Spec.TreeShape Spec.FileRecord Spec.FindSem Spec.SchemeSem
  Spec.SchemePrelude Spec.Interleave Spec.PolicyCalls.
From FP Require Properties.C16d.
Import ListNotations.
Local Open Scope N_scope.

Check C16d.C16d_plain_stdout : forall h e o clk c f os,
  compile e o clk = COk c -> c_framed c = false -> policy_outputs h c f = Some os ->
  Forall (fun ou : output => fst (fst ou) = DStdout) os.
Check C16d.C16d_framed_routed : forall h e o clk c f os tbl,
  parser_tree e -> compile e o clk = COk c -> c_framed c = true -> c_iomap c = Some tbl ->
  policy_outputs h c f = Some os ->
  Forall (fun ou : output => exists i, In (i, target_of (fst (fst ou)) (snd ou)) tbl) os.
Check C16d.C16d_policy : forall e o clk c,
  parser_tree e -> compile e o clk = COk c ->
  forall h f os, policy_outputs h c f = Some os ->
  exists calls,
    policy_calls c os = Some calls
    /\ disciplined (guard_of c) calls
    /\ Forall (fun cl => call_port cl = out_port c) calls
    /\ all_some (map (record_of c) os) = Some (map call_record calls).
Check C16d.C16d_policy_sem : forall e o clk c,
  parser_tree e -> compile e o clk = COk c ->
  forall h f r, sem_policy h c f = Some r ->
  exists calls,
    policy_calls c (snd (fst r)) = Some calls
    /\ disciplined (guard_of c) calls
    /\ Forall (fun cl => call_port cl = out_port c) calls
    /\ all_some (map (record_of c) (snd (fst r))) = Some (map call_record calls).
Check C16d.C16d_scan : forall h e o clk c files,
  parser_tree e -> compile e o clk = COk c ->
  Forall (Forall (fun f => exists r, sem_policy h c f = Some r)) files ->
  exists prog recs,
    scan_prog h c files = Some prog
    /\ files_records h c (concat files) = Some recs
    /\ Forall (disciplined (guard_of c)) prog
    /\ forall st, steps (init prog) st ->
         (forall p, exists (done rest : list call) (partial : str),
             out st p = concat (map call_record done) ++ partial
             /\ Permutation (done ++ rest) (calls_on p (concat prog))
             /\ partial_on (guard_of c) prog st p partial)
         /\ (forall p, p <> out_port c -> out st p = [])
         /\ (final st -> exists rs, out st (out_port c) = concat rs /\ Permutation rs recs)
         /\ (~ final st -> exists st', step st st').
Check C16d.C16d_scan_defined : forall h c files prog,
  scan_prog h c files = Some prog ->
  Forall (Forall (fun f => exists r, sem_policy h c f = Some r)) files.
