(** The statements of C18q pinned by [Check name : statement]: a theorem cannot be weakened
    without this file failing to compile. *)
From Coq Require Import List String NArith Bool.
From FP Require Import Model.Chars Model.Parse.
From FP Require Import Spec.Messages Spec.Quoting.
From FP Require Properties.C18q.
Import ListNotations.
Local Open Scope N_scope.

Check C18q.C18_quotes_only_input : forall s m,
  parse s = ParseErr m ->
  (exists W, m = chars "Syntax error: Unexpected token: `" ++ W ++ chars "`" /\ substring W s)
  \/ (exists W k K E,
        m = chars "Syntax error: Failed to parse argument `" ++ W ++ chars "` of "
              ++ chars (kind_text k) ++ chars " `" ++ K ++ chars "`" ++ E
        /\ substring W s /\ substring K s /\ K <> [] /\ no_backquote K /\ no_backquote E).

Check C18q.explain_table_unquoted :
  forallb (fun d => forallb (fun c => negb (c =? 96)) (chars (explain d))) explain_keys = true.

Check C18q.explain_keys_complete : forall d, ~ In d explain_keys -> explain d = d.
