(** The statements of C15c pinned by [Check name : statement]. *)
From Coq Require Import List NArith String.
From FP Require Import Model.Chars Model.Ast Model.Sexp Model.Compile.
From FP Require Import Spec.ClockForm Spec.ClockMask.
From FP Require Properties.C15c.
Import ListNotations.
Local Open Scope N_scope.

Check C15c.C15c_time_form_masked : forall now1 now2 c,
  mask_clock (compile_time now1 "atime" c) = mask_clock (compile_time now2 "atime" c)
  /\ mask_clock (compile_time now1 "ctime" c) = mask_clock (compile_time now2 "ctime" c)
  /\ mask_clock (compile_time now1 "mtime" c) = mask_clock (compile_time now2 "mtime" c).
Check C15c.C15c_same_but_clock : forall e o c1 c2,
  same_but_clock (compile e o c1) (compile e o c2).
Check C15c.C15c_two_clocks_ok : forall e o c1 c2 p1 p2,
  compile e o c1 = COk p1 -> compile e o c2 = COk p2 ->
  c_framed p1 = c_framed p2 /\ c_defs p1 = c_defs p2 /\ c_init p1 = c_init p2
  /\ c_fini p1 = c_fini p2 /\ c_threads p1 = c_threads p2 /\ c_iomap p1 = c_iomap p2
  /\ mask_clock (c_body p1) = mask_clock (c_body p2).
Check C15c.C15c_two_clocks_class : forall e o c1 c2,
  (forall p1, compile e o c1 = COk p1 -> exists p2, compile e o c2 = COk p2)
  /\ (forall k n, compile e o c1 = CErr k n -> compile e o c2 = CErr k n)
  /\ (forall s, compile e o c1 = CPanic s -> compile e o c2 = CPanic s).
Check C15c.C15c_readings_bounded : forall e o clk c lo hi,
  compile e o clk = COk c ->
  (count_time_tests e <= List.length clk)%nat ->
  Forall (fun t => lo <= t <= hi) clk ->
  Forall (fun t => lo <= t <= hi) (clock_readings (c_body c)).
Check C15c.C15c_readings_count : forall e o clk c,
  compile e o clk = COk c ->
  (count_time_tests e <= List.length clk)%nat ->
  List.length (clock_readings (c_body c)) = count_time_tests e.
