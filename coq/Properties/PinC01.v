From Coq Require Import List.
From FP Require Import Model.Ast Model.Lex Model.Prec Spec.Grammar.
From FP Require Properties.C01.
Import ListNotations.
Check C01.C01_tokens : forall ts e, prec_parser ts = Some e <-> GList ts e.
Check C01.C01_unique : forall ts e1 e2, GList ts e1 -> GList ts e2 -> e1 = e2.
Check C01.C01_no_prefix : forall pre suf e,
  GList pre e -> (forall e', ~ GList (pre ++ suf) e') -> prec_parser (pre ++ suf) = None.
