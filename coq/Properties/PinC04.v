(** The statements of C04 pinned by [Check name : statement]: a theorem cannot be weakened
    without this file failing to compile. *)
From Coq Require Import List String NArith Bool.
From FP Require Import Model.Chars Model.Ast Model.Sexp Model.Compile
  Spec.GuileReader Spec.SexpContext Spec.GuileFormat Proofs.UserStrings.
From FP Require Properties.C04.
Import ListNotations.
Local Open Scope N_scope.

Check C04.C04_reads_back : forall e o clk c mdt,
  compile e o clk = COk c ->
  read_all (scheme_text c mdt) = Some [erase (fst (render c mdt)); erase (snd (render c mdt))].
Check C04.C04_string_roundtrip : forall u,
  erase (lstr u) = SStr u
  /\ read_all (print (lstr u)) = Some [SStr u]
  /\ forall cur stk rest,
       run MTop cur stk (print (lstr u) ++ rest) = run MTop (SStr u :: cur) stk rest.
Check C04.C04_device_path_only : forall c, exists k : ctx, forall mdt,
  fst (render c mdt) = fst (render c [])
  /\ erase (snd (render c mdt)) = plug k (SStr mdt).
Check C04.C04_user_strings :
  (forall idx pat ci,
     erase (matcher_binding idx pat ci)
     = SList [erase (ident "match" (idx + 1));
              SList [sym "lambda"; SList [erase (ident "str" idx)];
                     SList [sym (matcher_name pat ci); SStr pat; erase (ident "str" idx)]]])
  /\ (forall p s, erased_test (TPool p) s
                  = Some (SList [sym "member"; SStr p; SList [sym "lov-pools"]]))
  /\ (forall f s, erased_test (TXattr f) s = Some (SList [sym "xattr?"; SStr f]))
  /\ (forall f v s, erased_test (TXattrMatch f v) s
                    = Some (if xattr_offending f || xattr_offending v
                            then SList [sym "xattr-match?"; SStr f; SStr v]
                            else SList [sym "equal?"; SList [sym "xattr-ref-string"; SStr f]; SStr v]))
  /\ (forall a, option_map erase (snippet (FXAttr a))
                = Some (SList [sym "or"; SList [sym "xattr-ref-string"; SStr a]; SStr []]))
  /\ (forall f m, assoc str_eqb f (l_files m) = None ->
        map erase (l_vars (snd (l_init_file_port f m)))
        = map erase (l_vars m)
          ++ [SList [erase (ident "port" (l_idx m)); SList [sym "open-file"; SStr f; SStr [119]]];
              SList [erase (ident "mutex" (l_idx m + 1)); SList [sym "make-mutex"]]]).
Check C04.C04_template_literal : forall t,
  elem_piece (ELit t) = COk (PLit (double_tilde t))
  /\ piece_value (PLit (double_tilde t)) = double_tilde t
  /\ format_literal_value (double_tilde t) = t
  /\ format_tokens (double_tilde t) = Some (map FChar t).
Check C04.C04_template_pieces : forall fmt ps,
  template fmt = COk ps -> Forall2 (fun el p => elem_piece el = COk p) fmt ps.
