(** The statements of C02 pinned by [Check name : statement]: a theorem cannot be weakened
    without this file failing to compile. *)
From Coq Require Import List String NArith ZArith Bool.
From FP Require Import Model.Chars Model.Ast Model.Sexp Model.Compile
  Spec.Unsupported Spec.GuileReader Spec.FileRecord Spec.FindSem Spec.SchemeSem Spec.SchemeEnv
  Spec.SchemePrelude Proofs.PreludeSound.
From FP Require Properties.C02.
Import ListNotations.
Local Open Scope N_scope.

Check C02.C02_valid : forall h, host_law h -> forall e s x s' mf env f,
  compile_expr e s = COk (x, s') ->
  ctime_free e = true -> defined e f = true ->
  mgr_le (st_mgr s') mf -> env_agrees env mf ->
  sem_bool h env (erase x) f = Some (feval h e (st_clock s) f).

Check C02.C02_valid_supported : forall h, host_law h -> forall e s,
  first_unsupported e = None -> compilable_shape e = true ->
  exists x s', compile_expr e s = COk (x, s')
    /\ forall mf env f, ctime_free e = true -> defined e f = true ->
         mgr_le (st_mgr s') mf -> env_agrees env mf ->
         sem_bool h env (erase x) f = Some (feval h e (st_clock s) f).

Check C02.C02_compile_env : forall h, host_law h -> forall e o clk c mf env f,
  compile e o clk = COk c -> ctime_free e = true -> defined e f = true ->
  final_mgr e clk = Some mf -> env_agrees env mf ->
  sem_bool h env (erase (c_body c)) f = Some (feval h (wrap e) clk f).

Check C02.C02_compile : forall h, host_law h -> forall e o clk c f,
  compile e o clk = COk c -> ctime_free e = true -> defined e f = true ->
  sem_policy h c f = Some (feval h (wrap e) clk f).

Check C02.C02_text : forall h, host_law h -> forall e o clk c f mdt,
  compile e o clk = COk c -> ctime_free e = true -> defined e f = true ->
  exists forms, read_all (scheme_text c mdt) = Some forms
                /\ sem_forms h (c_iomap c) forms f = Some (feval h (wrap e) clk f).

Check C02.C02_ctime_refuted : forall h f,
  let e := EAction (APrintFormatted [EField FAccess; ESpecial XNewline]) in
  exists c, compile e default_options [] = COk c
    /\ sem_policy h c f = Some (true, [(DStdout, print_dec (f_atime f) ++ [10], None)], false)
    /\ feval h (wrap e) [] f = (true, [(DStdout, ctime_text h (f_atime f) ++ [10], None)], false).

Check C02.C02_sparseness_zero_fails : forall h f, f_size f = 0 ->
  let e := EAction (APrintFormatted [EField FSparseness; ESpecial XNewline]) in
  exists c, compile e default_options [] = COk c /\ defined e f = false /\ sem_policy h c f = None.
