(** The statements of C04s pinned by [Check name : statement]. *)
From Coq Require Import List NArith Bool.
From FP Require Import Model.Chars Model.Ast Model.Sexp Model.Compile Spec.Blank.
From FP Require Properties.C04s.
Import ListNotations.
Local Open Scope N_scope.

Check C04s.C04s_positions : forall e1 e2 o clk c1,
  same_shape_pos e1 e2 -> compile e1 o clk = COk c1 ->
  exists c2, compile e2 o clk = COk c2 /\ same_structure_by blank c1 c2.
Check C04s.C04s_structure : forall e1 e2 o clk c1,
  same_shape e1 e2 -> compile e1 o clk = COk c1 ->
  exists c2, compile e2 o clk = COk c2 /\ same_structure_by blank c1 c2.
Check C04s.C04s_structure_atoms : forall e1 e2 o clk c1,
  same_shape_pat e1 e2 -> compile e1 o clk = COk c1 ->
  exists c2, compile e2 o clk = COk c2 /\ same_structure_by blank_strings c1 c2.
Check C04s.C04s_pos_shape : forall e1 e2, same_shape_pos e1 e2 -> same_shape e1 e2.
Check C04s.C04s_refl : forall e, same_shape e e.
