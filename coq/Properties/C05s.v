(** C05s — Soundness of the tokenizer with respect to the vocabulary (the converse of C05):
    whatever the model ACCEPTS — as an argument, as a primary, as a whole input — is a word, a
    word group, a sentence of the specification, consumed exactly.
    Statements only; proofs are in Proofs/ArgSound.v, TokenSound.v, SentenceSound.v,
    SoundRefuted.v.  Vocabulary: Spec/Vocabulary.v ([Primary ws l], the argument languages),
    Spec/Surface.v (gaps, [weave], sentences, [render]) and Spec/Accepted.v ([stray_word],
    [stray_quote]; [readable_sentence] = [wf_sentence] with the [self_delimiting] clause of
    [tight_ok] dropped).

    Two expected statements are REFUTED (findings):
    - an opening quote character that never recurs in the input does not make the word an
      error: the word is read UNQUOTED, quote included ("-name 'abc" is -name with the pattern
      'abc).  [WordArg] has no such word, so soundness holds only up to [stray_quote];
    - a one-character operator may directly follow a closing quote ("-name 'a'!-true"), which
      [wf_sentence] forbids: accepted inputs are [readable_sentence]s, not all [wf_sentence]s. *)
From Coq Require Import List String NArith Bool.
From FP Require Import Model.Chars Model.Winnow Model.Ast Model.Args Model.Perm Model.Format Model.Lex Model.Parse.
From FP Require Import Spec.Decimal Spec.Numeric Spec.Chmod Spec.PermWord Spec.FormatSpec.
From FP Require Import Spec.Vocabulary Spec.Surface Spec.Accepted.
From FP Require Import Proofs.ArgSound Proofs.TokenSound Proofs.SentenceSound Proofs.SoundRefuted.
Import ListNotations.
Local Open Scope N_scope.

(** ** Argument languages *)

(** a string argument: a word of [WordArg] spelling the value, or a stray-quote word standing
    for itself *)
Theorem C05s_string : forall i v r,
  parse_string i = (Ok v, r) ->
  exists w, i = w ++ r /\ (WordArg w v \/ (w = v /\ stray_word w r)).
Proof. exact parse_string_sound. Qed.

(** REFUTED: "every accepted string argument is a word of [WordArg]" *)
Theorem C05s_string_refuted :
  parse_string (chars "'abc") = (Ok (chars "'abc"), [])
  /\ ~ exists w, WordArg w (chars "'abc") /\ chars "'abc" = w ++ [].
Proof. exact string_sound_refuted. Qed.

(** counts, with or without the sign of a comparison *)
Theorem C05s_count : forall bound i n r,
  parse_uint bound i = (Ok n, r) -> exists w, i = w ++ r /\ Count bound w n.
Proof. exact count_sound. Qed.
Theorem C05s_cmp : forall T (d : sparser T) (Inner : str -> T -> Prop),
  (forall i v r, d i = (Ok v, r) -> exists w, i = w ++ r /\ Inner w v) ->
  forall i c r, parse_cmp d i = (Ok c, r) -> exists w, i = w ++ r /\ CmpArg Inner w c.
Proof. exact (@cmp_sound). Qed.
(** sizes and times *)
Theorem C05s_size : forall i v r, parse_size i = (Ok v, r) -> exists w, i = w ++ r /\ SizeArg w v.
Proof. exact size_sound. Qed.
Theorem C05s_time : forall dflt i v r,
  parse_time dflt i = (Ok v, r) -> exists w, i = w ++ r /\ TimeArg dflt w v.
Proof. exact time_sound. Qed.
(** type lists *)
Theorem C05s_types : forall i ts r,
  parse_filetypes i = (Ok ts, r) -> exists w, i = w ++ r /\ TypeList w ts.
Proof. exact filetypes_sound. Qed.
(** -perm: the value of the word is in the -perm language (octal of three or more digits and
    at most 07777, or a prefix and a rendered clause list), entirely ... *)
Theorem C05s_perm_value : forall v k b r, perm_word v = (Ok (k, b), r) -> r = [] /\ PermArg v k b.
Proof. exact perm_word_sound. Qed.
(** ... and the word itself is a word of [WordArg] (never a stray-quote word) *)
Theorem C05s_perm : forall i k b r,
  parse_perm_arg i = (Ok (k, b), r) -> exists w v, i = w ++ r /\ WordArg w v /\ PermArg v k b.
Proof. exact perm_arg_sound. Qed.
(** formats *)
Theorem C05s_format : forall i fmt r,
  parse_format_arg i = (Ok fmt, r) ->
  exists w v, i = w ++ r /\ (WordArg w v \/ (w = v /\ stray_word w r)) /\ Seg v fmt.
Proof. exact format_arg_sound. Qed.

(** ** Tokens *)

(** whatever the token parser accepts as a primary is the weaving, with non-empty blank gaps,
    of words that denote exactly that leaf, consumed exactly, and a word end follows — or the
    input has a stray quote.  All 40 tests, 11 actions and the options. *)
Theorem C05s_token : forall i l r,
  parse_token i = (Ok (KPrim l), r) ->
  at_word_end r /\
  ((exists ws gaps, Primary ws l /\ gaps_for ws gaps /\ i = weave ws gaps ++ r) \/ stray_quote i).
Proof. exact token_primary_sound. Qed.
Theorem C05s_token_clean : forall i l r,
  ~ stray_quote i -> parse_token i = (Ok (KPrim l), r) ->
  exists ws gaps, Primary ws l /\ gaps_for ws gaps /\ i = weave ws gaps ++ r /\ at_word_end r.
Proof. exact token_primary_clean. Qed.
(** REFUTED: the same without the [stray_quote] alternative *)
Theorem C05s_token_refuted :
  parse_token (chars "-name 'abc") = (Ok (KPrim (LTest (TName (chars "'abc")))), [])
  /\ ~ exists ws gaps, Primary ws (LTest (TName (chars "'abc"))) /\ gaps_for ws gaps
                       /\ chars "-name 'abc" = weave ws gaps ++ [].
Proof. exact token_sound_refuted. Qed.

(** any other token is one of the eight operator words; -a -and -o -or stand at the end of the
    input or take the following blanks with them *)
Theorem C05s_operator : forall i t r,
  parse_token i = (Ok t, r) -> (forall l, t <> KPrim l) ->
  exists o g, t = op_token o /\ i = op_text o ++ g ++ r /\
    if single_char o then g = [] else (g = [] /\ r = []) \/ (gap g /\ stops is_space r).
Proof. exact token_operator_sound. Qed.

(** ** Sentences *)

(** whatever the lexer accepts is, entirely, the rendering of a readable sentence with exactly
    those tokens *)
Theorem C05s_lex : forall i ts r,
  lex i = (Ok ts, r) ->
  r = [] /\ (stray_quote i \/ exists st, readable_sentence st /\ render st = i /\ tokens_of st = ts).
Proof. exact lex_sound. Qed.

(** every accepted input is the rendering of a readable sentence: every primary in it is a
    word group of the vocabulary, and everything between the word groups is blank *)
Theorem C05s_parse : forall s o e,
  parse s = ParseOk o e -> stray_quote s \/ exists st, readable_sentence st /\ render st = s.
Proof. exact parse_sound. Qed.
Theorem C05s_parse_clean : forall s o e,
  ~ stray_quote s -> parse s = ParseOk o e -> exists st, readable_sentence st /\ render st = s.
Proof. exact parse_clean. Qed.
(** in particular for inputs without any quote character *)
Theorem C05s_no_quote : forall s, (forall c, In c s -> ~ Quote c) -> ~ stray_quote s.
Proof. exact no_quote_clean. Qed.

(** readable is weaker than well-formed ... *)
Theorem C05s_wf_readable : forall st, wf_sentence st -> readable_sentence st.
Proof. exact wf_readable. Qed.
(** ... strictly.  REFUTED: "every accepted input is the rendering of a [wf_sentence]" *)
Theorem C05s_wf_sentence_refuted :
  parse (chars "-name 'a'!-true")
  = ParseOk default_options (EAnd (ETest (TName (chars "a"))) (ENot (ETest TTrue)))
  /\ forall st, wf_sentence st -> render st <> chars "-name 'a'!-true".
Proof. exact wf_sentence_refuted. Qed.

(** ** Non-vacuity *)
Example C05s_example_stray :
  stray_quote (chars "-name 'abc")
  /\ parse (chars "-name 'abc") = ParseOk default_options (ETest (TName (chars "'abc")))
  /\ parse (chars "-printf 'abc") = ParseOk default_options (EAction (APrintFormatted [ELit (chars "'abc")])).
Proof. split; [exact stray_quote_example|]. split; vm_compute; reflexivity. Qed.

Example C05s_example_readable :
  readable_sentence tight_sentence /\ render tight_sentence = chars "-name 'a'!-true"
  /\ ~ wf_sentence tight_sentence.
Proof. exact tight_sentence_readable. Qed.

Example C05s_example_token :
  parse_token (chars "-xattr-match  'a b'	c)") = (Ok (KPrim (LTest (TXattrMatch (chars "a b") (chars "c")))), chars ")")
  /\ parse_token (chars "-perm -u+rw,g-x x") = (Ok (KPrim (LTest (TPerm PAtLeast 384))), chars " x")
  /\ parse_token (chars "-type f,d,l(") = (Ok (KPrim (LTest (TType [FFile; FDirectory; FLink]))), chars "(").
Proof. repeat split; vm_compute; reflexivity. Qed.
