(** E2E — End to end: from the TEXT the user types to the MEANING of the TEXT the library emits;
    and the round trip of the glue of the correspondence harness.
    Statements only; proofs are in Proofs/EndToEnd.v (a composition of C02, C03, C04, C06, C12,
    C13, C20 — nothing new about the model) and Proofs/GlueRoundTrip.v.
    Vocabulary: Spec/Written.v, Spec/Surface.v (the input as written and its layout),
    Spec/Unsupported.v ([first_unsupported]), Spec/FindSem.v ([feval], [defined], [ctime_free]),
    Spec/GuileReader.v ([read_all]), Spec/SchemePrelude.v ([sem_forms]), Spec/Glue.v
    ([mask_perm], [perm_bits_small]); [scan_call] (Proofs/RenderFacts.v) gives the arguments of
    the scan call of the second emitted form; [opts_for gs] (Proofs/LexSentence.v) is the options
    record of the options [gs]: -depth if any, the last -threads if any. *)
From Coq Require Import List String NArith ZArith Bool.
From FP Require Import Model.Chars Model.Ast Model.Sexp Model.Parse Model.Compile Model.Ser.
From FP Require Import Spec.Surface Spec.Written Spec.Unsupported Spec.GuileReader Spec.FileRecord
  Spec.FindSem Spec.SchemePrelude Spec.Glue.
From FP Require Import Proofs.RenderFacts Proofs.LexSentence Proofs.SurfaceExamples
  Proofs.EndToEnd Proofs.GlueRoundTrip.
Import ListNotations.
Local Open Scope N_scope.

(** for every host satisfying the one assumed law, every input as written with any well-formed
    layout (the hypotheses of C06_written), every clock, device path and file record: if the
    tree denoted has no unsupported construct, no %a %c %t (finding D17) and is defined on the
    file, then the text parses to the options and the tree written, that tree compiles, the
    emitted text reads back as two forms whose meaning on the file is what find's rules give for
    the tree (with the implicit print), the device argument of the scan call is the string node
    of the path given, and its thread argument is the count requested last, or the default *)
Theorem E2E_text_to_meaning : forall h, host_law h -> forall w bs tr clk mdt f,
  written_ok w -> List.length bs = List.length (written_items w) ->
  wf_sentence (written_sentence w bs tr) ->
  first_unsupported (written_tree w) = None ->
  ctime_free (written_tree w) = true -> defined (written_tree w) f = true ->
  parse (Surface.render (written_sentence w bs tr))
    = ParseOk (opts_for (written_opts w)) (written_tree w)
  /\ exists c, compile (written_tree w) (opts_for (written_opts w)) clk = COk c
     /\ exists p0 p1,
          read_all (scheme_text c mdt) = Some [p0; p1]
          /\ sem_forms h (c_iomap c) [p0; p1] f = Some (feval h (wrap (written_tree w)) clk f)
          /\ option_map (@hd sexp (SList [])) (scan_call p1) = Some (SStr mdt)
          /\ option_map (fun args => nth 4 args (SList [])) (scan_call p1)
             = Some match opt_threads (opts_for (written_opts w)) with
                    | Some n => SAtom (print_dec n)
                    | None => SList [SAtom (chars "lipe-getopt-thread-count")]
                    end.
Proof. exact e2e_text_to_meaning. Qed.

(** the same with the dependencies made explicit: the compiled program depends on neither the
    device path nor the file, the forms read back not on the file; and parsing, compiling and
    reading back need neither [ctime_free] nor [defined] *)
Theorem E2E_text_to_meaning_uniform : forall h, host_law h -> forall w bs tr clk,
  written_ok w -> List.length bs = List.length (written_items w) ->
  wf_sentence (written_sentence w bs tr) ->
  first_unsupported (written_tree w) = None ->
  parse (Surface.render (written_sentence w bs tr))
    = ParseOk (opts_for (written_opts w)) (written_tree w)
  /\ exists c, compile (written_tree w) (opts_for (written_opts w)) clk = COk c
     /\ forall mdt, exists p0 p1,
          read_all (scheme_text c mdt) = Some [p0; p1]
          /\ option_map (@hd sexp (SList [])) (scan_call p1) = Some (SStr mdt)
          /\ option_map (fun args => nth 4 args (SList [])) (scan_call p1)
             = Some match opt_threads (opts_for (written_opts w)) with
                    | Some n => SAtom (print_dec n)
                    | None => SList [SAtom (chars "lipe-getopt-thread-count")]
                    end
          /\ forall f, ctime_free (written_tree w) = true -> defined (written_tree w) f = true ->
               sem_forms h (c_iomap c) [p0; p1] f = Some (feval h (wrap (written_tree w)) clk f).
Proof. exact e2e_text_to_meaning_uniform. Qed.

(** an input as written whose tree has an unsupported construct parses as above and is refused
    by the compiler with the first such construct, named *)
Theorem E2E_unsupported : forall w bs tr clk k n,
  written_ok w -> List.length bs = List.length (written_items w) ->
  wf_sentence (written_sentence w bs tr) ->
  first_unsupported (written_tree w) = Some (k, n) ->
  parse (Surface.render (written_sentence w bs tr))
    = ParseOk (opts_for (written_opts w)) (written_tree w)
  /\ compile (written_tree w) (opts_for (written_opts w)) clk = CErr k n.
Proof. exact e2e_unsupported. Qed.

(** ALL input strings (not only inputs as written), all clocks: a parse error with a non-empty
    message, or a tree that is refused with a non-empty message or compiles to a program whose
    text, for every device path, reads back as exactly two forms *)
Theorem E2E_total : forall s clk,
  (exists m, parse s = ParseErr m /\ m <> []) \/
  (exists o e, parse s = ParseOk o e /\
     ((exists k n, compile e o clk = CErr k n /\ compile_error_text k n <> []) \/
      (exists c, compile e o clk = COk c /\
         forall mdt, exists p0 p1, read_all (scheme_text c mdt) = Some [p0; p1]))).
Proof. exact pipeline_reads_back. Qed.

(** ** The glue of the correspondence harness (Model/Ser.v) *)
(** reading the tokens of a serialised tree gives the tree back with the bits of every -perm
    test truncated to 32 bits (the width of [Mode]; the harness keeps every bit with [Mode::from_bits_retain]) — for ALL trees, format
    strings included: no side condition on the numbers, the strings or the list lengths *)
Theorem E2E_glue_roundtrip : forall e,
  read_expr (Ser.tokens_of (ser_expr e)) = Some (mask_perm e).
Proof. exact read_ser. Qed.

(** in particular the tree itself when all permission values are below 2^32 *)
Theorem E2E_glue_roundtrip_exact : forall e, perm_bits_small e ->
  read_expr (Ser.tokens_of (ser_expr e)) = Some e.
Proof. exact read_ser_exact. Qed.

(** the ingredients: numerals of any size and strings of any code points round-trip *)
Theorem E2E_glue_leaves :
  (forall n, dec_value (print_dec n) = n)
  /\ (forall n, Ser.hex_value (print_hex n) = n)
  /\ (forall s, de_str (ser_str s) = s)
  /\ (forall s, Ser.tokens_of (ser_str s) = [ser_str s]).
Proof. exact (conj dec_print (conj hex_print (conj de_ser_str toks_str))). Qed.

(** the truncation is real *)
Theorem E2E_glue_truncates :
  read_expr (Ser.tokens_of (ser_expr (ETest (TPerm PAny 4294967296)))) = Some (ETest (TPerm PAny 0)).
Proof. exact read_ser_truncates. Qed.

(** ** Non-vacuity *)
(** the hypotheses of E2E_text_to_meaning hold of the input of C06_example, a toy host and a
    file; the text, the tree, the options and the meaning, evaluated *)
Example E2E_example :
  host_law toy_host
  /\ written_ok ex1 /\ List.length bs1 = List.length (written_items ex1)
  /\ wf_sentence (written_sentence ex1 bs1 [])
  /\ first_unsupported (written_tree ex1) = None
  /\ ctime_free (written_tree ex1) = true /\ defined (written_tree ex1) toy_file = true
  /\ Surface.render (written_sentence ex1 bs1 [])
     = chars "-threads 3 -depth ( -name 'a b' -o -uid +5 ) -print"
  /\ written_tree ex1
     = EAnd (EOr (ETest (TName (chars "a b"))) (ETest (TUserId (Gt 5)))) (EAction APrint)
  /\ opts_for (written_opts ex1) = {| opt_depth := true; opt_threads := Some 3 |}
  /\ feval toy_host (wrap (written_tree ex1)) [] toy_file
     = (true, [(DStdout, chars "d/a b", Some 10)], false).
Proof.
  split; [exact toy_host_law|]. split; [exact ex1_ok|]. split; [exact ex1_len|].
  split; [exact ex1_wf|]. repeat split; vm_compute; reflexivity.
Qed.

(** the hypotheses of E2E_unsupported hold of  -name 'a b' -prune *)
Example E2E_example_unsupported :
  written_ok ex_prune /\ List.length bs_prune = List.length (written_items ex_prune)
  /\ wf_sentence (written_sentence ex_prune bs_prune [])
  /\ Surface.render (written_sentence ex_prune bs_prune []) = chars "-name 'a b' -prune"
  /\ first_unsupported (written_tree ex_prune) = Some (UnsupportedAction, "Prune"%string).
Proof.
  split; [exact ex_prune_ok|]. split; [exact ex_prune_len|]. split; [exact ex_prune_wf|].
  split; vm_compute; reflexivity.
Qed.

(** a tree with every kind of node, a format string, large numbers, an empty string and
    strings with a space, a dot, a control character and a non-ASCII character: its one-line
    serialisation, and the hypothesis of E2E_glue_roundtrip_exact *)
Example E2E_example_glue :
  let e := EList (EPrec (ENot (EAnd (ETest (TPerm PAtLeast 4095))
                                    (ETest (TSize (Gt (Size UGiga 18446744073709551616)))))))
                 (EOr (EAnd (ETest (TType [FFile; FLink])) (ETest (TXattrMatch [] (chars "a .b" ++ [10; 955]))))
                      (EList (EAction (AFilePrintFormatted (chars "o u")
                                         [ELit (chars "x y"); EField (FModifyFormatted 72);
                                          EField (FXAttr (chars "k")); ESpecial (XAscii 7);
                                          ESpecial XNewline]))
                             (EAnd (EGlobal (GThreads 4)) EPositional))) in
  perm_bits_small e
  /\ ser_expr e
     = chars ("List Prec Not And T Perm AtLeast 4095 T Size Gt GigaByte 18446744073709551616 "
              ++ "Or And T Type 2 File Link T XattrMatch S S61.20.2e.62.a.3bb "
              ++ "List A FilePrintFormatted S6f.20.75 5 L S78.20.79 F ModifyFormatted 48 "
              ++ "F XAttr S6b X Ascii 7 X Newline And G Threads 4 P XDev")
  /\ read_expr (Ser.tokens_of (ser_expr e)) = Some e.
Proof.
  intros e. split; [|split].
  - cbn. repeat split; reflexivity.
  - vm_compute. reflexivity.
  - vm_compute. reflexivity.
Qed.
