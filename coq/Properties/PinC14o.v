(** The statements of C14o pinned by [Check name : statement]: a theorem cannot be weakened
    without this file failing to compile. *)
From Coq Require Import List String NArith.
From FP Require Import Model.Chars Model.Winnow Model.Ast Model.Args Model.Format.
From FP Require Import Spec.Decimal Spec.FormatSpec.
From FP Require Properties.C14o.
From FP Require Model.Compile.
Import ListNotations.
Local Open Scope N_scope.

Check C14o.C14o_short_never_octal : forall os rest es,
  Forall Octal os -> (List.length os < 3)%nat -> not_starting_with Octal rest ->
  Seg (bsl :: os ++ rest) es -> forall n es', es <> ESpecial (XAscii n) :: es'.
Check C14o.C14o_short_null : forall os' rest es,
  Forall Octal os' -> (List.length os' < 2)%nat -> not_starting_with Octal rest ->
  Seg (bsl :: 48 :: os' ++ rest) es ->
  exists es', es = ESpecial XNull :: es' /\ Seg (os' ++ rest) es'.
Check C14o.C14o_short_backslash : forall c os' rest es,
  Octal c -> c <> 48 -> Forall Octal os' -> (List.length os' < 2)%nat ->
  not_starting_with Octal rest -> Seg (bsl :: c :: os' ++ rest) es ->
  exists l rest' es', es = ESpecial XBackslash :: ELit (c :: os' ++ l) :: es'
    /\ Forall Plain l /\ rest = l ++ rest' /\ Boundary rest' /\ Seg rest' es'.
Check C14o.C14o_parse_short_never_octal : forall os rest es,
  Forall Octal os -> (List.length os < 3)%nat -> not_starting_with Octal rest ->
  parse_format (bsl :: os ++ rest) = (Ok es, []) -> forall n es', es <> ESpecial (XAscii n) :: es'.
Check C14o.C14o_parse_short_null : forall os' rest es,
  Forall Octal os' -> (List.length os' < 2)%nat -> not_starting_with Octal rest ->
  parse_format (bsl :: 48 :: os' ++ rest) = (Ok es, []) ->
  exists es', es = ESpecial XNull :: es' /\ parse_format (os' ++ rest) = (Ok es', []).
Check C14o.C14o_parse_short_backslash : forall c os' rest es,
  Octal c -> c <> 48 -> Forall Octal os' -> (List.length os' < 2)%nat ->
  not_starting_with Octal rest -> parse_format (bsl :: c :: os' ++ rest) = (Ok es, []) ->
  exists l rest' es', es = ESpecial XBackslash :: ELit (c :: os' ++ l) :: es'
    /\ Forall Plain l /\ rest = l ++ rest' /\ Boundary rest' /\ parse_format rest' = (Ok es', []).
Check C14o.C14o_parsed_codes_are_scalar : forall fmt i r n,
  parse_format i = (Ok fmt, r) -> In (ESpecial (XAscii n)) fmt ->
  n <= 511 /\ Compile.scalar_or_zero n = n.
Check C14o.C14o_pin :
  Seg (chars "\12") [ESpecial XBackslash; ELit (chars "12")]
  /\ Seg (chars "\7") [ESpecial XBackslash; ELit (chars "7")]
  /\ Seg (chars "\0") [ESpecial XNull]
  /\ Seg (chars "\01") [ESpecial XNull; ELit (chars "1")]
  /\ Seg (chars "\128") [ESpecial XBackslash; ELit (chars "128")]
  /\ Seg (chars "\12\n") [ESpecial XBackslash; ELit (chars "12"); ESpecial XNewline]
  /\ Seg (chars "\123") [ESpecial (XAscii 83)]
  /\ Seg (chars "\0123") [ESpecial (XAscii 10); ELit (chars "3")].
