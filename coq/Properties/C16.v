(** C16 — Concurrent scanner threads never tear or mix output records.
    Statements only; definitions are in Spec/Interleave.v, proofs in Proofs/Mutex.v. *)
From Coq Require Import String List Arith NArith Permutation.
From FP Require Import Model.Chars Spec.Interleave Proofs.Mutex.
Import ListNotations.

(** in every reachable state every port holds a sequence of whole records of the program
    (each call's record at most once) followed by what the one thread currently inside a
    critical section on that port has written so far *)
Theorem C16_records : forall guard prog st,
  Forall (disciplined guard) prog -> steps (init prog) st ->
  forall p, exists (done rest : list call) (partial : str),
    out st p = concat (map call_record done) ++ partial
    /\ Permutation (done ++ rest) (calls_on p (concat prog))
    /\ partial_on guard prog st p partial.
Proof. exact records_reachable. Qed.

(** when all threads have finished every port holds exactly the records addressed to it, whole,
    each once, in some order *)
Theorem C16_final : forall guard prog st,
  Forall (disciplined guard) prog -> steps (init prog) st -> final st ->
  forall p, exists rs, out st p = concat rs /\ Permutation rs (records_on p (concat prog)).
Proof. exact records_final. Qed.

(** no interleaving deadlocks (this needs no locking discipline) *)
Theorem C16_progress : forall prog st,
  steps (init prog) st -> ~ final st -> exists st', step st st'.
Proof. exact progress. Qed.

(** a thread inside a critical section on [m] is the owner of [m]: at most one at a time *)
Theorem C16_exclusive : forall prog st i m p wd wl,
  steps (init prog) st -> in_section prog st i m p wd wl -> owner st m = Some i.
Proof. exact section_owner. Qed.

(** every step consumes one of the finitely many atomic steps: with [C16_progress], every
    schedule can be extended to a final state and none is infinite *)
Theorem C16_terminates : forall st st', step st st' -> remaining st' < remaining st.
Proof. exact step_decreases. Qed.

(** non-vacuity: two threads, each calling a plain printer (payload, newline) and a framed
    printer (payload, NUL, tag) on port 0 guarded by mutex 0; a complete schedule in which the
    sections of the two threads alternate *)
Example C16_example_final :
  let guard := fun _ : nat => Some 0 in
  let prog :=
    [ [Crit 0 0 [chars "a"; [10%N]]; Crit 0 0 [chars "b"; [0%N]; chars "1"]];
      [Crit 0 0 [chars "c"; [10%N]]; Crit 0 0 [chars "d"; [0%N]; chars "1"]] ] in
  Forall (disciplined guard) prog
  /\ exists st, steps (init prog) st /\ final st
       /\ out st 0 = concat [chars "a" ++ [10%N]; chars "c" ++ [10%N];
                             chars "d" ++ [0%N] ++ chars "1"; chars "b" ++ [0%N] ++ chars "1"].
Proof.
  intros guard prog. split; [repeat constructor|].
  exists (match exec [0;0;0;0; 1;1;1;1; 1;1;1;1;1; 0;0;0;0;0] (init prog) with
          | Some s => s | None => init prog end).
  split; [apply exec_sound with (sched := [0;0;0;0; 1;1;1;1; 1;1;1;1;1; 0;0;0;0;0]);
          vm_compute; reflexivity|].
  split; [vm_compute; repeat constructor|vm_compute; reflexivity].
Qed.

(** a reachable state of the same program in which thread 0 is inside its first section, has
    written the payload but not the newline, and thread 1 cannot take the mutex *)
Example C16_example_partial :
  let prog :=
    [ [Crit 0 0 [chars "a"; [10%N]]; Crit 0 0 [chars "b"; [0%N]; chars "1"]];
      [Crit 0 0 [chars "c"; [10%N]]; Crit 0 0 [chars "d"; [0%N]; chars "1"]] ] in
  exists st, steps (init prog) st /\ ~ final st
    /\ out st 0 = chars "a" /\ in_section prog st 0 0 0 [chars "a"] [[10%N]]
    /\ exec1 1 st = None.
Proof.
  intros prog.
  exists (match exec [0;0] (init prog) with Some s => s | None => init prog end).
  split; [apply exec_sound with (sched := [0;0]); vm_compute; reflexivity|].
  split; [intros H; vm_compute in H; inversion H; discriminate|].
  split; [vm_compute; reflexivity|].
  split; [|vm_compute; reflexivity].
  exists [], [Crit 0 0 [chars "b"; [0%N]; chars "1"]]. split; vm_compute; reflexivity.
Qed.
