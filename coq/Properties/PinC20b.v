(** The statements of C20b pinned by [Check name : statement]. *)
From Coq Require Import List NArith String.
From FP Require Import Model.Chars Model.Ast Model.Sexp Model.Compile Spec.GuileReader.
From FP Require Properties.C20b.
Import ListNotations.
Local Open Scope N_scope.

Check C20b.C20b_text_split : forall c, exists pre post,
  forall p, scheme_text c p = pre ++ print (lstr p) ++ post.
Check C20b.C20b_literal_decodes : forall p,
  erase (lstr p) = SStr p /\ read_all (print (lstr p)) = Some [SStr p].
Check C20b.C20b_literal_injective : forall p1 p2, print (lstr p1) = print (lstr p2) -> p1 = p2.
Check C20b.C20b_two_paths : forall c, exists pre post, forall p1 p2, p1 <> p2 ->
  scheme_text c p1 = pre ++ print (lstr p1) ++ post
  /\ scheme_text c p2 = pre ++ print (lstr p2) ++ post
  /\ print (lstr p1) <> print (lstr p2)
  /\ scheme_text c p1 <> scheme_text c p2.
